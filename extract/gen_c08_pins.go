package main

// C08: the functions GoawkModel.C08 mirrors (see pins.go).
func init() {
	registerGen(func() (string, string) {
		return pinGen("C08Pins", []pin{
			{"interp/io.go", "csvSplitter", "scan"},
			{"interp/io.go", "interp", "writeCSV"},
			{"interp/io.go", "", "lenNewline"},
			{"interp/io.go", "", "nextRune"},
			{"interp/io.go", "interp", "setFieldNames"},
		})
	})
}
