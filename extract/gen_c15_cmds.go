package main

// C15 — regenerated facts about the commands the interpreter starts and waits for.
//
// From interp/io.go: the body of execShell (CommandContext under a context, WaitDelay). From the whole package interp:
// every assignment to the Stdin field of a command (function, statement) — these are the commands that get the
// interpreter's own standard input —, every call of exec.Command / exec.CommandContext, every call of cmd.Wait /
// waitExitCode (the places where the interpreter waits for a command).

import (
	"go/ast"
	"strconv"
	"strings"
)

func init() {
	registerGen(func() (string, string) {
		s := header("C15Cmds", "interp/io.go (execShell), package interp (cmd.Stdin assignments, exec.Command constructors, Wait call sites)")
		iof := parseFile("interp/io.go")
		es := findFunc(iof, "interp", "execShell")
		var body []string
		waitDelay := -1
		for _, st := range es.Body.List {
			body = append(body, c15Norm(src(st)))
			if as, ok := st.(*ast.AssignStmt); ok && len(as.Lhs) == 1 && c15Norm(src(as.Lhs[0])) == "cmd.WaitDelay" {
				rhs := c15Norm(src(as.Rhs[0]))
				if strings.HasSuffix(rhs, " * time.Millisecond") {
					if n, err := strconv.Atoi(strings.TrimSuffix(rhs, " * time.Millisecond")); err == nil {
						waitDelay = n
					}
				}
			}
		}
		if waitDelay < 0 {
			panic("execShell no longer sets cmd.WaitDelay = <n> * time.Millisecond")
		}
		s += "/-- the statements of `execShell` -/\n"
		s += "def execShellBody : List String := " + leanStrList(body) + "\n"
		s += "/-- `cmd.WaitDelay` of every command, in milliseconds -/\n"
		s += "def waitDelayMs : Nat := " + itoa(waitDelay) + "\n"

		var stdinWrites, ctors, waits [][2]string
		for _, rel := range goFiles("interp") {
			f := parseFile(rel)
			for _, d := range f.Decls {
				fd, ok := d.(*ast.FuncDecl)
				if !ok || fd.Body == nil {
					continue
				}
				name := fd.Name.Name
				if fd.Recv != nil && len(fd.Recv.List) > 0 {
					name = typeName(fd.Recv.List[0].Type) + "." + name
				}
				ast.Inspect(fd.Body, func(n ast.Node) bool {
					switch x := n.(type) {
					case *ast.AssignStmt:
						for _, l := range x.Lhs {
							if sel, ok := l.(*ast.SelectorExpr); ok && sel.Sel.Name == "Stdin" {
								stdinWrites = append(stdinWrites, [2]string{name, c15Norm(src(x))})
							}
						}
					case *ast.CallExpr:
						fn := c15Norm(src(x.Fun))
						switch {
						case fn == "exec.Command" || fn == "exec.CommandContext":
							ctors = append(ctors, [2]string{name, fn})
						case fn == "waitExitCode" || strings.HasSuffix(fn, ".Wait") || strings.HasSuffix(fn, ".StdinPipe"):
							waits = append(waits, [2]string{name, fn})
						}
					}
					return true
				})
			}
		}
		s += "/-- every assignment to a `Stdin` field in package interp: (function, statement) — the commands that are handed the interpreter's standard input -/\n"
		s += c15Pairs("cmdStdinWrites", stdinWrites)
		s += "/-- every call of exec.Command / exec.CommandContext in package interp: (function, callee) -/\n"
		s += c15Pairs("commandConstructors", ctors)
		s += "/-- every call of waitExitCode / (*exec.Cmd).Wait / StdinPipe in package interp: (function, callee) -/\n"
		s += c15Pairs("waitCallSites", waits)
		return "C15Cmds.lean", s + footer("C15Cmds")
	})
}
