package main

// C06: the functions GoawkModel.C06 mirrors (see pins.go).
func init() {
	registerGen(func() (string, string) {
		return pinGen("C06Pins", []pin{
			{"interp/io.go", "interp", "setLine"},
			{"interp/io.go", "interp", "ensureFields"},
			{"interp/io.go", "interp", "splitOnFieldSepRegex"},
			{"interp/interp.go", "interp", "getField"},
			{"interp/interp.go", "interp", "setField"},
			{"interp/interp.go", "interp", "joinFields"},
		})
	})
}
