module verifextract

go 1.20
