package main

// C03: lexer tables — the Token constant list (lexer/token.go), the keyword map, and the operator switch of
// lexer.scan() normalised to a character trie: (first char, token when no continuation matches,
// [(second char, token, [(third char, token)])]).  Case bodies that are not one of the three recognised shapes
// (`tok = X`, `tok = l.choice(c, ONE, TWO)`, `switch l.ch { case c: l.next(); tok = … ; default: tok = … }`) are
// listed in `special` (numbers, strings, '&') — the hand model covers those and `gen_matches` pins the list.

import (
	"fmt"
	"go/ast"
	"go/token"
	"sort"
	"strconv"
	"strings"
)

type c03Alt struct {
	c    int
	tok  string
	alts []c03Alt
}

func c03Char(e ast.Expr) int {
	bl, ok := e.(*ast.BasicLit)
	if !ok || bl.Kind != token.CHAR {
		panic("C03Lex: expected a character literal, got " + src(e))
	}
	s, err := strconv.Unquote(bl.Value)
	if err != nil || len(s) != 1 {
		r, _, _, err2 := strconv.UnquoteChar(bl.Value[1:len(bl.Value)-1], '\'')
		if err2 != nil {
			panic("C03Lex: bad char literal " + bl.Value)
		}
		return int(r)
	}
	return int(s[0])
}

// c03Tok recognises `tok = X` or `tok = l.choice('c', ONE, TWO)`; returns default token and alternatives.
func c03Tok(st ast.Stmt) (string, []c03Alt, bool) {
	as, ok := st.(*ast.AssignStmt)
	if !ok || len(as.Lhs) != 1 || len(as.Rhs) != 1 || src(as.Lhs[0]) != "tok" {
		return "", nil, false
	}
	switch r := as.Rhs[0].(type) {
	case *ast.Ident:
		return r.Name, nil, true
	case *ast.CallExpr:
		if src(r.Fun) == "l.choice" && len(r.Args) == 3 {
			return src(r.Args[1]), []c03Alt{{c03Char(r.Args[0]), src(r.Args[2]), nil}}, true
		}
	}
	return "", nil, false
}

func c03Body(body []ast.Stmt) (string, []c03Alt, bool) {
	if len(body) != 1 {
		return "", nil, false
	}
	if d, a, ok := c03Tok(body[0]); ok {
		return d, a, true
	}
	sw, ok := body[0].(*ast.SwitchStmt)
	if !ok || src(sw.Tag) != "l.ch" || sw.Init != nil {
		return "", nil, false
	}
	dflt := ""
	var alts []c03Alt
	for _, cs := range sw.Body.List {
		cc := cs.(*ast.CaseClause)
		if cc.List == nil {
			d, a, ok := c03Tok(cc.Body[0])
			if !ok || len(cc.Body) != 1 || a != nil {
				return "", nil, false
			}
			dflt = d
			continue
		}
		// case 'c': l.next(); tok = …
		if len(cc.List) != 1 || len(cc.Body) != 2 || src(cc.Body[0]) != "l.next()" {
			return "", nil, false
		}
		d, a, ok := c03Tok(cc.Body[1])
		if !ok {
			return "", nil, false
		}
		alts = append(alts, c03Alt{c03Char(cc.List[0]), d, a})
	}
	if dflt == "" {
		return "", nil, false
	}
	return dflt, alts, true
}

func c03Alts(as []c03Alt, depth int) string {
	parts := make([]string, len(as))
	for i, a := range as {
		if depth == 0 {
			parts[i] = fmt.Sprintf("(%d, T.%s)", a.c, a.tok)
		} else {
			parts[i] = fmt.Sprintf("(%d, T.%s, %s)", a.c, a.tok, c03Alts(a.alts, depth-1))
		}
	}
	return "[" + strings.Join(parts, ", ") + "]"
}

func init() {
	registerGen(func() (string, string) {
		s := header("C03Lex", "lexer/token.go, lexer/lexer.go")
		tf := parseFile("lexer/token.go")
		toks := iotaConsts(tf, "Token")
		// drop the aliases after the iota run (LAST = REGEX …): they have explicit values
		var names []string
		for _, n := range toks {
			if n == "LAST" || n == "FIRST_FUNC" || n == "LAST_FUNC" {
				continue
			}
			names = append(names, n)
		}
		s += "def tokenNames : List String := " + leanStrList(names) + "\n\nnamespace T\n"
		for i, n := range names {
			s += fmt.Sprintf("def %s : Nat := %d\n", n, i)
		}
		s += "end T\n\n"
		// keyword map
		var kws []string
		for _, d := range tf.Decls {
			gd, ok := d.(*ast.GenDecl)
			if !ok || gd.Tok != token.VAR {
				continue
			}
			for _, sp := range gd.Specs {
				vs := sp.(*ast.ValueSpec)
				if vs.Names[0].Name != "keywordTokens" {
					continue
				}
				for _, el := range vs.Values[0].(*ast.CompositeLit).Elts {
					kv := el.(*ast.KeyValueExpr)
					k, _ := strconv.Unquote(kv.Key.(*ast.BasicLit).Value)
					bs := make([]string, len(k))
					for i := 0; i < len(k); i++ {
						bs[i] = strconv.Itoa(int(k[i]))
					}
					kws = append(kws, fmt.Sprintf("/- %-8s -/ ([%s], T.%s)", k, strings.Join(bs, ", "), src(kv.Value)))
				}
			}
		}
		if len(kws) == 0 {
			panic("C03Lex: keywordTokens not found")
		}
		sort.Strings(kws)
		s += "/-- keywordTokens: (bytes of the keyword, token) sorted by keyword -/\ndef keywords : List (List UInt8 × Nat) := [\n  " + strings.Join(kws, ",\n  ") + "]\n\n"
		// operator switch of scan()
		lf := parseFile("lexer/lexer.go")
		fn := findFunc(lf, "Lexer", "scan")
		var opSwitch *ast.SwitchStmt
		for _, st := range fn.Body.List {
			if sw, ok := st.(*ast.SwitchStmt); ok && src(sw.Tag) == "ch" {
				opSwitch = sw
			}
		}
		if opSwitch == nil {
			panic("C03Lex: `switch ch` not found in Lexer.scan")
		}
		var ops, special []string
		dfltShape := ""
		for _, cs := range opSwitch.Body.List {
			cc := cs.(*ast.CaseClause)
			if cc.List == nil {
				var b []string
				for _, st := range cc.Body {
					b = append(b, src(st))
				}
				dfltShape = strings.Join(b, "; ")
				continue
			}
			d, alts, ok := c03Body(cc.Body)
			for _, e := range cc.List {
				c := c03Char(e)
				if ok {
					ops = append(ops, fmt.Sprintf("(%d, T.%s, %s)", c, d, c03Alts(alts, 1)))
				} else {
					special = append(special, strconv.Itoa(c))
				}
			}
		}
		s += "/-- (first byte, token without continuation, [(second byte, token, [(third byte, token)])]) in source order -/\n"
		s += "def ops : List (Nat × Nat × List (Nat × Nat × List (Nat × Nat))) := [\n  " + strings.Join(ops, ",\n  ") + "]\n\n"
		s += "/-- first bytes whose case body is not a plain operator shape (numbers, quotes, '&') -/\n"
		s += "def special : List Nat := [" + strings.Join(special, ", ") + "]\n\n"
		s += "def defaultCase : String := " + leanStr(dfltShape) + "\n\n"
		// the '&' case: tok = l.choice('&', ILLEGAL, AND) followed by an early return
		// whitespace set of the skip loop and the name/digit predicates, as source text (pinned by gen_matches)
		for _, st := range fn.Body.List {
			if f, ok := st.(*ast.ForStmt); ok && f.Init == nil && f.Post == nil && strings.Contains(src(f.Cond), "' '") {
				s += "def wsCond : String := " + leanStr(src(f.Cond)) + "\n"
			}
		}
		s += "def isNameStartSrc : String := " + leanStr(src(findFunc(lf, "", "isNameStart").Body.List[0])) + "\n"
		s += "def isDigitSrc : String := " + leanStr(src(findFunc(lf, "", "isDigit").Body.List[0])) + "\n"
		for _, name := range []string{"next", "unread", "choice"} {
			var b []string
			for _, st := range findFunc(lf, "Lexer", name).Body.List {
				b = append(b, strings.Join(strings.Fields(stripGoComments(src(st))), " "))
			}
			s += "def " + name + "Src : String := " + leanStr(strings.Join(b, "; ")) + "\n"
		}
		return "C03Lex.lean", s + footer("C03Lex")
	})
}

func stripGoComments(s string) string {
	var out []string
	for _, ln := range strings.Split(s, "\n") {
		if i := strings.Index(ln, "//"); i >= 0 {
			ln = ln[:i]
		}
		out = append(out, ln)
	}
	return strings.Join(out, "\n")
}
