package main

// C14 — regenerated facts about the interpreter state record and the functions that (re)initialise it.
//
// From interp/interp.go and interp/newexecute.go:
//   * every field name of `type interp struct`, in order;
//   * for newInterp / resetCore / resetVars / Interpreter.ResetRand / setExecuteConfig / Interpreter.Execute /
//     Interpreter.ExecuteContext: the list of effects on fields of the interpreter state
//     (field, kind, normalised right-hand side, unconditional?) where kind is one of
//        zero      p.f = nil | "" | false | 0 | null() | p.f[:0]          (the Go zero value, or an empty slice)
//        emptymap  p.f = make(map…)  |  for k := range p.f { delete(p.f, k) }
//        elemszero for i := range p.f { p.f[i] = null() }   |  p.f = make([]T, n)
//        elemsempty for _, a := range p.f { for k := range a { delete(a, k) } } | make + loop that makes each element
//        set       p.f = <any other expression>   (rhs = its source text)
//        setsub    p.f.g = … / p.f[i] = …
//        call      p.f.M(…)                       (rhs = "M(<argument source>)")
//   * for setExecuteConfig: the fields definitely assigned on every path that reaches the final `return nil`
//     (a small must-assign analysis), the fields read before they are definitely assigned, and the methods of p it calls;
//   * the sequence of interp methods called by Execute, ExecuteContext, ExecProgram and New.

import (
	"fmt"
	"go/ast"
	"go/token"
	"sort"
	"strings"
)

type c14Effect struct {
	field, kind, rhs string
	uncond           bool
}

// c14Recv reports the field name if e is <recv>.<field> where recv is `p` (methods of *interp, or the local p in
// newInterp) or `p.interp` (methods of *Interpreter).
func c14Field(e ast.Expr, viaInterp bool) (string, bool) {
	sel, ok := e.(*ast.SelectorExpr)
	if !ok {
		return "", false
	}
	if viaInterp {
		inner, ok := sel.X.(*ast.SelectorExpr)
		if !ok || inner.Sel.Name != "interp" {
			return "", false
		}
		if id, ok := inner.X.(*ast.Ident); !ok || id.Name != "p" {
			return "", false
		}
		return sel.Sel.Name, true
	}
	if id, ok := sel.X.(*ast.Ident); ok && id.Name == "p" {
		return sel.Sel.Name, true
	}
	return "", false
}

// c14ZeroConsts: package constants declared with the literal value 0 (`DefaultMode IOMode = 0`); c14StructTypes: named struct
// types, whose empty composite literal `T{}` is the zero value. Both are read from interp/interp.go before the walk.
var c14ZeroConsts, c14StructTypes = map[string]bool{}, map[string]bool{}

func c14ScanDecls(f *ast.File) {
	for _, d := range f.Decls {
		gd, ok := d.(*ast.GenDecl)
		if !ok {
			continue
		}
		for _, sp := range gd.Specs {
			switch x := sp.(type) {
			case *ast.ValueSpec:
				if gd.Tok == token.CONST && len(x.Names) == 1 && len(x.Values) == 1 {
					if bl, ok := x.Values[0].(*ast.BasicLit); ok && bl.Value == "0" {
						c14ZeroConsts[x.Names[0].Name] = true
					}
				}
			case *ast.TypeSpec:
				if _, ok := x.Type.(*ast.StructType); ok {
					c14StructTypes[x.Name.Name] = true
				}
			}
		}
	}
}

func c14IsZero(e ast.Expr) bool {
	switch x := e.(type) {
	case *ast.Ident:
		return x.Name == "nil" || x.Name == "false" || c14ZeroConsts[x.Name]
	case *ast.CompositeLit:
		if id, ok := x.Type.(*ast.Ident); ok && len(x.Elts) == 0 && c14StructTypes[id.Name] {
			return true
		}
	case *ast.BasicLit:
		return x.Value == `""` || x.Value == "0" || x.Value == "``"
	case *ast.CallExpr:
		if id, ok := x.Fun.(*ast.Ident); ok && id.Name == "null" && len(x.Args) == 0 {
			return true
		}
	}
	return false
}

func c14Norm(s string) string { return strings.Join(strings.Fields(s), " ") }

type c14Walker struct {
	viaInterp bool
	effects   []c14Effect
	calls     []string // methods called on the receiver: p.m(...) / p.interp.m(...)
	fieldSet  map[string]bool
}

func (w *c14Walker) add(f, kind, rhs string, uncond bool) {
	w.effects = append(w.effects, c14Effect{f, kind, c14Norm(rhs), uncond})
}

// rootField: the state field at the root of an lvalue such as p.f, p.f.g, p.f[i], p.f.g[i].h
func (w *c14Walker) rootField(e ast.Expr) (string, bool, bool) { // field, direct, ok
	direct := true
	for {
		if f, ok := c14Field(e, w.viaInterp); ok && w.fieldSet[f] {
			return f, direct, true
		}
		switch x := e.(type) {
		case *ast.SelectorExpr:
			e = x.X
		case *ast.IndexExpr:
			e = x.X
		case *ast.StarExpr:
			e = x.X
		case *ast.ParenExpr:
			e = x.X
		default:
			return "", false, false
		}
		direct = false
	}
}

func (w *c14Walker) assign(lhs, rhs ast.Expr, rhsSrc string, uncond bool) {
	f, direct, ok := w.rootField(lhs)
	if !ok {
		return
	}
	if !direct {
		w.add(f, "setsub", src(lhs)+" = "+rhsSrc, uncond)
		return
	}
	if rhs != nil {
		if c14IsZero(rhs) {
			w.add(f, "zero", "", uncond)
			return
		}
		if sl, ok := rhs.(*ast.SliceExpr); ok && sl.Low == nil && sl.High != nil && src(sl.High) == "0" {
			if g, ok := c14Field(sl.X, w.viaInterp); ok && g == f {
				w.add(f, "zero", "", uncond)
				return
			}
		}
		if call, ok := rhs.(*ast.CallExpr); ok {
			if id, ok := call.Fun.(*ast.Ident); ok && id.Name == "make" && len(call.Args) >= 1 {
				switch call.Args[0].(type) {
				case *ast.MapType:
					w.add(f, "emptymap", "", uncond)
					return
				case *ast.ArrayType:
					if at := call.Args[0].(*ast.ArrayType); at.Len == nil {
						if _, isMap := at.Elt.(*ast.MapType); isMap {
							w.add(f, "set", rhsSrc, uncond) // slice of maps: elements are nil until a loop makes them
						} else {
							w.add(f, "elemszero", "", uncond)
						}
						return
					}
				}
			}
		}
	}
	w.add(f, "set", rhsSrc, uncond)
}

func (w *c14Walker) stmts(list []ast.Stmt, uncond bool) {
	for _, s := range list {
		w.stmt(s, uncond)
	}
}

func (w *c14Walker) stmt(s ast.Stmt, uncond bool) {
	switch st := s.(type) {
	case *ast.AssignStmt:
		if len(st.Lhs) == len(st.Rhs) {
			for i := range st.Lhs {
				w.assign(st.Lhs[i], st.Rhs[i], src(st.Rhs[i]), uncond)
			}
		} else {
			for i := range st.Lhs {
				w.assign(st.Lhs[i], nil, src(st.Rhs[0]), uncond)
			}
		}
		for _, r := range st.Rhs {
			w.exprCalls(r)
			// composite literal &interp{ f: v, … } in newInterp
			ast.Inspect(r, func(n ast.Node) bool {
				cl, ok := n.(*ast.CompositeLit)
				if !ok || typeName(cl.Type) != "interp" {
					return true
				}
				for _, el := range cl.Elts {
					if kv, ok := el.(*ast.KeyValueExpr); ok {
						if id, ok := kv.Key.(*ast.Ident); ok && w.fieldSet[id.Name] {
							w.add(id.Name, "set", src(kv.Value), uncond)
						}
					}
				}
				return true
			})
		}
	case *ast.IncDecStmt:
		if f, _, ok := w.rootField(st.X); ok {
			w.add(f, "set", src(st.X)+st.Tok.String(), uncond)
		}
	case *ast.ExprStmt:
		if call, ok := st.X.(*ast.CallExpr); ok {
			if sel, ok := call.Fun.(*ast.SelectorExpr); ok {
				if f, ok := c14Field(sel.X, w.viaInterp); ok && w.fieldSet[f] {
					args := make([]string, len(call.Args))
					for i, a := range call.Args {
						args[i] = src(a)
					}
					w.add(f, "call", sel.Sel.Name+"("+strings.Join(args, ", ")+")", uncond)
				}
			}
		}
		w.exprCalls(st.X)
	case *ast.RangeStmt:
		if f, ok := c14Field(st.X, w.viaInterp); ok && w.fieldSet[f] && len(st.Body.List) == 1 {
			// for k := range p.f { delete(p.f, k) }
			if es, ok := st.Body.List[0].(*ast.ExprStmt); ok {
				if call, ok := es.X.(*ast.CallExpr); ok {
					if id, ok := call.Fun.(*ast.Ident); ok && id.Name == "delete" && len(call.Args) == 2 {
						if g, ok := c14Field(call.Args[0], w.viaInterp); ok && g == f && src(call.Args[1]) == src(st.Key) {
							w.add(f, "emptymap", "", uncond)
							return
						}
					}
				}
			}
			// for i := range p.f { p.f[i] = null() }
			if as, ok := st.Body.List[0].(*ast.AssignStmt); ok && len(as.Lhs) == 1 && len(as.Rhs) == 1 && st.Value == nil {
				if ix, ok := as.Lhs[0].(*ast.IndexExpr); ok {
					if g, ok := c14Field(ix.X, w.viaInterp); ok && g == f && src(ix.Index) == src(st.Key) && c14IsZero(as.Rhs[0]) {
						w.add(f, "elemszero", "", uncond)
						return
					}
				}
			}
			// for _, a := range p.f { for k := range a { delete(a, k) } }
			if inner, ok := st.Body.List[0].(*ast.RangeStmt); ok && st.Value != nil && src(inner.X) == src(st.Value) && len(inner.Body.List) == 1 {
				if es, ok := inner.Body.List[0].(*ast.ExprStmt); ok {
					if call, ok := es.X.(*ast.CallExpr); ok {
						if id, ok := call.Fun.(*ast.Ident); ok && id.Name == "delete" && len(call.Args) == 2 &&
							src(call.Args[0]) == src(st.Value) && src(call.Args[1]) == src(inner.Key) {
							w.add(f, "elemsempty", "", uncond)
							return
						}
					}
				}
			}
		}
		w.exprCalls(st.X)
		w.stmts(st.Body.List, false)
	case *ast.ForStmt:
		// for i := 0; i < len(p.arrayIndexes); i++ { p.arrays[i] = make(map…) }   (newInterp)
		if len(st.Body.List) == 1 {
			if as, ok := st.Body.List[0].(*ast.AssignStmt); ok && len(as.Lhs) == 1 && len(as.Rhs) == 1 {
				if ix, ok := as.Lhs[0].(*ast.IndexExpr); ok {
					if f, ok := c14Field(ix.X, w.viaInterp); ok && w.fieldSet[f] {
						if call, ok := as.Rhs[0].(*ast.CallExpr); ok {
							if id, ok := call.Fun.(*ast.Ident); ok && id.Name == "make" {
								if _, isMap := call.Args[0].(*ast.MapType); isMap {
									w.add(f, "elemsempty", "", uncond)
									return
								}
							}
						}
					}
				}
			}
		}
		if st.Cond != nil {
			w.exprCalls(st.Cond)
		}
		w.stmts(st.Body.List, false)
	case *ast.IfStmt:
		if st.Init != nil {
			w.stmt(st.Init, uncond)
		}
		w.exprCalls(st.Cond)
		w.stmts(st.Body.List, false)
		if st.Else != nil {
			w.stmt(st.Else, false)
		}
	case *ast.BlockStmt:
		w.stmts(st.List, uncond)
	case *ast.SwitchStmt:
		if st.Tag != nil {
			w.exprCalls(st.Tag)
		}
		for _, c := range st.Body.List {
			w.stmts(c.(*ast.CaseClause).Body, false)
		}
	case *ast.ReturnStmt:
		for _, r := range st.Results {
			w.exprCalls(r)
		}
	case *ast.DeclStmt, *ast.DeferStmt:
		if d, ok := s.(*ast.DeferStmt); ok {
			w.exprCalls(d.Call)
		}
	}
}

// exprCalls records calls of methods on the receiver (p.m(…) or p.interp.m(…)) inside an expression.
func (w *c14Walker) exprCalls(e ast.Expr) {
	ast.Inspect(e, func(n ast.Node) bool {
		call, ok := n.(*ast.CallExpr)
		if !ok {
			return true
		}
		if sel, ok := call.Fun.(*ast.SelectorExpr); ok {
			if m, ok := c14Field(sel, w.viaInterp); ok && !w.fieldSet[m] {
				w.calls = append(w.calls, m)
			}
		} else if id, ok := call.Fun.(*ast.Ident); ok && (id.Name == "newInterp") {
			w.calls = append(w.calls, id.Name)
		}
		return true
	})
}

// ---- must-assign analysis for setExecuteConfig ---------------------------------------------------

type c14Must struct {
	w      *c14Walker
	reads  map[string]bool // fields read while not yet definitely assigned
	direct bool
}

// must returns the set of fields definitely (directly) assigned when the statement list completes normally, and whether
// it always terminates abruptly (return). `have` is what is definitely assigned on entry (used for the read analysis).
func (m *c14Must) list(stmts []ast.Stmt, have map[string]bool) (map[string]bool, bool) {
	cur := c14Copy(have)
	for _, s := range stmts {
		add, term := m.stmt(s, cur)
		if term {
			return nil, true
		}
		for f := range add {
			cur[f] = true
		}
	}
	return cur, false
}

func c14Copy(a map[string]bool) map[string]bool {
	r := map[string]bool{}
	for k := range a {
		r[k] = true
	}
	return r
}

func c14Inter(sets []map[string]bool) map[string]bool {
	if len(sets) == 0 {
		return map[string]bool{}
	}
	r := c14Copy(sets[0])
	for _, s := range sets[1:] {
		for k := range r {
			if !s[k] {
				delete(r, k)
			}
		}
	}
	return r
}

func (m *c14Must) readsIn(e ast.Node, have map[string]bool) {
	if e == nil {
		return
	}
	ast.Inspect(e, func(n ast.Node) bool {
		if sel, ok := n.(*ast.SelectorExpr); ok {
			if f, ok := c14Field(sel, m.w.viaInterp); ok && m.w.fieldSet[f] && !have[f] {
				m.reads[f] = true
			}
		}
		return true
	})
}

func (m *c14Must) stmt(s ast.Stmt, have map[string]bool) (map[string]bool, bool) {
	switch st := s.(type) {
	case *ast.AssignStmt:
		for _, r := range st.Rhs {
			m.readsIn(r, have)
		}
		res := map[string]bool{}
		for _, l := range st.Lhs {
			if f, direct, ok := m.w.rootField(l); ok {
				if direct {
					res[f] = true
				} else {
					m.readsIn(l, have) // p.f.g = … reads p.f
				}
			} else {
				m.readsIn(l, have)
			}
		}
		return res, false
	case *ast.ReturnStmt:
		for _, r := range st.Results {
			m.readsIn(r, have)
		}
		return nil, true
	case *ast.IfStmt:
		cur := c14Copy(have)
		if st.Init != nil {
			add, _ := m.stmt(st.Init, cur)
			for f := range add {
				cur[f] = true
			}
		}
		m.readsIn(st.Cond, cur)
		var outs []map[string]bool
		a, t := m.list(st.Body.List, cur)
		if !t {
			outs = append(outs, a)
		}
		if st.Else != nil {
			var b map[string]bool
			var tb bool
			if blk, ok := st.Else.(*ast.BlockStmt); ok {
				b, tb = m.list(blk.List, cur)
			} else {
				var add map[string]bool
				add, tb = m.stmt(st.Else, cur)
				if !tb {
					b = c14Copy(cur)
					for f := range add {
						b[f] = true
					}
				}
			}
			if !tb {
				outs = append(outs, b)
			}
		} else {
			outs = append(outs, cur)
		}
		if len(outs) == 0 {
			return nil, true
		}
		r := c14Inter(outs)
		return r, false
	case *ast.SwitchStmt:
		m.readsIn(st.Tag, have)
		var outs []map[string]bool
		hasDefault := false
		for _, c := range st.Body.List {
			cc := c.(*ast.CaseClause)
			if cc.List == nil {
				hasDefault = true
			}
			for _, e := range cc.List {
				m.readsIn(e, have)
			}
			a, t := m.list(cc.Body, have)
			if !t {
				outs = append(outs, a)
			}
		}
		if !hasDefault {
			outs = append(outs, c14Copy(have))
		}
		if len(outs) == 0 {
			return nil, true
		}
		return c14Inter(outs), false
	case *ast.ForStmt:
		m.readsIn(st.Init, have)
		m.readsIn(st.Cond, have)
		m.list(st.Body.List, have)
		return map[string]bool{}, false
	case *ast.RangeStmt:
		m.readsIn(st.X, have)
		m.list(st.Body.List, have)
		return map[string]bool{}, false
	case *ast.BlockStmt:
		r, t := m.list(st.List, have)
		return r, t
	default:
		m.readsIn(s, have)
		return map[string]bool{}, false
	}
}

func c14Sorted(m map[string]bool) []string {
	var r []string
	for k := range m {
		r = append(r, k)
	}
	sort.Strings(r)
	return r
}

func c14LeanEffects(name string, es []c14Effect) string {
	var b strings.Builder
	fmt.Fprintf(&b, "def %s : List (String × String × String × Bool) := [", name)
	for i, e := range es {
		if i > 0 {
			b.WriteString(",")
		}
		fmt.Fprintf(&b, "\n  (%s, %s, %s, %v)", leanStr(e.field), leanStr(e.kind), leanStr(e.rhs), e.uncond)
	}
	b.WriteString("]\n")
	return b.String()
}

func init() {
	registerGen(func() (string, string) {
		s := header("C14Fields", "interp/interp.go (type interp struct, newInterp, setExecuteConfig, ExecProgram), interp/newexecute.go (New, Execute, ExecuteContext, resetCore, resetVars, ResetRand)")
		ip := parseFile("interp/interp.go")
		ne := parseFile("interp/newexecute.go")
		c14ScanDecls(ip)

		// field names
		var fields []string
		for _, d := range ip.Decls {
			gd, ok := d.(*ast.GenDecl)
			if !ok || gd.Tok != token.TYPE {
				continue
			}
			for _, sp := range gd.Specs {
				ts := sp.(*ast.TypeSpec)
				if ts.Name.Name != "interp" {
					continue
				}
				stt, ok := ts.Type.(*ast.StructType)
				if !ok {
					panic("type interp is not a struct")
				}
				for _, f := range stt.Fields.List {
					if len(f.Names) == 0 {
						fields = append(fields, "embedded:"+typeName(f.Type))
					}
					for _, n := range f.Names {
						fields = append(fields, n.Name)
					}
				}
			}
		}
		if len(fields) == 0 {
			panic("type interp struct not found")
		}
		fieldSet := map[string]bool{}
		for _, f := range fields {
			fieldSet[f] = true
		}
		s += "def interpFields : List String := " + leanStrList(fields) + "\n\n"

		walk := func(fd *ast.FuncDecl, via bool) *c14Walker {
			w := &c14Walker{viaInterp: via, fieldSet: fieldSet}
			w.stmts(fd.Body.List, true)
			return w
		}
		type fn struct {
			lean string
			fd   *ast.FuncDecl
			via  bool
		}
		fns := []fn{
			{"newInterp", findFunc(ip, "", "newInterp"), false},
			{"resetCore", findFunc(ne, "interp", "resetCore"), false},
			{"resetVars", findFunc(ne, "interp", "resetVars"), false},
			{"resetRand", findFunc(ne, "Interpreter", "ResetRand"), true},
			{"setExecuteConfig", findFunc(ip, "interp", "setExecuteConfig"), false},
			{"execute", findFunc(ne, "Interpreter", "Execute"), true},
			{"executeContext", findFunc(ne, "Interpreter", "ExecuteContext"), true},
			{"resetVarsPublic", findFunc(ne, "Interpreter", "ResetVars"), true},
			{"execProgram", findFunc(ip, "", "ExecProgram"), false},
			{"new", findFunc(ne, "", "New"), false},
		}
		for _, f := range fns {
			w := walk(f.fd, f.via)
			s += c14LeanEffects(f.lean+"Effects", w.effects)
			s += "def " + f.lean + "Calls : List String := " + leanStrList(w.calls) + "\n\n"
		}

		// must-assign / read-before-write for setExecuteConfig
		sec := findFunc(ip, "interp", "setExecuteConfig")
		w := &c14Walker{fieldSet: fieldSet}
		m := &c14Must{w: w, reads: map[string]bool{}}
		// the function ends with `return nil`: analyse everything before it
		body := sec.Body.List
		last, ok := body[len(body)-1].(*ast.ReturnStmt)
		if !ok || len(last.Results) != 1 || src(last.Results[0]) != "nil" {
			panic("setExecuteConfig does not end with `return nil`")
		}
		must, term := m.list(body[:len(body)-1], map[string]bool{})
		if term {
			panic("setExecuteConfig: no normally completing path")
		}
		s += "/-- fields directly assigned on every path of setExecuteConfig that reaches its final `return nil` -/\n"
		s += "def setExecuteConfigMust : List String := " + leanStrList(c14Sorted(must)) + "\n"
		s += "/-- fields read by setExecuteConfig at a point where they are not yet definitely assigned by it -/\n"
		s += "def setExecuteConfigReadsBeforeWrite : List String := " + leanStrList(c14Sorted(m.reads)) + "\n"
		return "C14Fields.lean", s + footer("C14Fields")
	})
}
