package main

// C10: the source text (gofmt-normalised, comments dropped, one trimmed line per element) of the small pieces of code the
// Lean model GoawkModel.C10 mirrors line by line: floatToInt, the callBuiltin cases of the string builtins, substrChars,
// substrLengthChars, the sub() callback and the case conditions of split(). Props.C10 states `gen_matches_*` for each, so
// any edit of these pieces breaks an obligation and the check looks for a failing input.

import (
	"fmt"
	"go/ast"
	"strings"
)

func c10Lines(n ast.Node) []string {
	var out []string
	for _, l := range strings.Split(src(n), "\n") {
		l = strings.TrimSpace(l)
		if l != "" {
			out = append(out, l)
		}
	}
	return out
}

func c10BuiltinCase(fd *ast.FuncDecl, name string) []string {
	var res []string
	ast.Inspect(fd.Body, func(n ast.Node) bool {
		cc, ok := n.(*ast.CaseClause)
		if !ok || res != nil {
			return res == nil
		}
		for _, e := range cc.List {
			if src(e) == "compiler."+name {
				for _, st := range cc.Body {
					res = append(res, c10Lines(st)...)
				}
				return false
			}
		}
		return true
	})
	if res == nil {
		panic("callBuiltin case " + name + " not found")
	}
	return res
}

func init() {
	registerGen(func() (string, string) {
		s := header("C10Builtins", "interp/value.go, interp/vm.go, interp/functions.go, interp/interp.go")
		val := parseFile("interp/value.go")
		vm := parseFile("interp/vm.go")
		fn := parseFile("interp/functions.go")
		ip := parseFile("interp/interp.go")
		s += "def floatToInt : List String := " + leanStrList(c10Lines(findFunc(val, "", "floatToInt").Body)) + "\n"
		cb := findFunc(vm, "interp", "callBuiltin")
		for _, b := range []string{"BuiltinSubstr", "BuiltinSubstrLength", "BuiltinInt", "BuiltinIndex", "BuiltinMatch", "BuiltinLengthArg", "BuiltinSub", "BuiltinGsub"} {
			s += "def " + strings.ToLower(b[:1]) + b[1:] + " : List String := " + leanStrList(c10BuiltinCase(cb, b)) + "\n"
		}
		s += "def substrChars : List String := " + leanStrList(c10Lines(findFunc(fn, "", "substrChars").Body)) + "\n"
		s += "def substrLengthChars : List String := " + leanStrList(c10Lines(findFunc(fn, "", "substrLengthChars").Body)) + "\n"
		s += "def sub : List String := " + leanStrList(c10Lines(findFunc(fn, "interp", "sub").Body)) + "\n"
		// split: the case conditions of its switch, in order, and the statements of the literal-separator cases
		var conds []string
		ast.Inspect(findFunc(fn, "interp", "split").Body, func(n ast.Node) bool {
			sw, ok := n.(*ast.SwitchStmt)
			if !ok || conds != nil {
				return conds == nil
			}
			for _, c := range sw.Body.List {
				cc := c.(*ast.CaseClause)
				if len(cc.List) == 0 {
					conds = append(conds, "default")
					for _, st := range cc.Body {
						conds = append(conds, c10Lines(st)...)
					}
					continue
				}
				conds = append(conds, "case "+src(cc.List[0]))
				if strings.Contains(src(cc.List[0]), "CSVMode") {
					continue
				}
				for _, st := range cc.Body {
					conds = append(conds, c10Lines(st)...)
				}
			}
			return false
		})
		s += "def splitCases : List String := " + leanStrList(conds) + "\n"
		// split: what follows the switch — how the pieces are stored into the target array and what is returned
		var store []string
		after := false
		for _, st := range findFunc(fn, "interp", "split").Body.List {
			if _, ok := st.(*ast.SwitchStmt); ok {
				after = true
				continue
			}
			if after {
				store = append(store, c10Lines(st)...)
			}
		}
		s += "def splitStore : List String := " + leanStrList(store) + "\n"
		s += "def compileRegex : List String := " + leanStrList(c10Lines(findFunc(ip, "interp", "compileRegex").Body)) + "\n"
		s += "def addRegexFlags : List String := " + leanStrList(c10Lines(findFunc(parseFile("internal/compiler/compiler.go"), "", "AddRegexFlags").Body)) + "\n"
		for _, n := range []string{"maxCachedRegexes", "maxCachedFormats"} {
			s += fmt.Sprintf("def %s : Nat := %d\n", n, constInt(ip, n))
		}
		return "C10Builtins.lean", s + footer("C10Builtins")
	})
}
