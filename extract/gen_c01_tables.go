package main

// C01: tables of compiler.go (condition, binaryOp, the AugOp switch of stmt) and of vm.go (which Go operator each comparison /
// fused jump / AugOp case applies). The Lean model's own tables are proved equal to these (Proofs/C01Tables.lean).

import (
	"fmt"
	"go/ast"
	"go/token"
	"sort"
	"strings"
)

func c01Sel(e ast.Expr) string {
	switch x := e.(type) {
	case *ast.SelectorExpr:
		return x.Sel.Name
	case *ast.Ident:
		return x.Name
	}
	return "?"
}

func c01PairList(ps [][]string) string {
	var parts []string
	for _, p := range ps {
		var q []string
		for _, x := range p {
			q = append(q, leanStr(x))
		}
		parts = append(parts, "("+strings.Join(q, ", ")+")")
	}
	return "[" + strings.Join(parts, ", ") + "]"
}

// c01FirstCompareOp finds the operator of the first binary expression `ln OP rn` in the statements.
func c01FirstCompareOp(body []ast.Stmt, left, right string) string {
	res := ""
	for _, s := range body {
		ast.Inspect(s, func(n ast.Node) bool {
			if b, ok := n.(*ast.BinaryExpr); ok && res == "" {
				if c01Sel(b.X) == left && c01Sel(b.Y) == right {
					res = b.Op.String()
				}
			}
			return true
		})
	}
	return res
}

func init() {
	registerGen(func() (string, string) {
		s := header("C01Tables", "internal/compiler/compiler.go (condition, binaryOp, stmt), interp/vm.go (execute, augAssignOp)")
		cf := parseFile("internal/compiler/compiler.go")
		// condition(): the fused table and the tokens that are not fused when inverted
		cond := findFunc(cf, "compiler", "condition")
		var fused [][]string
		var unfusedInv []string
		ast.Inspect(cond.Body, func(n ast.Node) bool {
			sw, ok := n.(*ast.SwitchStmt)
			if !ok || src(sw.Tag) != "cond.Op" {
				return true
			}
			for _, c := range sw.Body.List {
				cc := c.(*ast.CaseClause)
				var toks []string
				for _, e := range cc.List {
					toks = append(toks, c01Sel(e))
				}
				for _, st := range cc.Body {
					ret, ok := st.(*ast.ReturnStmt)
					if !ok || len(ret.Results) != 1 {
						continue
					}
					switch r := ret.Results[0].(type) {
					case *ast.CallExpr: // jumpOp(normal, inverted)
						for _, t := range toks {
							fused = append(fused, []string{t, c01Sel(r.Args[0]), c01Sel(r.Args[1])})
						}
					case *ast.Ident:
						if r.Name == "JumpFalse" { // the guard under `if invert`
							unfusedInv = append(unfusedInv, toks...)
						} else {
							for _, t := range toks {
								fused = append(fused, []string{t, r.Name, ""})
							}
						}
					}
				}
			}
			return true
		})
		s += "def condFused : List (String × String × String) := " + c01PairList(fused) + "\n"
		s += "def condUnfusedWhenInverted : List String := " + leanStrList(unfusedInv) + "\n"
		// binaryOp(): token -> opcode
		var bin [][]string
		ast.Inspect(findFunc(cf, "compiler", "binaryOp").Body, func(n ast.Node) bool {
			cc, ok := n.(*ast.CaseClause)
			if !ok || len(cc.List) == 0 {
				return true
			}
			for _, st := range cc.Body {
				if as, ok := st.(*ast.AssignStmt); ok && len(as.Rhs) == 1 {
					for _, e := range cc.List {
						bin = append(bin, []string{c01Sel(e), c01Sel(as.Rhs[0])})
					}
				}
			}
			return true
		})
		s += "def binaryOp : List (String × String) := " + c01PairList(bin) + "\n"
		// stmt(): token -> AugOp (the default case is MOD)
		var aug [][]string
		ast.Inspect(findFunc(cf, "compiler", "stmt").Body, func(n ast.Node) bool {
			sw, ok := n.(*ast.SwitchStmt)
			if !ok || src(sw.Tag) != "expr.Op" {
				return true
			}
			for _, c := range sw.Body.List {
				cc := c.(*ast.CaseClause)
				tok := "default"
				if len(cc.List) == 1 {
					tok = c01Sel(cc.List[0])
				}
				if as, ok := cc.Body[0].(*ast.AssignStmt); ok {
					aug = append(aug, []string{tok, c01Sel(as.Rhs[0])})
				}
			}
			return false
		})
		s += "def augOpOfToken : List (String × String) := " + c01PairList(aug) + "\n"
		// vm.go: operator applied by each comparison opcode and fused jump (numeric branch `ln OP rn`), and by augAssignOp
		vf := parseFile("interp/vm.go")
		var cmp [][]string
		ast.Inspect(findFunc(vf, "interp", "execute").Body, func(n ast.Node) bool {
			cc, ok := n.(*ast.CaseClause)
			if !ok || len(cc.List) != 1 {
				return true
			}
			name := c01Sel(cc.List[0])
			if op := c01FirstCompareOp(cc.Body, "ln", "rn"); op != "" {
				cmp = append(cmp, []string{name, op})
			}
			return true
		})
		sort.Slice(cmp, func(i, j int) bool { return cmp[i][0] < cmp[j][0] })
		s += "def vmCompare : List (String × String) := " + c01PairList(cmp) + "\n"
		var vaug [][]string
		ast.Inspect(findFunc(vf, "interp", "augAssignOp").Body, func(n ast.Node) bool {
			cc, ok := n.(*ast.CaseClause)
			if !ok {
				return true
			}
			name := "default"
			if len(cc.List) == 1 {
				name = c01Sel(cc.List[0])
			}
			op := ""
			for _, st := range cc.Body {
				ast.Inspect(st, func(m ast.Node) bool {
					switch x := m.(type) {
					case *ast.BinaryExpr:
						if op == "" && x.Op != token.EQL {
							op = x.Op.String()
						}
					case *ast.CallExpr:
						if op == "" && strings.HasPrefix(src(x.Fun), "math.") {
							op = src(x.Fun)
						}
					}
					return true
				})
			}
			vaug = append(vaug, []string{name, op})
			return true
		})
		s += "def vmAugOp : List (String × String) := " + c01PairList(vaug) + "\n"
		_ = fmt.Sprint
		return "C01Tables.lean", s + footer("C01Tables")
	})
}
