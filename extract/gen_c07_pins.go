package main

// C07: the functions GoawkModel.C07 mirrors (see pins.go).
func init() {
	registerGen(func() (string, string) {
		return pinGen("C07Pins", []pin{
			{"interp/io.go", "", "dropCR"},
			{"interp/io.go", "", "dropLF"},
			{"interp/io.go", "blankLineSplitter", "scan"},
			{"interp/io.go", "byteSplitter", "scan"},
			{"interp/io.go", "regexSplitter", "scan"},
			{"interp/io.go", "interp", "newScanner"},
		})
	})
}
