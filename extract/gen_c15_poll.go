package main

// C15 — regenerated facts about where the context is polled.
//
// From interp/vm.go: the statements of the dispatch `for` loop of `execute` that come before the opcode `switch`
// (the poll must be among them), the top-level shape of `execute`.
// From the whole package interp: every write to ctxOps / checkCtx / ctx / ctxDone (function, statement), every call site
// of checkContext / checkContextNow, the body of checkContext and checkContextNow.

import (
	"go/ast"
	"strings"
)

func c15Norm(s string) string { return strings.Join(strings.Fields(s), " ") }

func c15Pairs(name string, ps [][2]string) string {
	var b strings.Builder
	b.WriteString("def " + name + " : List (String × String) := [")
	for i, p := range ps {
		if i > 0 {
			b.WriteString(",")
		}
		b.WriteString("\n  (" + leanStr(p[0]) + ", " + leanStr(p[1]) + ")")
	}
	b.WriteString("]\n")
	return b.String()
}

func init() {
	registerGen(func() (string, string) {
		s := header("C15Poll", "interp/vm.go (execute), interp/newexecute.go (checkContext, checkContextNow, Execute, ExecuteContext), package interp (writes to the context fields)")
		vm := parseFile("interp/vm.go")
		ex := findFunc(vm, "interp", "execute")

		// top-level shape of execute
		var top []string
		var loop *ast.ForStmt
		for _, st := range ex.Body.List {
			switch x := st.(type) {
			case *ast.ForStmt:
				top = append(top, "for "+c15Norm(src(x.Init))+"; "+c15Norm(src(x.Cond))+"; "+func() string {
					if x.Post == nil {
						return ""
					}
					return c15Norm(src(x.Post))
				}())
				if loop == nil {
					loop = x
				}
			case *ast.ReturnStmt:
				top = append(top, c15Norm(src(x)))
			default:
				top = append(top, "other: "+c15Norm(src(st)))
			}
		}
		if loop == nil {
			panic("execute has no dispatch loop")
		}
		s += "/-- the top-level statements of `execute` -/\n"
		s += "def executeTopLevel : List String := " + leanStrList(top) + "\n"

		// statements of the loop body before the opcode switch
		var head []string
		switchTag := ""
		after := 0
		for i, st := range loop.Body.List {
			if sw, ok := st.(*ast.SwitchStmt); ok {
				switchTag = c15Norm(src(sw.Tag))
				after = len(loop.Body.List) - i - 1
				break
			}
			head = append(head, c15Norm(src(st)))
		}
		s += "/-- the statements of the dispatch loop body that precede the opcode switch, in order -/\n"
		s += "def dispatchLoopHead : List String := " + leanStrList(head) + "\n"
		s += "def dispatchSwitchTag : String := " + leanStr(switchTag) + "\n"
		s += "/-- number of statements of the dispatch loop body after the opcode switch -/\n"
		s += "def dispatchAfterSwitch : Nat := " + itoa(after) + "\n"

		// other loops or polls inside the switch? count `for` statements directly inside execute that contain a nested p.execute call
		ne := parseFile("interp/newexecute.go")
		for _, fn := range []string{"checkContext", "checkContextNow"} {
			fd := findFunc(ne, "interp", fn)
			var body []string
			for _, st := range fd.Body.List {
				body = append(body, c15Norm(src(st)))
			}
			s += "def " + fn + "Body : List String := " + leanStrList(body) + "\n"
		}

		// package-wide: writes to the context fields and call sites of the poll
		var writes, calls [][2]string
		ctxField := map[string]bool{"ctxOps": true, "checkCtx": true, "ctx": true, "ctxDone": true}
		for _, rel := range goFiles("interp") {
			f := parseFile(rel)
			for _, d := range f.Decls {
				fd, ok := d.(*ast.FuncDecl)
				if !ok || fd.Body == nil {
					continue
				}
				// source ranges of nested control structures: a write inside one of them is conditional
			type span struct{ lo, hi int }
			var nested []span
			ast.Inspect(fd.Body, func(n ast.Node) bool {
				switch n.(type) {
				case *ast.IfStmt, *ast.ForStmt, *ast.RangeStmt, *ast.SwitchStmt, *ast.TypeSwitchStmt, *ast.SelectStmt, *ast.FuncLit:
					nested = append(nested, span{int(n.Pos()), int(n.End())})
				}
				return true
			})
			where := func(n ast.Node) string {
				for _, sp := range nested {
					if int(n.Pos()) >= sp.lo && int(n.End()) <= sp.hi {
						return "conditional: "
					}
				}
				return ""
			}
			isCtxSel := func(e ast.Expr) bool {
					sel, ok := e.(*ast.SelectorExpr)
					return ok && ctxField[sel.Sel.Name] && (src(sel.X) == "p" || src(sel.X) == "p.interp")
				}
				ast.Inspect(fd.Body, func(n ast.Node) bool {
					switch x := n.(type) {
					case *ast.AssignStmt:
						for _, l := range x.Lhs {
							if isCtxSel(l) {
								writes = append(writes, [2]string{fd.Name.Name, where(x) + c15Norm(src(x))})
							}
						}
					case *ast.IncDecStmt:
						if isCtxSel(x.X) {
							writes = append(writes, [2]string{fd.Name.Name, where(x) + c15Norm(src(x))})
						}
					case *ast.CallExpr:
						if sel, ok := x.Fun.(*ast.SelectorExpr); ok && (sel.Sel.Name == "checkContext" || sel.Sel.Name == "checkContextNow") {
							calls = append(calls, [2]string{fd.Name.Name, sel.Sel.Name})
						}
					}
					return true
				})
			}
		}
		// ---- executeAll: every return statement, the phase it follows, and how the context check relates to it ----
		ip := parseFile("interp/interp.go")
		ea := findFunc(ip, "interp", "executeAll")
		var rets [][2]string
		phase := 0
		isCtxGuard := func(st ast.Stmt) bool { // if p.checkCtx { ctxErr := p.checkContextNow(); if ctxErr != nil { return 0, ctxErr } }
			ifs, ok := st.(*ast.IfStmt)
			if !ok || c15Norm(src(ifs.Cond)) != "p.checkCtx" || ifs.Else != nil || len(ifs.Body.List) != 2 {
				return false
			}
			as, ok := ifs.Body.List[0].(*ast.AssignStmt)
			if !ok || c15Norm(src(as)) != "ctxErr := p.checkContextNow()" {
				return false
			}
			inner, ok := ifs.Body.List[1].(*ast.IfStmt)
			return ok && c15Norm(src(inner.Cond)) == "ctxErr != nil" && len(inner.Body.List) == 1 && c15Norm(src(inner.Body.List[0])) == "return 0, ctxErr"
		}
		var walkBlock func(list []ast.Stmt, inGuard bool)
		walkBlock = func(list []ast.Stmt, inGuard bool) {
			for i, st := range list {
				ast.Inspect(st, func(n ast.Node) bool { // phase = number of p.execute / p.execActions calls started so far
					if _, isBlock := n.(*ast.BlockStmt); isBlock {
						return false
					}
					if call, ok := n.(*ast.CallExpr); ok {
						if f := c15Norm(src(call.Fun)); f == "p.execute" || f == "p.execActions" {
							phase++
						}
					}
					return true
				})
				switch x := st.(type) {
				case *ast.ReturnStmt:
					how := "unguarded"
					errRes := ""
					if len(x.Results) == 2 {
						errRes = c15Norm(src(x.Results[1]))
					}
					switch {
					case errRes == "nil":
						how = "no-error"
					case inGuard && errRes == "ctxErr":
						how = "context-error"
					case i > 0 && isCtxGuard(list[i-1]):
						how = "after-context-check"
					}
					rets = append(rets, [2]string{"phase " + itoa(phase) + ": " + c15Norm(src(x)), how})
				case *ast.IfStmt:
					g := isCtxGuard(x)
					walkBlock(x.Body.List, inGuard || g)
					if g {
						// the inner `if ctxErr != nil` block
						if inner, ok := x.Body.List[1].(*ast.IfStmt); ok {
							_ = inner
						}
					}
					if x.Else != nil {
						if blk, ok := x.Else.(*ast.BlockStmt); ok {
							walkBlock(blk.List, inGuard)
						}
					}
				case *ast.BlockStmt:
					walkBlock(x.List, inGuard)
				}
			}
		}
		walkBlock(ea.Body.List, false)
		s += "/-- every `return` of executeAll: (phase it follows and statement, how it relates to the context check: `no-error` |\n"
		s += "`context-error` (returns the context's error inside the check) | `after-context-check` (an error return immediately\n"
		s += "preceded by `if p.checkCtx { ctxErr := p.checkContextNow(); if ctxErr != nil { return 0, ctxErr } }`) | `unguarded`) -/\n"
		s += c15Pairs("executeAllReturns", rets)

		// ---- the entry code must not read the stored context state ----
		var entryReads [][2]string
		for _, fn := range []string{"Execute", "ExecuteContext"} {
			fd := findFunc(ne, "Interpreter", fn)
			lhs := map[ast.Expr]bool{}
			ast.Inspect(fd.Body, func(n ast.Node) bool {
				if as, ok := n.(*ast.AssignStmt); ok {
					for _, l := range as.Lhs {
						lhs[l] = true
					}
				}
				return true
			})
			ast.Inspect(fd.Body, func(n ast.Node) bool {
				sel, ok := n.(*ast.SelectorExpr)
				if ok && !lhs[sel] && src(sel.X) == "p.interp" && (sel.Sel.Name == "ctx" || sel.Sel.Name == "ctxDone" || sel.Sel.Name == "ctxOps" || sel.Sel.Name == "checkCtx") {
					entryReads = append(entryReads, [2]string{fn, sel.Sel.Name})
				}
				return true
			})
		}
		s += "/-- reads of the stored context fields by the entry code (Execute, ExecuteContext): must be none -/\n"
		s += c15Pairs("entryReadsOfContextState", entryReads)

		s += "/-- every write to ctxOps / checkCtx / ctx / ctxDone in package interp: (function, statement); a statement inside an if / for / switch / select / function literal is prefixed with `conditional: ` -/\n"
		s += c15Pairs("ctxFieldWrites", writes)
		s += "/-- every call of checkContext / checkContextNow in package interp: (calling function, callee) -/\n"
		s += c15Pairs("pollCallSites", calls)
		return "C15Poll.lean", s + footer("C15Poll")
	})
}

func itoa(n int) string {
	if n == 0 {
		return "0"
	}
	var d []byte
	for n > 0 {
		d = append([]byte{byte('0' + n%10)}, d...)
		n /= 10
	}
	return string(d)
}
