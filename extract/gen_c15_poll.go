package main

// C15 — regenerated facts about where the context is polled.
//
// From interp/vm.go: the statements of the dispatch `for` loop of `execute` that come before the opcode `switch`
// (the poll must be among them), the top-level shape of `execute`.
// From the whole package interp: every write to ctxOps / checkCtx / ctx / ctxDone (function, statement), every call site
// of checkContext / checkContextNow, the body of checkContext and checkContextNow.

import (
	"go/ast"
	"strings"
)

func c15Norm(s string) string { return strings.Join(strings.Fields(s), " ") }

func c15Pairs(name string, ps [][2]string) string {
	var b strings.Builder
	b.WriteString("def " + name + " : List (String × String) := [")
	for i, p := range ps {
		if i > 0 {
			b.WriteString(",")
		}
		b.WriteString("\n  (" + leanStr(p[0]) + ", " + leanStr(p[1]) + ")")
	}
	b.WriteString("]\n")
	return b.String()
}

func init() {
	registerGen(func() (string, string) {
		s := header("C15Poll", "interp/vm.go (execute), interp/newexecute.go (checkContext, checkContextNow, Execute, ExecuteContext), package interp (writes to the context fields)")
		vm := parseFile("interp/vm.go")
		ex := findFunc(vm, "interp", "execute")

		// top-level shape of execute
		var top []string
		var loop *ast.ForStmt
		for _, st := range ex.Body.List {
			switch x := st.(type) {
			case *ast.ForStmt:
				top = append(top, "for "+c15Norm(src(x.Init))+"; "+c15Norm(src(x.Cond))+"; "+func() string {
					if x.Post == nil {
						return ""
					}
					return c15Norm(src(x.Post))
				}())
				if loop == nil {
					loop = x
				}
			case *ast.ReturnStmt:
				top = append(top, c15Norm(src(x)))
			default:
				top = append(top, "other: "+c15Norm(src(st)))
			}
		}
		if loop == nil {
			panic("execute has no dispatch loop")
		}
		s += "/-- the top-level statements of `execute` -/\n"
		s += "def executeTopLevel : List String := " + leanStrList(top) + "\n"

		// statements of the loop body before the opcode switch
		var head []string
		switchTag := ""
		after := 0
		for i, st := range loop.Body.List {
			if sw, ok := st.(*ast.SwitchStmt); ok {
				switchTag = c15Norm(src(sw.Tag))
				after = len(loop.Body.List) - i - 1
				break
			}
			head = append(head, c15Norm(src(st)))
		}
		s += "/-- the statements of the dispatch loop body that precede the opcode switch, in order -/\n"
		s += "def dispatchLoopHead : List String := " + leanStrList(head) + "\n"
		s += "def dispatchSwitchTag : String := " + leanStr(switchTag) + "\n"
		s += "/-- number of statements of the dispatch loop body after the opcode switch -/\n"
		s += "def dispatchAfterSwitch : Nat := " + itoa(after) + "\n"

		// other loops or polls inside the switch? count `for` statements directly inside execute that contain a nested p.execute call
		ne := parseFile("interp/newexecute.go")
		for _, fn := range []string{"checkContext", "checkContextNow"} {
			fd := findFunc(ne, "interp", fn)
			var body []string
			for _, st := range fd.Body.List {
				body = append(body, c15Norm(src(st)))
			}
			s += "def " + fn + "Body : List String := " + leanStrList(body) + "\n"
		}

		// package-wide: writes to the context fields and call sites of the poll
		var writes, calls [][2]string
		ctxField := map[string]bool{"ctxOps": true, "checkCtx": true, "ctx": true, "ctxDone": true}
		for _, rel := range goFiles("interp") {
			f := parseFile(rel)
			for _, d := range f.Decls {
				fd, ok := d.(*ast.FuncDecl)
				if !ok || fd.Body == nil {
					continue
				}
				// source ranges of nested control structures: a write inside one of them is conditional
			type span struct{ lo, hi int }
			var nested []span
			ast.Inspect(fd.Body, func(n ast.Node) bool {
				switch n.(type) {
				case *ast.IfStmt, *ast.ForStmt, *ast.RangeStmt, *ast.SwitchStmt, *ast.TypeSwitchStmt, *ast.SelectStmt, *ast.FuncLit:
					nested = append(nested, span{int(n.Pos()), int(n.End())})
				}
				return true
			})
			where := func(n ast.Node) string {
				for _, sp := range nested {
					if int(n.Pos()) >= sp.lo && int(n.End()) <= sp.hi {
						return "conditional: "
					}
				}
				return ""
			}
			isCtxSel := func(e ast.Expr) bool {
					sel, ok := e.(*ast.SelectorExpr)
					return ok && ctxField[sel.Sel.Name] && (src(sel.X) == "p" || src(sel.X) == "p.interp")
				}
				ast.Inspect(fd.Body, func(n ast.Node) bool {
					switch x := n.(type) {
					case *ast.AssignStmt:
						for _, l := range x.Lhs {
							if isCtxSel(l) {
								writes = append(writes, [2]string{fd.Name.Name, where(x) + c15Norm(src(x))})
							}
						}
					case *ast.IncDecStmt:
						if isCtxSel(x.X) {
							writes = append(writes, [2]string{fd.Name.Name, where(x) + c15Norm(src(x))})
						}
					case *ast.CallExpr:
						if sel, ok := x.Fun.(*ast.SelectorExpr); ok && (sel.Sel.Name == "checkContext" || sel.Sel.Name == "checkContextNow") {
							calls = append(calls, [2]string{fd.Name.Name, sel.Sel.Name})
						}
					}
					return true
				})
			}
		}
		s += "/-- every write to ctxOps / checkCtx / ctx / ctxDone in package interp: (function, statement); a statement inside an if / for / switch / select / function literal is prefixed with `conditional: ` -/\n"
		s += c15Pairs("ctxFieldWrites", writes)
		s += "/-- every call of checkContext / checkContextNow in package interp: (calling function, callee) -/\n"
		s += c15Pairs("pollCallSites", calls)
		return "C15Poll.lean", s + footer("C15Poll")
	})
}

func itoa(n int) string {
	if n == 0 {
		return "0"
	}
	var d []byte
	for n > 0 {
		d = append([]byte{byte('0' + n%10)}, d...)
		n /= 10
	}
	return string(d)
}
