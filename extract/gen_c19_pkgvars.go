package main

// C19 facts, part 3: package-level variables of package interp that are slices or maps — state shared by ALL interpreters of the
// process — with (a) how each is initialised and (b) every statement that may write into its backing store.
//
//	initialiser class   "exact-cap"   a slice/map composite literal, or a call of a same-package function all of whose return
//	                                  statements return a composite literal: len == cap, so an append always copies
//	                    "spare-cap"   anything else (make with a capacity, the result of append, a slice expression …): an append
//	                                  through an alias may write into the shared backing array
//	                    "map"         a map: every store is a shared write
//	write sites         append(X, …), X[i] = …, X[i]++, copy(X, …), delete(X, …), clear(X) where X is the variable itself, an
//	                    interp field that is somewhere assigned from it, a local bound to one of those, or a slice expression of one.
//
// Syntactic; aliases through function parameters or struct copies are not followed (the concurrent-execution runs of harness/c19,
// also under the race detector, cover what this rule cannot see).

import (
	"fmt"
	"go/ast"
	"go/token"
)

func c19IsSliceOrMap(e ast.Expr) string {
	switch t := e.(type) {
	case *ast.ArrayType:
		if t.Len == nil {
			return "slice"
		}
	case *ast.MapType:
		return "map"
	}
	return ""
}

func init() {
	registerGen(func() (string, string) {
		s := header("C19PkgVars", "interp/*.go")
		files := goFiles("interp")
		funcs := map[string]*ast.FuncDecl{}
		for _, rel := range files {
			for _, d := range parseFile(rel).Decls {
				if fd, ok := d.(*ast.FuncDecl); ok && fd.Recv == nil {
					funcs[fd.Name.Name] = fd
				}
			}
		}
		// classify a function's returns
		retClass := func(fd *ast.FuncDecl) string {
			cl := "exact-cap"
			ast.Inspect(fd.Body, func(n ast.Node) bool {
				if _, ok := n.(*ast.FuncLit); ok {
					return false
				}
				if r, ok := n.(*ast.ReturnStmt); ok {
					for _, e := range r.Results {
						if _, ok := e.(*ast.CompositeLit); !ok {
							cl = "spare-cap"
						}
					}
				}
				return true
			})
			return cl
		}
		type pv struct{ name, kind, class string }
		var vars []pv
		isVar := map[string]bool{}
		for _, rel := range files {
			for _, d := range parseFile(rel).Decls {
				gd, ok := d.(*ast.GenDecl)
				if !ok || gd.Tok != token.VAR {
					continue
				}
				for _, sp := range gd.Specs {
					vs := sp.(*ast.ValueSpec)
					for i, nm := range vs.Names {
						kind, class := "", "spare-cap"
						if vs.Type != nil {
							kind = c19IsSliceOrMap(vs.Type)
						}
						if i < len(vs.Values) {
							switch v := vs.Values[i].(type) {
							case *ast.CompositeLit:
								if k := c19IsSliceOrMap(v.Type); k != "" {
									kind, class = k, "exact-cap"
								}
							case *ast.CallExpr:
								if id, ok := v.Fun.(*ast.Ident); ok {
									if id.Name == "make" && len(v.Args) > 0 {
										kind = c19IsSliceOrMap(v.Args[0])
										if len(v.Args) < 3 {
											class = "exact-cap"
										}
									} else if fd := funcs[id.Name]; fd != nil && fd.Type.Results != nil && len(fd.Type.Results.List) == 1 {
										if k := c19IsSliceOrMap(fd.Type.Results.List[0].Type); k != "" {
											kind, class = k, retClass(fd)
										}
									}
								}
							}
						} else if kind == "slice" {
							class = "exact-cap" // nil slice
						}
						if kind == "" {
							continue
						}
						if kind == "map" {
							class = "map"
						}
						vars = append(vars, pv{nm.Name, kind, class})
						isVar[nm.Name] = true
					}
				}
			}
		}
		// fields assigned from a package variable
		fieldOf := map[string]string{} // field name -> variable
		for _, rel := range files {
			ast.Inspect(parseFile(rel), func(n ast.Node) bool {
				if as, ok := n.(*ast.AssignStmt); ok && len(as.Lhs) == len(as.Rhs) {
					for i, r := range as.Rhs {
						if id, ok := r.(*ast.Ident); ok && isVar[id.Name] {
							if sel, ok := as.Lhs[i].(*ast.SelectorExpr); ok {
								fieldOf[sel.Sel.Name] = id.Name
							}
						}
					}
				}
				return true
			})
		}
		var sites []string
		for _, rel := range files {
			for _, d := range parseFile(rel).Decls {
				fd, ok := d.(*ast.FuncDecl)
				if !ok || fd.Body == nil {
					continue
				}
				local := map[string]string{} // local name -> variable
				var rootVar func(e ast.Expr) string
				rootVar = func(e ast.Expr) string {
					switch v := e.(type) {
					case *ast.Ident:
						if isVar[v.Name] {
							return v.Name
						}
						return local[v.Name]
					case *ast.SelectorExpr:
						return fieldOf[v.Sel.Name]
					case *ast.SliceExpr:
						return rootVar(v.X)
					case *ast.ParenExpr:
						return rootVar(v.X)
					}
					return ""
				}
				add := func(op string, target ast.Expr, root string) {
					sites = append(sites, fmt.Sprintf("(%s, %s, %s, %s, %s)", leanStr(rel), leanStr(fd.Name.Name), leanStr(op), leanStr(src(target)), leanStr(root)))
				}
				ast.Inspect(fd.Body, func(n ast.Node) bool {
					switch v := n.(type) {
					case *ast.AssignStmt:
						// bindings first (so that `args := p.shellCommand[1:]` taints args), then writes
						if len(v.Lhs) == len(v.Rhs) {
							for i, r := range v.Rhs {
								if id, ok := v.Lhs[i].(*ast.Ident); ok {
									if c, isCall := r.(*ast.CallExpr); isCall && src(c.Fun) == "append" {
										continue
									}
									if root := rootVar(r); root != "" {
										local[id.Name] = root
									}
								}
							}
						}
						for _, l := range v.Lhs {
							if ix, ok := l.(*ast.IndexExpr); ok {
								if root := rootVar(ix.X); root != "" {
									add("index-assign", l, root)
								}
							}
						}
					case *ast.IncDecStmt:
						if ix, ok := v.X.(*ast.IndexExpr); ok {
							if root := rootVar(ix.X); root != "" {
								add("index-assign", v.X, root)
							}
						}
					case *ast.CallExpr:
						if id, ok := v.Fun.(*ast.Ident); ok && len(v.Args) > 0 {
							switch id.Name {
							case "append", "copy", "delete", "clear":
								if root := rootVar(v.Args[0]); root != "" {
									add(id.Name, v.Args[0], root)
								}
							}
						}
					}
					return true
				})
			}
		}
		s += "/-- (variable, slice | map, initialiser class) -/\ndef packageVars : List (String × String × String) := ["
		for i, v := range vars {
			if i > 0 {
				s += ","
			}
			s += fmt.Sprintf("\n  (%s, %s, %s)", leanStr(v.name), leanStr(v.kind), leanStr(v.class))
		}
		s += "]\n\n/-- (file, function, operation, target expression, package variable it aliases) -/\n"
		s += "def sharedWrites : List (String × String × String × String × String) := ["
		for i, it := range sites {
			if i > 0 {
				s += ","
			}
			s += "\n  " + it
		}
		s += "]\n"
		return "C19PkgVars.lean", s + footer("C19PkgVars")
	})
}
