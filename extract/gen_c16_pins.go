package main

// C16: the functions GoawkModel.C16 mirrors (see pins.go).
func init() {
	registerGen(func() (string, string) {
		return pinGen("C16Pins", []pin{
			{"internal/resolver/resolve.go", "", "Resolve"},
			{"internal/resolver/resolve.go", "resolver", "lookupVar"},
			{"internal/resolver/resolve.go", "resolver", "recordVar"},
			{"internal/resolver/resolve.go", "callGraphVisitor", "Visit"},
			{"internal/resolver/resolve.go", "mainVisitor", "walkOrdered"},
			{"internal/resolver/resolve.go", "mainVisitor", "Visit"},
			{"internal/resolver/toposort.go", "", "topoSort"},
		})
	})
}
