package main

import "fmt"

func init() {
	registerGen(func() (string, string) {
		s := header("Consts", "interp/interp.go, interp/newexecute.go, internal/resolver/resolve.go")
		ip := parseFile("interp/interp.go")
		for _, n := range []string{"maxFieldIndex", "maxCallDepth", "initialStackSize", "outputBufSize", "inputBufSize"} {
			s += fmt.Sprintf("def %s : Nat := %d\n", n, constInt(ip, n))
		}
		s += fmt.Sprintf("def checkContextOps : Nat := %d\n", constInt(parseFile("interp/newexecute.go"), "checkContextOps"))
		return "Consts.lean", s + footer("Consts")
	})
	registerGen(func() (string, string) {
		s := header("Opcodes", "internal/compiler/opcodes.go")
		f := parseFile("internal/compiler/opcodes.go")
		s += "def opcodes : List String := " + leanStrList(iotaConsts(f, "Opcode")) + "\n"
		s += "def augOps : List String := " + leanStrList(iotaConsts(f, "AugOp")) + "\n"
		s += "def builtinOps : List String := " + leanStrList(iotaConsts(f, "BuiltinOp")) + "\n"
		return "Opcodes.lean", s + footer("Opcodes")
	})
}
