package main

// C04 / C20: the shape of the expression levels of parser/parser.go (which function parses the operands, which operator
// tokens, loop / single if / self-recursive) and the precedence table of internal/ast/ast.go.

import (
	"fmt"
	"go/ast"
	"go/token"
	"sort"
	"strings"
)

func init() {
	registerGen(genC04Levels)
}

var c04LevelFuncs = []string{"expr", "printExpr", "getline", "_assign", "cond", "printCond", "_cond", "or", "printOr", "and", "printAnd",
	"in", "printIn", "_in", "match", "printMatch", "_match", "compare", "printCompare", "_compare", "concat", "add", "mul", "pow",
	"postIncr", "binaryLeft", "exprList", "optionalLValue", "regexStr"}

// names that count as a "callee": parser methods and the function-valued parameters of the generic helpers
var c04Callees = map[string]bool{"higher": true, "last": true, "parse": true, "primary": true, "optionalLValue": true, "nextRegex": true,
	"exprList": true, "userCall": true, "multiExpr": true, "regexStr": true, "optionalNewlines": true, "commaNewlines": true}

func init() {
	for _, f := range c04LevelFuncs {
		c04Callees[f] = true
	}
}

// c04Scan lists, in source order, the level functions / helper parameters referenced and the lexer tokens referenced
func c04Scan(n ast.Node) (callees, toks []string, shape string) {
	hasFor, hasIf := false, false
	ast.Inspect(n, func(x ast.Node) bool {
		switch v := x.(type) {
		case *ast.ForStmt:
			hasFor = true
		case *ast.IfStmt:
			hasIf = true
		case *ast.SelectorExpr:
			if id, ok := v.X.(*ast.Ident); ok {
				if id.Name == "p" && c04Callees[v.Sel.Name] {
					callees = append(callees, v.Sel.Name)
				}
				if id.Name == "lexer" && strings.ToUpper(v.Sel.Name) == v.Sel.Name {
					toks = append(toks, v.Sel.Name)
				}
				if id.Name == "ast" && v.Sel.Name == "IsLValue" {
					callees = append(callees, "IsLValue")
				}
			}
			return false
		case *ast.CallExpr:
			if id, ok := v.Fun.(*ast.Ident); ok && c04Callees[id.Name] {
				callees = append(callees, id.Name)
			}
			if se, ok := v.Fun.(*ast.SelectorExpr); ok && se.Sel.Name == "binaryLeft" && len(v.Args) > 1 {
				if id, ok := v.Args[1].(*ast.Ident); ok {
					callees = append(callees, "allowNewline:"+id.Name)
				}
			}
		case *ast.Ident:
			// a helper parameter passed on as a value, e.g. p._assign(higher)
			if v.Name == "higher" || v.Name == "last" {
				// counted only in call-argument position (handled below)
			}
		}
		return true
	})
	// helper parameters passed on as arguments
	ast.Inspect(n, func(x ast.Node) bool {
		if c, ok := x.(*ast.CallExpr); ok {
			for _, a := range c.Args {
				if id, ok := a.(*ast.Ident); ok && (id.Name == "higher" || id.Name == "last") {
					callees = append(callees, "arg:"+id.Name)
				}
			}
		}
		return true
	})
	shape = "plain"
	if hasIf {
		shape = "if"
	}
	if hasFor {
		shape = "loop"
	}
	return
}

func leanBool(b bool) string {
	if b {
		return "true"
	}
	return "false"
}

func genC04Levels() (string, string) {
	s := header("C04Levels", "parser/parser.go (expression levels), internal/ast/ast.go (prec constants, precedence(), IsLValue)")
	pf := parseFile("parser/parser.go")

	// 1. every level function: (name, callees in order, tokens in order, shape)
	s += "/-- (function, level functions and helper parameters it references in source order, lexer tokens it references in source order, loop | if | plain) -/\n"
	s += "def levels : List (String × List String × List String × String) := [\n"
	for i, name := range c04LevelFuncs {
		fd := findFunc(pf, "parser", name)
		callees, toks, shape := c04Scan(fd.Body)
		sep := ","
		if i == len(c04LevelFuncs)-1 {
			sep = ""
		}
		s += fmt.Sprintf("  (%s, %s, %s, %s)%s\n", leanStr(name), leanStrList(callees), leanStrList(toks), leanStr(shape), sep)
	}
	s += "]\n\n"

	// 2. the case clauses of primary() that matter for grouping: (case tokens, callees, tokens referenced inside)
	s += "/-- selected case clauses of primary(): (case tokens, callees in order, tokens referenced in the clause body) -/\n"
	s += "def primaryCases : List (List String × List String × List String) := [\n"
	prim := findFunc(pf, "parser", "primary")
	want := map[string]bool{"NUMBER": true, "STRING": true, "DIV": true, "DOLLAR": true, "AT": true, "NOT": true, "INCR": true, "NAME": true, "LPAREN": true, "GETLINE": true}
	var rows []string
	ast.Inspect(prim.Body, func(x ast.Node) bool {
		cc, ok := x.(*ast.CaseClause)
		if !ok || len(cc.List) == 0 {
			return true
		}
		var caseToks []string
		for _, e := range cc.List {
			if se, ok := e.(*ast.SelectorExpr); ok {
				caseToks = append(caseToks, se.Sel.Name)
			}
		}
		if len(caseToks) == 0 || !want[caseToks[0]] {
			return true
		}
		var callees, toks []string
		for _, st := range cc.Body {
			c, t, _ := c04Scan(st)
			callees = append(callees, c...)
			toks = append(toks, t...)
		}
		rows = append(rows, fmt.Sprintf("  (%s, %s, %s)", leanStrList(caseToks), leanStrList(callees), leanStrList(toks)))
		return false
	})
	s += strings.Join(rows, ",\n") + "\n]\n\n"

	// 2b. every token that starts a primary expression (all case clauses of primary())
	var heads []string
	ast.Inspect(prim.Body, func(x ast.Node) bool {
		cc, ok := x.(*ast.CaseClause)
		if !ok {
			return true
		}
		for _, e := range cc.List {
			if se, ok := e.(*ast.SelectorExpr); ok {
				if id, ok := se.X.(*ast.Ident); ok && id.Name == "lexer" {
					heads = append(heads, se.Sel.Name)
				}
			}
		}
		return false
	})
	s += "/-- the tokens of all case clauses of primary(), in source order -/\ndef primaryCaseHeads : List String := " + leanStrList(heads) + "\n\n"

	// 3. the print statement: stop set of exprList is in `levels`; the redirect tokens of simpleStmt
	ss := findFunc(pf, "parser", "simpleStmt")
	var redirect []string
	ast.Inspect(ss.Body, func(x ast.Node) bool {
		ifs, ok := x.(*ast.IfStmt)
		if !ok {
			return true
		}
		if c, ok := ifs.Cond.(*ast.CallExpr); ok {
			if se, ok := c.Fun.(*ast.SelectorExpr); ok && se.Sel.Name == "matches" {
				_, t, _ := c04Scan(c)
				if len(t) > 0 && t[0] == "GREATER" {
					redirect = t
				}
			}
		}
		return true
	})
	s += "def printRedirectTokens : List String := " + leanStrList(redirect) + "\n\n"

	// 4. ast.go: prec constants, precedence() of every node, BinaryExpr's switch, IsLValue
	af := parseFile("internal/ast/ast.go")
	var precNames []string
	for _, d := range af.Decls {
		gd, ok := d.(*ast.GenDecl)
		if !ok || gd.Tok != token.CONST {
			continue
		}
		for _, sp := range gd.Specs {
			for _, n := range sp.(*ast.ValueSpec).Names {
				if strings.HasPrefix(n.Name, "prec") {
					precNames = append(precNames, n.Name)
				}
			}
		}
	}
	s += "/-- the prec* constants in iota order (lowest first) -/\ndef precConsts : List String := " + leanStrList(precNames) + "\n\n"
	type pr struct{ typ, val string }
	var simple []pr
	var binRows []string
	var incrRow string
	for _, d := range af.Decls {
		fd, ok := d.(*ast.FuncDecl)
		if !ok || fd.Name.Name != "precedence" || fd.Recv == nil {
			continue
		}
		typ := typeName(fd.Recv.List[0].Type)
		if len(fd.Body.List) == 1 {
			if rs, ok := fd.Body.List[0].(*ast.ReturnStmt); ok {
				if id, ok := rs.Results[0].(*ast.Ident); ok {
					simple = append(simple, pr{typ, id.Name})
					continue
				}
			}
		}
		switch typ {
		case "BinaryExpr":
			ast.Inspect(fd.Body, func(x ast.Node) bool {
				cc, ok := x.(*ast.CaseClause)
				if !ok {
					return true
				}
				var toks []string
				for _, e := range cc.List {
					toks = append(toks, e.(*ast.SelectorExpr).Sel.Name)
				}
				val := cc.Body[0].(*ast.ReturnStmt).Results[0].(*ast.Ident).Name
				binRows = append(binRows, fmt.Sprintf("(%s, %s)", leanStrList(toks), leanStr(val)))
				return false
			})
		case "IncrExpr":
			var vals []string
			ast.Inspect(fd.Body, func(x ast.Node) bool {
				if rs, ok := x.(*ast.ReturnStmt); ok {
					vals = append(vals, rs.Results[0].(*ast.Ident).Name)
				}
				return true
			})
			incrRow = leanStrList(vals)
		default:
			panic("precedence() of " + typ + " has an unexpected shape")
		}
	}
	sort.Slice(simple, func(i, j int) bool { return simple[i].typ < simple[j].typ })
	s += "def precedenceOf : List (String × String) := ["
	for i, p := range simple {
		if i > 0 {
			s += ", "
		}
		s += "(" + leanStr(p.typ) + ", " + leanStr(p.val) + ")"
	}
	s += "]\n\n"
	s += "/-- BinaryExpr.precedence(): (operator tokens, constant); the last row with no tokens is the default -/\n"
	s += "def binaryPrecedence : List (List String × String) := [" + strings.Join(binRows, ", ") + "]\n\n"
	s += "/-- IncrExpr.precedence(): [if Pre, otherwise] -/\ndef incrPrecedence : List String := " + incrRow + "\n\n"
	// parenthesize: the comparison operator
	par := findFunc(af, "", "parenthesize")
	cmp := "?"
	ast.Inspect(par.Body, func(x ast.Node) bool {
		if b, ok := x.(*ast.BinaryExpr); ok && (b.Op == token.LSS || b.Op == token.LEQ || b.Op == token.GTR || b.Op == token.GEQ) {
			cmp = src(b)
		}
		return true
	})
	s += "def parenthesizeTest : String := " + leanStr(cmp) + "\n\n"
	// IsLValue
	lv := findFunc(af, "", "IsLValue")
	var lvTypes []string
	ast.Inspect(lv.Body, func(x ast.Node) bool {
		if cc, ok := x.(*ast.CaseClause); ok && len(cc.List) > 0 {
			for _, e := range cc.List {
				lvTypes = append(lvTypes, typeName(e))
			}
		}
		return true
	})
	s += "def lvalueTypes : List String := " + leanStrList(lvTypes) + "\n"
	return "C04Levels.lean", s + footer("C04Levels")
}
