package main

// C05: regenerated facts about the stores that may not happen.
//
//   - interp/vm.go `execute()`: the case bodies of the five getline opcodes (GetlineField / GetlineGlobal / GetlineLocal /
//     GetlineSpecial / GetlineArray: the target is assigned `numStr(line)` — the field the line — only when the status is 1),
//     of AssignFieldSub (a field is assigned only when sub/gsub made a substitution) and of ForIn (the loop variable is
//     assigned `str(index)` inside the loop over the keys only);
//   - interp/vm.go `callBuiltin()`: the case bodies of BuiltinSub / BuiltinGsub (the value pushed for the store is the
//     original `in` when nothing was substituted, `str(out)` otherwise);
//   - interp/vm.go `getline()`: every return statement (status, line, error), in source order;
//   - interp/functions.go `split()`: the statements that build and store the array (a fresh map, `numStr(part)` per piece).

import (
	"fmt"
	"go/ast"
	"strings"
)

func init() {
	registerGen(func() (string, string) {
		s := header("C05Store", "interp/vm.go (getline opcodes, AssignFieldSub, ForIn, BuiltinSub/BuiltinGsub, getline), interp/functions.go (split)")
		vm := parseFile("interp/vm.go")
		caseBody := func(fd *ast.FuncDecl, name string) string {
			var found *ast.CaseClause
			ast.Inspect(fd.Body, func(n ast.Node) bool {
				cl, ok := n.(*ast.CaseClause)
				if !ok {
					return true
				}
				for _, e := range cl.List {
					if se, ok := e.(*ast.SelectorExpr); ok && selName(se.X) == "compiler" && se.Sel.Name == name {
						if len(cl.List) != 1 {
							panic("vm.go: " + name + " shares its case with another opcode")
						}
						found = cl
					}
				}
				return true
			})
			if found == nil {
				panic("vm.go: no case for " + name)
			}
			var parts []string
			for _, st := range found.Body {
				parts = append(parts, oneLine(st))
			}
			return strings.Join(parts, " ; ")
		}
		exec := findFunc(vm, "interp", "execute")
		s += "/-- vm.go `execute()`: case bodies of the opcodes whose store depends on a status -/\n"
		s += "def storeBodies : List (String × String) := ["
		for i, n := range []string{"GetlineField", "GetlineGlobal", "GetlineLocal", "GetlineSpecial", "GetlineArray", "AssignFieldSub", "ForIn"} {
			if i > 0 {
				s += ",\n  "
			}
			s += fmt.Sprintf("(%s, %s)", leanStr(n), leanStr(caseBody(exec, n)))
		}
		s += "]\n"
		cb := findFunc(vm, "interp", "callBuiltin")
		s += "/-- vm.go `callBuiltin()`: case bodies of BuiltinSub and BuiltinGsub -/\n"
		s += "def subBodies : List (String × String) := ["
		for i, n := range []string{"BuiltinSub", "BuiltinGsub"} {
			if i > 0 {
				s += ",\n  "
			}
			s += fmt.Sprintf("(%s, %s)", leanStr(n), leanStr(caseBody(cb, n)))
		}
		s += "]\n"
		var rets []string
		ast.Inspect(findFunc(vm, "interp", "getline").Body, func(n ast.Node) bool {
			if r, ok := n.(*ast.ReturnStmt); ok {
				rets = append(rets, oneLine(r))
			}
			return true
		})
		s += "/-- vm.go `getline()`: its return statements in source order -/\n"
		s += "def getlineReturns : List String := " + leanStrList(rets) + "\n"
		var sp []string
		for _, st := range findFunc(parseFile("interp/functions.go"), "interp", "split").Body.List {
			if t := oneLine(st); strings.Contains(t, "array") {
				sp = append(sp, t)
			}
		}
		s += "/-- functions.go `split()`: top-level statements that mention the array -/\n"
		s += "def splitArrayStmts : List String := " + leanStrList(sp) + "\n"
		return "C05Store.lean", s + footer("C05Store")
	})
}
