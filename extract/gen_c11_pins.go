package main

// C11: the functions GoawkModel.C11 mirrors (see pins.go).
func init() {
	registerGen(func() (string, string) {
		return pinGen("C11Pins", []pin{
			{"interp/io.go", "interp", "nextLine"},
			{"interp/io.go", "interp", "setFile"},
			{"interp/interp.go", "interp", "executeAll"},
			{"interp/interp.go", "interp", "execActions"},
		})
	})
}
