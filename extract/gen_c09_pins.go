package main

// C09: the functions GoawkModel.C09 mirrors (see pins.go).
func init() {
	registerGen(func() (string, string) {
		return pinGen("C09Pins", []pin{
			{"interp/functions.go", "interp", "parseFmtTypes"},
			{"interp/functions.go", "interp", "sprintf"},
		})
	})
}
