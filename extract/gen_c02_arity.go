package main

// C02 facts: the *shape* of every VM opcode as the source has it now.
//
//   vmCases      per opcode (in opcode-number order), from the dispatch switch of (*interp).execute in interp/vm.go:
//                  (opcode, reads, advance, dynAdvance, loopReads, loopAdvance, helpers)
//                reads      = number of distinct inline operand reads `code[ip]` / `code[ip+k]` outside 3-clause for loops
//                advance    = how far ip moves unconditionally (`ip++` = 1, `ip += n` = n, `ip += 1 + int(offset)` = 1)
//                dynAdvance = 1 when some `ip += …int(offset)…` with a non-literal term occurs (jumps, ForIn)
//                loopReads / loopAdvance = the same two counts inside a 3-clause for loop (CallUser's array arguments)
//                helpers    = the stack-helper calls in source order, each (code, conditional, literalArg):
//                             code: 1 push 2 pop 3 popTwo 4 peekTop 5 peekTwo 6 peekPop 7 peekPeekPop 8 replaceTop 9 replaceTwo
//                                   10 popSlice 11 peekSlice 12 pushNulls 13 p.getline 14 p.callBuiltin 15 p.execute
//                             conditional = 1 when the call is nested in an if / switch / for inside the case body
//                             literalArg  = n for popSlice(n)/peekSlice(n)/pushNulls(n) with an integer literal argument, else 0
//   builtinCases per builtin (in BuiltinOp order) from callBuiltin: (builtin, helpers)
//   exitCases    per opcode: which control signal the case returns (0 none, 1 errNext, 2 errNextfile, 3 errExit, 4 errBreak,
//                5 returnValue{…})
//   disasmCases  per opcode from internal/compiler/disassembler.go: (opcode, fetches outside loops, fetches inside loops)
//   scope / token / special-variable numbering used as inline operands.

import (
	"fmt"
	"go/ast"
	"go/token"
	"sort"
	"strconv"
	"strings"
)

var c02HelperCodes = map[string]int{
	"push": 1, "pop": 2, "popTwo": 3, "peekTop": 4, "peekTwo": 5, "peekPop": 6, "peekPeekPop": 7, "replaceTop": 8,
	"replaceTwo": 9, "popSlice": 10, "peekSlice": 11, "pushNulls": 12, "getline": 13, "callBuiltin": 14, "execute": 15,
}

type c02Case struct {
	reads, advance, dyn, loopReads, loopAdvance int
	helpers                                     [][3]int
	helperNames                                 []string
	exit                                        int
}

func c02IsCodeIP(e ast.Expr) (k int, ok bool) {
	ix, isIx := e.(*ast.IndexExpr)
	if !isIx {
		return 0, false
	}
	if id, isId := ix.X.(*ast.Ident); !isId || id.Name != "code" {
		return 0, false
	}
	switch x := ix.Index.(type) {
	case *ast.Ident:
		if x.Name == "ip" {
			return 0, true
		}
	case *ast.BinaryExpr:
		if id, isId := x.X.(*ast.Ident); isId && id.Name == "ip" && x.Op == token.ADD {
			if lit, isLit := x.Y.(*ast.BasicLit); isLit {
				n, _ := strconv.Atoi(lit.Value)
				return n, true
			}
		}
	}
	return 0, false
}

// c02Literal splits an expression into (sum of integer literal terms, has a non-literal term).
func c02Literal(e ast.Expr) (int, bool) {
	switch x := e.(type) {
	case *ast.BasicLit:
		n, err := strconv.Atoi(x.Value)
		if err != nil {
			return 0, true
		}
		return n, false
	case *ast.BinaryExpr:
		if x.Op == token.ADD {
			a, da := c02Literal(x.X)
			b, db := c02Literal(x.Y)
			return a + b, da || db
		}
	case *ast.ParenExpr:
		return c02Literal(x.X)
	}
	return 0, true
}

func c02Analyse(body []ast.Stmt) c02Case {
	var c c02Case
	reads := map[int]bool{}
	loopReads := map[int]bool{}
	var walk func(n ast.Node, cond, loop bool)
	walk = func(n ast.Node, cond, loop bool) {
		if n == nil {
			return
		}
		switch x := n.(type) {
		case *ast.IfStmt:
			walk(x.Init, cond, loop)
			walk(x.Cond, cond, loop)
			walk(x.Body, true, loop)
			walk(x.Else, true, loop)
			return
		case *ast.SwitchStmt:
			walk(x.Init, cond, loop)
			walk(x.Tag, cond, loop)
			walk(x.Body, true, loop)
			return
		case *ast.TypeSwitchStmt:
			walk(x.Body, true, loop)
			return
		case *ast.ForStmt:
			walk(x.Init, true, true)
			walk(x.Cond, true, true)
			walk(x.Post, true, true)
			walk(x.Body, true, true)
			return
		case *ast.RangeStmt:
			walk(x.X, cond, loop)
			walk(x.Body, true, loop)
			return
		case *ast.IncDecStmt:
			if id, ok := x.X.(*ast.Ident); ok && id.Name == "ip" && x.Tok == token.INC {
				if loop {
					c.loopAdvance++
				} else {
					c.advance++
				}
			}
			return
		case *ast.AssignStmt:
			if len(x.Lhs) == 1 {
				if id, ok := x.Lhs[0].(*ast.Ident); ok && id.Name == "ip" && x.Tok == token.ADD_ASSIGN {
					n, dyn := c02Literal(x.Rhs[0])
					if dyn {
						c.dyn = 1
					}
					if loop {
						c.loopAdvance += n
					} else if !cond {
						c.advance += n
					} else if n != 0 {
						// a conditional literal advance would make the operand count data-dependent: not expected anywhere
						c.dyn = 2
					}
					return
				}
			}
		case *ast.ReturnStmt:
			if len(x.Results) == 1 {
				switch r := x.Results[0].(type) {
				case *ast.Ident:
					switch r.Name {
					case "errNext":
						c.exit = 1
					case "errNextfile":
						c.exit = 2
					case "errExit":
						c.exit = 3
					case "errBreak":
						c.exit = 4
					}
				case *ast.CompositeLit:
					if id, ok := r.Type.(*ast.Ident); ok && id.Name == "returnValue" {
						c.exit = 5
					}
				}
			}
		case *ast.IndexExpr:
			if k, ok := c02IsCodeIP(x); ok {
				if loop {
					loopReads[k] = true
				} else {
					reads[k] = true
				}
				return
			}
		case *ast.CallExpr:
			// arguments first (source order of evaluation), then the call itself
			for _, a := range x.Args {
				walk(a, cond, loop)
			}
			if sel, ok := x.Fun.(*ast.SelectorExpr); ok {
				if id, ok := sel.X.(*ast.Ident); ok && id.Name == "p" {
					if code, ok := c02HelperCodes[sel.Sel.Name]; ok {
						lit := 0
						if code >= 10 && code <= 12 && len(x.Args) == 1 {
							if bl, ok := x.Args[0].(*ast.BasicLit); ok {
								lit, _ = strconv.Atoi(bl.Value)
							}
						}
						cnd := 0
						if cond {
							cnd = 1
						}
						c.helpers = append(c.helpers, [3]int{code, cnd, lit})
						c.helperNames = append(c.helperNames, sel.Sel.Name)
					}
				}
				if _, isP := sel.X.(*ast.Ident); !isP {
					walk(sel.X, cond, loop)
				}
			} else {
				walk(x.Fun, cond, loop)
			}
			return
		}
		// generic descent in source order
		var kids []ast.Node
		ast.Inspect(n, func(m ast.Node) bool {
			if m == nil || m == n {
				return m == n
			}
			kids = append(kids, m)
			return false
		})
		for _, k := range kids {
			walk(k, cond, loop)
		}
	}
	for _, s := range body {
		walk(s, false, false)
	}
	c.reads = len(reads)
	c.loopReads = len(loopReads)
	return c
}

// c02Switch finds the first `switch <tag> {` on the given identifier in a function body and returns its clauses
// keyed by the selector name of each `case compiler.X` (or bare X).
func c02Switch(fd *ast.FuncDecl, tag string) map[string][]ast.Stmt {
	res := map[string][]ast.Stmt{}
	found := false
	ast.Inspect(fd.Body, func(n ast.Node) bool {
		if found {
			return false
		}
		sw, ok := n.(*ast.SwitchStmt)
		if !ok {
			return true
		}
		id, ok := sw.Tag.(*ast.Ident)
		if !ok || id.Name != tag {
			return true
		}
		found = true
		for _, cl := range sw.Body.List {
			cc := cl.(*ast.CaseClause)
			for _, e := range cc.List {
				name := ""
				switch x := e.(type) {
				case *ast.SelectorExpr:
					name = x.Sel.Name
				case *ast.Ident:
					name = x.Name
				}
				if name == "" {
					panic("C02: unexpected case expression " + src(e))
				}
				if _, dup := res[name]; dup {
					panic("C02: duplicate case " + name)
				}
				res[name] = cc.Body
			}
			if cc.List == nil {
				res["default"] = cc.Body
			}
		}
		return false
	})
	if !found {
		panic("C02: switch on " + tag + " not found in " + fd.Name.Name)
	}
	return res
}

func c02Helpers(h [][3]int) string {
	parts := make([]string, len(h))
	for i, x := range h {
		parts[i] = fmt.Sprintf("(%d, %d, %d)", x[0], x[1], x[2])
	}
	return "[" + strings.Join(parts, ", ") + "]"
}

func c02CountFetch(body []ast.Stmt) (fixed, loop int) {
	var walk func(n ast.Node, inLoop bool)
	walk = func(n ast.Node, inLoop bool) {
		ast.Inspect(n, func(m ast.Node) bool {
			switch x := m.(type) {
			case *ast.ForStmt:
				walk(x.Body, true)
				return false
			case *ast.CallExpr:
				if sel, ok := x.Fun.(*ast.SelectorExpr); ok && sel.Sel.Name == "fetch" {
					if inLoop {
						loop++
					} else {
						fixed++
					}
				}
			}
			return true
		})
	}
	for _, s := range body {
		walk(s, false)
	}
	return
}

func init() {
	registerGen(func() (string, string) {
		s := header("C02Arity", "interp/vm.go (execute, callBuiltin), internal/compiler/disassembler.go, internal/compiler/opcodes.go, internal/resolver/resolve.go, lexer/token.go, internal/ast/specialvars.go")
		opf := parseFile("internal/compiler/opcodes.go")
		opcodes := iotaConsts(opf, "Opcode")
		builtins := iotaConsts(opf, "BuiltinOp")
		augops := iotaConsts(opf, "AugOp")
		vm := parseFile("interp/vm.go")
		cases := c02Switch(findFunc(vm, "interp", "execute"), "op")
		bcases := c02Switch(findFunc(vm, "interp", "callBuiltin"), "builtinOp")
		known := map[string]bool{}
		for _, o := range opcodes {
			known[o] = true
		}
		var extra []string
		for name := range cases {
			if !known[name] {
				extra = append(extra, name)
			}
		}
		sort.Strings(extra)
		if len(extra) > 0 {
			panic("C02: execute has cases that are not opcodes: " + strings.Join(extra, ","))
		}

		s += "/-- (opcode, reads, advance, dynAdvance, loopReads, loopAdvance, helpers) per opcode, from the dispatch switch of `execute` -/\n"
		s += "def vmCases : List (Nat × Nat × Nat × Nat × Nat × Nat × List (Nat × Nat × Nat)) := [\n"
		var exits []string
		var missing []string
		for i, o := range opcodes {
			body, ok := cases[o]
			var c c02Case
			if ok {
				c = c02Analyse(body)
			} else {
				missing = append(missing, strconv.Itoa(i))
			}
			sep := ","
			if i == len(opcodes)-1 {
				sep = ""
			}
			s += fmt.Sprintf("  (%d, %d, %d, %d, %d, %d, %s)%s -- %s %s\n", i, c.reads, c.advance, c.dyn, c.loopReads, c.loopAdvance,
				c02Helpers(c.helpers), sep, o, strings.Join(c.helperNames, " "))
			exits = append(exits, fmt.Sprintf("(%d, %d)", i, c.exit))
		}
		s += "]\n"
		s += "/-- opcodes that have no `case` in `execute` (fall out of the switch: no effect) -/\n"
		s += "def vmMissing : List Nat := [" + strings.Join(missing, ", ") + "]\n"
		s += "def exitCases : List (Nat × Nat) := [" + strings.Join(exits, ", ") + "]\n"

		s += "/-- (builtin, helpers) per BuiltinOp, from `callBuiltin` -/\n"
		s += "def builtinCases : List (Nat × List (Nat × Nat × Nat)) := [\n"
		for i, b := range builtins {
			body, ok := bcases[b]
			if !ok {
				panic("C02: callBuiltin has no case for " + b)
			}
			c := c02Analyse(body)
			sep := ","
			if i == len(builtins)-1 {
				sep = ""
			}
			s += fmt.Sprintf("  (%d, %s)%s -- %s %s\n", i, c02Helpers(c.helpers), sep, b, strings.Join(c.helperNames, " "))
		}
		s += "]\n"

		dis := parseFile("internal/compiler/disassembler.go")
		dcases := c02Switch(findFunc(dis, "disassembler", "disassemble"), "op")
		s += "/-- (opcode, operand fetches outside loops, fetches inside a loop) per opcode, from the disassembler -/\n"
		var ds []string
		for i, o := range opcodes {
			f, l := 0, 0
			if body, ok := dcases[o]; ok {
				f, l = c02CountFetch(body)
			}
			ds = append(ds, fmt.Sprintf("(%d, %d, %d)", i, f, l))
		}
		s += "def disasmCases : List (Nat × Nat × Nat) := [" + strings.Join(ds, ", ") + "]\n"

		s += fmt.Sprintf("def numOpcodes : Nat := %d\n", len(opcodes))
		s += fmt.Sprintf("def numBuiltins : Nat := %d\n", len(builtins))
		s += fmt.Sprintf("def numAugOps : Nat := %d\n", len(augops))

		// resolver.Scope numbering: `Local Scope = iota + 1`, then Special, Global
		scopes := iotaConsts(parseFile("internal/resolver/resolve.go"), "Scope")
		for i, n := range scopes {
			s += fmt.Sprintf("def scope%s : Nat := %d\n", n, i+1)
		}
		toks := iotaConsts(parseFile("lexer/token.go"), "Token")
		for i, n := range toks {
			switch n {
			case "ILLEGAL", "PIPE", "LESS", "GREATER", "APPEND":
				s += fmt.Sprintf("def tok%s : Nat := %d\n", n, i)
			}
		}
		// special variables: V_ILLEGAL = iota … ; V_LAST = V_SUBSEP
		sv := parseFile("internal/ast/specialvars.go")
		var names []string
		for _, d := range sv.Decls {
			gd, ok := d.(*ast.GenDecl)
			if !ok || gd.Tok != token.CONST {
				continue
			}
			for _, sp := range gd.Specs {
				vs := sp.(*ast.ValueSpec)
				for _, n := range vs.Names {
					if strings.HasPrefix(n.Name, "V_") && n.Name != "V_LAST" {
						names = append(names, n.Name)
					}
				}
			}
		}
		if len(names) == 0 || names[0] != "V_ILLEGAL" {
			panic("C02: special variable constants not found")
		}
		s += fmt.Sprintf("def numSpecials : Nat := %d\n", len(names)-1)
		for i, n := range names {
			switch n {
			case "V_NF", "V_ARGC", "V_RS", "V_FS":
				s += fmt.Sprintf("def special%s : Nat := %d\n", strings.TrimPrefix(n, "V_"), i)
			}
		}
		// the cases of getSpecial / setSpecial: every index 1..numSpecials must have a case (else the default panics)
		ip := parseFile("interp/interp.go")
		for _, fn := range []string{"getSpecial", "setSpecial"} {
			cs := c02Switch(findFunc(ip, "interp", fn), "index")
			n := 0
			for _, nm := range names[1:] {
				if _, ok := cs[nm]; ok {
					n++
				}
			}
			s += fmt.Sprintf("def %sCases : Nat := %d\n", fn, n)
		}
		return "C02Arity.lean", s + footer("C02Arity")
	})
}
