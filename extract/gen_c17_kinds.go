package main

// C17: the reflect.Kind case lists of toNative / fromNative / validNativeType in interp/functions.go, with the text of the
// conversion expression each case returns, the result-count cases of checkNativeFunc / callNative, the variadic cap of the
// resolver's argument-count check, and the keyword table native function names are checked against.

import (
	"fmt"
	"go/ast"
	"sort"
	"strconv"
	"strings"
)

// kindCases walks the first `switch <tag>` statement of fn whose tag text is tagText and returns, per case clause, the
// reflect kinds listed and a one-line text of what the clause does (the returned expression, or the whole body).
func c17KindCases(fn *ast.FuncDecl, tagText string) [][2]string {
	var sw *ast.SwitchStmt
	ast.Inspect(fn.Body, func(n ast.Node) bool {
		if s, ok := n.(*ast.SwitchStmt); ok && sw == nil && s.Tag != nil && src(s.Tag) == tagText {
			sw = s
			return false
		}
		return true
	})
	if sw == nil {
		panic("switch " + tagText + " not found in " + fn.Name.Name)
	}
	var res [][2]string
	for _, st := range sw.Body.List {
		cc := st.(*ast.CaseClause)
		var kinds []string
		for _, e := range cc.List {
			kinds = append(kinds, strings.TrimPrefix(src(e), "reflect."))
		}
		if cc.List == nil {
			kinds = []string{"default"}
		}
		var body []string
		for _, s := range cc.Body {
			body = append(body, strings.Join(strings.Fields(c17StripComments(src(s))), " "))
		}
		res = append(res, [2]string{strings.Join(kinds, ","), strings.Join(body, " ; ")})
	}
	return res
}

func c17StripComments(s string) string {
	var out []string
	for _, l := range strings.Split(s, "\n") {
		if i := strings.Index(l, "//"); i >= 0 {
			l = l[:i]
		}
		out = append(out, l)
	}
	return strings.Join(out, "\n")
}

func c17Pairs(ps [][2]string) string {
	var b strings.Builder
	b.WriteString("[\n")
	for i, p := range ps {
		fmt.Fprintf(&b, "  (%s, %s)", leanStr(p[0]), leanStr(p[1]))
		if i < len(ps)-1 {
			b.WriteString(",")
		}
		b.WriteString("\n")
	}
	b.WriteString("]")
	return b.String()
}

func init() {
	registerGen(func() (string, string) {
		s := header("C17Kinds", "interp/functions.go, internal/resolver/resolve.go, lexer/token.go")
		f := parseFile("interp/functions.go")
		s += "/-- toNative: reflect kinds per case and the statement(s) of the case -/\n"
		s += "def toNativeCases : List (String × String) := " + c17Pairs(c17KindCases(findFunc(f, "interp", "toNative"), "typ.Kind()")) + "\n\n"
		s += "def fromNativeCases : List (String × String) := " + c17Pairs(c17KindCases(findFunc(f, "", "fromNative"), "v.Kind()")) + "\n\n"
		s += "def validNativeTypeCases : List (String × String) := " + c17Pairs(c17KindCases(findFunc(f, "", "validNativeType"), "typ.Kind()")) + "\n\n"
		s += "def checkNumOutCases : List (String × String) := " + c17Pairs(c17KindCases(findFunc(f, "", "checkNativeFunc"), "typ.NumOut()")) + "\n\n"
		s += "def callNumOutCases : List (String × String) := " + c17Pairs(c17KindCases(findFunc(f, "interp", "callNative"), "len(outs)")) + "\n\n"

		// the argument-building part of callNative, statement by statement (normalised text)
		cn := findFunc(f, "interp", "callNative")
		var stmts []string
		for _, st := range cn.Body.List {
			if _, ok := st.(*ast.SwitchStmt); ok {
				continue
			}
			stmts = append(stmts, strings.Join(strings.Fields(c17StripComments(src(st))), " "))
		}
		s += "def callNativePrefix : List String := " + leanStrList(stmts) + "\n\n"

		// checkNativeFunc without its result-count switch: the keyword / nil / not-a-function guards and the parameter loop
		ck := findFunc(f, "", "checkNativeFunc")
		var guards []string
		for _, st := range ck.Body.List {
			if _, ok := st.(*ast.SwitchStmt); ok {
				continue
			}
			guards = append(guards, strings.Join(strings.Fields(c17StripComments(src(st))), " "))
		}
		s += "def checkNativeFuncGuards : List String := " + leanStrList(guards) + "\n\n"

		// initNativeFuncs statement by statement (validate everything first, assign p.nativeFuncs afterwards), and the guard in
		// setExecuteConfig that runs it only while the table is nil
		inf := findFunc(f, "interp", "initNativeFuncs")
		var ist []string
		for _, st := range inf.Body.List {
			ist = append(ist, strings.Join(strings.Fields(c17StripComments(src(st))), " "))
		}
		s += "def initNativeFuncsStmts : List String := " + leanStrList(ist) + "\n"
		sec := findFunc(parseFile("interp/interp.go"), "interp", "setExecuteConfig")
		guard := ""
		ast.Inspect(sec.Body, func(n ast.Node) bool {
			if is, ok := n.(*ast.IfStmt); ok && guard == "" && strings.Contains(src(is.Cond), "nativeFuncs") {
				guard = strings.Join(strings.Fields(c17StripComments(src(is))), " ")
				return false
			}
			return true
		})
		if guard == "" {
			panic("nativeFuncs guard not found in setExecuteConfig")
		}
		s += "def setupGuard : String := " + leanStr(guard) + "\n\n"

		// resolver: the native branch of the UserCallExpr argument-count check
		r := parseFile("internal/resolver/resolve.go")
		var cap int64 = -1
		var nativeIf string
		ast.Inspect(r, func(n ast.Node) bool {
			is, ok := n.(*ast.IfStmt)
			if !ok || src(is.Cond) != "funcInfo.Native" || nativeIf != "" {
				return true
			}
			txt := strings.Join(strings.Fields(c17StripComments(src(is.Body))), " ")
			if !strings.Contains(txt, "NumIn") {
				return true
			}
			nativeIf = txt
			ast.Inspect(is.Body, func(m ast.Node) bool {
				if as, ok := m.(*ast.AssignStmt); ok && len(as.Lhs) == 1 && src(as.Lhs[0]) == "numParams" {
					if bl, ok := as.Rhs[0].(*ast.BasicLit); ok {
						cap, _ = strconv.ParseInt(bl.Value, 0, 64)
					}
				}
				return true
			})
			return false
		})
		if cap < 0 {
			panic("resolver variadic cap not found")
		}
		// where and how the resolver assigns native-function indexes: the statements of Resolve that build funcInfo / nativeNames,
		// in source order together with the first pass over the program (which records the AWK-defined functions)
		var ridx []string
		for _, st := range findFunc(r, "", "Resolve").Body.List {
			t := strings.Join(strings.Fields(c17StripComments(src(st))), " ")
			if strings.Contains(t, "nativeNames") || strings.HasPrefix(t, "funcInfo :=") || strings.HasPrefix(t, "ast.Walk(&callGraph") {
				ridx = append(ridx, t)
			}
		}
		s += "def resolverIndexStmts : List String := " + leanStrList(ridx) + "\n"
		s += "def resolverNativeBranch : String := " + leanStr(nativeIf) + "\n"
		s += fmt.Sprintf("def resolverVariadicCap : Nat := %d\n\n", cap)

		// keyword table
		lt := parseFile("lexer/token.go")
		var kws []string
		ast.Inspect(lt, func(n ast.Node) bool {
			vs, ok := n.(*ast.ValueSpec)
			if !ok || len(vs.Names) != 1 || vs.Names[0].Name != "keywordTokens" {
				return true
			}
			for _, el := range vs.Values[0].(*ast.CompositeLit).Elts {
				k, _ := strconv.Unquote(src(el.(*ast.KeyValueExpr).Key))
				kws = append(kws, k)
			}
			return false
		})
		if len(kws) == 0 {
			panic("keywordTokens not found")
		}
		sort.Strings(kws)
		s += "def keywords : List String := " + leanStrList(kws) + "\n"
		var kb []string
		for _, k := range kws {
			var bs []string
			for _, b := range []byte(k) {
				bs = append(bs, strconv.Itoa(int(b)))
			}
			kb = append(kb, "["+strings.Join(bs, ", ")+"]")
		}
		s += "def keywordBytes : List (List UInt8) := [" + strings.Join(kb, ", ") + "]\n"
		kindsOf := func(ps [][2]string) string {
			var ks []string
			for _, p := range ps {
				if p[0] != "default" {
					ks = append(ks, strings.Split(p[0], ",")...)
				}
			}
			return leanStrList(ks)
		}
		s += "def toNativeKinds : List String := " + kindsOf(c17KindCases(findFunc(f, "interp", "toNative"), "typ.Kind()")) + "\n"
		s += "def fromNativeKinds : List String := " + kindsOf(c17KindCases(findFunc(f, "", "fromNative"), "v.Kind()")) + "\n"
		s += "def validNativeTypeKinds : List String := " + kindsOf(c17KindCases(findFunc(f, "", "validNativeType"), "typ.Kind()")) + "\n"
		return "C17Kinds.lean", s + footer("C17Kinds")
	})
}
