package main

// C18: the functions GoawkModel.C18 mirrors (see pins.go).
func init() {
	registerGen(func() (string, string) {
		return pinGen("C18Pins", []pin{
			{"internal/cover/cover.go", "Cover", "Annotate"},
			{"internal/cover/cover.go", "Cover", "annotateActions"},
			{"internal/cover/cover.go", "Cover", "annotateFunctions"},
			{"internal/cover/cover.go", "Cover", "annotateStmtsList"},
			{"internal/cover/cover.go", "Cover", "annotateStmts"},
			{"internal/cover/cover.go", "Cover", "trackStatement"},
			{"internal/cover/cover.go", "", "endPos"},
		})
	})
}
