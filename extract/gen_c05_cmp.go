package main

// C05: regenerated facts about comparisons.
//
//   - internal/compiler/compiler.go `condition()`: for each comparison token the jump opcode returned when the condition is
//     compiled for "jump if true" and for "jump if false" (invert), or "unfused" when the inverted form is compiled as the
//     plain expression followed by JumpFalse; the order in which the operands are compiled; the fallback pair.
//   - internal/compiler/compiler.go `binaryOp()`: token → opcode.
//   - interp/vm.go `execute()`: for each of the twelve comparison opcodes the Go operator written between the two
//     p.toString(...) calls and the one between ln and rn, the operand order, and the body with those two operators
//     masked (so that any other edit of these cases changes a generated string that a Lean `decide` compares).

import (
	"fmt"
	"go/ast"
	"go/token"
	"strings"
)

func init() {
	registerGen(func() (string, string) {
		s := header("C05Cmp", "internal/compiler/compiler.go (condition, binaryOp), interp/vm.go (comparison opcodes)")
		cf := parseFile("internal/compiler/compiler.go")
		s += c05Condition(findFunc(cf, "compiler", "condition"))
		s += c05BinaryOp(findFunc(cf, "compiler", "binaryOp"))
		s += c05VM(findFunc(parseFile("interp/vm.go"), "interp", "execute"))
		s += c05ValueFacts(parseFile("interp/value.go"))
		s += c05RecordFacts()
		return "C05Cmp.lean", s + footer("C05Cmp")
	})
}

func oneLine(n ast.Node) string { return strings.Join(strings.Fields(src(n)), " ") }

func selName(e ast.Expr) string {
	switch x := e.(type) {
	case *ast.SelectorExpr:
		return x.Sel.Name
	case *ast.Ident:
		return x.Name
	}
	return "?" + oneLine(e)
}

// retJump describes a return statement of condition(): (normal, inverted).
func retJump(r *ast.ReturnStmt) (string, string) {
	if len(r.Results) != 1 {
		return "?", "?"
	}
	if call, ok := r.Results[0].(*ast.CallExpr); ok {
		if selName(call.Fun) == "jumpOp" && len(call.Args) == 2 {
			return selName(call.Args[0]), selName(call.Args[1])
		}
		return "?" + oneLine(call), "?"
	}
	n := selName(r.Results[0])
	return n, n // returned whatever `invert` is
}

// operandOrder lists the `c.expr(cond.X)` calls of a statement list in order.
func operandOrder(stmts []ast.Stmt) string {
	var order []string
	for _, st := range stmts {
		es, ok := st.(*ast.ExprStmt)
		if !ok {
			continue
		}
		call, ok := es.X.(*ast.CallExpr)
		if !ok || selName(call.Fun) != "expr" || len(call.Args) != 1 {
			order = append(order, "?"+oneLine(es))
			continue
		}
		order = append(order, selName(call.Args[0]))
	}
	return strings.Join(order, ",")
}

func c05Condition(fd *ast.FuncDecl) string {
	type row struct{ tok, normal, inverted, order string }
	var rows []row
	unfusedWhenInverted := map[string]string{} // token -> jump returned after c.expr(expr)
	jumpOpSrc := ""
	fallback := [2]string{"?", "?"}
	fallbackOrder := "?"
	var typeSwitch *ast.TypeSwitchStmt
	for _, st := range fd.Body.List {
		switch x := st.(type) {
		case *ast.AssignStmt:
			if len(x.Lhs) == 1 && selName(x.Lhs[0]) == "jumpOp" {
				jumpOpSrc = oneLine(x.Rhs[0])
			}
		case *ast.TypeSwitchStmt:
			typeSwitch = x
		case *ast.ReturnStmt:
			fallback[0], fallback[1] = retJump(x)
		}
	}
	// statements after the type switch, before the final return: the fallback's expression compilation
	{
		var pre []ast.Stmt
		seen := false
		for _, st := range fd.Body.List {
			if st == ast.Stmt(typeSwitch) {
				seen = true
				continue
			}
			if _, ok := st.(*ast.ReturnStmt); ok {
				continue
			}
			if seen {
				pre = append(pre, st)
			}
		}
		fallbackOrder = operandOrder(pre)
	}
	if typeSwitch == nil {
		panic("condition(): no type switch")
	}
	otherTypeCases := 0
	for _, cc := range typeSwitch.Body.List {
		clause := cc.(*ast.CaseClause)
		if len(clause.List) != 1 || oneLine(clause.List[0]) != "*ast.BinaryExpr" {
			otherTypeCases++
			continue
		}
		for _, st := range clause.Body {
			switch x := st.(type) {
			case *ast.IfStmt: // if invert { switch cond.Op { case ...: c.expr(expr); return JumpFalse } }
				if oneLine(x.Cond) != "invert" || x.Else != nil {
					panic("condition(): unexpected if: " + oneLine(x.Cond))
				}
				for _, ist := range x.Body.List {
					sw, ok := ist.(*ast.SwitchStmt)
					if !ok || oneLine(sw.Tag) != "cond.Op" {
						panic("condition(): unexpected statement under `if invert`")
					}
					for _, c2 := range sw.Body.List {
						cl := c2.(*ast.CaseClause)
						order := operandOrder(cl.Body[:len(cl.Body)-1])
						ret, ok := cl.Body[len(cl.Body)-1].(*ast.ReturnStmt)
						if !ok || order != "expr" {
							panic("condition(): unexpected body under `if invert`")
						}
						_, j := retJump(ret)
						for _, t := range cl.List {
							unfusedWhenInverted[selName(t)] = j
						}
					}
				}
			case *ast.SwitchStmt:
				if oneLine(x.Tag) != "cond.Op" {
					panic("condition(): unexpected switch tag")
				}
				for _, c2 := range x.Body.List {
					cl := c2.(*ast.CaseClause)
					ret, ok := cl.Body[len(cl.Body)-1].(*ast.ReturnStmt)
					if !ok {
						panic("condition(): case does not end in return")
					}
					n, inv := retJump(ret)
					order := operandOrder(cl.Body[:len(cl.Body)-1])
					for _, t := range cl.List {
						rows = append(rows, row{selName(t), n, inv, order})
					}
				}
			default:
				panic("condition(): unexpected statement in BinaryExpr case: " + oneLine(st))
			}
		}
	}
	s := "/-- `condition()`: (token, jump opcode when not inverted, how the inverted form is compiled: `fused` = the two operands\n"
	s += "then the named jump opcode, `unfused` = the whole expression followed by the named jump on its value —, that jump,\n"
	s += "operands in compilation order) -/\n"
	s += "def condFused : List (String × String × String × String × String) := ["
	for i, r := range rows {
		kind, inv := "fused", r.inverted
		if j, ok := unfusedWhenInverted[r.tok]; ok {
			kind, inv = "unfused", j
		}
		if i > 0 {
			s += ",\n  "
		}
		s += fmt.Sprintf("(%s, %s, %s, %s, %s)", leanStr(r.tok), leanStr(r.normal), leanStr(kind), leanStr(inv), leanStr(r.order))
	}
	s += "]\n"
	// tokens mentioned under `if invert` that have no fused row would be dead code; list them anyway
	var orphan []string
	for t := range unfusedWhenInverted {
		found := false
		for _, r := range rows {
			if r.tok == t {
				found = true
			}
		}
		if !found {
			orphan = append(orphan, t)
		}
	}
	sortStrings(orphan)
	s += "def condInvertOnly : List String := " + leanStrList(orphan) + "\n"
	s += fmt.Sprintf("/-- everything else: compile the expression (%s), then (not inverted, inverted) -/\n", fallbackOrder)
	s += fmt.Sprintf("def condFallback : String × String × String := (%s, %s, %s)\n", leanStr(fallback[0]), leanStr(fallback[1]), leanStr(fallbackOrder))
	s += "def condJumpOpSrc : String := " + leanStr(jumpOpSrc) + "\n"
	s += fmt.Sprintf("def condOtherTypeCases : Nat := %d\n", otherTypeCases)
	return s
}

func sortStrings(xs []string) {
	for i := range xs {
		for j := i + 1; j < len(xs); j++ {
			if xs[j] < xs[i] {
				xs[i], xs[j] = xs[j], xs[i]
			}
		}
	}
}

func c05BinaryOp(fd *ast.FuncDecl) string {
	var rows []string
	ast.Inspect(fd.Body, func(n ast.Node) bool {
		sw, ok := n.(*ast.SwitchStmt)
		if !ok || oneLine(sw.Tag) != "op" {
			return true
		}
		for _, c2 := range sw.Body.List {
			cl := c2.(*ast.CaseClause)
			if cl.List == nil {
				continue
			}
			as, ok := cl.Body[0].(*ast.AssignStmt)
			if !ok || len(cl.Body) != 1 || selName(as.Lhs[0]) != "opcode" {
				panic("binaryOp(): unexpected case body")
			}
			for _, t := range cl.List {
				rows = append(rows, fmt.Sprintf("(%s, %s)", leanStr(selName(t)), leanStr(selName(as.Rhs[0]))))
			}
		}
		return false
	})
	return "/-- `binaryOp()`: token → opcode -/\ndef binaryOps : List (String × String) := [" + strings.Join(rows, ", ") + "]\n"
}

var c05CmpOpcodes = []string{"Equals", "NotEquals", "Less", "Greater", "LessOrEqual", "GreaterOrEqual",
	"JumpEquals", "JumpNotEquals", "JumpLess", "JumpGreater", "JumpLessOrEqual", "JumpGreaterOrEqual"}

func c05VM(fd *ast.FuncDecl) string {
	clauses := map[string]*ast.CaseClause{}
	ast.Inspect(fd.Body, func(n ast.Node) bool {
		cl, ok := n.(*ast.CaseClause)
		if !ok {
			return true
		}
		for _, e := range cl.List {
			if se, ok := e.(*ast.SelectorExpr); ok && selName(se.X) == "compiler" {
				clauses[se.Sel.Name] = cl
			}
		}
		return true
	})
	type row struct{ name, kind, strOp, numOp, operands, tmpl string }
	var rows []row
	for _, name := range c05CmpOpcodes {
		cl := clauses[name]
		if cl == nil {
			panic("vm.go: no case for " + name)
		}
		if len(cl.List) != 1 {
			panic("vm.go: " + name + " shares its case with another opcode")
		}
		r := row{name: name, strOp: "?", numOp: "?"}
		var masked []*ast.BinaryExpr
		var saved []token.Token
		var opnds []string
		nCmp := 0
		for _, st := range cl.Body {
			ast.Inspect(st, func(n ast.Node) bool {
				be, ok := n.(*ast.BinaryExpr)
				if !ok {
					return true
				}
				switch be.Op {
				case token.EQL, token.NEQ, token.LSS, token.GTR, token.LEQ, token.GEQ:
				default:
					return true
				}
				nCmp++
				cx, okx := be.X.(*ast.CallExpr)
				cy, oky := be.Y.(*ast.CallExpr)
				if okx && oky && oneLine(cx.Fun) == "p.toString" && oneLine(cy.Fun) == "p.toString" {
					r.strOp = be.Op.String()
					opnds = append(opnds, "str:"+oneLine(cx.Args[0])+","+oneLine(cy.Args[0]))
				} else if _, ok := be.X.(*ast.Ident); ok {
					r.numOp = be.Op.String()
					opnds = append(opnds, "num:"+oneLine(be.X)+","+oneLine(be.Y))
				} else {
					opnds = append(opnds, "?"+oneLine(be))
				}
				masked = append(masked, be)
				saved = append(saved, be.Op)
				return true
			})
		}
		if nCmp != 2 {
			r.strOp, r.numOp = "?", "?"
		}
		for _, be := range masked {
			be.Op = token.XOR // placeholder printed as ^
		}
		var parts []string
		for _, st := range cl.Body {
			parts = append(parts, oneLine(st))
		}
		for i, be := range masked {
			be.Op = saved[i]
		}
		r.tmpl = strings.Join(parts, " ; ")
		switch {
		case strings.Contains(r.tmpl, "p.peekPop()") && strings.Contains(r.tmpl, "p.replaceTop(boolean(") && !strings.Contains(r.tmpl, "ip +="):
			r.kind = "push"
		case strings.Contains(r.tmpl, "p.popTwo()") && strings.Contains(r.tmpl, "if b { ip += int(offset) }") && !strings.Contains(r.tmpl, "replaceTop"):
			r.kind = "jump"
		default:
			r.kind = "?"
		}
		r.operands = strings.Join(opnds, ";")
		rows = append(rows, r)
	}
	s := "/-- vm.go: (opcode, push = replaces the operands by boolean(result) / jump = pops both and jumps when the result is true,\n"
	s += "operator between the p.toString calls, operator between ln and rn, operands) -/\n"
	s += "def vmCompare : List (String × String × String × String × String) := ["
	for i, r := range rows {
		if i > 0 {
			s += ",\n  "
		}
		s += fmt.Sprintf("(%s, %s, %s, %s, %s)", leanStr(r.name), leanStr(r.kind), leanStr(r.strOp), leanStr(r.numOp), leanStr(r.operands))
	}
	s += "]\n"
	s += "/-- vm.go: the case bodies with the two comparison operators masked as `^` -/\n"
	s += "def vmBodies : List (String × String) := ["
	for i, r := range rows {
		if i > 0 {
			s += ",\n  "
		}
		s += fmt.Sprintf("(%s, %s)", leanStr(r.name), leanStr(r.tmpl))
	}
	s += "]\n"
	for _, n := range []string{"JumpTrue", "JumpFalse", "Not", "Boolean"} {
		cl := clauses[n]
		if cl == nil {
			panic("vm.go: no case for " + n)
		}
		var parts []string
		for _, st := range cl.Body {
			parts = append(parts, oneLine(st))
		}
		s += fmt.Sprintf("def vmBody%s : String := %s\n", n, leanStr(strings.Join(parts, " ; ")))
	}
	return s
}

// c05ValueFacts: the ASCII space table of value.go and the source text of the small byte predicates.
func c05ValueFacts(f *ast.File) string {
	var spaces []string
	for _, d := range f.Decls {
		gd, ok := d.(*ast.GenDecl)
		if !ok || gd.Tok != token.VAR {
			continue
		}
		for _, sp := range gd.Specs {
			vs := sp.(*ast.ValueSpec)
			if len(vs.Names) != 1 || vs.Names[0].Name != "asciiSpace" {
				continue
			}
			cl := vs.Values[0].(*ast.CompositeLit)
			for _, el := range cl.Elts {
				kv := el.(*ast.KeyValueExpr)
				lit := kv.Key.(*ast.BasicLit)
				var c rune
				switch lit.Value {
				case `'\t'`:
					c = '\t'
				case `'\n'`:
					c = '\n'
				case `'\v'`:
					c = '\v'
				case `'\f'`:
					c = '\f'
				case `'\r'`:
					c = '\r'
				default:
					rs := []rune(strings.Trim(lit.Value, "'"))
					if len(rs) != 1 {
						panic("asciiSpace: cannot read key " + lit.Value)
					}
					c = rs[0]
				}
				if oneLine(kv.Value) != "1" {
					panic("asciiSpace: value is not 1")
				}
				spaces = append(spaces, fmt.Sprint(int(c)))
			}
		}
	}
	if len(spaces) == 0 {
		panic("asciiSpace not found")
	}
	s := "/-- value.go `asciiSpace`: the bytes with a non-zero entry -/\n"
	s += "def asciiSpaceBytes : List Nat := [" + strings.Join(spaces, ", ") + "]\n"
	for _, fn := range []string{"hasHexPrefix", "hasNaNPrefix", "hasInfPrefix", "isDigit", "isHexDigit"} {
		fd := findFunc(f, "", fn)
		s += fmt.Sprintf("def src_%s : String := %s\n", fn, leanStr(oneLine(fd.Body)))
	}
	return s
}

// c05RecordFacts: the statements of setLine / ensureFields / getField that mention the per-record provenance flags
// (lineIsTrueStr, fieldsIsTrueStr): the flags must be rebuilt from nothing for every record.
func c05RecordFacts() string {
	mention := func(fd *ast.FuncDecl) []string {
		var res []string
		for _, st := range fd.Body.List {
			t := oneLine(st)
			if strings.Contains(t, "IsTrueStr") {
				res = append(res, t)
			}
		}
		return res
	}
	io := parseFile("interp/io.go")
	s := "/-- io.go setLine / ensureFields: top-level statements that mention the provenance flags -/\n"
	s += "def src_setLine_flags : List String := " + leanStrList(mention(findFunc(io, "interp", "setLine"))) + "\n"
	s += "def src_ensureFields_flags : List String := " + leanStrList(mention(findFunc(io, "interp", "ensureFields"))) + "\n"
	s += "def src_getField : String := " + leanStr(oneLine(findFunc(parseFile("interp/interp.go"), "interp", "getField").Body)) + "\n"
	// CONVFMT / OFMT state: every field of `type interp struct` whose name contains "Format" (a derived cached copy would
	// show up here), how toString uses it, and what resetVars resets
	ip := parseFile("interp/interp.go")
	var fields []string
	ast.Inspect(ip, func(n ast.Node) bool {
		ts, ok := n.(*ast.TypeSpec)
		if !ok || ts.Name.Name != "interp" {
			return true
		}
		if st, ok := ts.Type.(*ast.StructType); ok {
			for _, f := range st.Fields.List {
				for _, nm := range f.Names {
					if strings.Contains(nm.Name, "Format") {
						fields = append(fields, nm.Name)
					}
				}
			}
		}
		return false
	})
	s += "/-- interp.go: fields of `interp` holding a number format; `toString`; the format resets of `resetVars` -/\n"
	s += "def interpFormatFields : List String := " + leanStrList(fields) + "\n"
	s += "def src_toString : String := " + leanStr(oneLine(findFunc(ip, "interp", "toString").Body)) + "\n"
	var resets []string
	for _, st := range findFunc(parseFile("interp/newexecute.go"), "interp", "resetVars").Body.List {
		if t := oneLine(st); strings.Contains(t, "ormat") {
			resets = append(resets, t)
		}
	}
	s += "def src_resetVars_formats : List String := " + leanStrList(resets) + "\n"
	return s
}
