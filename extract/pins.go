package main

// Pinned source text: for the properties whose model is written by hand from a handful of Go functions (and has no other
// regenerated fact), the gofmt-normalised text of exactly those functions — comments dropped, one trimmed line per element —
// is regenerated on every run into Generated/CnnPins.lean. Proofs/CnnPins.lean holds the text the model was written and
// validated against, and Props.Cnn states `pin_<func>` : generated = expected, by `rfl`. An edit of a pinned function
// therefore breaks an obligation of the property whose model mirrors it; ./check then searches for a failing input and,
// finding none, reports `no-failing-input-found` until the model has been compared with the new text and re-pinned
// (tools/repin.py). The lines reuse c10Lines (same normalisation as C10's facts).

import (
	"strings"
)

type pin struct{ file, recv, fn string }

func pinName(p pin) string {
	n := p.fn
	if p.recv != "" && p.recv != "interp" {
		n = p.recv + "_" + p.fn
	}
	return strings.ToLower(n[:1]) + n[1:]
}

func pinGen(name string, pins []pin) (string, string) {
	seen := map[string]bool{}
	var files []string
	for _, p := range pins {
		if !seen[p.file] {
			seen[p.file] = true
			files = append(files, p.file)
		}
	}
	s := header(name, strings.Join(files, ", "))
	var names []string
	for _, p := range pins {
		fd := findFunc(parseFile(p.file), p.recv, p.fn)
		lines := append([]string{"func" + src(fd.Type)[4:]}, c10Lines(fd.Body)...)
		s += "def " + pinName(p) + " : List String := " + leanStrList(lines) + "\n"
		names = append(names, pinName(p))
	}
	s += "def pinned : List String := " + leanStrList(names) + "\n"
	return name + ".lean", s + footer(name)
}
