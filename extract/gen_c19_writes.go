package main

// C19 facts, part 2: statements in package interp that could write through the shared parser.Program: assignments, ++/--,
// copy(dst, …), delete(m, …) and append-in-place whose target is rooted at p.program or at one of the slices newInterp takes from
// program.Compiled (p.functions, p.nums, p.strs, p.regexes) and goes at least one step deeper (an index, a field or a
// dereference). Plain `p.functions = …` (replacing the interpreter's own slice header) is not a write through. The list must be empty.
// Limit of the syntactic rule: writes through a local alias (`f := p.functions[i]; f.Body[0] = …`) are not seen; the harness's
// before/after dump comparison covers those.
//
// Part 2b (programMethodWrites): the same question asked of the Program types themselves — every method of parser.Program,
// resolver.ResolvedProgram and compiler.Program (what an interpreter can call on the shared Program: IterVars, IterFuncs, LookupFunc,
// LookupVar, String, Disassemble, …): statements whose target is rooted at the receiver, or at a local alias of something reached
// from the receiver (`res := r.resolver; res.cache = …`), at least one step deep. A method that fills a cache inside the Program on
// first use (seeded C19-q2) is listed here. The list must be empty.

import (
	"fmt"
	"go/ast"
	"go/token"
	"strings"
)

var c19Shared = map[string]bool{"program": true, "functions": true, "nums": true, "strs": true, "regexes": true}

// c19SharedRoot: e = p.<shared> followed by >= 1 index/selector/star step → the shared field's name.
func c19SharedRoot(e ast.Expr, recv string) string {
	depth := 0
	for {
		switch v := e.(type) {
		case *ast.IndexExpr:
			depth++
			e = v.X
		case *ast.SliceExpr:
			depth++
			e = v.X
		case *ast.StarExpr:
			depth++
			e = v.X
		case *ast.ParenExpr:
			e = v.X
		case *ast.SelectorExpr:
			if id, ok := v.X.(*ast.Ident); ok && id.Name == recv && c19Shared[v.Sel.Name] {
				if depth > 0 {
					return v.Sel.Name
				}
				return ""
			}
			depth++
			e = v.X
		default:
			return ""
		}
	}
}

func init() {
	registerGen(func() (string, string) {
		s := header("C19Writes", "interp/*.go")
		var items []string
		for _, rel := range goFiles("interp") {
			f := parseFile(rel)
			for _, d := range f.Decls {
				fd, ok := d.(*ast.FuncDecl)
				if !ok || fd.Body == nil || fd.Recv == nil || len(fd.Recv.List) == 0 || len(fd.Recv.List[0].Names) == 0 {
					continue
				}
				if typeName(fd.Recv.List[0].Type) != "interp" {
					continue
				}
				recv := fd.Recv.List[0].Names[0].Name
				add := func(what string, e ast.Expr) {
					if r := c19SharedRoot(e, recv); r != "" {
						items = append(items, fmt.Sprintf("(%s, %s, %s, %s)", leanStr(rel), leanStr(fd.Name.Name), leanStr(what), leanStr(src(e))))
					}
				}
				ast.Inspect(fd.Body, func(n ast.Node) bool {
					switch v := n.(type) {
					case *ast.AssignStmt:
						if v.Tok != token.DEFINE {
							for _, l := range v.Lhs {
								add("assign", l)
							}
						}
					case *ast.IncDecStmt:
						add("incdec", v.X)
					case *ast.CallExpr:
						if id, ok := v.Fun.(*ast.Ident); ok && len(v.Args) > 0 {
							switch id.Name {
							case "copy", "delete", "clear":
								add(id.Name, v.Args[0])
								// copy(p.nums, …) writes through even without a deeper step
								if sel, ok := v.Args[0].(*ast.SelectorExpr); ok {
									if x, ok := sel.X.(*ast.Ident); ok && x.Name == recv && c19Shared[sel.Sel.Name] {
										items = append(items, fmt.Sprintf("(%s, %s, %s, %s)", leanStr(rel), leanStr(fd.Name.Name), leanStr(id.Name), leanStr(src(v.Args[0]))))
									}
								}
							}
						}
					}
					return true
				})
			}
		}
		s += "/-- (file, function, kind, target) of every statement that writes through the shared Program -/\n"
		s += "def programWrites : List (String × String × String × String) := ["
		for i, it := range items {
			if i > 0 {
				s += ","
			}
			s += "\n  " + it
		}
		s += "]\n"
		s += c19MethodWrites()
		return "C19Writes.lean", s + footer("C19Writes")
	})
}

var c19ProgramTypes = []struct{ dir, typ string }{
	{"parser", "Program"}, {"internal/resolver", "ResolvedProgram"}, {"internal/compiler", "Program"},
}

// c19RootIdent: the identifier an lvalue/expression is rooted at and the number of index/field/deref steps taken from it.
func c19RootIdent(e ast.Expr) (string, int) {
	depth := 0
	for {
		switch v := e.(type) {
		case *ast.IndexExpr:
			depth++
			e = v.X
		case *ast.SliceExpr:
			depth++
			e = v.X
		case *ast.StarExpr:
			depth++
			e = v.X
		case *ast.ParenExpr:
			e = v.X
		case *ast.UnaryExpr:
			if v.Op != token.AND {
				return "", 0
			}
			e = v.X
		case *ast.SelectorExpr:
			depth++
			e = v.X
		case *ast.Ident:
			return v.Name, depth
		default:
			return "", 0
		}
	}
}

func c19MethodWrites() string {
	var items []string
	for _, pt := range c19ProgramTypes {
		for _, rel := range goFiles(pt.dir) {
			if strings.HasSuffix(rel, "_test.go") {
				continue
			}
			f := parseFile(rel)
			for _, d := range f.Decls {
				fd, ok := d.(*ast.FuncDecl)
				if !ok || fd.Body == nil || fd.Recv == nil || len(fd.Recv.List) == 0 || len(fd.Recv.List[0].Names) == 0 {
					continue
				}
				if typeName(fd.Recv.List[0].Type) != pt.typ {
					continue
				}
				shared := map[string]bool{fd.Recv.List[0].Names[0].Name: true} // the receiver and local aliases of what it reaches
				add := func(what string, e ast.Expr) {
					if root, depth := c19RootIdent(e); shared[root] && depth > 0 {
						items = append(items, fmt.Sprintf("(%s, %s, %s, %s)", leanStr(rel), leanStr(pt.typ+"."+fd.Name.Name), leanStr(what), leanStr(src(e))))
					}
				}
				ast.Inspect(fd.Body, func(n ast.Node) bool {
					switch v := n.(type) {
					case *ast.AssignStmt:
						if v.Tok == token.DEFINE {
							for i, l := range v.Lhs {
								if id, ok := l.(*ast.Ident); ok && i < len(v.Rhs) && len(v.Lhs) == len(v.Rhs) {
									if root, depth := c19RootIdent(v.Rhs[i]); shared[root] && depth > 0 {
										shared[id.Name] = true
									}
								}
							}
						} else {
							for _, l := range v.Lhs {
								add("assign", l)
							}
						}
					case *ast.IncDecStmt:
						add("incdec", v.X)
					case *ast.CallExpr:
						if id, ok := v.Fun.(*ast.Ident); ok && len(v.Args) > 0 {
							switch id.Name {
							case "copy", "delete", "clear":
								add(id.Name, v.Args[0])
							}
						}
					}
					return true
				})
			}
		}
	}
	s := "/-- (file, method, kind, target) of every statement in a method of the Program types that writes into the Program -/\n"
	s += "def programMethodWrites : List (String × String × String × String) := ["
	for i, it := range items {
		if i > 0 {
			s += ","
		}
		s += "\n  " + it
	}
	return s + "]\n"
}
