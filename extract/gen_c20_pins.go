package main

// C20: the functions GoawkModel.C20 mirrors (see pins.go).
func init() {
	registerGen(func() (string, string) {
		return pinGen("C20Pins", []pin{
			{"internal/ast/ast.go", "Program", "String"},
			{"internal/ast/ast.go", "Stmts", "String"},
			{"internal/ast/ast.go", "Action", "String"},
			{"internal/ast/ast.go", "", "parenthesize"},
			{"internal/ast/ast.go", "", "quoteString"},
			{"internal/ast/ast.go", "FieldExpr", "String"},
			{"internal/ast/ast.go", "NamedFieldExpr", "String"},
			{"internal/ast/ast.go", "UnaryExpr", "String"},
			{"internal/ast/ast.go", "BinaryExpr", "String"},
			{"internal/ast/ast.go", "InExpr", "String"},
			{"internal/ast/ast.go", "CondExpr", "String"},
			{"internal/ast/ast.go", "NumExpr", "String"},
			{"internal/ast/ast.go", "StrExpr", "String"},
			{"internal/ast/ast.go", "RegExpr", "String"},
			{"internal/ast/ast.go", "VarExpr", "String"},
			{"internal/ast/ast.go", "IndexExpr", "String"},
			{"internal/ast/ast.go", "AssignExpr", "String"},
			{"internal/ast/ast.go", "AugAssignExpr", "String"},
			{"internal/ast/ast.go", "IncrExpr", "String"},
			{"internal/ast/ast.go", "CallExpr", "String"},
			{"internal/ast/ast.go", "UserCallExpr", "String"},
			{"internal/ast/ast.go", "MultiExpr", "String"},
			{"internal/ast/ast.go", "GetlineExpr", "String"},
			{"internal/ast/ast.go", "GroupingExpr", "String"},
			{"internal/ast/ast.go", "PrintStmt", "String"},
			{"internal/ast/ast.go", "PrintfStmt", "String"},
			{"internal/ast/ast.go", "ExprStmt", "String"},
			{"internal/ast/ast.go", "IfStmt", "String"},
			{"internal/ast/ast.go", "ForStmt", "String"},
			{"internal/ast/ast.go", "ForInStmt", "String"},
			{"internal/ast/ast.go", "WhileStmt", "String"},
			{"internal/ast/ast.go", "DoWhileStmt", "String"},
			{"internal/ast/ast.go", "BreakStmt", "String"},
			{"internal/ast/ast.go", "ContinueStmt", "String"},
			{"internal/ast/ast.go", "NextStmt", "String"},
			{"internal/ast/ast.go", "NextfileStmt", "String"},
			{"internal/ast/ast.go", "ExitStmt", "String"},
			{"internal/ast/ast.go", "DeleteStmt", "String"},
			{"internal/ast/ast.go", "ReturnStmt", "String"},
			{"internal/ast/ast.go", "BlockStmt", "String"},
		})
	})
}
