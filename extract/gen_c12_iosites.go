package main

// C12: inventory of every place in package interp that can open a file or start a process, with the deny flags that
// syntactically dominate it. Writes Generated/C12IoSites.lean.
//
//   sites    : (enclosing function, callee, isCall, guards) for
//                * every selector on an import of a package that reaches the OS (os, os/exec, syscall, io/ioutil, net, …)
//                  except a short allowlist of harmless names (os.Stdin, os.O_RDONLY, exec.Cmd, …),
//                * every call of p.openFile / p.execShell / newOutCmdStream / newInCmdStream,
//                * every method call named Start / Run / Output / CombinedOutput / StartProcess,
//              sorted by (function, callee, occurrence) so that moving code between files changes nothing.
//              guards = the flags F for which a statement `if p.F { …; return … }` precedes the site in a block that
//              encloses the site (so the site is only reached with F false).
//   imports  : the sorted set of import paths of the package (a new import of net, plugin, io/ioutil, … shows up here).
//   openFileAssignments : (function, right-hand side) of every assignment to p.openFile.

import (
	"fmt"
	"go/ast"
	"sort"
	"strconv"
	"strings"
)

var c12OSPackages = map[string]bool{
	"os": true, "os/exec": true, "syscall": true, "io/ioutil": true, "net": true, "net/http": true, "plugin": true,
	"unsafe": true, "path/filepath": true, "embed": true, "os/signal": true, "io/fs": true, "golang.org/x/sys/unix": true,
	"runtime/debug": true, "os/user": true, "net/url": false,
}

var c12Benign = map[string]bool{
	"os.Stdin": true, "os.Stdout": true, "os.Stderr": true, "os.FileMode": true, "os.File": true,
	"os.O_RDONLY": true, "os.O_WRONLY": true, "os.O_RDWR": true, "os.O_APPEND": true, "os.O_CREATE": true,
	"os.O_EXCL": true, "os.O_SYNC": true, "os.O_TRUNC": true, "os.Environ": true, "os.Getenv": true,
	"os.LookupEnv": true, "os.ErrNotExist": true, "os.PathSeparator": true,
	"exec.Cmd": true, "exec.ExitError": true, "exec.Error": true, "exec.ErrNotFound": true,
	"syscall.WaitStatus": true, "syscall.Signal": true,
	"fs.ErrNotExist": true, "fs.FileMode": true, "fs.PathError": true,
}

var c12Helpers = map[string]bool{"p.openFile": true, "p.execShell": true, "newOutCmdStream": true, "newInCmdStream": true}
var c12Methods = map[string]bool{"Start": true, "Run": true, "Output": true, "CombinedOutput": true, "StartProcess": true}
var c12Flags = map[string]bool{"noExec": true, "noFileWrites": true, "noFileReads": true}

type c12Site struct {
	fn, callee string
	call       bool
	guards     []string
}

func c12FuncName(fd *ast.FuncDecl) string {
	if fd.Recv != nil && len(fd.Recv.List) > 0 {
		return typeName(fd.Recv.List[0].Type) + "." + fd.Name.Name
	}
	return fd.Name.Name
}

// c12Guard: `if p.F { …; return … }` (no else) → F
func c12Guard(st ast.Stmt) string {
	is, ok := st.(*ast.IfStmt)
	if !ok || is.Init != nil || is.Else != nil || len(is.Body.List) == 0 {
		return ""
	}
	sel, ok := is.Cond.(*ast.SelectorExpr)
	if !ok || !c12Flags[sel.Sel.Name] {
		return ""
	}
	if x, ok := sel.X.(*ast.Ident); !ok || x.Name != "p" {
		return ""
	}
	if _, ok := is.Body.List[len(is.Body.List)-1].(*ast.ReturnStmt); !ok {
		return ""
	}
	return sel.Sel.Name
}

func init() {
	registerGen(func() (string, string) {
		var sites []c12Site
		importSet := map[string]bool{}
		var assigns [][2]string
		for _, rel := range goFiles("interp") {
			f := parseFile(rel)
			local := map[string]string{} // local package name -> import path (OS-reaching packages only)
			for _, im := range f.Imports {
				path, _ := strconv.Unquote(im.Path.Value)
				importSet[path] = true
				name := path[strings.LastIndex(path, "/")+1:]
				if im.Name != nil {
					name = im.Name.Name
				}
				if c12OSPackages[path] {
					local[name] = path
				}
			}
			for _, d := range f.Decls {
				fn := "<package>"
				var body ast.Node = d
				if fd, ok := d.(*ast.FuncDecl); ok {
					fn = c12FuncName(fd)
					if fd.Body == nil {
						continue
					}
					body = fd
				}
				// walk with a stack of the guards in force
				var walk func(n ast.Node, guards []string)
				walkStmts := func(list []ast.Stmt, guards []string) {
					g := append([]string(nil), guards...)
					for _, st := range list {
						walk(st, g)
						if fl := c12Guard(st); fl != "" {
							g = append(g, fl)
						}
					}
				}
				walk = func(n ast.Node, guards []string) {
					if n == nil {
						return
					}
					switch x := n.(type) {
					case *ast.BlockStmt:
						walkStmts(x.List, guards)
						return
					case *ast.CaseClause:
						for _, e := range x.List {
							walk(e, guards)
						}
						walkStmts(x.Body, guards)
						return
					case *ast.CommClause:
						walk(x.Comm, guards)
						walkStmts(x.Body, guards)
						return
					case *ast.AssignStmt:
						for _, l := range x.Lhs {
							if src(l) == "p.openFile" {
								for _, r := range x.Rhs {
									assigns = append(assigns, [2]string{fn, src(r)})
								}
							}
						}
					case *ast.CallExpr:
						callee := src(x.Fun)
						listed := false
						if c12Helpers[callee] {
							listed = true
						} else if sel, ok := x.Fun.(*ast.SelectorExpr); ok {
							if id, ok := sel.X.(*ast.Ident); ok && local[id.Name] != "" {
								if !c12Benign[callee] {
									listed = true
								}
								// arguments are still walked below; the selector itself is consumed here
								if listed {
									sites = append(sites, c12Site{fn, callee, true, append([]string(nil), guards...)})
								}
								for _, a := range x.Args {
									walk(a, guards)
								}
								return
							}
							if c12Methods[sel.Sel.Name] {
								callee = "(" + src(sel.X) + ")." + sel.Sel.Name
								listed = true
							}
						}
						if listed {
							sites = append(sites, c12Site{fn, callee, true, append([]string(nil), guards...)})
						}
					case *ast.SelectorExpr:
						if id, ok := x.X.(*ast.Ident); ok && local[id.Name] != "" {
							name := id.Name + "." + x.Sel.Name
							if !c12Benign[name] {
								sites = append(sites, c12Site{fn, name, false, append([]string(nil), guards...)})
							}
							return
						}
					}
					// generic descent, one level, keeping the guards
					ast.Inspect(n, func(c ast.Node) bool {
						if c == nil || c == n {
							return true
						}
						walk(c, guards)
						return false
					})
				}
				walk(body, nil)
			}
		}
		sort.SliceStable(sites, func(i, j int) bool {
			if sites[i].fn != sites[j].fn {
				return sites[i].fn < sites[j].fn
			}
			return sites[i].callee < sites[j].callee
		})
		sort.Slice(assigns, func(i, j int) bool { return assigns[i][0]+"\x00"+assigns[i][1] < assigns[j][0]+"\x00"+assigns[j][1] })
		var imports []string
		for p := range importSet {
			imports = append(imports, p)
		}
		sort.Strings(imports)

		s := header("C12IoSites", "all non-test files of package interp")
		s += "/-- (enclosing function, callee, is a call, deny flags that dominate the site) -/\n"
		s += "def sites : List (String × String × Bool × List String) := [\n"
		for i, st := range sites {
			sep := ","
			if i == len(sites)-1 {
				sep = ""
			}
			s += fmt.Sprintf("  (%s, %s, %v, %s)%s\n", leanStr(st.fn), leanStr(st.callee), st.call, leanStrList(st.guards), sep)
		}
		s += "]\n\n"
		s += "def imports : List String := " + leanStrList(imports) + "\n\n"
		s += "def openFileAssignments : List (String × String) := ["
		for i, a := range assigns {
			if i > 0 {
				s += ", "
			}
			s += "(" + leanStr(a[0]) + ", " + leanStr(a[1]) + ")"
		}
		s += "]\n"
		return "C12IoSites.lean", s + footer("C12IoSites")
	})
}
