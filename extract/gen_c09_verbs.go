package main

// C09: the printf verb-rewrite table of interp/functions.go parseFmtTypes (AWK verb -> argument type letter, Go verb), the
// set of flag/width/precision characters both format scanners skip, the verbs addDefaultPrecisionG patches and what it
// inserts, and the type letters sprintf's conversion switch handles. Written to Generated/C09Verbs.lean.

import (
	"fmt"
	"go/ast"
	"go/token"
	"sort"
	"strconv"
	"strings"
)

func c09CharLit(e ast.Expr) (byte, bool) {
	bl, ok := e.(*ast.BasicLit)
	if !ok || bl.Kind != token.CHAR {
		return 0, false
	}
	s, err := strconv.Unquote(bl.Value)
	if err != nil || len(s) != 1 {
		return 0, false
	}
	return s[0], true
}

// c09SpecChars finds strings.IndexByte("<chars>", x[i]) calls in fn and returns the distinct literal strings.
func c09SpecChars(fn *ast.FuncDecl) []string {
	seen := map[string]bool{}
	ast.Inspect(fn, func(n ast.Node) bool {
		ce, ok := n.(*ast.CallExpr)
		if !ok || src(ce.Fun) != "strings.IndexByte" || len(ce.Args) != 2 {
			return true
		}
		if bl, ok := ce.Args[0].(*ast.BasicLit); ok && bl.Kind == token.STRING {
			s, _ := strconv.Unquote(bl.Value)
			seen[s] = true
		}
		return true
	})
	var res []string
	for s := range seen {
		res = append(res, s)
	}
	sort.Strings(res)
	return res
}

func c09Codes(s string) string {
	parts := make([]string, len(s))
	for i := 0; i < len(s); i++ {
		parts[i] = strconv.Itoa(int(s[i]))
	}
	return "[" + strings.Join(parts, ", ") + "]"
}

func init() {
	registerGen(func() (string, string) {
		f := parseFile("interp/functions.go")
		s := header("C09Verbs", "interp/functions.go (parseFmtTypes, addDefaultPrecisionG, sprintf)")
		fn := findFunc(f, "interp", "parseFmtTypes")

		// the verb switch: `switch s[i] { case 'x', ...: t = '.'; out[i] = '.' ... default: return error }`
		type row struct{ verb, typ, goVerb byte }
		var rows []row
		found := false
		ast.Inspect(fn, func(n ast.Node) bool {
			sw, ok := n.(*ast.SwitchStmt)
			if !ok || sw.Tag == nil || src(sw.Tag) != "s[i]" {
				return true
			}
			found = true
			for _, c := range sw.Body.List {
				cc := c.(*ast.CaseClause)
				if cc.List == nil {
					continue // default: error
				}
				var typ, goVerb byte
				for _, st := range cc.Body {
					as, ok := st.(*ast.AssignStmt)
					if !ok || len(as.Lhs) != 1 || len(as.Rhs) != 1 {
						panic("parseFmtTypes: unexpected statement in verb case: " + src(st))
					}
					v, ok := c09CharLit(as.Rhs[0])
					if !ok {
						panic("parseFmtTypes: non-literal in verb case: " + src(st))
					}
					switch src(as.Lhs[0]) {
					case "t":
						typ = v
					case "out[i]":
						goVerb = v
					default:
						panic("parseFmtTypes: unexpected assignment in verb case: " + src(st))
					}
				}
				if typ == 0 {
					panic("parseFmtTypes: verb case without type letter")
				}
				for _, e := range cc.List {
					v, ok := c09CharLit(e)
					if !ok {
						panic("parseFmtTypes: non-literal case label " + src(e))
					}
					g := goVerb
					if g == 0 {
						g = v
					}
					rows = append(rows, row{v, typ, g})
				}
			}
			return false
		})
		if !found {
			panic("parseFmtTypes: verb switch on s[i] not found")
		}
		s += "/-- (AWK verb, argument type letter, verb handed to fmt.Sprintf), in source order -/\n"
		s += "def verbTable : List (Nat × Nat × Nat) := ["
		for i, r := range rows {
			if i > 0 {
				s += ", "
			}
			s += fmt.Sprintf("(%d, %d, %d)", r.verb, r.typ, r.goVerb)
		}
		s += "]\n"
		s += "def verbTableText : String := " + leanStr(func() string {
			var p []string
			for _, r := range rows {
				p = append(p, fmt.Sprintf("%c:%c:%c", r.verb, r.typ, r.goVerb))
			}
			return strings.Join(p, " ")
		}()) + "\n"

		sc := c09SpecChars(fn)
		if len(sc) != 1 {
			panic(fmt.Sprint("parseFmtTypes: expected one spec-character set, got ", sc))
		}
		s += "/-- the flag/width/precision characters parseFmtTypes skips between % and the verb -/\n"
		s += "def specChars : List Nat := " + c09Codes(sc[0]) + "\n"

		// does the `*` inside that loop append type 'd'?
		starType := byte(0)
		ast.Inspect(fn, func(n ast.Node) bool {
			is, ok := n.(*ast.IfStmt)
			if !ok || src(is.Cond) != "s[i] == '*'" {
				return true
			}
			for _, st := range is.Body.List {
				if as, ok := st.(*ast.AssignStmt); ok && len(as.Rhs) == 1 {
					if ce, ok := as.Rhs[0].(*ast.CallExpr); ok && src(ce.Fun) == "append" && len(ce.Args) == 2 {
						if v, ok := c09CharLit(ce.Args[1]); ok {
							starType = v
						}
					}
				}
			}
			return true
		})
		s += fmt.Sprintf("/-- type letter appended for each `*` -/\ndef starType : Nat := %d\n", starType)

		g := findFunc(f, "", "addDefaultPrecisionG")
		gc := c09SpecChars(g)
		if len(gc) != 1 {
			panic(fmt.Sprint("addDefaultPrecisionG: expected one spec-character set, got ", gc))
		}
		s += "def specCharsG : List Nat := " + c09Codes(gc[0]) + "\n"
		var gVerbs []byte
		inserted := ""
		ast.Inspect(g, func(n ast.Node) bool {
			switch x := n.(type) {
			case *ast.BinaryExpr:
				if x.Op == token.EQL && src(x.X) == "format[i]" {
					if v, ok := c09CharLit(x.Y); ok && v != '%' && v != '.' {
						gVerbs = append(gVerbs, v)
					}
				}
			case *ast.AssignStmt:
				if len(x.Lhs) == 1 && src(x.Lhs[0]) == "format" && len(x.Rhs) == 1 {
					ast.Inspect(x.Rhs[0], func(m ast.Node) bool {
						if bl, ok := m.(*ast.BasicLit); ok && bl.Kind == token.STRING {
							inserted, _ = strconv.Unquote(bl.Value)
						}
						return true
					})
				}
			}
			return true
		})
		s += "/-- verbs that get a default precision, and the text inserted before them -/\n"
		s += "def precGVerbs : List Nat := " + c09Codes(string(gVerbs)) + "\n"
		s += "def precGInsert : List Nat := " + c09Codes(inserted) + "\n"

		// sprintf: the type letters its conversion switch handles, with the source text of each conversion
		sp := findFunc(f, "interp", "sprintf")
		var letters []byte
		var convs []string
		ast.Inspect(sp, func(n ast.Node) bool {
			sw, ok := n.(*ast.SwitchStmt)
			if !ok || sw.Tag == nil || src(sw.Tag) != "t" {
				return true
			}
			for _, c := range sw.Body.List {
				cc := c.(*ast.CaseClause)
				for _, e := range cc.List {
					if v, ok := c09CharLit(e); ok {
						letters = append(letters, v)
						if len(cc.Body) == 1 {
							convs = append(convs, string(v)+": "+src(cc.Body[0]))
						} else {
							convs = append(convs, string(v)+": <block>")
						}
					}
				}
			}
			return false
		})
		s += fmt.Sprintf("/-- the format cache holds at most this many formats -/\ndef maxCachedFormats : Nat := %d\n", constInt(parseFile("interp/interp.go"), "maxCachedFormats"))
		s += "def convLetters : List Nat := " + c09Codes(string(letters)) + "\n"
		s += "/-- source text of the one-line argument conversions in sprintf -/\n"
		s += "def convText : List String := " + leanStrList(convs) + "\n"
		return "C09Verbs.lean", s + footer("C09Verbs")
	})
}
