package main

// C05: the functions GoawkModel.C05 mirrors (see pins.go).
func init() {
	registerGen(func() (string, string) {
		return pinGen("C05Pins", []pin{
			{"interp/value.go", "", "numStr"},
			{"interp/value.go", "value", "isTrueStr"},
			{"interp/value.go", "value", "boolean"},
			{"interp/value.go", "", "parseFloat"},
			{"interp/value.go", "value", "str"},
			{"interp/value.go", "value", "num"},
			{"interp/value.go", "", "parseFloatPrefix"},
			{"interp/value.go", "", "hasHexPrefix"},
			{"interp/value.go", "", "hasNaNPrefix"},
			{"interp/value.go", "", "hasInfPrefix"},
			{"interp/value.go", "", "parseHexFloatPrefix"},
			{"interp/interp.go", "interp", "toString"},
		})
	})
}
