// Command extract reads /repo's Go sources with go/parser + go/ast (no type checking, no build of /repo) and
// rewrites lean/GoawkModel/Generated/*.lean: table-like facts the Lean models use or are compared with.
// Every generated file contains only `def`s. Files are rewritten only when their content changed.
package main

import (
	"bytes"
	"flag"
	"fmt"
	"go/ast"
	"go/parser"
	"go/printer"
	"go/token"
	"os"
	"path/filepath"
	"runtime"
	"sort"
	"strconv"
	"strings"
)

var (
	repo   string
	outDir string
	fset   = token.NewFileSet()
	cache  = map[string]*ast.File{}
	failed bool
)

type genFunc func() (fileName string, content string)

type taggedGen struct {
	tag string // source file of the generator, e.g. gen_c12_iosites.go — the property it serves is in the name
	f   genFunc
}

var gens []taggedGen

func registerGen(g genFunc) {
	_, file, _, _ := runtime.Caller(1)
	gens = append(gens, taggedGen{filepath.Base(file), g})
}

func main() {
	flag.StringVar(&repo, "repo", "/repo", "")
	flag.StringVar(&outDir, "out", "/verif/lean/GoawkModel/Generated", "")
	flag.Parse()
	os.MkdirAll(outDir, 0o755)
	changed := 0
	for _, tg := range gens {
		name, content := safeGen(tg)
		if name == "" {
			continue
		}
		path := filepath.Join(outDir, name)
		old, _ := os.ReadFile(path)
		if bytes.Equal(old, []byte(content)) {
			continue
		}
		tmp := path + ".tmp"
		if err := os.WriteFile(tmp, []byte(content), 0o644); err != nil {
			fmt.Println("write failed:", err)
			os.Exit(1)
		}
		os.Rename(tmp, path)
		changed++
		fmt.Println("regenerated", name)
	}
	fmt.Printf("extract: %d files, %d changed\n", len(gens), changed)
	if failed {
		os.Exit(1)
	}
}

func safeGen(tg taggedGen) (name, content string) {
	defer func() {
		if r := recover(); r != nil {
			// one line per failed generator; ./check attributes it to the property named in the tag
			fmt.Printf("GENERATOR-FAILED %s: %v\n", tg.tag, r)
			failed = true
			name = ""
		}
	}()
	return tg.f()
}

// ---- helpers -----------------------------------------------------------------------------------

func parseFile(rel string) *ast.File {
	if f, ok := cache[rel]; ok {
		return f
	}
	f, err := parser.ParseFile(fset, filepath.Join(repo, rel), nil, parser.ParseComments)
	if err != nil {
		panic(fmt.Sprint("cannot parse ", rel, ": ", err))
	}
	cache[rel] = f
	return f
}

// goFiles lists the non-test .go files of a package directory (build-tagged verif files excluded).
func goFiles(dir string) []string {
	ents, err := os.ReadDir(filepath.Join(repo, dir))
	if err != nil {
		panic(err)
	}
	var res []string
	for _, e := range ents {
		n := e.Name()
		if !strings.HasSuffix(n, ".go") || strings.HasSuffix(n, "_test.go") || strings.HasPrefix(n, "verif") {
			continue
		}
		res = append(res, filepath.Join(dir, n))
	}
	sort.Strings(res)
	return res
}

func findFunc(f *ast.File, recv, name string) *ast.FuncDecl {
	for _, d := range f.Decls {
		fd, ok := d.(*ast.FuncDecl)
		if !ok || fd.Name.Name != name {
			continue
		}
		r := ""
		if fd.Recv != nil && len(fd.Recv.List) > 0 {
			r = typeName(fd.Recv.List[0].Type)
		}
		if r == recv {
			return fd
		}
	}
	panic(fmt.Sprintf("function %s.%s not found", recv, name))
}

func typeName(e ast.Expr) string {
	switch t := e.(type) {
	case *ast.StarExpr:
		return typeName(t.X)
	case *ast.Ident:
		return t.Name
	case *ast.SelectorExpr:
		return typeName(t.X) + "." + t.Sel.Name
	}
	return "?"
}

func src(n ast.Node) string {
	var b bytes.Buffer
	printer.Fprint(&b, fset, n)
	return b.String()
}

// iotaConsts returns the names of the const block whose first entry has the given type name, in order.
func iotaConsts(f *ast.File, typ string) []string {
	for _, d := range f.Decls {
		gd, ok := d.(*ast.GenDecl)
		if !ok || gd.Tok != token.CONST || len(gd.Specs) == 0 {
			continue
		}
		vs := gd.Specs[0].(*ast.ValueSpec)
		if vs.Type == nil || typeName(vs.Type) != typ {
			continue
		}
		var names []string
		for _, s := range gd.Specs {
			for _, n := range s.(*ast.ValueSpec).Names {
				names = append(names, n.Name)
			}
		}
		return names
	}
	panic("const block of type " + typ + " not found")
}

// constInt evaluates a package-level integer constant written as a literal or a product of literals.
func constInt(f *ast.File, name string) int64 {
	for _, d := range f.Decls {
		gd, ok := d.(*ast.GenDecl)
		if !ok || gd.Tok != token.CONST {
			continue
		}
		for _, s := range gd.Specs {
			vs := s.(*ast.ValueSpec)
			for i, n := range vs.Names {
				if n.Name == name && i < len(vs.Values) {
					return evalInt(vs.Values[i])
				}
			}
		}
	}
	panic("constant " + name + " not found")
}

func evalInt(e ast.Expr) int64 {
	switch x := e.(type) {
	case *ast.BasicLit:
		v, err := strconv.ParseInt(x.Value, 0, 64)
		if err != nil {
			panic(err)
		}
		return v
	case *ast.BinaryExpr:
		a, b := evalInt(x.X), evalInt(x.Y)
		switch x.Op {
		case token.MUL:
			return a * b
		case token.ADD:
			return a + b
		case token.SUB:
			return a - b
		case token.SHL:
			return a << uint(b)
		}
	case *ast.ParenExpr:
		return evalInt(x.X)
	}
	panic("cannot evaluate constant expression " + src(e))
}

func leanStr(s string) string {
	var b strings.Builder
	b.WriteByte('"')
	for _, r := range s {
		switch {
		case r == '"':
			b.WriteString("\\\"")
		case r == '\\':
			b.WriteString("\\\\")
		case r == '\n':
			b.WriteString("\\n")
		case r == '\t':
			b.WriteString("\\t")
		case r < 32 || r > 126:
			fmt.Fprintf(&b, "\\u{%x}", r)
		default:
			b.WriteRune(r)
		}
	}
	b.WriteByte('"')
	return b.String()
}

func leanStrList(xs []string) string {
	qs := make([]string, len(xs))
	for i, x := range xs {
		qs[i] = leanStr(x)
	}
	return "[" + strings.Join(qs, ", ") + "]"
}

func header(name, from string) string {
	return "/-! GENERATED by /verif/extract from " + from + " — rewritten on every check run; do not edit. -/\nnamespace GoawkModel.Generated." + name + "\n\n"
}
func footer(name string) string { return "\nend GoawkModel.Generated." + name + "\n" }
