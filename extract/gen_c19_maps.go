package main

// C19 facts, part 1: every `for … range` over a map-typed expression in internal/resolver, internal/compiler and parser, and every
// closure handed to ResolvedProgram.IterVars / IterFuncs (which range over a map on the caller's behalf), each with a syntactic
// classification of its body:
//
//	collect-then-sort  the body only appends the key to a slice which the enclosing function then passes to sort.Strings
//	callback           the body only calls a function-typed parameter with the key/value (the order is passed on to the caller)
//	per-key            the body only stores into indexed locations / variables declared inside the body, accumulates with += / ++,
//	                   grows a slice up to an index (`for len(x) <= i { x = append(x, c) }`), or skips (continue / return in a closure)
//	min-reduce-lex     the body is one `if v.F1 < m.F1 || v.F1 == m.F1 && v.F2 < m.F2 { m = v }`: keeps the smallest value under a
//	                   strict lexicographic (total) order, so the result does not depend on the iteration order; the same fold with
//	                   any other comparison is order-sensitive
//	order-sensitive    anything else (append without sort, panic, print, plain assignment to an outer variable, break, return)
//
// Map-typed expressions are recognised syntactically: struct fields, parameters, results of make/composite literals and range
// variables whose declared type in the same package is a map (or a map of maps, indexed once).

import (
	"fmt"
	"go/ast"
	"go/token"
	"sort"
)

type c19Pkg struct {
	dir   string
	types map[string]ast.Expr // identifier or field name -> declared type expression
}

func (pk *c19Pkg) note(name string, t ast.Expr) {
	if name == "_" || t == nil {
		return
	}
	if _, ok := t.(*ast.MapType); ok {
		pk.types[name] = t
	}
}

func c19TypeOfValue(e ast.Expr) ast.Expr {
	switch v := e.(type) {
	case *ast.CallExpr:
		if id, ok := v.Fun.(*ast.Ident); ok && id.Name == "make" && len(v.Args) > 0 {
			return v.Args[0]
		}
	case *ast.CompositeLit:
		return v.Type
	}
	return nil
}

// typeOf returns the declared map type of e, or nil.
func (pk *c19Pkg) typeOf(e ast.Expr) *ast.MapType {
	switch v := e.(type) {
	case *ast.Ident:
		if t, ok := pk.types[v.Name].(*ast.MapType); ok {
			return t
		}
	case *ast.SelectorExpr:
		if t, ok := pk.types[v.Sel.Name].(*ast.MapType); ok {
			return t
		}
	case *ast.IndexExpr:
		if t := pk.typeOf(v.X); t != nil {
			if inner, ok := t.Value.(*ast.MapType); ok {
				return inner
			}
		}
	case *ast.ParenExpr:
		return pk.typeOf(v.X)
	}
	return nil
}

func (pk *c19Pkg) collect(files []*ast.File) {
	for round := 0; round < 3; round++ { // range variables over maps of maps need the outer map first
		for _, f := range files {
			ast.Inspect(f, func(n ast.Node) bool {
				switch v := n.(type) {
				case *ast.Field:
					for _, nm := range v.Names {
						pk.note(nm.Name, v.Type)
					}
				case *ast.ValueSpec:
					for i, nm := range v.Names {
						if v.Type != nil {
							pk.note(nm.Name, v.Type)
						} else if i < len(v.Values) {
							pk.note(nm.Name, c19TypeOfValue(v.Values[i]))
						}
					}
				case *ast.AssignStmt:
					if v.Tok == token.DEFINE && len(v.Lhs) == len(v.Rhs) {
						for i, l := range v.Lhs {
							if id, ok := l.(*ast.Ident); ok {
								pk.note(id.Name, c19TypeOfValue(v.Rhs[i]))
							}
						}
					}
				case *ast.KeyValueExpr: // struct literal fields: calls: make(map…)
					if id, ok := v.Key.(*ast.Ident); ok {
						pk.note(id.Name, c19TypeOfValue(v.Value))
					}
				case *ast.RangeStmt:
					if t := pk.typeOf(v.X); t != nil && v.Value != nil {
						if id, ok := v.Value.(*ast.Ident); ok {
							pk.note(id.Name, t.Value)
						}
					}
				}
				return true
			})
		}
	}
}

// ---- body classification ------------------------------------------------------------------------------------------------------

type c19Body struct {
	inner   map[string]bool // variables declared inside the body
	closure bool            // body of a callback closure: `return` skips the entry
	params  map[string]bool // function-typed parameters of the enclosing function
}

func c19Root(e ast.Expr) (root string, indexed bool) {
	for {
		switch v := e.(type) {
		case *ast.IndexExpr:
			indexed = true
			e = v.X
		case *ast.SelectorExpr:
			e = v.X
		case *ast.StarExpr:
			e = v.X
		case *ast.ParenExpr:
			e = v.X
		case *ast.Ident:
			return v.Name, indexed
		default:
			return "?", indexed
		}
	}
}

func (b *c19Body) isGrowLoop(s *ast.ForStmt) bool {
	if s.Init != nil || s.Post != nil || s.Cond == nil || len(s.Body.List) != 1 {
		return false
	}
	cond, ok := s.Cond.(*ast.BinaryExpr)
	if !ok || cond.Op != token.LEQ {
		return false
	}
	call, ok := cond.X.(*ast.CallExpr)
	if !ok || src(call.Fun) != "len" || len(call.Args) != 1 {
		return false
	}
	as, ok := s.Body.List[0].(*ast.AssignStmt)
	if !ok || len(as.Lhs) != 1 || len(as.Rhs) != 1 || src(as.Lhs[0]) != src(call.Args[0]) {
		return false
	}
	ap, ok := as.Rhs[0].(*ast.CallExpr)
	if !ok || src(ap.Fun) != "append" || len(ap.Args) != 2 || src(ap.Args[0]) != src(call.Args[0]) {
		return false
	}
	_, isLit := ap.Args[1].(*ast.BasicLit)
	return isLit
}

// perKey reports whether every statement only has per-entry effects.
func (b *c19Body) perKey(list []ast.Stmt) bool {
	for _, s := range list {
		switch v := s.(type) {
		case *ast.AssignStmt:
			if v.Tok == token.DEFINE {
				for _, l := range v.Lhs {
					if id, ok := l.(*ast.Ident); ok {
						b.inner[id.Name] = true
					}
				}
				continue
			}
			for _, l := range v.Lhs {
				root, indexed := c19Root(l)
				switch {
				case indexed || b.inner[root]:
				case v.Tok == token.ADD_ASSIGN || v.Tok == token.OR_ASSIGN || v.Tok == token.AND_ASSIGN:
					if _, isStr := v.Rhs[0].(*ast.BasicLit); isStr && v.Rhs[0].(*ast.BasicLit).Kind == token.STRING {
						return false
					}
				default:
					return false
				}
			}
		case *ast.IncDecStmt:
		case *ast.ExprStmt:
			// sorting a slice that was built inside the body
			c, ok := v.X.(*ast.CallExpr)
			if !ok || src(c.Fun) != "sort.Strings" || len(c.Args) != 1 {
				return false
			}
			if root, _ := c19Root(c.Args[0]); !b.inner[root] {
				return false
			}
		case *ast.DeclStmt:
			if gd, ok := v.Decl.(*ast.GenDecl); ok {
				for _, sp := range gd.Specs {
					if vs, ok := sp.(*ast.ValueSpec); ok {
						for _, nm := range vs.Names {
							b.inner[nm.Name] = true
						}
					}
				}
			}
		case *ast.BranchStmt:
			if v.Tok != token.CONTINUE {
				return false
			}
		case *ast.ReturnStmt:
			if !b.closure || len(v.Results) > 0 {
				return false
			}
		case *ast.IfStmt:
			if v.Init != nil {
				if !b.perKey([]ast.Stmt{v.Init}) {
					return false
				}
			}
			if !b.perKey(v.Body.List) {
				return false
			}
			switch e := v.Else.(type) {
			case nil:
			case *ast.BlockStmt:
				if !b.perKey(e.List) {
					return false
				}
			case *ast.IfStmt:
				if !b.perKey([]ast.Stmt{e}) {
					return false
				}
			}
		case *ast.BlockStmt:
			if !b.perKey(v.List) {
				return false
			}
		case *ast.ForStmt:
			if !b.isGrowLoop(v) {
				return false
			}
		case *ast.RangeStmt:
			if v.Tok == token.DEFINE {
				for _, e := range []ast.Expr{v.Key, v.Value} {
					if id, ok := e.(*ast.Ident); ok {
						b.inner[id.Name] = true
					}
				}
			}
			if !b.perKey(v.Body.List) {
				return false
			}
		default:
			return false
		}
	}
	return true
}

// c19IsMinReduce recognises `if <cond> { target = val }` as the only statement of the body. It returns
//   "min-reduce-lex"  when <cond> is exactly the strict lexicographic order on two fields of the value:
//                     val.F1 < target.F1 || val.F1 == target.F1 && val.F2 < target.F2        (a total order: the fold's result
//                     does not depend on the iteration order as long as no two entries are equal in (F1, F2))
//   "order-sensitive" when the shape is a keep-one-entry fold with any other comparison (the result may depend on the order)
//   ""                when the body is not such a fold.
func c19IsMinReduce(list []ast.Stmt, val string) string {
	if len(list) != 1 || val == "" {
		return ""
	}
	ifs, ok := list[0].(*ast.IfStmt)
	if !ok || ifs.Else != nil || ifs.Init != nil || len(ifs.Body.List) != 1 {
		return ""
	}
	as, ok := ifs.Body.List[0].(*ast.AssignStmt)
	if !ok || as.Tok != token.ASSIGN || len(as.Lhs) != 1 || len(as.Rhs) != 1 || src(as.Rhs[0]) != val {
		return ""
	}
	target := src(as.Lhs[0])
	// field comparison `val.F op target.F`
	cmp := func(e ast.Expr, op token.Token) string {
		b, ok := e.(*ast.BinaryExpr)
		if !ok || b.Op != op {
			return ""
		}
		x, ok1 := b.X.(*ast.SelectorExpr)
		y, ok2 := b.Y.(*ast.SelectorExpr)
		if !ok1 || !ok2 || src(x.X) != val || src(y.X) != target || x.Sel.Name != y.Sel.Name {
			return ""
		}
		return x.Sel.Name
	}
	or, ok := ifs.Cond.(*ast.BinaryExpr)
	if !ok || or.Op != token.LOR {
		return "order-sensitive"
	}
	f1 := cmp(or.X, token.LSS)
	and, ok := or.Y.(*ast.BinaryExpr)
	if f1 == "" || !ok || and.Op != token.LAND {
		return "order-sensitive"
	}
	f1eq, f2 := cmp(and.X, token.EQL), cmp(and.Y, token.LSS)
	if f1eq != f1 || f2 == "" || f2 == f1 {
		return "order-sensitive"
	}
	return "min-reduce-lex"
}

func c19Classify(body *ast.BlockStmt, key, val string, closure bool, funcParams map[string]bool, rest []ast.Stmt, encl string) string {
	list := body.List
	// collect-then-sort
	if len(list) == 1 && key != "" {
		if as, ok := list[0].(*ast.AssignStmt); ok && len(as.Lhs) == 1 && len(as.Rhs) == 1 {
			if ap, ok := as.Rhs[0].(*ast.CallExpr); ok && src(ap.Fun) == "append" && len(ap.Args) == 2 &&
				src(ap.Args[0]) == src(as.Lhs[0]) && src(ap.Args[1]) == key {
				slice := src(as.Lhs[0])
				for _, s := range rest {
					if es, ok := s.(*ast.ExprStmt); ok {
						if c, ok := es.X.(*ast.CallExpr); ok && src(c.Fun) == "sort.Strings" && len(c.Args) == 1 && src(c.Args[0]) == slice {
							return "collect-then-sort"
						}
					}
				}
				return "order-sensitive"
			}
		}
		// callback
		if es, ok := list[0].(*ast.ExprStmt); ok {
			if c, ok := es.X.(*ast.CallExpr); ok {
				if id, ok := c.Fun.(*ast.Ident); ok && funcParams[id.Name] {
					return "callback"
				}
			}
		}
	}
	if cl := c19IsMinReduce(list, val); cl != "" {
		return cl
	}
	b := &c19Body{inner: map[string]bool{}, closure: closure, params: funcParams}
	if b.perKey(list) {
		return "per-key"
	}
	return "order-sensitive"
}

func c19FuncParams(fd *ast.FuncDecl) map[string]bool {
	res := map[string]bool{}
	if fd.Type.Params != nil {
		for _, f := range fd.Type.Params.List {
			if _, ok := f.Type.(*ast.FuncType); ok {
				for _, n := range f.Names {
					res[n.Name] = true
				}
			}
		}
	}
	return res
}

func c19FuncName(fd *ast.FuncDecl) string {
	if fd.Recv != nil && len(fd.Recv.List) > 0 {
		return typeName(fd.Recv.List[0].Type) + "." + fd.Name.Name
	}
	return fd.Name.Name
}

type c19Entry struct{ file, fn, expr, class string }

func c19Scan(dirs []string, closuresToo []string) (ranges, callbacks []c19Entry) {
	for _, dir := range dirs {
		pk := &c19Pkg{dir: dir, types: map[string]ast.Expr{}}
		var files []*ast.File
		names := goFiles(dir)
		for _, rel := range names {
			files = append(files, parseFile(rel))
		}
		pk.collect(files)
		for i, f := range files {
			for _, d := range f.Decls {
				fd, ok := d.(*ast.FuncDecl)
				if !ok || fd.Body == nil {
					continue
				}
				params := c19FuncParams(fd)
				var walkBlock func(list []ast.Stmt)
				visit := func(n ast.Node, rest []ast.Stmt) {
					ast.Inspect(n, func(m ast.Node) bool {
						switch v := m.(type) {
						case *ast.BlockStmt:
							walkBlock(v.List)
							return false
						case *ast.CaseClause:
							walkBlock(v.Body)
							return false
						case *ast.RangeStmt:
							if pk.typeOf(v.X) != nil {
								key, val := "", ""
								if v.Key != nil {
									key = src(v.Key)
								}
								if v.Value != nil {
									val = src(v.Value)
								}
								ranges = append(ranges, c19Entry{names[i], c19FuncName(fd), src(v.X),
									c19Classify(v.Body, key, val, false, params, rest, c19FuncName(fd))})
							}
						}
						return true
					})
				}
				walkBlock = func(list []ast.Stmt) {
					for k, s := range list {
						visit(s, list[k+1:])
					}
				}
				walkBlock(fd.Body.List)
			}
		}
	}
	for _, dir := range closuresToo {
		names := goFiles(dir)
		for _, rel := range names {
			f := parseFile(rel)
			for _, d := range f.Decls {
				fd, ok := d.(*ast.FuncDecl)
				if !ok || fd.Body == nil {
					continue
				}
				ast.Inspect(fd.Body, func(m ast.Node) bool {
					c, ok := m.(*ast.CallExpr)
					if !ok {
						return true
					}
					sel, ok := c.Fun.(*ast.SelectorExpr)
					if !ok || (sel.Sel.Name != "IterVars" && sel.Sel.Name != "IterFuncs") {
						return true
					}
					if fl, ok := c.Args[len(c.Args)-1].(*ast.FuncLit); ok {
						callbacks = append(callbacks, c19Entry{rel, c19FuncName(fd), sel.Sel.Name,
							c19Classify(fl.Body, "", "", true, map[string]bool{}, nil, "")})
					} else {
						callbacks = append(callbacks, c19Entry{rel, c19FuncName(fd), sel.Sel.Name, "order-sensitive"})
					}
					return true
				})
			}
		}
	}
	sortEntries := func(es []c19Entry) {
		sort.SliceStable(es, func(a, b int) bool {
			if es[a].file != es[b].file {
				return es[a].file < es[b].file
			}
			return false // keep source order within a file
		})
	}
	sortEntries(ranges)
	sortEntries(callbacks)
	return
}

func c19Render(name string, es []c19Entry) string {
	s := fmt.Sprintf("def %s : List (String × String × String × String) := [", name)
	for i, e := range es {
		if i > 0 {
			s += ","
		}
		s += fmt.Sprintf("\n  (%s, %s, %s, %s)", leanStr(e.file), leanStr(e.fn), leanStr(e.expr), leanStr(e.class))
	}
	return s + "]\n"
}

func init() {
	registerGen(func() (string, string) {
		s := header("C19Maps", "internal/resolver/*.go, internal/compiler/*.go, parser/*.go, interp/*.go")
		ranges, callbacks := c19Scan([]string{"internal/resolver", "internal/compiler", "parser"},
			[]string{"internal/resolver", "internal/compiler", "parser", "interp"})
		s += "/-- (file, enclosing function, ranged map expression, body class) -/\n" + c19Render("mapRanges", ranges)
		s += "\n/-- (file, enclosing function, IterVars | IterFuncs, class of the closure body) -/\n" + c19Render("iterCallbacks", callbacks)
		return "C19Maps.lean", s + footer("C19Maps")
	})
}
