package main

// C13: the functions GoawkModel.C13 mirrors (see pins.go).
func init() {
	registerGen(func() (string, string) {
		return pinGen("C13Pins", []pin{
			{"interp/io.go", "interp", "getOutputStream"},
			{"interp/io.go", "interp", "closeAll"},
			{"interp/io.go", "interp", "flushAll"},
			{"interp/io.go", "interp", "flushStream"},
			{"interp/io.go", "interp", "flushWriter"},
			{"interp/io.go", "interp", "flushOutputAndError"},
			{"interp/io.go", "interp", "printErrorf"},
			{"interp/io.go", "", "writeOutput"},
			{"interp/io.go", "interp", "printLine"},
		})
	})
}
