package main

// Tree generators shared (by copy) between the C04 and C20 harnesses: one builder per operator, exhaustive pairs /
// triples / forks, random deeper trees, random parenthesis dropping.

import (
	"verifharness/vh"
)

// ---- generators --------------------------------------------------------------------------------------------------

type builder struct {
	name string
	n    int
	lv   []bool // position requires an lvalue
	mk   func(k []*E) *E
	rep  bool // representative of its level (used for the quick-tier triples)
}

func builders() []builder {
	var bs []builder
	add := func(name string, n int, lv []bool, rep bool, mk func(k []*E) *E) {
		if lv == nil {
			lv = make([]bool, n)
		}
		bs = append(bs, builder{name, n, lv, mk, rep})
	}
	for _, op := range []string{"-", "+", "!"} {
		op := op
		add("un"+op, 1, nil, op != "+", func(k []*E) *E { return un(op, k[0]) })
	}
	reps := map[string]bool{"||": true, "&&": true, "~": true, "<": true, ">": true, "cat": true, "-": true, "*": true, "^": true}
	for _, op := range []string{"||", "&&", "~", "!~", "==", "!=", "<", "<=", ">", ">=", "cat", "+", "-", "*", "/", "%", "^"} {
		op := op
		add("bin"+op, 2, nil, reps[op], func(k []*E) *E { return bin(op, k[0], k[1]) })
	}
	add("cond", 3, nil, true, func(k []*E) *E { return cond(k[0], k[1], k[2]) })
	for _, op := range []string{"=", "+=", "-=", "*=", "/=", "%=", "^="} {
		op := op
		add("asg"+op, 2, []bool{true, false}, op == "=", func(k []*E) *E { return asg(op, k[0], k[1]) })
	}
	add("in", 1, nil, true, func(k []*E) *E { return inE(k[0], 10) })
	for _, op := range []string{"++", "--"} {
		op := op
		add("pre"+op, 1, []bool{true}, op == "++", func(k []*E) *E { return incr(true, op, k[0]) })
		add("post"+op, 1, []bool{true}, op == "--", func(k []*E) *E { return incr(false, op, k[0]) })
	}
	add("fld", 1, nil, true, func(k []*E) *E { return fld(k[0]) })
	add("nfld", 1, nil, true, func(k []*E) *E { return nfld(k[0]) }) // @expr (field by name)
	add("regex", 0, nil, true, func(k []*E) *E { return leafR(1) })  // /r1/ as a value
	add("string", 0, nil, false, func(k []*E) *E { return leafS(2) })
	// every builtin function token is a primary and a concatenation start token
	for _, fn := range []string{"close", "cos", "exp", "int", "length", "log", "sin", "sqrt", "system", "tolower", "toupper", "fflush", "srand", "sprintf"} {
		fn := fn
		add("call-"+fn, 1, nil, fn == "length", func(k []*E) *E { return call(fn, k[0]) })
	}
	for _, fn := range []string{"atan2", "index", "match", "substr", "sub", "gsub"} {
		fn := fn
		add("call-"+fn, 2, nil, false, func(k []*E) *E { return call(fn, k[0], k[1]) })
	}
	add("call-rand", 0, nil, false, func(k []*E) *E { return call("rand") })
	add("call-split", 1, nil, false, func(k []*E) *E { return call("split", k[0], leafV(12)) })
	add("idx", 1, nil, true, func(k []*E) *E { return idx(11, k[0]) })
	add("getline", 0, nil, false, func(k []*E) *E { return getl(nilE(), nilE(), nilE()) })
	add("getline-lv", 1, []bool{true}, false, func(k []*E) *E { return getl(nilE(), k[0], nilE()) })
	add("getline<", 1, nil, true, func(k []*E) *E { return getl(nilE(), nilE(), k[0]) })
	add("getline-lv<", 2, []bool{true, false}, false, func(k []*E) *E { return getl(nilE(), k[0], k[1]) })
	add("|getline", 1, nil, true, func(k []*E) *E { return getl(k[0], nilE(), nilE()) })
	add("|getline-lv", 2, []bool{false, true}, false, func(k []*E) *E { return getl(k[0], k[1], nilE()) })
	return bs
}

// leafGen hands out distinct leaves so that the shape of a tree can be read off its dump
type leafGen struct{ n int }

func (g *leafGen) leaf(lvalue bool) *E {
	g.n++
	if lvalue || g.n%2 == 0 {
		return leafV(g.n % 9)
	}
	return leafN(g.n%9 + 1)
}

// nest builds b(… inner at position pos …) with leaves elsewhere; nil when inner cannot stand there (lvalue needed)
func nest(g *leafGen, b builder, pos int, inner *E) *E {
	if b.lv[pos] && !inner.isLValue() {
		return nil
	}
	k := make([]*E, b.n)
	for i := range k {
		if i == pos {
			k[i] = inner
		} else {
			k[i] = g.leaf(b.lv[i])
		}
	}
	return b.mk(k)
}

func flat(g *leafGen, b builder) *E {
	k := make([]*E, b.n)
	for i := range k {
		k[i] = g.leaf(b.lv[i])
	}
	return b.mk(k)
}

type genTree struct {
	e     *E
	class string
}

func enumerate(c *vh.Ctx) []genTree {
	bs := builders()
	var out []genTree
	for _, b := range bs {
		out = append(out, genTree{flat(&leafGen{}, b), "single"})
	}
	// ordered pairs in every nesting position
	for _, o := range bs {
		for p := 0; p < o.n; p++ {
			for _, in := range bs {
				g := &leafGen{}
				if e := nest(g, o, p, flat(g, in)); e != nil {
					out = append(out, genTree{e, "pair"})
				}
			}
		}
	}
	// ordered triples (chains) in every nesting position; the quick tier takes one or two representatives per level for the
	// outer and inner operator and every operator in the middle
	nTriple := 0
	for _, o := range bs {
		if !c.Thorough() && !o.rep {
			continue
		}
		for p := 0; p < o.n; p++ {
			for _, m := range bs {
				if !c.Thorough() && !m.rep {
					continue
				}
				for q := 0; q < m.n; q++ {
					for _, in := range bs {
						if !c.Thorough() && !in.rep {
							continue
						}
						nTriple++
						if !c.Thorough() && int64(nTriple)%4 != c.Seed%4 {
							continue // the quick tier takes every fourth triple of representatives; the seed picks which quarter
						}
						g := &leafGen{}
						mid := nest(g, m, q, flat(g, in))
						if mid == nil {
							continue
						}
						if e := nest(g, o, p, mid); e != nil {
							out = append(out, genTree{e, "triple"})
						}
					}
				}
			}
		}
	}
	// forks: a binary/ternary operator over two non-leaf operands
	for _, o := range bs {
		if o.n < 2 {
			continue
		}
		for _, l := range bs {
			if !l.rep {
				continue
			}
			for _, r := range bs {
				if !r.rep || (!c.Thorough() && !o.rep) {
					continue
				}
				g := &leafGen{}
				k := make([]*E, o.n)
				k[0] = flat(g, l)
				for i := 1; i < o.n-1; i++ {
					k[i] = g.leaf(o.lv[i])
				}
				k[o.n-1] = flat(g, r)
				ok := true
				for i := range k {
					if o.lv[i] && !k[i].isLValue() {
						ok = false
					}
				}
				if ok {
					out = append(out, genTree{o.mk(k), "fork"})
				}
			}
		}
	}
	return out
}

func randomTree(c *vh.Ctx, bs []builder, g *leafGen, depth int, lvalue bool) *E {
	if depth <= 0 || c.Rng.Intn(6) == 0 {
		return g.leaf(lvalue)
	}
	for {
		b := bs[c.Rng.Intn(len(bs))]
		k := make([]*E, b.n)
		for i := range k {
			k[i] = randomTree(c, bs, g, depth-1-c.Rng.Intn(2), b.lv[i])
		}
		e := b.mk(k)
		if !lvalue || e.isLValue() {
			return e
		}
	}
}

// dropParens removes a random subset of the grp nodes of a tree (the result may group differently or not parse at all:
// it is only used to compare the model's parser with the real one)
func dropParens(c *vh.Ctx, e *E) *E {
	if e.K == "grp" && c.Rng.Intn(2) == 0 {
		return dropParens(c, e.Kids[0])
	}
	if len(e.Kids) == 0 {
		return e
	}
	d := *e
	d.Kids = make([]*E, len(e.Kids))
	for i, k := range e.Kids {
		d.Kids[i] = dropParens(c, k)
	}
	return &d
}
