package main

// (b) operator-adjacency enumeration, token soups, and (e) random grammar-directed programs.

import (
	"math/rand"
	"strconv"
	"strings"
)

// ex is an expression the generator intends; how the parser groups the rendered text is the parser's business (the
// oracle only compares parse(src) with parse(print(parse(src)))).
type ex struct {
	k    string // leaf un pre post bin in min cond asg field grp idx call len gl-* at
	op   string
	kids []*ex
}

func leaf(s string) *ex { return &ex{k: "leaf", op: s} }

var binOps = []string{"||", "&&", "~", "!~", "<", "<=", "==", "!=", ">", ">=", " ", "+", "-", "*", "/", "%", "^"}
var asgOps = []string{"=", "+=", "-=", "*=", "/=", "%=", "^="}
var unOps = []string{"-", "+", "!"}

// render modes
const (
	mMin   = 0 // no parentheses, one space around binary operators, unary glued but never fused with a following + or -
	mFull  = 1 // every non-leaf operand parenthesised
	mTight = 2 // no parentheses, no spaces at all except where two names / numbers would join
	mRand  = 3 // parentheses at random (rng), spaces at random
)

type renderer struct {
	mode int
	rng  *rand.Rand
}

func (rd *renderer) sp() string {
	switch rd.mode {
	case mTight:
		return ""
	case mRand:
		if rd.rng.Intn(3) == 0 {
			return ""
		}
	}
	return " "
}

func wordy(c byte) bool {
	return c == '_' || c >= '0' && c <= '9' || c >= 'a' && c <= 'z' || c >= 'A' && c <= 'Z' || c == '.' || c == '"'
}

// join glues two pieces, putting a space only if two word characters would meet
func join(a, b string) string {
	if a == "" || b == "" {
		return a + b
	}
	if wordy(a[len(a)-1]) && wordy(b[0]) {
		return a + " " + b
	}
	return a + b
}

func (rd *renderer) kid(e *ex) string {
	s := rd.render(e)
	if e.k == "leaf" {
		return s
	}
	switch rd.mode {
	case mFull:
		return "(" + s + ")"
	case mRand:
		if rd.rng.Intn(3) == 0 {
			return "(" + s + ")"
		}
	}
	return s
}

func (rd *renderer) render(e *ex) string {
	switch e.k {
	case "leaf":
		return e.op
	case "un":
		v := rd.kid(e.kids[0])
		if rd.mode == mMin && len(v) > 0 && (v[0] == '+' || v[0] == '-') && e.op != "!" {
			return e.op + " " + v
		}
		if rd.mode == mRand && rd.rng.Intn(2) == 0 {
			return e.op + " " + v
		}
		return e.op + v
	case "pre":
		v := rd.kid(e.kids[0])
		if rd.mode == mMin && len(v) > 0 && (v[0] == '+' || v[0] == '-') {
			return e.op + " " + v
		}
		return e.op + v
	case "post":
		return rd.kid(e.kids[0]) + e.op
	case "bin":
		l, r := rd.kid(e.kids[0]), rd.kid(e.kids[1])
		if e.op == " " {
			if rd.mode == mTight {
				return join(l, r)
			}
			return l + " " + r
		}
		if rd.mode == mTight {
			return join(join(l, e.op), r)
		}
		return l + rd.sp() + e.op + rd.sp() + r
	case "in":
		return rd.kid(e.kids[0]) + " in a"
	case "min":
		return "(" + rd.kid(e.kids[0]) + ", " + rd.kid(e.kids[1]) + ") in a"
	case "cond":
		return rd.kid(e.kids[0]) + rd.sp() + "?" + rd.sp() + rd.kid(e.kids[1]) + rd.sp() + ":" + rd.sp() + rd.kid(e.kids[2])
	case "asg":
		return rd.kid(e.kids[0]) + rd.sp() + e.op + rd.sp() + rd.kid(e.kids[1])
	case "field":
		return "$" + rd.kid(e.kids[0])
	case "at":
		return "@" + rd.kid(e.kids[0])
	case "grp":
		return "(" + rd.render(e.kids[0]) + ")"
	case "idx":
		return "a[" + rd.render(e.kids[0]) + "]"
	case "idx2":
		return "a[" + rd.render(e.kids[0]) + ", " + rd.render(e.kids[1]) + "]"
	case "call":
		return "f(" + rd.render(e.kids[0]) + ")"
	case "call2":
		return "g(" + rd.render(e.kids[0]) + ", " + rd.render(e.kids[1]) + ")"
	case "len":
		return "length(" + rd.render(e.kids[0]) + ")"
	case "builtin":
		args := make([]string, len(e.kids))
		for i, k := range e.kids {
			args[i] = rd.render(k)
		}
		return e.op + "(" + strings.Join(args, ", ") + ")"
	case "gl-cmd": // E | getline
		return rd.kid(e.kids[0]) + rd.sp() + "|" + rd.sp() + "getline"
	case "gl-cmd-var": // E | getline lv
		return rd.kid(e.kids[0]) + rd.sp() + "|" + rd.sp() + "getline " + rd.render(e.kids[1])
	case "gl-file": // getline < E
		return "getline <" + rd.sp() + rd.kid(e.kids[0])
	case "gl-var-file": // getline lv < E
		return "getline " + rd.render(e.kids[1]) + " <" + rd.sp() + rd.kid(e.kids[0])
	case "gl-var": // getline lv
		return "getline " + rd.render(e.kids[0])
	}
	panic("render: " + e.k)
}

// contexts in which an expression text is placed
var exprContexts = []string{
	"BEGIN { z = % }",
	"BEGIN { print % }",
	"BEGIN { print(%) }",
	"BEGIN { print % > \"f\" }",
	"% { }",
	"BEGIN { if (%) z = 1 }",
	"BEGIN { b[%] = 1 }",
	"BEGIN { f(%) }",
	"BEGIN { print 1, % }",
	"BEGIN { printf(\"%%d\", %) | \"cat\" }",
	"BEGIN { % }",
	"BEGIN { for (%; %; %) ; }",
	"BEGIN { z = % ; exit % }",
	"%, % { }",
	"function h(z) { return % }",
	"BEGIN { while (%) { } }",
}

func inContext(ctx int, s string) string {
	t := exprContexts[ctx]
	t = strings.ReplaceAll(t, "%%", "\x00")
	t = strings.ReplaceAll(t, "%", s)
	t = strings.ReplaceAll(t, "\x00", "%")
	if strings.Contains(t, "f(") && !strings.Contains(t, "function f(") {
		t += "\nfunction f(p) { }"
	}
	if strings.Contains(t, "g(") {
		t += "\nfunction g(p, q) { }"
	}
	return t
}

var lvalues = []string{"x", "a[1]", "$1", "$x"}

func depth1(leaves []*ex, lvs []*ex) []*ex {
	var out []*ex
	for _, l := range leaves {
		for _, op := range unOps {
			out = append(out, &ex{k: "un", op: op, kids: []*ex{l}})
		}
		out = append(out, &ex{k: "field", kids: []*ex{l}})
		out = append(out, &ex{k: "grp", kids: []*ex{l}})
		out = append(out, &ex{k: "in", kids: []*ex{l}})
		out = append(out, &ex{k: "idx", kids: []*ex{l}})
		out = append(out, &ex{k: "call", kids: []*ex{l}})
		out = append(out, &ex{k: "len", kids: []*ex{l}})
		out = append(out, &ex{k: "gl-cmd", kids: []*ex{l}})
		out = append(out, &ex{k: "gl-file", kids: []*ex{l}})
	}
	for _, l := range lvs {
		for _, op := range []string{"++", "--"} {
			out = append(out, &ex{k: "pre", op: op, kids: []*ex{l}})
			out = append(out, &ex{k: "post", op: op, kids: []*ex{l}})
		}
		out = append(out, &ex{k: "gl-var", kids: []*ex{l}})
	}
	l0, l1 := leaves[0], leaves[len(leaves)-1]
	for _, op := range binOps {
		out = append(out, &ex{k: "bin", op: op, kids: []*ex{l0, l1}})
	}
	for _, op := range asgOps {
		out = append(out, &ex{k: "asg", op: op, kids: []*ex{lvs[0], l1}})
	}
	out = append(out, &ex{k: "asg", op: "=", kids: []*ex{lvs[len(lvs)-1], l1}})
	out = append(out, &ex{k: "cond", kids: []*ex{l0, l1, l0}})
	out = append(out, &ex{k: "min", kids: []*ex{l0, l1}})
	out = append(out, &ex{k: "gl-cmd-var", kids: []*ex{l0, lvs[0]}})
	out = append(out, &ex{k: "gl-var-file", kids: []*ex{l0, lvs[0]}})
	out = append(out, leaf("length"), leaf("getline"), leaf("/r/"), leaf(`"s"`), leaf("rand()"), leaf("1e3"), leaf(".5"))
	return out
}

// wrapAll builds every one-operator expression around the operands cs (with filler leaf y for the other operand(s))
func wrapAll(cs []*ex, y *ex, lv *ex) []*ex {
	var out []*ex
	for _, c := range cs {
		for _, op := range unOps {
			out = append(out, &ex{k: "un", op: op, kids: []*ex{c}})
		}
		for _, op := range []string{"++", "--"} {
			out = append(out, &ex{k: "pre", op: op, kids: []*ex{c}})
			out = append(out, &ex{k: "post", op: op, kids: []*ex{c}})
		}
		for _, op := range binOps {
			out = append(out, &ex{k: "bin", op: op, kids: []*ex{c, y}})
			out = append(out, &ex{k: "bin", op: op, kids: []*ex{y, c}})
		}
		for _, op := range asgOps {
			out = append(out, &ex{k: "asg", op: op, kids: []*ex{lv, c}})
			out = append(out, &ex{k: "asg", op: op, kids: []*ex{c, y}})
		}
		out = append(out,
			&ex{k: "cond", kids: []*ex{c, y, y}}, &ex{k: "cond", kids: []*ex{y, c, y}}, &ex{k: "cond", kids: []*ex{y, y, c}},
			&ex{k: "in", kids: []*ex{c}}, &ex{k: "min", kids: []*ex{c, y}}, &ex{k: "min", kids: []*ex{y, c}},
			&ex{k: "field", kids: []*ex{c}}, &ex{k: "at", kids: []*ex{c}}, &ex{k: "grp", kids: []*ex{c}},
			&ex{k: "idx", kids: []*ex{c}}, &ex{k: "idx2", kids: []*ex{y, c}}, &ex{k: "call", kids: []*ex{c}}, &ex{k: "call2", kids: []*ex{c, y}}, &ex{k: "len", kids: []*ex{c}},
			&ex{k: "gl-cmd", kids: []*ex{c}}, &ex{k: "gl-file", kids: []*ex{c}}, &ex{k: "gl-cmd-var", kids: []*ex{c, lv}}, &ex{k: "gl-var-file", kids: []*ex{c, lv}}, &ex{k: "gl-var", kids: []*ex{c}},
		)
	}
	return out
}

func (r *runner) addExpr(gen string, e *ex, modes []int, ctxs []int) {
	for _, m := range modes {
		rd := &renderer{mode: m, rng: r.c.Rng}
		s := rd.render(e)
		if m == mFull && e.k != "leaf" && r.c.Rng.Intn(4) == 0 {
			s = "(" + s + ")"
		}
		for _, ctx := range ctxs {
			r.addSrc(gen, inContext(ctx, s))
		}
	}
}

func allCtx() []int {
	cs := make([]int, len(exprContexts))
	for i := range cs {
		cs[i] = i
	}
	return cs
}

func genAdjacency(r *runner) {
	rng := r.c.Rng
	var leaves, lvs []*ex
	for _, s := range []string{"x", "1"} {
		leaves = append(leaves, leaf(s))
	}
	for _, s := range lvalues {
		lvs = append(lvs, leaf(s))
	}
	y := leaf("y")
	lv := leaf("x")
	modes := []int{mMin, mFull, mTight}

	d1 := depth1(leaves, lvs)
	for _, e := range d1 {
		r.addExpr("adj-d1", e, modes, allCtx())
	}
	// depth 2: every operator around every depth-1 expression, exhaustively; in the quick tier each in the assignment
	// context, the print context and two random contexts, in the thorough tier in every context
	d2 := wrapAll(d1, y, lv)
	for _, e := range d2 {
		ctxs := allCtx()
		if !r.c.Thorough() {
			ctxs = []int{rng.Intn(len(exprContexts))}
		}
		r.addExpr("adj-d2", e, modes, ctxs)
	}
	// depth 3, structured: operator chains "u1 x o1 u2 x o2 u3 x" (the parser decides the grouping), and the three
	// explicit shapes of two/three binary operators
	un6 := []string{"", "-", "+", "!", "++", "--"}
	post3 := []string{"", "++", "--"}
	ops := append(append([]string{}, binOps...), "=", "+=", "^=", "in", "?")
	budget := r.c.N(12000, 150000)
	count := 0
	for _, o1 := range ops {
		for _, o2 := range ops {
			for ui := 0; ui < len(un6)*len(un6)*len(post3); ui++ {
				if count >= budget && !r.c.Thorough() {
					break
				}
				// quick tier: a random quarter of the unary decorations per operator pair
				if !r.c.Thorough() && rng.Intn(10) != 0 {
					continue
				}
				u1, u2, p1 := un6[ui%6], un6[(ui/6)%6], post3[ui/36]
				var b strings.Builder
				piece := func(u, v, p string) string { return u + v + p }
				tight := rng.Intn(2) == 0
				sep := " "
				if tight {
					sep = ""
				}
				b.WriteString(piece(u1, "x", p1))
				for i, o := range []string{o1, o2} {
					operand := piece(u2, []string{"y", "z"}[i], "")
					switch o {
					case " ":
						b.WriteString(" " + operand)
					case "in":
						b.WriteString(" in a " + operand) // mostly rejected; "in a" followed by concat
					case "?":
						b.WriteString(sep + "?" + sep + operand + sep + ":" + sep + "w")
					default:
						b.WriteString(sep + o + sep + operand)
					}
				}
				count++
				ctx := []int{0, 1, 3, 4, 5}[rng.Intn(5)]
				r.addSrc("adj-chain", inContext(ctx, b.String()))
			}
		}
	}
	// explicit shapes over all operator triples / pairs
	shapeOps := append(append([]string{}, binOps...), "=", "+=")
	mk := func(op string, l, rr *ex) *ex {
		if op == "=" || op == "+=" {
			return &ex{k: "asg", op: op, kids: []*ex{l, rr}}
		}
		return &ex{k: "bin", op: op, kids: []*ex{l, rr}}
	}
	xs := []*ex{leaf("x"), leaf("y"), leaf("z"), leaf("w")}
	for _, o1 := range shapeOps {
		for _, o2 := range shapeOps {
			// two operators: both groupings, explicit
			l := mk(o2, mk(o1, xs[0], xs[1]), xs[2])
			rr := mk(o1, xs[0], mk(o2, xs[1], xs[2]))
			r.addExpr("adj-shape2", l, []int{mFull, mMin}, []int{0, 1, 4})
			r.addExpr("adj-shape2", rr, []int{mFull}, []int{0, 1, 4})
			// with a unary / incr in front of each operand
			for _, u := range []string{"-", "!", "++", "$"} {
				wrapu := func(e *ex) *ex {
					switch u {
					case "++":
						return &ex{k: "pre", op: "++", kids: []*ex{e}}
					case "$":
						return &ex{k: "field", kids: []*ex{e}}
					}
					return &ex{k: "un", op: u, kids: []*ex{e}}
				}
				c01 := []int{0, 1}
				if !r.c.Thorough() {
					c01 = []int{rng.Intn(2)}
				}
				r.addExpr("adj-shape2u", wrapu(l), []int{mFull}, c01)
				r.addExpr("adj-shape2u", mk(o2, mk(o1, xs[0], wrapu(xs[1])), xs[2]), []int{mFull, mTight}, c01)
				r.addExpr("adj-shape2u", mk(o1, xs[0], mk(o2, wrapu(xs[1]), xs[2])), []int{mFull}, []int{0})
			}
			if r.c.Thorough() {
				for _, o3 := range shapeOps {
					a := mk(o3, mk(o2, mk(o1, xs[0], xs[1]), xs[2]), xs[3])
					b := mk(o1, xs[0], mk(o2, xs[1], mk(o3, xs[2], xs[3])))
					c := mk(o2, mk(o1, xs[0], xs[1]), mk(o3, xs[2], xs[3]))
					d := mk(o1, xs[0], mk(o3, mk(o2, xs[1], xs[2]), xs[3]))
					for _, e := range []*ex{a, b, c, d} {
						r.addExpr("adj-shape3", e, []int{mFull}, []int{rng.Intn(6)})
					}
					r.addExpr("adj-shape3", a, []int{mMin}, []int{rng.Intn(6)})
				}
			}
		}
	}
	// unary towers: all sequences of up to 4 prefix operators and up to 2 postfix operators on each lvalue
	pre := []string{"-", "+", "!", "++", "--", "$", "(", "- ", "+ "}
	// suffix: an operator that binds tighter than the unary operators, after the tower ("- --x ^ 2" is -((--x)^2): the
	// operand of the outer sign is then a power whose printed form begins with the inner operator)
	suffix := ""
	var towers func(prefix string, depth int, sample int)
	towers = func(prefix string, depth int, sample int) {
		for _, l := range lvalues {
			for _, p := range []string{"", "++", "--"} {
				if sample > 1 && depth == 0 && rng.Intn(sample) != 0 {
					continue
				}
				opens := strings.Count(prefix, "(")
				s := prefix + l + p + strings.Repeat(")", opens) + suffix
				for _, ctx := range []int{0, 1} {
					r.addSrc("adj-tower", inContext(ctx, s))
				}
				if opens > 0 {
					// close the parenthesis before the postfix operator instead
					s2 := prefix + l + strings.Repeat(")", opens) + p + suffix
					r.addSrc("adj-tower", inContext(0, s2))
				}
			}
		}
		if depth == 0 {
			return
		}
		for _, u := range pre {
			towers(prefix+u, depth-1, sample)
		}
	}
	towers("", 2, 1)
	towers("", 3, r.c.N(5, 1))
	if r.c.Thorough() {
		towers("", 4, 3)
	}
	towers("y - ", 2, r.c.N(2, 1))
	towers("y + ", 2, r.c.N(2, 1))
	towers("y ", 2, r.c.N(2, 1))
	towers("2 ^ ", 2, r.c.N(2, 1))
	towers("y ~ ", 1, 1)
	towers("y < ", 1, 1)
	for _, suffix = range []string{" ^ 2", " ^ -y", " ^ --y ^ 2"} {
		towers("", 2, 1)
		towers("", 3, r.c.N(8, 1))
		towers("y - ", 2, r.c.N(3, 1))
		towers("2 ^ ", 2, r.c.N(3, 1))
	}
	suffix = ""
}

// ---- token soups -----------------------------------------------------------------------------------------------------

var soupTokens = []string{"x", "y", "a[1]", "$1", "$", "1", "2", `"s"`, "/r/", "-", "-", "+", "+", "!", "++", "--", "(", ")", "(", ")", "*", "/", "%", "^", "<", "<=", "==", "!=", ">", ">=", "~", "!~", "&&", "||", "?", ":", "=", "+=", "-=", "/=", "^=", "in a", ",", "getline", "|", "length", "f(", "@", "1e3", ".5", " ", " ", " "}

func genSoup(r *runner) {
	rng := r.c.Rng
	n := r.c.N(15000, 500000)
	for i := 0; i < n; i++ {
		m := 2 + rng.Intn(7)
		var b strings.Builder
		for j := 0; j < m; j++ {
			t := soupTokens[rng.Intn(len(soupTokens))]
			if b.Len() > 0 && rng.Intn(3) != 0 {
				b.WriteString(" ")
			}
			if b.Len() > 0 {
				s := b.String()
				if wordy(s[len(s)-1]) && wordy(t[0]) {
					b.WriteString(" ")
				}
			}
			b.WriteString(t)
		}
		ctx := []int{0, 0, 1, 1, 2, 3, 4, 5, 8, 9}[rng.Intn(10)]
		r.addSrc("soup", inContext(ctx, b.String()))
	}
}

// ---- random programs -------------------------------------------------------------------------------------------------

type pgen struct {
	rng    *rand.Rand
	inFunc bool
	inLoop int
	inAct  bool
}

func (g *pgen) pick(xs ...string) string { return xs[g.rng.Intn(len(xs))] }

func (g *pgen) lvalue(d int) *ex {
	switch g.rng.Intn(6) {
	case 0:
		return leaf(g.pick("x", "y", "z", "NF", "NR"))
	case 1:
		if d > 0 {
			return &ex{k: "idx", kids: []*ex{g.expr(d - 1)}}
		}
		return leaf("a[1]")
	case 2:
		if d > 0 {
			return &ex{k: "field", kids: []*ex{g.expr(d - 1)}}
		}
		return leaf("$1")
	case 3:
		if d > 0 {
			return &ex{k: "idx2", kids: []*ex{g.expr(d - 1), g.expr(d - 1)}}
		}
		return leaf("a[1, 2]")
	default:
		return leaf(g.pick("x", "y", "$0", "$2", "$NF", "a[i]"))
	}
}

func (g *pgen) num() string {
	switch g.rng.Intn(8) {
	case 0:
		return g.pick("0", "1", "2", "10", "100", "255", "1024", "65536")
	case 1:
		return g.pick("1.5", "0.25", ".5", "3.14159", "2.718281828", "0.1", "1e3", "1e-3", "1E6", "1e300", "1e999", "0x1F", "1e", "007")
	case 2:
		// random decimal with up to 9 significant digits
		return strconv.FormatFloat(g.rng.Float64()*float64(int64(1)<<uint(g.rng.Intn(22))), 'g', 1+g.rng.Intn(9), 64)
	default:
		return g.pick("1", "2", "3", "42")
	}
}

func (g *pgen) str() string {
	switch g.rng.Intn(6) {
	case 0:
		n := g.rng.Intn(5)
		bs := make([]byte, n)
		for i := range bs {
			bs[i] = byte(g.rng.Intn(256))
		}
		return writeLit(bs, []int{0, 1, 3, 6}[g.rng.Intn(4)], g.rng)
	case 1:
		return g.pick(`"%s %d\n"`, `"a\"b"`, `"\\"`, `"\t"`, `"/"`, `"é"`, `""`, `"\xc2\x80a"`, `"\x01" "2"`)
	default:
		return g.pick(`"a"`, `"b"`, `"file"`, `"cmd"`, `" "`, `","`)
	}
}

func (g *pgen) regex() string {
	return g.pick("/a/", "/a+b*/", `/\//`, `/a\/b/`, "/[a-z]+/", "/^x$/", "/=/", `/\\/`, `/\./`, "/ /", `/"/`, "/(a|b)/", "/é/")
}

func (g *pgen) expr(d int) *ex {
	if d <= 0 {
		switch g.rng.Intn(10) {
		case 0:
			return leaf(g.str())
		case 1:
			return leaf(g.regex())
		case 2, 3:
			return leaf(g.num())
		case 4:
			return leaf(g.pick("length", "getline", "rand()", "srand()", "length()", "fflush()", "NF", "$0"))
		default:
			return g.lvalue(0)
		}
	}
	sub := func() *ex { return g.expr(d - 1 - g.rng.Intn(2)) }
	switch g.rng.Intn(26) {
	case 0, 1:
		return &ex{k: "un", op: g.pick(unOps...), kids: []*ex{sub()}}
	case 2:
		return &ex{k: "pre", op: g.pick("++", "--"), kids: []*ex{g.lvalue(d - 1)}}
	case 3:
		return &ex{k: "post", op: g.pick("++", "--"), kids: []*ex{g.lvalue(d - 1)}}
	case 4, 5, 6, 7, 8, 9:
		return &ex{k: "bin", op: g.pick(binOps...), kids: []*ex{sub(), sub()}}
	case 10:
		return &ex{k: "in", kids: []*ex{sub()}}
	case 11:
		return &ex{k: "min", kids: []*ex{sub(), sub()}}
	case 12, 13:
		return &ex{k: "cond", kids: []*ex{sub(), sub(), sub()}}
	case 14, 15:
		return &ex{k: "asg", op: g.pick(asgOps...), kids: []*ex{g.lvalue(d - 1), sub()}}
	case 16:
		return &ex{k: "field", kids: []*ex{sub()}}
	case 17:
		return &ex{k: "grp", kids: []*ex{sub()}}
	case 18:
		return &ex{k: g.pick("call", "len", "idx", "at"), kids: []*ex{sub()}}
	case 19:
		return &ex{k: "call2", kids: []*ex{sub(), sub()}}
	case 20:
		switch g.rng.Intn(5) {
		case 0:
			return &ex{k: "gl-cmd", kids: []*ex{sub()}}
		case 1:
			return &ex{k: "gl-cmd-var", kids: []*ex{sub(), g.lvalue(d - 1)}}
		case 2:
			return &ex{k: "gl-file", kids: []*ex{sub()}}
		case 3:
			return &ex{k: "gl-var-file", kids: []*ex{sub(), g.lvalue(d - 1)}}
		default:
			return &ex{k: "gl-var", kids: []*ex{g.lvalue(d - 1)}}
		}
	case 21, 22:
		// builtins
		re := func() *ex {
			if g.rng.Intn(2) == 0 {
				return leaf(g.regex())
			}
			return sub()
		}
		switch g.rng.Intn(12) {
		case 0:
			return &ex{k: "builtin", op: "substr", kids: []*ex{sub(), sub()}}
		case 1:
			return &ex{k: "builtin", op: "substr", kids: []*ex{sub(), sub(), sub()}}
		case 2:
			return &ex{k: "builtin", op: "split", kids: []*ex{sub(), leaf("arr")}}
		case 3:
			return &ex{k: "builtin", op: "split", kids: []*ex{sub(), leaf("arr"), re()}}
		case 4:
			return &ex{k: "builtin", op: g.pick("sub", "gsub"), kids: []*ex{re(), sub()}}
		case 5:
			return &ex{k: "builtin", op: g.pick("sub", "gsub"), kids: []*ex{re(), sub(), g.lvalue(d - 1)}}
		case 6:
			return &ex{k: "builtin", op: "match", kids: []*ex{sub(), re()}}
		case 7:
			return &ex{k: "builtin", op: "sprintf", kids: []*ex{leaf(`"%s%d"`), sub(), sub()}}
		case 8:
			return &ex{k: "builtin", op: g.pick("index", "atan2"), kids: []*ex{sub(), sub()}}
		case 9:
			return &ex{k: "builtin", op: g.pick("srand", "fflush", "length"), kids: []*ex{sub()}}
		default:
			return &ex{k: "builtin", op: g.pick("int", "sqrt", "exp", "log", "sin", "cos", "tolower", "toupper", "system", "close"), kids: []*ex{sub()}}
		}
	default:
		return g.expr(0)
	}
}

func (g *pgen) exprText(d int) string {
	mode := []int{mMin, mMin, mFull, mTight, mRand, mRand}[g.rng.Intn(6)]
	rd := &renderer{mode: mode, rng: g.rng}
	return rd.render(g.expr(d))
}

func (g *pgen) block(d int, ind string) string {
	n := g.rng.Intn(4)
	if d <= 0 {
		n = g.rng.Intn(2)
	}
	var b strings.Builder
	b.WriteString("{")
	for i := 0; i < n; i++ {
		b.WriteString(g.pick("\n", " ", "\n\n", " ; ", ";"))
		b.WriteString(g.stmt(d-1, ind))
		b.WriteString(g.pick("\n", ";", " ;\n", "\n"))
	}
	b.WriteString("}")
	return b.String()
}

func (g *pgen) body(d int, ind string) string {
	switch g.rng.Intn(5) {
	case 0:
		return g.pick(";", " ;")
	case 1, 2:
		return " " + g.block(d, ind)
	default:
		return g.pick(" ", "\n") + g.stmt(d-1, ind)
	}
}

func (g *pgen) simple(ed int) string {
	switch g.rng.Intn(12) {
	case 0:
		return "print"
	case 1:
		return "print " + g.exprText(ed)
	case 2:
		return "print " + g.exprText(ed) + ", " + g.exprText(ed-1)
	case 3:
		return "print(" + g.exprText(ed) + g.pick(")", ", "+g.exprText(ed-1)+")") + g.pick("", " > \"f\"", " >> \"f\"", " | \"cmd\"")
	case 4:
		return "print " + g.exprText(ed-1) + g.pick(" > ", " >> ", " | ") + g.exprText(ed-1)
	case 5:
		return "printf " + g.pick(`"%s"`, `"%d %s\n"`, g.exprText(1)) + g.pick("", ", "+g.exprText(ed), ", "+g.exprText(ed-1)+", "+g.exprText(ed-1)) + g.pick("", "", " > \"f\"", " | "+g.exprText(1))
	case 6:
		return "printf(" + g.pick(`"%s"`, `"%d %s\n"`) + ", " + g.exprText(ed) + ")" + g.pick("", " > \"f\"", " | \"cmd\"")
	case 7:
		return g.pick("delete arr", "delete arr["+g.exprText(ed-1)+"]", "delete arr["+g.exprText(ed-1)+", "+g.exprText(ed-1)+"]")
	default:
		return g.exprText(ed)
	}
}

func (g *pgen) stmt(d int, ind string) string {
	ed := 1 + g.rng.Intn(4)
	if d <= 0 {
		return g.simple(ed)
	}
	switch g.rng.Intn(20) {
	case 0, 1:
		s := "if (" + g.exprText(ed) + ")" + g.body(d, ind)
		if g.rng.Intn(2) == 0 {
			if !strings.HasSuffix(s, "}") && !strings.HasSuffix(s, ";") {
				s += g.pick(";", "\n")
			}
			s += g.pick(" ", "\n") + "else" + g.body(d, ind)
		}
		return s
	case 2:
		g.inLoop++
		defer func() { g.inLoop-- }()
		pre, cond, post := "", "", ""
		if g.rng.Intn(3) != 0 {
			pre = g.simple(ed - 1)
		}
		if g.rng.Intn(3) != 0 {
			cond = " " + g.exprText(ed)
		}
		if g.rng.Intn(3) != 0 {
			post = " " + g.simple(ed-1)
		}
		return "for (" + pre + ";" + cond + ";" + post + ")" + g.body(d, ind)
	case 3:
		g.inLoop++
		defer func() { g.inLoop-- }()
		return "for (" + g.pick("k", "x", "i") + " in " + g.pick("a", "arr") + ")" + g.body(d, ind)
	case 4:
		g.inLoop++
		defer func() { g.inLoop-- }()
		return "while (" + g.exprText(ed) + ")" + g.body(d, ind)
	case 5:
		g.inLoop++
		defer func() { g.inLoop-- }()
		b := g.body(d, ind)
		if !strings.HasSuffix(b, "}") && !strings.HasSuffix(b, ";") {
			b += g.pick(";", "\n")
		}
		return "do" + b + g.pick(" ", "\n") + "while (" + g.exprText(ed) + ")"
	case 6:
		if g.inLoop > 0 {
			return g.pick("break", "continue")
		}
		return g.simple(ed)
	case 7:
		if g.inAct || g.inFunc {
			return g.pick("next", "nextfile")
		}
		return g.pick("exit", "exit "+g.exprText(ed))
	case 8:
		return g.pick("exit", "exit "+g.exprText(ed))
	case 9:
		if g.inFunc {
			return g.pick("return", "return "+g.exprText(ed))
		}
		return g.simple(ed)
	case 10:
		return g.block(d, ind)
	default:
		return g.simple(ed)
	}
}

func (g *pgen) program() string {
	var b strings.Builder
	n := 1 + g.rng.Intn(4)
	usesF := false
	for i := 0; i < n; i++ {
		g.inFunc, g.inAct, g.inLoop = false, false, 0
		d := 1 + g.rng.Intn(3)
		switch g.rng.Intn(8) {
		case 0, 1:
			b.WriteString("BEGIN " + g.block(d, ""))
		case 2:
			b.WriteString("END " + g.block(d, ""))
		case 3:
			g.inAct = true
			b.WriteString(g.exprText(1+g.rng.Intn(4)) + g.pick("", " "+g.block(d, "")))
		case 4:
			g.inAct = true
			b.WriteString(g.exprText(1+g.rng.Intn(3)) + ", " + g.exprText(1+g.rng.Intn(3)) + g.pick("", " "+g.block(d, "")))
		case 5:
			g.inFunc = true
			name := g.pick("h1", "h2", "h3") + string(rune('a'+i))
			b.WriteString("function " + name + "(" + g.pick("", "p", "p, q", "p, q, arr2") + ")" + g.pick(" ", "\n") + g.block(d, ""))
		default:
			g.inAct = true
			b.WriteString(g.block(d, ""))
		}
		b.WriteString(g.pick("\n", "\n\n", " ; ", "\n# c\n"))
		usesF = true
	}
	s := b.String()
	if usesF && strings.Contains(s, "f(") {
		s += "\nfunction f(p) { }"
	}
	if strings.Contains(s, "g(") {
		s += "\nfunction g(p, q) { return p q }"
	}
	return s
}

func genRandomPrograms(r *runner) {
	g := &pgen{rng: r.c.Rng}
	n := r.c.N(7000, 250000)
	for i := 0; i < n; i++ {
		r.addSrc("random-program", g.program())
	}
	// random single statements in a fixed frame (higher acceptance rate than whole programs)
	m := r.c.N(10000, 250000)
	for i := 0; i < m; i++ {
		g.inFunc, g.inAct, g.inLoop = false, true, 0
		s := "{ " + g.stmt(1+g.rng.Intn(3), "") + " }"
		if strings.Contains(s, "f(") {
			s += "\nfunction f(p) { }"
		}
		if strings.Contains(s, "g(") {
			s += "\nfunction g(p, q) { }"
		}
		r.addSrc("random-stmt", s)
	}
}
