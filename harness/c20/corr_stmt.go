package main

// Statement-level model correspondence for C20 (GoawkModel.C20Stmt): random control-flow skeletons (simple | if/else |
// while | do | for | for-in | block) with opaque conditions and simple statements, written in random valid spellings
// (braces or a single statement, `;` or newline separators, optional newlines), in the printed spelling, and mutated;
//   (1) Lean `parseStmt` against parser.ParseProgram: accept/reject and tree;
//   (2) Lean `showS` of the model's parse against the tokens of Program.String();
//   (3) implementation-side: the printed text re-parses to the same skeleton (also part of the main oracle).
// Also the laws the number-literal theorem assumes (GoawkModel.C20Num.Laws) are checked on strconv.

import (
	"fmt"
	"math"
	"reflect"
	"strconv"
	"strings"

	"github.com/benhoyt/goawk/lexer"
	"github.com/benhoyt/goawk/parser"

	"verifharness/vh"
)

// st is a statement skeleton. k: simple if while do for forin block
type st struct {
	k              string
	n              int   // simple id / condition id / for-in id
	pre, cond, pos int   // for: -1 = absent
	body, els      []*st // statement lists
}

func stList(ss []*st) string {
	s := "skip"
	for i := len(ss) - 1; i >= 0; i-- {
		s = "(seq " + ss[i].String() + " " + s + ")"
	}
	return s
}

func optN(i int) string {
	if i < 0 {
		return "-"
	}
	return strconv.Itoa(i)
}

func (s *st) String() string {
	switch s.k {
	case "simple":
		return fmt.Sprintf("(simple %d)", s.n)
	case "if":
		return fmt.Sprintf("(if %d %s %s)", s.n, stList(s.body), stList(s.els))
	case "while":
		return fmt.Sprintf("(while %d %s)", s.n, stList(s.body))
	case "do":
		return fmt.Sprintf("(do %s %d)", stList(s.body), s.n)
	case "for":
		return fmt.Sprintf("(for %s %s %s %s)", optN(s.pre), optN(s.cond), optN(s.pos), stList(s.body))
	case "forin":
		return fmt.Sprintf("(forin %d %s)", s.n, stList(s.body))
	case "block":
		return "(block " + stList(s.body) + ")"
	}
	return "?"
}

type stGen struct {
	c  *vh.Ctx
	id int
}

func (g *stGen) next() int { g.id++; return g.id % 9 }

func (g *stGen) list(depth, max int) []*st {
	n := g.c.Rng.Intn(max + 1)
	var ss []*st
	for i := 0; i < n; i++ {
		ss = append(ss, g.stmt(depth))
	}
	return ss
}

func (g *stGen) stmt(depth int) *st {
	if depth <= 0 || g.c.Rng.Intn(3) == 0 {
		return &st{k: "simple", n: g.next()}
	}
	opt := func() int {
		if g.c.Rng.Intn(2) == 0 {
			return -1
		}
		return g.next()
	}
	switch g.c.Rng.Intn(6) {
	case 0:
		s := &st{k: "if", n: g.next(), body: g.list(depth-1, 2)}
		if g.c.Rng.Intn(2) == 0 {
			s.els = g.list(depth-1, 2)
		}
		return s
	case 1:
		return &st{k: "while", n: g.next(), body: g.list(depth-1, 2)}
	case 2:
		return &st{k: "do", n: g.next(), body: g.list(depth-1, 2)}
	case 3:
		return &st{k: "for", pre: opt(), cond: opt(), pos: opt(), body: g.list(depth-1, 2)}
	case 4:
		return &st{k: "forin", n: g.next(), body: g.list(depth-1, 2)}
	}
	return &st{k: "block", body: g.list(depth-1, 3)}
}

// spell writes a statement as model token words in a random valid spelling; canonical = the printer's spelling
func (g *stGen) spell(s *st, canonical bool) []string {
	maybeNl := func(ws []string) []string {
		if !canonical && g.c.Rng.Intn(4) == 0 {
			return append(ws, "nl")
		}
		return ws
	}
	thenBody := false // the then-branch of an if: a single statement that could swallow the else must be braced
	body := func(ss []*st) []string {
		// `;`  |  a single statement  |  { … }
		if !canonical {
			if len(ss) == 0 && g.c.Rng.Intn(2) == 0 {
				return []string{";"}
			}
			if len(ss) == 1 && ss[0].k != "block" && (!thenBody || ss[0].k == "simple" || ss[0].k == "do") && g.c.Rng.Intn(2) == 0 { // (a lone `{ … }` is the body itself, not a block statement)
				return g.spellSep(ss[0], false, true)
			}
		}
		return g.braces(ss, canonical)
	}
	switch s.k {
	case "simple":
		return []string{fmt.Sprintf("s%d", s.n)}
	case "if":
		ws := maybeNl([]string{"if", "(", fmt.Sprintf("e%d", s.n), ")"})
		thenBody = true
		ws = append(ws, body(s.body)...)
		thenBody = false
		if len(s.els) > 0 || (!canonical && g.c.Rng.Intn(4) == 0) {
			ws = maybeNl(ws)
			ws = maybeNl(append(ws, "else"))
			ws = append(ws, body(s.els)...)
		}
		return ws
	case "while":
		return append(maybeNl([]string{"while", "(", fmt.Sprintf("e%d", s.n), ")"}), body(s.body)...)
	case "do":
		ws := append(maybeNl([]string{"do"}), body(s.body)...)
		ws = maybeNl(ws)
		return append(ws, "while", "(", fmt.Sprintf("e%d", s.n), ")")
	case "for":
		ws := []string{"for", "("}
		if s.pre >= 0 {
			ws = append(ws, fmt.Sprintf("s%d", s.pre))
		}
		ws = maybeNl(append(ws, ";"))
		if s.cond >= 0 {
			ws = append(ws, fmt.Sprintf("e%d", s.cond))
		}
		ws = maybeNl(append(ws, ";"))
		if s.pos >= 0 {
			ws = append(ws, fmt.Sprintf("s%d", s.pos))
		}
		ws = maybeNl(append(ws, ")"))
		return append(ws, body(s.body)...)
	case "forin":
		return append(maybeNl([]string{"for", "(", fmt.Sprintf("in%d", s.n), ")"}), body(s.body)...)
	case "block":
		return g.braces(s.body, canonical)
	}
	panic("spell")
}

// spellSep: a statement followed by what separates it from the next thing
func (g *stGen) spellSep(s *st, canonical, single bool) []string {
	ws := g.spell(s, canonical)
	if canonical {
		return append(ws, "nl")
	}
	last := ws[len(ws)-1]
	switch g.c.Rng.Intn(4) {
	case 0:
		return append(ws, ";")
	case 1:
		return append(ws, "nl", "nl")
	case 2:
		if last == "}" || last == ";" || last == "nl" {
			return ws // a closing brace or a separator already ends the statement
		}
	}
	return append(ws, "nl")
}

func (g *stGen) braces(ss []*st, canonical bool) []string {
	ws := []string{"{"}
	if canonical || g.c.Rng.Intn(2) == 0 {
		ws = append(ws, "nl")
	}
	for _, s := range ss {
		ws = append(ws, g.spellSep(s, canonical, false)...)
	}
	ws = append(ws, "}")
	if !canonical && g.c.Rng.Intn(6) == 0 {
		ws = append(ws, ";")
	}
	return ws
}

func stokText(ws []string) string {
	var b strings.Builder
	for i, w := range ws {
		if i > 0 {
			b.WriteByte(' ')
		}
		switch {
		case w == "nl":
			b.WriteString("\n")
		case strings.HasPrefix(w, "in"):
			fmt.Fprintf(&b, "k%s in A%s", w[2:], w[2:])
		case len(w) > 1 && w[0] == 'e' && w[1] >= '0' && w[1] <= '9':
			b.WriteString("c" + w[1:])
		case len(w) > 1 && w[0] == 's' && w[1] >= '0' && w[1] <= '9':
			fmt.Fprintf(&b, "x%s = %s", w[1:], w[1:])
		default:
			b.WriteString(w)
		}
	}
	return b.String()
}

// real statement tree → the model's S-expression
func stConvList(v reflect.Value) string {
	s := "skip"
	for i := v.Len() - 1; i >= 0; i-- {
		s = "(seq " + stConv(v.Index(i)) + " " + s + ")"
	}
	return s
}

func stID(v reflect.Value) string { // VarExpr c<k>
	for v.Kind() == reflect.Interface || v.Kind() == reflect.Ptr {
		if v.IsNil() {
			return "-"
		}
		v = v.Elem()
	}
	if v.Type().Name() == "VarExpr" {
		return v.FieldByName("Name").String()[1:]
	}
	return "?" + v.Type().Name()
}

func stSimple(v reflect.Value) string { // ExprStmt x<k> = <k>
	for v.Kind() == reflect.Interface || v.Kind() == reflect.Ptr {
		if v.IsNil() {
			return "-"
		}
		v = v.Elem()
	}
	if v.Type().Name() != "ExprStmt" {
		return "?" + v.Type().Name()
	}
	e := v.FieldByName("Expr")
	for e.Kind() == reflect.Interface || e.Kind() == reflect.Ptr {
		e = e.Elem()
	}
	if e.Type().Name() != "AssignExpr" {
		return "?" + e.Type().Name()
	}
	return stID(e.FieldByName("Left"))
}

func stConv(v reflect.Value) string {
	for v.Kind() == reflect.Interface || v.Kind() == reflect.Ptr {
		v = v.Elem()
	}
	f := func(n string) reflect.Value { return v.FieldByName(n) }
	switch v.Type().Name() {
	case "ExprStmt":
		return "(simple " + stSimple(v) + ")"
	case "IfStmt":
		return "(if " + stID(f("Cond")) + " " + stConvList(f("Body")) + " " + stConvList(f("Else")) + ")"
	case "WhileStmt":
		return "(while " + stID(f("Cond")) + " " + stConvList(f("Body")) + ")"
	case "DoWhileStmt":
		return "(do " + stConvList(f("Body")) + " " + stID(f("Cond")) + ")"
	case "ForStmt":
		return "(for " + stSimple(f("Pre")) + " " + stID(f("Cond")) + " " + stSimple(f("Post")) + " " + stConvList(f("Body")) + ")"
	case "ForInStmt":
		return "(forin " + f("Var").String()[1:] + " " + stConvList(f("Body")) + ")"
	case "BlockStmt":
		return "(block " + stConvList(f("Body")) + ")"
	}
	return "?" + v.Type().Name()
}

// stReal parses `BEGIN <text>`: the skeleton as "(block …)", or "reject"; printed = Program.String()
func stReal(text string) (tree, printed string) {
	defer func() {
		if r := recover(); r != nil {
			tree, printed = "PANIC "+fmt.Sprint(r), ""
		}
	}()
	prog, err := parser.ParseProgram([]byte("BEGIN "+text), nil)
	if err != nil {
		return "reject", ""
	}
	root := reflect.ValueOf(prog.ResolvedProgram.Program)
	begin := root.FieldByName("Begin")
	if begin.Len() != 1 || root.FieldByName("Actions").Len() != 0 || root.FieldByName("End").Len() != 0 {
		return "reject-shape", ""
	}
	return "(block " + stConvList(begin.Index(0)) + ")", prog.String()
}

// stLexWords lexes printed text into the model's statement token words
func stLexWords(text string) []string {
	lx := lexer.NewLexer([]byte(text))
	var toks []lexer.Token
	var vals []string
	for {
		_, tok, val := lx.Scan()
		if tok == lexer.EOF || tok == lexer.ILLEGAL {
			break
		}
		toks = append(toks, tok)
		vals = append(vals, val)
	}
	var ws []string
	for i := 0; i < len(toks); i++ {
		switch toks[i] {
		case lexer.NAME:
			v := vals[i]
			switch {
			case v[0] == 'c':
				ws = append(ws, "e"+v[1:])
			case v[0] == 'x' && i+2 < len(toks) && toks[i+1] == lexer.ASSIGN:
				ws = append(ws, "s"+v[1:])
				i += 2
			case v[0] == 'k' && i+2 < len(toks) && toks[i+1] == lexer.IN:
				ws = append(ws, "in"+v[1:])
				i += 2
			default:
				ws = append(ws, "?"+v)
			}
		case lexer.NEWLINE:
			ws = append(ws, "nl")
		default:
			ws = append(ws, toks[i].String())
		}
	}
	return ws
}

var stUnits = []string{"nl", ";", "{", "}", "else", "do", "s1", "s2", "if ( e1 )", "while ( e2 )", "for ( ; ; )", "for ( s3 ; e3 ; s4 )", "for ( in5 )"}

func (g *stGen) mutate(ws []string) []string {
	ws = append([]string{}, ws...)
	i := g.c.Rng.Intn(len(ws))
	j := i + 1
	if ws[i] == "if" || ws[i] == "while" || ws[i] == "for" {
		// a header goes as a whole: `x1 = 1 ( c2 )` alone would be a concatenation, which the opaque tokens cannot express
		for j < len(ws) && ws[j-1] != ")" {
			j++
		}
	}
	u := strings.Fields(stUnits[g.c.Rng.Intn(len(stUnits))])
	switch g.c.Rng.Intn(3) {
	case 0:
		return append(ws[:i], ws[j:]...)
	case 1:
		return append(ws[:i], append(u, ws[i:]...)...)
	}
	return append(ws[:i], append(u, ws[j:]...)...)
}

func corrStmt(c *vh.Ctx) {
	g := &stGen{c: c}
	type kase struct {
		toks  []string
		class string
		want  string // intended tree, "" when unknown (mutants)
	}
	var cases []kase
	for i, n := 0, c.N(2500, 40000); i < n; i++ {
		blk := &st{k: "block", body: g.list(1+c.Rng.Intn(3), 3)}
		want := "(block (seq " + blk.String() + " skip))" // every case is wrapped in the braces of BEGIN { … }
		cases = append(cases, kase{g.spell(blk, true), "printed-spelling", want})
		free := g.spell(blk, false)
		cases = append(cases, kase{free, "free-spelling", want})
		cases = append(cases, kase{g.mutate(free), "mutated", ""})
	}
	reqs := make([]string, 0, 2*len(cases))
	for _, k := range cases {
		reqs = append(reqs, "stmt { nl "+strings.Join(k.toks, " ")+" nl } nl", "showstmt { nl "+strings.Join(k.toks, " ")+" nl } nl")
	}
	trees := make([]string, len(cases))
	prints := make([]string, len(cases))
	vh.Parallel(len(cases), func(i int) { trees[i], prints[i] = stReal("{\n" + stokText(cases[i].toks) + "\n}") })
	answers := c.LeanBatch(reqs)
	for i, k := range cases {
		real := trees[i]
		model := "reject"
		if a := answers[2*i]; strings.HasPrefix(a, "ok 0 ") {
			model = a[5:]
		} else if !strings.HasPrefix(a, "ok ") && a != "reject" {
			model = "BAD " + a
		}
		c.Trace()
		c.Hit("stmt-corr:" + k.class + ":" + map[bool]string{true: "accepted", false: "rejected"}[real != "reject"])
		src := "BEGIN {\n" + stokText(k.toks) + "\n}"
		if strings.Contains(real, "?") || real == "reject-shape" {
			c.Hit("stmt-corr-skipped")
			continue
		}
		if real != model {
			c.Fail(vh.Failure{Kind: "correspondence", What: "Lean parseStmt and parser.ParseProgram disagree on a statement skeleton",
				Case: map[string]interface{}{"tokens": strings.Join(k.toks, " "), "src": src, "class": k.class}, Got: "model: " + model, Want: "real: " + real})
			continue
		}
		if k.want != "" {
			c.OracleCase()
			if real != k.want {
				c.Fail(vh.Failure{Kind: "oracle", What: "a statement skeleton written in a valid spelling does not parse to the intended tree",
					Case: map[string]interface{}{"src": src, "src_hex": vh.HxS(src)}, Got: real, Want: k.want})
				continue
			}
		}
		if real == "reject" {
			continue
		}
		// printed form: tokens of Program.String() after BEGIN vs the model's showS
		pw := stLexWords(prints[i])
		if len(pw) > 0 && pw[0] == "BEGIN" {
			pw = pw[1:]
		}
		c.Trace()
		if got, want := answers[2*i+1], "ok "+strings.Join(pw, " "); got != want {
			c.Fail(vh.Failure{Kind: "correspondence", What: "Lean showS and Program.String() print a statement skeleton differently",
				Case: map[string]interface{}{"src": src}, Got: "model: " + got, Want: "real: " + want})
		}
	}
}

// corrNumLaws checks on strconv the laws GoawkModel.C20Num.Laws assumes of the number formatter (G20-1 repair)
func corrNumLaws(c *vh.Ctx) {
	fmtG := func(v float64) string { return fmt.Sprintf("%.6g", v) }
	parse := func(s string) float64 {
		r, _ := strconv.ParseFloat(strings.TrimRight(s, "eE"), 64)
		return r
	}
	isInt := func(v float64) bool { return v == float64(int64(v)) }
	var vals []float64
	for _, v := range []float64{0, 1, 0.5, 1000000.5, 999999.7, 1234567.5, 9223372036854775807, 9223372036854775808, 1e19, 1e300, 1e-300, 4e-324, 1.7976931348623157e308, 123456.7, 99999.95, 0.1} {
		vals = append(vals, v)
	}
	for i, n := 0, c.N(20000, 400000); i < n; i++ {
		switch c.Rng.Intn(4) {
		case 0:
			vals = append(vals, math.Float64frombits(c.Rng.Uint64()&^(1<<63)))
		case 1:
			vals = append(vals, float64(c.Rng.Int63n(1<<53))/float64(1+c.Rng.Intn(1000)))
		case 2:
			vals = append(vals, float64(c.Rng.Int63())*math.Pow(10, float64(c.Rng.Intn(40)-20)))
		default:
			vals = append(vals, float64(c.Rng.Intn(2000000))+float64(c.Rng.Intn(10))/10)
		}
	}
	for _, v := range vals {
		if math.IsNaN(v) {
			continue
		}
		c.Trace()
		bad := ""
		switch {
		case math.IsInf(v, 0):
			if r := parse("1e999"); !math.IsInf(r, 1) {
				bad = "inf_roundtrip"
			}
		default:
			if isInt(v) {
				if parse(strconv.FormatInt(int64(v), 10)) != v {
					bad = "int_roundtrip"
				}
			}
			r := parse(fmtG(v))
			if math.IsInf(r, 0) {
				bad = "g_finite"
			} else if fmtG(r) != fmtG(v) {
				bad = "g_projection"
			}
		}
		if bad != "" {
			c.Fail(vh.Failure{Kind: "correspondence", What: "strconv does not satisfy law " + bad + " assumed by GoawkModel.C20Num.Laws",
				Case: map[string]interface{}{"bits": fmt.Sprintf("%016x", math.Float64bits(v))}, Got: fmtG(v), Want: "law holds"})
		}
	}
	c.HitN("num-laws", len(vals))
}

// ---- items: BEGIN / pattern-action / END / function, in the order Program.String() prints them -------------------------

func itemText(ws []string) string { return stokText(ws) }

// progReal parses a whole program skeleton; items in the model's notation (Begin, Actions, End, Functions order)
func progReal(text string) (tree, printed string) {
	defer func() {
		if r := recover(); r != nil {
			tree, printed = "PANIC "+fmt.Sprint(r), ""
		}
	}()
	prog, err := parser.ParseProgram([]byte(text), nil)
	if err != nil {
		msg := err.Error()
		if strings.Contains(msg, "can't use") || strings.Contains(msg, "already defined") || strings.Contains(msg, "duplicate") || strings.Contains(msg, "can't") {
			return "skip", ""
		}
		return "reject", ""
	}
	root := reflect.ValueOf(prog.ResolvedProgram.Program)
	var items []string
	for i := 0; i < root.FieldByName("Begin").Len(); i++ {
		items = append(items, "(begin "+stConvList(root.FieldByName("Begin").Index(i))+")")
	}
	acts := root.FieldByName("Actions")
	for i := 0; i < acts.Len(); i++ {
		a := acts.Index(i).Elem()
		var ps []string
		for k := 0; k < a.FieldByName("Pattern").Len(); k++ {
			ps = append(ps, stID(a.FieldByName("Pattern").Index(k)))
		}
		body := "nil"
		if !a.FieldByName("Stmts").IsNil() {
			body = stConvList(a.FieldByName("Stmts"))
		}
		items = append(items, "(action ["+strings.Join(ps, " ")+"] "+body+")")
	}
	for i := 0; i < root.FieldByName("End").Len(); i++ {
		items = append(items, "(end "+stConvList(root.FieldByName("End").Index(i))+")")
	}
	fns := root.FieldByName("Functions")
	for i := 0; i < fns.Len(); i++ {
		f := fns.Index(i).Elem()
		var ps []string
		for k := 0; k < f.FieldByName("Params").Len(); k++ {
			ps = append(ps, f.FieldByName("Params").Index(k).String()[1:])
		}
		items = append(items, "(func "+f.FieldByName("Name").String()[2:]+" ["+strings.Join(ps, " ")+"] "+stConvList(f.FieldByName("Body"))+")")
	}
	return strings.Join(items, " "), prog.String()
}

func progLexWords(text string) []string {
	ws := stLexWords(text)
	for i, w := range ws {
		if strings.HasPrefix(w, "?fn") {
			ws[i] = w[1:]
		} else if strings.HasPrefix(w, "?p") {
			ws[i] = w[1:]
		}
	}
	return ws
}

func corrItems(c *vh.Ctx) {
	g := &stGen{c: c}
	type kase struct {
		toks  []string
		class string
	}
	var cases []kase
	for n, total := 0, c.N(1200, 20000); n < total; n++ {
		for _, canonical := range []bool{true, false} {
			var ws []string
			sep := func() {
				if len(ws) == 0 {
					return
				}
				last := ws[len(ws)-1]
				switch {
				case canonical:
					ws = append(ws, "nl", "nl")
				case last == "}" && c.Rng.Intn(2) == 0: // after a closing brace the terminator is optional
				case c.Rng.Intn(2) == 0:
					ws = append(ws, ";")
				default:
					ws = append(ws, "nl")
				}
			}
			body := func() []string { return g.braces(g.list(1+c.Rng.Intn(2), 2), canonical) }
			for k, m := 0, c.Rng.Intn(2); k < m; k++ {
				sep()
				ws = append(ws, append([]string{"BEGIN"}, body()...)...)
			}
			for k, m := 0, c.Rng.Intn(3); k < m; k++ {
				sep()
				np := c.Rng.Intn(3)
				withBody := np == 0 || c.Rng.Intn(2) == 0
				for q := 0; q < np; q++ {
					if q > 0 {
						ws = append(ws, ",")
						if !canonical && c.Rng.Intn(3) == 0 {
							ws = append(ws, "nl")
						}
					}
					ws = append(ws, fmt.Sprintf("e%d", g.next()))
				}
				if withBody {
					ws = append(ws, body()...)
				}
			}
			for k, m := 0, c.Rng.Intn(2); k < m; k++ {
				sep()
				ws = append(ws, append([]string{"END"}, body()...)...)
			}
			for k, m := 0, c.Rng.Intn(3); k < m; k++ {
				sep()
				ws = append(ws, "function", fmt.Sprintf("fn%d", n*4+k), "(")
				for q, np := 0, c.Rng.Intn(3); q < np; q++ {
					if q > 0 {
						ws = append(ws, ",")
						if !canonical && c.Rng.Intn(3) == 0 {
							ws = append(ws, "nl")
						}
					}
					ws = append(ws, fmt.Sprintf("p%d", q))
				}
				ws = append(ws, ")")
				if !canonical && c.Rng.Intn(3) == 0 {
					ws = append(ws, "nl")
				}
				ws = append(ws, body()...)
			}
			if len(ws) == 0 {
				continue
			}
			cases = append(cases, kase{ws, map[bool]string{true: "printed-spelling", false: "free-spelling"}[canonical]})
			if !canonical && c.Rng.Intn(2) == 0 {
				cases = append(cases, kase{g.mutate(ws), "mutated"})
			}
		}
	}
	reqs := make([]string, 0, 2*len(cases))
	for _, k := range cases {
		reqs = append(reqs, "prog "+strings.Join(k.toks, " "), "showprog "+strings.Join(k.toks, " "))
	}
	trees := make([]string, len(cases))
	prints := make([]string, len(cases))
	vh.Parallel(len(cases), func(i int) { trees[i], prints[i] = progReal(itemText(cases[i].toks)) })
	answers := c.LeanBatch(reqs)
	for i, k := range cases {
		real := trees[i]
		if real == "skip" || strings.Contains(real, "?") {
			c.Hit("prog-corr-skipped")
			continue
		}
		model := "reject"
		if a := answers[2*i]; strings.HasPrefix(a, "ok") {
			model = strings.TrimPrefix(strings.TrimPrefix(a, "ok"), " ")
		} else if a != "reject" {
			model = "BAD " + a
		}
		c.Trace()
		c.Hit("prog-corr:" + k.class + ":" + map[bool]string{true: "accepted", false: "rejected"}[real != "reject"])
		src := itemText(k.toks)
		if real != model {
			c.Fail(vh.Failure{Kind: "correspondence", What: "Lean parseProg and parser.ParseProgram disagree on a program skeleton",
				Case: map[string]interface{}{"tokens": strings.Join(k.toks, " "), "src": src, "class": k.class}, Got: "model: " + model, Want: "real: " + real})
			continue
		}
		if real == "reject" {
			continue
		}
		c.Trace()
		if got, want := strings.TrimSpace(answers[2*i+1]), strings.TrimSpace("ok "+strings.Join(progLexWords(prints[i]), " ")); got != want {
			c.Fail(vh.Failure{Kind: "correspondence", What: "Lean showProg and Program.String() print a program skeleton differently",
				Case: map[string]interface{}{"src": src}, Got: "model: " + got, Want: "real: " + want})
		}
	}
}
