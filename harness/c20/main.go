package main

// C20 — the printed form of a program is a faithful AWK program.
//
// Implementation-side oracle (no model in the loop). For every source the parser accepts:
//
//	p1 = ParseProgram(src); t1 = p1.String()          (a panic is a failure)
//	p2 = ParseProgram(t1)                               (an error is a failure: "printed form does not parse")
//	norm(tree p2) = norm(tree p1)                       (norm: GroupingExpr erased, numbers to six significant digits,
//	                                                     nil statement list = empty statement list)
//	p2.String() = t1                                    (String is idempotent)
//
// and, where the generator knows the byte content of a string / regex literal, the literal read back from t1 has
// exactly those bytes. The model correspondence lives in corr.go.

import (
	"fmt"
	"os"
	"runtime/debug"
	"sort"
	"strings"
	"time"

	"github.com/benhoyt/goawk/parser"

	"verifharness/vh"
)

// tcase is one generated source text.
type tcase struct {
	gen     string   // generator name (distribution key)
	src     string   // AWK source
	wantStr []string // if non-nil: the string literal values (raw bytes) the source must contain, in order
	wantRe  []string // if non-nil: the regex literal values the source must contain, in order
}

type tresult struct {
	skipped  bool   // parser rejects src
	skipMsg  string // parser message class
	t1       string
	fail     *vh.Failure
	kinds    map[string]int
	genError string // the generator's intention (wantStr) is not what the lexer read from src: harness bug, not a finding
}

func parseNoPanic(src string) (p *parser.Program, err error, panicked string) {
	defer func() {
		if r := recover(); r != nil {
			p, err, panicked = nil, nil, fmt.Sprint(r)
		}
	}()
	p, err = parser.ParseProgram([]byte(src), nil)
	return p, err, ""
}

func stringNoPanic(p *parser.Program) (s string, panicked string) {
	defer func() {
		if r := recover(); r != nil {
			s, panicked = "", fmt.Sprint(r)
		}
	}()
	return p.String(), ""
}

func hexList(vs []string) string {
	hs := make([]string, len(vs))
	for i, v := range vs {
		hs[i] = vh.HxS(v)
	}
	return strings.Join(hs, ",")
}

func errClass(msg string) string {
	// "parse error at 1:2: message" -> first three words of message, digits and quoted parts dropped
	if i := strings.Index(msg, ": "); i >= 0 {
		msg = msg[i+2:]
	}
	if i := strings.Index(msg, ": "); i >= 0 && strings.HasPrefix(msg, "parse error") {
		msg = msg[i+2:]
	}
	ws := strings.Fields(msg)
	if len(ws) > 3 {
		ws = ws[:3]
	}
	return strings.Join(ws, "_")
}

// checkOne is the oracle; it is pure (safe to run in parallel).
func checkOne(tc tcase) (res tresult) {
	caseOf := func(extra map[string]string) map[string]string {
		m := map[string]string{"gen": tc.gen, "src": tc.src, "src_hex": vh.HxS(tc.src)}
		for k, v := range extra {
			m[k] = v
		}
		return m
	}
	p1, err, pan := parseNoPanic(tc.src)
	if pan != "" {
		// a panic of the parser on some source text is not this property's business (C03/C04); count and skip
		res.skipped, res.skipMsg = true, "parser-panic"
		return
	}
	if err != nil {
		res.skipped, res.skipMsg = true, errClass(err.Error())
		return
	}
	t1, pan := stringNoPanic(p1)
	if pan != "" {
		res.fail = &vh.Failure{Kind: "oracle", What: "String() panics on an accepted program", Case: caseOf(nil), Got: "panic: " + pan, Want: "a text"}
		return
	}
	res.t1 = t1
	d1 := vh.DumpTree(p1, false)
	res.kinds = dumpKinds(d1)
	var s1 *sx
	tree1 := func() *sx {
		if s1 == nil {
			var e1 error
			s1, e1 = sxParse(d1)
			if e1 != nil {
				panic("cannot read DumpTree output: " + e1.Error() + "\n" + d1)
			}
		}
		return s1
	}

	if tc.wantStr != nil || tc.wantRe != nil {
		var strs, res1 []string
		sxStrings(tree1(), &strs, &res1)
		if tc.wantStr != nil && strings.Join(strs, ",") != hexList(tc.wantStr) {
			res.genError = fmt.Sprintf("string literals of src %q read as %s, generator meant %s", tc.src, strings.Join(strs, ","), hexList(tc.wantStr))
		}
		if tc.wantRe != nil && strings.Join(res1, ",") != hexList(tc.wantRe) {
			res.genError = fmt.Sprintf("regex literals of src %q read as %s, generator meant %s", tc.src, strings.Join(res1, ","), hexList(tc.wantRe))
		}
	}

	p2, err, pan := parseNoPanic(t1)
	if pan != "" {
		res.fail = &vh.Failure{Kind: "oracle", What: "printed form makes the parser panic", Case: caseOf(map[string]string{"printed": t1, "printed_hex": vh.HxS(t1)}), Got: "panic: " + pan, Want: "accepted"}
		return
	}
	if err != nil {
		res.fail = &vh.Failure{Kind: "oracle", What: "printed form does not parse", Case: caseOf(map[string]string{"printed": t1, "printed_hex": vh.HxS(t1)}), Got: err.Error(), Want: "accepted, same tree"}
		return
	}
	d2 := vh.DumpTree(p2, false)
	var s2 *sx
	tree2 := func() *sx {
		if s2 == nil {
			var e2 error
			s2, e2 = sxParse(d2)
			if e2 != nil {
				panic("cannot read DumpTree output: " + e2.Error() + "\n" + d2)
			}
		}
		return s2
	}
	// identical dumps are identical trees; otherwise compare under norm
	if d1 != d2 {
		n1 := sxNorm(tree1(), nil).String()
		n2 := sxNorm(tree2(), nil).String()
		if n1 != n2 {
			a, b := firstDiff(n2, n1)
			res.fail = &vh.Failure{Kind: "oracle", What: "printed form parses to a different tree", Case: caseOf(map[string]string{"printed": t1, "printed_hex": vh.HxS(t1)}), Got: "…" + a, Want: "…" + b}
			return
		}
	}
	if tc.wantStr != nil || tc.wantRe != nil {
		var strs, res2 []string
		sxStrings(tree2(), &strs, &res2)
		if tc.wantStr != nil && strings.Join(strs, ",") != hexList(tc.wantStr) {
			res.fail = &vh.Failure{Kind: "oracle", What: "string literal changes value through print and re-parse", Case: caseOf(map[string]string{"printed": t1, "printed_hex": vh.HxS(t1)}), Got: strings.Join(strs, ","), Want: hexList(tc.wantStr)}
			return
		}
		if tc.wantRe != nil && strings.Join(res2, ",") != hexList(tc.wantRe) {
			res.fail = &vh.Failure{Kind: "oracle", What: "regex literal changes value through print and re-parse", Case: caseOf(map[string]string{"printed": t1, "printed_hex": vh.HxS(t1)}), Got: strings.Join(res2, ","), Want: hexList(tc.wantRe)}
			return
		}
	}
	t2, pan := stringNoPanic(p2)
	if pan != "" {
		res.fail = &vh.Failure{Kind: "oracle", What: "String() panics on the re-parsed program", Case: caseOf(map[string]string{"printed": t1}), Got: "panic: " + pan, Want: t1}
		return
	}
	if t2 != t1 {
		a, b := firstDiff(t2, t1)
		res.fail = &vh.Failure{Kind: "oracle", What: "String() is not idempotent: printing the re-parsed program gives another text", Case: caseOf(map[string]string{"printed": t1, "printed_hex": vh.HxS(t1), "printed_again": t2}), Got: "…" + a, Want: "…" + b}
		return
	}
	return
}

// dumpKinds counts the struct type names in a DumpTree text ("(Name" words).
func dumpKinds(d string) map[string]int {
	kinds := map[string]int{}
	for i := 0; i < len(d); i++ {
		if d[i] == '(' && (i == 0 || d[i-1] == ' ') {
			j := i + 1
			for j < len(d) && d[j] != ' ' && d[j] != ')' {
				j++
			}
			if j > i+1 {
				kinds[d[i+1:j]]++
			}
			i = j
		}
	}
	return kinds
}

// runner accumulates cases, de-duplicates them, checks them in parallel and reports in generation order.
type runner struct {
	c         *vh.Ctx
	seen      map[string]bool
	pending   []tcase
	kinds     map[string]int
	failed    map[string]int // per What
	checkTime time.Duration
}

func (r *runner) add(tc tcase) {
	if r.seen[tc.src] {
		r.c.Hit("dup:" + tc.gen)
		return
	}
	r.seen[tc.src] = true
	r.pending = append(r.pending, tc)
	if len(r.pending) >= 20000 {
		r.flush()
	}
}

func (r *runner) addSrc(gen, src string) { r.add(tcase{gen: gen, src: src}) }

func (r *runner) flush() {
	cases := r.pending
	r.pending = nil
	results := make([]tresult, len(cases))
	t0 := time.Now()
	const chunk = 128 // one channel operation per chunk, not per case
	vh.Parallel((len(cases)+chunk-1)/chunk, func(ci int) {
		for i := ci * chunk; i < (ci+1)*chunk && i < len(cases); i++ {
			results[i] = checkOne(cases[i])
		}
	})
	r.checkTime += time.Since(t0)
	c := r.c
	for i, res := range results {
		tc := cases[i]
		if res.skipped {
			c.Hit("skip:" + tc.gen)
			c.Hit("skipmsg:" + res.skipMsg)
			c.Eval(tc.src, false)
			continue
		}
		c.OracleCase()
		c.Hit("gen:" + tc.gen)
		// non-trivial: the printed text is not the source itself (the printer did some work) — always true except for
		// sources already in printed form; count by printed text so that spelling variants of one program count once
		c.Eval(res.t1, true)
		for k, n := range res.kinds {
			r.kinds[k] += n
		}
		if res.genError != "" {
			c.Hit("generr:" + tc.gen)
			if c.HarnessError == "" {
				c.HarnessError = "generator error: " + res.genError
			}
		}
		if res.fail != nil {
			r.failed[res.fail.What]++
			c.Hit("FAIL:" + tc.gen)
			c.Fail(*res.fail)
		} else if len(tc.src) < 80 && c.Rng.Intn(2000) == 0 {
			c.Sample(map[string]string{"gen": tc.gen, "src": tc.src, "printed": res.t1})
		}
	}
}

func run(c *vh.Ctx) {
	c.Rule("sources come from a fixed corpus (finding witnesses, every statement/getline/redirect/builtin form), an exhaustive " +
		"operator-adjacency enumeration (all unary/binary/ternary/assignment/incr/$/in/grouping combinations to depth 2, a structured " +
		"subset of depth 3, in 9 statement contexts, written minimally, tightly and fully parenthesised), token soups, string literals " +
		"over all 256 bytes / every escape / byte pairs / UTF-8 edge runes / random bytes, regex literals, random grammar-directed " +
		"programs, and every string literal of the repository's own test tables plus testdata/*.awk; a case counts when the parser " +
		"accepts the source, and is keyed by its printed text (distinct = number of different printed programs)")
	debug.SetGCPercent(400)
	r := &runner{c: c, seen: map[string]bool{}, kinds: map[string]int{}, failed: map[string]int{}}

	for _, g := range []struct {
		name string
		f    func(*runner)
	}{{"corpus", genCorpus}, {"repo", genRepo}, {"strings", genStrings}, {"regexes", genRegexes}, {"adjacency", genAdjacency}, {"soup", genSoup}, {"random", genRandomPrograms}} {
		start := time.Now()
		g.f(r)
		r.flush()
		if os.Getenv("C20_TIMING") != "" {
			fmt.Fprintf(os.Stderr, "%-10s %6.2fs (check %.2fs)\n", g.name, time.Since(start).Seconds(), r.checkTime.Seconds())
		}
	}

	ks := make([]string, 0, len(r.kinds))
	for k := range r.kinds {
		ks = append(ks, k)
	}
	sort.Strings(ks)
	for _, k := range ks {
		c.HitN("node:"+k, r.kinds[k])
	}
	if c.HasLean() {
		corr(c)
	}
}

func main() { vh.Main("C20", run) }
