package main

// Simple statements as real syntax (GoawkModel.C20Simple): print/printf with argument lists (bare and parenthesised),
// redirections, delete, exit/return with and without a value, next, nextfile, break, continue, expression statements;
//   (1) Lean `parseSimple` against parser.ParseProgram (accept/reject and tree);
//   (2) Lean `showSimple` of the model's parse against the tokens of Program.String() — this is where the printer's
//       `hasRedirectOp` rule is compared token by token.

import (
	"fmt"
	"reflect"
	"strings"

	"github.com/benhoyt/goawk/parser"

	"verifharness/vh"
)

const smPre, smPost = "function f(p) { while (1) { ", "\n } }"

func smOpt(v reflect.Value) string {
	e := conv(v)
	return e.String()
}

// smReal parses the statement inside `function f(p) { while (1) { … } }`: tree in the model's notation, printed line
func smReal(text string) (tree, printed string) {
	defer func() {
		if r := recover(); r != nil {
			tree, printed = "PANIC "+fmt.Sprint(r), ""
		}
	}()
	prog, err := parser.ParseProgram([]byte(smPre+text+smPost), nil)
	if err != nil {
		msg := err.Error()
		if strings.Contains(msg, "can't use") || strings.Contains(msg, "can't pass") || strings.Contains(msg, "can't also") {
			return "skip", ""
		}
		return "reject", ""
	}
	fns := reflect.ValueOf(prog.ResolvedProgram.Program).FieldByName("Functions")
	if fns.Len() != 1 {
		return "skip", ""
	}
	body := fns.Index(0).Elem().FieldByName("Body")
	if body.Len() != 1 {
		return "reject-shape", ""
	}
	w := body.Index(0)
	for w.Kind() == reflect.Interface || w.Kind() == reflect.Ptr {
		w = w.Elem()
	}
	if w.Type().Name() != "WhileStmt" || w.FieldByName("Body").Len() != 1 {
		return "reject-shape", ""
	}
	st := w.FieldByName("Body").Index(0)
	for st.Kind() == reflect.Interface || st.Kind() == reflect.Ptr {
		st = st.Elem()
	}
	f := func(n string) reflect.Value { return st.FieldByName(n) }
	pr := func(kw string) string {
		var as []string
		for i := 0; i < f("Args").Len(); i++ {
			as = append(as, conv(f("Args").Index(i)).String())
		}
		red := "- nil"
		if !f("Dest").IsNil() {
			red = fmt.Sprint(f("Redirect").Interface()) + " " + conv(f("Dest")).String()
		}
		return "(" + kw + " [" + strings.Join(as, " ") + "] " + red + ")"
	}
	switch st.Type().Name() {
	case "PrintStmt":
		tree = pr("print")
	case "PrintfStmt":
		tree = pr("printf")
	case "DeleteStmt":
		idx := "nil"
		if n := f("Index").Len(); n == 1 {
			idx = conv(f("Index").Index(0)).String()
		} else if n > 1 {
			return "skip", ""
		}
		tree = "(delete v" + f("Array").String()[1:] + " " + idx + ")"
	case "ExitStmt":
		tree = "(exit " + smOpt(f("Status")) + ")"
	case "ReturnStmt":
		tree = "(return " + smOpt(f("Value")) + ")"
	case "NextStmt":
		tree = "(next)"
	case "NextfileStmt":
		tree = "(nextfile)"
	case "BreakStmt":
		tree = "(break)"
	case "ContinueStmt":
		tree = "(continue)"
	case "ExprStmt":
		tree = "(expr " + conv(f("Expr")).String() + ")"
	default:
		return "skip", ""
	}
	if strings.Contains(tree, "?") {
		return "skip", ""
	}
	lines := strings.Split(prog.String(), "\n")
	if len(lines) != 5 {
		return tree, "?lines"
	}
	return tree, strings.TrimSpace(lines[2])
}

func corrSimple(c *vh.Ctx) {
	bs := builders()
	expr := func(depth int) *E { return randomTree(c, bs, &leafGen{}, depth, false) }
	type kase struct {
		toks  []string
		class string
	}
	var cases []kase
	add := func(class string, ws ...string) { cases = append(cases, kase{ws, class}) }
	cat := func(parts ...[]string) []string {
		var r []string
		for _, p := range parts {
			r = append(r, p...)
		}
		return r
	}
	for i, n := 0, c.N(2500, 50000); i < n; i++ {
		kw := []string{"print", "printf"}[c.Rng.Intn(2)]
		nargs := c.Rng.Intn(4)
		if kw == "printf" && nargs == 0 {
			nargs = 1
		}
		var args []*E
		for k := 0; k < nargs; k++ {
			args = append(args, expr(1+c.Rng.Intn(3)))
		}
		var redir []string
		if c.Rng.Intn(2) == 0 {
			redir = cat([]string{[]string{">", ">>", "|"}[c.Rng.Intn(3)]}, render(addMin(false, expr(c.Rng.Intn(2)))))
		}
		// bare list: every argument minimally parenthesised for the print context
		var bare, paren []string
		for k, a := range args {
			if k > 0 {
				bare = append(bare, ",")
				paren = append(paren, ",")
			}
			bare = append(bare, render(addMin(true, a))...)
			paren = append(paren, render(addMin(false, a))...)
		}
		add("print-bare", cat([]string{kw}, bare, redir)...)
		if nargs > 0 {
			add("print-paren", cat([]string{kw, "("}, paren, []string{")"}, redir)...)
			// plain-context spelling without the parentheses: `>` inside becomes the redirection, or a syntax error
			add("print-unsafe", cat([]string{kw}, paren, redir)...)
		}
		switch c.Rng.Intn(6) {
		case 0:
			add("delete", "delete", "v11")
			add("delete", cat([]string{"delete", "v11", "["}, render(addMin(false, expr(2))), []string{"]"})...)
		case 1:
			add("exit", "exit")
			add("exit", cat([]string{"exit"}, render(addMin(false, expr(2))))...)
		case 2:
			add("return", "return")
			add("return", cat([]string{"return"}, render(addMin(false, expr(2))))...)
		case 3:
			add("keyword", []string{"next", "nextfile", "break", "continue"}[c.Rng.Intn(4)])
		default:
			add("expr", render(addMin(false, expr(3)))...)
			add("expr", render(grpF(expr(2)))...)
		}
		if c.Rng.Intn(3) == 0 { // damaged spellings
			k := cases[len(cases)-1-c.Rng.Intn(3)]
			add("mutated", mutateTokensC20(c, k.toks)...)
		}
	}
	reqs := make([]string, 0, 2*len(cases))
	for _, k := range cases {
		reqs = append(reqs, "simple "+strings.Join(k.toks, " ")+" nl", "showsimple "+strings.Join(k.toks, " ")+" nl")
	}
	trees := make([]string, len(cases))
	prints := make([]string, len(cases))
	vh.Parallel(len(cases), func(i int) { trees[i], prints[i] = smReal(tokText(cases[i].toks)) })
	answers := c.LeanBatch(reqs)
	for i, k := range cases {
		real := trees[i]
		a := answers[2*i]
		if real == "skip" || a == "err unsupported" || a == "bad-token" || real == "reject-shape" {
			c.Hit("simple-corr-skipped:" + k.class)
			continue
		}
		model := "reject"
		if strings.HasPrefix(a, "ok 1 ") {
			model = a[5:]
		} else if !strings.HasPrefix(a, "ok ") && a != "err syntax" {
			model = "BAD " + a
		}
		c.Trace()
		c.Hit("simple-corr:" + k.class + ":" + map[bool]string{true: "accepted", false: "rejected"}[real != "reject"])
		src := smPre + tokText(k.toks) + smPost
		if real != model {
			c.Fail(vh.Failure{Kind: "correspondence", What: "Lean parseSimple and parser.ParseProgram disagree on a simple statement",
				Case: map[string]interface{}{"tokens": strings.Join(k.toks, " "), "src": src, "class": k.class}, Got: "model: " + model, Want: "real: " + real})
			continue
		}
		if real == "reject" {
			continue
		}
		pw := mLexWords(prints[i])
		c.Trace()
		if got, want := answers[2*i+1], "ok "+strings.Join(pw, " "); pw != nil && got != want {
			c.Fail(vh.Failure{Kind: "correspondence", What: "Lean showSimple and Program.String() print a simple statement differently",
				Case: map[string]interface{}{"src": src, "printed": prints[i]}, Got: "model: " + got, Want: "real: " + want})
		}
	}
}

var smAlphabet = []string{"n1", "v0", "v1", "s1", "(", ")", ",", ">", ">>", "|", "+", "-", "!", "++", "$", "in", "v10", "getline", "=", "?", ":"}

func mutateTokensC20(c *vh.Ctx, ws []string) []string {
	ws = append([]string{}, ws...)
	if len(ws) == 0 {
		return []string{smAlphabet[c.Rng.Intn(len(smAlphabet))]}
	}
	i := c.Rng.Intn(len(ws))
	r := smAlphabet[c.Rng.Intn(len(smAlphabet))]
	switch c.Rng.Intn(3) {
	case 0:
		ws[i] = r
	case 1:
		ws = append(ws[:i], ws[i+1:]...)
	default:
		ws = append(ws[:i], append([]string{r}, ws[i:]...)...)
	}
	return ws
}
