package main

// (c) string literals and (d) regex literals.

import (
	"fmt"
	"math/rand"
	"strings"
	"unicode/utf8"
)

func isHexDigit(b byte) bool {
	return b >= '0' && b <= '9' || b >= 'a' && b <= 'f' || b >= 'A' && b <= 'F'
}

// rawLegal: can the byte stand for itself inside a "..." literal?
func rawLegal(b byte, quote byte) bool {
	return b != quote && b != '\\' && b != '\n' && b != '\r' && b != 0
}

var namedEsc = map[byte]string{'\n': `\n`, '\t': `\t`, '\r': `\r`, '\a': `\a`, '\b': `\b`, '\f': `\f`, '\v': `\v`, '\\': `\\`, '"': `\"`, '/': `\/`}

// writeLit writes an AWK string literal whose value is content.
// style: 0 raw where legal (else \xHH), 1 all \xHH, 2 all \ooo, 3 mixed (needs rng), 4 single quoted raw, 5 \u for valid runes
func writeLit(content []byte, style int, rng *rand.Rand) string {
	var b strings.Builder
	quote := byte('"')
	if style == 4 {
		quote = '\''
	}
	b.WriteByte(quote)
	for i := 0; i < len(content); {
		c := content[i]
		next := byte(0)
		hasNext := i+1 < len(content)
		if hasNext {
			next = content[i+1]
		}
		st := style
		if st == 3 {
			st = rng.Intn(8) // 0 raw 1 hex 2 oct 5 \u 6 named 7 short forms
		}
		switch st {
		case 1:
			fmt.Fprintf(&b, `\x%02x`, c)
		case 2:
			fmt.Fprintf(&b, `\%03o`, c)
		case 5:
			r, n := utf8.DecodeRune(content[i:])
			if r != utf8.RuneError && n > 1 || r < 0x80 && r != 0 {
				// \u takes up to 8 hex digits: pad to 8 so that a following hex digit is not swallowed
				fmt.Fprintf(&b, `\u%08x`, r)
				i += n
				continue
			}
			fmt.Fprintf(&b, `\x%02X`, c)
		case 6:
			if e, ok := namedEsc[c]; ok {
				b.WriteString(e)
			} else if c == quote {
				b.WriteString(`\` + string(quote))
			} else {
				fmt.Fprintf(&b, `\x%02x`, c)
			}
		case 7:
			// short hex / octal forms are safe only when the next source character cannot continue them; the next
			// content byte is rendered raw or as an escape starting with '\', so it is enough to look at it
			nextIsDigit := hasNext && (isHexDigit(next))
			if nextIsDigit {
				fmt.Fprintf(&b, `\x%02x`, c)
			} else if rng.Intn(2) == 0 {
				fmt.Fprintf(&b, `\x%x`, c)
			} else {
				fmt.Fprintf(&b, `\%o`, c)
			}
		default: // 0, 4
			if rawLegal(c, quote) {
				b.WriteByte(c)
			} else if c == quote {
				b.WriteString(`\` + string(quote))
			} else if c == '\\' {
				b.WriteString(`\\`)
			} else {
				fmt.Fprintf(&b, `\x%02x`, c)
			}
		}
		i++
	}
	b.WriteByte(quote)
	return b.String()
}

func strCase(gen string, content []byte, style int, rng *rand.Rand, ctx int) tcase {
	lit := writeLit(content, style, rng)
	var src string
	switch ctx {
	case 1:
		src = "BEGIN { print " + lit + " }"
	case 2:
		src = "$0 ~ " + lit
	case 3:
		src = "BEGIN { a[" + lit + "] = length(" + lit + ") }"
		return tcase{gen: gen, src: src, wantStr: []string{string(content), string(content)}}
	case 4:
		src = "BEGIN { x = " + lit + " " + lit + " }"
		return tcase{gen: gen, src: src, wantStr: []string{string(content), string(content)}}
	default:
		src = "BEGIN { x = " + lit + " }"
	}
	return tcase{gen: gen, src: src, wantStr: []string{string(content)}}
}

var interestingBytes = []byte{'"', '\\', '/', '\n', '\r', 0x00, 0x7f, 0x80, 0xc2, 0xff, '0', '1', '7', '8', 'a', 'f', 'g', 'x', 'u', 'U', 'n', ' ', '\'', 0x01, 0xa0, 0xad, 0xbf, 0xe2, 0xf3, '#', '&', '%'}

var edgeRunes = []rune{0x80, 0xa0, 0xad, 0xff, 0x100, 0x378, 0x7ff, 0x800, 0x2028, 0x2029, 0xd7ff, 0xe000, 0xfeff, 0xfffd, 0xfffe, 0xffff, 0x10000, 0x1f600, 0xe0001, 0x10ffff, 0x7f, 0x1, 0x41}

var rawOddities = []string{
	"\xed\xa0\x80", "\xed\xbf\xbf", "\xed\xa0\x80\xed\xb0\x80", // surrogates
	"\xc0\x80", "\xc1\xbf", "\xe0\x80\x80", "\xe0\x9f\xbf", "\xf0\x80\x80\x80", "\xf0\x8f\xbf\xbf", // overlong
	"\xf4\x90\x80\x80", "\xf5\x80\x80\x80", "\xf8\x88\x80\x80\x80", "\xfc\x84\x80\x80\x80\x80", "\xfe", "\xff", // too large / invalid lead
	"\xc2", "\xe2\x82", "\xf0\x9f", "\xf0\x9f\x98", "\x80", "\xbf", "\x80\x80", "\xc2\xc2\x80", "\xe2\x82\xe2\x82\xac", // truncated / stray continuation
}

func genStrings(r *runner) {
	rng := r.c.Rng
	// 1. every byte, every style, a few contexts
	for b := 0; b < 256; b++ {
		for style := 0; style <= 6; style++ {
			st := style
			if st == 3 {
				continue
			}
			r.add(strCase("str-byte", []byte{byte(b)}, st, rng, 0))
		}
		r.add(strCase("str-byte", []byte{byte(b)}, 1, rng, 1+b%4))
		// byte followed / preceded by a hex digit, a letter
		for _, t := range []byte{'0', 'a', '8', 'g'} {
			r.add(strCase("str-byte-next", []byte{byte(b), t}, 0, rng, 0))
			r.add(strCase("str-byte-next", []byte{byte(b), t}, 1, rng, 0))
			r.add(strCase("str-byte-next", []byte{t, byte(b)}, 0, rng, 0))
		}
	}
	// 2. every escape the lexer knows, written directly (no intended value: the tree comparison covers the value)
	for b := 1; b < 256; b++ {
		if b == '\r' {
			continue
		}
		r.addSrc("str-escape", "BEGIN { x = \"\\"+string([]byte{byte(b)})+"\" }")
		r.addSrc("str-escape", "BEGIN { x = \"a\\"+string([]byte{byte(b)})+"1\" }")
		r.addSrc("str-escape", "BEGIN { x = '\\"+string([]byte{byte(b)})+"' }")
	}
	for _, e := range []string{`\x0`, `\xf`, `\x0f`, `\xff`, `\xFF`, `\x123`, `\xabc`, `\xg`, `\x`, `\0`, `\00`, `\000`, `\0000`, `\7`, `\77`, `\377`, `\400`, `\777`, `\8`, `\18`, `\128`,
		`\u0`, `\u41`, `\u041`, `\u0041`, `\u00041`, `\u000041`, `\u0000041`, `\u00000041`, `\u000000041`, `\u80`, `\u080`, `\u0080`, `\u80a`, `\u0080a`, `\u00000080a`, `\ud800`, `\udfff`, `\ufffd`, `\uffff`, `\u10000`, `\u10ffff`, `\u110000`, `\uffffffff`, `\ue0001`, `\u2028`, `\uad`, `\ufeff`, `\ug`, `\u`, `\U0001f600`, `\U`, `\N`, `\e`, `\?`, `\&`, `\\&`, `\\\\&`, `\/`, `\"`, `\'`} {
		for _, tail := range []string{"", "0", "a", "g", `\x41`, `"`[:0] + ` `} {
			r.addSrc("str-escape", `BEGIN { x = "`+e+tail+`" }`)
		}
		r.addSrc("str-escape", `BEGIN { x = '`+e+`' }`)
	}
	// 3. pairs (and triples in the thorough tier) over the interesting set
	for _, a := range interestingBytes {
		for _, b := range interestingBytes {
			r.add(strCase("str-pair", []byte{a, b}, 0, rng, 0))
			r.add(strCase("str-pair", []byte{a, b}, 1, rng, 0))
			r.add(strCase("str-pair", []byte{a, b}, 3, rng, 0))
			if r.c.Thorough() {
				r.add(strCase("str-pair", []byte{a, b}, 4, rng, 0))
			}
		}
	}
	for _, trip := range [][]byte{{0x01, '2'}, {0x80, 'a'}, {0xc2, 0x80, 'a'}, {0xc2, 0x80, '0'}, {0xc2, 0xad, 'f'}, {0xf3, 0xa0, 0x80, 0x81}, {0xf3, 0xa0, 0x80, 0x81, 'a'}, {0xe2, 0x80, 0xa8, '1'}} {
		for style := 0; style <= 6; style++ {
			r.add(strCase("str-pair", trip, style, rng, 0))
		}
	}
	if r.c.Thorough() {
		small := []byte{'"', '\\', '/', 0x00, 0x80, 0xc2, 0xff, '0', 'a', 'x', 'u', 0xad, 0x01, '\n'}
		for _, a := range small {
			for _, b := range small {
				for _, c := range small {
					r.add(strCase("str-triple", []byte{a, b, c}, 0, rng, 0))
					r.add(strCase("str-triple", []byte{a, b, c}, 3, rng, 0))
				}
			}
		}
	}
	// 4. UTF-8 edge runes, surrogates, overlongs, truncations: alone, followed by a hex digit / letter, pairwise
	var units [][]byte
	for _, ru := range edgeRunes {
		buf := make([]byte, 4)
		n := utf8.EncodeRune(buf, ru)
		units = append(units, buf[:n])
	}
	for _, s := range rawOddities {
		units = append(units, []byte(s))
	}
	for _, u := range units {
		for style := 0; style <= 6; style++ {
			if style == 3 {
				continue
			}
			r.add(strCase("str-utf8", u, style, rng, 0))
			for _, t := range []byte{'0', 'a', 'F', 'g'} {
				r.add(strCase("str-utf8", append(append([]byte{}, u...), t), style, rng, 0))
			}
		}
		for _, v := range units {
			w := append(append([]byte{}, u...), v...)
			r.add(strCase("str-utf8-pair", w, 0, rng, 0))
			if r.c.Thorough() {
				r.add(strCase("str-utf8-pair", w, 3, rng, 0))
			}
		}
	}
	// all two-byte sequences lead x continuation sampled, all runes of some blocks
	nRunes := r.c.N(1200, 40000)
	for i := 0; i < nRunes; i++ {
		var ru rune
		switch rng.Intn(4) {
		case 0:
			ru = rune(rng.Intn(0x800))
		case 1:
			ru = rune(rng.Intn(0x10000))
		case 2:
			ru = rune(0x10000 + rng.Intn(0x100000))
		default:
			ru = rune(rng.Intn(0x3000))
		}
		if !utf8.ValidRune(ru) {
			continue
		}
		buf := make([]byte, 4)
		n := utf8.EncodeRune(buf, ru)
		content := buf[:n]
		if rng.Intn(2) == 0 {
			content = append(content, "0aF "[rng.Intn(4)])
		}
		r.add(strCase("str-rune", content, []int{0, 0, 1, 5, 3}[rng.Intn(5)], rng, 0))
	}
	// 5. random byte strings
	nRand := r.c.N(2500, 80000)
	for i := 0; i < nRand; i++ {
		n := rng.Intn(13)
		content := make([]byte, n)
		mode := rng.Intn(3)
		for j := range content {
			switch mode {
			case 0:
				content[j] = byte(rng.Intn(256))
			case 1:
				content[j] = interestingBytes[rng.Intn(len(interestingBytes))]
			default:
				if rng.Intn(2) == 0 {
					content[j] = byte(rng.Intn(256))
				} else {
					content[j] = interestingBytes[rng.Intn(len(interestingBytes))]
				}
			}
		}
		style := []int{0, 0, 1, 2, 3, 3, 3, 4, 5, 6}[rng.Intn(10)]
		gen := "str-random"
		if mode == 1 {
			gen = "str-random-interesting"
		}
		r.add(strCase(gen, content, style, rng, []int{0, 0, 0, 1, 2, 3, 4}[rng.Intn(7)]))
	}
}

// ---- regexes -----------------------------------------------------------------------------------------------------------

// a regex atom: the value the lexer yields and the source that yields it
type reAtom struct{ val, src string }

func regexAtoms() []reAtom {
	var as []reAtom
	for b := 0x20; b < 0x7f; b++ {
		ch := string([]byte{byte(b)})
		switch {
		case b == '/':
			as = append(as, reAtom{"/", `\/`})
			as = append(as, reAtom{"[/]", `[\/]`})
			as = append(as, reAtom{`\\/`, `\\\/`})
		case b == '\\':
			as = append(as, reAtom{`\\`, `\\`})
		case strings.ContainsRune(`.*+?()[]{}|^$`, rune(b)):
			as = append(as, reAtom{`\` + ch, `\` + ch})             // escaped special
			as = append(as, reAtom{"[" + ch + "]", "[" + ch + "]"}) // in a class ([]] and [^] may be rejected: skipped)
		default:
			as = append(as, reAtom{ch, ch})
			as = append(as, reAtom{`\` + ch, `\` + ch}) // \" \. \a ... kept with the backslash by the lexer (may be rejected by regexp)
		}
	}
	for _, s := range []string{".", "a*", "b+", "c?", "(d|e)", "[a-z]", "[^x]", "[[:alpha:]]", "^", "$", "x{2}", "x{1,3}", "(a(b)c)", "[a\\]b]", "[/\\\\]", "\\n", "\\t", "\\\\n", "\\.", "\\\"", "=", "==", " ", "  ",
		"\xc3\xa9", "\xe2\x82\xac", "\xf0\x9f\x98\x80", "\xc2\x80", "\xc2\xad", "\xff", "\x80", "\x01", "\x7f", "\t", "#", "\\y", "\\B", "\\w", "\\d", "\\s", "\\<", "\\>", "\\`", "\\'", "\\x41", "\\101", "\\u00e9", "\\&", "&"} {
		src := strings.ReplaceAll(s, "/", `\/`)
		as = append(as, reAtom{s, src})
	}
	return as
}

func regexContexts(reSrc string, k int) (src string, n int) {
	switch k {
	case 0:
		return reSrc, 1
	case 1:
		return "$0 ~ " + reSrc, 1
	case 2:
		return "BEGIN { x = " + reSrc + " }", 1
	case 3:
		return "{ n = split($0, a, " + reSrc + ") }", 1
	case 4:
		return "{ sub(" + reSrc + ", \"x\") }", 1
	case 5:
		return "{ gsub(" + reSrc + ", \"x\", t) }", 1
	case 6:
		return "{ x = match($0, " + reSrc + ") }", 1
	case 7:
		return reSrc + ", " + reSrc + " { print }", 2
	case 8:
		return "{ x = $1 !~ " + reSrc + " ? " + reSrc + " : !" + reSrc + " }", 3
	case 9:
		return "{ print " + reSrc + ", " + reSrc + " > \"f\" }", 2
	case 10:
		return "{ x = a / " + reSrc + " / b }", 1
	default:
		return "{ if (" + reSrc + ") print; else x = (y) ~ " + reSrc + " }", 2
	}
}

const nRegexContexts = 12

func reCase(gen string, val, reBody string, k int) tcase {
	src, n := regexContexts("/"+reBody+"/", k)
	want := make([]string, n)
	for i := range want {
		want[i] = val
	}
	return tcase{gen: gen, src: src, wantRe: want}
}

func genRegexes(r *runner) {
	rng := r.c.Rng
	atoms := regexAtoms()
	// every atom alone in every context; as first and last and middle element
	for _, a := range atoms {
		for k := 0; k < nRegexContexts; k++ {
			r.add(reCase("re-atom", a.val, a.src, k))
		}
		r.add(reCase("re-atom", "x"+a.val, "x"+a.src, 1))
		r.add(reCase("re-atom", a.val+"x", a.src+"x", 1))
		r.add(reCase("re-atom", a.val+a.val, a.src+a.src, 2))
	}
	// pairs of the troublesome atoms
	var hot []reAtom
	for _, a := range atoms {
		if strings.ContainsAny(a.val, `/\"=`) || len(a.val) > 0 && a.val[0] >= 0x80 {
			hot = append(hot, a)
		}
	}
	for _, a := range hot {
		for _, b := range hot {
			if !r.c.Thorough() && rng.Intn(3) != 0 {
				continue
			}
			r.add(reCase("re-pair", a.val+b.val, a.src+b.src, 1+rng.Intn(nRegexContexts-1)))
		}
	}
	// random concatenations
	n := r.c.N(2000, 50000)
	for i := 0; i < n; i++ {
		m := 1 + rng.Intn(6)
		var val, src strings.Builder
		for j := 0; j < m; j++ {
			var a reAtom
			if rng.Intn(3) == 0 {
				a = hot[rng.Intn(len(hot))]
			} else {
				a = atoms[rng.Intn(len(atoms))]
			}
			val.WriteString(a.val)
			src.WriteString(a.src)
		}
		r.add(reCase("re-random", val.String(), src.String(), rng.Intn(nRegexContexts)))
	}
	// regex literals written directly (no intended value), including what the lexer rejects
	for _, s := range []string{`/[/]/`, `/a[/]b/`, `/[^/]/`, `/\[/]/`, `/a\/b\/c/`, `/\\\//`, `/\\\\/`, `/a\\/`, `/\//`, `/\/\//`, `/=/`, `/=\//`, `/= /`, `/a/ /b/`, `//`, `/ /`, `/\//, /\//`, `/a/ ~ /b/`, `/a/ /b/ /c/`, `/\
/`, "/a\tb/", `/\x2f/`, `/\57/`, `/\u2f/`, `/[\x2f]/`} {
		r.addSrc("re-direct", s)
		r.addSrc("re-direct", "{ x = y ~ "+s+" }")
		r.addSrc("re-direct", "{ gsub("+s+", \"z\") }")
	}
	// dynamic regex strings: plain string literals in regex position
	for _, lit := range []string{`"a/b"`, `"a\/b"`, `"a\\/b"`, `"a\\.b"`, `"\\."`, `"\\\\"`, `"\\\""`, `"[/]"`, `"^a|b$"`, `"\\/"`, `"/"`, `"//"`, `"/re/"`, `"\\y"`, `"a\nb"`} {
		for _, ctx := range []string{"$0 ~ %s", "{ x = y !~ %s }", "{ n = split(s, a, %s) }", "{ sub(%s, \"x\") }", "{ gsub(%s, \"x\", t) }", "{ x = match(s, %s) }", "{ x = y ~ %s \"c\" }", "{ x = y ~ (%s \"c\") }"} {
			r.addSrc("re-dynamic", fmt.Sprintf(ctx, lit))
		}
	}
}
