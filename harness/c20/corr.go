package main

// Model correspondence for C20:
//  (1) expressions: Program.String() of an expression statement, lexed back into tokens with lexer.Scan, against the Lean
//      model's `showE` of the model's parse of the same source tokens (GoawkModel.C20 / C04);
//  (2) string literals: the printed literal against Lean `quote`, and Lean `lexString` of the printed literal against the
//      value the real parser reads back;
//  (3) regex literals: Lean `lexRegex` of the source literal against the parsed value, Lean `formatRegex` of the value
//      against the printed literal.

import (
	"fmt"
	"reflect"
	"strconv"
	"strings"
	"unicode/utf8"

	"github.com/benhoyt/goawk/lexer"
	"github.com/benhoyt/goawk/parser"

	"verifharness/vh"
)

// mPrintedExpr parses `BEGIN { <text> }` and returns the printed form of its single expression statement.
func mPrintedExpr(text string) (printed string, ok bool) {
	defer func() {
		if r := recover(); r != nil {
			ok = false
		}
	}()
	prog, err := parser.ParseProgram([]byte("BEGIN { "+text+" }"), nil)
	if err != nil {
		return "", false
	}
	s := prog.String()
	const pre, post = "BEGIN {\n    ", "\n}"
	if !strings.HasPrefix(s, pre) || !strings.HasSuffix(s, post) {
		return "", false
	}
	body := s[len(pre) : len(s)-len(post)]
	if strings.Contains(body, "\n") {
		return "", false
	}
	return body, true
}

// mLexWords turns AWK text into the model's token words ("" when a token is outside the model's alphabet)
func mLexWords(text string) []string {
	lx := lexer.NewLexer([]byte(text))
	var ws []string
	for {
		_, tok, val := lx.Scan()
		switch tok {
		case lexer.EOF:
			return ws
		case lexer.NUMBER:
			ws = append(ws, "n"+val)
		case lexer.NAME:
			if len(val) < 2 {
				return nil
			}
			ws = append(ws, "v"+val[1:])
		case lexer.STRING:
			ws = append(ws, val)
		case lexer.NEWLINE:
			ws = append(ws, "nl")
		case lexer.ILLEGAL:
			return nil
		default:
			ws = append(ws, tok.String())
		}
	}
}

func corrShow(c *vh.Ctx) {
	trees := enumerate(c)
	bs := builders()
	for i, n := 0, c.N(1500, 40000); i < n; i++ {
		trees = append(trees, genTree{randomTree(c, bs, &leafGen{}, 2+c.Rng.Intn(6), false), "random"})
	}
	type kase struct {
		toks  []string
		want  string
		class string
	}
	var cases []kase
	for i, t := range trees {
		if !c.Thorough() && t.class == "triple" && i%3 != int(c.Seed%3) {
			continue
		}
		var variants [][]string
		variants = append(variants, render(addMin(false, t.e)), render(grpF(t.e)), render(dropParens(c, grpF(t.e))))
		for vi, toks := range variants {
			printed, ok := mPrintedExpr(tokText(toks))
			if !ok {
				c.Hit("show-corr-skipped:unparsable")
				continue
			}
			ws := mLexWords(printed)
			if ws == nil {
				c.Hit("show-corr-skipped:lex")
				continue
			}
			cases = append(cases, kase{toks, "ok " + strings.Join(ws, " "), []string{"min", "full", "parens-dropped"}[vi]})
		}
	}
	reqs := make([]string, len(cases))
	for i, k := range cases {
		reqs[i] = "show 0 " + strings.Join(k.toks, " ") + " }"
	}
	answers := c.LeanBatch(reqs)
	for i, k := range cases {
		if answers[i] == "err unsupported" || answers[i] == "bad-token" {
			c.Hit("show-corr-skipped:unsupported") // regex literals and builtin calls are outside the model
			continue
		}
		c.Trace()
		c.Hit("show-corr:" + k.class)
		if answers[i] != k.want {
			c.Fail(vh.Failure{Kind: "correspondence", What: "Lean showE and Program.String() print an expression differently",
				Case: map[string]interface{}{"tokens": strings.Join(k.toks, " "), "src": "BEGIN { " + tokText(k.toks) + " }", "request": reqs[i]},
				Got:  "model: " + answers[i], Want: "real: " + k.want})
		}
	}
}

// mAssignRight parses `BEGIN { x0 = <lit> }` and returns the printed literal, and the right-hand side node
func mAssignRight(lit []byte) (printed string, rhs reflect.Value, ok bool) {
	defer func() {
		if r := recover(); r != nil {
			ok = false
		}
	}()
	src := append(append([]byte("BEGIN { x0 = "), lit...), []byte(" }")...)
	prog, err := parser.ParseProgram(src, nil)
	if err != nil {
		return "", reflect.Value{}, false
	}
	s := prog.String()
	const pre, post = "BEGIN {\n    x0 = ", "\n}"
	if !strings.HasPrefix(s, pre) || !strings.HasSuffix(s, post) {
		return "", reflect.Value{}, false
	}
	st := reflect.ValueOf(prog.ResolvedProgram.Program).FieldByName("Begin").Index(0).Index(0)
	for st.Kind() == reflect.Interface || st.Kind() == reflect.Ptr {
		st = st.Elem()
	}
	e := st.FieldByName("Expr")
	for e.Kind() == reflect.Interface || e.Kind() == reflect.Ptr {
		e = e.Elem()
	}
	if e.Type().Name() != "AssignExpr" {
		return "", reflect.Value{}, false
	}
	r := e.FieldByName("Right")
	for r.Kind() == reflect.Interface || r.Kind() == reflect.Ptr {
		r = r.Elem()
	}
	return s[len(pre) : len(s)-len(post)], r, true
}

var mInteresting = []byte{'"', '\\', '/', '\n', '\r', '\t', 0, 1, 7, 0x1f, 0x7f, 0x80, 0xa0, 0xad, 0xc2, 0xe2, 0xed, 0xef, 0xf0, 0xf3, 0xff, '0', '2', 'a', 'f', 'x', 'u', ' '}

func mRandBytes(c *vh.Ctx) []byte {
	n := c.Rng.Intn(9)
	b := make([]byte, n)
	for i := range b {
		switch c.Rng.Intn(4) {
		case 0:
			b[i] = byte(c.Rng.Intn(256))
		case 1:
			b[i] = byte(0x20 + c.Rng.Intn(0x5f))
		default:
			b[i] = mInteresting[c.Rng.Intn(len(mInteresting))]
		}
	}
	if c.Rng.Intn(4) == 0 { // a valid multi-byte rune somewhere
		rs := []rune{0x80, 0xa0, 0xad, 0x100, 0x2028, 0xfeff, 0xfffd, 0x10000, 0xe0001, 0x10ffff, 0x20ac, 0x3b1}
		b = append(b, []byte(string(rs[c.Rng.Intn(len(rs))]))...)
		if c.Rng.Intn(2) == 0 {
			b = append(b, mInteresting[c.Rng.Intn(len(mInteresting))])
		}
	}
	return b
}

func corrQuote(c *vh.Ctx) {
	var reqs []string
	type chk struct {
		what, want string
		s          []byte
	}
	var chks []chk
	add := func(req, what, want string, s []byte) {
		reqs = append(reqs, req)
		chks = append(chks, chk{what, want, s})
	}
	n := c.N(3000, 60000)
	for i := 0; i < n+256; i++ {
		var s []byte
		if i < 256 {
			s = []byte{byte(i)}
		} else {
			s = mRandBytes(c)
		}
		// source literal with every byte hex-escaped
		var lit strings.Builder
		lit.WriteByte('"')
		for _, b := range s {
			fmt.Fprintf(&lit, `\x%02x`, b)
		}
		lit.WriteByte('"')
		printed, rhs, ok := mAssignRight([]byte(lit.String()))
		if !ok || rhs.Type().Name() != "StrExpr" {
			c.Hit("quote-corr-skipped")
			continue
		}
		if got := rhs.FieldByName("Value").String(); got != string(s) {
			c.Hit("quote-corr-skipped:value")
			continue
		}
		var cps []string
		for i := 0; i < len(s); {
			r, size := utf8.DecodeRune(s[i:])
			if !(r == utf8.RuneError && size == 1) && r >= 0x80 && strconv.IsPrint(r) {
				cps = append(cps, strconv.Itoa(int(r)))
			}
			i += size
		}
		add(strings.TrimSpace("quote "+vh.Hx(s)+" "+strings.Join(cps, " ")), "Lean quote vs the printed string literal", vh.HxS(printed), s)
		// the real lexer on the printed literal
		_, rhs2, ok2 := mAssignRight([]byte(printed))
		want := "err"
		if ok2 && rhs2.Type().Name() == "StrExpr" {
			want = vh.HxS(rhs2.FieldByName("Value").String())
		}
		add("unquote "+vh.HxS(printed), "Lean lexString vs the lexer on the printed string literal", want, s)
	}
	// regexes
	reAlphabet := []string{"a", "b", "/", `\/`, `\\`, `\.`, `\"`, `"`, "[", "]", ".", "*", "+", "(", ")", "|", "^", "$", "=", " ", `\n`, "\xc3\xa9", "\xff", "0"}
	for i, m := 0, c.N(1500, 30000); i < m; i++ {
		var src strings.Builder
		src.WriteByte('/')
		for k, l := 0, 1+c.Rng.Intn(6); k < l; k++ {
			a := reAlphabet[c.Rng.Intn(len(reAlphabet))]
			if a == "/" {
				a = `\/`
			}
			src.WriteString(a)
		}
		src.WriteByte('/')
		printed, rhs, ok := mAssignRight([]byte(src.String()))
		if !ok || rhs.Type().Name() != "RegExpr" {
			c.Hit("regex-corr-skipped")
			continue
		}
		val := rhs.FieldByName("Regex").String()
		add("lexre "+vh.HxS(src.String()), "Lean lexRegex vs the lexer's regex value", vh.HxS(val), []byte(src.String()))
		add("fmtre "+vh.HxS(val), "Lean formatRegex vs the printed regex literal", vh.HxS(printed), []byte(val))
	}
	answers := c.LeanBatch(reqs)
	for i, k := range chks {
		c.Trace()
		c.Hit("quote-corr:" + strings.Fields(reqs[i])[0])
		if answers[i] != k.want {
			c.Fail(vh.Failure{Kind: "correspondence", What: k.what,
				Case: map[string]interface{}{"bytes_hex": vh.Hx(k.s), "request": reqs[i]}, Got: "model: " + answers[i], Want: "real: " + k.want})
		}
	}
}

// corr compares the Lean model with the real code (model correspondence).
func corr(c *vh.Ctx) {
	if !c.HasLean() {
		return
	}
	corrShow(c)
	corrQuote(c)
	corrStmt(c)
	corrSimple(c)
	corrItems(c)
	corrNumLaws(c)
}
