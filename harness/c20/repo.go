package main

// (f) the repository's own corpus: every string literal of the Go test tables and the AWK files under testdata.

import (
	"go/ast"
	goparser "go/parser"
	"go/token"
	"os"
	"path/filepath"
	"sort"
	"strconv"
)

func repoDir() string {
	if d := os.Getenv("VERIF_REPO"); d != "" {
		return d
	}
	return "/repo"
}

func genRepo(r *runner) {
	root := repoDir()
	for _, f := range []string{"interp/interp_test.go", "parser/parser_test.go", "goawk_test.go", "lexer/lexer_test.go", "interp/example_test.go", "interp/newexecute_test.go"} {
		path := filepath.Join(root, f)
		fset := token.NewFileSet()
		file, err := goparser.ParseFile(fset, path, nil, 0)
		if err != nil {
			r.c.Hit("repo-missing:" + f)
			continue
		}
		ast.Inspect(file, func(n ast.Node) bool {
			if lit, ok := n.(*ast.BasicLit); ok && lit.Kind == token.STRING {
				if s, err := strconv.Unquote(lit.Value); err == nil && s != "" {
					r.addSrc("repo-tests", s)
				}
			}
			return true
		})
	}
	for _, pat := range []string{"testdata/*.awk", "testdata/gawk/*.awk", "testdata/t.*", "testdata/p.*", "testdata/tt.*"} {
		files, _ := filepath.Glob(filepath.Join(root, pat))
		sort.Strings(files)
		for _, f := range files {
			b, err := os.ReadFile(f)
			if err == nil {
				r.addSrc("repo-testdata", string(b))
			}
		}
	}
}
