package main

// A reader / normaliser / printer for the S-expression format of vh.DumpTree (see harness/vh/dump.go):
//
//	(TypeName f1 f2 ...)   struct        [ e1 e2 ... ]  slice        nil        atoms: s:<hex> f:<bits> #<tok> true false 123
//
// The closing parenthesis of a struct is glued to the last token, every other token is separated by one space.

import (
	"fmt"
	"math"
	"strconv"
	"strings"
)

type sx struct {
	kind byte   // 'S' struct, 'L' list, 'A' atom
	name string // struct type name, or atom text
	kids []*sx
}

func sxParse(s string) (n *sx, err error) {
	defer func() {
		if r := recover(); r != nil {
			n, err = nil, fmt.Errorf("sexp: %v", r)
		}
	}()
	words := strings.Split(s, " ")
	// stack based
	type frame struct{ n *sx }
	var stack []*sx
	var root *sx
	add := func(x *sx) {
		if len(stack) == 0 {
			if root != nil {
				panic("two roots")
			}
			root = x
			return
		}
		top := stack[len(stack)-1]
		top.kids = append(top.kids, x)
	}
	for _, w := range words {
		if w == "" {
			panic("empty word")
		}
		// count trailing ')' (an atom never ends with ')' in a syntax tree: token names in the tree are operators and
		// builtin names, strings are hex)
		closes := 0
		for len(w) > 0 && w[len(w)-1] == ')' && !(len(w) == 2 && w[0] == '#') {
			w = w[:len(w)-1]
			closes++
		}
		switch {
		case w == "":
			// a struct without fields: "(Name" followed directly by ")" is written "(Name)" and handled below
		case w[0] == '(' && len(w) > 1:
			x := &sx{kind: 'S', name: w[1:]}
			add(x)
			stack = append(stack, x)
		case w == "[":
			x := &sx{kind: 'L'}
			add(x)
			stack = append(stack, x)
		case w == "]":
			if len(stack) == 0 || stack[len(stack)-1].kind != 'L' {
				panic("unbalanced ]")
			}
			stack = stack[:len(stack)-1]
		default:
			add(&sx{kind: 'A', name: w})
		}
		for ; closes > 0; closes-- {
			if len(stack) == 0 || stack[len(stack)-1].kind != 'S' {
				panic("unbalanced )")
			}
			stack = stack[:len(stack)-1]
		}
	}
	if len(stack) != 0 || root == nil {
		panic("unbalanced")
	}
	return root, nil
}

func (n *sx) write(b *strings.Builder) {
	switch n.kind {
	case 'A':
		b.WriteString(n.name)
	case 'L':
		b.WriteString("[")
		for _, k := range n.kids {
			b.WriteByte(' ')
			k.write(b)
		}
		b.WriteString(" ]")
	case 'S':
		b.WriteString("(" + n.name)
		for _, k := range n.kids {
			b.WriteByte(' ')
			k.write(b)
		}
		b.WriteString(")")
	}
}

func (n *sx) String() string {
	var b strings.Builder
	n.write(&b)
	return b.String()
}

// stmtsFields: for each struct type, the positions (among the dumped fields, positions omitted) whose Go type is
// ast.Stmts and for which the printer writes "{ ... }" whether the list is nil or empty. Action.Stmts is NOT in the
// table: a nil action body ("pattern" alone, meaning print) and an empty one ("pattern { }") are different programs
// and the printer keeps them apart.
var stmtsFields = map[string][]int{
	"IfStmt":      {1, 2}, // Cond Body Else
	"ForStmt":     {3},    // Pre Cond Post Body
	"ForInStmt":   {2},    // Var Array Body
	"WhileStmt":   {1},    // Cond Body
	"DoWhileStmt": {0},    // Body Cond
	"BlockStmt":   {0},    // Body
	"Function":    {2},    // Name Params Body
}

// numNorm maps f:<bits> to the bits of the float read back from its %.6g text (Inf and NaN stay).
func numNorm(atom string) string {
	if !strings.HasPrefix(atom, "f:") {
		return atom
	}
	bits, err := strconv.ParseUint(atom[2:], 16, 64)
	if err != nil {
		return atom
	}
	f := math.Float64frombits(bits)
	if math.IsInf(f, 0) || math.IsNaN(f) {
		return atom
	}
	g, err := strconv.ParseFloat(strconv.FormatFloat(f, 'g', 6, 64), 64)
	if err != nil {
		return atom
	}
	if g == 0 {
		g = 0 // -0 cannot come out of the parser; keep +0
	}
	return fmt.Sprintf("f:%016x", math.Float64bits(g))
}

// sxNorm is the property's `norm`: GroupingExpr erased, numeric literals to six significant digits, nil statement
// list = empty statement list. kinds (optional) receives the struct names met (before erasure).
func sxNorm(n *sx, kinds map[string]int) *sx {
	switch n.kind {
	case 'A':
		return n
	case 'L':
		out := &sx{kind: 'L', kids: make([]*sx, len(n.kids))}
		for i, k := range n.kids {
			out.kids[i] = sxNorm(k, kinds)
		}
		return out
	}
	if kinds != nil {
		kinds[n.name]++
	}
	if n.name == "GroupingExpr" && len(n.kids) == 1 {
		return sxNorm(n.kids[0], kinds)
	}
	out := &sx{kind: 'S', name: n.name, kids: make([]*sx, len(n.kids))}
	for i, k := range n.kids {
		out.kids[i] = sxNorm(k, kinds)
	}
	switch n.name {
	case "NumExpr":
		if len(out.kids) == 1 && out.kids[0].kind == 'A' {
			out.kids[0] = &sx{kind: 'A', name: numNorm(out.kids[0].name)}
		}
	case "Program":
		// Begin and End are []Stmts: each element is a statement list
		for _, idx := range []int{0, 2} {
			if idx < len(out.kids) && out.kids[idx].kind == 'L' {
				for j, e := range out.kids[idx].kids {
					if e.kind == 'A' && e.name == "nil" {
						out.kids[idx].kids[j] = &sx{kind: 'L'}
					}
				}
			}
		}
	}
	for _, idx := range stmtsFields[n.name] {
		if idx < len(out.kids) && out.kids[idx].kind == 'A' && out.kids[idx].name == "nil" {
			out.kids[idx] = &sx{kind: 'L'}
		}
	}
	return out
}

// sxStrings collects the values (hex) of every (StrExpr s:.. regex?) and (RegExpr s:..) in order.
func sxStrings(n *sx, strs, regexes *[]string) {
	if n.kind == 'S' {
		switch n.name {
		case "StrExpr":
			if len(n.kids) == 2 {
				v := strings.TrimPrefix(n.kids[0].name, "s:")
				if n.kids[1].name == "true" {
					*regexes = append(*regexes, v)
				} else {
					*strs = append(*strs, v)
				}
			}
		case "RegExpr":
			if len(n.kids) == 1 {
				*regexes = append(*regexes, strings.TrimPrefix(n.kids[0].name, "s:"))
			}
		}
	}
	for _, k := range n.kids {
		sxStrings(k, strs, regexes)
	}
}

// firstDiff gives a short window around the first difference of two texts.
func firstDiff(a, b string) (string, string) {
	i := 0
	for i < len(a) && i < len(b) && a[i] == b[i] {
		i++
	}
	lo := i - 60
	if lo < 0 {
		lo = 0
	}
	cut := func(s string) string {
		hi := i + 100
		if hi > len(s) {
			hi = len(s)
		}
		if lo > len(s) {
			return ""
		}
		return s[lo:hi]
	}
	return cut(a), cut(b)
}
