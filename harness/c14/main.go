package main

// C14 — a reused Interpreter behaves like a fresh one.
//
// Implementation-side oracle (no model in the loop):
//   O1  any history of Execute/ExecuteContext calls on one Interpreter, then ResetVars + ResetRand, then a probe run:
//       output, files written, exit status and error equal those of the same probe run on a newly created interpreter
//       (interp.ExecProgram, and New + the same entry point).
//   O2  the same without ResetVars/ResetRand, for probe runs that read no variable, array or random number:
//       record state, NR, header names, modes and exit status never carry over.
// Correspondence: the Lean state machine (GoawkModel.C14) predicts output/status/error kind of every run of a history
// of the operation-script program, with and without the reset calls (what carries over = variables, arrays, generator).

import (
	"bytes"
	"context"
	"errors"
	"fmt"
	"io"
	"os"
	"path/filepath"
	"runtime/debug"
	"runtime/pprof"
	"sort"
	"strings"
	"sync"
	"sync/atomic"
	"time"

	"github.com/benhoyt/goawk/interp"
	"github.com/benhoyt/goawk/parser"

	"verifharness/vh"
)

// ---- one Execute call --------------------------------------------------------------------------------

type c14Run struct {
	Entry        string   `json:"entry"` // exec | bg (ExecuteContext(Background)) | live | pre (cancelled before the call) | expired
	NilConfig    bool     `json:"nil_config,omitempty"`
	Input        string   `json:"input"`
	Vars         []string `json:"vars,omitempty"`
	Args         []string `json:"args,omitempty"`
	Env          []string `json:"env,omitempty"` // besides D (scratch directory)
	InputMode    int      `json:"input_mode,omitempty"`
	Header       bool     `json:"header,omitempty"`
	OutputMode   int      `json:"output_mode,omitempty"`
	Chars        bool     `json:"chars,omitempty"`
	NoExec       bool     `json:"no_exec,omitempty"`
	NoFileWrites bool     `json:"no_file_writes,omitempty"`
	NoFileReads  bool     `json:"no_file_reads,omitempty"`
}

type c14Case struct {
	Prog    string   `json:"prog"`
	History []c14Run `json:"history"`
	Reset   bool     `json:"reset_vars_and_rand"`
	Probe   c14Run   `json:"probe"`
}

type c14Out struct {
	Out    string
	Status int
	Err    string
	Kind   string // none | divzero | nonames | cancelled | config | other
	Panic  string
}

func (o c14Out) String() string {
	return fmt.Sprintf("status=%d err=%q panic=%q out=%q", o.Status, o.Err, o.Panic, o.Out)
}

// c14Interp is one interpreter instance (reused or fresh) with its own native functions and scratch directory.
type c14Interp struct {
	prog   *parser.Program
	in     *interp.Interpreter
	funcs  map[string]any
	cancel context.CancelFunc // cancel function of the run in progress (nil: not cancellable)
	dir    string
}

var c14DirSeq int64
var c14Root = filepath.Join(os.TempDir(), fmt.Sprintf("c14_%d", os.Getpid()))

func c14NewInterp(src string, withNew bool) *c14Interp {
	ci := &c14Interp{}
	ci.funcs = map[string]any{
		"cancel": func() int {
			if ci.cancel == nil {
				return 0
			}
			ci.cancel()
			return 1
		},
	}
	prog, err := parser.ParseProgram([]byte(src), &parser.ParserConfig{Funcs: ci.funcs})
	if err != nil {
		panic(fmt.Sprintf("harness program does not parse: %v\n%s", err, src))
	}
	ci.prog = prog
	if withNew {
		ci.in, _ = interp.New(prog)
	}
	ci.dir = filepath.Join(c14Root, fmt.Sprint(atomic.AddInt64(&c14DirSeq, 1)))
	return ci
}

func (ci *c14Interp) cleanup() { os.RemoveAll(ci.dir) }

// run executes one call. With ci.in == nil it uses interp.ExecProgram (only for Entry == "exec").
func (ci *c14Interp) run(r c14Run) (res c14Out) {
	// child processes write to Config.Output / Config.Error from goroutines of os/exec, hence locked writers (an unlocked
	// bytes.Buffer loses data when `print | "cmd"` is open while the program prints: recorded finding F25, property C13)
	var out c14LockedBuf
	var errOut c14LockedBuf
	var cfg *interp.Config
	usesFiles := false
	for _, e := range r.Env {
		if e == "files" {
			usesFiles = true
		}
	}
	if usesFiles {
		os.MkdirAll(ci.dir, 0o755)
	}
	if !r.NilConfig {
		cfg = &interp.Config{
			Stdin: strings.NewReader(r.Input), Output: &out, Error: &errOut,
			Vars: r.Vars, Args: r.Args, Funcs: ci.funcs,
			Environ:   append([]string{"D", ci.dir}, r.Env...),
			InputMode: interp.IOMode(r.InputMode), CSVInput: interp.CSVInputConfig{Header: r.Header},
			OutputMode: interp.IOMode(r.OutputMode), Chars: r.Chars,
			NoExec: r.NoExec, NoFileWrites: r.NoFileWrites, NoFileReads: r.NoFileReads,
		}
		if len(cfg.Environ)%2 != 0 {
			cfg.Environ = append(cfg.Environ, "")
		}
	}
	ctx := context.Background()
	ci.cancel = nil
	switch r.Entry {
	case "live":
		c, cancel := context.WithCancel(context.Background())
		ctx, ci.cancel = c, cancel
		defer cancel()
	case "pre":
		c, cancel := context.WithCancel(context.Background())
		cancel()
		ctx = c
	case "expired":
		c, cancel := context.WithDeadline(context.Background(), time.Now().Add(-time.Second))
		defer cancel()
		ctx = c
	}
	defer func() {
		if p := recover(); p != nil {
			res.Panic = fmt.Sprint(p)
			res.Out = out.String()
		}
	}()
	var status int
	var err error
	switch {
	case ci.in == nil:
		status, err = interp.ExecProgram(ci.prog, cfg)
	case r.Entry == "exec":
		status, err = ci.in.Execute(cfg)
	default:
		status, err = ci.in.ExecuteContext(ctx, cfg)
	}
	res.Status = status
	res.Out = out.String()
	res.Kind = "none"
	if err != nil {
		res.Err = strings.ReplaceAll(err.Error(), ci.dir, "$D")
		switch {
		case errors.Is(err, context.Canceled) || errors.Is(err, context.DeadlineExceeded):
			res.Kind = "cancelled"
		case strings.Contains(res.Err, "division by zero"):
			res.Kind = "divzero"
		case strings.Contains(res.Err, "no field names"):
			res.Kind = "nonames"
		case strings.Contains(res.Err, "invalid input mode"):
			res.Kind = "config"
		default:
			res.Kind = "other"
		}
	}
	if e := errOut.String(); e != "" {
		res.Out += "\n[stderr]" + e
	}
	res.Out = strings.ReplaceAll(res.Out, ci.dir, "$D")
	if usesFiles {
		// files written belong to the observable result
		ents, _ := os.ReadDir(ci.dir)
		names := []string{}
		for _, e := range ents {
			names = append(names, e.Name())
		}
		sort.Strings(names)
		for _, n := range names {
			b, _ := os.ReadFile(filepath.Join(ci.dir, n))
			res.Out += fmt.Sprintf("\n[file %s]%s", n, b)
		}
	}
	return res
}

type c14LockedBuf struct {
	mu sync.Mutex
	b  bytes.Buffer
}

func (l *c14LockedBuf) Write(p []byte) (int, error) {
	l.mu.Lock()
	defer l.mu.Unlock()
	return l.b.Write(p)
}
func (l *c14LockedBuf) String() string {
	l.mu.Lock()
	defer l.mu.Unlock()
	return l.b.String()
}

// wipe removes the files a run left behind, so that the probe run of the reused interpreter starts from the same
// file system as the fresh one (files are the world, not interpreter state).
func (ci *c14Interp) wipe() { os.RemoveAll(ci.dir) }

// ---- programs ------------------------------------------------------------------------------------------

const c14OpsProg = `
function setg(i, v) { if (i == 0) g0 = v; else if (i == 1) g1 = v; else g2 = v }
function deep(n, v,    la) { la[n] = v; if (n > 0) return deep(n - 1, v) + 1; return 1 / v }
function runops(script,    n, ops, i, w, k) {
  n = split(script, ops, " ")
  for (i = 1; i <= n; i++) {
    split(ops[i], w, ":")
    k = w[1]
    if (k == "g") setg(w[2] + 0, w[3])
    else if (k == "a") A[w[2]] = w[3]
    else if (k == "d") delete A[w[2]]
    else if (k == "ofs") OFS = w[2]
    else if (k == "cf") CONVFMT = w[2]
    else if (k == "fs") FS = (w[2] == "c" ? "," : " ")
    else if (k == "nr") NR = w[2] + 0
    else if (k == "rec") $0 = w[2]
    else if (k == "gl") getline
    else if (k == "gd") getline g2 < "-"
    else if (k == "m") match(sprintf("%" w[2] "s", "b"), /b/)
    else if (k == "rx") print "rx " (("k" w[2]) ~ ("^k" w[2] "$"))
    else if (k == "sr") srand(w[2] + 0)
    else if (k == "rn") printf "rnd %.10g\n", rand()
    else if (k == "nm") print "N " @(w[2])
    else if (k == "x") exit w[2] + 0
    else if (k == "err") deep(3, 0)
    else if (k == "cn") { if (cancel()) while (1) {} }
    else if (k == "p") {
      print "Q", "r"
      print "P " NR " " FNR " " NF " " $0 "|" g0 "|" g1 "|" g2 "|" (1 in A ? A[1] : "-") "|" (2 in A ? A[2] : "-") "|" OFS "|" CONVFMT "|" RSTART "|" INPUTMODE
    }
    else if (k == "pp") print "PP " NR " " FNR " " $0 "|" RSTART "|" RLENGTH "|" INPUTMODE "|" OUTPUTMODE "|" FILENAME "|" ARGC
  }
}
BEGIN { runops(ENVIRON["B"]) }
/^s/, /^e/ { print "R " NR }
{ runops(ENVIRON["M"]) }
END { runops(ENVIRON["E"]) }
`

// hand-written programs; K (ENVIRON) selects a behaviour, D is the scratch directory
var c14Progs = []string{
	`BEGIN { n = 10 } { s += $1; a[NR] = $0; if ($1 == "boom") x = 1/zero } END { print s, NR, length(a), n, FILENAME, NF, $0, RSTART, RLENGTH, x; exit s }`,
	`function f(k) { if (k > 3) { y = 1/zero }; return f(k+1) } { print NR, $2, @"b"; c++ } $1=="deep" { f(0) } END { print c, rand() < 2, FIELDS[1], RT "|" }`,
	`{ while ((getline line) > 0) cnt++; print cnt, NR, $0 } END { match("xxab", /ab/); print RSTART, OFS "|" FS "|" ORS; OFS = "-"; CONVFMT = "%.2g"; $3 = "z"; print; print 3.14159 "" }`,
	`BEGIN { getline; print "first", $0, NF; r = rand(); srand(5) } { u[$1]++ } END { n = 0; for (k in u) n++; print n, NR, INPUTMODE "|" OUTPUTMODE; print 1, "a b"; print rand() }`,
	`NR==2 { exit 7 } { print $1; next } END { print "end", $0 }`,
	`BEGIN { f = ENVIRON["D"] "/out.txt"; print "b" NR > f; if (ENVIRON["K"] == "err") x = 1/zero } { print $0 >> f; print $1 > (ENVIRON["D"] "/second") } END { close(f); while ((getline l < f) > 0) print "read", l; print (getline l < (ENVIRON["D"] "/missing")) }`,
	`/start/,/stop/ { print "in", $0 } { printf "%5.2f|%c|%s\n", $1, $2, length($2); if ($0 ~ pat) m++ } END { print m+0, length(pat), substr("héllo", 2, 2), index("héllo", "l"); printf "%c%c\n", 233, "é" }`,
	`BEGIN { if (ENVIRON["K"] == "cancel") { print "before"; if (cancel()) while (1) i++ } } { n++; if ($1 == "boom") { if (cancel()) while (1) j++ } } END { print n+0, i+0, j+0, NR, $0 }`,
	`BEGIN { if (ENVIRON["K"] == "mode") { INPUTMODE = "csv header"; OUTPUTMODE = "tsv" } } { print $1, @"a"; print NF } END { print INPUTMODE "|" OUTPUTMODE; print "x y", "z" }`,
	`BEGIN { "echo hi" | getline x; print x; system("echo sys"); print "p" | "cat"; close("cat"); print ENVIRON["K"] } END { print NR }`,
	`function rd(f,   l, n) { while ((getline l < f) > 0) { n++; if (l == "err") return 1/zero } return n } BEGIN { f = ENVIRON["D"] "/in.txt"; printf "a\nb\n%s\nc\n", ENVIRON["K"] > f; close(f); print rd(f); print rd(f); exit ENVIRON["K"] == "mode" ? 4 : 0 }`,
	`BEGIN { print ARGC, ARGV[1], ARGV[2], length(ARGV); SUBSEP = ":"; a[1,2] = 3; for (k in a) print k; print length(u), u1 == 0, u1 == "" } { t[$1]; if (NR == 1) RS = ";" } END { print length(t), x, NR; print FNR, FILENAME }`,
	`BEGIN { if (ENVIRON["K"] == "err") { getline; $5 = "e"; NF = 7; while (i++ < 3) for (k in ENVIRON) if (i == 2) print substr("x", 1, 1/zero) } } { $2 = "c"; print; print NF } END { print $0, NF, NR }`,
	`BEGIN { printf "%s", "" > "/dev/stderr"; if (ENVIRON["K"] == "mode") { RS = ""; FS = "x" } } { n += NF; last = $NF } END { print n, last, RT == "\n", length(RT) }`,
	// streams: standard input read through "-" (its own scanner in the stream table) before, and after, the main loop
	`BEGIN { if (ENVIRON["K"] != "mode") { if ((getline l < "-") > 0) print "first", l; if (ENVIRON["K"] == "err") x = 1/zero } } { print "main", $0; if ($1 == "boom") exit 2 } END { n = 0; while ((getline l < "-") > 0) { n++; last = l }; print n, NR, last }`,
	// streams left open: an input file read partly, output files written with > and >> and never closed
	`BEGIN { d = ENVIRON["D"]; f = d "/in.txt"; k = ENVIRON["K"]; printf "%s1\n%s2\n%s3\n", k, k, k > f; close(f); getline a < f; print "got", a; print "o1" NR > (d "/out1"); print "o2" k >> (d "/out2"); if (k == "err") x = 1/zero; if (k == "cancel") exit 5 } { getline b < f; print "rec", b; print $0 > (d "/out1") } END { print (getline c < f), c }`,
	// range patterns (two rules, one combined with another condition); inputs may end inside a range
	`/start/,/stop/ { print "r1", NR, $0 } NR > 1 && /mid|x/, /after|^3/ { print "r2", $0 } $1 == "boom" { exit 3 } $1 == "deep" { y = 1/zero } $1 == "q" { if (cancel()) while (1) i++ } END { print NR }`,
	// input mode switched at run time after the main scanner exists (G14-1, repaired in d5c3fe1: csvFields of an earlier run)
	`BEGIN { if (ENVIRON["K"] == "mode") { getline line; INPUTMODE = "csv" } } $1 == "boom" { INPUTMODE = "tsv" } { print NF, $1 } END { print INPUTMODE "|" NR }`,
}

// which programs touch the file system / run commands (kept rarer: slower)
// program 9 runs commands: what a child process does with the shared stdin and when its output arrives is scheduling, not
// interpreter state, so it is only used in the serial corpus (empty stdin), never in the parallel random histories
var c14ProgWeight = []int{6, 8, 5, 6, 4, 1, 5, 6, 8, 0, 1, 5, 5, 4, 8, 2, 8, 8}

var c14Inputs = []string{"", "1 2\n3 4\n", "a,b\n1,2\nboom,x\n", "deep 1\nq r s\n", "b,a\n\"x y\",2\n", "5\n6\n7\n",
	"start\nmid x\nstop\nafter\n", "boom\n1\n", "a;b;c\n\nd\n\n\ne x f\n",
	// inputs that end inside a range, or have records before the first start
	"start\nmid x\n", "x\nstart\n", "after\nq\nstart\nboom\nzz\n", "s1\nstart\ndeep 1\n", "old1\nold2\nold3\n"}

func c14GenRun(c *vh.Ctx, prog int) c14Run {
	r := c.Rng
	run := c14Run{Entry: "exec", Input: c14Inputs[r.Intn(len(c14Inputs))]}
	switch r.Intn(10) {
	case 0:
		run.Entry = "bg"
	case 1, 2:
		run.Entry = "live"
	case 3:
		run.Entry = "pre"
	case 4:
		if r.Intn(2) == 0 {
			run.Entry = "expired"
		}
	}
	switch r.Intn(6) {
	case 0:
		run.InputMode = 1
		run.Header = r.Intn(3) != 0
	case 1:
		run.InputMode = 2
		run.Header = r.Intn(2) == 0
	case 2:
		run.Vars = append(run.Vars, "FS", ",")
	case 3:
		run.Vars = append(run.Vars, "OFS", "-", "ORS", "!\n")
	}
	if r.Intn(4) == 0 {
		run.OutputMode = 1 + r.Intn(2)
	}
	if r.Intn(4) == 0 {
		run.Vars = append(run.Vars, "zero", "0", "n", "3", "pat", "^[a-z]")
	}
	if r.Intn(12) == 0 {
		run.Vars = append(run.Vars, "CONVFMT", "%.3g", "INPUTMODE", "tsv")
	}
	if r.Intn(25) == 0 {
		run.Vars = append(run.Vars, "x", "9", "INPUTMODE", "bogus") // setExecuteConfig fails after x was set
	}
	if r.Intn(30) == 0 {
		run.Vars = append(run.Vars, "RS") // odd length: fails at once
	}
	switch r.Intn(8) {
	case 0:
		run.Args = []string{"x=1", "-"}
	case 1:
		run.Args = []string{"-", "y=2", "zzz=3"}
	}
	switch r.Intn(5) {
	case 0:
		run.Env = append(run.Env, "K", "err")
	case 1:
		run.Env = append(run.Env, "K", "cancel")
	case 2:
		run.Env = append(run.Env, "K", "mode")
	}
	run.Chars = r.Intn(4) == 0
	if r.Intn(10) == 0 {
		run.NoExec = true
	}
	if r.Intn(14) == 0 {
		run.NoFileWrites = true
	}
	if r.Intn(14) == 0 {
		run.NoFileReads = true
	}
	if strings.Contains(c14Progs[prog], `ENVIRON["D"]`) {
		run.Env = append(run.Env, "files", "1")
	}
	return run
}

// ---- operation scripts (shared with the Lean model) ------------------------------------------------------

type c14OpsCfg struct {
	CSV, Header, VarsFS, BadVar, UseCtx bool
	VarG                                string
	Input                               []string
	B, M, E                             []string
}

func (o c14OpsCfg) run() c14Run {
	r := c14Run{Entry: "exec", Input: strings.Join(o.Input, "\n")}
	if len(o.Input) > 0 {
		r.Input += "\n"
	}
	if o.UseCtx {
		r.Entry = "live"
	}
	if o.CSV {
		r.InputMode = 1
		r.Header = o.Header
	}
	if o.VarsFS {
		r.Vars = append(r.Vars, "FS", ",")
	}
	if o.VarG != "" {
		r.Vars = append(r.Vars, "g1", o.VarG)
	}
	if o.BadVar {
		r.Vars = append(r.Vars, "INPUTMODE", "bogus")
	}
	r.Env = []string{"B", strings.Join(o.B, " "), "M", strings.Join(o.M, " "), "E", strings.Join(o.E, " ")}
	return r
}

func c14Script(ops []string) string {
	if len(ops) == 0 {
		return "-"
	}
	return strings.Join(ops, ";")
}

func (o c14OpsCfg) lean() string {
	b := func(x bool) string {
		if x {
			return "1"
		}
		return "0"
	}
	in := "-"
	if len(o.Input) > 0 {
		in = strings.ReplaceAll(strings.Join(o.Input, "/"), " ", "_")
	}
	g := o.VarG
	if g == "" {
		g = "-"
	}
	return fmt.Sprintf("X %s%s%s%s%s %s %s %s %s %s", b(o.CSV), b(o.Header), b(o.VarsFS), b(o.BadVar), b(o.UseCtx), g, in,
		c14Script(o.B), c14Script(o.M), c14Script(o.E))
}

func c14Pick(c *vh.Ctx, xs ...string) string { return xs[c.Rng.Intn(len(xs))] }

func c14GenOp(c *vh.Ctx, live bool, where string) string {
	for {
		switch c.Rng.Intn(24) {
		case 0, 1:
			return "g:" + fmt.Sprint(c.Rng.Intn(3)) + ":" + c14Pick(c, "v1", "v2", "7")
		case 2, 3:
			return "a:" + c14Pick(c, "1", "2") + ":" + c14Pick(c, "x", "y")
		case 4:
			return "d:" + c14Pick(c, "1", "2")
		case 5:
			return "ofs:" + c14Pick(c, "-", "+")
		case 6:
			return "cf:" + c14Pick(c, "%.3g", "%.2g")
		case 7:
			return "fs:" + c14Pick(c, "c", "s")
		case 8:
			return "nr:" + c14Pick(c, "5", "9")
		case 9:
			return "rec:" + c14Pick(c, "q", "a,b", "x,y,z")
		case 10:
			return "gl"
		case 11:
			return c14Pick(c, "gl", "gd", "gd")
		case 12:
			return "m:" + c14Pick(c, "2", "3")
		case 13:
			return "rx:" + c14Pick(c, "a", "b", "c")
		case 14:
			return "sr:" + c14Pick(c, "2", "3")
		case 15, 16:
			return "rn"
		case 17:
			return "nm:" + c14Pick(c, "a", "b", "zz")
		case 18:
			if c.Rng.Intn(2) == 0 {
				return "x:" + c14Pick(c, "0", "3")
			}
		case 19:
			if c.Rng.Intn(2) == 0 {
				return "err"
			}
		case 20:
			if live && c.Rng.Intn(2) == 0 {
				return "cn"
			}
		default:
			return "p"
		}
	}
}

var c14OpsInputs = [][]string{{}, {"a,b"}, {"a,b", "1,2"}, {"b,a", "x y,2", "3,4"}, {"q r s", "t"}, {"1 2", "3,4", "5"},
	// the range rule `/^s/, /^e/`: inputs that end inside the range, and inputs with records before the first start
	{"s", "x", "e", "y"}, {"x", "s", "y"}, {"s"}, {"e", "s,1", "q r"}, {"y", "z", "s 2", "e"}}

func c14GenOps(c *vh.Ctx, probe bool) c14OpsCfg {
	r := c.Rng
	o := c14OpsCfg{Input: c14OpsInputs[r.Intn(len(c14OpsInputs))]}
	o.CSV = r.Intn(3) == 0
	o.Header = o.CSV && r.Intn(3) != 0
	o.VarsFS = r.Intn(5) == 0
	if r.Intn(5) == 0 {
		o.VarG = c14Pick(c, "w1", "w2")
	}
	o.BadVar = !probe && r.Intn(15) == 0
	o.UseCtx = r.Intn(4) == 0
	n := func(max int) int { return r.Intn(max + 1) }
	for i := n(4); i > 0; i-- {
		o.B = append(o.B, c14GenOp(c, o.UseCtx, "B"))
	}
	for i := n(2); i > 0; i-- {
		o.M = append(o.M, c14GenOp(c, o.UseCtx, "M"))
	}
	for i := n(3); i > 0; i-- {
		o.E = append(o.E, c14GenOp(c, o.UseCtx, "E"))
	}
	if probe {
		o.E = append(o.E, "p", "rn")
		if r.Intn(2) == 0 {
			o.B = append([]string{"p"}, o.B...)
		}
	}
	return o
}

// random numbers → model tokens "seed.count"
var c14RandTok = map[string]string{}

func c14InitRandTable() {
	for seed := 1; seed <= 3; seed++ {
		ci := c14NewInterp(fmt.Sprintf(`BEGIN { srand(%d); for (i = 0; i < 40; i++) printf "%%.10g\n", rand() }`, seed), false)
		res := ci.run(c14Run{Entry: "exec"})
		for i, l := range strings.Split(strings.TrimSpace(res.Out), "\n") {
			c14RandTok["rnd "+l] = fmt.Sprintf("rnd %d.%d", seed, i)
		}
	}
}

func c14CanonOps(out string) string {
	lines := strings.Split(out, "\n")
	for i, l := range lines {
		if t, ok := c14RandTok[l]; ok {
			lines[i] = t
		}
	}
	return strings.TrimSuffix(strings.Join(lines, "\n"), "\n")
}

// ---- the checks -------------------------------------------------------------------------------------------

func c14Same(a, b c14Out) bool {
	return a.Out == b.Out && a.Status == b.Status && a.Err == b.Err && a.Panic == b.Panic
}

// c14Classify names the known-finding class of a failing case ("" = none; F18 is fixed and must not reappear).
func c14Classify(cs c14Case, reused, fresh c14Out) string { return "" }

type c14Verdict struct {
	fail   *vh.Failure
	ends   []string
	dirty  bool
	probeK string
}

// c14CheckCase runs O1/O2 for one case.
func c14CheckCase(cs c14Case) c14Verdict {
	var v c14Verdict
	re := c14NewInterp(cs.Prog, true)
	defer re.cleanup()
	for _, h := range cs.History {
		o := re.run(h)
		k := o.Kind
		if k == "none" && o.Status != 0 {
			k = "exit"
		}
		if o.Panic != "" {
			k = "panic"
		}
		v.ends = append(v.ends, k)
		re.wipe()
	}
	v.dirty = len(cs.History) > 0
	if cs.Reset {
		re.in.ResetVars()
		re.in.ResetRand()
	}
	got := re.run(cs.Probe)
	v.probeK = got.Kind
	// fresh comparators
	f1 := c14NewInterp(cs.Prog, true)
	defer f1.cleanup()
	want := f1.run(cs.Probe)
	if !c14Same(got, want) {
		v.fail = &vh.Failure{Kind: "oracle", What: "probe run on the reused interpreter differs from New + the same call on a fresh interpreter",
			Finding: c14Classify(cs, got, want), Case: cs, Got: got.String(), Want: want.String()}
		return v
	}
	if cs.Probe.Entry == "exec" {
		f2 := c14NewInterp(cs.Prog, false)
		defer f2.cleanup()
		want2 := f2.run(cs.Probe)
		if !c14Same(got, want2) {
			v.fail = &vh.Failure{Kind: "oracle", What: "probe run on the reused interpreter differs from interp.ExecProgram",
				Finding: c14Classify(cs, got, want2), Case: cs, Got: got.String(), Want: want2.String()}
		}
	}
	return v
}

func main() {
	if pf := os.Getenv("C14_PROF"); pf != "" {
		f, _ := os.Create(pf)
		pprof.StartCPUProfile(f)
		defer pprof.StopCPUProfile()
	}
	// every run allocates 64 KiB scanner buffers while the live heap is tiny: with the default GC target the collector would
	// run every few dozen runs and serialise the workers
	debug.SetGCPercent(400)
	vh.Main("C14", runC14)
}

func runC14(c *vh.Ctx) {
	defer os.RemoveAll(c14Root)
	c.Rule("a case is (program, history of 0-4 Execute/ExecuteContext calls each with its own input, Vars, Args, ENVIRON, input/output " +
		"mode incl. CSV header, Chars, sandbox flags, entry point (Execute, ExecuteContext with background / cancellable / cancelled / " +
		"expired context) and ending (normal, exit, error inside a function inside a loop, cancelled from a native function, config error), " +
		"reset or not, probe call); programs: 18 hand-written ones, the operation-script interpreter shared with the Lean model, and " +
		"generated global-free programs of 2-4 functions with mixed local arrays and scalars that report their locals on every entry and " +
		"are left by return, falling off the end, exit, next, nextfile, division by zero, call-depth overflow or cancellation at depth " +
		"0-9 (history: 1-4 runs, at least one preferring to die inside a function, often a run on empty input before the probe); " +
		"non-trivial = the history has at least one run")
	c14InitRandTable()

	// ---- fixed corpus: witnesses of fixed findings and minimised past failures; always run ----
	csvHdr := c14Run{Entry: "exec", Input: "name,age\nBob,3\n", InputMode: 1, Header: true}
	plain := c14Run{Entry: "exec", Input: "x y\n"}
	corpus := []c14Case{
		// F18 (fixed 984841d): header names must not survive into a run without header
		{Prog: `{ print @"name" }`, History: []c14Run{csvHdr}, Reset: true, Probe: c14Run{Entry: "exec", Input: "Bob,3\n", InputMode: 1}},
		{Prog: `{ print @"name" }`, History: []c14Run{csvHdr}, Reset: false, Probe: c14Run{Entry: "exec", Input: "Bob,3\n", InputMode: 1}},
		{Prog: `BEGIN { print @"name" "|" NR }`, History: []c14Run{csvHdr}, Reset: true, Probe: plain},
		{Prog: `{ print @"age" } END { print FIELDS[1] }`, History: []c14Run{csvHdr, csvHdr}, Reset: true, Probe: c14Run{Entry: "exec", Input: "age,name\n1,2\n", InputMode: 1, Header: true}},
		// exit status, NR, $0 after exit / error / cancellation
		{Prog: `NR==2 { exit 7 } END { print NR, $0 }`, History: []c14Run{{Entry: "exec", Input: "a\nb\nc\n"}}, Reset: false, Probe: c14Run{Entry: "exec", Input: "z\n"}},
		{Prog: `function f(n) { if (n == 0) return 1/zero; return f(n-1) } { for (i = 0; i < 3; i++) s += f(5) } END { print NR, s+0 }`,
			History: []c14Run{{Entry: "exec", Input: "a\n"}}, Reset: true, Probe: c14Run{Entry: "exec", Input: "", Vars: []string{"zero", "1"}}},
		{Prog: `BEGIN { if (ENVIRON["K"] == "cancel") { if (cancel()) while (1) i++ } } END { print NR, i+0 }`,
			History: []c14Run{{Entry: "live", Input: "a\n", Env: []string{"K", "cancel"}}}, Reset: true, Probe: plain},
		// modes set at run time do not carry over
		{Prog: `BEGIN { if (ENVIRON["K"] == "mode") INPUTMODE = "csv header" } { print NF, $1 } END { print INPUTMODE "|" }`,
			History: []c14Run{{Entry: "exec", Input: "a,b\n1,2\n", Env: []string{"K", "mode"}}}, Reset: false, Probe: c14Run{Entry: "exec", Input: "a,b\n", Env: []string{"K", ""}}}, // ENVIRON is an array: K must be overwritten
	}
	// G14-1 (introduced by c7bccbd, repaired in d5c3fe1): csvFields of an earlier CSV run was installed as the fields of a
	// record read by a non-CSV scanner; regression case, must pass
	corpus = append(corpus, c14Case{
		Prog:    `BEGIN { if (ENVIRON["K"] == "switch") { getline line; INPUTMODE = "csv" } } { print NF, $1 }`,
		History: []c14Run{{Entry: "exec", Input: "a,b,c\n", InputMode: 1, Env: []string{"K", ""}}}, Reset: true,
		Probe:   c14Run{Entry: "exec", Input: "x\ny z\n", Env: []string{"K", "switch"}}})
	cmdRun := func(entry, k string, noExec bool) c14Run {
		return c14Run{Entry: entry, Input: "", Env: []string{"K", k}, NoExec: noExec}
	}
	corpus = append(corpus,
		c14Case{Prog: c14Progs[9], History: []c14Run{cmdRun("exec", "a", false), cmdRun("live", "b", true)}, Reset: true, Probe: cmdRun("exec", "c", false)},
		c14Case{Prog: c14Progs[9], History: []c14Run{cmdRun("exec", "a", true)}, Reset: false, Probe: cmdRun("bg", "c", false)},
	)
	// command streams left open by an aborted run (serial, empty stdin: a child shares the Stdin reader)
	cmdStreams := `BEGIN { "echo a; echo b" | getline x; print x; print "p" | "cat"; if (ENVIRON["K"] == "err") y = 1/zero; "echo a; echo b" | getline x; print x }`
	corpus = append(corpus,
		c14Case{Prog: cmdStreams, History: []c14Run{cmdRun("exec", "err", false)}, Reset: true, Probe: cmdRun("exec", "", false)},
		c14Case{Prog: cmdStreams, History: []c14Run{cmdRun("live", "err", false), cmdRun("exec", "", false)}, Reset: false, Probe: cmdRun("bg", "", false)},
		// C14-m1 class: the "-" scanner of an earlier run must not feed a later run
		c14Case{Prog: `{ print "main", $0 } END { n = 0; while ((getline l < "-") > 0) print ++n ": " l }`,
			History: []c14Run{{Entry: "exec", Input: ""}}, Reset: true, Probe: plain},
		c14Case{Prog: `BEGIN { while ((getline l < "-") > 0) { print ++n ": " l; if (n == 2) exit } }`,
			History: []c14Run{{Entry: "exec", Input: "old1\nold2\nold3\nold4\n"}}, Reset: true, Probe: c14Run{Entry: "exec", Input: "new1\nnew2\n"}},
		// C14-m3 class: a run that ends inside a range must not leave the next run inside it
		c14Case{Prog: `/start/,/stop/ { print "in", $0 }`, History: []c14Run{{Entry: "exec", Input: "start\nx\n"}}, Reset: true,
			Probe: c14Run{Entry: "exec", Input: "before\nstart\ny\nstop\nafter\n"}},
	)
	// class of seeded C14-p1: a run that dies inside a function which has filled a local array; the probe inspects a local array
	// (no globals in the program: nothing may carry over even without ResetVars; and ResetVars after an intervening run)
	localsProg := `function count(word,    seen, k, c, z) { for (k in seen) c++; seen[word] = 1; seen[word "!"] = 1
  if (word == "boom") return 1 / z; if (word == "quit") exit 3; if (word == "skip") next; for (k in seen) c++; return c }
{ print $1, count($1) } END { print "end", count("e") }`
	for _, first := range []string{"boom\n", "a\nquit\n", "skip\nboom\n"} {
		corpus = append(corpus,
			c14Case{Prog: localsProg, History: []c14Run{{Entry: "exec", Input: first}}, Reset: false, Probe: c14Run{Entry: "exec", Input: "a\nb\n"}},
			c14Case{Prog: localsProg, History: []c14Run{{Entry: "exec", Input: first}, {Entry: "exec", Input: ""}}, Reset: true, Probe: c14Run{Entry: "exec", Input: "a\nb\n"}})
	}
	type job struct {
		cs   c14Case
		kind string
	}
	var jobs []job
	nCorpus := len(corpus)
	for _, cs := range corpus {
		jobs = append(jobs, job{cs, "corpus"})
	}

	// ---- O1: hand-written programs, random histories, with reset ----
	total := 0
	for _, w := range c14ProgWeight {
		total += w
	}
	pickProg := func() int {
		x := c.Rng.Intn(total)
		for i, w := range c14ProgWeight {
			if x < w {
				return i
			}
			x -= w
		}
		return 0
	}
	for i := c.N(6000, 120000); i > 0; i-- {
		p := pickProg()
		cs := c14Case{Prog: c14Progs[p], Reset: true}
		for k := c.Rng.Intn(5); k > 0; k-- {
			cs.History = append(cs.History, c14GenRun(c, p))
		}
		cs.Probe = c14GenRun(c, p)
		jobs = append(jobs, job{cs, fmt.Sprintf("hand:%02d", p)})
	}
	// ---- O1 on the operation-script program; O2: no reset, variable-free probes ----
	for i := c.N(3000, 60000); i > 0; i-- {
		cs := c14Case{Prog: c14OpsProg, Reset: c.Rng.Intn(2) == 0}
		for k := c.Rng.Intn(4); k > 0; k-- {
			cs.History = append(cs.History, c14GenOps(c, false).run())
		}
		pr := c14GenOps(c, true)
		if !cs.Reset {
			// variable-free probe: only per-run observations
			pr.VarsFS, pr.VarG = false, ""
			vf := func(n int) []string {
				var ops []string
				for ; n > 0; n-- {
					ops = append(ops, c14Pick(c, "pp", "pp", "gl", "gd", "nm:a", "nm:b", "m:2", "nr:5", "rec:q", "x:3", "err"))
				}
				return ops
			}
			pr.B, pr.M, pr.E = append(vf(c.Rng.Intn(3)), "pp"), vf(c.Rng.Intn(2)), append(vf(c.Rng.Intn(2)), "pp")
		}
		cs.Probe = pr.run()
		kind := "ops:reset"
		if !cs.Reset {
			kind = "ops:noreset-varfree"
		}
		jobs = append(jobs, job{cs, kind})
	}

	// ---- locals of user functions after runs that were cut short inside functions (locals.go); with and without reset ----
	for i := c.N(1500, 30000); i > 0; i-- {
		cs := genLocalsCase(c.Rng)
		kind := "locals:reset"
		if !cs.Reset {
			kind = "locals:noreset-global-free"
		}
		jobs = append(jobs, job{cs, kind})
	}

	t0 := time.Now()
	lap := func(what string) {
		if os.Getenv("C14_TIMING") != "" {
			fmt.Fprintf(os.Stderr, "c14 timing: %-28s %6.2fs\n", what, time.Since(t0).Seconds())
		}
	}
	lap("generated")
	verdicts := make([]c14Verdict, len(jobs))
	for i := 0; i < nCorpus; i++ {
		verdicts[i] = c14CheckCase(jobs[i].cs)
	}
	durs := make([]time.Duration, len(jobs))
	vh.Parallel(len(jobs)-nCorpus, func(i int) {
		t := time.Now()
		verdicts[nCorpus+i] = c14CheckCase(jobs[nCorpus+i].cs)
		durs[nCorpus+i] = time.Since(t)
	})
	if os.Getenv("C14_TIMING") != "" {
		per := map[string]time.Duration{}
		for i, j := range jobs {
			per[j.kind] += durs[i]
		}
		for k, d := range per {
			fmt.Fprintf(os.Stderr, "c14 timing: kind %-22s %8.2fs\n", k, d.Seconds())
		}
	}
	lap("oracle runs done")
	for i, j := range jobs {
		v := verdicts[i]
		key := fmt.Sprint(j.cs)
		c.Eval(key, v.dirty)
		c.OracleCase()
		c.Hit("oracle:" + j.kind)
		c.Hit(fmt.Sprintf("history-length:%d", len(j.cs.History)))
		for _, e := range v.ends {
			c.Hit("history-run-ended:" + e)
		}
		for _, h := range j.cs.History {
			c.Hit("history-entry:" + h.Entry)
		}
		c.Hit("probe-entry:" + j.cs.Probe.Entry)
		c.Hit("probe-ended:" + v.probeK)
		if i%1499 == 0 {
			c.Sample(j.cs)
		}
		if v.fail != nil {
			c.Fail(*v.fail)
		}
	}

	// ---- correspondence with the Lean model: histories of the operation-script program ----
	if c.HasLean() {
		nCorr := c.N(3000, 60000)
		type corr struct {
			calls []string     // RV | RR | X
			cfgs  []c14OpsCfg  // for X calls
			outs  []c14Out     // real results of X calls
		}
		cases := make([]corr, nCorr)
		reqs := make([]string, nCorr)
		for i := range cases {
			var words []string
			for k := 1 + c.Rng.Intn(4); k > 0; k-- {
				if c.Rng.Intn(4) == 0 {
					cases[i].calls = append(cases[i].calls, "RV")
					words = append(words, "RV")
				}
				if c.Rng.Intn(5) == 0 {
					cases[i].calls = append(cases[i].calls, "RR")
					words = append(words, "RR")
				}
				o := c14GenOps(c, k == 1)
				cases[i].calls = append(cases[i].calls, "X")
				cases[i].cfgs = append(cases[i].cfgs, o)
				words = append(words, o.lean())
			}
			reqs[i] = "hist " + strings.Join(words, " ")
		}
		vh.Parallel(nCorr, func(i int) {
			ci := c14NewInterp(c14OpsProg, true)
			defer ci.cleanup()
			x := 0
			for _, call := range cases[i].calls {
				switch call {
				case "RV":
					ci.in.ResetVars()
				case "RR":
					ci.in.ResetRand()
				default:
					cases[i].outs = append(cases[i].outs, ci.run(cases[i].cfgs[x].run()))
					x++
				}
			}
		})
		lap("correspondence real runs done")
		answers := c.LeanBatch(reqs)
		lap("lean answered")
		for i, a := range answers {
			c.Trace()
			c.Eval(reqs[i], len(cases[i].cfgs) > 1)
			c.Hit("correspondence:histories")
			var real []string
			for _, o := range cases[i].outs {
				real = append(real, fmt.Sprintf("%d:%s:%s", o.Status, o.Kind, vh.HxS(c14CanonOps(o.Out))))
				c.Hit("correspondence-run-ended:" + o.Kind)
			}
			want := "ok " + strings.Join(real, " ")
			if a != want {
				c.Fail(vh.Failure{Kind: "correspondence", What: "Lean model and real interpreter disagree on a history of the operation-script program",
					Case: map[string]interface{}{"request": reqs[i], "decoded_model": c14Decode(a), "decoded_real": c14Decode(want)}, Got: a, Want: want})
			}
		}
	}
	_ = io.Discard
}

// c14Decode makes an answer line readable in a failure report.
func c14Decode(line string) []string {
	var res []string
	for _, w := range strings.Fields(line) {
		parts := strings.SplitN(w, ":", 3)
		if len(parts) == 3 {
			res = append(res, parts[0]+":"+parts[1]+":"+string(vh.Unhx(parts[2])))
		}
	}
	return res
}
