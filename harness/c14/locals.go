package main

// Locals of user functions across runs. The call machinery of the interpreter (frames on the value stack, the table of local
// arrays, the call depth) is per-run state: a run that is cut short INSIDE a function — by exit, a run-time error, exceeding the call
// depth, cancellation, or that left functions through next / nextfile — must not hand anything to the calls of a later run on the
// same Interpreter. A fresh interpreter starts every call with empty local arrays and uninitialised local scalars.
//
// Programs: 2-4 functions, each with its own mix of local arrays and local scalars (so the slots of different functions overlap
// differently). On entry a function REPORTS its locals (length, for-in count, membership, scalar uninitialised or not), fills them,
// then calls the next function one level deeper (as a statement, inside an arithmetic expression, or inside a for-in loop over its
// own local array) or — at depth 0 — leaves the way the request says. Requests come from the input records (calls in actions and in
// patterns) and from ENVIRON["B"] / ENVIRON["E"] (calls from BEGIN / END through a dispatcher that has local arrays of its own).
// The program has NO global variable or array (unless it is only used with ResetVars), so without ResetVars nothing at all may
// carry over. Histories favour runs that die inside a function and runs on empty input between the dirty run and the probe.

import (
	"fmt"
	"math/rand"
	"strings"
)

type lcLocal struct {
	arr  bool
	name string
	fill int
}

type lcFn struct {
	name   string
	locals []lcLocal
	callee int
	ctx    int
}

type lcProg struct {
	fns        []lcFn
	useG       bool // one by-reference parameter bound to the global array G (only for cases with ResetVars)
	rulesFirst bool
}

func genLocalsProg(r *rand.Rand, allowG bool) *lcProg {
	pg := &lcProg{useG: allowG && r.Intn(3) == 0, rulesFirst: r.Intn(2) == 0}
	nf := 2 + r.Intn(3)
	hasArr := false
	for i := 0; i < nf; i++ {
		f := lcFn{name: fmt.Sprintf("F%d", i), callee: r.Intn(nf), ctx: r.Intn(3)}
		if r.Intn(3) == 0 {
			f.callee = i
		}
		nl := 1 + r.Intn(4)
		for j := 0; j < nl; j++ {
			l := lcLocal{arr: r.Intn(3) > 0, fill: r.Intn(4)}
			if i == nf-1 && j == nl-1 && !hasArr {
				l.arr = true
			}
			hasArr = hasArr || l.arr
			if l.arr {
				l.name = fmt.Sprintf("a%d", j)
			} else {
				l.name = fmt.Sprintf("s%d", j)
			}
			f.locals = append(f.locals, l)
		}
		pg.fns = append(pg.fns, f)
	}
	return pg
}

func (pg *lcProg) src() string {
	var sb strings.Builder
	g, gArg, gTop := "", "", ""
	if pg.useG {
		g, gArg, gTop = ", ga", ", ga", ", G"
	}
	sb.WriteString("function Z(n,    za) { za[n] = 1; za[\"z\"] = n; return Z(n + 1) }\n")
	for _, f := range pg.fns {
		var names []string
		for _, l := range f.locals {
			names = append(names, l.name)
		}
		fmt.Fprintf(&sb, "function %s(d, how%s,    %s, k, n, r) {\n", f.name, g, strings.Join(names, ", "))
		for _, l := range f.locals {
			if l.arr {
				fmt.Fprintf(&sb, "  n = 0; for (k in %s) n++; k = \"\"\n", l.name)
				fmt.Fprintf(&sb, "  r = r length(%s) \":\" n \":\" ((d) in %s) \" \"\n", l.name, l.name)
			} else {
				fmt.Fprintf(&sb, "  r = r (%s == \"\" && %s == 0 ? \"u\" : \"D<\" %s \">\") \" \"\n", l.name, l.name, l.name)
			}
		}
		fmt.Fprintf(&sb, "  print \"%s\", d, how, r; r = \"\"\n", f.name)
		if pg.useG {
			fmt.Fprintf(&sb, "  ga[\"e\"]++; ga[\"%s\"]++\n", f.name)
		}
		for j, l := range f.locals {
			if l.arr {
				fmt.Fprintf(&sb, "  %s[d] = how", l.name)
				for q := 0; q < l.fill; q++ {
					fmt.Fprintf(&sb, "; %s[\"k%d\"] = d", l.name, q)
				}
				sb.WriteString("\n")
			} else {
				fmt.Fprintf(&sb, "  %s = \"v\" d \"-%d\"\n", l.name, j)
			}
		}
		callee := pg.fns[f.callee].name
		fa := ""
		for _, l := range f.locals {
			if l.arr && fa == "" {
				fa = l.name
			}
		}
		sb.WriteString("  if (d > 0) {\n")
		switch {
		case f.ctx == 2 && fa != "":
			fmt.Fprintf(&sb, "    for (k in %s) { r = %s(d - 1, how%s); break }\n", fa, callee, gArg)
		case f.ctx == 1:
			fmt.Fprintf(&sb, "    r = 0 + %s(d - 1, how%s)\n", callee, gArg)
		default:
			fmt.Fprintf(&sb, "    r = %s(d - 1, how%s)\n", callee, gArg)
		}
		sb.WriteString("    k = \"\"\n")
		for _, l := range f.locals {
			if l.arr {
				fmt.Fprintf(&sb, "    k = k length(%s) \" \"\n", l.name)
			} else {
				fmt.Fprintf(&sb, "    k = k %s \" \"\n", l.name)
			}
		}
		fmt.Fprintf(&sb, "    print \"back\", \"%s\", d, k\n    return r + 1\n  }\n", f.name)
		fmt.Fprintf(&sb, "  if (how == \"ret\") return %d\n", 100+len(f.locals))
		sb.WriteString("  if (how == \"exit\") exit 3\n  if (how == \"next\") next\n  if (how == \"nextfile\") nextfile\n")
		sb.WriteString("  if (how == \"err\") return 1 / d\n  if (how == \"deep\") return Z(0)\n")
		sb.WriteString("  if (how == \"cancel\") { if (cancel()) while (1) n++ }\n}\n")
	}
	// dispatcher for BEGIN / END: script "fn:d:how fn:d:how …"; its own local arrays are filled by split()
	fmt.Fprintf(&sb, "function drive(tag, script%s,    parts, w, n, i) {\n  n = split(script, parts, \" \")\n  for (i = 1; i <= n; i++) {\n    split(parts[i], w, \":\")\n", g)
	for i, f := range pg.fns {
		fmt.Fprintf(&sb, "    if (w[1] == \"%d\") print tag, %s(w[2] + 0, w[3]%s)\n", i, f.name, gArg)
	}
	sb.WriteString("  }\n}\n")
	fmt.Fprintf(&sb, "BEGIN { drive(\"begin\", ENVIRON[\"B\"]%s) }\n", gTop)
	actions := func() {
		for i, f := range pg.fns {
			fmt.Fprintf(&sb, "$1 == \"c%d\" { print \"ret\", %s($2 + 0, $3%s); print \"after\", NR }\n", i, f.name, gTop)
		}
	}
	patterns := func() {
		for i, f := range pg.fns {
			fmt.Fprintf(&sb, "$1 == \"p%d\" && %s($2 + 0, $3%s) >= 0 { print \"pat\", NR }\n", i, f.name, gTop)
		}
	}
	if pg.rulesFirst {
		patterns()
		actions()
	} else {
		actions()
		patterns()
	}
	sb.WriteString("{ print \"rec\", NR, NF }\n")
	fmt.Fprintf(&sb, "END { drive(\"end\", ENVIRON[\"E\"]%s) }\n", gTop)
	if pg.useG {
		sb.WriteString("END { print \"G\", length(G), G[\"e\"] + 0 }\n")
	}
	return sb.String()
}

// genLocalsRun: one Execute call on a locals program. dying = prefer requests that cut the run short inside a function.
func genLocalsRun(r *rand.Rand, pg *lcProg, dying bool) c14Run {
	run := c14Run{Entry: "exec"}
	switch r.Intn(8) {
	case 0:
		run.Entry = "bg"
	case 1, 2, 3:
		run.Entry = "live"
	case 4:
		if r.Intn(3) == 0 {
			run.Entry = []string{"pre", "expired"}[r.Intn(2)]
		}
	}
	how := func(top bool) string {
		var hs []string
		if dying {
			hs = []string{"exit", "exit", "err", "err", "deep", "cancel", "cancel", "next", "nextfile", "ret", "fall"}
		} else {
			hs = []string{"ret", "ret", "fall", "fall", "next", "next", "nextfile", "exit", "err", "cancel"}
		}
		for {
			h := hs[r.Intn(len(hs))]
			if top && (h == "next" || h == "nextfile") {
				continue // not meaningful from BEGIN / END
			}
			return h
		}
	}
	depth := func() int {
		if r.Intn(8) == 0 {
			return 4 + r.Intn(6)
		}
		return r.Intn(4)
	}
	script := func(n int) string {
		var ws []string
		for ; n > 0; n-- {
			ws = append(ws, fmt.Sprintf("%d:%d:%s", r.Intn(len(pg.fns)), depth(), how(true)))
		}
		return strings.Join(ws, " ")
	}
	b, e := "", ""
	if r.Intn(4) == 0 {
		b = script(1 + r.Intn(2))
	}
	if r.Intn(2) == 0 {
		e = script(1 + r.Intn(2))
	}
	run.Env = []string{"B", b, "E", e}
	var sb strings.Builder
	nrec := r.Intn(7)
	if r.Intn(6) == 0 {
		nrec = 0 // a run on empty input
		if r.Intn(2) == 0 {
			run.Env = []string{"B", "", "E", ""}
		}
	}
	for ; nrec > 0; nrec-- {
		kind := []string{"c", "c", "p", "x"}[r.Intn(4)]
		if kind == "x" {
			sb.WriteString("x y\n")
			continue
		}
		fmt.Fprintf(&sb, "%s%d %d %s\n", kind, r.Intn(len(pg.fns)), depth(), how(false))
	}
	run.Input = sb.String()
	return run
}

// genLocalsCase: a history of 1-3 runs (at least one of them dying inside a function), reset or not, and a probe run that makes calls.
func genLocalsCase(r *rand.Rand) c14Case {
	reset := r.Intn(2) == 0
	pg := genLocalsProg(r, reset)
	cs := c14Case{Prog: pg.src(), Reset: reset}
	n := 1 + r.Intn(3)
	dyingAt := r.Intn(n)
	for k := 0; k < n; k++ {
		cs.History = append(cs.History, genLocalsRun(r, pg, k == dyingAt || r.Intn(3) == 0))
	}
	if r.Intn(3) == 0 {
		// the dirty run, then a run on empty input that makes no call, then (with Reset) ResetVars: the maps of the dirty run are
		// then reachable neither through the array table nor through ResetVars
		cs.History = append(cs.History, c14Run{Entry: "exec", Env: []string{"B", "", "E", ""}})
	}
	for {
		cs.Probe = genLocalsRun(r, pg, false)
		if cs.Probe.Input != "" || cs.Probe.Env[1] != "" || cs.Probe.Env[3] != "" {
			break
		}
	}
	if cs.Probe.Entry == "pre" || cs.Probe.Entry == "expired" {
		cs.Probe.Entry = "exec"
	}
	return cs
}
