package main

// C18 — coverage instrumentation is transparent and its counts are exact.
//
// Everything is observed on the goawk BINARY, rebuilt from the working tree (VERIF_REPO or /repo) on every run.
//
// Implementation-side oracle (no model): a generated program (every control-flow statement nested arbitrarily, break / continue /
// next / exit / return leaving blocks early, functions, empty and missing action bodies, one statement per line, split over 1–3
// -f files) is run (a) plainly, (b) with -coverprofile in set mode, (c) in count mode, (d) as a hand-instrumented twin that writes
// the number of a basic block to stderr whenever the block's first statement begins (block heads computed here, from the
// generator's own tree). Demanded: stdout and exit status of (b),(c) equal (a); the count-mode profile has one line per basic
// block whose start is the block's first statement, whose statement count is the block's, and whose count equals the twin's;
// set mode = (count != 0); the statement counts add up to the number of statements (every statement in exactly one block);
// each block lies inside its file with start before end; -coverappend appends, default overwrites.
// Correspondence: the Lean model of Annotate (GoawkModel.C18.annotate) on the same tree: block list (order, members) vs the
// profile, printing-order token stream of the annotated tree vs `goawk -d -covermode count`.

import (
	"bytes"
	"fmt"
	"os"
	"os/exec"
	"path/filepath"
	"regexp"
	"sort"
	"strconv"
	"strings"

	"verifharness/vh"
)

// ---- program trees ----------------------------------------------------------------------------------------------------------

type stmt struct {
	Kind string // simple jump if while for forin do block
	ID   int
	Jump string // break continue next exit return (jump only); Text for the exact spelling
	Text string
	Body []*stmt
	Els  []*stmt
	Else bool

	line, endLine int // global 1-based lines: of the statement's first token, and of its coverage end position
}

type item struct {
	Kind    string // begin action end func
	Header  string
	NilBody bool
	Body    []*stmt
}

type program struct {
	Items  []*item
	NStmts int
	Lines  []string // global source lines
	Files  []fileT
	byLine map[int]*stmt
}

type fileT struct {
	Name  string
	Start int // first global line
	N     int // number of lines
}

type gen struct {
	c      *vh.Ctx
	nextID int
	funcs  []string
}

func (g *gen) id() int { g.nextID++; return g.nextID }

func (g *gen) simple() *stmt {
	id := g.id()
	r := g.c.Rng
	var t string
	switch r.Intn(7) {
	case 0, 1:
		t = fmt.Sprintf(`print "s%d"`, id)
	case 2:
		t = fmt.Sprintf("x%d++", id)
	case 3:
		t = fmt.Sprintf(`printf "%%s-%%d\n", "s%d", NR`, id)
	case 4:
		t = fmt.Sprintf(`A["k" NR] = "s%d"`, id)
	case 5:
		if len(g.funcs) > 0 {
			t = fmt.Sprintf("u%d = %s(NR)", id, g.funcs[r.Intn(len(g.funcs))])
		} else {
			t = fmt.Sprintf(`y%d = length("ab") + NR`, id)
		}
	default:
		t = fmt.Sprintf(`print "s%d", $1, NF > "/dev/stdout"`, id)
	}
	return &stmt{Kind: "simple", ID: id, Text: t}
}

type ctxT struct {
	inLoop, inFunc, inAction bool
	depth                    int
}

func (g *gen) jump(cx ctxT) *stmt {
	r := g.c.Rng
	var opts []string
	if cx.inLoop {
		opts = append(opts, "break", "continue", "break", "continue")
	}
	if cx.inFunc {
		opts = append(opts, "return", "return 5")
	}
	if cx.inAction && !cx.inFunc {
		opts = append(opts, "next")
	}
	if !cx.inFunc || r.Intn(4) == 0 {
		opts = append(opts, "exit", "exit 3")
	}
	t := opts[r.Intn(len(opts))]
	return &stmt{Kind: "jump", ID: g.id(), Jump: strings.Fields(t)[0], Text: t}
}

func (g *gen) body(cx ctxT, maxLen int) []*stmt {
	r := g.c.Rng
	n := r.Intn(maxLen + 1)
	var res []*stmt
	for i := 0; i < n; i++ {
		res = append(res, g.stmt(cx))
	}
	if res == nil {
		res = []*stmt{}
	}
	return res
}

func (g *gen) stmt(cx ctxT) *stmt {
	r := g.c.Rng
	k := r.Intn(20)
	if cx.depth >= 4 && k >= 9 {
		k = r.Intn(9)
	}
	in := cx
	in.depth++
	switch {
	case k < 7:
		return g.simple()
	case k < 9:
		// a jump, usually guarded so that code after it still runs sometimes
		if r.Intn(3) == 0 {
			return g.jump(cx)
		}
		id := g.id()
		return &stmt{Kind: "if", ID: id, Text: fmt.Sprintf("if (c%d++ %% 3 == 1)", id), Body: []*stmt{g.jump(cx)}}
	case k < 13:
		id := g.id()
		s := &stmt{Kind: "if", ID: id, Body: g.body(in, 3)}
		switch r.Intn(4) {
		case 0:
			s.Text = fmt.Sprintf("if (c%d++ %% 2 == 0)", id)
		case 1:
			s.Text = fmt.Sprintf("if (NR %% 2 == 1 || q%d)", id)
		case 2:
			s.Text = fmt.Sprintf("if (c%d++ < 1)", id)
		default:
			s.Text = fmt.Sprintf("if (!(z%d = 1 - z%d))", id, id)
		}
		if r.Intn(2) == 0 {
			s.Else = true
			s.Els = g.body(in, 3)
		}
		return s
	case k < 15:
		id := g.id()
		in.inLoop = true
		return &stmt{Kind: "while", ID: id, Text: fmt.Sprintf("while (w%d++ %% 3 < 2)", id), Body: g.body(in, 3)}
	case k < 17:
		id := g.id()
		in.inLoop = true
		return &stmt{Kind: "for", ID: id, Text: fmt.Sprintf("for (i%d = 0; i%d < 2; i%d++)", id, id, id), Body: g.body(in, 3)}
	case k < 18:
		id := g.id()
		in.inLoop = true
		return &stmt{Kind: "forin", ID: id, Text: fmt.Sprintf("for (k%d in B)", id), Body: g.body(in, 3)}
	case k < 19:
		id := g.id()
		in.inLoop = true
		return &stmt{Kind: "do", ID: id, Text: fmt.Sprintf("while (d%d++ %% 2 < 1)", id), Body: g.body(in, 3)}
	default:
		return &stmt{Kind: "block", ID: g.id(), Body: g.body(in, 3)}
	}
}

func (g *gen) program() *program {
	r := g.c.Rng
	p := &program{}
	nf := r.Intn(3)
	names := []string{"fa", "fb", "fc"}
	g.funcs = names[:nf]
	var items []*item
	// the array the for-in loops walk: two keys, bodies never look at the key
	id1 := g.id()
	id2 := g.id()
	items = append(items, &item{Kind: "begin", Header: "BEGIN", Body: []*stmt{
		{Kind: "simple", ID: id1, Text: fmt.Sprintf(`B["p"] = "s%d"`, id1)},
		{Kind: "simple", ID: id2, Text: fmt.Sprintf(`B["q"] = "s%d"`, id2)}}})
	for i := r.Intn(2); i > 0; i-- {
		items = append(items, &item{Kind: "begin", Header: "BEGIN", Body: g.body(ctxT{}, 4)})
	}
	pats := []string{"", "NR % 2 == 1", "/a/", "NR == 2, NR == 3", "$2 > 1", "!/b/"}
	for i := 1 + r.Intn(3); i > 0; i-- {
		it := &item{Kind: "action", Header: pats[r.Intn(len(pats))]}
		switch {
		case it.Header != "" && r.Intn(5) == 0:
			it.NilBody = true
		default:
			it.Body = g.body(ctxT{inAction: true}, 4)
		}
		items = append(items, it)
	}
	for i := r.Intn(2); i > 0; i-- {
		items = append(items, &item{Kind: "end", Header: "END", Body: g.body(ctxT{}, 4)})
	}
	for i := 0; i < nf; i++ {
		// a function may only call functions defined with a smaller index: no recursion
		g.funcs = names[:i]
		items = append(items, &item{Kind: "func", Header: "function " + names[i] + "(a)", Body: g.body(ctxT{inFunc: true}, 4)})
	}
	// source order: shuffle items (annotation order is Begin, actions, End, functions whatever the source order)
	r.Shuffle(len(items), func(i, j int) { items[i], items[j] = items[j], items[i] })
	p.Items = items
	p.NStmts = g.nextID
	return p
}

// ---- layout --------------------------------------------------------------------------------------------------------------

type layout struct {
	lines  []string
	byLine map[int]*stmt
	rng    func(int) int
	twin   map[int]int // global line of a block head -> block number of the twin (nil when rendering the original)
}

func (l *layout) emit(s string) int {
	l.lines = append(l.lines, s)
	return len(l.lines)
}

func (l *layout) indent(depth int) string {
	switch l.rng(3) {
	case 0:
		return strings.Repeat("\t", depth)
	case 1:
		return strings.Repeat("  ", depth)
	}
	return strings.Repeat(" ", depth+l.rng(3))
}

func (l *layout) stmts(ss []*stmt, depth int) {
	for _, s := range ss {
		ind := l.indent(depth)
		switch s.Kind {
		case "simple", "jump":
			s.line = l.emit(ind + s.Text)
			s.endLine = s.line
		case "if":
			s.line = l.emit(ind + s.Text + " {")
			s.endLine = s.line
			l.stmts(s.Body, depth+1)
			if s.Else {
				l.emit(ind + "} else {")
				l.stmts(s.Els, depth+1)
			}
			l.emit(ind + "}")
		case "while", "for", "forin":
			s.line = l.emit(ind + s.Text + " {")
			s.endLine = s.line
			l.stmts(s.Body, depth+1)
			l.emit(ind + "}")
		case "do":
			s.line = l.emit(ind + "do {")
			l.stmts(s.Body, depth+1)
			s.endLine = l.emit(ind + "} " + s.Text)
		case "block":
			s.line = l.emit(ind + "{")
			l.stmts(s.Body, depth+1)
			s.endLine = l.emit(ind + "}")
		}
		l.byLine[s.line] = s
	}
}

func (p *program) render(rng func(int) int) {
	l := &layout{byLine: map[int]*stmt{}, rng: rng}
	for _, it := range p.Items {
		switch {
		case it.NilBody:
			l.emit(it.Header)
		default:
			l.emit(strings.TrimSpace(it.Header + " {"))
			l.stmts(it.Body, 1)
			l.emit("}")
		}
	}
	p.Lines = l.lines
	p.byLine = l.byLine
}

// ---- basic blocks, computed from the tree by the property's definition ------------------------------------------------------

type block struct {
	stmts []*stmt
}

func compound(s *stmt) bool { return s.Kind != "simple" && s.Kind != "jump" }

// blocksOf: within one statement list a block is a maximal run of statements that ends after a compound statement (whose
// nested lists have blocks of their own) or at the end of the list.
func blocksOf(ss []*stmt, out *[]block) {
	var run []*stmt
	for _, s := range ss {
		run = append(run, s)
		if compound(s) {
			*out = append(*out, block{run})
			run = nil
			blocksOf(s.Body, out)
			blocksOf(s.Els, out)
		}
	}
	if len(run) > 0 {
		*out = append(*out, block{run})
	}
}

func (p *program) blocks() []block {
	var bs []block
	for _, it := range p.Items {
		blocksOf(it.Body, &bs)
	}
	return bs
}

// twinLines: the program with `print k > "/dev/stderr"` in front of every block head.
func (p *program) twinLines(bs []block) []string {
	head := map[int]int{}
	for k, b := range bs {
		head[b.stmts[0].line] = k + 1
	}
	var out []string
	for i, ln := range p.Lines {
		if k, ok := head[i+1]; ok {
			out = append(out, fmt.Sprintf(`print %d > "/dev/stderr"`, k))
		}
		out = append(out, ln)
	}
	return out
}

// ---- Lean encoding -----------------------------------------------------------------------------------------------------------

// encStmts: nested == a body of a compound statement; the parser leaves an empty nested body (and an empty else) as the nil
// slice, while an empty action / BEGIN / END / function body is an empty non-nil slice.
func encStmts(ss []*stmt, b *strings.Builder) { encStmtsAt(ss, b, false) }

func encStmtsAt(ss []*stmt, b *strings.Builder, nested bool) {
	if nested && len(ss) == 0 {
		b.WriteString(" nil")
		return
	}
	b.WriteString(" [")
	for _, s := range ss {
		switch s.Kind {
		case "simple":
			fmt.Fprintf(b, " s %d", s.ID)
		case "jump":
			fmt.Fprintf(b, " j %d %s", s.ID, s.Jump)
		case "if":
			fmt.Fprintf(b, " if %d", s.ID)
			encStmtsAt(s.Body, b, true)
			if s.Else {
				encStmtsAt(s.Els, b, true)
			} else {
				b.WriteString(" nil")
			}
		default:
			fmt.Fprintf(b, " %s %d", map[string]string{"while": "wh", "for": "for", "forin": "fi", "do": "do", "block": "bl"}[s.Kind], s.ID)
			encStmtsAt(s.Body, b, true)
		}
	}
	b.WriteString(" ]")
}

// annotation order: Begin blocks, actions, End blocks, functions (each in source order)
func (p *program) annOrder() []*item {
	var res []*item
	for _, k := range []string{"begin", "action", "end", "func"} {
		for _, it := range p.Items {
			if it.Kind == k {
				res = append(res, it)
			}
		}
	}
	return res
}

func (p *program) leanReq() string {
	var b strings.Builder
	b.WriteString("ann")
	for _, it := range p.annOrder() {
		if it.NilBody {
			b.WriteString(" nil")
		} else {
			encStmts(it.Body, &b)
		}
	}
	return b.String()
}

// ---- running the binary ---------------------------------------------------------------------------------------------------

var goawkBin string

func buildGoawk(dir string) error {
	repo := os.Getenv("VERIF_REPO")
	if repo == "" {
		repo = "/repo"
	}
	goawkBin = filepath.Join(dir, "goawk")
	cmd := exec.Command("go", "build", "-o", goawkBin, ".")
	cmd.Dir = repo
	cmd.Env = append(os.Environ(), "GOFLAGS=-mod=mod", "GOPROXY=off", "GOSUMDB=off", "GOTOOLCHAIN=local", "CGO_ENABLED=0")
	out, err := cmd.CombinedOutput()
	if err != nil {
		return fmt.Errorf("go build %s: %v\n%s", repo, err, out)
	}
	return nil
}

type runT struct {
	Out, Err string
	Status   int
}

const c18Input = "a 1\nb 2\nab 3\nzz 0\n"

func runGoawk(dir string, args ...string) runT {
	cmd := exec.Command(goawkBin, args...)
	cmd.Dir = dir
	cmd.Stdin = strings.NewReader(c18Input)
	var o, e bytes.Buffer
	cmd.Stdout, cmd.Stderr = &o, &e
	err := cmd.Run()
	st := 0
	if err != nil {
		if ee, ok := err.(*exec.ExitError); ok {
			st = ee.ExitCode()
		} else {
			st = -1
		}
	}
	return runT{o.String(), e.String(), st}
}

type profLine struct {
	Path           string
	SL, SC, EL, EC int
	N, Count       int
}

var profRe = regexp.MustCompile(`^(.*):(\d+)\.(\d+),(\d+)\.(\d+) (\d+) (\d+)$`)

func parseProfile(path string) (mode string, lines []profLine, modeLines int, err error) {
	b, err := os.ReadFile(path)
	if err != nil {
		return "", nil, 0, err
	}
	for _, ln := range strings.Split(strings.TrimRight(string(b), "\n"), "\n") {
		if strings.HasPrefix(ln, "mode: ") {
			mode = strings.TrimPrefix(ln, "mode: ")
			modeLines++
			continue
		}
		m := profRe.FindStringSubmatch(ln)
		if m == nil {
			return mode, nil, modeLines, fmt.Errorf("unparsable profile line %q", ln)
		}
		var v [6]int
		for i := range v {
			v[i], _ = strconv.Atoi(m[i+2])
		}
		lines = append(lines, profLine{m[1], v[0], v[1], v[2], v[3], v[4], v[5]})
	}
	return
}

// ---- `-d` output → token stream ---------------------------------------------------------------------------------------------

var coverRe = regexp.MustCompile(`^__COVER\[(\d+)\](\+\+| = 1)$`)
var idRe = regexp.MustCompile(`[a-z](\d+)`)

func tokensOfDump(dump string) []string {
	var toks []string
	for _, raw := range strings.Split(dump, "\n") {
		ln := strings.TrimSpace(raw)
		if ln == "" {
			continue
		}
		top := raw[0] != ' ' && raw[0] != '\t'
		if top {
			switch {
			case ln == "}":
				toks = append(toks, "]")
			case strings.HasSuffix(ln, "{"):
				toks = append(toks, "[")
			default:
				toks = append(toks, "nil")
			}
			continue
		}
		if m := coverRe.FindStringSubmatch(ln); m != nil {
			toks = append(toks, "C"+m[1])
			continue
		}
		first := strings.Fields(ln)[0]
		switch {
		case ln == "{" || ln == "}":
			toks = append(toks, ln)
		case ln == "} else {":
			toks = append(toks, "}", "else{")
		case ln == "do {":
			toks = append(toks, "do{")
		case strings.HasPrefix(ln, "} while"):
			toks = append(toks, "}", "S"+idRe.FindStringSubmatch(ln)[1])
		case first == "break" || first == "continue" || first == "next" || first == "exit" || first == "return":
			toks = append(toks, "J:"+first)
		default:
			m := idRe.FindStringSubmatch(ln)
			if m == nil {
				toks = append(toks, "?"+ln)
			} else {
				toks = append(toks, "S"+m[1])
			}
			if strings.HasSuffix(ln, "{") {
				toks = append(toks, "{")
			}
		}
	}
	return toks
}

var leanJ = regexp.MustCompile(`^J\d+:`)
var leanB = regexp.MustCompile(`^B\d+$`)

func normLeanFlat(s string) []string {
	var out []string
	for _, t := range strings.Fields(s) {
		if leanB.MatchString(t) {
			continue
		}
		out = append(out, leanJ.ReplaceAllString(t, "J:"))
	}
	return out
}

// ---- one case ----------------------------------------------------------------------------------------------------------------

type caseT struct {
	Files    map[string]string `json:"files"`
	Order    []string          `json:"file_order"`
	Input    string            `json:"stdin"`
	CrossCut bool              `json:"a_file_boundary_falls_inside_an_action"`
	NoFinalNewline bool        `json:"some_file_lacks_its_final_newline,omitempty"`
	EmptyFiles     int         `json:"empty_files,omitempty"`
	CommentFiles   int         `json:"comment_only_files,omitempty"`
	Pre            string      `json:"profile_file_before_the_run,omitempty"` // absent | same-program | other-program
	PreAppend      bool        `json:"coverappend,omitempty"`
	PreMode        string      `json:"covermode,omitempty"`

	p *program
}

func (p *program) split(c *vh.Ctx, dir string) *caseT {
	cs := &caseT{Files: map[string]string{}, Input: c18Input, p: p}
	n := len(p.Lines)
	nfiles := 1 + c.Rng.Intn(3)
	var cuts []int
	// cut candidates: between items (top-level closers) mostly; sometimes anywhere
	var itemEnds []int
	for i, ln := range p.Lines {
		if len(ln) > 0 && ln[0] != ' ' && ln[0] != '\t' && (ln == "}" || !strings.HasSuffix(ln, "{")) {
			itemEnds = append(itemEnds, i+1)
		}
	}
	// … or right before the first statement of a basic block, so that a block starts on line 1 of a file
	var headCuts []int
	for _, b := range p.blocks() {
		if b.stmts[0].line > 1 {
			headCuts = append(headCuts, b.stmts[0].line-1)
		}
	}
	for k := 1; k < nfiles; k++ {
		switch x := c.Rng.Intn(8); {
		case x < 2 && n > 2:
			cuts = append(cuts, 1+c.Rng.Intn(n-1))
		case x < 4 && len(headCuts) > 0:
			cuts = append(cuts, headCuts[c.Rng.Intn(len(headCuts))])
		default:
			cuts = append(cuts, itemEnds[c.Rng.Intn(len(itemEnds))])
		}
	}
	sort.Ints(cuts)
	prev := 0
	k := 0
	add := func(from, to int) {
		if to <= from {
			return
		}
		k++
		name := fmt.Sprintf("p%d.awk", k)
		cs.Files[name] = strings.Join(p.Lines[from:to], "\n") + "\n"
		cs.Order = append(cs.Order, name)
		p.Files = append(p.Files, fileT{filepath.Join(dir, name), from + 1, to - from})
	}
	for _, ct := range cuts {
		if ct >= n {
			continue
		}
		add(prev, ct)
		if ct > prev {
			prev = ct
		}
	}
	add(prev, n)
	ends := map[int]bool{}
	for _, e := range itemEnds {
		ends[e] = true
	}
	for _, f := range p.Files[1:] {
		if !ends[f.Start-1] {
			cs.CrossCut = true
		}
	}
	// some program files lose their final newline (goawk supplies it)
	for _, name := range cs.Order {
		if c.Rng.Intn(4) == 0 {
			cs.Files[name] = strings.TrimSuffix(cs.Files[name], "\n")
			cs.NoFinalNewline = true
		}
	}
	// files that contribute no statement: empty, or only comments / blank lines — first, in the middle, last, consecutive.
	// They are not in p.Files: no block may be reported under their name.
	fillers := []string{"", "", "# only a comment\n", "\n\n# blank lines and a comment\n", "# comment without final newline"}
	nfill := []int{0, 1, 1, 2, 2, 3}[c.Rng.Intn(6)]
	for k := 0; k < nfill && len(cs.Order) < 5; k++ {
		name := fmt.Sprintf("e%d.awk", k+1)
		cs.Files[name] = fillers[c.Rng.Intn(len(fillers))]
		var pos int
		switch c.Rng.Intn(5) {
		case 0:
			pos = 0
		case 1:
			pos = len(cs.Order)
		case 2, 3: // directly in front of a non-first file
			pos = 1 + c.Rng.Intn(len(cs.Order))
			if pos > len(cs.Order)-1 {
				pos = len(cs.Order) - 1
			}
			if pos < 1 {
				pos = len(cs.Order)
			}
		default:
			pos = c.Rng.Intn(len(cs.Order) + 1)
		}
		if k > 0 && c.Rng.Intn(2) == 0 { // next to the previous filler
			for j, n := range cs.Order {
				if n == fmt.Sprintf("e%d.awk", k) {
					pos = j + c.Rng.Intn(2)
				}
			}
		}
		cs.Order = append(cs.Order[:pos], append([]string{name}, cs.Order[pos:]...)...)
		if cs.Files[name] == "" {
			cs.EmptyFiles++
		} else {
			cs.CommentFiles++
		}
	}
	return cs
}

func (p *program) fileOfLine(g int) int {
	for i, f := range p.Files {
		if g >= f.Start && g < f.Start+f.N {
			return i
		}
	}
	return -1
}

type result struct {
	plain, set, count, twin, dump runT
	setProf, countProf           []profLine
	setMode, countMode           string
	profErr                      string
	appendMsg                    string
	preMsg                       string
	twinCounts                   map[int]int
}

func runCase(cs *caseT, dir string, doAppend bool) (r result) {
	os.MkdirAll(dir, 0o755)
	var fargs, targs []string
	for _, name := range cs.Order {
		os.WriteFile(filepath.Join(dir, name), []byte(cs.Files[name]), 0o644)
		fargs = append(fargs, "-f", name)
	}
	bs := cs.p.blocks()
	os.WriteFile(filepath.Join(dir, "twin.awk"), []byte(strings.Join(cs.p.twinLines(bs), "\n")+"\n"), 0o644)
	targs = []string{"-f", "twin.awk"}
	r.plain = runGoawk(dir, fargs...)
	r.set = runGoawk(dir, append([]string{"-coverprofile", "set.out"}, fargs...)...)
	r.count = runGoawk(dir, append([]string{"-covermode", "count", "-coverprofile=count.out"}, fargs...)...)
	r.twin = runGoawk(dir, targs...)
	r.dump = runGoawk(dir, append([]string{"-d", "-covermode", "count"}, fargs...)...)
	r.twinCounts = map[int]int{}
	for _, ln := range strings.Fields(r.twin.Err) {
		k, err := strconv.Atoi(ln)
		if err != nil {
			r.twinCounts[-1]++
			continue
		}
		r.twinCounts[k]++
	}
	var err error
	var ml int
	if r.setMode, r.setProf, ml, err = parseProfile(filepath.Join(dir, "set.out")); err != nil || ml != 1 {
		r.profErr = fmt.Sprint("set profile: ", err, " mode lines ", ml)
	}
	if r.countMode, r.countProf, ml, err = parseProfile(filepath.Join(dir, "count.out")); err != nil || ml != 1 {
		r.profErr += fmt.Sprint(" count profile: ", err, " mode lines ", ml)
	}
	if cs.Pre != "" && r.profErr == "" {
		// a further run into a profile file that is absent / was written by this program / was written by another program
		ref := "count.out"
		if cs.PreMode == "set" {
			ref = "set.out"
		}
		refB, _ := os.ReadFile(filepath.Join(dir, ref))
		refLines := strings.SplitN(string(refB), "\n", 2) // mode line, data lines
		data := ""
		if len(refLines) == 2 {
			data = refLines[1]
		}
		pre := ""
		switch cs.Pre {
		case "same-program":
			pre = string(refB)
		case "other-program":
			pre = "mode: " + cs.PreMode + "\n/tmp/other/prog.awk:1.1,1.12 1 1\n/tmp/other/prog.awk:2.1,2.5 3 0\n"
		}
		target := filepath.Join(dir, "pre.out")
		os.Remove(target)
		if cs.Pre != "absent" {
			os.WriteFile(target, []byte(pre), 0o644)
		}
		args := []string{"-covermode", cs.PreMode, "-coverprofile", "pre.out"}
		if cs.PreAppend {
			args = append(args, "-coverappend")
		}
		rr := runGoawk(dir, append(args, fargs...)...)
		gotB, _ := os.ReadFile(target)
		want := "mode: " + cs.PreMode + "\n" + data
		if cs.PreAppend && cs.Pre != "absent" {
			want = pre + data
		}
		if rr.Out != r.plain.Out || rr.Status != r.plain.Status {
			r.preMsg = fmt.Sprintf("output/status changed: %q/%d", rr.Out, rr.Status)
		} else if string(gotB) != want {
			r.preMsg = fmt.Sprintf("profile file is not %s this run's complete profile (every block once, with its count)\n--- got\n%s--- want\n%s",
				map[bool]string{true: "the previous content followed by", false: "exactly"}[cs.PreAppend && cs.Pre != "absent"], gotB, want)
		}
	}
	if doAppend {
		// second run with -coverappend doubles the data lines under one mode line; a third without it starts over
		runGoawk(dir, append([]string{"-covermode", "count", "-coverprofile", "count.out", "-coverappend"}, fargs...)...)
		_, l2, ml2, e2 := parseProfile(filepath.Join(dir, "count.out"))
		if e2 != nil || ml2 != 1 || len(l2) != 2*len(r.countProf) || fmt.Sprint(l2[:len(l2)/2]) != fmt.Sprint(r.countProf) || fmt.Sprint(l2[len(l2)/2:]) != fmt.Sprint(r.countProf) {
			r.appendMsg = fmt.Sprintf("-coverappend: want the first profile twice under one mode line; got %d mode lines, %d data lines (first run %d) err=%v", ml2, len(l2), len(r.countProf), e2)
		}
		runGoawk(dir, append([]string{"-covermode", "count", "-coverprofile", "count.out"}, fargs...)...)
		_, l3, ml3, e3 := parseProfile(filepath.Join(dir, "count.out"))
		if e3 != nil || ml3 != 1 || fmt.Sprint(l3) != fmt.Sprint(r.countProf) {
			r.appendMsg += fmt.Sprintf(" without -coverappend: want the profile overwritten; got %d mode lines, %d data lines err=%v", ml3, len(l3), e3)
		}
	}
	return
}

// check is the implementation-side oracle; it returns failures as (what, finding, got, want).
type failT struct{ what, finding, got, want string }

func check(cs *caseT, r result) (fs []failT) {
	p := cs.p
	add := func(what, finding, got, want string) { fs = append(fs, failT{what, finding, got, want}) }
	if r.plain.Err != "" || r.plain.Status > 3 || r.plain.Status < 0 {
		add("generator: the plain program fails", "", fmt.Sprintf("status=%d stderr=%q", r.plain.Status, r.plain.Err), "a clean run")
		return
	}
	if r.twin.Out != r.plain.Out || r.twin.Status != r.plain.Status {
		add("generator: the twin program behaves differently from the original", "", fmt.Sprintf("%q/%d", r.twin.Out, r.twin.Status), fmt.Sprintf("%q/%d", r.plain.Out, r.plain.Status))
		return
	}
	// transparency
	for _, m := range []struct {
		name string
		r    runT
	}{{"set", r.set}, {"count", r.count}} {
		if m.r.Out != r.plain.Out || m.r.Status != r.plain.Status || m.r.Err != "" {
			add("coverage ("+m.name+" mode) changed the program's output or exit status", "", fmt.Sprintf("out=%q status=%d stderr=%q", m.r.Out, m.r.Status, m.r.Err),
				fmt.Sprintf("out=%q status=%d", r.plain.Out, r.plain.Status))
		}
	}
	if r.profErr != "" {
		add("profile unreadable", "", r.profErr, "one mode line and parsable data lines")
		return
	}
	if r.setMode != "set" || r.countMode != "count" {
		add("mode line", "", r.setMode+"/"+r.countMode, "set/count")
	}
	if r.appendMsg != "" {
		add("append/overwrite of the profile file", "", r.appendMsg, "")
	}
	if r.preMsg != "" {
		add(fmt.Sprintf("profile written onto a file that was %s before the run (append=%v, mode=%s)", cs.Pre, cs.PreAppend, cs.PreMode), "", r.preMsg, "")
	}
	bs := p.blocks()
	// every block inside its file, start before end
	crossFile := func(b block) bool {
		return p.fileOfLine(b.stmts[0].line) != p.fileOfLine(b.stmts[len(b.stmts)-1].endLine)
	}
	// map each profile line to a block by (file, start line)
	byStart := map[string]int{}
	for k, b := range bs {
		f := p.Files[p.fileOfLine(b.stmts[0].line)]
		byStart[fmt.Sprintf("%s:%d", f.Name, b.stmts[0].line-f.Start+1)] = k
	}
	if len(r.countProf) != len(bs) || len(r.setProf) != len(bs) {
		add("number of reported blocks is not the number of basic blocks", "", fmt.Sprintf("count mode %d, set mode %d", len(r.countProf), len(r.setProf)), fmt.Sprint(len(bs)))
	}
	seen := map[int]int{}
	total := 0
	for i, pl := range r.countProf {
		total += pl.N
		k, ok := byStart[fmt.Sprintf("%s:%d", pl.Path, pl.SL)]
		if !ok {
			add("a reported block does not start at the first statement of a basic block", "", fmt.Sprintf("%+v", pl), "start = a block head")
			continue
		}
		b := bs[k]
		seen[k]++
		finding := ""
		if crossFile(b) {
			finding = "F26"
		}
		var fl *fileT
		for j := range p.Files {
			if p.Files[j].Name == pl.Path {
				fl = &p.Files[j]
			}
		}
		inside := fl != nil && pl.SL >= 1 && pl.EL >= pl.SL && pl.EL <= fl.N && pl.SC >= 1 && pl.EC >= 1 &&
			(pl.SL < pl.EL || pl.SC < pl.EC)
		if inside {
			inside = pl.SC <= len(p.Lines[fl.Start+pl.SL-2])+1 && pl.EC <= len(p.Lines[fl.Start+pl.EL-2])+1
		}
		if !inside {
			add("a reported block does not lie within its file with start before end", finding, fmt.Sprintf("%+v", pl), "1 <= start < end <= end of file")
		} else if !crossFile(b) && (pl.EL != b.stmts[len(b.stmts)-1].endLine-fl.Start+1) {
			add("a reported block does not end at its last statement", "", fmt.Sprintf("%+v", pl), fmt.Sprintf("end line %d", b.stmts[len(b.stmts)-1].endLine-fl.Start+1))
		}
		if pl.N != len(b.stmts) {
			add("statement count of a block", "", fmt.Sprintf("%+v", pl), fmt.Sprint(len(b.stmts)))
		}
		if want := r.twinCounts[k+1]; pl.Count != want {
			add("count-mode count differs from the number of times the block's first statement began", "", fmt.Sprintf("%+v", pl), fmt.Sprint(want))
		}
		if i < len(r.setProf) {
			sp := r.setProf[i]
			wantSet := 0
			if r.twinCounts[k+1] != 0 {
				wantSet = 1
			}
			if sp.Count != wantSet {
				add("set-mode value is not (count != 0)", "", fmt.Sprintf("%+v", sp), fmt.Sprint(wantSet))
			}
			sp.Count, pl.Count = 0, 0
			if sp != pl {
				add("set-mode and count-mode profiles name different blocks", "", fmt.Sprintf("%+v", sp), fmt.Sprintf("%+v", pl))
			}
		}
	}
	for k := range bs {
		if seen[k] != 1 && len(r.countProf) == len(bs) {
			add("a basic block is reported "+fmt.Sprint(seen[k])+" times", "", fmt.Sprintf("block starting at global line %d", bs[k].stmts[0].line), "once")
		}
	}
	if total != p.NStmts {
		add("statement counts do not add up to the number of statements (every statement in exactly one block)", "", fmt.Sprint(total), fmt.Sprint(p.NStmts))
	}
	return
}

func main() { vh.Main("C18", runC18) }

func fixedPrograms() []*program {
	mk := func(items ...*item) *program {
		p := &program{Items: items}
		n := 0
		var walk func(ss []*stmt)
		walk = func(ss []*stmt) {
			for _, s := range ss {
				n++
				s.ID = n
				s.Text = strings.ReplaceAll(s.Text, "#", fmt.Sprint(n))
				walk(s.Body)
				walk(s.Els)
			}
		}
		for _, it := range items {
			walk(it.Body)
		}
		p.NStmts = n
		return p
	}
	S := func(t string) *stmt { return &stmt{Kind: "simple", Text: t} }
	J := func(t string) *stmt { return &stmt{Kind: "jump", Jump: strings.Fields(t)[0], Text: t} }
	return []*program{
		// F21 (fixed): empty action vs missing action
		mk(&item{Kind: "action", Header: "/a/", Body: []*stmt{}}, &item{Kind: "action", Header: "/b/", NilBody: true}),
		// G18-1 (repaired): an action that compiles to no code prints nothing, with and without coverage
		mk(&item{Kind: "action", Header: "/a/", Body: []*stmt{{Kind: "block", Body: []*stmt{}}}}),
		// G18-2 (repaired): END / BEGIN bodies that compile to no code
		mk(&item{Kind: "end", Header: "END", Body: []*stmt{{Kind: "block", Body: []*stmt{}}}}, &item{Kind: "action", Header: "", Body: []*stmt{S(`print "s#"`)}}),
		mk(&item{Kind: "begin", Header: "BEGIN", Body: []*stmt{{Kind: "block", Body: []*stmt{{Kind: "block", Body: []*stmt{}}}}}}, &item{Kind: "end", Header: "END", Body: []*stmt{S(`print "s#", NR`)}}),
		// Appendix C: counter after the first statement would miss `next`
		mk(&item{Kind: "action", Header: "", Body: []*stmt{J("next"), S(`print "s#"`)}}),
		mk(&item{Kind: "begin", Header: "BEGIN", Body: []*stmt{S(`print "s#"`), {Kind: "if", Text: "if (c#++ < 1)", Body: []*stmt{S("x#++")}}, S(`print "s#"`)}}),
		mk(&item{Kind: "begin", Header: "BEGIN", Body: []*stmt{{Kind: "do", Text: "while (d#++ < 2)", Body: []*stmt{{Kind: "if", Text: "if (c#++ == 1)", Body: []*stmt{J("continue")}, Else: true, Els: []*stmt{}}, S("x#++")}}, J("exit 2"), S("x#++")}}),
		mk(&item{Kind: "func", Header: "function fa(a)", Body: []*stmt{{Kind: "block", Body: []*stmt{J("return 1"), S("x#++")}}, S("x#++")}},
			&item{Kind: "end", Header: "END", Body: []*stmt{S("u# = fa(1)"), {Kind: "while", Text: "while (w#++ < 3)", Body: []*stmt{{Kind: "for", Text: "for (i# = 0; i# < 2; i#++)", Body: []*stmt{J("break")}}}}}}),
		// a block that is never executed (keep last: used by the C18-n1 / C18-n2 witnesses)
		mk(&item{Kind: "begin", Header: "BEGIN", Body: []*stmt{{Kind: "if", Text: "if (c#++ > 5)", Body: []*stmt{S("x#++")}}, S(`print "s#"`)}}),
	}
}

func runC18(c *vh.Ctx) {
	c.Rule("case = (generated program: items BEGIN/pattern-action/END/function in shuffled source order, statements simple | jump | if[/else] | " +
		"while | for | for-in | do-while | block nested to depth 5, one statement per line with random indentation; split over 1-3 -f files; fixed 4-line " +
		"input); each case = 5 runs of the binary (plain, set, count, twin, -d) [+3 for append]; non-trivial = the program has a loop or a jump and at " +
		"least 4 basic blocks. Stream `idioms` (idioms.go): programs assembled from probes = set-up + one syntactic idiom (for-in / while / for / do / if / ?: / getline " +
		"loop with a body of 0, 1 or 2 statements in every lay-out, fused statements and comparisons, rules whose whole action is an idiom) + an observation of " +
		"the loop variable (unset / empty / key), array lengths, counters, NR, NF, $0 and the exit status, placed in BEGIN, rules, END or a function; 3 runs " +
		"of the binary each (plain, set, count): stdout, stderr and exit status must be equal; every for-in probe's first observation is also compared with the " +
		"Lean model of the for-in idioms for every order of the keys")
	scratch, err := os.MkdirTemp("", "c18-")
	if err != nil {
		panic(err)
	}
	defer os.RemoveAll(scratch)
	if err := buildGoawk(scratch); err != nil {
		panic(err)
	}
	var cases []*caseT
	for i, p := range fixedPrograms() {
		p.render(func(int) int { return 1 })
		dir := filepath.Join(scratch, fmt.Sprintf("fix%d", i))
		cs := &caseT{Files: map[string]string{"p1.awk": strings.Join(p.Lines, "\n") + "\n"}, Order: []string{"p1.awk"}, Input: c18Input, p: p}
		p.Files = []fileT{{filepath.Join(dir, "p1.awk"), 1, len(p.Lines)}}
		cases = append(cases, cs)
	}
	// F26 witness: one action split over two files in the middle of a block
	{
		p := fixedPrograms()[5]
		p.render(func(int) int { return 1 })
		dir := filepath.Join(scratch, fmt.Sprintf("fix%d", len(cases)))
		cs := &caseT{Files: map[string]string{"p1.awk": strings.Join(p.Lines[:2], "\n") + "\n", "p2.awk": strings.Join(p.Lines[2:], "\n") + "\n"},
			Order: []string{"p1.awk", "p2.awk"}, Input: c18Input, p: p, CrossCut: true}
		p.Files = []fileT{{filepath.Join(dir, "p1.awk"), 1, 2}, {filepath.Join(dir, "p2.awk"), 3, len(p.Lines) - 2}}
		cases = append(cases, cs)
	}
	// C18-n1 shape: an EMPTY non-first file; the file after it has a block head on its line 1. C18-n2 shape: a program with an
	// unexecuted block appended (set mode) onto a profile written by another program.
	{
		all := fixedPrograms()
		p := all[len(all)-1]
		p.render(func(int) int { return 1 })
		dir := filepath.Join(scratch, fmt.Sprintf("fix%d", len(cases)))
		cs := &caseT{Files: map[string]string{"p1.awk": strings.Join(p.Lines[:2], "\n") + "\n", "e1.awk": "", "p2.awk": strings.Join(p.Lines[2:], "\n")},
			Order: []string{"p1.awk", "e1.awk", "p2.awk"}, Input: c18Input, p: p, CrossCut: true, EmptyFiles: 1, NoFinalNewline: true,
			Pre: "other-program", PreAppend: true, PreMode: "set"}
		p.Files = []fileT{{filepath.Join(dir, "p1.awk"), 1, 2}, {filepath.Join(dir, "p2.awk"), 3, len(p.Lines) - 2}}
		cases = append(cases, cs)
	}
	nfix := len(cases)
	n := c.N(150, 1500)
	for i := 0; i < n; i++ {
		g := &gen{c: c}
		p := g.program()
		p.render(c.Rng.Intn)
		cs := p.split(c, filepath.Join(scratch, fmt.Sprintf("g%d", i)))
		if i%2 == 0 {
			cs.Pre = []string{"absent", "same-program", "other-program", "other-program"}[c.Rng.Intn(4)]
			cs.PreAppend = c.Rng.Intn(3) != 0
			cs.PreMode = []string{"set", "count"}[c.Rng.Intn(2)]
		}
		cases = append(cases, cs)
	}
	results := make([]result, len(cases))
	vh.Parallel(len(cases), func(i int) {
		dir := filepath.Join(scratch, fmt.Sprintf("g%d", i-nfix))
		if i < nfix {
			dir = filepath.Join(scratch, fmt.Sprintf("fix%d", i))
		}
		results[i] = runCase(cases[i], dir, i%8 == 0)
		os.RemoveAll(dir)
	})
	var reqs []string
	for i, cs := range cases {
		r := results[i]
		p := cs.p
		bs := p.blocks()
		loops, jumps := 0, 0
		var walk func(ss []*stmt)
		walk = func(ss []*stmt) {
			for _, s := range ss {
				c.Hit("stmt:" + s.Kind)
				switch s.Kind {
				case "while", "for", "forin", "do":
					loops++
				case "jump":
					jumps++
					c.Hit("jump:" + s.Jump)
				}
				walk(s.Body)
				walk(s.Els)
			}
		}
		for _, it := range p.Items {
			c.Hit("item:" + it.Kind)
			if it.NilBody {
				c.Hit("item:pattern-only")
			} else if len(it.Body) == 0 {
				c.Hit("item:empty-body")
			}
			walk(it.Body)
		}
		c.Hit(fmt.Sprintf("files:%d", len(cs.Order)))
		if cs.CrossCut {
			c.Hit("files:boundary-inside-an-item")
		}
		if cs.EmptyFiles > 0 {
			c.Hit("files:has-empty-file")
			if cs.Order[0][0] == 'e' && cs.Files[cs.Order[0]] == "" {
				c.Hit("files:first-file-empty")
			}
		}
		if cs.CommentFiles > 0 {
			c.Hit("files:has-comment-only-file")
		}
		if cs.NoFinalNewline {
			c.Hit("files:some-without-final-newline")
		}
		if cs.Pre != "" {
			c.Hit(fmt.Sprintf("preexisting-profile:%s/append=%v/%s", cs.Pre, cs.PreAppend, cs.PreMode))
			zero := 0
			for _, pl := range r.countProf {
				if pl.Count == 0 {
					zero++
				}
			}
			if zero > 0 {
				c.Hit("preexisting-profile:program-has-unexecuted-blocks")
			}
		}
		c.Hit(fmt.Sprintf("exit-status:%d", r.plain.Status))
		hit := 0
		for _, v := range r.twinCounts {
			if v > 1 {
				hit++
			}
		}
		if hit > 0 {
			c.Hit("has-block-executed-more-than-once")
		}
		c.Eval(strings.Join(p.Lines, "\n")+"|"+strings.Join(cs.Order, ","), (loops > 0 || jumps > 0) && len(bs) >= 4)
		c.OracleCase()
		if i%53 == 0 {
			c.Sample(map[string]interface{}{"case": cs, "blocks": len(bs), "statements": p.NStmts, "stdout": r.plain.Out, "status": r.plain.Status})
		}
		for _, f := range check(cs, r) {
			c.Fail(vh.Failure{Kind: "oracle", What: f.what, Finding: f.finding, Case: cs, Got: f.got, Want: f.want})
		}
		reqs = append(reqs, p.leanReq())
	}
	runIdioms(c, scratch)
	if c.HasLean() {
		for i, a := range c.LeanBatch(reqs) {
			cs, r := cases[i], results[i]
			p := cs.p
			parts := strings.Split(a, " ; ")
			if len(parts) != 3 {
				c.Fail(vh.Failure{Kind: "correspondence", What: "model answer unreadable", Case: cs, Got: a})
				continue
			}
			c.Trace()
			// blocks: order and members vs the profile (first statement by start line, statement count)
			byID := map[int]*stmt{}
			for _, s := range p.byLine {
				byID[s.ID] = s
			}
			var want []string
			for _, b := range strings.Fields(strings.TrimPrefix(parts[0], "blocks")) {
				ids := strings.Split(b, ",")
				first, _ := strconv.Atoi(ids[0])
				s := byID[first]
				f := p.Files[p.fileOfLine(s.line)]
				want = append(want, fmt.Sprintf("%s:%d/%d", filepath.Base(f.Name), s.line-f.Start+1, len(ids)))
			}
			var got []string
			for _, pl := range r.countProf {
				got = append(got, fmt.Sprintf("%s:%d/%d", filepath.Base(pl.Path), pl.SL, pl.N))
			}
			if strings.Join(got, " ") != strings.Join(want, " ") {
				c.Fail(vh.Failure{Kind: "correspondence", What: "block list (order, first statement, statement count): model and profile disagree", Case: cs,
					Got: strings.Join(got, " "), Want: strings.Join(want, " ")})
			}
			// the annotated tree in printing order vs goawk -d
			gt := strings.Join(tokensOfDump(r.dump.Out), " ")
			wt := strings.Join(normLeanFlat(strings.TrimPrefix(parts[1], "flat")), " ")
			if gt != wt {
				c.Fail(vh.Failure{Kind: "correspondence", What: "annotated program (goawk -d) differs from the model's annotated tree", Case: cs, Got: gt, Want: wt})
			}
			if parts[2] != "erased ok" {
				c.Fail(vh.Failure{Kind: "correspondence", What: "model self-check: erasing the counters does not give back the tree", Case: cs, Got: parts[2]})
			}
		}
		// model self-check of the trace semantics on random bodies and scripts (no implementation in the loop; not counted as traces)
		var rreqs []string
		for k := 0; k < c.N(300, 5000); k++ {
			g := &gen{c: c}
			var b strings.Builder
			encStmts(g.body(ctxT{inLoop: false, inAction: true, inFunc: true}, 5), &b)
			sc := make([]string, 4+c.Rng.Intn(20))
			for i := range sc {
				sc[i] = fmt.Sprint(c.Rng.Intn(3))
			}
			rreqs = append(rreqs, "run 400 "+strings.Join(sc, ",")+b.String())
		}
		for i, a := range c.LeanBatch(rreqs) {
			parts := strings.Split(a, " ; ")
			if a == "fuel" {
				c.Hit("model-run:out-of-fuel")
				continue
			}
			c.Hit("model-run:ok")
			bad := len(parts) != 4 || parts[2] != "erasedtrace ok"
			if !bad {
				cs := strings.Split(parts[1], ",")
				ss := strings.Split(strings.TrimPrefix(parts[3], "starts "), ",")
				if len(cs) != len(ss) {
					bad = true
				} else {
					for j := range cs {
						if parts[1] != "" && strings.SplitN(cs[j], "=", 2)[1] != strings.SplitN(ss[j], "=", 2)[1] {
							bad = true
						}
					}
				}
			}
			if bad {
				c.Fail(vh.Failure{Kind: "correspondence", What: "model self-check: trace of the annotated body is not the original trace plus exact counters", Case: rreqs[i], Got: a})
			}
		}
	}
	c.Note(fmt.Sprintf("%d programs (%d fixed), goawk built from %s", len(cases), nfix, func() string {
		if r := os.Getenv("VERIF_REPO"); r != "" {
			return r
		}
		return "/repo"
	}()))
}
