package main

// C18, stream "idioms" — transparency of coverage on the SYNTACTIC IDIOMS a compiler or VM may special-case.
//
// The annotator puts a counter statement in front of the first statement of every basic block. Whatever the compiler, the
// resolver or the VM recognises by SHAPE — a loop or branch whose body is one particular statement, an action that is a single
// print, a body that is empty, an increment or assignment fused into one instruction, a comparison fused into the branch — has
// a different shape in the annotated tree (the body has two statements; its first one is the counter). The property says that
// does not matter: the plain run and the runs with -covermode set / count print the same, to stdout and to stderr, and exit with
// the same status.
//
// A case is a program assembled from PROBES. A probe = a few set-up statements, one idiom (a control-flow header with a body
// of 0, 1 or 2 statements in every lay-out: `;`, `{}`, same line, next line, braces) and an observation of everything the idiom
// may leave behind: the loop variable (unset vs "" vs a key; exact value when the order of keys cannot matter), the lengths of
// the arrays, counters, NR, NF, $0, the exit status. Probes sit in BEGIN, in pattern-action rules (run per record, variables
// carried over), in END, or in a function whose parameters are the probe's variables (locals, array parameters created on
// demand). Rules whose whole action is an idiom (`pat`, `pat {}`, `pat { print }`, `pat { next }`, …) are items of their own.
// Bodies of loops over more than one key are chosen so that neither the output nor the control flow depends on the order
// of the keys.
//
// Oracle (real binary only): stdout, stderr and exit status of the three runs are equal; the two profiles name the same blocks
// and the set-mode value is (count != 0). A failing program is cut down to the first probe that fails on its own.

import (
	"bytes"
	"context"
	"fmt"
	"os"
	"os/exec"
	"path/filepath"
	"regexp"
	"strings"
	"time"

	"verifharness/vh"
)

type unitT struct {
	Where   string   // begin | end | rule | item (a whole top-level item given literally)
	Pattern string   // rule only
	Lines   []string // statements (rule/begin/end) or the item's source lines
	Funcs   []string // function definitions the unit needs
	Tags    []string // distribution keys
	ID      string   // probes: the observation line starts with "P<ID> "
	Model   *forinModel
}

type ig struct {
	c *vh.Ctx
	n int
}

func (g *ig) pick(xs ...string) string { return xs[g.c.Rng.Intn(len(xs))] }

// weighted pick: pairs (weight, index)
func (g *ig) wpick(ws []int) int {
	t := 0
	for _, w := range ws {
		t += w
	}
	x := g.c.Rng.Intn(t)
	for i, w := range ws {
		if x < w {
			return i
		}
		x -= w
	}
	return len(ws) - 1
}

// ---- lay-outs ------------------------------------------------------------------------------------------------------------

// wrap lays out `header body` where body has 0, 1 or 2 statements; the returned tag names the lay-out.
func (g *ig) wrap(header string, body []string) ([]string, string) {
	r := g.c.Rng
	switch len(body) {
	case 0:
		switch r.Intn(6) {
		case 0:
			return []string{header + ";"}, "semicolon"
		case 1:
			return []string{header + " ;"}, "semicolon"
		case 2:
			return []string{header, "\t;"}, "semicolon-next-line"
		case 3:
			return []string{header + " {}"}, "empty-braces"
		case 4:
			return []string{header + " {", "}"}, "empty-braces"
		default:
			return []string{header + " { ; }"}, "braces-semicolon"
		}
	case 1:
		switch r.Intn(5) {
		case 0:
			return []string{header + " " + body[0]}, "bare-same-line"
		case 1:
			return []string{header, "\t" + body[0]}, "bare-next-line"
		case 2:
			return []string{header + " { " + body[0] + " }"}, "braces-one-line"
		case 3:
			return []string{header + " {", "\t" + body[0], "}"}, "braces"
		default:
			return []string{header + " { " + body[0] + "; }"}, "braces-one-line"
		}
	default:
		if r.Intn(2) == 0 {
			return []string{header + " { " + strings.Join(body, "; ") + " }"}, "braces-one-line"
		}
		out := []string{header + " {"}
		for _, b := range body {
			out = append(out, "\t"+b)
		}
		return append(out, "}"), "braces"
	}
}

func (g *ig) wrapIfElse(header string, b1, b2 []string) ([]string, string) {
	r := g.c.Rng
	bare := func(b []string) (string, bool) {
		switch len(b) {
		case 0:
			return ";", true
		case 1:
			// a bare `if` inside a bare then-branch would capture the else
			return b[0] + ";", !strings.HasPrefix(b[0], "if ")
		}
		return "", false
	}
	s1, ok1 := bare(b1)
	s2, ok2 := bare(b2)
	if ok1 && ok2 && r.Intn(2) == 0 {
		s2 = strings.TrimSuffix(s2, ";")
		if s2 == "" {
			s2 = ";"
		}
		if r.Intn(2) == 0 {
			return []string{header + " " + s1 + " else " + s2}, "bare-same-line"
		}
		return []string{header, "\t" + s1, "else", "\t" + s2}, "bare-next-line"
	}
	br := func(b []string) string {
		if len(b) == 0 {
			return "{}"
		}
		return "{ " + strings.Join(b, "; ") + " }"
	}
	if r.Intn(2) == 0 {
		return []string{header + " " + br(b1) + " else " + br(b2)}, "braces-one-line"
	}
	out := []string{header + " {"}
	for _, b := range b1 {
		out = append(out, "\t"+b)
	}
	out = append(out, "} else {")
	for _, b := range b2 {
		out = append(out, "\t"+b)
	}
	return append(out, "}"), "braces"
}

func (g *ig) wrapDo(body []string, cond string) ([]string, string) {
	r := g.c.Rng
	tail := "while (" + cond + ")"
	switch len(body) {
	case 0:
		if r.Intn(2) == 0 {
			return []string{"do ; " + tail}, "semicolon"
		}
		return []string{"do {} " + tail}, "empty-braces"
	case 1:
		switch r.Intn(3) {
		case 0:
			return []string{"do " + body[0] + "; " + tail}, "bare-same-line"
		case 1:
			return []string{"do", "\t" + body[0], tail}, "bare-next-line"
		}
		return []string{"do { " + body[0] + " } " + tail}, "braces-one-line"
	}
	out := []string{"do {"}
	for _, b := range body {
		out = append(out, "\t"+b)
	}
	return append(out, "} "+tail), "braces"
}

// ---- probes --------------------------------------------------------------------------------------------------------------

// forinModel: what the Lean model of the for-in idioms (GoawkModel.C18Idiom) needs to predict the probe's first observation line
type forinModel struct {
	Keys   []string // keys of A and of B (key i is number i+1 in the model)
	Pre    int      // the loop variable before: 0 unset, 1 "old" (100 in the model), 2 the number 7 (107)
	Body   string
	Masked bool // the observation masks digits (more than one key: which key is left depends on the order)
}

type probeT struct {
	model    *forinModel
	lines    []string
	tags     []string
	needRule bool // uses next
	noFunc   bool
}

// for-in loops
func (g *ig) forin() probeT {
	r := g.c.Rng
	var p probeT
	size := []int{0, 1, 1, 3, 3}[r.Intn(5)]
	var keys []string
	switch size {
	case 1:
		keys = []string{g.pick("root", "root", "10", "a.b")}
	case 3:
		keys = []string{"p1", "p2", "p3"}
	}
	if size == 0 {
		p.lines = append(p.lines, `split("", A#); split("", B#)`)
	}
	for _, k := range keys {
		p.lines = append(p.lines, fmt.Sprintf(`A#["%s"] = 1; B#["%s"] = 1`, k, k))
	}
	pre := r.Intn(4)
	switch pre {
	case 1:
		p.lines = append(p.lines, `k# = "old"`)
	case 2:
		p.lines = append(p.lines, `k# = 7`)
	}
	type bodyT struct {
		tag   string
		stmts []string
		w     int
		model string // the body in the Lean model's statement language ("?" = not modelled)
	}
	bodies := []bodyT{
		{"delete-own-key", []string{`delete A#[k#]`}, 5, "delOwn"},
		{"delete-own-key-grouped", []string{`delete A#[(k#)]`}, 1, "delOwn"},
		{"delete-own-key-concat", []string{`delete A#[k# ""]`}, 1, "delOwn"},
		{"delete-other-key", []string{`delete B#[k#]`}, 2, "delOther"},
		{"delete-whole-own", []string{`delete A#`}, 1, "clearOwn"},
		{"delete-whole-other", []string{`delete B#`}, 1, "clearOther"},
		{"empty", nil, 4, ""},
		{"incr", []string{`n#++`}, 2, "incN"},
		{"aug-assign", []string{`n# += length(k#)`}, 1, "?"},
		{"copy-key", []string{`x# = k#`}, 1, "copyKey"},
		{"set-other", []string{`B#[k#] = 2`}, 1, "touchOther"},
		{"bare-ref-other", []string{`B#[k#]`}, 1, "touchOther"},
		{"concat", []string{`s# = s# "x"`}, 1, "catS"},
		{"break", []string{`break`}, 1, "brk"},
		{"continue", []string{`continue`}, 1, "cont"},
		{"if-break", []string{`if (n#++ >= 1) break`}, 2, "ifBrk"},
		{"if-continue", []string{`if (n#++ >= 1) continue`}, 1, "ifCont"},
		{"set-record", []string{`$0 = "r " n#++`}, 1, "incN"},
		{"print-stderr", []string{`print "E: it#" > "/dev/stderr"`}, 1, "nop"},
		{"nested-block-delete", []string{`{ delete A#[k#] }`}, 1, "delOwn"},
		{"delete-then-incr", []string{`delete A#[k#]`, `n#++`}, 2, "delOwn incN"},
		{"incr-then-delete", []string{`n#++`, `delete A#[k#]`}, 1, "incN delOwn"},
		{"incr-then-break", []string{`n#++`, `break`}, 1, "incN brk"},
		{"if-break-then-incr", []string{`if (n#++ >= 1) break`, `m#++`}, 2, "ifBrk incM"},
		{"if-continue-then-incr", []string{`if (n#++ >= 1) continue`, `m#++`}, 1, "ifCont incM"},
	}
	ws := make([]int, len(bodies))
	for i, b := range bodies {
		ws[i] = b.w
	}
	b := bodies[g.wpick(ws)]
	ls, lay := g.wrap("for (k# in A#)", b.stmts)
	p.lines = append(p.lines, ls...)
	f := "cls"
	if size == 3 {
		f = "kc" // digits masked: which of the keys is left in the variable depends on the order
	}
	p.lines = append(p.lines, fmt.Sprintf(`print "P#", %s(k#), length(A#), length(B#), n# + 0, m# + 0, %s(x#), cls(s#), NF, "[" $0 "]"`, f, f))
	switch r.Intn(4) {
	case 0:
		p.lines = append(p.lines, `if (k# == "") E++`)
	case 1:
		if size == 1 {
			p.lines = append(p.lines, `print "P#t", (k# < 9), (k# == 10), (k# == 0), length(k#)`)
		}
	}
	if b.model != "?" {
		p.model = &forinModel{Keys: keys, Pre: pre % 3, Body: b.model, Masked: size == 3}
	}
	p.tags = []string{"forin/body=" + b.tag, fmt.Sprintf("forin/keys=%d", size), "forin/layout=" + lay,
		"forin/loop-variable-before=" + []string{"unset", "string", "number", "unset"}[pre]}
	return p
}

// counting loops: while / for / do-while / for(;;) with a fused comparison
func (g *ig) counting() probeT {
	r := g.c.Rng
	var p probeT
	bound := g.pick("0", "1", "3", "3", "2.5", `"3"`, "-1", "N#")
	if bound == "N#" {
		p.lines = append(p.lines, "N# = "+g.pick("0", "1", "3", "2.5", `"3"`))
	}
	init := g.pick("", "", "0", "1", "5", "0.5", `""`, `"2"`)
	general := [][]string{nil, nil, {`m#++`}, {`m# += i#`}, {`s# = s# i#`}, {`continue`}, {`break`}, {`if (i# == 2) break`}, {`if (i# == 2) continue`},
		{`if (i# == 2) break`, `m#++`}, {`if (i# == 2) continue`, `m#++`}, {`if (i# == 2) m# = 10; else m#++`}, {`$0 = "rec " i#`}, {`print "w#", i#`}, {`{ }`},
		{`m#++`, `s# = s# "."`}, {`A#[i#] = 1`}, {`if (i# in A#) m#++`}}
	var lay, form string
	var ls []string
	switch form = g.pick("step-in-body", "step-in-body", "step-in-cond", "for", "for", "do", "endless-with-break", "descending"); form {
	case "step-in-body":
		cmp := g.pick("<", "<", "<", "<=", "<=", "!=")
		step := g.pick("i#++", "i#++", "i#++", "++i#", "i# += 1", "i# = i# + 1", "i# += 2")
		if cmp == "!=" {
			bound = g.pick("0", "1", "3")
			init = g.pick("", "0")
			step = g.pick("i#++", "++i#", "i# += 1")
		}
		body := [][]string{{step}, {step}, {step}, {step, "m#++"}, {"m#++", step}}[r.Intn(5)]
		hdr := fmt.Sprintf("while (i# %s %s)", cmp, bound)
		if r.Intn(4) == 0 {
			hdr = fmt.Sprintf("for (; i# %s %s; )", cmp, bound)
		}
		ls, lay = g.wrap(hdr, body)
		p.tags = append(p.tags, "counting/cmp="+cmp, fmt.Sprintf("counting/body-statements=%d", len(body)))
	case "step-in-cond":
		hdr := g.pick("while (i#++ < %s)", "while (++i# <= %s)", "while (i#++ < %s)")
		body := general[r.Intn(len(general))]
		ls, lay = g.wrap(fmt.Sprintf(hdr, bound), body)
		p.tags = append(p.tags, fmt.Sprintf("counting/body-statements=%d", len(body)))
	case "for":
		a := g.pick("0", "0", "1", "0.5")
		init = ""
		hdr := fmt.Sprintf(g.pick("for (i# = %s; i# < %s; i#++)", "for (i# = %s; i# <= %s; ++i#)", "for (i# = %s; i# < %s; i# += 1)"), a, bound)
		body := general[r.Intn(len(general))]
		ls, lay = g.wrap(hdr, body)
		p.tags = append(p.tags, fmt.Sprintf("counting/body-statements=%d", len(body)))
	case "do":
		if r.Intn(2) == 0 {
			ls, lay = g.wrapDo(general[r.Intn(len(general))], "i#++ < "+bound)
		} else {
			ls, lay = g.wrapDo([][]string{{"i#++"}, {"i#++", "m#++"}, {"i# += 1"}}[r.Intn(3)], "i# < "+bound)
		}
	case "endless-with-break":
		hdr := g.pick("for (;;)", "while (1)")
		body := [][]string{{"if (i#++ >= " + bound + ") break"}, {"if (++i# > " + bound + ") break", "m#++"}, {"m#++", "if (i#++ >= " + bound + ") break"}}[r.Intn(3)]
		ls, lay = g.wrap(hdr, body)
	default: // descending
		init = g.pick("3", "2.5", `"5"`)
		bound = g.pick("0", "1", "-1", "0.5")
		step := g.pick("i#--", "--i#", "i# -= 1")
		body := [][]string{{step}, {step}, {step, "m#++"}}[r.Intn(3)]
		ls, lay = g.wrap(fmt.Sprintf("while (i# %s %s)", g.pick(">", ">="), bound), body)
	}
	if init != "" {
		p.lines = append(p.lines, "i# = "+init)
	}
	p.lines = append(p.lines, ls...)
	p.lines = append(p.lines, `print "P#", cls(i#), m# + 0, cls(s#), length(A#), NF, "[" $0 "]"`)
	bt := "integer"
	switch strings.TrimSuffix(bound, "#") {
	case "2.5", "0.5":
		bt = "fraction"
	case `"3"`:
		bt = "string"
	case "N":
		bt = "variable"
	}
	it := "number"
	switch init {
	case "":
		it = "unset"
	case `""`, `"2"`, `"5"`:
		it = "string"
	case "0.5", "2.5":
		it = "fraction"
	}
	p.tags = append(p.tags, "counting/form="+form, "counting/layout="+lay, "counting/bound="+bt, "counting/start="+it)
	return p
}

var condPool = []string{`x# < 2`, `x# <= 1`, `x# > 1`, `x# >= 2`, `x# == "a"`, `x# != ""`, `x# == 0`, `!x#`, `x#`, `x# && y#`, `x# || y#`, `!x# && !y#`,
	`("p1" in A#)`, `!("zz" in A#)`, `$1 ~ /a/`, `/b/`, `!/a/`, `x# ~ "^a"`, `x# % 2`, `x#++ < 1`, `(x# = 3) > 2`, `length(x#) > 1`, `-x#`, `x# ""`,
	`"0"`, `0`, `1 < 2`, `NF > 1`, `NR % 2 == 1`, `x# < y#`, `x# == y#`, `$2 > 1`, `$1 == "b"`, `substr(x#, 1, 1) == "a"`, `(x# < 2) == 1`}

// branches: if / else / else-if / ?: / && and || as statements, with a fused comparison
func (g *ig) branch(inRule bool) probeT {
	r := g.c.Rng
	var p probeT
	if v := g.pick("", "0", "1", "2", `"a"`, `""`, `"0"`, "0.0", `"ab"`, "2.5"); v != "" {
		p.lines = append(p.lines, "x# = "+v)
	}
	if v := g.pick("", "", "1", "0", `"a"`); v != "" {
		p.lines = append(p.lines, "y# = "+v)
	}
	p.lines = append(p.lines, `A#["p1"] = 1`)
	cond := g.pick(condPool...)
	thens := [][]string{{`r# = "T"`}, {`r# = "T"`}, {`print "T#"`}, nil, {`r# = "T"`, `q#++`}, {`q#++`}, {`q# += 2`}, {`$0 = "t #"`}, {`print`}, {`delete A#`}, {`{ r# = "T" }`}}
	elses := [][]string{{`r# = "F"`}, {`r# = "F"`}, {`print "F#"`}, nil, {`r# = "F"`, `q#--`}, {`q#--`}, {`$0 = "f #"`}}
	if inRule && r.Intn(3) == 0 {
		thens = append(thens, []string{`next`}, []string{`next`}, []string{`print "T#"`, `next`})
		elses = append(elses, []string{`next`})
	}
	var ls []string
	var lay string
	form := g.pick("if", "if", "if-else", "if-else", "else-if", "ternary-assign", "ternary-print", "and-statement", "or-statement", "if-in-block")
	b1 := thens[r.Intn(len(thens))]
	b2 := elses[r.Intn(len(elses))]
	uses := func(bs ...[]string) bool {
		for _, b := range bs {
			for _, s := range b {
				if strings.Contains(s, "next") {
					return true
				}
			}
		}
		return false
	}
	switch form {
	case "if":
		ls, lay = g.wrap("if ("+cond+")", b1)
		p.needRule = uses(b1)
	case "if-else":
		ls, lay = g.wrapIfElse("if ("+cond+")", b1, b2)
		p.needRule = uses(b1, b2)
	case "else-if":
		c2 := g.pick(condPool...)
		ls = []string{fmt.Sprintf(`if (%s) r# = "T"; else if (%s) r# = "U"; else r# = "F"`, cond, c2)}
		if r.Intn(2) == 0 {
			ls = []string{fmt.Sprintf(`if (%s) {`, cond), "\t" + `r# = "T"`, fmt.Sprintf(`} else if (%s) {`, c2), "\t" + `r# = "U"`, "} else", "\t" + `r# = "F"`}
		}
		lay = "chain"
	case "ternary-assign":
		ls, lay = []string{fmt.Sprintf(`r# = (%s) ? "T" : "F"`, cond)}, "expression"
	case "ternary-print":
		ls, lay = []string{fmt.Sprintf(`print "P#q", ((%s) ? "T" : "F")`, cond)}, "expression"
	case "and-statement":
		ls, lay = []string{fmt.Sprintf(`(%s) && (r# = "T")`, cond)}, "expression"
	case "or-statement":
		ls, lay = []string{fmt.Sprintf(`(%s) || (r# = "F")`, cond)}, "expression"
	default:
		ls, lay = g.wrap("if ("+cond+")", b1)
		p.needRule = uses(b1)
		ls = append(append([]string{"{"}, ls...), "}")
	}
	p.lines = append(p.lines, ls...)
	p.lines = append(p.lines, `print "P#", cls(r#), q# + 0, cls(x#), length(A#), NF, "[" $0 "]"`)
	p.tags = []string{"branch/form=" + form, "branch/layout=" + lay, "branch/cond=" + strings.ReplaceAll(cond, "#", "")}
	return p
}

// statements the compiler fuses into one instruction, as the first (or only) statement of a block
func (g *ig) fused() probeT {
	r := g.c.Rng
	var p probeT
	if v := g.pick("", "3", `"4"`, "2.5"); v != "" {
		p.lines = append(p.lines, "x# = "+v)
	}
	targets := []string{"x#", "x#", `A#["e"]`, `A#[1,2]`, "$2", "$(1+1)", "$(NF+1)"}
	t := targets[r.Intn(len(targets))]
	pool := []string{t + "++", t + "--", "++" + t, "--" + t, t + " += 2", t + " -= 2", t + " *= 3", t + " /= 2", t + " %= 3", t + " ^= 2", t + " = " + t + " + 1",
		t + ` = "v"`, t + " = y# = 3", `NF += 1`, `NF = 2`, `NF++`, `$0 = "a b c"`, `$0 = $0`, `$3 = ""`, `$(NF+2) = "x"`, `$0 = ""`, `x# = $1`, `$1 = x#`,
		`print`, `print $0`, `print $1, $2`, `print "E: p#" > "/dev/stderr"`, `printf "%s|%s\n", $1, NF`, `print ""`, `print(1)(2)`, `print x# y#`, `print -1 " " -1`,
		`print > "/dev/stdout"`, `printf "q#\n"`, `getline l# < "data.txt"`, `sub(/a/, "b")`, `gsub(/a/, "b", x#)`, `split("a b", A#)`, `A#["z"]`, `1`, `"str"`, `x#`, `srand(1)`,
		`close("data.txt")`, `delete A#`, `delete A#["e"]`, `l# = substr("hello", 2)`, `x# = x# "s"`, `y# = -x#`, `y# = !x#`, `y# = x# < 3`, `y# = (x# ~ /3/)`}
	s := pool[r.Intn(len(pool))]
	var ls []string
	var lay string
	switch r.Intn(6) {
	case 0:
		ls, lay = []string{s}, "plain"
	case 1:
		ls, lay = []string{"{", "\t" + s, "}"}, "block"
	case 2:
		ls, lay = g.wrap("if (1)", []string{s})
		lay = "if-true/" + lay
	case 3:
		ls, lay = g.wrap("if (!1) ; else", []string{s})
		lay = "else/" + lay
	case 4:
		ls, lay = g.wrap("for (j# = 0; j# < 2; j#++)", []string{s})
		lay = "for-twice/" + lay
	default:
		ls, lay = g.wrapDo([]string{s}, "0")
		lay = "do-once/" + lay
	}
	p.lines = append(p.lines, ls...)
	p.lines = append(p.lines, `close("data.txt")`,
		`print "P#", cls(x#), cls(y#), cls(l#), cls(A#["e"]), cls(A#[1,2]), length(A#), NF, "[" $0 "]"`)
	kind := "other"
	switch {
	case strings.HasPrefix(s, "print"):
		kind = "print"
	case strings.Contains(s, "++") || strings.Contains(s, "--"):
		kind = "incr-decr"
	case regexp.MustCompile(` [-+*/%^]= `).MatchString(s):
		kind = "aug-assign"
	case strings.HasPrefix(s, "$") || strings.HasPrefix(s, "NF"):
		kind = "record-or-field-assign"
	case strings.Contains(s, " = "):
		kind = "assign"
	}
	p.tags = []string{"fused/kind=" + kind, "fused/layout=" + strings.SplitN(lay, "/", 2)[0]}
	return p
}

// getline loops
func (g *ig) getline() probeT {
	r := g.c.Rng
	var p probeT
	src := g.pick(`(getline l#)`, `(getline)`, `(getline l# < "data.txt")`, `(getline l# < "data.txt")`, `(getline < "data.txt")`)
	bodies := [][]string{nil, nil, {`n#++`}, {`n#++`}, {`last# = l#`}, {`n#++`, `last# = l#`}, {`if (n#++ >= 1) break`}, {`print "g#", l#`}, {`$0 = l#`}, {`n# += NF`}, {`break`}, {`continue`}}
	b := bodies[r.Intn(len(bodies))]
	cmp := g.pick(" > 0", " > 0", " == 1", " >= 1")
	ls, lay := g.wrap("while ("+src+cmp+")", b)
	if r.Intn(6) == 0 {
		ls, lay = g.wrap("if ("+src+cmp+")", b[:min(len(b), 1)])
		if len(b) > 0 && (b[0] == "break" || b[0] == "continue" || strings.Contains(b[0], "break")) {
			ls, lay = g.wrap("if ("+src+cmp+")", []string{"n#++"})
		}
	}
	p.lines = append(p.lines, ls...)
	p.lines = append(p.lines, `close("data.txt")`, `print "P#", n# + 0, cls(l#), cls(last#), NR, NF, "[" $0 "]"`)
	st := "stdin"
	if strings.Contains(src, "data.txt") {
		st = "file"
	}
	if strings.Contains(src, "l#") {
		st += "-into-variable"
	} else {
		st += "-into-record"
	}
	p.tags = []string{"getline/source=" + st, "getline/layout=" + lay, fmt.Sprintf("getline/body-statements=%d", len(b))}
	return p
}

func min(a, b int) int {
	if a < b {
		return a
	}
	return b
}

var idiomPats = []string{"", "", "NR % 2", "/a/", "!/a/", "NR == 2, NR == 3", "$2 > 1", "NR == 1", "NF", `$1 == "b"`, "1", "0", `"x"`, "R# = NR % 2", "NR > 1 && /b/",
	"/a/, /zz/", "NR == 2, 0", "NR == 3"}

// rules whose whole action is an idiom
func (g *ig) ruleItem() unitT {
	r := g.c.Rng
	g.n++
	id := fmt.Sprint(g.n)
	pat := g.pick(idiomPats...)
	acts := []struct {
		tag  string
		body []string
		w    int
	}{
		{"missing", nil, 3}, {"empty-braces", []string{}, 3}, {"semicolon", []string{";"}, 1}, {"print", []string{"print"}, 4}, {"print-record", []string{"print $0"}, 2},
		{"print-field", []string{"print $1"}, 1}, {"print-literal", []string{`print "r#", NR`}, 1}, {"incr", []string{"n#++"}, 2}, {"next", []string{"next"}, 2},
		{"exit", []string{"exit"}, 1}, {"exit-status", []string{"exit 3"}, 1}, {"empty-block", []string{"{ }"}, 1}, {"block-print", []string{"{ print }"}, 1},
		{"set-record", []string{`$0 = "q " NR`}, 1}, {"clear-field", []string{`$2 = ""`}, 1}, {"set-nf", []string{"NF = 1"}, 1}, {"getline", []string{"getline"}, 1},
		{"getline-var", []string{"getline l#"}, 1}, {"print-next", []string{"print", "next"}, 1}, {"incr-print", []string{"n#++", "print n#"}, 1},
		{"if-print", []string{`if (/a/) print "A"`}, 1}, {"if-next", []string{"if (/a/) next"}, 1}, {"empty-while", []string{"while (j#++ < 2);"}, 1},
		{"delete-all-loop", []string{"for (k# in Z) delete Z[k#]"}, 1}, {"printf", []string{`printf "%s;", $1`}, 1},
	}
	ws := make([]int, len(acts))
	for i, a := range acts {
		ws[i] = a.w
	}
	a := acts[g.wpick(ws)]
	if a.body == nil && pat == "" {
		pat = "NR % 2"
	}
	var lines []string
	lay := "one-line"
	switch {
	case a.body == nil:
		lines = []string{pat}
	case len(a.body) == 0:
		lines = []string{strings.TrimSpace(pat + g.pick(" {}", " { }"))}
		if r.Intn(3) == 0 {
			lines = []string{strings.TrimSpace(pat + " {"), "}"}
			lay = "multi-line"
		}
	case r.Intn(2) == 0:
		lines = []string{strings.TrimSpace(pat + " { " + strings.Join(a.body, "; ") + " }")}
	default:
		lines = []string{strings.TrimSpace(pat + " {")}
		for _, b := range a.body {
			lines = append(lines, "\t"+b)
		}
		lines = append(lines, "}")
		lay = "multi-line"
	}
	for i := range lines {
		lines[i] = strings.ReplaceAll(lines[i], "#", id)
	}
	pt := "none"
	switch {
	case strings.Contains(pat, ","):
		pt = "range"
	case pat != "":
		pt = "expression"
	}
	return unitT{Where: "item", Lines: lines, Tags: []string{"rule/action=" + a.tag, "rule/pattern=" + pt, "rule/layout=" + lay}}
}

// BEGIN / END items whose whole body is an idiom
func (g *ig) specialItem() unitT {
	g.n++
	id := fmt.Sprint(g.n)
	forms := []string{"BEGIN { }", "BEGIN {}", "BEGIN { ; }", "BEGIN { x# = 1 }", "BEGIN { x#++ }", `BEGIN { print "b#" }`, "BEGIN { getline }", "BEGIN { getline l# }",
		`BEGIN { getline; print "got", $0, NR }`, "BEGIN { while ((getline l#) > 0) ; print NR, cls(l#) }", "BEGIN { while ((getline l#) > 0) n#++; print n# + 0, NR, cls(l#) }",
		"BEGIN { { } }", "BEGIN { $0 = \"x y z\" }", "BEGIN { NF = 2 }", "BEGIN { exit }", "BEGIN { if (0) exit 1 }",
		"END { }", "END {}", "END { print NR }", "END { print }", "END { print $0 }", "END { print $1 }", "END { print NF }", `END { $0 = "x y"; print NF }`,
		"END { while ((getline l#) > 0) n#++; print n# + 0 }", "END { { } }", "END { n#++ }", "END { exit }", "END { getline; print NR }", `END { $2 = "w"; print }`}
	f := g.pick(forms...)
	kind := strings.Fields(f)[0]
	shape := "one-statement"
	switch {
	case strings.Contains(f, "getline"):
		shape = "getline"
	case strings.Contains(f, "{ }") || strings.Contains(f, "{}") || strings.Contains(f, "{ ; }"):
		shape = "empty"
	case strings.Contains(f, ";"):
		shape = "two-statements"
	}
	return unitT{Where: "item", Lines: []string{strings.ReplaceAll(f, "#", id)}, Tags: []string{"special-item/" + kind + "=" + shape}}
}

var idiomVarRe = regexp.MustCompile(`\b[A-Za-z]+#`)

// place puts a probe into a container: directly, or as the body of a function whose parameters are all the probe's variables.
func (g *ig) place(p probeT, where, pattern string) unitT {
	g.n++
	id := fmt.Sprint(g.n)
	u := unitT{Where: where, Pattern: pattern, Tags: p.tags, ID: id, Model: p.model}
	lines := p.lines
	inFunc := !p.needRule && !p.noFunc && g.c.Rng.Intn(4) == 0
	if inFunc {
		seen := map[string]bool{}
		var params []string
		inStr := regexp.MustCompile(`"[^"]*"`)
		for _, l := range lines {
			for _, v := range idiomVarRe.FindAllString(inStr.ReplaceAllString(l, `""`), -1) {
				if !seen[v] {
					seen[v] = true
					params = append(params, v)
				}
			}
		}
		fn := []string{"function f#(" + strings.Join(params, ", ") + ") {"}
		for _, l := range lines {
			fn = append(fn, "\t"+l)
		}
		fn = append(fn, "}")
		for i := range fn {
			fn[i] = strings.ReplaceAll(fn[i], "#", id)
		}
		u.Funcs = fn
		lines = []string{g.pick("f#()", "f#()", "z# = f#()")}
		u.Tags = append(append([]string{}, u.Tags...), "container=function-called-from-"+where)
	} else {
		u.Tags = append(append([]string{}, u.Tags...), "container="+where)
	}
	for _, l := range lines {
		u.Lines = append(u.Lines, strings.ReplaceAll(l, "#", id))
	}
	return u
}

func (g *ig) probe(inRule bool) probeT {
	switch g.wpick([]int{5, 4, 4, 3, 2}) {
	case 0:
		return g.forin()
	case 1:
		return g.counting()
	case 2:
		return g.branch(inRule)
	case 3:
		return g.fused()
	}
	return g.getline()
}

type idiomCase struct {
	Program string `json:"program"`
	Input   string `json:"stdin"`
	Data    string `json:"data.txt"`
	Cmd     string `json:"cmd"`
	Stream  string `json:"stream"`
	Reduced bool   `json:"reduced_to_one_probe,omitempty"`

	units []unitT
	final bool
}

const idiomPrelude = `function cls(v) { if (v == 0 && v == "") return "unset"; if (v == "") return "empty"; return "[" v "]" }
function kc(v) { if (v == 0 && v == "") return "unset"; if (v == "") return "empty"; gsub(/[0-9]/, "#", v); return "[" v "]" }`

func assembleIdioms(units []unitT, finalExit bool) string {
	var b strings.Builder
	b.WriteString(idiomPrelude + "\n")
	emit := func(hdr string, us []unitT) {
		if len(us) == 0 {
			return
		}
		b.WriteString(strings.TrimSpace(hdr+" {") + "\n")
		for _, u := range us {
			for _, l := range u.Lines {
				b.WriteString("\t" + l + "\n")
			}
		}
		b.WriteString("}\n")
	}
	var begin, end []unitT
	for _, u := range units {
		switch u.Where {
		case "begin":
			begin = append(begin, u)
		case "end":
			end = append(end, u)
		}
	}
	emit("BEGIN", begin)
	for _, u := range units {
		switch u.Where {
		case "rule":
			emit(u.Pattern, []unitT{u})
		case "item":
			b.WriteString(strings.Join(u.Lines, "\n") + "\n")
		}
	}
	// the observing rule: what every record looks like after the rules above
	b.WriteString(`{ print "o", NR, NF, "[" $0 "]" }` + "\n")
	emit("END", end)
	if finalExit {
		b.WriteString(`END { print "end", NR, NF, "[" $0 "]", E + 0; exit (E > 3 ? 3 : E + 0) }` + "\n")
	} else {
		b.WriteString(`END { print "end", NR, NF, "[" $0 "]", E + 0 }` + "\n")
	}
	for _, u := range units {
		if len(u.Funcs) > 0 {
			b.WriteString(strings.Join(u.Funcs, "\n") + "\n")
		}
	}
	return b.String()
}

func (g *ig) program() *idiomCase {
	r := g.c.Rng
	var us []unitT
	for i := 4 + r.Intn(5); i > 0; i-- {
		us = append(us, g.place(g.probe(false), "begin", ""))
	}
	for i := 1 + r.Intn(4); i > 0; i-- {
		us = append(us, g.ruleItem())
	}
	for i := 2 + r.Intn(3); i > 0; i-- {
		g.n++
		pat := strings.ReplaceAll(g.pick(idiomPats...), "#", fmt.Sprint(g.n))
		us = append(us, g.place(g.probe(true), "rule", pat))
	}
	if r.Intn(3) == 0 {
		us = append(us, g.specialItem())
	}
	for i := 3 + r.Intn(4); i > 0; i-- {
		us = append(us, g.place(g.probe(false), "end", ""))
	}
	// rules and items in shuffled order (BEGIN / END probes are gathered into one BEGIN and one END)
	r.Shuffle(len(us), func(i, j int) { us[i], us[j] = us[j], us[i] })
	cs := &idiomCase{units: us, final: r.Intn(2) == 0, Data: "l1\nl2 x\nl3\n", Stream: "idioms",
		Cmd: "goawk [-covermode set|count -coverprofile FILE] -f p.awk < stdin (data.txt in the working directory)"}
	cs.Input = []string{c18Input, c18Input, c18Input, "", "a b c\n", "a 1\nb 2"}[r.Intn(6)]
	cs.Program = assembleIdioms(us, cs.final)
	return cs
}

// ---- running ---------------------------------------------------------------------------------------------------------------

type idiomRun struct {
	plain, set, count runT
	timedOut          [3]bool
	profMsg           string
}

func runGoawkT(dir, stdin string, args ...string) (runT, bool) {
	ctx, cancel := context.WithTimeout(context.Background(), 60*time.Second)
	defer cancel()
	cmd := exec.CommandContext(ctx, goawkBin, args...)
	cmd.Dir = dir
	cmd.Stdin = strings.NewReader(stdin)
	var o, e bytes.Buffer
	cmd.Stdout, cmd.Stderr = &o, &e
	err := cmd.Run()
	st := 0
	if err != nil {
		if ee, ok := err.(*exec.ExitError); ok {
			st = ee.ExitCode()
		} else {
			st = -1
		}
	}
	return runT{o.String(), e.String(), st}, ctx.Err() != nil
}

func runIdiom(cs *idiomCase, dir string) (r idiomRun) {
	os.MkdirAll(dir, 0o755)
	defer os.RemoveAll(dir)
	os.WriteFile(filepath.Join(dir, "p.awk"), []byte(cs.Program), 0o644)
	os.WriteFile(filepath.Join(dir, "data.txt"), []byte(cs.Data), 0o644)
	r.plain, r.timedOut[0] = runGoawkT(dir, cs.Input, "-f", "p.awk")
	r.set, r.timedOut[1] = runGoawkT(dir, cs.Input, "-covermode", "set", "-coverprofile", "set.out", "-f", "p.awk")
	r.count, r.timedOut[2] = runGoawkT(dir, cs.Input, "-covermode", "count", "-coverprofile", "count.out", "-f", "p.awk")
	if r.timedOut[0] || r.timedOut[1] || r.timedOut[2] {
		return
	}
	if r.plain.Status >= 0 && r.plain.Status <= 3 && r.plain.Status == r.set.Status && r.plain.Status == r.count.Status && !strings.Contains(r.plain.Err, "goawk:") {
		sm, sp, sml, e1 := parseProfile(filepath.Join(dir, "set.out"))
		cm, cp, cml, e2 := parseProfile(filepath.Join(dir, "count.out"))
		switch {
		case e1 != nil || e2 != nil || sml != 1 || cml != 1 || sm != "set" || cm != "count":
			r.profMsg = fmt.Sprintf("profiles unreadable or wrong mode line: set: %v %q (%d mode lines), count: %v %q (%d mode lines)", e1, sm, sml, e2, cm, cml)
		case len(sp) != len(cp):
			r.profMsg = fmt.Sprintf("set-mode profile has %d blocks, count-mode profile %d", len(sp), len(cp))
		default:
			for i := range sp {
				s, c := sp[i], cp[i]
				want := 0
				if c.Count != 0 {
					want = 1
				}
				if s.Count != want {
					r.profMsg = fmt.Sprintf("set-mode value is not (count != 0): set %+v, count %+v", s, c)
					break
				}
				s.Count, c.Count = 0, 0
				if s != c || s.N < 1 || s.SL < 1 || s.EL < s.SL || (s.SL == s.EL && s.SC >= s.EC) {
					r.profMsg = fmt.Sprintf("set-mode and count-mode profiles name different blocks, or a block is empty or ends before it starts: set %+v, count %+v", s, c)
					break
				}
			}
		}
	}
	return
}

// checkIdiom: the oracle. ok == true when the three runs agree.
func checkIdiom(r idiomRun) (what, got, want string, ok bool) {
	show := func(x runT) string { return fmt.Sprintf("stdout=%q stderr=%q status=%d", x.Out, x.Err, x.Status) }
	if r.timedOut[0] && r.timedOut[1] && r.timedOut[2] {
		return "generator: the program does not terminate (plain and with coverage)", "no result after 60 s", "a run that ends", false
	}
	for i, m := range []struct {
		name string
		r    runT
	}{{"set", r.set}, {"count", r.count}} {
		if r.timedOut[0] != r.timedOut[i+1] {
			return "idiom program: with coverage (" + m.name + " mode) the program " + map[bool]string{true: "does not terminate, plainly it does", false: "terminates, plainly it does not"}[r.timedOut[i+1]],
				show(m.r), show(r.plain), false
		}
		if m.r.Out != r.plain.Out || m.r.Status != r.plain.Status || m.r.Err != r.plain.Err {
			d := []string{}
			if m.r.Out != r.plain.Out {
				d = append(d, "stdout")
			}
			if m.r.Err != r.plain.Err {
				d = append(d, "stderr")
			}
			if m.r.Status != r.plain.Status {
				d = append(d, "exit status")
			}
			return "idiom program: coverage (" + m.name + " mode) changed the program's " + strings.Join(d, ", "), show(m.r), show(r.plain), false
		}
	}
	for _, ln := range strings.Split(r.plain.Err, "\n") {
		if ln != "" && !strings.HasPrefix(ln, "E: ") {
			return "generator: the idiom program fails (plain and with coverage alike)", show(r.plain), "a run without an error message", false
		}
	}
	if r.profMsg != "" {
		return "idiom program: set-mode and count-mode profiles are inconsistent", r.profMsg, "the same blocks, set value = (count != 0)", false
	}
	return "", "", "", true
}

func runIdioms(c *vh.Ctx, scratch string) {
	g := &ig{c: c}
	var cases []*idiomCase
	// fixed corpus: the idioms themselves, one per program, in their most common spelling
	for _, f := range []string{
		`A["root"] = 1; for (k in A) delete A[k]; print cls(k), length(A); if (k == "") exit 1`,
		`A["root"] = 1; for (k in A); print cls(k), length(A)`,
		`A["p1"]; A["p2"]; for (k in A) if (n++ >= 1) break; print kc(k), n`,
		`while (i < 2.5) i++; print i`,
		`for (i = 0; i < 3; i++) if (i == 1) continue; print i`,
		`while ((getline l) > 0) n++; print n, NR, cls(l)`,
		`if (x == 0) y = 1; print cls(y)`,
	} {
		cs := &idiomCase{units: []unitT{{Where: "begin", Lines: []string{f}, Tags: []string{"fixed"}}}, Input: c18Input, Data: "l1\n", Stream: "idioms",
			Cmd: "goawk [-covermode set|count -coverprofile FILE] -f p.awk < stdin"}
		cs.Program = assembleIdioms(cs.units, false)
		cases = append(cases, cs)
	}
	n := c.N(90, 1000)
	for i := 0; i < n; i++ {
		cases = append(cases, g.program())
	}
	runs := make([]idiomRun, len(cases))
	vh.Parallel(len(cases), func(i int) { runs[i] = runIdiom(cases[i], filepath.Join(scratch, fmt.Sprintf("idiom%d", i))) })
	probes, cut := 0, 0
	for i, cs := range cases {
		r := runs[i]
		for _, u := range cs.units {
			probes++
			for _, t := range u.Tags {
				c.Hit("idiom:" + t)
			}
			if u.ID != "" {
				if strings.Contains("\n"+r.plain.Out, "\nP"+u.ID+" ") {
					c.Hit("idiom:probe-reached-and-observed")
				} else {
					c.Hit("idiom:probe-not-reached")
				}
			}
		}
		c.Hit(fmt.Sprintf("idiom:exit-status=%d", r.plain.Status))
		c.Eval("idiom|"+cs.Program+"|"+cs.Input, true)
		c.OracleCase()
		if i == len(cases)-1 {
			c.Sample(map[string]interface{}{"case": cs, "stdout": r.plain.Out, "stderr": r.plain.Err, "status": r.plain.Status})
		}
		what, got, want, ok := checkIdiom(r)
		if ok {
			continue
		}
		// a miss may be the machine (a run killed by the time limit under load): look again before reporting
		r = runIdiom(cs, filepath.Join(scratch, fmt.Sprintf("idiom%d-again", i)))
		if what, got, want, ok = checkIdiom(r); ok {
			c.Hit("idiom:disagreement-not-reproduced")
			continue
		}
		// cut down (the first few failures only): the first probe that fails on its own
		rep := cs
		if cut < 3 {
			cut++
			smalls := make([]*idiomCase, len(cs.units))
			srs := make([]idiomRun, len(cs.units))
			vh.Parallel(len(cs.units), func(k int) {
				small := &idiomCase{units: []unitT{cs.units[k]}, final: cs.final, Input: cs.Input, Data: cs.Data, Cmd: cs.Cmd, Stream: cs.Stream, Reduced: true}
				small.Program = assembleIdioms(small.units, small.final)
				smalls[k] = small
				srs[k] = runIdiom(small, filepath.Join(scratch, fmt.Sprintf("idiom%d-cut%d", i, k)))
			})
			for k := range smalls {
				if w2, g2, x2, ok2 := checkIdiom(srs[k]); !ok2 && strings.HasPrefix(w2, "generator") == strings.HasPrefix(what, "generator") {
					rep, what, got, want = smalls[k], w2, g2, x2
					break
				}
			}
		}
		c.Fail(vh.Failure{Kind: "oracle", What: what, Case: rep, Got: got, Want: want})
	}
	modelled := idiomModelCheck(c, cases, runs)
	c.Note(fmt.Sprintf("idioms stream: %d for-in probes compared with the Lean model of the for-in idioms (every order of the keys)", modelled))
	c.Note(fmt.Sprintf("idioms stream: %d programs, %d probes, 3 runs of the binary each (plain, -covermode set, -covermode count)", len(cases), probes))
}

// ---- correspondence: the Lean model of the for-in idioms vs the plain run ------------------------------------------------------

var perms3 = []string{"1,2,3", "1,3,2", "2,1,3", "2,3,1", "3,1,2", "3,2,1"}

func (m *forinModel) render(ans string) (string, bool) {
	f := map[string]string{}
	for _, w := range strings.Fields(ans) {
		if kv := strings.SplitN(w, "=", 2); len(kv) == 2 {
			f[kv[0]] = kv[1]
		}
	}
	if !strings.HasSuffix(ans, "annotated ok") || len(f) < 8 {
		return ans, false
	}
	mask := func(s string) string {
		if m.Masked {
			return regexp.MustCompile(`[0-9]`).ReplaceAllString(s, "#")
		}
		return s
	}
	val := func(v string) string {
		switch v {
		case "u":
			return "unset"
		case "100":
			return "[old]"
		case "107":
			return "[" + mask("7") + "]"
		}
		var i int
		fmt.Sscan(v, &i)
		if i < 1 || i > len(m.Keys) {
			return "?" + v
		}
		return "[" + mask(m.Keys[i-1]) + "]"
	}
	sv := "unset"
	if f["s"] != "0" {
		var n int
		fmt.Sscan(f["s"], &n)
		sv = "[" + strings.Repeat("x", n) + "]"
	}
	return strings.Join([]string{val(f["k"]), f["a"], f["b"], f["n"], f["m"], val(f["x"]), sv}, " "), true
}

func idiomModelCheck(c *vh.Ctx, cases []*idiomCase, runs []idiomRun) int {
	if !c.HasLean() {
		return 0
	}
	type refT struct {
		cs    *idiomCase
		u     unitT
		got   string
		first int // index of the first request
		n     int
	}
	var refs []refT
	var reqs []string
	for i, cs := range cases {
		for _, u := range cs.units {
			if u.Model == nil {
				continue
			}
			var line string
			for _, ln := range strings.Split(runs[i].plain.Out, "\n") {
				if strings.HasPrefix(ln, "P"+u.ID+" ") {
					line = ln
					break
				}
			}
			fs := strings.Fields(line)
			if len(fs) < 8 {
				continue // the probe was not reached
			}
			m := u.Model
			var ks []string
			for k := range m.Keys {
				ks = append(ks, fmt.Sprint(k+1))
			}
			keys := "-"
			orders := []string{"-"}
			switch len(ks) {
			case 1:
				keys, orders = "1", []string{"1"}
			case 3:
				keys, orders = "1,2,3", perms3
			}
			ref := refT{cs: cs, u: u, got: strings.Join(fs[1:8], " "), first: len(reqs), n: len(orders)}
			for _, o := range orders {
				reqs = append(reqs, strings.TrimSpace(fmt.Sprintf("forin %s %s %s %s %s", o, keys, keys, []string{"u", "100", "107"}[m.Pre], m.Body)))
			}
			refs = append(refs, ref)
		}
	}
	if len(reqs) == 0 {
		return 0
	}
	ans := c.LeanBatch(reqs)
	for _, ref := range refs {
		c.Trace()
		c.Hit("idiom:model-compared/forin")
		rep := map[string]interface{}{"program": ref.cs.Program, "stdin": ref.cs.Input, "probe": ref.u.ID, "model_requests": reqs[ref.first : ref.first+ref.n]}
		want, ok := ref.u.Model.render(ans[ref.first])
		if !ok {
			c.Fail(vh.Failure{Kind: "correspondence", What: "for-in idiom model: unreadable answer, or the model's own annotated run differs from its plain run", Case: rep, Got: ans[ref.first]})
			continue
		}
		same := true
		for k := 1; k < ref.n; k++ {
			if w2, _ := ref.u.Model.render(ans[ref.first+k]); w2 != want {
				same = false
				c.Fail(vh.Failure{Kind: "correspondence", What: "for-in idiom model: the observation depends on the order of the keys (generator rule broken)", Case: rep, Got: w2, Want: want})
				break
			}
		}
		if same && ref.got != want {
			c.Fail(vh.Failure{Kind: "correspondence", What: "for-in idiom: the plain run's observation (loop variable, array lengths, counters) differs from the model", Case: rep, Got: ref.got, Want: want})
		}
	}
	return len(refs)
}
