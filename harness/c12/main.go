package main

// C12 — NoExec / NoFileWrites / NoFileReads confine every program.
//
// A case = (flags, custom OpenFile present?, shell startable?, ARGV operands, BEGIN ops, END ops). It is rendered as an AWK
// program whose file and command names are computed at run time, and run through the public API in a fresh temp dir with
//   * a recording Config.OpenFile wrapper (when the case has the hook),
//   * a Config.ShellCommand that appends every command it is asked to run to a sentinel file before running it,
//   * a native function t(i, r, v) the program calls after each operation (one in-process event log),
//   * a listing (names + contents) of the temp dir before and after.
//
// Implementation-side oracle (no model): no forbidden event is observed; an operation that would need a denied capability
// ends the run with an error at that operation; every file touched shows up in the hook's log.
// Correspondence: the Lean model's effect trace (GoawkModel.C12.trace) against the same observations, operation by operation.

import (
	"context"
	"encoding/json"
	"fmt"
	"os"
	"path/filepath"
	"sort"
	"strings"
	"sync"
	"time"

	"github.com/benhoyt/goawk/interp"
	"github.com/benhoyt/goawk/parser"

	"verifharness/vh"
)

// ---- cases --------------------------------------------------------------------------------------------------------

type c12Op struct {
	K    string `json:"k"`              // gt app pipe gf gc sys gl close ff
	N    string `json:"n,omitempty"`    // symbolic name
	Form int    `json:"form,omitempty"` // how the name / statement is spelled
}

// c12Cfg: the sandbox part of one Execute call's Config
type c12Cfg struct {
	NoExec   bool   `json:"no_exec"`
	NoWrites bool   `json:"no_writes"`
	NoReads  bool   `json:"no_reads"`
	Hook     bool   `json:"hook"`
	ShellOK  bool   `json:"shell_ok"`
	Entry    string `json:"entry,omitempty"` // the entry point this earlier call goes through (see c12Entries)
}

type c12Case struct {
	Reuse    []c12Cfg `json:"reuse,omitempty"` // earlier Execute calls on the SAME Interpreter (same program), each with its own config
	Entry    string   `json:"entry,omitempty"` // the public entry point the run under test goes through: "" = interp.New + Execute (see c12Entries)
	NoExec   bool     `json:"no_exec"`
	NoWrites bool     `json:"no_writes"`
	NoReads  bool     `json:"no_reads"`
	Hook     bool     `json:"hook"`
	ShellOK  bool     `json:"shell_ok"`
	Args     []string `json:"args"`
	Begin    []c12Op  `json:"begin"`
	End      []c12Op  `json:"end"`
	// phases and early exits (judged by the oracle only; the Lean model covers BEGIN ops, the whole main loop, END ops)
	ExitBegin *int      `json:"exit_begin,omitempty"` // BEGIN ends with exit (-1: no status): the main loop is skipped, END still runs
	Rule      []c12Op   `json:"rule,omitempty"`       // operations performed while the first record is processed
	RulePlace string    `json:"rule_place,omitempty"` // action | pattern (a function called from the pattern) | func (called from the action)
	RuleEnd   string    `json:"rule_end,omitempty"`   // what the rule does after them: "" | exit | exit2 | next | nextfile
	InFunc    bool      `json:"in_func,omitempty"`    // the BEGIN and END operations sit in functions called from those blocks
	ArgvBegin []c12Edit `json:"argv_begin,omitempty"` // ARGV/ARGC edits at the start of BEGIN
	ArgvRule  []c12Edit `json:"argv_rule,omitempty"`  // operands appended while the first record is processed
}

// c12Edit: append (ARGV[ARGC++] = n) | set (ARGV[i] = n) | readd (delete ARGV[i]; ARGV[i] = n)
type c12Edit struct {
	K string `json:"k"`
	I int    `json:"i,omitempty"`
	N string `json:"n"`
}

func (cs *c12Case) ruleExits() bool { return cs.RuleEnd == "exit" || cs.RuleEnd == "exit2" }

// hasRule: something happens while the first record is processed (operations, ARGV edits, exit / next / nextfile)
func (cs *c12Case) hasRule() bool {
	return len(cs.Rule) > 0 || len(cs.ArgvRule) > 0 || cs.RuleEnd != ""
}

// modelled: the case is within what the Lean model expresses (correspondence is run on it)
func (cs *c12Case) modelled() bool {
	return cs.ExitBegin == nil && len(cs.Rule) == 0 && len(cs.ArgvRule) == 0 && cs.RuleEnd == ""
}

// effArgs: the operands the main loop sees (after the edits that are executed)
func (cs *c12Case) effArgs() []string { return cs.effArgsIf(true) }

// effArgsIf: ruleRan says whether the first-record block was reached (there may be no record at all)
func (cs *c12Case) effArgsIf(ruleRan bool) []string {
	args := append([]string{}, cs.Args...)
	apply := func(es []c12Edit) {
		for _, e := range es {
			switch {
			case e.K == "append":
				args = append(args, e.N)
			case e.I >= 1 && e.I <= len(args):
				args[e.I-1] = e.N
			default:
				// ARGV[i] beyond ARGC-1: ARGC is unchanged, the main loop never looks at it
			}
		}
	}
	apply(cs.ArgvBegin)
	if cs.ExitBegin == nil && !cs.ruleExits() && ruleRan {
		apply(cs.ArgvRule)
	}
	return args
}

func (cs *c12Case) mainIndex() int {
	for i, op := range cs.ops() {
		if op.K == "main" {
			return i
		}
	}
	return -1
}

var (
	c12NewFiles  = []string{"o0", "o1"}
	c12InFiles   = []string{"in0", "in1", "in2"}
	c12WriteCmds = []string{"cw0", "cw1"}
	c12ReadCmds  = []string{"cr0", "cr1"}
	c12SysCmds   = []string{"sy0", "sy1"}
	c12Specials  = []string{"-", "/dev/stdout", "/dev/stderr", ""}
)

func c12IsCmd(sym string) bool {
	return strings.HasPrefix(sym, "cw") || strings.HasPrefix(sym, "cr") || strings.HasPrefix(sym, "sy")
}

func c12IsSpecial(sym string) bool {
	return sym == "-" || sym == "/dev/stdout" || sym == "/dev/stderr" || sym == ""
}

// real spelling of a symbolic name in temp dir d
func c12Real(d, sym string) string {
	switch {
	case c12IsSpecial(sym):
		return sym
	case strings.HasPrefix(sym, "cw"):
		return "cat >> " + d + "/" + sym + ".out"
	case strings.HasPrefix(sym, "cr"):
		return "echo T_" + sym + " #/x"
	case sym == "sy0":
		return "exit 3 #/x"
	case sym == "sy1":
		return "true #/x"
	}
	return d + "/" + sym
}

func c12Sym(d, real string) string {
	for _, group := range [][]string{c12NewFiles, c12InFiles, c12WriteCmds, c12ReadCmds, c12SysCmds, c12Specials, {"m0", "nd/x"}} {
		for _, s := range group {
			if c12Real(d, s) == real {
				return s
			}
		}
	}
	return "?" + real
}

// does the OS accept a write-open of this name
func c12WriteOK(sym string) bool {
	return !(sym == "" || sym == "nd/x" || c12IsCmd(sym))
}

// name expression computed at run time
func c12NameExpr(d, sym string, form int, vars *[]string, idx int) string {
	real := c12Real(d, sym)
	q := func(s string) string { return `"` + s + `"` } // names never contain quotes or backslashes
	switch form % 5 {
	case 0:
		return q(real)
	case 1:
		cut := len(real) / 2
		return "(" + q(real[:cut]) + " " + q(real[cut:]) + ")"
	case 2:
		v := fmt.Sprintf("nm%d", idx)
		*vars = append(*vars, v, real)
		return v
	case 3:
		cut := len(real) / 3
		return "sprintf(\"%s%s\", " + q(real[:cut]) + ", " + q(real[cut:]) + ")"
	default:
		return "substr(" + q("##"+real) + ", 3)"
	}
}

func c12Render(cs *c12Case, d string) (src string, vars []string) {
	idx := 0
	emit := func(b *strings.Builder, ops []c12Op) {
		for _, op := range ops {
			i := idx
			idx++
			n := ""
			if op.K != "gl" {
				n = c12NameExpr(d, op.N, op.Form, &vars, i)
			}
			switch op.K {
			case "gt", "app", "pipe":
				r := map[string]string{"gt": ">", "app": ">>", "pipe": "|"}[op.K]
				if op.Form%2 == 0 {
					fmt.Fprintf(b, "  print \"W%d\" %s %s; t(%d, 0, \"\")\n", i, r, n, i)
				} else {
					fmt.Fprintf(b, "  printf \"%%s\\n\", \"W%d\" %s %s; t(%d, 0, \"\")\n", i, r, n, i)
				}
			case "gf":
				if op.Form%3 == 2 {
					fmt.Fprintf(b, "  $0 = \"\"; r = (getline < %s); t(%d, r, $0)\n", n, i)
				} else {
					fmt.Fprintf(b, "  v = \"\"; r = (getline v < %s); t(%d, r, v)\n", n, i)
				}
			case "gc":
				if op.Form%3 == 2 {
					fmt.Fprintf(b, "  $0 = \"\"; r = (%s | getline); t(%d, r, $0)\n", n, i)
				} else {
					fmt.Fprintf(b, "  v = \"\"; r = (%s | getline v); t(%d, r, v)\n", n, i)
				}
			case "sys":
				fmt.Fprintf(b, "  r = system(%s); t(%d, r, \"\")\n", n, i)
			case "gl":
				fmt.Fprintf(b, "  v = \"\"; r = (getline v); t(%d, r, v)\n", i)
			case "close":
				fmt.Fprintf(b, "  r = close(%s); t(%d, r, \"\")\n", n, i)
			case "ff":
				fmt.Fprintf(b, "  r = fflush(%s); t(%d, r, \"\")\n", n, i)
			}
		}
	}
	edits := func(b *strings.Builder, es []c12Edit, base int) {
		for k, e := range es {
			n := c12NameExpr(d, e.N, k+1, &vars, base+k)
			switch e.K {
			case "append":
				fmt.Fprintf(b, "  ARGV[ARGC++] = %s\n", n)
			case "set":
				fmt.Fprintf(b, "  ARGV[%d] = %s\n", e.I, n)
			default:
				fmt.Fprintf(b, "  delete ARGV[%d]; ARGV[%d] = %s\n", e.I, e.I, n)
			}
		}
	}
	var bb, rb, eb, eBegin, eRule strings.Builder
	emit(&bb, cs.Begin)
	if cs.ExitBegin == nil {
		if cs.hasRule() {
			idx++ // "first": reading the first record
		}
		emit(&rb, cs.Rule)
		if !cs.ruleExits() {
			idx++ // the (rest of the) main loop is an operation of its own
		}
	}
	emit(&eb, cs.End)
	edits(&eBegin, cs.ArgvBegin, 1000)
	edits(&eRule, cs.ArgvRule, 2000)

	var b strings.Builder
	if cs.InFunc {
		b.WriteString("function fbegin() {\n" + bb.String() + "}\nfunction fend() {\n" + eb.String() + "}\n")
	}
	b.WriteString("BEGIN {\n  rdone = 0\n" + eBegin.String()) // rdone: the first record has been processed (reset: Interpreters are reused)
	if cs.InFunc {
		b.WriteString("  fbegin()\n")
	} else {
		b.WriteString(bb.String())
	}
	if cs.ExitBegin != nil {
		if *cs.ExitBegin < 0 {
			b.WriteString("  exit\n")
		} else {
			fmt.Fprintf(&b, "  exit %d\n", *cs.ExitBegin)
		}
	}
	b.WriteString("}\n")
	ruleBody := eRule.String() + rb.String()
	if cs.hasRule() {
		ruleBody = "  t(-4, 0, \"\")\n" + ruleBody
	}
	ruleEnd := map[string]string{"": "", "exit": "    exit\n", "exit2": "    exit 2\n", "next": "    next\n", "nextfile": "    nextfile\n"}[cs.RuleEnd]
	hasRule := ruleBody != "" || ruleEnd != ""
	switch {
	case !hasRule:
		b.WriteString("{ t(-1, NR, FILENAME \":\" $0) }\n")
	case cs.RulePlace == "pattern":
		b.WriteString("function fpat() {\n  if (!rdone) {\n" + ruleBody + "  }\n  return 1\n}\n")
		b.WriteString("fpat() {\n  t(-1, NR, FILENAME \":\" $0)\n  if (!rdone) {\n    rdone = 1\n" + ruleEnd + "  }\n}\n")
	case cs.RulePlace == "func":
		b.WriteString("function frule() {\n" + ruleBody + "}\n")
		b.WriteString("{\n  t(-1, NR, FILENAME \":\" $0)\n  if (!rdone) {\n    rdone = 1\n    frule()\n" + ruleEnd + "  }\n}\n")
	default:
		b.WriteString("{\n  t(-1, NR, FILENAME \":\" $0)\n  if (!rdone) {\n    rdone = 1\n" + ruleBody + ruleEnd + "  }\n}\n")
	}
	b.WriteString("END {\n  t(-3, 0, \"\")\n")
	if cs.InFunc {
		b.WriteString("  fend()\n")
	} else {
		b.WriteString(eb.String())
	}
	b.WriteString("  t(-2, 0, \"\")\n}\n")
	return b.String(), vars
}

// ---- running the real code --------------------------------------------------------------------------------------

type lockedWriter struct {
	mu sync.Mutex
	b  []byte
}

func (w *lockedWriter) Write(p []byte) (int, error) {
	w.mu.Lock()
	w.b = append(w.b, p...)
	w.mu.Unlock()
	return len(p), nil
}
func (w *lockedWriter) reset()         { w.mu.Lock(); w.b = nil; w.mu.Unlock() }
func (w *lockedWriter) String() string { w.mu.Lock(); defer w.mu.Unlock(); return string(w.b) }

type c12Event struct {
	T    bool // a t() call (else an OpenFile call)
	I    int
	R    float64
	V    string
	Name string // symbolic
	Mode string // rd tr ap
	OK   bool
}

type c12Obs struct {
	Events  []c12Event
	Stdout  string
	Stderr  string
	Err     string
	Panic   string
	Execs   []string          // symbolic names from the sentinel, sorted
	Before  map[string]string // temp dir listing: relative name -> content
	After   map[string]string
	Src     string
	ForkErr int
	Stale   []string // opens that went to the OpenFile function of an EARLIER Execute call
}

func c12List(d string) map[string]string {
	m := map[string]string{}
	filepath.Walk(d, func(p string, info os.FileInfo, err error) error {
		if err != nil || info.IsDir() {
			return nil
		}
		b, _ := os.ReadFile(p)
		m[strings.TrimPrefix(p, d+"/")] = string(b)
		return nil
	})
	return m
}

var c12ParseMu sync.Mutex

// ---- entry points -------------------------------------------------------------------------------------------------------
//
// The property speaks of programs, not of one way of running them: every case can be sent through each public way of
// executing a parsed program. "execute" (also spelled "") = Interpreter.Execute; "execprogram" = interp.ExecProgram (a fresh
// interpreter, also when the case has earlier Execute calls); the ctx-* entries = Interpreter.ExecuteContext with
// context.Background(), context.TODO(), and three contexts that stay live for the whole run: WithTimeout(1h), WithCancel
// (cancelled only after the run has returned), WithValue (no deadline, no Done channel of its own).
var c12Entries = []string{"execute", "execprogram", "ctx-background", "ctx-todo", "ctx-timeout", "ctx-cancel", "ctx-value"}

type c12CtxKey struct{}

func c12Exec(entry string, p *interp.Interpreter, prog *parser.Program, cfg *interp.Config) (int, error) {
	switch entry {
	case "", "execute":
		return p.Execute(cfg)
	case "execprogram":
		return interp.ExecProgram(prog, cfg)
	case "ctx-background":
		return p.ExecuteContext(context.Background(), cfg)
	case "ctx-todo":
		return p.ExecuteContext(context.TODO(), cfg)
	case "ctx-timeout":
		ctx, cancel := context.WithTimeout(context.Background(), time.Hour)
		defer cancel()
		return p.ExecuteContext(ctx, cfg)
	case "ctx-cancel":
		ctx, cancel := context.WithCancel(context.Background())
		defer cancel()
		return p.ExecuteContext(ctx, cfg)
	case "ctx-value":
		return p.ExecuteContext(context.WithValue(context.Background(), c12CtxKey{}, 1), cfg)
	case "ctx-done":
		// a context that is already cancelled (stream main only, and only for cases that start no process): a refused
		// operation still ends the run with an error — the context's. The context is looked at every 1000 instructions only,
		// so the short harness programs are otherwise not cut off.
		ctx, cancel := context.WithCancel(context.Background())
		cancel()
		return p.ExecuteContext(ctx, cfg)
	}
	panic("harness: unknown entry point " + entry)
}

func c12EntryName(e string) string {
	if e == "" {
		return "execute"
	}
	return e
}

// c12ModelEntry: the entry point as the Lean model knows it (GoawkModel.C12.Entry) and whether the context is done
func c12ModelEntry(e string) (entry, done string) {
	switch e {
	case "", "execute":
		return "execute", "0"
	case "execprogram", "ctx-background", "ctx-todo":
		return e, "0"
	case "ctx-done":
		return "ctx-other", "1"
	}
	return "ctx-other", "0"
}

func (cs *c12Case) startsProcess() bool {
	for _, op := range cs.ops() {
		if op.K == "pipe" || op.K == "sys" || op.K == "gc" {
			return true
		}
	}
	return false
}

// c12ExecFresh: one run on a fresh interpreter through the given entry point; panics of the code under test are recovered
func c12ExecFresh(entry string, prog *parser.Program, cfg *interp.Config) (res vh.RunResult) {
	if entry == "" || entry == "execprogram" {
		return vh.ExecProg(prog, cfg) // interp.ExecProgram, with the run-away watchdog
	}
	defer func() {
		if r := recover(); r != nil {
			res.Panic = fmt.Sprint(r)
		}
	}()
	p, err := interp.New(prog)
	if err != nil {
		res.Err = "interp.New: " + err.Error()
		return res
	}
	status, err := c12Exec(entry, p, prog, cfg)
	res.Status = status
	if err != nil {
		res.Err = err.Error()
	}
	return res
}

func c12Run(cs *c12Case) (obs c12Obs) {
	d, err := os.MkdirTemp("", "c12_")
	if err != nil {
		panic(err)
	}
	defer os.RemoveAll(d)
	for _, f := range c12InFiles {
		os.WriteFile(d+"/"+f, []byte("S_"+f+"\n"), 0o644)
	}
	os.WriteFile(d+"/stdin.txt", []byte("STDIN1\nSTDIN2\n"), 0o644)
	stdin, _ := os.Open(d + "/stdin.txt")
	defer stdin.Close()
	src, vars := c12Render(cs, d)
	obs.Src = src
	var mu sync.Mutex
	tfunc := func(i int, r float64, v string) {
		mu.Lock()
		obs.Events = append(obs.Events, c12Event{T: true, I: i, R: r, V: v})
		mu.Unlock()
	}
	funcs := map[string]interface{}{"t": tfunc}
	prog, err := parser.ParseProgram([]byte(src), &parser.ParserConfig{Funcs: funcs})
	if err != nil {
		panic(fmt.Sprintf("harness program does not parse: %v\n%s", err, src))
	}
	var out, errw lockedWriter
	args := make([]string, len(cs.Args))
	for i, a := range cs.Args {
		args[i] = c12Real(d, a)
	}
	sent := d + "/SENT"
	current := 0 // index of the Execute call in progress
	mkCfg := func(k int, c c12Cfg, in *os.File) *interp.Config {
		cfg := &interp.Config{
			Stdin: in, Output: &out, Error: &errw, Environ: []string{}, Vars: vars, Args: args, Funcs: funcs,
			NoExec: c.NoExec, NoFileWrites: c.NoWrites, NoFileReads: c.NoReads,
			ShellCommand: []string{"/bin/sh", "-c", `printf '%s\n' "$0" >> ` + sent + `; exec /bin/sh -c "$0"`},
		}
		if !c.ShellOK {
			cfg.ShellCommand = []string{d + "/no-such-shell", "-c"}
		}
		if c.Hook {
			cfg.OpenFile = func(name string, flag int, perm os.FileMode) (*os.File, error) {
				f, err := os.OpenFile(name, flag, perm)
				mode := "rd"
				if flag&(os.O_WRONLY|os.O_RDWR|os.O_CREATE|os.O_TRUNC|os.O_APPEND) != 0 {
					mode = "ap"
					if flag&os.O_TRUNC != 0 {
						mode = "tr"
					}
					if flag&os.O_APPEND == 0 && flag&os.O_TRUNC == 0 {
						mode = "wr?"
					}
				}
				mu.Lock()
				if k != current {
					obs.Stale = append(obs.Stale, fmt.Sprintf("run %d's OpenFile called during run %d: %s", k, current, c12Sym(d, name)))
				} else {
					obs.Events = append(obs.Events, c12Event{Name: c12Sym(d, name), Mode: mode, OK: err == nil})
				}
				mu.Unlock()
				return f, err
			}
		}
		return cfg
	}
	resetDir := func() {
		ents, _ := os.ReadDir(d)
		for _, e := range ents {
			os.RemoveAll(d + "/" + e.Name())
		}
		for _, f := range c12InFiles {
			os.WriteFile(d+"/"+f, []byte("S_"+f+"\n"), 0o644)
		}
		os.WriteFile(d+"/stdin.txt", []byte("STDIN1\nSTDIN2\n"), 0o644)
	}
	func() {
		defer func() {
			if r := recover(); r != nil {
				obs.Panic = fmt.Sprint(r)
			}
		}()
		p, err := interp.New(prog)
		if err != nil {
			obs.Err = "interp.New: " + err.Error()
			return
		}
		// earlier Execute calls on the same Interpreter, each with its own sandbox configuration
		for k, c := range cs.Reuse {
			current = k
			in, _ := os.Open(d + "/stdin.txt")
			c12Exec(c.Entry, p, prog, mkCfg(k, c, in))
			in.Close()
			resetDir()
		}
		mu.Lock()
		obs.Events = nil
		current = len(cs.Reuse)
		mu.Unlock()
		out.reset()
		errw.reset()
		obs.Before = c12List(d)
		cfg := mkCfg(len(cs.Reuse), c12Cfg{NoExec: cs.NoExec, NoWrites: cs.NoWrites, NoReads: cs.NoReads, Hook: cs.Hook, ShellOK: cs.ShellOK}, stdin)
		_, err = c12Exec(cs.Entry, p, prog, cfg)
		if err != nil {
			obs.Err = err.Error()
		}
	}()
	obs.After = c12List(d)
	obs.Stdout, obs.Stderr = out.String(), errw.String()
	if s, ok := obs.After["SENT"]; ok {
		lines := strings.Split(s, "\n") // one line per started command; the command may be the empty string
		for _, line := range lines[:len(lines)-1] {
			obs.Execs = append(obs.Execs, c12Sym(d, line))
		}
		sort.Strings(obs.Execs)
	}
	obs.ForkErr = strings.Count(obs.Stderr, "fork/exec")
	return obs
}

// ---- turning the observations into a per-operation record ---------------------------------------------------------

type c12OpObs struct {
	Done  bool
	Opens []string // sym:mode:ok
	R     float64
	V     string
	Recs  []string // main loop: FILENAME:$0 per record
}

// ops: the operations in the order in which a complete run executes them
func (cs *c12Case) ops() []c12Op {
	ops := append([]c12Op{}, cs.Begin...)
	if cs.ExitBegin != nil {
		return append(ops, cs.End...) // exit in BEGIN: no input is read, END runs
	}
	if cs.hasRule() {
		// the main loop delivers the first record (it may have to open an operand for that — and be refused); witnessed by the
		// marker t(-4) at the start of the rule's first-record block
		ops = append(ops, c12Op{K: "first"})
	}
	ops = append(ops, cs.Rule...)
	if !cs.ruleExits() {
		ops = append(ops, c12Op{K: "main"}) // (the rest of) the pattern-action loop
	}
	return append(ops, cs.End...)
}

// c12Split attributes the events to operations. failing = index of the operation at which the run ended with an error, or -1.
func c12Split(cs *c12Case, obs *c12Obs) (per []c12OpObs, failing int) {
	ops := cs.ops()
	per = make([]c12OpObs, len(ops))
	mainIdx := cs.mainIndex() // -1: the run skips the main loop (exit in BEGIN) or leaves it from the first record (exit in the rule)
	cur := 0
	endSeen := false
	for _, e := range obs.Events {
		if !e.T {
			if cur < len(per) {
				per[cur].Opens = append(per[cur].Opens, fmt.Sprintf("%s:%s:%v", e.Name, e.Mode, e.OK))
			}
			continue
		}
		switch {
		case e.I == -1:
			if mainIdx >= 0 {
				per[mainIdx].Recs = append(per[mainIdx].Recs, e.V)
			}
		case e.I == -2:
			endSeen = true
		case e.I == -4:
			for k, op := range ops {
				if op.K == "first" {
					per[k].Done = true
					cur = k + 1
				}
			}
		case e.I == -3:
			if mainIdx >= 0 {
				per[mainIdx].Done = true
			}
			cur = len(ops) - len(cs.End)
		default:
			if e.I < 0 || e.I >= len(per) {
				continue
			}
			if mainIdx >= 0 && e.I > mainIdx && !per[mainIdx].Done {
				per[mainIdx].Done = true
			}
			per[e.I].Done, per[e.I].R, per[e.I].V = true, e.R, e.V
			cur = e.I + 1
		}
	}
	if endSeen && mainIdx >= 0 {
		per[mainIdx].Done = true
	}
	failing = -1
	if obs.Err != "" {
		for i := range per {
			if !per[i].Done {
				failing = i
				break
			}
		}
	}
	return per, failing
}

func c12ErrCode(msg string) string {
	switch {
	case msg == "":
		return ""
	case strings.Contains(msg, "can't write to reader stream"):
		return "writeToReader"
	case strings.Contains(msg, "can't read from writer stream"):
		return "readFromWriter"
	case strings.Contains(msg, "can't write to file due to NoFileWrites"):
		return "noFileWrites"
	case strings.Contains(msg, "can't write to pipe due to NoExec"):
		return "noExecPipeOut"
	case strings.Contains(msg, "can't read from pipe due to NoExec"):
		return "noExecPipeIn"
	case strings.Contains(msg, "can't call system() due to NoExec"):
		return "noExecSystem"
	case strings.Contains(msg, "can't read from file due to NoFileReads"):
		return "noFileReads"
	case strings.Contains(msg, "output redirection error"):
		return "redirect"
	case strings.Contains(msg, "no such file or directory"):
		return "openFailed"
	case msg == "context canceled":
		return "ctxCanceled"
	}
	return "other:" + msg
}

// where did token W<i> end up
func c12Dest(cs *c12Case, obs *c12Obs, i int) string {
	tok := fmt.Sprintf("W%d\n", i)
	var where []string
	if strings.Contains(obs.Stdout, tok) {
		where = append(where, "stdout")
	}
	if strings.Contains(obs.Stderr, tok) {
		where = append(where, "stderr")
	}
	var names []string
	for n := range obs.After {
		names = append(names, n)
	}
	sort.Strings(names)
	for _, n := range names {
		if n == "SENT" || n == "stdin.txt" {
			continue
		}
		if strings.Contains(obs.After[n], tok) {
			if strings.HasSuffix(n, ".out") {
				where = append(where, "cmd:"+strings.TrimSuffix(n, ".out"))
			} else {
				where = append(where, "file:"+n)
			}
		}
	}
	if len(where) == 0 {
		return "nowhere"
	}
	return strings.Join(where, "+")
}

// which source does a value read by getline come from
func c12Source(cs *c12Case, v string) string {
	switch {
	case strings.HasPrefix(v, "S_"):
		return "file:" + v[2:]
	case strings.HasPrefix(v, "T_"):
		return "cmd:" + v[2:]
	case strings.HasPrefix(v, "STDIN"):
		return "stdin"
	case strings.HasPrefix(v, "W"):
		var j int
		fmt.Sscanf(v, "W%d", &j)
		ops := cs.ops()
		if j >= 0 && j < len(ops) {
			return "file:" + ops[j].N
		}
	}
	return "?" + v
}

// ---- implementation-side oracle -------------------------------------------------------------------------------------

type c12Verdict struct {
	What    string
	Finding string
	Got     string
	Want    string
	Envs    []string // stream herm: the host environments that show the failure (the replay is narrowed to them)
}

func c12Oracle(cs *c12Case, obs *c12Obs) (bad []c12Verdict, attempts int, swallowed int) {
	if obs.Panic != "" {
		return []c12Verdict{{What: "the interpreter panicked: " + obs.Panic}}, 0, 0
	}
	per, failing := c12Split(cs, obs)
	ops := cs.ops()
	// (1) processes
	if cs.NoExec && (len(obs.Execs) > 0 || obs.ForkErr > 0) {
		bad = append(bad, c12Verdict{What: "NoExec is set but a process was started", Got: strings.Join(obs.Execs, ",")})
	}
	// (2) writes, (3) reads, via the hook's log
	secretsSeen := map[string]bool{}
	for _, e := range obs.Events {
		if e.T {
			if strings.HasPrefix(e.V, "S_") {
				secretsSeen[e.V[2:]] = true
			}
			if i := strings.Index(e.V, ":S_"); e.I == -1 && i >= 0 {
				secretsSeen[e.V[i+3:]] = true
			}
			continue
		}
		if e.Mode != "rd" && cs.NoWrites {
			bad = append(bad, c12Verdict{What: "NoFileWrites is set but OpenFile was called for writing", Got: e.Name + ":" + e.Mode})
		}
		if e.Mode == "rd" && cs.NoReads {
			bad = append(bad, c12Verdict{What: "NoFileReads is set but OpenFile was called for reading", Got: e.Name})
		}
	}
	for _, f := range c12InFiles {
		if strings.Contains(obs.Stdout, "S_"+f) {
			secretsSeen[f] = true
		}
	}
	if cs.NoReads && len(secretsSeen) > 0 {
		bad = append(bad, c12Verdict{What: "NoFileReads is set but the program obtained the content of a file", Got: fmt.Sprint(secretsSeen)})
	}
	// directory listing: files the interpreter itself can have changed (children write only SENT and *.out)
	changed := []string{}
	for n, a := range obs.After {
		if n == "SENT" || strings.HasSuffix(n, ".out") {
			continue
		}
		if b, ok := obs.Before[n]; !ok || b != a {
			changed = append(changed, n)
		}
	}
	for n := range obs.Before {
		if _, ok := obs.After[n]; !ok {
			changed = append(changed, n)
		}
	}
	sort.Strings(changed)
	if cs.NoWrites && len(changed) > 0 {
		bad = append(bad, c12Verdict{What: "NoFileWrites is set but files in the directory were created or changed", Got: strings.Join(changed, ",")})
	}
	// (4) everything goes through the hook
	if cs.Hook {
		wrote, read := map[string]bool{}, map[string]bool{}
		for _, e := range obs.Events {
			if !e.T && e.OK {
				if e.Mode == "rd" {
					read[e.Name] = true
				} else {
					wrote[e.Name] = true
				}
			}
		}
		for _, n := range changed {
			if !wrote[n] {
				bad = append(bad, c12Verdict{What: "a file was created or changed without a call of the configured OpenFile", Got: n})
			}
		}
		for n := range secretsSeen {
			if !read[n] {
				bad = append(bad, c12Verdict{What: "a file's content was read without a call of the configured OpenFile", Got: n})
			}
		}
	}
	// a run that reports no error must have run to the end of END (the programs never exit from END): an operation that
	// was abandoned without an error — e.g. a refused one whose error was dropped — shows up here
	endReached := false
	for _, e := range obs.Events {
		if e.T && e.I == -2 {
			endReached = true
		}
	}
	if obs.Err == "" && !endReached {
		first := "?"
		for i, op := range ops {
			if !per[i].Done {
				first = fmt.Sprintf("operation %d (%s %q)", i, op.K, op.N)
				break
			}
		}
		bad = append(bad, c12Verdict{What: "the run returned no error but stopped before the end of the program: " + first + " was abandoned silently",
			Got: "err=nil, END not completed", Want: "either the operation completes or the run ends with its error"})
	}
	for _, st := range obs.Stale {
		bad = append(bad, c12Verdict{What: "a reused Interpreter opened a file through the OpenFile function of an earlier Execute call, not the one configured for this run", Got: st})
	}
	// (5) an attempt is an error at that operation; (6) standard input stays available, under every flag setting
	open := map[string]bool{}
	stdinUsed := false
	mainIdx := len(cs.Begin) // operations before this index run in BEGIN
	hasMain := cs.mainIndex() >= 0
	ruleRan := false
	for _, e := range obs.Events {
		if e.T && e.I == -4 {
			ruleRan = true
		}
	}
	regularOperands := 0
	for _, a := range cs.effArgsIf(ruleRan) {
		if a != "" && a != "-" {
			regularOperands++
		}
	}
	for i, op := range ops {
		if !per[i].Done && failing != i {
			break // not executed
		}
		denied := ""
		switch op.K {
		case "gt", "app":
			if !open[op.N] && op.N != "-" && cs.NoWrites {
				denied = "NoFileWrites"
			}
		case "pipe":
			if !open[op.N] && cs.NoExec {
				denied = "NoExec"
			}
		case "gf":
			if !open[op.N] && op.N != "-" && cs.NoReads {
				denied = "NoFileReads"
			}
		case "gc":
			if !open[op.N] && cs.NoExec {
				denied = "NoExec"
			}
		case "sys":
			if cs.NoExec {
				denied = "NoExec"
			}
		case "gl":
			if cs.NoReads && per[i].Done && per[i].R == -1 {
				// only a denied operand makes an un-redirected getline fail under NoFileReads (the check precedes the open);
				// since the repair of G12-1 that must end the run — getline returning -1 and going on is a violation
				attempts++
				swallowed++
				bad = append(bad, c12Verdict{What: "un-redirected getline reached an operand denied by NoFileReads; it returned -1 and the run went on (no error)",
					Got: "getline = -1, run continues", Want: "run ends with an error"})
			} else if cs.NoReads && failing == i && c12ErrCode(obs.Err) == "noFileReads" {
				attempts++
			}
		}
		if op.K == "gf" && op.N == "-" && !open["-"] {
			if failing == i {
				bad = append(bad, c12Verdict{What: fmt.Sprintf("operation %d: getline < \"-\" (standard input) ended the run with an error", i), Got: obs.Err, Want: "standard input, also under the name \"-\", stays available"})
			} else if per[i].Done && !stdinUsed && i < mainIdx && !(per[i].R == 1 && strings.HasPrefix(per[i].V, "STDIN")) {
				bad = append(bad, c12Verdict{What: fmt.Sprintf("operation %d: the first getline < \"-\" did not deliver the first line of standard input", i),
					Got: fmt.Sprintf("returned %v, value %q", per[i].R, per[i].V), Want: "1, STDIN1"})
			}
			stdinUsed = true
		}
		if op.K == "gl" {
			stdinUsed = true
		}
		if op.K == "main" {
			wantsStdin, onlyEmpty := false, true
			for _, a := range cs.effArgsIf(ruleRan) {
				if a == "-" {
					wantsStdin = true
				}
				if a != "" {
					onlyEmpty = false
				}
			}
			if per[i].Done && !stdinUsed && (wantsStdin || onlyEmpty) && len(cs.Rule) == 0 && cs.RuleEnd == "" {
				got := false
				for _, r := range per[i].Recs {
					if strings.HasSuffix(r, ":STDIN1") {
						got = true
					}
				}
				if !got {
					bad = append(bad, c12Verdict{What: "the pattern-action loop did not read standard input (operand \"-\", or no file operand at all)",
						Got: strings.Join(per[i].Recs, " | "), Want: "a record STDIN1"})
				}
			}
			stdinUsed = true
		}
		if denied != "" {
			attempts++
			if failing != i {
				bad = append(bad, c12Verdict{What: fmt.Sprintf("operation %d (%s %q) needs a capability denied by %s but did not end the run with an error", i, op.K, op.N, denied),
					Got: "err=" + obs.Err, Want: "error at operation " + fmt.Sprint(i)})
			}
		}
		if failing == i {
			break
		}
		switch op.K {
		case "gt", "app":
			if op.N != "-" && op.N != "/dev/stdout" && op.N != "/dev/stderr" {
				open[op.N] = true
			}
		case "pipe":
			open[op.N] = true
		case "gf":
			if per[i].R != -1 && op.N != "-" {
				open[op.N] = true
			}
		case "gc":
			if cs.ShellOK {
				open[op.N] = true
			}
		case "close":
			delete(open, op.N)
		}
	}
	// the NoFileReads error while reading the main input, and no operand names a file: standard input was refused.
	// (When no record arrives the first-record marker never fires; once END has started the failing operation is one of END's.)
	failAt := failing
	for _, e := range obs.Events {
		if e.T && e.I == -3 {
			failAt = -1
			for i := len(ops) - len(cs.End); i < len(ops); i++ {
				if !per[i].Done {
					failAt = i
					break
				}
			}
			break
		}
	}
	if failAt >= 0 && failAt < len(ops) && c12ErrCode(obs.Err) == "noFileReads" && regularOperands == 0 &&
		(ops[failAt].K == "main" || ops[failAt].K == "first" || ops[failAt].K == "gl") {
		bad = append(bad, c12Verdict{What: fmt.Sprintf("operation %d (%s) ended the run with the NoFileReads error although no operand names a file: "+
			"standard input (operand \"-\" or the default input) is not a file and must stay available", failAt, ops[failAt].K),
			Got: obs.Err + " operands=" + fmt.Sprintf("%q", cs.effArgsIf(ruleRan)), Want: "no NoFileReads error"})
	}
	if cs.NoReads && obs.Err == "" && regularOperands > 0 && hasMain {
		bad = append(bad, c12Verdict{What: "NoFileReads is set, the operands name a file, and the run ended without an error",
			Got: fmt.Sprintf("%d regular operands, %d refused through getline returning -1", regularOperands, swallowed)})
	}
	return bad, attempts, swallowed
}

// ---- correspondence ---------------------------------------------------------------------------------------------------

func c12B(b bool) string {
	if b {
		return "1"
	}
	return "0"
}

func c12LeanReq(cs *c12Case) string {
	var b strings.Builder
	me, done := c12ModelEntry(cs.Entry)
	fmt.Fprintf(&b, "exec %s %s %s%s%s%s ", me, done, c12B(cs.NoExec), c12B(cs.NoWrites), c12B(cs.NoReads), c12B(cs.Hook))
	ex := make([]string, len(c12InFiles))
	for i, f := range c12InFiles {
		ex[i] = vh.HxS(f)
	}
	b.WriteString(strings.Join(ex, ","))
	if eff := cs.effArgs(); len(eff) == 0 {
		b.WriteString(" .")
	} else {
		as := make([]string, len(eff))
		for i, a := range eff {
			as[i] = vh.HxS(a)
		}
		b.WriteString(" " + strings.Join(as, ","))
	}
	b.WriteString(" 2")
	for _, op := range cs.ops() {
		n := vh.HxS(op.N)
		switch op.K {
		case "gt", "app":
			fmt.Fprintf(&b, " %s:%s:%s", op.K, n, c12B(c12WriteOK(op.N)))
		case "pipe", "gc", "sys":
			fmt.Fprintf(&b, " %s:%s:%s", op.K, n, c12B(cs.ShellOK))
		case "gf", "close", "ff":
			fmt.Fprintf(&b, " %s:%s", op.K, n)
		case "gl", "main":
			b.WriteString(" " + op.K)
		}
	}
	return b.String()
}

// c12Compare returns "" when the model's trace and the observations agree.
func c12Compare(cs *c12Case, obs *c12Obs, ans string) string {
	if !strings.HasPrefix(ans, "ok") {
		return "driver answered " + ans
	}
	if obs.Panic != "" {
		return "real run panicked"
	}
	var groups [][]string
	body := strings.TrimSpace(strings.TrimPrefix(ans, "ok"))
	outcome := ""
	if i := strings.Index(body, "##"); i >= 0 { // executeAll's outcome: finished | failed:<code> | ctxfailed
		outcome = strings.TrimSpace(body[i+2:])
		body = strings.TrimSpace(body[:i])
	}
	switch {
	case outcome == "finished" && obs.Err != "":
		return fmt.Sprintf("model: executeAll reports success, real run ended with %q", obs.Err)
	case outcome == "ctxfailed" && c12ErrCode(obs.Err) != "ctxCanceled":
		return fmt.Sprintf("model: executeAll reports the (done) context's error, real run: err=%q", obs.Err)
	case strings.HasPrefix(outcome, "failed:") && c12ErrCode(obs.Err) != outcome[7:]:
		return fmt.Sprintf("model: executeAll reports %s, real run: err=%q", outcome, obs.Err)
	}
	if body != "" {
		for _, g := range strings.Split(body, " | ") {
			g = strings.TrimSpace(g)
			if g == "none" || g == "" {
				groups = append(groups, nil)
			} else {
				groups = append(groups, strings.Fields(g))
			}
		}
	}
	ops := cs.ops()
	per, failing := c12Split(cs, obs)
	name := func(h string) string { return string(vh.Unhx(h)) }
	// later successful truncating opens, per name → the earlier tokens written there are gone
	truncAfter := func(i int, n string) bool {
		for j := i + 1; j < len(groups); j++ {
			for _, e := range groups[j] {
				p := strings.Split(e, ":")
				if p[0] == "open" && name(p[1]) == n && p[2] == "tr" && p[4] == "1" {
					return true
				}
			}
		}
		return false
	}
	var mExecs []string
	mForkErr := 0
	mFailing := -1
	for i, g := range groups {
		if i >= len(ops) {
			return "model produced more groups than operations"
		}
		op := ops[i]
		var opens []string
		dest, srcM, soft, errc, closedNull, execFail := "", "", false, "", false, false
		for _, e := range g {
			p := strings.Split(e, ":")
			switch p[0] {
			case "stdout", "stderr":
				dest = p[0]
			case "stdin":
				srcM = "stdin"
			case "open":
				if p[3] != "c" {
					return "model opened a file without the configured function"
				}
				opens = append(opens, fmt.Sprintf("%s:%s:%v", name(p[1]), p[2], p[4] == "1"))
				if op.K == "gl" && p[2] == "rd" && p[4] == "1" {
					// an un-redirected getline that walks the operands: the record comes from the LAST source touched (an earlier
					// "stdin" in the same group is standard input found already drained by the `getline < "-"` scanner)
					srcM = "file:" + name(p[1])
				}
			case "exec":
				if p[2] == "1" {
					mExecs = append(mExecs, name(p[1]))
				} else {
					mForkErr++
					execFail = true
				}
			case "use":
				switch p[2] {
				case "outFile":
					dest = "file:" + name(p[1])
					if truncAfter(i, name(p[1])) {
						dest = "nowhere"
					}
				case "outCmd":
					dest = "nowhere"
					if strings.HasPrefix(name(p[1]), "cw") {
						dest = "cmd:" + name(p[1])
					}
				case "outNull":
					dest = "nowhere"
				case "inFile":
					srcM = "file:" + name(p[1])
				case "inCmd":
					srcM = "cmd:" + name(p[1])
				}
			case "cl":
				closedNull = p[2] == "outNull"
			case "soft":
				soft = true
			case "err":
				errc = p[1]
				mFailing = i
			}
		}
		o := per[i]
		if errc != "" {
			if failing != i {
				return fmt.Sprintf("op %d (%s %q): model ends the run with %s, real run: failing=%d err=%q", i, op.K, op.N, errc, failing, obs.Err)
			}
			if got := c12ErrCode(obs.Err); got != errc && outcome != "ctxfailed" {
				return fmt.Sprintf("op %d: model error %s, real error %s (%q)", i, errc, got, obs.Err)
			}
		} else if !o.Done {
			return fmt.Sprintf("op %d (%s %q): model completes it, real run did not (failing=%d err=%q)", i, op.K, op.N, failing, obs.Err)
		}
		if cs.Hook {
			if strings.Join(opens, " ") != strings.Join(o.Opens, " ") {
				return fmt.Sprintf("op %d (%s %q): model opens [%s], hook saw [%s]", i, op.K, op.N, strings.Join(opens, " "), strings.Join(o.Opens, " "))
			}
		}
		if errc != "" {
			continue
		}
		switch op.K {
		case "gt", "app", "pipe":
			if got := c12Dest(cs, obs, i); got != dest {
				return fmt.Sprintf("op %d (%s %q): model destination %s, token found %s", i, op.K, op.N, dest, got)
			}
		case "gf", "gc", "gl":
			if soft != (o.R == -1) {
				return fmt.Sprintf("op %d (%s %q): model soft-failure=%v, real getline returned %v", i, op.K, op.N, soft, o.R)
			}
			if o.R == 1 {
				if got := c12Source(cs, o.V); got != srcM && !(op.K == "gl" && srcM == "" && got != "") {
					return fmt.Sprintf("op %d (%s %q): model source %q, real value %q from %s", i, op.K, op.N, srcM, o.V, got)
				}
			}
		case "close":
			// -1 only for "not open" and for the null stream; a command's status is never -1 here
			if (soft || closedNull) != (o.R == -1) {
				return fmt.Sprintf("op %d (close %q): model soft=%v null=%v, real close returned %v", i, op.N, soft, closedNull, o.R)
			}
		case "sys":
			if execFail != (o.R == -1) {
				return fmt.Sprintf("op %d (system %q): model start-failure=%v, real system returned %v", i, op.N, execFail, o.R)
			}
		}
	}
	if mFailing == -1 && failing != -1 {
		return fmt.Sprintf("model run completes, real run ended at op %d with %q", failing, obs.Err)
	}
	if mFailing == -1 && len(groups) != len(ops) {
		return "model produced fewer groups than operations without an error"
	}
	sort.Strings(mExecs)
	if strings.Join(mExecs, ",") != strings.Join(obs.Execs, ",") {
		return fmt.Sprintf("model starts [%s], sentinel has [%s]", strings.Join(mExecs, ","), strings.Join(obs.Execs, ","))
	}
	if mForkErr != obs.ForkErr {
		return fmt.Sprintf("model has %d failed starts, stderr shows %d", mForkErr, obs.ForkErr)
	}
	return ""
}

// ---- generators ---------------------------------------------------------------------------------------------------

func c12Flags(cs *c12Case, mask int) {
	cs.NoExec, cs.NoWrites, cs.NoReads = mask&1 != 0, mask&2 != 0, mask&4 != 0
}

func c12Corpus() []c12Case {
	var res []c12Case
	forms := [][]c12Op{
		{{K: "gt", N: "o0", Form: 1}},
		{{K: "app", N: "o1", Form: 2}},
		{{K: "app", N: "in1", Form: 3}},
		{{K: "gt", N: "in1", Form: 4}},
		{{K: "pipe", N: "cw0", Form: 1}},
		{{K: "gc", N: "cr0", Form: 1}},
		{{K: "gc", N: "cr1", Form: 2}},
		{{K: "gf", N: "in0", Form: 1}},
		{{K: "gf", N: "in2", Form: 2}},
		{{K: "gf", N: "m0", Form: 3}},
		{{K: "sys", N: "sy0", Form: 1}},
		{{K: "gf", N: "-", Form: 1}},
		{{K: "gt", N: "/dev/stdout", Form: 1}},
		{{K: "app", N: "/dev/stderr", Form: 1}},
		{{K: "gt", N: "-", Form: 0}},
		{{K: "gt", N: "nd/x", Form: 1}},
		{{K: "gt", N: "", Form: 0}},
		// close / reopen, one name in several roles
		{{K: "gt", N: "o0", Form: 1}, {K: "close", N: "o0", Form: 2}, {K: "gf", N: "o0", Form: 3}, {K: "close", N: "o0"}, {K: "app", N: "o0", Form: 4}},
		{{K: "gt", N: "o0"}, {K: "pipe", N: "o0", Form: 1}, {K: "gf", N: "o0", Form: 2}},
		{{K: "pipe", N: "cw0"}, {K: "gt", N: "cw0", Form: 1}, {K: "close", N: "cw0"}, {K: "gc", N: "cr0"}, {K: "pipe", N: "cr0"}},
		{{K: "gf", N: "in0"}, {K: "gt", N: "in0", Form: 1}},
		{{K: "gc", N: "cr0"}, {K: "close", N: "cr0"}, {K: "gc", N: "cr0", Form: 1}, {K: "sys", N: "sy1"}, {K: "ff", N: ""}},
		{{K: "gf", N: "-"}, {K: "pipe", N: "-", Form: 0}, {K: "gf", N: "-"}},
		{{K: "pipe", N: "", Form: 0}, {K: "sys", N: "", Form: 1}}, // the empty command string (minimized past harness disagreement)
	}
	for _, ops := range forms {
		for mask := 0; mask < 8; mask++ {
			for _, hook := range []bool{true, false} {
				cs := c12Case{Hook: hook, ShellOK: true, Begin: ops}
				c12Flags(&cs, mask)
				res = append(res, cs)
				if hook { // the same operations after the main loop
					cs2 := c12Case{Hook: hook, ShellOK: true, End: ops, Args: []string{"in0"}}
					c12Flags(&cs2, mask)
					res = append(res, cs2)
				}
			}
		}
	}
	// operands, and the un-redirected getline (first: the witness of G12-1, repaired in 8a7666a — must pass now)
	for mask := 0; mask < 8; mask++ {
		for _, hook := range []bool{true, false} {
			for _, w := range []c12Case{
				{Args: []string{"in0"}, Begin: []c12Op{{K: "gl"}}},
				{Args: []string{"in0", "in2"}, Begin: []c12Op{{K: "gl"}, {K: "gl"}, {K: "gl"}}},
				{Args: []string{"in0"}},
				{Args: []string{"", "-", "in2"}},
				{Args: []string{"-", "m0", "in2"}},
				{Args: []string{}},
				{Args: []string{"in0"}, Begin: []c12Op{{K: "gf", N: "-"}}, End: []c12Op{{K: "gl"}}},
				{Args: []string{"m0"}, Begin: []c12Op{{K: "gl"}}},
				{Args: []string{"in0", "-"}, Begin: []c12Op{{K: "gl"}}, End: []c12Op{{K: "gf", N: "in0"}}},
			} {
				cs := w
				cs.Hook, cs.ShellOK = hook, true
				c12Flags(&cs, mask)
				res = append(res, cs)
			}
		}
	}
	// a reused Interpreter: earlier Execute calls with other sandbox settings; the run under test is judged by its own config
	reuseOps := []c12Op{{K: "gt", N: "o0", Form: 1}, {K: "close", N: "o0"}, {K: "gf", N: "in1", Form: 2}, {K: "gf", N: "-", Form: 1}}
	for mask := 0; mask < 8; mask++ {
		for _, hook := range []bool{true, false} {
			for _, prev := range [][]c12Cfg{
				{{Hook: false, ShellOK: true}},                                 // first Execute without OpenFile, this one maybe with
				{{Hook: true, ShellOK: true}},                                  // first with a custom OpenFile, this one maybe without
				{{NoExec: true, NoWrites: true, NoReads: true, ShellOK: true}}, // first fully confined
				{{Hook: true, ShellOK: false}, {NoReads: true, Hook: false, ShellOK: true}},
			} {
				cs := c12Case{Reuse: prev, Hook: hook, ShellOK: true, Begin: reuseOps, Args: []string{"in0"},
					End: []c12Op{{K: "pipe", N: "cw0"}, {K: "app", N: "o1", Form: 3}}}
				c12Flags(&cs, mask)
				res = append(res, cs)
			}
		}
	}
	// standard input stays available: getline < "-" (name computed), operand "-", no operand — all flag combinations
	for mask := 0; mask < 8; mask++ {
		for form := 0; form < 5; form++ {
			cs := c12Case{Hook: form%2 == 0, ShellOK: true, Begin: []c12Op{{K: "gf", N: "-", Form: form}, {K: "gf", N: "-", Form: form + 1}}}
			c12Flags(&cs, mask)
			res = append(res, cs)
		}
		for _, args := range [][]string{{}, {"-"}, {"", "-"}, {""}} {
			cs := c12Case{Hook: true, ShellOK: true, Args: args, End: []c12Op{{K: "gf", N: "-"}}}
			c12Flags(&cs, mask)
			res = append(res, cs)
		}
	}
	// getline < "-" drains standard input into its own scanner; operand "-" / default stdin reached afterwards is at EOF and the walk
	// moves on (minimized past harness disagreement: the comparison took the drained stdin for the source of the record)
	for mask := 0; mask < 8; mask++ {
		for _, w := range []c12Case{
			{Args: []string{"-", "in0"}, Begin: []c12Op{{K: "gf", N: "-", Form: 1}, {K: "gl"}, {K: "gl"}}},
			{Args: []string{"-", "in0"}, Begin: []c12Op{{K: "gl"}, {K: "gf", N: "-", Form: 2}, {K: "gl"}, {K: "gl"}}},
			{Args: []string{"", "-"}, Begin: []c12Op{{K: "gf", N: "-"}}, End: []c12Op{{K: "gf", N: "-"}, {K: "gl"}}},
			{Args: []string{}, Begin: []c12Op{{K: "gf", N: "-"}, {K: "gl"}}},
			{Args: []string{"in0", "-", "in2"}, Begin: []c12Op{{K: "gl"}, {K: "gf", N: "-"}, {K: "gl"}, {K: "gl"}}},
		} {
			cs := w
			cs.Hook, cs.ShellOK = true, true
			c12Flags(&cs, mask)
			res = append(res, cs)
		}
	}
	// phases x early exits: the forbidden operation in END after an exit in BEGIN or in a rule, in a rule (action, a function called
	// from the pattern, a function called from the action), in functions called from BEGIN / END; after next / nextfile
	forbidden := []c12Op{{K: "sys", N: "sy0", Form: 1}, {K: "gt", N: "o0", Form: 2}, {K: "pipe", N: "cw0", Form: 3},
		{K: "gc", N: "cr0", Form: 1}, {K: "gf", N: "in1", Form: 4}, {K: "app", N: "in1", Form: 1}}
	minus1, two := -1, 2
	for mask := 1; mask < 8; mask++ {
		for k, op := range forbidden {
			one := []c12Op{op}
			for _, w := range []c12Case{
				{ExitBegin: &minus1, End: one},
				{ExitBegin: &two, End: one, InFunc: true},
				{ExitBegin: &two, Begin: []c12Op{{K: "gl"}}, End: one, Args: []string{"-"}},
				{RuleEnd: "exit", End: one},
				{RuleEnd: "exit2", End: one, InFunc: true},
				{RuleEnd: "exit", RulePlace: "pattern", End: one, Args: []string{"-", "in0"}},
				{Rule: one, RulePlace: "action"},
				{Rule: one, RulePlace: "pattern"},
				{Rule: one, RulePlace: "func", RuleEnd: "next"},
				{RuleEnd: "nextfile", End: one},
				{RuleEnd: "next", End: append([]c12Op{{K: "gl"}}, op)}, // END: a getline that hits EOF, then the operation
				{Begin: one, InFunc: true},
				{End: one, InFunc: true},
			} {
				if (k+mask)%2 == 0 && w.Rule == nil && w.ExitBegin == nil && w.RuleEnd == "" {
					continue // keep the corpus small: the plain placements are covered above
				}
				cs := w
				cs.Hook, cs.ShellOK = (k+mask)%3 != 0, true
				c12Flags(&cs, mask)
				res = append(res, cs)
			}
		}
	}
	// operands added or changed at run time: ARGV/ARGC edits in BEGIN (append, overwrite, delete then re-add) and from a rule
	for mask := 0; mask < 8; mask++ {
		for _, w := range []c12Case{
			{ArgvBegin: []c12Edit{{K: "append", N: "in0"}}},
			{Args: []string{"-"}, ArgvBegin: []c12Edit{{K: "append", N: "in2"}}},
			{Args: []string{"m0"}, ArgvBegin: []c12Edit{{K: "set", I: 1, N: "in0"}}},
			{Args: []string{"-", "in0"}, ArgvBegin: []c12Edit{{K: "readd", I: 2, N: "in2"}}, Begin: []c12Op{{K: "gl"}}},
			{Args: []string{"in0"}, ArgvBegin: []c12Edit{{K: "set", I: 1, N: "-"}}},
			{ArgvRule: []c12Edit{{K: "append", N: "in0"}}, RulePlace: "action"},
			{Args: []string{"-"}, ArgvRule: []c12Edit{{K: "append", N: "in2"}}, RulePlace: "pattern"},
			{Args: []string{""}, ArgvRule: []c12Edit{{K: "append", N: "in0"}, {K: "append", N: "in2"}}, RulePlace: "func", RuleEnd: "next"},
			{Args: []string{"-"}, ArgvRule: []c12Edit{{K: "append", N: "m0"}}, RulePlace: "action", RuleEnd: "nextfile"},
		} {
			for _, hook := range []bool{true, false} {
				cs := w
				cs.Hook, cs.ShellOK = hook, true
				c12Flags(&cs, mask)
				res = append(res, cs)
			}
		}
	}
	// the main loop is refused the operand that would deliver the first record, so the rule (and its getline < "-") is never reached:
	// the error belongs to reading the first record (minimized past false alarm of the stdin clause)
	for mask := 0; mask < 8; mask++ {
		for _, w := range []c12Case{
			{ArgvBegin: []c12Edit{{K: "append", N: "m0"}, {K: "append", N: "m0"}}, RulePlace: "func", RuleEnd: "exit",
				Rule: []c12Op{{K: "gf", N: "-"}, {K: "pipe", N: "cw0"}, {K: "gc", N: "-"}}},
			{Args: []string{"in0"}, RulePlace: "action", Rule: []c12Op{{K: "gf", N: "-", Form: 1}}},
			{Args: []string{"in0"}, RuleEnd: "exit", End: []c12Op{{K: "gf", N: "-", Form: 2}}},
			{Args: []string{"m0"}, RulePlace: "pattern", RuleEnd: "next", Rule: []c12Op{{K: "gf", N: "-"}}, End: []c12Op{{K: "gf", N: "-"}}},
			// a getline in BEGIN already counted a record: "the first record the rule sees" is not NR == 1 (past false alarm)
			{Begin: []c12Op{{K: "gl"}}, RulePlace: "pattern", Rule: []c12Op{{K: "gt", N: "o1"}}, ArgvRule: []c12Edit{{K: "append", N: "m0"}}},
			{Begin: []c12Op{{K: "gl"}}, RulePlace: "action", ArgvRule: []c12Edit{{K: "append", N: "in0"}}},
			// no record at all: the rule, and its ARGV edit, never happen
			{Args: []string{"-"}, Begin: []c12Op{{K: "gf", N: "-"}, {K: "gf", N: "-"}, {K: "gf", N: "-"}}, RulePlace: "func", ArgvRule: []c12Edit{{K: "append", N: "in2"}}},
		} {
			cs := w
			cs.Hook, cs.ShellOK = mask%2 == 0, true
			c12Flags(&cs, mask)
			res = append(res, cs)
		}
	}
	// no record arrives (getline < "-" in BEGIN drained standard input), so the first-record marker never fires, and END is refused a
	// file: the NoFileReads error belongs to END's getline < file, not to the main loop (minimized past false alarm of the stdin clause)
	for mask := 4; mask < 8; mask++ {
		for _, w := range []c12Case{
			{Begin: []c12Op{{K: "gf", N: "-", Form: 4}}, RulePlace: "action", RuleEnd: "exit2", Rule: []c12Op{{K: "gt", N: "o1", Form: 5}},
				End: []c12Op{{K: "gf", N: "o0"}}},
			{Begin: []c12Op{{K: "gf", N: "-", Form: 2}}, RulePlace: "pattern", RuleEnd: "nextfile", ArgvRule: []c12Edit{{K: "append", N: "in2"}},
				End: []c12Op{{K: "close", N: "-"}, {K: "gf", N: "in1", Form: 4}}},
		} {
			cs := w
			cs.Hook, cs.ShellOK = mask%2 == 0, true
			c12Flags(&cs, mask)
			res = append(res, cs)
		}
	}
	// the shell cannot be started
	for mask := 0; mask < 8; mask++ {
		cs := c12Case{Hook: true, ShellOK: false, Begin: []c12Op{{K: "pipe", N: "cw0"}, {K: "gc", N: "cr0"}, {K: "sys", N: "sy0"}, {K: "close", N: "cw0"}, {K: "gt", N: "cr0", Form: 1}}}
		c12Flags(&cs, mask)
		res = append(res, cs)
	}
	return res
}

func c12Random(c *vh.Ctx) c12Case {
	r := c.Rng
	cs := c12Case{Hook: r.Intn(3) != 0, ShellOK: r.Intn(8) != 0}
	c12Flags(&cs, r.Intn(8))
	if r.Intn(5) >= 2 {
		cs.Entry = c12Entries[r.Intn(len(c12Entries))]
	}
	pick := func(xs []string) string { return xs[r.Intn(len(xs))] }
	// a small pool of names per case so that names collide across roles
	fileWrite := []string{"o0", "o1", "in1", "o0", "o1", "nd/x", "", "-", "/dev/stdout", "/dev/stderr"}
	if cs.NoWrites {
		fileWrite = append(fileWrite, "in0", "in2")
	}
	fileRead := []string{"in0", "in1", "in2", "m0", "o0", "o1", "-", ""}
	var used []string
	name := func(natural []string, allowed func(string) bool) string {
		if len(used) > 0 && r.Intn(4) == 0 {
			for try := 0; try < 4; try++ {
				if n := pick(used); allowed(n) {
					return n
				}
			}
		}
		n := pick(natural)
		used = append(used, n)
		return n
	}
	any := func(string) bool { return true }
	writable := func(n string) bool { return (n != "in0" && n != "in2" && n != "m0") || cs.NoWrites }
	noStdinEater := func(n string) bool { return !strings.HasPrefix(n, "cw") }
	readable := func(n string) bool { return !strings.HasPrefix(n, "/dev/") }
	gen := func(n int, allowGl bool) []c12Op {
		var ops []c12Op
		for i := 0; i < n; i++ {
			op := c12Op{Form: r.Intn(30)}
			switch k := r.Intn(20); {
			case k < 4:
				op.K, op.N = "gt", name(fileWrite, writable)
			case k < 6:
				op.K, op.N = "app", name(fileWrite, writable)
			case k < 9:
				op.K, op.N = "pipe", name(c12WriteCmds, any)
			case k < 12:
				op.K, op.N = "gf", name(fileRead, readable)
			case k < 14:
				op.K, op.N = "gc", name(c12ReadCmds, func(n string) bool { return noStdinEater(n) })
			case k < 15:
				op.K, op.N = "sys", name(c12SysCmds, func(n string) bool { return noStdinEater(n) })
			case k < 16 && allowGl:
				op.K = "gl"
			case k < 19:
				op.K = "close"
				if len(used) > 0 {
					op.N = pick(used)
				} else {
					op.N = "o0"
				}
			default:
				op.K = "ff"
				if len(used) > 0 && r.Intn(2) == 0 {
					op.N = pick(used)
				}
			}
			if op.K == "" {
				op.K, op.N = "close", "o0"
			}
			ops = append(ops, op)
		}
		return ops
	}
	for k, n := 0, []int{0, 0, 1, 1, 2}[r.Intn(5)]; k < n; k++ {
		m := r.Intn(8)
		rc := c12Cfg{NoExec: m&1 != 0, NoWrites: m&2 != 0, NoReads: m&4 != 0, Hook: r.Intn(2) == 0, ShellOK: r.Intn(6) != 0}
		if r.Intn(2) == 0 {
			rc.Entry = c12Entries[r.Intn(len(c12Entries))]
		}
		cs.Reuse = append(cs.Reuse, rc)
	}
	// phases, early exits, run-time operand edits (a third of the cases)
	if r.Intn(3) == 0 {
		switch r.Intn(6) {
		case 0:
			v := r.Intn(4) - 1
			cs.ExitBegin = &v
		case 1, 2:
			cs.RuleEnd = []string{"exit", "exit2", "next", "nextfile"}[r.Intn(4)]
		}
		cs.RulePlace = []string{"action", "pattern", "func"}[r.Intn(3)]
		cs.InFunc = r.Intn(3) == 0
		if cs.ExitBegin == nil && r.Intn(2) == 0 {
			cs.Rule = gen(1+r.Intn(3), false)
		}
		for k, n := 0, r.Intn(3); k < n; k++ {
			e := c12Edit{K: []string{"append", "set", "readd"}[r.Intn(3)], I: 1 + r.Intn(2), N: pick([]string{"in0", "in2", "m0", "-", ""})}
			if r.Intn(2) == 0 || cs.ExitBegin != nil {
				cs.ArgvBegin = append(cs.ArgvBegin, e)
			} else {
				e.K, e.I = "append", 0
				cs.ArgvRule = append(cs.ArgvRule, e)
			}
		}
	}
	cs.Begin = gen(r.Intn(7), true)
	cs.End = gen(r.Intn(5), true)
	operandPool := []string{"in0", "in2", "in0", "m0", "-", ""}
	for i, n := 0, r.Intn(4); i < n; i++ {
		cs.Args = append(cs.Args, pick(operandPool))
	}
	if r.Intn(6) == 0 && !cs.startsProcess() {
		cs.Entry = "ctx-done"
	}
	return cs
}

// ---- main ---------------------------------------------------------------------------------------------------------------

func main() {
	if dir := os.Getenv("C12_SPEC_CHILD"); dir != "" {
		c12SpecChildMain(dir) // stream spec: this process is the "host" whose descriptors the interpreter must not touch
		return
	}
	vh.Main("C12", runC12)
}

func runC12(c *vh.Ctx) {
	c.Rule("a case = 0–2 earlier Execute calls on the same Interpreter with their own sandbox settings, then the run under test, sent through " +
		"one of seven public entry points (Interpreter.Execute, interp.ExecProgram, ExecuteContext with Background / TODO / a live WithTimeout / " +
		"WithCancel / WithValue context): " +
		"flags (8 combinations) x custom OpenFile present/absent x shell startable/not x ARGV operands x operations in BEGIN " +
		"and END drawn from print >, print >>, print |, getline <, cmd | getline, system, un-redirected getline, close, fflush (and the " +
		"pattern-action loop over the operands); names come from a small pool (new files, existing files, a missing file, an unwritable " +
		"path, \"-\", /dev/stdout, /dev/stderr, \"\", commands) and are re-used across roles; every name is computed at run time in one of " +
		"five spellings; non-trivial = at least one deny flag is set and at least one operation reaches the I/O dispatch. " +
		"Stream dash (oracle only): operand lists and ARGV/ARGC edits with \"-\" at every position (first, after var=value, after a file, twice, set " +
		"in BEGIN, with ARGC raised or lowered, a real file merely named \"-\") x 8 flag combinations x OpenFile present/absent x getline < \"-\" / " +
		"getline line < \"-\" in BEGIN / rule / END; non-trivial = NoFileReads set and standard input is named or is the default. " +
		"Stream herm (oracle only, metamorphic): a program touching files through every file form, a table of OpenFile answers per path and per " +
		"k-th open (10 kinds), run in 2-7 host environments differing only in what the named paths are on the real file system; non-trivial = " +
		"OpenFile is called at least once")
	var cases []c12Case
	if c.ReplayFile != "" {
		b, err := os.ReadFile(c.ReplayFile)
		if err != nil {
			panic(err)
		}
		var wrap struct {
			Failure struct {
				Case json.RawMessage `json:"case"`
			} `json:"failure"`
		}
		raw := json.RawMessage(b)
		if json.Unmarshal(b, &wrap) == nil && len(wrap.Failure.Case) > 0 {
			raw = wrap.Failure.Case
		}
		var which struct {
			Stream string `json:"stream"`
		}
		json.Unmarshal(raw, &which)
		switch which.Stream {
		case "dash":
			var cs c12DashCase
			if err := json.Unmarshal(raw, &cs); err != nil {
				panic(err)
			}
			runC12Dash(c, &cs)
			return
		case "herm":
			var cs c12HermCase
			if err := json.Unmarshal(raw, &cs); err != nil {
				panic(err)
			}
			runC12Herm(c, &cs)
			return
		case "spec":
			var cs c12SpecCase
			if err := json.Unmarshal(raw, &cs); err != nil {
				panic(err)
			}
			runC12Spec(c, &cs)
			return
		}
		var direct c12Case
		if err := json.Unmarshal(raw, &direct); err != nil {
			panic(err)
		}
		cases = []c12Case{direct}
	} else {
		// the two streams without child processes first: they are fast, and a failing input found there is reported even if the
		// machine is too loaded for the process-starting stream to finish in time
		t0 := time.Now()
		runC12Dash(c, nil)
		t1 := time.Now()
		runC12Herm(c, nil)
		t2 := time.Now()
		runC12Spec(c, nil)
		c.Note(fmt.Sprintf("wall: stream dash %.1fs, stream herm %.1fs, stream spec %.1fs", t1.Sub(t0).Seconds(), t2.Sub(t1).Seconds(), time.Since(t2).Seconds()))
		cases = c12Corpus()
		// every corpus case again through the other public entry points (quick: one of the six others per case, rotating so
		// that each corpus block meets every entry; thorough: all six), and, for the entries that go through an Interpreter,
		// half of them after an earlier permissive Execute on the same Interpreter
		base := cases
		for i := range base {
			for k := 1; k < len(c12Entries); k++ {
				if !c.Thorough() && k != 1+(i+i/6+i/24+i/48)%(len(c12Entries)-1) {
					continue
				}
				cs := base[i]
				cs.Entry = c12Entries[k]
				if (i+k)%5 == 0 && !cs.startsProcess() {
					cs.Entry = "ctx-done"
				}
				if len(cs.Reuse) == 0 && (i+k)%2 == 0 && cs.Entry != "execprogram" {
					cs.Reuse = []c12Cfg{{Hook: !cs.Hook, ShellOK: true, Entry: c12Entries[(i+k/2)%len(c12Entries)]}}
				}
				cases = append(cases, cs)
			}
		}
		nCorpus := len(cases)
		for i, n := 0, c.N(500, 8000); i < n; i++ {
			cases = append(cases, c12Random(c))
		}
		c.Note(fmt.Sprintf("%d corpus cases (every I/O form x 8 flag combinations x hook present/absent, BEGIN and END placement), %d generated", nCorpus, len(cases)-nCorpus))
	}

	obs := make([]c12Obs, len(cases))
	vh.Parallel(len(cases), func(i int) { obs[i] = c12Run(&cases[i]) })
	// os/exec gives up on a child's output after WaitDelay (250 ms) — on a starved machine that fires spuriously; such runs
	// say nothing about the property and are repeated one at a time
	retried := 0
	for i := range cases {
		for try := 0; try < 4 && strings.Contains(obs[i].Stderr, "WaitDelay expired"); try++ {
			obs[i] = c12Run(&cases[i])
			retried++
		}
	}
	if retried > 0 {
		c.Note(fmt.Sprintf("%d runs repeated because os/exec's WaitDelay expired (machine under load)", retried))
	}

	ansOf := map[int]string{}
	if c.HasLean() {
		var reqs []string
		var idx []int
		for i := range cases {
			if cases[i].modelled() {
				reqs = append(reqs, c12LeanReq(&cases[i]))
				idx = append(idx, i)
			}
		}
		for k, a := range c.LeanBatch(reqs) {
			ansOf[idx[k]] = a
		}
	}
	// a failing case that involves child processes is confirmed by running it again, alone (os/exec's WaitDelay can also
	// expire where the error is discarded)
	confirmed := 0
	for i := range cases {
		cs := &cases[i]
		hasExec := false
		for _, op := range cs.ops() {
			if op.K == "pipe" || op.K == "sys" || op.K == "gc" {
				hasExec = true
			}
		}
		if !hasExec {
			continue
		}
		for try := 0; try < 3; try++ {
			bad, _, _ := c12Oracle(cs, &obs[i])
			unclassified := false
			for _, v := range bad {
				if v.Finding == "" {
					unclassified = true
				}
			}
			if a, ok := ansOf[i]; ok && c12Compare(cs, &obs[i], a) != "" {
				unclassified = true
			}
			if !unclassified {
				break
			}
			obs[i] = c12Run(cs)
			confirmed++
		}
	}
	if confirmed > 0 {
		c.Note(fmt.Sprintf("%d re-runs to confirm failing cases that involve child processes (only failures that persist are reported)", confirmed))
	}

	findingsSeen := map[string]int{}
	for i := range cases {
		cs := &cases[i]
		key, _ := json.Marshal(cs)
		nOps := len(cs.Begin) + len(cs.End)
		anyFlag := cs.NoExec || cs.NoWrites || cs.NoReads
		c.Eval(string(key), anyFlag && (nOps > 0 || len(cs.Args) > 0))
		c.OracleCase()
		c.Hit(fmt.Sprintf("flags:exec=%s,writes=%s,reads=%s", c12B(cs.NoExec), c12B(cs.NoWrites), c12B(cs.NoReads)))
		c.Hit("hook:" + c12B(cs.Hook))
		c.Hit(fmt.Sprintf("earlier-executes-on-same-interpreter:%d", len(cs.Reuse)))
		c.Hit("entry:" + c12EntryName(cs.Entry))
		if anyFlag {
			c.Hit("entry-with-deny-flag:" + c12EntryName(cs.Entry))
		}
		if cs.ExitBegin != nil {
			c.Hit("phase:exit-in-BEGIN-then-END")
		}
		if len(cs.Rule) > 0 {
			c.Hit("phase:ops-in-rule:" + cs.RulePlace)
		}
		if cs.RuleEnd != "" {
			c.Hit("phase:rule-ends-with:" + cs.RuleEnd)
		}
		if cs.InFunc {
			c.Hit("phase:BEGIN/END-ops-in-functions")
		}
		if len(cs.ArgvBegin) > 0 {
			c.Hit("argv-edit:BEGIN")
		}
		if len(cs.ArgvRule) > 0 {
			c.Hit("argv-edit:rule")
		}
		if cs.modelled() {
			c.Hit("stream:correspondence+oracle")
		} else {
			c.Hit("stream:oracle-only")
		}
		c.Hit("shell_ok:" + c12B(cs.ShellOK))
		c.Hit(fmt.Sprintf("operands:%d", len(cs.Args)))
		for _, op := range cs.ops() {
			c.Hit("op:" + op.K)
			if op.K != "gl" && op.K != "main" && op.K != "first" {
				cls := "file"
				switch {
				case c12IsSpecial(op.N):
					cls = "special:" + op.N
				case c12IsCmd(op.N):
					cls = "cmd"
				}
				natural := map[string]string{"gt": "file", "app": "file", "gf": "file", "pipe": "cmd", "gc": "cmd", "sys": "cmd"}[op.K]
				if natural != "" && !strings.HasPrefix(cls, "special") && cls != natural {
					c.Hit("cross-role-name")
				}
				c.Hit("name:" + cls)
			}
		}
		c.Hit("outcome:" + func() string {
			if obs[i].Panic != "" {
				return "panic"
			}
			if e := c12ErrCode(obs[i].Err); e != "" {
				return "error:" + strings.SplitN(e, ":", 2)[0]
			}
			return "completed"
		}())
		bad, attempts, _ := c12Oracle(cs, &obs[i])
		c.HitN("denied-attempts", attempts)
		for _, v := range bad {
			findingsSeen[v.Finding]++
			c.Fail(vh.Failure{Kind: "oracle", What: v.What, Finding: v.Finding, Case: cs, Got: v.Got, Want: v.Want})
		}
		if i%997 == 0 {
			c.Sample(map[string]interface{}{"case": cs, "program": obs[i].Src, "err": obs[i].Err})
		}
	}

	for i := range cases {
		a, ok := ansOf[i]
		if !ok {
			continue
		}
		c.Trace()
		if msg := c12Compare(&cases[i], &obs[i], a); msg != "" {
			c.Fail(vh.Failure{Kind: "correspondence", What: "Lean I/O dispatch model and real run differ: " + msg, Case: &cases[i],
				Got: fmt.Sprintf("err=%q events=%v execs=%v", obs[i].Err, obs[i].Events, obs[i].Execs), Want: a})
		}
	}
}
