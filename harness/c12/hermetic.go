package main

// C12, stream "herm" — with a custom OpenFile every file the program touches is opened through it.
//
// Read as: the interpreter has no access to the file system of its own. Then a run's observable behaviour (output, error output,
// exit status, error text up to the scratch directory's name, the t() event log, the sequence of (path, flags, perm) OpenFile was
// asked for, what ends up in the files OpenFile handed out) is a function of the program, standard input and the answers of
// OpenFile ONLY. Metamorphic oracle: the same case is run in several host environments that differ only in what the named paths
// are on the real file system — absent, absent with the parent directory missing too, regular files with other content, files
// with mode 000, directories, dangling symlinks, symlinks to a file — while OpenFile answers from a table (per path, per k-th
// open): a handle on a scratch file that lives elsewhere, a handle on a pipe, fs.ErrNotExist, a PathError wrapping ENOENT, an
// fmt-wrapped ErrNotExist, fs.ErrPermission, a PathError wrapping EACCES / EISDIR, an error type of its own, an error whose text
// merely says "no such file or directory". All environments must give the same result.
// Direct oracles in every environment: the host tree is byte-for-byte unchanged; nothing of the host files' content ("HOST_…")
// shows up anywhere; inotify (when available) saw no open/access/create/modify/delete in the host tree; the deny flags are
// respected by the calls OpenFile receives.
// Forms: getline < f, getline v < f, operands of the main loop, un-redirected getline over operands, print > f, print >> f,
// printf > f, close + re-open, reading after writing, fflush; in BEGIN, in the first record's rule, in END.

import (
	"encoding/binary"
	"encoding/json"
	"errors"
	"fmt"
	"io/fs"
	"os"
	"path/filepath"
	"sort"
	"strings"
	"sync"
	"syscall"

	"github.com/benhoyt/goawk/interp"
	"github.com/benhoyt/goawk/parser"

	"verifharness/vh"
)

type c12HermOp struct {
	K    string `json:"k"` // gf gv gt app pf close ff gl
	N    string `json:"n,omitempty"`
	Form int    `json:"form,omitempty"`
}

type c12HermCase struct {
	Stream    string              `json:"stream"` // "herm"
	Shape     string              `json:"shape"`
	NoExec    bool                `json:"no_exec"`
	NoWrites  bool                `json:"no_writes"`
	NoReads   bool                `json:"no_reads"`
	StdinFile bool                `json:"stdin_file"`
	Args      []string            `json:"args"`
	Begin     []c12HermOp         `json:"begin,omitempty"`
	Rule      []c12HermOp         `json:"rule,omitempty"`
	End       []c12HermOp         `json:"end,omitempty"`
	Answers   map[string][]string `json:"answers"`         // symbolic path -> answer kind of the k-th open (the last repeats); absent: handle
	Pre       []string            `json:"pre"`             // symbolic paths whose scratch file exists before the run
	Envs      []string            `json:"envs"`            // host environments; the first is the reference
	Entry     string              `json:"entry,omitempty"` // public entry point, see c12Entries ("" = interp.ExecProgram); the same in every environment
}

var (
	c12HermPool    = []string{"p0", "p1", "p2", "sub/p3"}
	c12HermAnswers = []string{"handle", "pipe", "notexist", "enoent", "fmtnotexist", "perm", "eacces", "eisdir", "custom", "textnosuch"}
	c12HermEnvs    = []string{"absent", "noparent", "file", "locked", "dir", "dangling", "symlink"}
)

type c12CustomErr struct{ name string }

func (e *c12CustomErr) Error() string { return "policy: access to " + e.name + " refused" }

func c12HermFlat(sym string) string { return strings.ReplaceAll(sym, "/", "_") }

func c12FlagString(flag int) string {
	var p []string
	switch flag & (os.O_RDONLY | os.O_WRONLY | os.O_RDWR) {
	case os.O_RDONLY:
		p = append(p, "RDONLY")
	case os.O_WRONLY:
		p = append(p, "WRONLY")
	default:
		p = append(p, "RDWR")
	}
	for _, x := range []struct {
		f int
		n string
	}{{os.O_CREATE, "CREATE"}, {os.O_TRUNC, "TRUNC"}, {os.O_APPEND, "APPEND"}, {os.O_EXCL, "EXCL"}, {os.O_SYNC, "SYNC"}} {
		if flag&x.f != 0 {
			p = append(p, x.n)
			flag &^= x.f
		}
	}
	flag &^= os.O_RDONLY | os.O_WRONLY | os.O_RDWR
	if flag != 0 {
		p = append(p, fmt.Sprintf("0x%x", flag))
	}
	return strings.Join(p, "|")
}

// ---- rendering ----------------------------------------------------------------------------------------------------------

func c12HermName(sym string, form int) string {
	if sym == "-" || sym == "" {
		return `"` + sym + `"`
	}
	idx := -1
	for i, p := range c12HermPool {
		if p == sym {
			idx = i
		}
	}
	switch form % 3 {
	case 0:
		return fmt.Sprintf("P%d", idx)
	case 1:
		return fmt.Sprintf("(H \"/%s\")", sym)
	}
	return fmt.Sprintf("sprintf(\"%%s/%%s\", H, \"%s\")", sym)
}

func (cs *c12HermCase) ops() []c12HermOp {
	return append(append(append([]c12HermOp{}, cs.Begin...), cs.Rule...), cs.End...)
}

func c12HermRender(cs *c12HermCase) string {
	idx := 0
	emit := func(b *strings.Builder, ops []c12HermOp) {
		for _, op := range ops {
			i := idx
			idx++
			n := c12HermName(op.N, op.Form)
			switch op.K {
			case "gf":
				fmt.Fprintf(b, "  $0 = \"\"; r = (getline < %s); t(%d, r, $0)\n", n, i)
			case "gv":
				fmt.Fprintf(b, "  v = \"\"; r = (getline v < %s); t(%d, r, v)\n", n, i)
			case "gt":
				fmt.Fprintf(b, "  print \"W%d\" > %s; t(%d, 0, \"\")\n", i, n, i)
			case "app":
				fmt.Fprintf(b, "  print \"W%d\" >> %s; t(%d, 0, \"\")\n", i, n, i)
			case "pf":
				fmt.Fprintf(b, "  printf \"%%s\\n\", \"W%d\" > %s; t(%d, 0, \"\")\n", i, n, i)
			case "close":
				fmt.Fprintf(b, "  r = close(%s); t(%d, r, \"\")\n", n, i)
			case "ff":
				fmt.Fprintf(b, "  r = fflush(%s); t(%d, r, \"\")\n", n, i)
			case "gl":
				fmt.Fprintf(b, "  v = \"\"; r = (getline v); t(%d, r, v)\n", i)
			}
		}
	}
	var bb, rb, eb strings.Builder
	emit(&bb, cs.Begin)
	emit(&rb, cs.Rule)
	emit(&eb, cs.End)
	var b strings.Builder
	b.WriteString("BEGIN {\n  rdone = 0\n" + bb.String() + "  t(-5, 0, \"\")\n}\n")
	b.WriteString("{\n  t(-1, NR, FILENAME \":\" $0)\n")
	if len(cs.Rule) > 0 {
		b.WriteString("  if (!rdone) {\n    rdone = 1\n" + rb.String() + "  }\n")
	}
	b.WriteString("}\nEND {\n" + eb.String() + "  t(-2, 0, \"\")\n}\n")
	return b.String()
}

// ---- the host environments --------------------------------------------------------------------------------------------------

func c12HermSetupHost(d, env string) {
	host := d + "/host"
	if env == "noparent" {
		return
	}
	os.MkdirAll(host+"/sub", 0o755)
	os.WriteFile(d+"/secret", []byte("HOST_secret\n"), 0o644)
	for _, sym := range c12HermPool {
		p := host + "/" + sym
		switch env {
		case "file":
			os.WriteFile(p, []byte("HOST_"+c12HermFlat(sym)+"\nHOST_line2\n"), 0o644)
		case "locked":
			os.WriteFile(p, []byte("HOST_"+c12HermFlat(sym)+"\n"), 0o644)
			os.Chmod(p, 0)
		case "dir":
			os.Mkdir(p, 0o755)
			os.WriteFile(p+"/x", []byte("HOST_inner\n"), 0o644)
		case "dangling":
			os.Symlink(d+"/nowhere/"+c12HermFlat(sym), p)
		case "symlink":
			os.Symlink(d+"/secret", p)
		}
	}
	if env == "locked" {
		os.Chmod(host+"/sub", 0o555)
	}
}

// lstat-based listing: relative name -> type, mode, content / link target
func c12HermList(root string) map[string]string {
	m := map[string]string{}
	filepath.Walk(root, func(p string, info os.FileInfo, err error) error {
		if err != nil {
			return nil
		}
		rel := strings.TrimPrefix(p, root)
		switch {
		case info.Mode()&os.ModeSymlink != 0:
			t, _ := os.Readlink(p)
			m[rel] = "link:" + filepath.Base(t)
		case info.IsDir():
			m[rel] = fmt.Sprintf("dir:%o", info.Mode().Perm())
		default:
			b, _ := os.ReadFile(p)
			m[rel] = fmt.Sprintf("file:%o:%s", info.Mode().Perm(), b)
		}
		return nil
	})
	return m
}

func c12MapDiff(a, b map[string]string) []string {
	var res []string
	for k, v := range b {
		if w, ok := a[k]; !ok {
			res = append(res, "created "+k)
		} else if w != v {
			res = append(res, "changed "+k)
		}
	}
	for k := range a {
		if _, ok := b[k]; !ok {
			res = append(res, "removed "+k)
		}
	}
	sort.Strings(res)
	return res
}

// ---- inotify tripwire (Linux; silently unavailable elsewhere or when the instance limit is reached) ----------------------------

type c12Tripwire struct {
	fd    int
	names map[int32]string
}

const c12TripMask = syscall.IN_ACCESS | syscall.IN_MODIFY | syscall.IN_ATTRIB | syscall.IN_OPEN | syscall.IN_CREATE | syscall.IN_DELETE |
	syscall.IN_MOVED_FROM | syscall.IN_MOVED_TO | syscall.IN_CLOSE_WRITE | syscall.IN_DELETE_SELF

func c12TripStart(d string) *c12Tripwire {
	fd, err := syscall.InotifyInit1(syscall.IN_NONBLOCK | syscall.IN_CLOEXEC)
	if err != nil {
		return nil
	}
	t := &c12Tripwire{fd: fd, names: map[int32]string{}}
	add := func(p, label string) {
		if wd, err := syscall.InotifyAddWatch(fd, p, c12TripMask); err == nil {
			t.names[int32(wd)] = label
		}
	}
	host := d + "/host"
	var dirs []string // collected first: walking a watched directory would itself trip the wire
	filepath.Walk(host, func(p string, info os.FileInfo, err error) error {
		if err == nil && info.IsDir() {
			dirs = append(dirs, p)
		}
		return nil
	})
	add(d, "<scratch>") // only events about the entry "host" count (the noparent environment)
	for _, p := range dirs {
		add(p, "host"+strings.TrimPrefix(p, host))
	}
	return t
}

func (t *c12Tripwire) stop() []string {
	defer syscall.Close(t.fd)
	var res []string
	buf := make([]byte, 1<<16)
	for {
		n, err := syscall.Read(t.fd, buf)
		if n <= 0 || err != nil {
			break
		}
		for off := 0; off+16 <= n; {
			wd := int32(binary.LittleEndian.Uint32(buf[off:]))
			mask := binary.LittleEndian.Uint32(buf[off+4:])
			ln := int(binary.LittleEndian.Uint32(buf[off+12:]))
			name := strings.TrimRight(string(buf[off+16:off+16+ln]), "\x00")
			off += 16 + ln
			label := t.names[wd]
			if label == "<scratch>" && name != "host" {
				continue // the scratch files OpenFile hands out live next to the host tree
			}
			var what []string
			for _, x := range []struct {
				m uint32
				n string
			}{{syscall.IN_OPEN, "open"}, {syscall.IN_ACCESS, "read"}, {syscall.IN_MODIFY, "write"}, {syscall.IN_ATTRIB, "chattr"},
				{syscall.IN_CREATE, "create"}, {syscall.IN_DELETE, "delete"}, {syscall.IN_MOVED_FROM, "rename"}, {syscall.IN_MOVED_TO, "rename"},
				{syscall.IN_CLOSE_WRITE, "close-after-write"}, {syscall.IN_DELETE_SELF, "delete"}} {
				if mask&x.m != 0 {
					what = append(what, x.n)
				}
			}
			if len(what) > 0 {
				res = append(res, strings.Join(what, "+")+" "+label+"/"+name)
			}
		}
	}
	return res
}

// ---- one run ----------------------------------------------------------------------------------------------------------------

type c12HermCanon struct {
	Out    string            `json:"out"`
	Stderr string            `json:"stderr"`
	Err    string            `json:"err"`
	Status int               `json:"status"`
	Panic  string            `json:"panic,omitempty"`
	Events []string          `json:"events"`
	Hook   []string          `json:"openfile_calls"`
	Back   map[string]string `json:"scratch_files"`
}

type c12HermObs struct {
	Canon       c12HermCanon
	HostChanged []string
	Trip        []string
	TripOK      bool
	Opens       []string // distribution: form x answer
	Src         string
}

func c12HermRunEnv(cs *c12HermCase, env string) (obs c12HermObs) {
	d, err := os.MkdirTemp("", "c12h_")
	if err != nil {
		panic(err)
	}
	defer func() {
		os.Chmod(d+"/host/sub", 0o755)
		os.RemoveAll(d)
	}()
	norm := func(s string) string { return strings.ReplaceAll(s, d, "$D") }
	back := d + "/back"
	os.Mkdir(back, 0o755)
	for _, sym := range cs.Pre {
		os.WriteFile(back+"/"+c12HermFlat(sym), []byte("B_"+c12HermFlat(sym)+"\nB2_"+c12HermFlat(sym)+"\n"), 0o644)
	}
	c12HermSetupHost(d, env)
	host := d + "/host"
	src := c12HermRender(cs)
	obs.Src = src
	ops := cs.ops()
	var mu sync.Mutex
	cur := 0
	funcs := map[string]interface{}{"t": func(i int, r float64, v string) {
		mu.Lock()
		obs.Canon.Events = append(obs.Canon.Events, fmt.Sprintf("%d:%v:%s", i, r, norm(v)))
		if i >= 0 {
			cur = i + 1
		}
		mu.Unlock()
	}}
	prog, err := parser.ParseProgram([]byte(src), &parser.ParserConfig{Funcs: funcs})
	if err != nil {
		panic(fmt.Sprintf("harness program does not parse: %v\n%s", err, src))
	}
	args := make([]string, len(cs.Args))
	for i, a := range cs.Args {
		args[i] = a
		if a != "-" && a != "" && !c12VarRegex.MatchString(a) {
			args[i] = host + "/" + a
		}
	}
	vars := []string{"H", host}
	for i, p := range c12HermPool {
		vars = append(vars, fmt.Sprintf("P%d", i), host+"/"+p)
	}
	var out, errw lockedWriter
	cfg := &interp.Config{Output: &out, Error: &errw, Environ: []string{}, Vars: vars, Args: args, Funcs: funcs,
		NoExec: cs.NoExec, NoFileWrites: cs.NoWrites, NoFileReads: cs.NoReads}
	if cs.StdinFile {
		os.WriteFile(d+"/stdin.txt", []byte("STDIN1\nSTDIN2\n"), 0o644)
		f, _ := os.Open(d + "/stdin.txt")
		defer f.Close()
		cfg.Stdin = f
	} else {
		cfg.Stdin = strings.NewReader("STDIN1\nSTDIN2\n")
	}
	count := map[string]int{}
	cfg.OpenFile = func(name string, flag int, perm os.FileMode) (*os.File, error) {
		mu.Lock()
		defer mu.Unlock()
		sym := "?" + norm(name)
		kind := "notexist"
		if strings.HasPrefix(name, host+"/") {
			sym = name[len(host)+1:]
			kind = "handle"
			if as := cs.Answers[sym]; len(as) > 0 {
				k := count[sym]
				if k >= len(as) {
					k = len(as) - 1
				}
				kind = as[k]
			}
			count[sym]++
		}
		writing := flag&(os.O_WRONLY|os.O_RDWR|os.O_CREATE|os.O_TRUNC|os.O_APPEND) != 0
		if kind == "pipe" && writing {
			kind = "handle"
		}
		obs.Canon.Hook = append(obs.Canon.Hook, fmt.Sprintf("%s flags=%s perm=%o -> %s", sym, c12FlagString(flag), perm, kind))
		form := "operand"
		switch {
		case flag&os.O_TRUNC != 0:
			form = ">"
		case flag&os.O_APPEND != 0:
			form = ">>"
		case cur < len(ops) && (ops[cur].K == "gf" || ops[cur].K == "gv") && ops[cur].N == sym:
			form = "getline<"
		}
		obs.Opens = append(obs.Opens, form+" x "+kind)
		bf := back + "/" + c12HermFlat(sym)
		switch kind {
		case "handle":
			f, err := os.OpenFile(bf, flag, perm)
			if err != nil {
				var errno syscall.Errno
				if errors.As(err, &errno) {
					return nil, &fs.PathError{Op: "open", Path: name, Err: errno}
				}
				return nil, &fs.PathError{Op: "open", Path: name, Err: fs.ErrNotExist}
			}
			return f, nil
		case "pipe":
			content, err := os.ReadFile(bf)
			if err != nil {
				return nil, &fs.PathError{Op: "open", Path: name, Err: syscall.ENOENT}
			}
			r, w, err := os.Pipe()
			if err != nil {
				panic(err)
			}
			w.Write(content) // a few bytes: fits the pipe buffer
			w.Close()
			return r, nil
		case "notexist":
			return nil, fs.ErrNotExist
		case "enoent":
			return nil, &fs.PathError{Op: "open", Path: name, Err: syscall.ENOENT}
		case "fmtnotexist":
			return nil, fmt.Errorf("jail: %s: %w", name, fs.ErrNotExist)
		case "perm":
			return nil, fs.ErrPermission
		case "eacces":
			return nil, &fs.PathError{Op: "open", Path: name, Err: syscall.EACCES}
		case "eisdir":
			return nil, &fs.PathError{Op: "open", Path: name, Err: syscall.EISDIR}
		case "textnosuch":
			return nil, errors.New("open " + name + ": no such file or directory")
		}
		return nil, &c12CustomErr{name}
	}
	before := c12HermList(host)
	trip := c12TripStart(d)
	res := c12ExecFresh(cs.Entry, prog, cfg)
	if trip != nil {
		obs.Trip, obs.TripOK = trip.stop(), true
	}
	after := c12HermList(host)
	obs.HostChanged = c12MapDiff(before, after)
	obs.Canon.Out, obs.Canon.Stderr = norm(out.String()), norm(errw.String())
	obs.Canon.Err, obs.Canon.Status, obs.Canon.Panic = norm(res.Err), res.Status, res.Panic
	obs.Canon.Back = map[string]string{}
	for k, v := range c12HermList(back) {
		if strings.HasPrefix(v, "file:") {
			obs.Canon.Back[k] = v
		}
	}
	return obs
}

func (o *c12HermObs) canon() string {
	var b strings.Builder
	e := json.NewEncoder(&b)
	e.SetEscapeHTML(false)
	e.Encode(o.Canon)
	return strings.TrimSpace(b.String())
}

// ---- oracle -------------------------------------------------------------------------------------------------------------------

func c12HermCheck(cs *c12HermCase) (bad []c12Verdict, obs []c12HermObs) {
	obs = make([]c12HermObs, len(cs.Envs))
	for k, env := range cs.Envs {
		obs[k] = c12HermRunEnv(cs, env)
		// a tripwire event must be reproducible (another process walking /tmp could open our directories)
		for try := 0; try < 2 && len(obs[k].Trip) > 0; try++ {
			again := c12HermRunEnv(cs, env)
			if len(again.Trip) == 0 {
				obs[k] = again
			}
		}
	}
	for k, env := range cs.Envs {
		o := &obs[k]
		add := func(what, got, want string) {
			bad = append(bad, c12Verdict{What: "host environment " + env + ": " + what, Got: got, Want: want, Envs: []string{env}})
		}
		if o.Canon.Panic != "" {
			add("the interpreter panicked", o.Canon.Panic, "")
		}
		if len(o.HostChanged) > 0 {
			add("a custom OpenFile is configured, yet the real file system was changed behind its back", strings.Join(o.HostChanged, ", "), "host tree unchanged")
		}
		if len(o.Trip) > 0 {
			add("a custom OpenFile is configured, yet the interpreter touched the named paths on the real file system (inotify)", strings.Join(o.Trip, ", "), "no access")
		}
		all := o.canon()
		if i := strings.Index(all, "HOST_"); i >= 0 {
			end := i + 24
			if end > len(all) {
				end = len(all)
			}
			add("content of a real file reached the program although OpenFile never handed that file out", all[i:end], "")
		}
		for _, h := range o.Canon.Hook {
			rd := strings.Contains(h, "flags=RDONLY ")
			if strings.HasPrefix(h, "?") {
				add("OpenFile was asked for a name the program never used as a file (standard input is not opened through OpenFile)", h, "")
			}
			if cs.NoReads && rd {
				add("NoFileReads is set but OpenFile was called for reading", h, "")
			}
			if cs.NoWrites && !rd {
				add("NoFileWrites is set but OpenFile was called for writing", h, "")
			}
		}
		if k > 0 && all != obs[0].canon() {
			bad = append(bad, c12Verdict{
				What: fmt.Sprintf("with the same program, standard input and OpenFile answers the run differs between host environment %q and %q: the interpreter "+
					"consulted the real file system behind OpenFile's back", cs.Envs[0], env),
				Got: env + ": " + all, Want: cs.Envs[0] + ": " + obs[0].canon(), Envs: []string{cs.Envs[0], env}})
		}
	}
	return bad, obs
}

// ---- generation -----------------------------------------------------------------------------------------------------------------

func c12HermCorpus() []c12HermCase {
	var res []c12HermCase
	type form struct {
		name string
		ops  []c12HermOp
		args []string
		ans  func(x string) map[string][]string
		pre  []string
	}
	one := func(x string) map[string][]string { return map[string][]string{"p0": {x}} }
	second := func(x string) map[string][]string { return map[string][]string{"p0": {"handle", x}} }
	forms := []form{
		{"getline<f", []c12HermOp{{K: "gf", N: "p0"}}, nil, one, []string{"p0"}},
		{"getline v<f", []c12HermOp{{K: "gv", N: "p0", Form: 1}, {K: "gv", N: "p0", Form: 2}}, nil, one, []string{"p0"}},
		{"getline v<sub/f", []c12HermOp{{K: "gv", N: "sub/p3", Form: 1}}, nil, func(x string) map[string][]string { return map[string][]string{"sub/p3": {x}} }, []string{"sub/p3"}},
		{"print>f", []c12HermOp{{K: "gt", N: "p0", Form: 1}, {K: "close", N: "p0"}}, nil, one, nil},
		{"print>>f", []c12HermOp{{K: "app", N: "p0", Form: 2}, {K: "pf", N: "p0"}}, nil, one, []string{"p0"}},
		{"reopen-read", []c12HermOp{{K: "gv", N: "p0"}, {K: "close", N: "p0"}, {K: "gv", N: "p0", Form: 1}}, nil, second, []string{"p0"}},
		{"read-after-write", []c12HermOp{{K: "gt", N: "p0"}, {K: "close", N: "p0"}, {K: "gf", N: "p0", Form: 2}}, nil, second, nil},
		{"write-after-read", []c12HermOp{{K: "gv", N: "p0"}, {K: "close", N: "p0"}, {K: "app", N: "p0", Form: 1}}, nil, second, []string{"p0"}},
		{"reopen-write", []c12HermOp{{K: "gt", N: "p0"}, {K: "close", N: "p0"}, {K: "gt", N: "p0", Form: 1}}, nil, second, nil},
	}
	for _, f := range forms {
		for _, x := range c12HermAnswers {
			for _, place := range []string{"begin", "rule", "end"} {
				cs := c12HermCase{Stream: "herm", Shape: f.name + "@" + place, Args: f.args, Answers: f.ans(x), Pre: f.pre, Envs: c12HermEnvs}
				switch place {
				case "begin":
					cs.Begin = f.ops
				case "rule":
					cs.Rule = f.ops
				default:
					cs.End = f.ops
				}
				res = append(res, cs)
			}
		}
	}
	// operands of the main loop and of un-redirected getline
	for _, x := range c12HermAnswers {
		for k, w := range []c12HermCase{
			{Shape: "operand", Args: []string{"p0"}},
			{Shape: "operand:dash,file", Args: []string{"-", "p1"}},
			{Shape: "operand:assign,file,file", Args: []string{"x=1", "p0", "p1"}},
			{Shape: "operand:getline-in-BEGIN", Args: []string{"p1", "p0"}, Begin: []c12HermOp{{K: "gl"}, {K: "gl"}, {K: "gl"}}},
			{Shape: "operand:getline-in-rule", Args: []string{"-", "p1"}, Rule: []c12HermOp{{K: "gl"}, {K: "gl"}, {K: "gl"}}},
			{Shape: "operand+getline<same", Args: []string{"p1"}, Begin: []c12HermOp{{K: "gv", N: "p1"}}, End: []c12HermOp{{K: "close", N: "p1"}, {K: "gf", N: "p1"}}},
		} {
			cs := w
			cs.Stream, cs.Envs, cs.Pre, cs.StdinFile = "herm", c12HermEnvs, []string{"p0", "p1"}, k%2 == 0
			cs.Answers = map[string][]string{"p0": {x}, "p1": {x, "handle"}}
			res = append(res, cs)
		}
	}
	// the deny flags together with the hook
	for mask := 1; mask < 8; mask++ {
		for _, x := range []string{"handle", "custom", "notexist"} {
			cs := c12HermCase{Stream: "herm", Shape: "flags", NoExec: mask&1 != 0, NoWrites: mask&2 != 0, NoReads: mask&4 != 0, Envs: c12HermEnvs,
				Pre: []string{"p0"}, Answers: map[string][]string{"p0": {x}, "p1": {x}},
				Begin: []c12HermOp{{K: "gf", N: "-"}}, Rule: []c12HermOp{{K: "gv", N: "p0"}}, End: []c12HermOp{{K: "gt", N: "p1"}}}
			if mask&4 != 0 {
				cs.Rule, cs.End = nil, append([]c12HermOp{{K: "app", N: "p1", Form: 1}}, c12HermOp{K: "gv", N: "p0"})
			}
			res = append(res, cs)
		}
	}
	return res
}

func c12HermRandom(c *vh.Ctx) c12HermCase {
	r := c.Rng
	cs := c12HermCase{Stream: "herm", Shape: "random", StdinFile: r.Intn(2) == 0, Answers: map[string][]string{}}
	if r.Intn(2) == 0 {
		cs.Entry = c12Entries[r.Intn(len(c12Entries))]
	}
	if r.Intn(3) == 0 {
		m := r.Intn(8)
		cs.NoExec, cs.NoWrites, cs.NoReads = m&1 != 0, m&2 != 0, m&4 != 0
	}
	pool := c12HermPool[:2+r.Intn(3)]
	pick := func() string { return pool[r.Intn(len(pool))] }
	for _, p := range pool {
		if r.Intn(3) != 0 {
			cs.Pre = append(cs.Pre, p)
		}
		for i, n := 0, r.Intn(4); i < n; i++ {
			k := c12HermAnswers[r.Intn(len(c12HermAnswers))]
			if r.Intn(2) == 0 {
				k = "handle" // a run that goes on touches more files
			}
			cs.Answers[p] = append(cs.Answers[p], k)
		}
	}
	gen := func(n int, gl bool) []c12HermOp {
		var ops []c12HermOp
		for i := 0; i < n; i++ {
			op := c12HermOp{N: pick(), Form: r.Intn(3)}
			switch k := r.Intn(16); {
			case k < 3:
				op.K = "gf"
			case k < 6:
				op.K = "gv"
			case k < 8:
				op.K = "gt"
			case k < 10:
				op.K = "app"
			case k < 11:
				op.K = "pf"
			case k < 14:
				op.K = "close"
			case k < 15 && gl:
				op.K, op.N = "gl", ""
			default:
				op.K = "ff"
			}
			if (op.K == "gf" || op.K == "gv") && r.Intn(12) == 0 {
				op.N = "-"
			}
			ops = append(ops, op)
		}
		return ops
	}
	cs.Begin = gen(r.Intn(5), true)
	if r.Intn(2) == 0 {
		cs.Rule = gen(1+r.Intn(3), false)
	}
	cs.End = gen(r.Intn(4), true)
	argPool := append([]string{"-", "", "x=1"}, pool...)
	argPool = append(argPool, pool...)
	for i, n := 0, r.Intn(4); i < n; i++ {
		cs.Args = append(cs.Args, argPool[r.Intn(len(argPool))])
	}
	// the reference environment plus some others
	cs.Envs = []string{c12HermEnvs[r.Intn(2)]}
	if c.Thorough() {
		for _, e := range c12HermEnvs {
			if e != cs.Envs[0] {
				cs.Envs = append(cs.Envs, e)
			}
		}
	} else {
		for _, k := range r.Perm(len(c12HermEnvs))[:3] {
			if e := c12HermEnvs[k]; e != cs.Envs[0] {
				cs.Envs = append(cs.Envs, e)
			}
		}
	}
	return cs
}

func runC12Herm(c *vh.Ctx, replay *c12HermCase) {
	var cases []c12HermCase
	if replay != nil {
		cases = []c12HermCase{*replay}
	} else {
		cases = c12HermCorpus()
		for i := range cases {
			if i%3 == 0 { // every third systematic case through one of the Interpreter entry points, rotating
				cases[i].Entry = c12Entries[(i/3+i/21)%len(c12Entries)]
			}
		}
		nCorpus := len(cases)
		for i, n := 0, c.N(300, 6000); i < n; i++ {
			cases = append(cases, c12HermRandom(c))
		}
		c.Note(fmt.Sprintf("stream herm: %d systematic cases (file-touching form x %d OpenFile answer kinds x BEGIN/rule/END, each in %d host environments), %d generated",
			nCorpus, len(c12HermAnswers), len(c12HermEnvs), len(cases)-nCorpus))
	}
	bads := make([][]c12Verdict, len(cases))
	obss := make([][]c12HermObs, len(cases))
	vh.Parallel(len(cases), func(i int) { bads[i], obss[i] = c12HermCheck(&cases[i]) })
	runs, tripRuns := 0, 0
	for i := range cases {
		cs := &cases[i]
		key, _ := json.Marshal(cs)
		c.Eval(string(key), len(obss[i][0].Canon.Hook) > 0)
		c.OracleCase()
		c.Hit("stream:herm")
		c.Hit("herm:entry:" + map[bool]string{true: "execprogram", false: cs.Entry}[cs.Entry == ""])
		c.Hit("herm:shape:" + strings.SplitN(cs.Shape, "@", 2)[0])
		if p := strings.SplitN(cs.Shape, "@", 2); len(p) == 2 {
			c.Hit("herm:place:" + p[1])
		}
		c.Hit(fmt.Sprintf("herm:flags:exec=%s,writes=%s,reads=%s", c12B(cs.NoExec), c12B(cs.NoWrites), c12B(cs.NoReads)))
		for k, env := range cs.Envs {
			runs++
			c.Hit("herm:env:" + env)
			if obss[i][k].TripOK {
				tripRuns++
			}
		}
		for _, o := range obss[i][0].Opens {
			c.Hit("herm:open:" + o)
		}
		c.Hit("herm:outcome:" + func() string {
			e := obss[i][0].Canon.Err
			switch {
			case e == "":
				return "completed"
			case strings.Contains(e, "due to No"):
				return "error:deny-flag"
			case strings.Contains(e, "output redirection error"):
				return "error:redirect"
			}
			return "error:open"
		}())
		for _, v := range bads[i] {
			narrowed := *cs
			narrowed.Envs = v.Envs
			c.Fail(vh.Failure{Kind: "oracle", What: "stream herm: " + v.What, Finding: v.Finding, Case: &narrowed,
				Got: v.Got + " | program:\n" + obss[i][0].Src, Want: v.Want})
		}
		if i == 40 {
			c.Sample(map[string]interface{}{"case": cs, "program": obss[i][0].Src, "reference_result": obss[i][0].Canon})
		}
	}
	c.Note(fmt.Sprintf("stream herm: %d runs in all, %d of them under an inotify tripwire on the host tree", runs, tripRuns))
}
