package main

// C12, stream "spec" — the child process: a host that holds descriptors open and embeds the interpreter (see special.go).

import (
	"encoding/json"
	"fmt"
	"io/fs"
	"os"
	"strings"
	"sync"
	"syscall"

	"github.com/benhoyt/goawk/interp"
	"github.com/benhoyt/goawk/parser"
)

type c12SpecWatch struct {
	fd       int
	dev, ino uint64
	secret   bool
}

type c12SpecEnv struct {
	dir     string // the child's directory (job.json, obs.jsonl, realout, realerr, w/)
	work    string // scratch directory of the case being run
	secret  string
	slots   [3]int
	watches []c12SpecWatch
}

func c12SpecStat(fd int) (dev, ino uint64, err error) {
	var st syscall.Stat_t
	if err = syscall.Fstat(fd, &st); err != nil {
		return 0, 0, err
	}
	return uint64(st.Dev), uint64(st.Ino), nil
}

func (env *c12SpecEnv) real(sym string) string {
	switch sym {
	case "-", "":
		return sym
	case "stdin", "stdout", "stderr", "tty", "null":
		return "/dev/" + sym
	case "fd03":
		return "/dev/fd/03"
	case "fdS0", "fdS1", "fdS2":
		return fmt.Sprintf("/dev/fd/%d", env.slots[sym[3]-'0'])
	case "procS0", "procS2":
		return fmt.Sprintf("/proc/self/fd/%d", env.slots[sym[5]-'0'])
	case "proc0", "proc3":
		return "/proc/self/fd/" + sym[4:]
	case "inet":
		return "/inet/tcp/0/127.0.0.1/9"
	}
	if len(sym) == 3 && strings.HasPrefix(sym, "fd") {
		return "/dev/fd/" + sym[2:]
	}
	return env.work + "/" + sym // p0 o0 m0
}

func (env *c12SpecEnv) sym(real string) string {
	for _, s := range c12SpecNames {
		if env.real(s) == real {
			return s
		}
	}
	return "?" + real
}

// watch: remember what descriptor fd refers to
func (env *c12SpecEnv) watch(fd int, secret bool) {
	dev, ino, err := c12SpecStat(fd)
	if err != nil {
		panic(fmt.Sprintf("spec child: descriptor %d is not open at start: %v", fd, err))
	}
	env.watches = append(env.watches, c12SpecWatch{fd, dev, ino, secret})
}

// inspect: has anything happened to the descriptors the host holds? Repairs them for the next case.
func (env *c12SpecEnv) inspect() (trouble []string) {
	for _, w := range env.watches {
		what := "the host's real standard output / error"
		if w.secret {
			what = "the host's secret file"
		}
		dev, ino, err := c12SpecStat(w.fd)
		switch {
		case err != nil:
			trouble = append(trouble, fmt.Sprintf("descriptor %d (%s) was closed", w.fd, what))
		case dev != w.dev || ino != w.ino:
			trouble = append(trouble, fmt.Sprintf("descriptor %d (%s) now refers to another file", w.fd, what))
		default:
			if w.secret {
				if off, err := syscall.Seek(w.fd, 0, 1); err == nil && off != 0 {
					trouble = append(trouble, fmt.Sprintf("descriptor %d (%s) was read: its offset moved to %d", w.fd, what, off))
					syscall.Seek(w.fd, 0, 0)
				}
			}
			continue
		}
		path, flag := env.secret, syscall.O_RDONLY
		if !w.secret {
			path, flag = env.dir+"/"+map[int]string{1: "realout", 2: "realerr"}[w.fd], syscall.O_WRONLY|syscall.O_APPEND
		}
		if nf, err := syscall.Open(path, flag, 0); err == nil {
			if nf != w.fd {
				syscall.Dup3(nf, w.fd, 0)
				syscall.Close(nf)
			}
		}
	}
	return trouble
}

func c12SpecChildMain(dir string) {
	b, err := os.ReadFile(dir + "/job.json")
	if err != nil {
		panic(err)
	}
	var job c12SpecJob
	if err := json.Unmarshal(b, &job); err != nil {
		panic(err)
	}
	env := &c12SpecEnv{dir: dir, work: dir + "/w", secret: job.Secret}
	env.watch(0, true)
	env.watch(1, false)
	env.watch(2, false)
	for fd := 3; fd <= 9; fd++ {
		env.watch(fd, true)
	}
	for k := 0; k < 3; k++ {
		fd, err := syscall.Open(job.Secret, syscall.O_RDONLY, 0)
		if err != nil {
			panic(err)
		}
		if k == 2 { // a three-digit descriptor number
			hi, _, e := syscall.Syscall(syscall.SYS_FCNTL, uintptr(fd), uintptr(syscall.F_DUPFD), 100+uintptr(os.Getpid()%50))
			if e == 0 {
				syscall.Close(fd)
				fd = int(hi)
			}
		}
		env.slots[k] = fd
		env.watch(fd, true)
	}
	out, err := os.OpenFile(dir+"/obs.jsonl", os.O_CREATE|os.O_WRONLY|os.O_APPEND, 0o644)
	if err != nil {
		panic(err)
	}
	defer out.Close()
	for k := range job.Cases {
		o := c12SpecRunOne(env, &job.Cases[k])
		o.Idx = job.Idx[k]
		line, _ := json.Marshal(&o)
		out.Write(append(line, '\n'))
	}
}

func c12SpecNameExpr(real string, form int, vars *[]string, idx int) string {
	q := func(s string) string { return `"` + s + `"` } // names never contain quotes or backslashes
	switch form % 5 {
	case 0:
		return q(real)
	case 1:
		cut := len(real) / 2
		return "(" + q(real[:cut]) + " " + q(real[cut:]) + ")"
	case 2:
		v := fmt.Sprintf("nm%d", idx)
		*vars = append(*vars, v, real)
		return v
	case 3:
		cut := len(real) / 3
		return "sprintf(\"%s%s\", " + q(real[:cut]) + ", " + q(real[cut:]) + ")"
	}
	return "substr(" + q("##"+real) + ", 3)"
}

func c12SpecRender(env *c12SpecEnv, cs *c12SpecCase) (src string, vars []string) {
	idx := 0
	emit := func(ops []c12SpecOp) string {
		var b strings.Builder
		for _, op := range ops {
			i := idx
			idx++
			n := c12SpecNameExpr(env.real(op.N), op.Form, &vars, i)
			switch op.K {
			case "gt", "app":
				r := map[string]string{"gt": ">", "app": ">>"}[op.K]
				if op.Form%2 == 0 {
					fmt.Fprintf(&b, "  print \"W%d\" %s %s; t(%d, 0, \"\")\n", i, r, n, i)
				} else {
					fmt.Fprintf(&b, "  printf \"%%s\\n\", \"W%d\" %s %s; t(%d, 0, \"\")\n", i, r, n, i)
				}
			case "gf":
				fmt.Fprintf(&b, "  $0 = \"@\"; r = (getline < %s); t(%d, r, $0)\n", n, i)
			case "gv":
				fmt.Fprintf(&b, "  v = \"@\"; r = (getline v < %s); t(%d, r, v)\n", n, i)
			case "close":
				fmt.Fprintf(&b, "  r = close(%s); t(%d, r, \"\")\n", n, i)
			case "ff":
				fmt.Fprintf(&b, "  r = fflush(%s); t(%d, r, \"\")\n", n, i)
			}
		}
		return b.String()
	}
	begin, rule, end := emit(cs.Begin), emit(cs.Rule), emit(cs.End)
	var b strings.Builder
	b.WriteString("BEGIN {\n  rdone = 0\n" + begin + "}\n")
	b.WriteString("{\n  t(-1, NR, FILENAME \":\" $0)\n  if (!rdone) {\n    rdone = 1\n  t(-4, 0, \"\")\n" + rule + "  }\n}\n")
	b.WriteString("END {\n  t(-3, 0, \"\")\n" + end + "  t(-2, 0, \"\")\n}\n")
	return b.String(), vars
}

func c12SpecRunOne(env *c12SpecEnv, cs *c12SpecCase) (obs c12SpecObs) {
	if why := c12SpecUnsafe(cs); why != "" {
		obs.Skipped = "the case is outside what this stream runs (" + why + " without a hook and without the flag that refuses it)"
		return obs
	}
	resetWork := func() {
		os.RemoveAll(env.work)
		os.Mkdir(env.work, 0o755)
		os.WriteFile(env.work+"/p0", []byte("PLAIN_p0_1\nPLAIN_p0_2\n"), 0o644)
		os.Truncate(env.dir+"/realout", 0)
		os.Truncate(env.dir+"/realerr", 0)
	}
	resetWork()
	defer os.RemoveAll(env.work)
	src, vars := c12SpecRender(env, cs)
	obs.Src = src
	var mu sync.Mutex
	funcs := map[string]interface{}{"t": func(i int, r float64, v string) {
		mu.Lock()
		obs.Events = append(obs.Events, c12SpecEvent{T: true, I: i, R: r, V: v})
		mu.Unlock()
	}}
	prog, err := parser.ParseProgram([]byte(src), &parser.ParserConfig{Funcs: funcs})
	if err != nil {
		panic(fmt.Sprintf("harness program does not parse: %v\n%s", err, src))
	}
	args := make([]string, len(cs.Args))
	for i, a := range cs.Args {
		args[i] = env.real(a)
	}
	var out, errw lockedWriter
	current := 0
	mkCfg := func(k int, noExec, noWrites, noReads, hook bool) *interp.Config {
		cfg := &interp.Config{Stdin: strings.NewReader(c12SpecStdin), Output: &out, Error: &errw, Environ: []string{}, Vars: vars, Args: args, Funcs: funcs,
			NoExec: noExec, NoFileWrites: noWrites, NoFileReads: noReads}
		if hook {
			cfg.OpenFile = func(name string, flag int, perm os.FileMode) (*os.File, error) {
				sym := env.sym(name)
				mode := "rd"
				if flag&(os.O_WRONLY|os.O_RDWR|os.O_CREATE|os.O_TRUNC|os.O_APPEND) != 0 {
					mode = "ap"
					if flag&os.O_TRUNC != 0 {
						mode = "tr"
					}
				}
				mu.Lock()
				if k != current {
					obs.Stale = append(obs.Stale, fmt.Sprintf("run %d's OpenFile called during run %d: %s", k, current, sym))
				} else {
					obs.Events = append(obs.Events, c12SpecEvent{Name: sym, Mode: mode})
				}
				mu.Unlock()
				flat := c12SpecFlat(strings.NewReplacer("/", "_", "?", "Q").Replace(sym))
				if mode == "rd" {
					if k == current && cs.Answers[sym] == "notexist" {
						return nil, fs.ErrNotExist
					}
					p := env.work + "/hr_" + flat
					os.WriteFile(p, []byte("HOOK_"+flat+"_1\nHOOK_"+flat+"_2\n"), 0o644)
					return os.Open(p)
				}
				return os.OpenFile(env.work+"/hw_"+flat, flag, 0o644)
			}
		}
		return cfg
	}
	func() {
		defer func() {
			if r := recover(); r != nil {
				obs.Panic = fmt.Sprint(r)
			}
		}()
		p, err := interp.New(prog)
		if err != nil {
			obs.RunErr = "interp.New: " + err.Error()
			return
		}
		if cs.Warm != 0 {
			if cs.Warm == 1 {
				p.Execute(mkCfg(0, false, false, false, true))
			} else {
				p.Execute(mkCfg(0, true, true, true, false))
			}
			env.inspect()
			resetWork()
			mu.Lock()
			obs.Events, obs.Stale = nil, nil
			current = 1
			mu.Unlock()
			out.reset()
			errw.reset()
		}
		_, err = c12Exec(cs.Entry, p, prog, mkCfg(current, cs.NoExec, cs.NoWrites, cs.NoReads, cs.Hook))
		if err != nil {
			obs.RunErr = err.Error()
		}
	}()
	obs.Out, obs.Err = out.String(), errw.String()
	obs.FdTrouble = env.inspect()
	obs.Files = c12List(env.work)
	ro, _ := os.ReadFile(env.dir + "/realout")
	re, _ := os.ReadFile(env.dir + "/realerr")
	obs.RealOut, obs.RealErr = string(ro), string(re)
	if b, err := os.ReadFile(env.secret); err != nil || string(b) != c12SpecSecret {
		obs.SecretChanged = true
		os.WriteFile(env.secret, []byte(c12SpecSecret), 0o644)
	}
	return obs
}
