package main

// C12, stream "spec" — names the operating system or other awks treat specially are ordinary file names.
//
// The property's quantifier reaches "/dev/stdout-style names". GoAWK documents exactly these exceptions: "-" read = standard
// input, "-" written = standard output, an operand "" is skipped, and `print > "/dev/stdout"` / `"/dev/stderr"` use the
// configured Output / Error writers (after the NoFileWrites check). Every other name — "/dev/stdin", "/dev/fd/N",
// "/proc/self/fd/N", "/dev/tty", "/dev/null", gawk's "/inet/…", "/dev/stdout" when READ, "/dev/stdin" when WRITTEN — is a
// file name like any other: refused by NoFileReads / NoFileWrites with an error that ends the run, and handed to the
// configured OpenFile otherwise.
//
// What makes such names dangerous is the process around the interpreter: a host that embeds GoAWK holds descriptors open
// (logs, sockets, databases). So the runs of this stream happen in CHILD PROCESSES of the harness (the harness binary
// re-executed with C12_SPEC_CHILD set) whose descriptor table is arranged like such a host's:
//
//	0          a secret file ("SECRET_HOST_DATA_…"), read-only           — the host's real standard input
//	1, 2       two scratch files                                          — the host's real standard output / error
//	3 … 9      the secret file again (seven separate opens)
//	S0, S1, S2 three more opens of the secret file at whatever numbers the child gets (S2 ≥ 100)
//
// The interpreter's own Stdin / Output / Error are in-memory. With a custom OpenFile the hook answers from a table (a handle on
// a scratch file "HOOK_<name>_…", or fs.ErrNotExist) and never touches the named path. Without the hook, names are used only
// where the flags refuse them or where the real open is harmless and predictable.
//
// Implementation-side oracle (no model), per operation in execution order:
//   - refused (NoFileReads / NoFileWrites and not a documented exception) ⇒ the run ends there with an error, OpenFile is not
//     asked, nothing is read or written;
//   - allowed with the hook ⇒ exactly one OpenFile call (name, mode), and what getline delivers / where print's token ends up is
//     what the hook handed out — not standard input, not the secret, not the host's real descriptors;
//   - documented exceptions ⇒ no OpenFile call, no error, under every flag setting;
//   - close / fflush of any such name open nothing.
//
// Host-side tripwires after every run: descriptors 0–9 and S0–S2 still refer to the same files, the secret ones still at offset
// 0 (nothing was read through them), the secret file is unchanged, the host's real stdout / stderr received nothing they should
// not, and the secret's content appears nowhere when reads are refused or go through the hook.
//
// Every case also carries an entry point (see c12Entries) and optionally an earlier Execute on the same Interpreter.

import (
	"bytes"
	"encoding/json"
	"fmt"
	"os"
	"os/exec"
	"regexp"
	"sort"
	"strings"
	"sync"
	"syscall"
	"time"

	"verifharness/vh"
)

type c12SpecOp struct {
	K    string `json:"k"` // gf (getline < n) gv (getline v < n) gt (print > n) app (print >> n) close ff
	N    string `json:"n"` // symbolic name, see c12SpecNames
	Form int    `json:"form,omitempty"`
}

type c12SpecCase struct {
	Stream   string            `json:"stream"` // "spec"
	Shape    string            `json:"shape"`
	NoExec   bool              `json:"no_exec"`
	NoWrites bool              `json:"no_writes"`
	NoReads  bool              `json:"no_reads"`
	Hook     bool              `json:"hook"`
	Entry    string            `json:"entry,omitempty"`
	Warm     int               `json:"warm,omitempty"` // earlier Execute on the same Interpreter: 1 = no flags + a hook of its own, 2 = all three flags, no hook
	Args     []string          `json:"args,omitempty"`
	Begin    []c12SpecOp       `json:"begin,omitempty"`
	Rule     []c12SpecOp       `json:"rule,omitempty"` // while the first record is processed
	End      []c12SpecOp       `json:"end,omitempty"`
	Answers  map[string]string `json:"answers,omitempty"` // symbolic name -> "notexist" (the hook's answer to a read-open; default: a handle)
}

// symbolic names -> what they are spelled as in the child (S0–S2: the child's own descriptor numbers)
var c12SpecNames = []string{"stdin", "stdout", "stderr", "fd0", "fd1", "fd2", "fd3", "fd4", "fd5", "fd6", "fd7", "fd8", "fd9", "fd03",
	"fdS0", "fdS1", "fdS2", "proc0", "proc3", "procS0", "procS2", "tty", "null", "inet", "-", "", "p0", "o0", "m0"}

const (
	c12SpecSecret = "SECRET_HOST_DATA_1\nSECRET_HOST_DATA_2\n"
	c12SpecStdin  = "STDIN1\nSTDIN2\n"
)

func c12SpecFlat(sym string) string {
	switch sym {
	case "-":
		return "DASH"
	case "":
		return "EMPTY"
	}
	return sym
}

// the name holds (a fresh open of) the secret file when really opened in the child
func c12SpecSecretish(sym string) bool {
	switch sym {
	case "stdin", "fd0", "proc0", "fd3", "fd4", "fd5", "fd6", "fd7", "fd8", "fd9", "proc3", "fdS0", "fdS1", "fdS2", "procS0", "procS2":
		return true
	}
	return false
}

// really opening the name for reading in the child is harmless and its outcome is known
func c12SpecSafeRead(sym string) bool {
	return sym == "-" || sym == "null" || sym == "p0" || sym == "m0" || c12SpecSecretish(sym)
}

func c12SpecSafeOperand(sym string) bool {
	return sym == "" || (sym != "m0" && c12SpecSafeRead(sym))
}

// really opening the name for writing in the child is harmless and its outcome is known
func c12SpecSafeWrite(sym string) bool {
	switch sym {
	case "-", "stdout", "stderr", "null", "fd1", "fd2", "o0":
		return true
	}
	return false
}

func c12SpecKnown(sym string) bool {
	for _, n := range c12SpecNames {
		if n == sym {
			return true
		}
	}
	return false
}

// c12SpecUnsafe: why the child must not run this case ("" = fine). Every operation is, by its own flags, either refused, routed to
// the hook, or harmless when really performed — independent of the order of operations, so a broken interpreter that goes on after
// a refusal still cannot make the child block on a terminal or clobber anything but its own scratch files.
func c12SpecUnsafe(cs *c12SpecCase) string {
	for _, ops := range [][]c12SpecOp{cs.Begin, cs.Rule, cs.End} {
		for _, op := range ops {
			if !c12SpecKnown(op.N) {
				return "unknown name " + op.N
			}
			switch op.K {
			case "gf", "gv":
				if !cs.Hook && !cs.NoReads && !c12SpecSafeRead(op.N) {
					return "really reading " + op.N
				}
			case "gt", "app":
				if !cs.Hook && !cs.NoWrites && !c12SpecSafeWrite(op.N) {
					return "really writing " + op.N
				}
			case "close", "ff":
			default:
				return "unknown operation " + op.K
			}
		}
	}
	for _, a := range cs.Args {
		if !c12SpecKnown(a) {
			return "unknown operand " + a
		}
		if !cs.Hook && !cs.NoReads && !c12SpecSafeOperand(a) {
			return "really reading operand " + a
		}
		if cs.Answers[a] != "" {
			return "an operand whose open the hook refuses"
		}
	}
	return ""
}

// ---- what the child reports --------------------------------------------------------------------------------------------

type c12SpecEvent struct {
	T    bool    `json:"t,omitempty"` // a t() call (else an OpenFile call)
	I    int     `json:"i,omitempty"`
	R    float64 `json:"r,omitempty"`
	V    string  `json:"v,omitempty"`
	Name string  `json:"name,omitempty"` // symbolic
	Mode string  `json:"mode,omitempty"` // rd tr ap
}

type c12SpecObs struct {
	Idx           int               `json:"idx"`
	Events        []c12SpecEvent    `json:"events"`
	Out           string            `json:"out"`
	Err           string            `json:"err"`
	RunErr        string            `json:"run_err"`
	Panic         string            `json:"panic"`
	Files         map[string]string `json:"files"` // scratch directory after the run
	RealOut       string            `json:"real_out"`
	RealErr       string            `json:"real_err"`
	FdTrouble     []string          `json:"fd_trouble"`
	SecretChanged bool              `json:"secret_changed"`
	Stale         []string          `json:"stale"`
	Src           string            `json:"src"`
	Skipped       string            `json:"skipped"`
}

// ---- oracle ---------------------------------------------------------------------------------------------------------------

var c12SpecStdinRec = regexp.MustCompile(`^STDIN[0-9]$`)

type c12SpecExp struct {
	stop  bool // one name in two roles: ordinary-stream semantics the other streams cover; nothing more is checked
	err   bool
	hooks []string
	chk   func(r float64, v string) string // "" = fine
	dest  string                           // print: out err realout realerr nowhere file:<name>
	fresh bool                             // print: this operation opened the destination with truncation
}

type c12SpecSim struct {
	cs    *c12SpecCase
	open  map[string]string // sym -> r | w
	lines map[string]int    // sym -> lines delivered since the open
	dest  map[string]string
}

func (s *c12SpecSim) source(sym string) (prefix string, n int) {
	switch {
	case s.cs.Hook:
		return "HOOK_" + c12SpecFlat(sym) + "_", 2
	case c12SpecSecretish(sym):
		return "SECRET_HOST_DATA_", 2
	case sym == "p0":
		return "PLAIN_p0_", 2
	}
	return "", 0 // null
}

func (s *c12SpecSim) expect(op c12SpecOp) (e c12SpecExp) {
	cs, n := s.cs, op.N
	switch op.K {
	case "gf", "gv":
		if n == "-" {
			e.chk = func(r float64, v string) string {
				if r == 0 || (r == 1 && c12SpecStdinRec.MatchString(v)) {
					return ""
				}
				return "getline < \"-\" must deliver a line of standard input (or its end)"
			}
			return e
		}
		if s.open[n] == "w" {
			e.stop = true
			return e
		}
		if s.open[n] == "" {
			if cs.NoReads {
				e.err = true
				return e
			}
			if cs.Hook {
				e.hooks = []string{n + ":rd"}
				if cs.Answers[n] == "notexist" {
					e.chk = func(r float64, v string) string {
						if r != -1 {
							return "OpenFile answered fs.ErrNotExist: getline must return -1"
						}
						return ""
					}
					return e
				}
			} else if n == "m0" {
				e.chk = func(r float64, v string) string {
					if r != -1 {
						return "the file does not exist: getline must return -1"
					}
					return ""
				}
				return e
			}
			s.open[n], s.lines[n] = "r", 0
		}
		prefix, total := s.source(n)
		s.lines[n]++
		k := s.lines[n]
		e.chk = func(r float64, v string) string {
			if k > total {
				if r != 0 {
					return fmt.Sprintf("the source is exhausted: getline must return 0")
				}
				return ""
			}
			if want := fmt.Sprintf("%s%d", prefix, k); r != 1 || v != want {
				return "getline must deliver " + want
			}
			return ""
		}
	case "gt", "app":
		if n == "-" {
			e.dest = "out"
			return e
		}
		if s.open[n] == "r" {
			e.stop = true
			return e
		}
		if s.open[n] == "w" {
			e.dest = s.dest[n]
			return e
		}
		if cs.NoWrites {
			e.err = true
			return e
		}
		switch {
		case n == "stdout":
			e.dest = "out"
			return e
		case n == "stderr":
			e.dest = "err"
			return e
		case cs.Hook:
			e.hooks = []string{n + ":" + map[string]string{"gt": "tr", "app": "ap"}[op.K]}
			e.dest = "file:hw_" + c12SpecFlat(n)
		case n == "null":
			e.dest = "nowhere"
		case n == "fd1":
			e.dest = "realout"
		case n == "fd2":
			e.dest = "realerr"
		default:
			e.dest = "file:" + n
		}
		e.fresh = op.K == "gt"
		s.open[n], s.dest[n] = "w", e.dest
	case "close":
		delete(s.open, n)
		delete(s.lines, n)
		delete(s.dest, n)
	}
	return e
}

func c12SpecOracle(cs *c12SpecCase, o *c12SpecObs) (bad []c12Verdict, denied int) {
	if o.Panic != "" {
		return []c12Verdict{{What: "the interpreter panicked: " + o.Panic}}, 0
	}
	add := func(what, got, want string) { bad = append(bad, c12Verdict{What: what, Got: got, Want: want}) }
	all := append(append(append([]c12SpecOp{}, cs.Begin...), cs.Rule...), cs.End...)
	nB, nR := len(cs.Begin), len(cs.Rule)
	// --- the event log: markers, and the OpenFile calls attributed to the marker that follows them
	done := make([]bool, len(all))
	rv := make([]c12SpecEvent, len(all))
	hooksOf := make([][]string, len(all))
	var walkHooks, trailing, recs []string
	var pending []string
	ruleRan, endStarted, endDone := false, false, false
	for _, e := range o.Events {
		if !e.T {
			pending = append(pending, e.Name+":"+e.Mode)
			continue
		}
		switch {
		case e.I >= 0 && e.I < len(all):
			done[e.I], rv[e.I] = true, e
			hooksOf[e.I] = append(hooksOf[e.I], pending...)
		default:
			walkHooks = append(walkHooks, pending...)
			switch e.I {
			case -1:
				recs = append(recs, e.V)
			case -4:
				ruleRan = true
			case -3:
				endStarted = true
			case -2:
				endDone = true
			}
		}
		pending = nil
	}
	trailing = pending
	// --- host-side tripwires
	for _, t := range o.FdTrouble {
		add("a descriptor the host process holds open was used by the interpreter: "+t, t, "descriptors of the embedding process are none of the program's business: every name is a file name, refused by the flags or opened through OpenFile")
	}
	if o.SecretChanged {
		add("the host's secret file was modified", "", "")
	}
	for _, st := range o.Stale {
		add("a reused Interpreter opened a file through the OpenFile function of an earlier Execute call", st, "")
	}
	if cs.Hook || cs.NoReads {
		leak := func(where, s string) {
			if strings.Contains(s, "SECRET_HOST") {
				add("content of a file the host process holds open reached the program ("+where+") although reads are refused or go through the configured OpenFile", fmt.Sprintf("%q", s), "")
			}
		}
		leak("output", o.Out)
		leak("error output", o.Err)
		leak("the host's real stdout", o.RealOut)
		leak("the host's real stderr", o.RealErr)
		for _, e := range o.Events {
			if e.T {
				leak(fmt.Sprintf("value seen by the program at marker %d", e.I), e.V)
			}
		}
		for n, c := range o.Files {
			leak("file "+n, c)
		}
	}
	if len(trailing) > 0 {
		add("OpenFile was called by an operation that then ended the run", strings.Join(trailing, " "), "a refused operation opens nothing")
	}
	// --- the operand walk the property prescribes
	var wantWalk []string
	walkErr := false
	allowedRec := map[string]bool{}
	for _, a := range cs.Args {
		if a == "" || a == "-" {
			continue
		}
		if cs.NoReads {
			walkErr = true
			break
		}
		if cs.Hook {
			wantWalk = append(wantWalk, a+":rd")
		}
		sim := c12SpecSim{cs: cs}
		if p, n := sim.source(a); n > 0 {
			for k := 1; k <= n; k++ {
				allowedRec[fmt.Sprintf("%s%d", p, k)] = true
			}
		}
	}
	for _, r := range recs {
		rec := r[strings.Index(r, ":")+1:]
		if !c12SpecStdinRec.MatchString(rec) && !allowedRec[rec] {
			add("the pattern-action loop delivered a record that comes neither from standard input nor from an operand opened as the property prescribes", fmt.Sprintf("%q", r),
				fmt.Sprintf("NoFileReads=%v hook=%v operands=%q", cs.NoReads, cs.Hook, cs.Args))
		}
	}
	// --- operation by operation
	sim := &c12SpecSim{cs: cs, open: map[string]string{}, lines: map[string]int{}, dest: map[string]string{}}
	type step struct{ i int } // i = -1: the rest of the operand walk (it is over when END starts)
	var seq []step
	for i := 0; i < nB; i++ {
		seq = append(seq, step{i})
	}
	if ruleRan {
		for i := nB; i < nB+nR; i++ {
			seq = append(seq, step{i})
		}
	}
	seq = append(seq, step{-1})
	for i := nB + nR; i < len(all); i++ {
		seq = append(seq, step{i})
	}
	type tokExp struct {
		dest  string
		fresh bool
	}
	tok := map[int]tokExp{}
	ended := false // the run is expected to have ended (at an operation that must be refused)
	checked := true
	describe := func(i int) string {
		return fmt.Sprintf("operation %d (%s %q)", i, map[string]string{"gf": "getline <", "gv": "getline v <", "gt": "print >", "app": "print >>", "close": "close", "ff": "fflush"}[all[i].K], all[i].N)
	}
	for _, st := range seq {
		if st.i == -1 {
			if walkErr {
				denied++
				ended = true
				if endStarted || o.RunErr == "" {
					add("NoFileReads is set and an operand names a file, but the pattern-action loop did not end the run with an error",
						fmt.Sprintf("err=%q END started=%v operands=%q", o.RunErr, endStarted, cs.Args), "the run ends with an error before END")
				}
				if len(walkHooks) > 0 {
					add("NoFileReads is set but OpenFile was called for an operand", strings.Join(walkHooks, " "), "")
				}
				break
			}
			if !endStarted {
				if o.RunErr == "" {
					add("the run returned no error but never reached END", "", "")
				} else {
					add("the pattern-action loop ended the run with an error although no operand needs anything that is refused", "err="+o.RunErr+fmt.Sprintf(" operands=%q", cs.Args), "no error")
				}
				checked = false
				break
			}
			if got := strings.Join(walkHooks, " "); got != strings.Join(wantWalk, " ") {
				add("the operands were not opened through the configured OpenFile exactly as the property prescribes", "OpenFile calls: ["+got+"]", "["+strings.Join(wantWalk, " ")+"]")
			}
			continue
		}
		op := all[st.i]
		e := sim.expect(op)
		if e.stop {
			checked = false
			break
		}
		if e.err {
			denied++
			ended = true
			if done[st.i] || o.RunErr == "" {
				flag := "NoFileReads"
				if op.K == "gt" || op.K == "app" {
					flag = "NoFileWrites"
				}
				add(describe(st.i)+" names a file and "+flag+" is set, but the operation did not end the run with an error",
					fmt.Sprintf("completed=%v returned=%v value=%q err=%q", done[st.i], rv[st.i].R, rv[st.i].V, o.RunErr), "the run ends with an error at this operation")
			}
			if len(hooksOf[st.i]) > 0 {
				add(describe(st.i)+" is refused by the flags but OpenFile was called", strings.Join(hooksOf[st.i], " "), "")
			}
			break
		}
		if !done[st.i] {
			if o.RunErr == "" {
				add(describe(st.i)+" was abandoned without an error", "", "")
			} else {
				add(describe(st.i)+" ended the run with an error although it needs nothing that is refused", "err="+o.RunErr,
					"documented standard-stream names stay available; with a custom OpenFile the name is handed to it and its answer used")
			}
			checked = false
			break
		}
		if got, want := strings.Join(hooksOf[st.i], " "), strings.Join(e.hooks, " "); got != want {
			add(describe(st.i)+": the calls of the configured OpenFile are not what the property prescribes", "["+got+"]", "["+want+"]")
		}
		if e.chk != nil {
			if msg := e.chk(rv[st.i].R, rv[st.i].V); msg != "" {
				add(describe(st.i)+": "+msg, fmt.Sprintf("returned %v, value %q", rv[st.i].R, rv[st.i].V), "")
			}
		}
		if op.K == "gt" || op.K == "app" {
			tok[st.i] = tokExp{e.dest, e.fresh}
		}
	}
	if checked && !ended {
		if o.RunErr != "" {
			add("the run ended with an error although nothing the program does is refused", "err="+o.RunErr, "err=nil")
		} else if !endDone {
			add("the run returned no error but did not reach the end of END", "", "")
		}
	}
	if ended && endDone {
		add("the run went on to the end of END after an operation that must end it", "err="+o.RunErr, "")
	}
	// --- where print's tokens ended up (also when the checks above stopped early: a token of an operation that was never
	// reached, or that is refused, must be nowhere)
	if checked || ended {
		places := func(i int) []string {
			t := fmt.Sprintf("W%d\n", i)
			var p []string
			for _, x := range []struct{ n, s string }{{"out", o.Out}, {"err", o.Err}, {"realout", o.RealOut}, {"realerr", o.RealErr}} {
				if strings.Contains(x.s, t) {
					p = append(p, x.n)
				}
			}
			var names []string
			for n := range o.Files {
				names = append(names, n)
			}
			sort.Strings(names)
			for _, n := range names {
				if strings.Contains(o.Files[n], t) {
					p = append(p, "file:"+n)
				}
			}
			return p
		}
		laterFresh := func(i int, dest string) bool {
			for j, t := range tok {
				if j > i && t.fresh && t.dest == dest {
					return true
				}
			}
			return false
		}
		for i, op := range all {
			if op.K != "gt" && op.K != "app" {
				continue
			}
			got := places(i)
			t, ok := tok[i]
			switch {
			case !ok || t.dest == "nowhere":
				if len(got) > 0 {
					add(describe(i)+": its text was written although the operation is refused, never reached, or goes to the null device", strings.Join(got, ","), "nowhere")
				}
			default:
				if len(got) > 1 || (len(got) == 1 && got[0] != t.dest) || (len(got) == 0 && !laterFresh(i, t.dest)) {
					add(describe(i)+": its text did not end up where the property prescribes (the configured Output / Error for the documented names, the file handed out by OpenFile otherwise)",
						"["+strings.Join(got, ",")+"]", t.dest)
				}
			}
		}
		wantReal := map[string]bool{}
		for _, t := range tok {
			wantReal[t.dest] = true
		}
		if o.RealOut != "" && !wantReal["realout"] {
			add("the host's real standard output received data", fmt.Sprintf("%q", o.RealOut), "only the configured Output is written")
		}
		if o.RealErr != "" && !wantReal["realerr"] {
			add("the host's real standard error received data", fmt.Sprintf("%q", o.RealErr), "only the configured Error is written")
		}
		if cs.NoWrites {
			for n := range o.Files {
				if n != "p0" && !strings.HasPrefix(n, "hr_") {
					add("NoFileWrites is set but a file was created", n, "")
				}
			}
			if o.Files["p0"] != "PLAIN_p0_1\nPLAIN_p0_2\n" {
				add("NoFileWrites is set but an existing file was changed", fmt.Sprintf("%q", o.Files["p0"]), "")
			}
		}
	}
	return bad, denied
}

// ---- generation ------------------------------------------------------------------------------------------------------------

func c12SpecFlagsOf(cs *c12SpecCase, mask int) {
	cs.NoExec, cs.NoWrites, cs.NoReads = mask&1 != 0, mask&2 != 0, mask&4 != 0
}

// c12SpecCorpus: every special name x every file-touching form x 8 flag combinations x OpenFile present/absent; the placement
// (BEGIN / first record / END), the entry point and the earlier Execute rotate. Combinations that would really open a name whose
// open is not harmless (no hook, not refused) are left out.
func c12SpecCorpus() []c12SpecCase {
	var res []c12SpecCase
	n := 0
	forms := []string{"gf", "gv", "gt", "app", "operand", "close", "ff", "gf-twice", "gt-close-gf"}
	for _, name := range c12SpecNames {
		for _, form := range forms {
			for mask := 0; mask < 8; mask++ {
				for _, hook := range []bool{true, false} {
					n++
					cs := c12SpecCase{Stream: "spec", Shape: form + " " + name, Hook: hook}
					c12SpecFlagsOf(&cs, mask)
					var ops []c12SpecOp
					switch form {
					case "operand":
						cs.Args = [][]string{{name}, {"-", name}, {"", name, "-"}}[n%3]
					case "gf-twice":
						ops = []c12SpecOp{{K: "gf", N: name, Form: n}, {K: "gv", N: name, Form: n + 1}, {K: "close", N: name}, {K: "gv", N: name, Form: n + 2}}
					case "gt-close-gf":
						ops = []c12SpecOp{{K: "gt", N: name, Form: n}, {K: "app", N: name, Form: n + 1}, {K: "close", N: name, Form: n}, {K: "gf", N: name, Form: n + 2}}
					case "close", "ff":
						ops = []c12SpecOp{{K: form, N: name, Form: n}, {K: "gv", N: "-", Form: n}}
					default:
						ops = []c12SpecOp{{K: form, N: name, Form: n}}
					}
					switch (n / 16) % 3 {
					case 0:
						cs.Begin = ops
					case 1:
						cs.Rule = ops
					default:
						cs.End = ops
					}
					cs.Entry = c12Entries[(n+n/7+n/49)%len(c12Entries)]
					if n%5 == 0 && cs.Entry != "execprogram" {
						cs.Warm = 1 + (n/5)%2
					}
					if hook && form == "gf" && n%4 == 0 && name != "-" {
						cs.Answers = map[string]string{name: "notexist"}
					}
					if c12SpecUnsafe(&cs) != "" {
						continue
					}
					res = append(res, cs)
				}
			}
		}
	}
	return res
}

func c12SpecRandom(c *vh.Ctx) c12SpecCase {
	r := c.Rng
	for {
		cs := c12SpecCase{Stream: "spec", Shape: "random", Hook: r.Intn(3) != 0}
		m := r.Intn(8)
		if r.Intn(3) == 0 {
			m |= 4 // NoFileReads more often
		}
		c12SpecFlagsOf(&cs, m)
		cs.Entry = c12Entries[r.Intn(len(c12Entries))]
		if r.Intn(4) == 0 && cs.Entry != "execprogram" {
			cs.Warm = 1 + r.Intn(2)
		}
		var readable, writable, operands []string
		for _, n := range c12SpecNames {
			if cs.Hook || cs.NoReads || c12SpecSafeRead(n) {
				readable = append(readable, n)
			}
			if cs.Hook || cs.NoWrites || c12SpecSafeWrite(n) {
				writable = append(writable, n)
			}
			if cs.Hook || cs.NoReads || c12SpecSafeOperand(n) {
				operands = append(operands, n)
			}
		}
		var used []string
		gen := func(n int) []c12SpecOp {
			var ops []c12SpecOp
			for i := 0; i < n; i++ {
				op := c12SpecOp{Form: r.Intn(30)}
				switch k := r.Intn(10); {
				case k < 4:
					op.K, op.N = []string{"gf", "gv"}[r.Intn(2)], readable[r.Intn(len(readable))]
				case k < 7:
					op.K, op.N = []string{"gt", "app"}[r.Intn(2)], writable[r.Intn(len(writable))]
				default:
					op.K = []string{"close", "close", "ff"}[r.Intn(3)]
					op.N = c12SpecNames[r.Intn(len(c12SpecNames))]
					if len(used) > 0 && r.Intn(3) != 0 {
						op.N = used[r.Intn(len(used))]
					}
				}
				used = append(used, op.N)
				ops = append(ops, op)
			}
			return ops
		}
		cs.Begin = gen(r.Intn(4))
		if r.Intn(2) == 0 {
			cs.Rule = gen(r.Intn(3))
		}
		cs.End = gen(r.Intn(3))
		for i, n := 0, []int{0, 0, 1, 1, 2, 3}[r.Intn(6)]; i < n; i++ {
			if r.Intn(3) == 0 {
				cs.Args = append(cs.Args, []string{"-", ""}[r.Intn(2)])
			} else {
				cs.Args = append(cs.Args, operands[r.Intn(len(operands))])
			}
		}
		if cs.Hook && r.Intn(4) == 0 && len(used) > 0 {
			n := used[r.Intn(len(used))]
			isArg := false
			for _, a := range cs.Args {
				if a == n {
					isArg = true
				}
			}
			if !isArg {
				cs.Answers = map[string]string{n: "notexist"}
			}
		}
		if c12SpecUnsafe(&cs) == "" {
			return cs
		}
	}
}

// ---- the parent side: children, collection, verdicts --------------------------------------------------------------------------

type c12SpecJob struct {
	Secret string        `json:"secret"`
	Idx    []int         `json:"idx"`
	Cases  []c12SpecCase `json:"cases"`
}

// c12SpecSpawn runs the cases (indices idx into cases) in one child process and returns what it reported; trouble describes a
// child that died or hung (the results it had written are kept).
func c12SpecSpawn(root string, k int, cases []c12SpecCase, idx []int, limit time.Duration) (res map[int]*c12SpecObs, trouble string) {
	res = map[int]*c12SpecObs{}
	dir := fmt.Sprintf("%s/child%d", root, k)
	os.RemoveAll(dir)
	if err := os.Mkdir(dir, 0o755); err != nil {
		panic(err)
	}
	secret := dir + "/secret" // one per child
	if err := os.WriteFile(secret, []byte(c12SpecSecret), 0o644); err != nil {
		panic(err)
	}
	job := c12SpecJob{Secret: secret, Idx: idx}
	for _, i := range idx {
		job.Cases = append(job.Cases, cases[i])
	}
	b, _ := json.Marshal(&job)
	if err := os.WriteFile(dir+"/job.json", b, 0o644); err != nil {
		panic(err)
	}
	exe := "/proc/self/exe" // this very binary, also if the file at its path is rebuilt meanwhile
	if _, err := os.Stat(exe); err != nil {
		if exe, err = os.Executable(); err != nil {
			panic(err)
		}
	}
	var files []*os.File
	open := func(path string, flag int) *os.File {
		f, err := os.OpenFile(path, flag, 0o644)
		if err != nil {
			panic(err)
		}
		files = append(files, f)
		return f
	}
	defer func() {
		for _, f := range files {
			f.Close()
		}
	}()
	cmd := exec.Command(exe)
	cmd.Env = append(os.Environ(), "C12_SPEC_CHILD="+dir)
	cmd.Dir = dir
	cmd.Stdin = open(secret, os.O_RDONLY)
	cmd.Stdout = open(dir+"/realout", os.O_CREATE|os.O_WRONLY|os.O_APPEND)
	cmd.Stderr = open(dir+"/realerr", os.O_CREATE|os.O_WRONLY|os.O_APPEND)
	for i := 0; i < 7; i++ {
		cmd.ExtraFiles = append(cmd.ExtraFiles, open(secret, os.O_RDONLY))
	}
	cmd.SysProcAttr = &syscall.SysProcAttr{Setsid: true} // no controlling terminal
	if err := cmd.Start(); err != nil {
		return res, "the child process could not be started: " + err.Error()
	}
	waited := make(chan error, 1)
	go func() { waited <- cmd.Wait() }()
	select {
	case err := <-waited:
		if err != nil {
			tail, _ := os.ReadFile(dir + "/realerr")
			if len(tail) > 1500 {
				tail = tail[len(tail)-1500:]
			}
			trouble = fmt.Sprintf("the child process ended with %v; its standard error ends: %s", err, tail)
		}
	case <-time.After(limit):
		cmd.Process.Kill()
		<-waited
		trouble = fmt.Sprintf("the child process did not finish within %s and was killed", limit)
	}
	data, _ := os.ReadFile(dir + "/obs.jsonl")
	for _, line := range bytes.Split(data, []byte("\n")) {
		if len(line) == 0 {
			continue
		}
		var o c12SpecObs
		if json.Unmarshal(line, &o) == nil {
			oc := o
			res[o.Idx] = &oc
		}
	}
	return res, trouble
}

func runC12Spec(c *vh.Ctx, replay *c12SpecCase) {
	var cases []c12SpecCase
	if replay != nil {
		cases = []c12SpecCase{*replay}
	} else {
		cases = c12SpecCorpus()
		nCorpus := len(cases)
		for i, n := 0, c.N(1500, 25000); i < n; i++ {
			cases = append(cases, c12SpecRandom(c))
		}
		c.Note(fmt.Sprintf("stream spec: %d systematic cases (%d names x 9 forms x 8 flag combinations x OpenFile present/absent, minus the combinations that would really open a name whose open is not harmless), %d generated",
			nCorpus, len(c12SpecNames), len(cases)-nCorpus))
	}
	root, err := os.MkdirTemp("", "c12s_")
	if err != nil {
		panic(err)
	}
	defer os.RemoveAll(root)
	nChild := 4
	if len(cases) < 40 {
		nChild = 1
	}
	obs := make([]*c12SpecObs, len(cases))
	crashed := map[int]string{}
	var mu sync.Mutex
	var notes []string
	var wg sync.WaitGroup
	for k := 0; k < nChild; k++ {
		var idx []int
		for i := k; i < len(cases); i += nChild {
			idx = append(idx, i)
		}
		wg.Add(1)
		go func(k int, idx []int) {
			defer wg.Done()
			// a child that dies or hangs: what it had reported is kept; the rest is run again in a fresh child; a case that
			// stops the child twice is reported and left out
			suspect, strikes := -1, 0
			for round := 0; len(idx) > 0 && round < 12; round++ {
				limit := 3*time.Minute + time.Duration(len(idx))*50*time.Millisecond
				res, trouble := c12SpecSpawn(root, k, cases, idx, limit)
				mu.Lock()
				var rest []int
				for _, i := range idx {
					if o, ok := res[i]; ok {
						obs[i] = o
					} else {
						rest = append(rest, i)
					}
				}
				if trouble != "" {
					notes = append(notes, fmt.Sprintf("stream spec, child %d round %d: %s", k, round, trouble))
				}
				if len(rest) > 0 {
					if rest[0] == suspect {
						strikes++
					} else {
						suspect, strikes = rest[0], 1
					}
					if strikes >= 2 {
						crashed[suspect] = trouble
						rest = rest[1:]
						suspect, strikes = -1, 0
					}
				}
				idx = rest
				mu.Unlock()
			}
		}(k, idx)
	}
	wg.Wait()
	for _, n := range notes {
		c.Note(n)
	}
	missing := 0
	// failures are handed to the report most telling first (the report keeps a handful): the secret reached the program, a
	// host descriptor was used, a refused operation did not end the run, the rest
	var fails [4][]vh.Failure
	defer func() {
		for _, fs := range fails {
			for _, f := range fs {
				c.Fail(f)
			}
		}
	}()
	for i := range cases {
		cs := &cases[i]
		key, _ := json.Marshal(cs)
		special := false
		for _, ops := range [][]c12SpecOp{cs.Begin, cs.Rule, cs.End} {
			for _, op := range ops {
				c.Hit("spec:form:" + op.K)
				c.Hit("spec:name:" + c12SpecFlat(op.N))
				if op.N != "p0" && op.N != "o0" && op.N != "m0" {
					special = true
				}
			}
		}
		for _, a := range cs.Args {
			c.Hit("spec:form:operand")
			c.Hit("spec:name:" + c12SpecFlat(a))
			if a != "p0" {
				special = true
			}
		}
		c.Eval("spec|"+string(key), special && (cs.NoReads || cs.NoWrites || cs.Hook))
		c.OracleCase()
		c.Hit("stream:spec")
		c.Hit(fmt.Sprintf("spec:flags:exec=%s,writes=%s,reads=%s,hook=%s", c12B(cs.NoExec), c12B(cs.NoWrites), c12B(cs.NoReads), c12B(cs.Hook)))
		c.Hit("spec:entry:" + c12EntryName(cs.Entry))
		c.Hit(fmt.Sprintf("spec:earlier-execute:%d", cs.Warm))
		if why, ok := crashed[i]; ok {
			c.Hit("spec:outcome:host-process-stopped")
			c.Fail(vh.Failure{Kind: "oracle", What: "stream spec: the process embedding the interpreter died or hung while running this case (twice in a row, in fresh processes)", Case: cs, Got: why})
			continue
		}
		o := obs[i]
		if o == nil {
			missing++
			continue
		}
		if o.Skipped != "" {
			c.Hit("spec:outcome:skipped")
			c.Note("stream spec: case not run: " + o.Skipped)
			continue
		}
		bad, denied := c12SpecOracle(cs, o)
		c.HitN("spec:refused-attempts", denied)
		switch {
		case o.Panic != "":
			c.Hit("spec:outcome:panic")
		case o.RunErr != "":
			c.Hit("spec:outcome:error:" + strings.SplitN(c12ErrCode(o.RunErr), ":", 2)[0])
		default:
			c.Hit("spec:outcome:completed")
		}
		for _, v := range bad {
			rank := 3
			switch {
			case strings.HasPrefix(v.What, "content of a file the host process holds open"):
				rank = 0
			case strings.HasPrefix(v.What, "a descriptor the host process holds open"):
				rank = 1
			case strings.Contains(v.What, "did not end the run with an error"):
				rank = 2
			}
			fails[rank] = append(fails[rank], vh.Failure{Kind: "oracle", What: "stream spec: " + v.What, Finding: v.Finding, Case: cs,
				Got: v.Got + " | err=" + o.RunErr + " | program:\n" + o.Src, Want: v.Want})
		}
		if i == 333 {
			c.Sample(map[string]interface{}{"case": cs, "program": o.Src, "err": o.RunErr})
		}
	}
	if c.HasLean() {
		var reqs []string
		var idx []int
		for i := range cases {
			if obs[i] != nil && obs[i].Skipped == "" && c12SpecModelled(&cases[i]) {
				if _, dead := crashed[i]; !dead {
					reqs = append(reqs, c12SpecLeanReq(&cases[i]))
					idx = append(idx, i)
				}
			}
		}
		for k, a := range c.LeanBatch(reqs) {
			i := idx[k]
			c.Trace()
			c.Hit("spec:correspondence")
			if msg := c12SpecCompare(&cases[i], obs[i], a); msg != "" {
				c.Fail(vh.Failure{Kind: "correspondence", What: "stream spec: Lean I/O dispatch model and real run differ: " + msg, Case: &cases[i],
					Got: fmt.Sprintf("err=%q events=%v", obs[i].RunErr, obs[i].Events), Want: a})
			}
		}
	}
	if missing > 0 {
		c.Note(fmt.Sprintf("stream spec: %d cases produced no report (child processes kept dying; see the notes above)", missing))
		panic(fmt.Sprintf("stream spec: %d cases could not be run; child trouble: %v", missing, notes))
	}
}
