package main

// C12, stream "spec" — correspondence of the special-name runs with the Lean model (GoawkModel.C12 / C12Entry.executeAll).
//
// The model knows three names that are not file names ("-", "/dev/stdout", "/dev/stderr"); every other name is opaque to it. A case
// of stream spec without operations in the first record's rule is sent to the driver with the names spelled as the program
// spells them (descriptor-slot names keep their symbolic spelling), the files that can be opened (`existing`) being those the
// hook hands out — or, without the hook, those whose real open succeeds in the child. Compared per operation: which operation
// ends the run and with which error, the calls of the configured OpenFile (name and mode), getline's -1, and executeAll's outcome.

import (
	"fmt"
	"strings"

	"verifharness/vh"
)

// c12SpecModelName: how the model sees a symbolic name
func c12SpecModelName(sym string) string {
	switch sym {
	case "-", "":
		return sym
	case "stdin", "stdout", "stderr", "tty", "null":
		return "/dev/" + sym
	case "fd03":
		return "/dev/fd/03"
	case "inet":
		return "/inet/tcp/0/127.0.0.1/9"
	}
	if len(sym) == 3 && strings.HasPrefix(sym, "fd") {
		return "/dev/fd/" + sym[2:]
	}
	if sym == "proc0" || sym == "proc3" {
		return "/proc/self/fd/" + sym[4:]
	}
	return "<" + sym + ">" // descriptor slots and scratch files: the spelling depends on the child; any non-special name will do
}

// c12SpecModelled: the case is within what the model expresses and its answers can be given to it
func c12SpecModelled(cs *c12SpecCase) bool {
	if len(cs.Rule) > 0 {
		return false
	}
	for _, ops := range [][]c12SpecOp{cs.Begin, cs.End} {
		for _, op := range ops {
			if (op.K == "gt" || op.K == "app") && cs.Answers[op.N] != "" {
				return false // written, so it "exists" for the model, while the hook goes on answering fs.ErrNotExist
			}
		}
	}
	return true
}

func c12SpecLeanReq(cs *c12SpecCase) string {
	var b strings.Builder
	me, done := c12ModelEntry(cs.Entry)
	fmt.Fprintf(&b, "exec %s %s %s%s%s%s ", me, done, c12B(cs.NoExec), c12B(cs.NoWrites), c12B(cs.NoReads), c12B(cs.Hook))
	var ex []string
	for _, n := range c12SpecNames {
		switch {
		case n == "-":
		case cs.Hook && cs.Answers[n] == "":
			ex = append(ex, vh.HxS(c12SpecModelName(n)))
		case !cs.Hook && n != "m0" && n != "o0" && c12SpecSafeRead(n):
			ex = append(ex, vh.HxS(c12SpecModelName(n)))
		}
	}
	if len(ex) == 0 {
		b.WriteString(".")
	} else {
		b.WriteString(strings.Join(ex, ","))
	}
	if len(cs.Args) == 0 {
		b.WriteString(" .")
	} else {
		as := make([]string, len(cs.Args))
		for i, a := range cs.Args {
			as[i] = vh.HxS(c12SpecModelName(a))
		}
		b.WriteString(" " + strings.Join(as, ","))
	}
	b.WriteString(" 2")
	emit := func(ops []c12SpecOp) {
		for _, op := range ops {
			n := vh.HxS(c12SpecModelName(op.N))
			switch op.K {
			case "gt", "app":
				fmt.Fprintf(&b, " %s:%s:1", op.K, n)
			case "gf", "gv":
				fmt.Fprintf(&b, " gf:%s", n)
			default:
				fmt.Fprintf(&b, " %s:%s", op.K, n)
			}
		}
	}
	emit(cs.Begin)
	b.WriteString(" main")
	emit(cs.End)
	return b.String()
}

// c12SpecCompare returns "" when the model's answer and the child's observations agree.
func c12SpecCompare(cs *c12SpecCase, o *c12SpecObs, ans string) string {
	if !strings.HasPrefix(ans, "ok") {
		return "driver answered " + ans
	}
	if o.Panic != "" {
		return "real run panicked"
	}
	body, outcome := strings.TrimSpace(strings.TrimPrefix(ans, "ok")), ""
	if i := strings.Index(body, "##"); i >= 0 {
		outcome, body = strings.TrimSpace(body[i+2:]), strings.TrimSpace(body[:i])
	}
	symOf := map[string]string{}
	for _, n := range c12SpecNames {
		symOf[vh.HxS(c12SpecModelName(n))] = n
	}
	all := append(append([]c12SpecOp{}, cs.Begin...), cs.End...)
	nB := len(cs.Begin)
	done := make([]bool, len(all))
	rv := make([]float64, len(all))
	hooksOf := make([][]string, len(all))
	var walkHooks, pending []string
	endStarted, endDone := false, false
	for _, e := range o.Events {
		if !e.T {
			pending = append(pending, e.Name+":"+e.Mode)
			continue
		}
		if e.I >= 0 && e.I < len(all) {
			done[e.I], rv[e.I] = true, e.R
			hooksOf[e.I] = append(hooksOf[e.I], pending...)
		} else {
			walkHooks = append(walkHooks, pending...)
			endStarted = endStarted || e.I == -3
			endDone = endDone || e.I == -2
		}
		pending = nil
	}
	var groups []string
	if body != "" {
		groups = strings.Split(body, " | ")
	}
	modelErr := ""
	for j, g := range groups {
		if j > len(all) {
			return "model produced more groups than operations"
		}
		// operation j of the model: BEGIN's, then the pattern-action loop, then END's
		what, isDone, hooks, r := "the pattern-action loop", endStarted, walkHooks, 0.0
		isGetline := false
		if j != nB {
			i := j
			if j > nB {
				i = j - 1
			}
			what = fmt.Sprintf("operation %d (%s %q)", i, all[i].K, all[i].N)
			isDone, hooks, r = done[i], hooksOf[i], rv[i]
			isGetline = all[i].K == "gf" || all[i].K == "gv"
		}
		var opens []string
		soft, errc := false, ""
		for _, e := range strings.Fields(g) {
			p := strings.Split(e, ":")
			switch p[0] {
			case "open":
				if p[3] != "c" {
					return "model opened a file without the configured function"
				}
				opens = append(opens, symOf[p[1]]+":"+p[2])
			case "soft":
				soft = true
			case "err":
				errc = p[1]
			}
		}
		if errc != "" {
			modelErr = errc
			if isDone || o.RunErr == "" {
				return fmt.Sprintf("%s: model ends the run with %s, real run: completed=%v err=%q", what, errc, isDone, o.RunErr)
			}
			if got := c12ErrCode(o.RunErr); got != errc && outcome != "ctxfailed" {
				return fmt.Sprintf("%s: model error %s, real error %s (%q)", what, errc, got, o.RunErr)
			}
			hooks = append(append([]string{}, hooks...), pending...)
		} else if !isDone {
			return fmt.Sprintf("%s: model completes it, real run did not (err=%q)", what, o.RunErr)
		}
		if cs.Hook && strings.Join(opens, " ") != strings.Join(hooks, " ") {
			return fmt.Sprintf("%s: model opens [%s], the configured OpenFile saw [%s]", what, strings.Join(opens, " "), strings.Join(hooks, " "))
		}
		if errc == "" && isGetline && soft != (r == -1) {
			return fmt.Sprintf("%s: model soft-failure=%v, real getline returned %v", what, soft, r)
		}
	}
	switch {
	case modelErr == "" && (o.RunErr != "" || !endDone):
		return fmt.Sprintf("model run completes, real run: err=%q END completed=%v", o.RunErr, endDone)
	case modelErr == "" && len(groups) != len(all)+1:
		return "model produced fewer groups than operations without an error"
	case outcome == "finished" && o.RunErr != "":
		return fmt.Sprintf("model: executeAll reports success, real run ended with %q", o.RunErr)
	case strings.HasPrefix(outcome, "failed:") && c12ErrCode(o.RunErr) != outcome[7:]:
		return fmt.Sprintf("model: executeAll reports %s, real run: err=%q", outcome, o.RunErr)
	}
	return ""
}
