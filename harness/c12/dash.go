package main

// C12, stream "dash" — standard input, also under the name "-", stays available.
//
// A case = (three deny flags, custom OpenFile present?, stdin an *os.File or an in-memory reader, an operand list, ARGV/ARGC edits
// made in BEGIN, at most one `getline < "-"` / `getline line < "-"` (twice in a row or once) placed in BEGIN / the first record's
// rule / END, the name "-" spelled in one of four ways). Operands are "-", "", var=value, existing files, a missing file, and a
// real file whose base name is "-". No child process is involved, so a run takes well under a millisecond.
//
// Implementation-side oracle (no model): exactly what the property says —
//   * reading standard input under the name "-" (operand, ARGV element set at run time, getline redirected from "-") and as the
//     default input is never refused: the NoFileReads error may end the run only when NoFileReads is set AND an operand that
//     names a file is among the operands the main loop walks; every "-" before that operand has been served;
//   * it never goes through OpenFile (the hook is asked only for the operands that name files, never under NoFileReads);
//   * an operand that names a file, under NoFileReads, ends the run with the NoFileReads error and nothing of it is read;
//   * the first reader of standard input gets its first line.

import (
	"fmt"
	"os"
	"regexp"
	"strings"
	"sync"

	"github.com/benhoyt/goawk/interp"
	"github.com/benhoyt/goawk/parser"

	"verifharness/vh"
)

type c12DashEdit struct {
	K int    `json:"k"` // ARGV[k]
	N string `json:"n"` // symbolic operand; "<del>": delete ARGV[k]
}

type c12DashCase struct {
	Stream    string        `json:"stream"` // "dash"
	Shape     string        `json:"shape"`
	NoExec    bool          `json:"no_exec"`
	NoWrites  bool          `json:"no_writes"`
	NoReads   bool          `json:"no_reads"`
	Hook      bool          `json:"hook"`
	StdinFile bool          `json:"stdin_file"`
	Args      []string      `json:"args"`
	Edits     []c12DashEdit `json:"edits,omitempty"`
	Argc      int           `json:"argc,omitempty"`    // > 0: BEGIN sets ARGC to this after the edits
	Getline   string        `json:"getline,omitempty"` // "" | "rec" (getline < "-") | "var" (getline line < "-")
	Where     string        `json:"where,omitempty"`   // begin | rule | end
	Twice     bool          `json:"twice,omitempty"`
	NameForm  int           `json:"name_form,omitempty"`
	NoArgVars bool          `json:"no_arg_vars,omitempty"` // Config.NoArgVars: operands shaped like var=value are FILE NAMES (seeded C12-r1)
	Entry     string        `json:"entry,omitempty"` // public entry point, see c12Entries ("" = interp.ExecProgram)
}

const c12DashStdin = "STDIN1\nSTDIN2\nSTDIN3\n"

var c12VarRegex = regexp.MustCompile(`^([_a-zA-Z][_a-zA-Z0-9]*)=(.*)`)

// real spelling of a symbolic operand in scratch dir d
func c12DashReal(d, sym string) string {
	switch {
	case sym == "-" || sym == "" || c12VarRegex.MatchString(sym):
		return sym
	}
	return d + "/" + sym // in0 in1 m0 dd/-
}

// the operands the main loop walks (ARGV[1..ARGC-1] after the BEGIN edits), symbolic
func (cs *c12DashCase) effOperands() []string {
	argv := map[int]string{}
	for i, a := range cs.Args {
		argv[i+1] = a
	}
	for _, e := range cs.Edits {
		if e.N == "<del>" {
			delete(argv, e.K)
		} else {
			argv[e.K] = e.N
		}
	}
	argc := len(cs.Args) + 1
	if cs.Argc > 0 {
		argc = cs.Argc
	}
	var res []string
	for i := 1; i < argc; i++ {
		res = append(res, argv[i]) // an absent element reads as ""
	}
	return res
}

// class of an operand: skip | stdin | file | missing
func c12DashClass(sym string) string {
	switch {
	case sym == "" || c12VarRegex.MatchString(sym):
		return "skip"
	case sym == "-":
		return "stdin"
	case sym == "in0" || sym == "in1" || sym == "dd/-":
		return "file"
	}
	return "missing" // m0, -=1 (a path that merely starts with "-")
}

func c12DashRender(cs *c12DashCase) string {
	name := []string{`"-"`, `dashv`, `substr("x-", 2)`, `("" "-")`}[cs.NameForm%4]
	gl := ""
	one := func() string {
		if cs.Getline == "var" {
			return fmt.Sprintf("  v = \"@\"; r = (getline v < %s); t(\"G\", r, v)\n", name)
		}
		return fmt.Sprintf("  $0 = \"@\"; r = (getline < %s); t(\"G\", r, $0)\n", name)
	}
	if cs.Getline != "" {
		gl = one()
		if cs.Twice {
			gl += one()
		}
	}
	var b strings.Builder
	b.WriteString("BEGIN {\n  rdone = 0; dashv = \"-\"\n")
	for _, e := range cs.Edits {
		if e.N == "<del>" {
			fmt.Fprintf(&b, "  delete ARGV[%d]\n", e.K)
		} else {
			fmt.Fprintf(&b, "  ARGV[%d] = E%d\n", e.K, e.K)
		}
	}
	if cs.Argc > 0 {
		fmt.Fprintf(&b, "  ARGC = %d\n", cs.Argc)
	}
	if cs.Where == "begin" {
		b.WriteString(gl)
	}
	b.WriteString("  t(\"B\", 0, \"\")\n}\n")
	b.WriteString("{\n  t(\"R\", NR, FILENAME \":\" $0)\n")
	if cs.Where == "rule" {
		b.WriteString("  if (!rdone) {\n    rdone = 1\n" + gl + "  }\n")
	}
	b.WriteString("}\nEND {\n")
	if cs.Where == "end" {
		b.WriteString(gl)
	}
	b.WriteString("  t(\"E\", 0, \"\")\n}\n")
	return b.String()
}

type c12DashEvent struct {
	Tag string
	R   float64
	V   string
}

type c12DashObs struct {
	Events []c12DashEvent
	Hook   []string // symbolic name + ":" + flag class
	Res    vh.RunResult
	Stderr string
	Src    string
}

// c12DashDir makes the scratch directory all cases of the stream share (they only read; the oracle checks that nothing is written)
func c12DashDir() string {
	d, err := os.MkdirTemp("", "c12d_")
	if err != nil {
		panic(err)
	}
	os.WriteFile(d+"/in0", []byte("S_in0\n"), 0o644)
	os.WriteFile(d+"/in1", []byte("S_in1\n"), 0o644)
	os.Mkdir(d+"/dd", 0o755)
	os.WriteFile(d+"/dd/-", []byte("S_dashfile\n"), 0o644)
	os.WriteFile(d+"/stdin.txt", []byte(c12DashStdin), 0o644)
	return d
}

func c12DashRun(cs *c12DashCase, d string) (obs c12DashObs) {
	src := c12DashRender(cs)
	obs.Src = src
	var mu sync.Mutex
	funcs := map[string]interface{}{"t": func(tag string, r float64, v string) {
		mu.Lock()
		obs.Events = append(obs.Events, c12DashEvent{tag, r, strings.ReplaceAll(v, d+"/", "")})
		mu.Unlock()
	}}
	prog, err := parser.ParseProgram([]byte(src), &parser.ParserConfig{Funcs: funcs})
	if err != nil {
		panic(fmt.Sprintf("harness program does not parse: %v\n%s", err, src))
	}
	args := make([]string, len(cs.Args))
	for i, a := range cs.Args {
		args[i] = c12DashReal(d, a)
	}
	var vars []string
	for _, e := range cs.Edits {
		if e.N != "<del>" {
			vars = append(vars, fmt.Sprintf("E%d", e.K), c12DashReal(d, e.N))
		}
	}
	var out, errw lockedWriter
	cfg := &interp.Config{Output: &out, Error: &errw, Environ: []string{}, Vars: vars, Args: args, Funcs: funcs,
		NoExec: cs.NoExec, NoFileWrites: cs.NoWrites, NoFileReads: cs.NoReads, NoArgVars: cs.NoArgVars}
	if cs.StdinFile {
		f, _ := os.Open(d + "/stdin.txt")
		defer f.Close()
		cfg.Stdin = f
	} else {
		cfg.Stdin = strings.NewReader(c12DashStdin)
	}
	if cs.Hook {
		cfg.OpenFile = func(name string, flag int, perm os.FileMode) (*os.File, error) {
			cls := "rd"
			if flag&(os.O_WRONLY|os.O_RDWR|os.O_CREATE|os.O_TRUNC|os.O_APPEND) != 0 {
				cls = "wr"
			}
			sym := name
			if strings.HasPrefix(name, d+"/") {
				sym = name[len(d)+1:]
			} else {
				sym = "?" + name
			}
			mu.Lock()
			obs.Hook = append(obs.Hook, sym+":"+cls)
			mu.Unlock()
			return os.OpenFile(name, flag, perm)
		}
	}
	obs.Res = c12ExecFresh(cs.Entry, prog, cfg)
	obs.Stderr = errw.String()
	return obs
}

func c12DashOracle(cs *c12DashCase, obs *c12DashObs) (bad []c12Verdict) {
	if obs.Res.Panic != "" {
		return []c12Verdict{{What: "the interpreter panicked: " + obs.Res.Panic}}
	}
	add := func(what, got, want string) { bad = append(bad, c12Verdict{What: what, Got: got, Want: want}) }
	code := c12ErrCode(obs.Res.Err)
	operands := cs.effOperands()
	// the walk the property prescribes: which operand stops the run, which sources deliver records before that
	stop, stopWhy := -1, "" // index into operands
	nonSkipped := 0
	firstSource := ""                    // stdin | file: what delivers the first record
	stdinOperandBeforeStop := false      // an operand "-" (or the default) is reached before the stop
	filesBeforeStop := map[string]bool{} // file operands read before the stop
	for i, a := range operands {
		cl := c12DashClass(a)
		if cs.NoArgVars && a != "" && c12VarRegex.MatchString(a) {
			cl = "missing" // with NoArgVars nothing is an assignment: the operand names a (relative, non-existent) file
		}
		if cl == "skip" {
			continue
		}
		nonSkipped++
		if cl == "stdin" {
			stdinOperandBeforeStop = true
			if firstSource == "" {
				firstSource = "stdin"
			}
			continue
		}
		if cs.NoReads {
			stop, stopWhy = i, "noFileReads"
			break
		}
		if cl == "missing" {
			stop, stopWhy = i, "openFailed"
			break
		}
		filesBeforeStop[a] = true
		if firstSource == "" {
			firstSource = "file"
		}
	}
	if nonSkipped == 0 {
		stdinOperandBeforeStop, firstSource = true, "stdin"
	}
	// (1) the NoFileReads error: exactly when an operand that names a file is reached under NoFileReads
	if stopWhy == "noFileReads" {
		if code != "noFileReads" {
			add(fmt.Sprintf("NoFileReads is set and operand %d (%q) names a file, but the run did not end with the NoFileReads error", stop+1, operands[stop]),
				"err="+obs.Res.Err, "can't read from file due to NoFileReads")
		}
	} else if code == "noFileReads" {
		why := "no operand names a file"
		if !cs.NoReads {
			why = "NoFileReads is not set"
		}
		add("the run ended with the NoFileReads error although "+why+": standard input (operand \"-\", the default input, getline < \"-\") is not a file and must stay available",
			"err="+obs.Res.Err+" operands="+fmt.Sprintf("%q", operands), "no NoFileReads error")
	}
	if stopWhy == "" && obs.Res.Err != "" {
		add("the run ended with an error although no operand or getline needs anything that is denied or missing", "err="+obs.Res.Err, "err=nil")
	}
	endReached := false
	var recs, gets []c12DashEvent
	for _, e := range obs.Events {
		switch e.Tag {
		case "E":
			endReached = true
		case "R":
			recs = append(recs, e)
		case "G":
			gets = append(gets, e)
		}
	}
	if obs.Res.Err == "" && !endReached {
		add("the run returned no error but did not reach the end of END", "events="+fmt.Sprint(obs.Events), "")
	}
	// (2) standard input never goes through OpenFile; under NoFileReads nothing is opened for reading; files only via the hook
	seen := map[string]bool{}
	for _, h := range obs.Hook {
		p := strings.SplitN(h, ":", 2)
		seen[p[0]] = true
		if cs.NoArgVars && p[0] != "?-" && strings.HasPrefix(p[0], "?") && c12VarRegex.MatchString(p[0][1:]) && !cs.NoReads {
			continue // with NoArgVars an operand shaped like var=value IS a file operand (a relative name)
		}
		if p[0] == "?-" || strings.HasPrefix(p[0], "?") {
			add("the configured OpenFile was asked for a name that is not a file operand (standard input is not opened through OpenFile)", h, "")
		} else if !filesBeforeStop[p[0]] && !(stopWhy == "openFailed" && p[0] == operands[stop]) {
			add("the configured OpenFile was asked for a file the operand walk does not reach", h, "")
		}
		if cs.NoReads && p[1] == "rd" {
			add("NoFileReads is set but OpenFile was called for reading", h, "")
		}
		if p[1] != "rd" {
			add("a program that only reads caused an open for writing", h, "")
		}
	}
	for _, e := range recs {
		i := strings.Index(e.V, ":")
		fn, rec := e.V[:i], e.V[i+1:]
		if strings.HasPrefix(rec, "S_") {
			if cs.NoReads {
				add("NoFileReads is set but the main loop delivered a record of a file", e.V, "")
			}
			if cs.Hook && !seen[fn] {
				add("a file operand was read without a call of the configured OpenFile", e.V, "hook log "+fmt.Sprint(obs.Hook))
			}
		}
	}
	// (3) getline < "-": never an error, never -1; the first reader of standard input gets its first line
	if cs.Getline != "" {
		started := cs.Where == "begin" || (cs.Where == "rule" && len(recs) > 0) || (cs.Where == "end" && stopWhy == "")
		want := 1
		if cs.Twice {
			want = 2
		}
		if started && len(gets) < want {
			add(fmt.Sprintf("getline < \"-\" in %s did not complete: the run ended there", cs.Where), "err="+obs.Res.Err+" events="+fmt.Sprint(obs.Events),
				"standard input under the name \"-\" stays available")
		}
		consumed := false
		switch cs.Where {
		case "rule":
			consumed = firstSource == "stdin"
		case "end":
			consumed = stdinOperandBeforeStop
		}
		for k, g := range gets {
			if g.R == -1 {
				add(fmt.Sprintf("getline < \"-\" in %s returned -1 (an error): standard input under the name \"-\" must stay available", cs.Where),
					fmt.Sprintf("r=%v v=%q", g.R, g.V), "0 or 1")
			} else if g.R == 1 && !strings.HasPrefix(g.V, "STDIN") {
				add("getline < \"-\" delivered something that is not a line of standard input", fmt.Sprintf("%q", g.V), "")
			} else if !consumed && !(g.R == 1 && g.V == fmt.Sprintf("STDIN%d", k+1)) {
				add(fmt.Sprintf("getline < \"-\" in %s is the first reader of standard input but did not deliver its line %d", cs.Where, k+1),
					fmt.Sprintf("r=%v v=%q", g.R, g.V), fmt.Sprintf("1, STDIN%d", k+1))
			}
		}
	}
	// (4) the main loop's standard input (operand "-" / default): served when it is the first reader and lies before the stop
	mainFirstReader := stdinOperandBeforeStop && (cs.Getline == "" || cs.Where == "end" || (cs.Where == "rule" && firstSource == "stdin"))
	if mainFirstReader {
		got := false
		for _, e := range recs {
			if strings.HasSuffix(e.V, ":STDIN1") {
				got = true
			}
		}
		if !got {
			add("the main loop reaches standard input (operand \"-\" or the default input) before anything that is refused, but no record of it was delivered",
				fmt.Sprintf("records=%v err=%q", recs, obs.Res.Err), "a record STDIN1")
		}
	}
	return bad
}

// ---- generation ----------------------------------------------------------------------------------------------------------

type c12DashShape struct {
	Name  string
	Args  []string
	Edits []c12DashEdit
	Argc  int
}

var c12DashShapes = []c12DashShape{
	{Name: "none", Args: nil},
	{Name: "dash", Args: []string{"-"}},
	{Name: "assign,dash", Args: []string{"x=7", "-"}},
	{Name: "file,dash", Args: []string{"in0", "-"}},
	{Name: "dash,file", Args: []string{"-", "in0"}},
	{Name: "dash,dash", Args: []string{"-", "-"}},
	{Name: "empty,dash", Args: []string{"", "-"}},
	{Name: "assign-only", Args: []string{"x=7"}},
	{Name: "empty-only", Args: []string{""}},
	{Name: "file", Args: []string{"in0"}},
	{Name: "assign,file,dash,assign,dash", Args: []string{"x=7", "in0", "-", "y=2", "-"}},
	{Name: "file-named-dash", Args: []string{"dd/-"}},
	{Name: "dash,file-named-dash", Args: []string{"-", "dd/-"}},
	{Name: "dash,missing", Args: []string{"-", "m0"}},
	{Name: "edit:file->dash", Args: []string{"in0"}, Edits: []c12DashEdit{{1, "-"}}},
	{Name: "edit:ARGV[1]=dash,ARGC=2", Args: nil, Edits: []c12DashEdit{{1, "-"}}, Argc: 2},
	{Name: "edit:dash,ARGV[2]=file,ARGC=3", Args: []string{"-"}, Edits: []c12DashEdit{{2, "in1"}}, Argc: 3},
	{Name: "edit:file,ARGV[2]=dash,ARGC=3", Args: []string{"in0"}, Edits: []c12DashEdit{{2, "-"}}, Argc: 3},
	{Name: "edit:assign,ARGV[3]=dash,ARGC=4(gap)", Args: []string{"x=7"}, Edits: []c12DashEdit{{3, "-"}}, Argc: 4},
	{Name: "edit:delete-file", Args: []string{"in0"}, Edits: []c12DashEdit{{1, "<del>"}}},
	{Name: "edit:dash->file", Args: []string{"-"}, Edits: []c12DashEdit{{1, "in1"}}},
	{Name: "edit:file,dash,ARGC=2(dash cut off)", Args: []string{"in0", "-"}, Argc: 2},
	{Name: "edit:dash-beyond-ARGC", Args: []string{"in0"}, Edits: []c12DashEdit{{2, "-"}}},
}

func c12DashCorpus() []c12DashCase {
	type gv struct {
		g, w  string
		twice bool
		form  int
	}
	variants := []gv{{}, {"rec", "begin", false, 0}, {"var", "begin", true, 1}, {"rec", "rule", false, 2}, {"var", "rule", false, 0},
		{"rec", "end", true, 3}, {"var", "end", false, 1}, {"var", "begin", false, 2}, {"rec", "begin", true, 3}}
	var res []c12DashCase
	n := 0
	for _, sh := range c12DashShapes {
		for mask := 0; mask < 8; mask++ {
			for _, hook := range []bool{false, true} {
				for _, v := range variants {
					n++
					res = append(res, c12DashCase{Stream: "dash", Shape: sh.Name, NoExec: mask&1 != 0, NoWrites: mask&2 != 0, NoReads: mask&4 != 0,
						Hook: hook, StdinFile: n%3 == 0, Args: sh.Args, Edits: sh.Edits, Argc: sh.Argc,
						Getline: v.g, Where: v.w, Twice: v.twice, NameForm: v.form})
					if n%4 == 0 { // every fourth case through one of the Interpreter entry points, rotating
						res[len(res)-1].Entry = c12Entries[(n/4+n/28)%len(c12Entries)]
					}
					if n%5 == 0 { // every fifth case with Config.NoArgVars: var=value-shaped operands are then file names
						res[len(res)-1].NoArgVars = true
					}
				}
			}
		}
	}
	return res
}

func c12DashRandom(c *vh.Ctx) c12DashCase {
	r := c.Rng
	m := r.Intn(8)
	cs := c12DashCase{Stream: "dash", Shape: "random", NoExec: m&1 != 0, NoWrites: m&2 != 0, NoReads: m&4 != 0 || r.Intn(3) == 0,
		Hook: r.Intn(2) == 0, StdinFile: r.Intn(2) == 0, NameForm: r.Intn(4)}
	if r.Intn(2) == 0 {
		cs.Entry = c12Entries[r.Intn(len(c12Entries))]
	}
	cs.NoArgVars = r.Intn(4) == 0
	pool := []string{"-", "-", "-", "", "x=7", "in0", "in1", "dd/-", "m0", "y=-", "-=1"}
	for i, n := 0, r.Intn(6); i < n; i++ {
		cs.Args = append(cs.Args, pool[r.Intn(len(pool))])
	}
	if r.Intn(2) == 0 {
		for i, n := 0, 1+r.Intn(3); i < n; i++ {
			e := c12DashEdit{K: 1 + r.Intn(len(cs.Args)+2), N: pool[r.Intn(len(pool))]}
			if r.Intn(6) == 0 {
				e.N = "<del>"
			}
			dup := false
			for _, o := range cs.Edits {
				if o.K == e.K {
					dup = true
				}
			}
			if !dup {
				cs.Edits = append(cs.Edits, e)
			}
		}
		if r.Intn(2) == 0 {
			cs.Argc = 1 + r.Intn(len(cs.Args)+3)
		}
	}
	if r.Intn(4) != 0 {
		cs.Getline = []string{"rec", "var"}[r.Intn(2)]
		cs.Where = []string{"begin", "rule", "end"}[r.Intn(3)]
		cs.Twice = r.Intn(3) == 0
	}
	return cs
}

func runC12Dash(c *vh.Ctx, replay *c12DashCase) {
	var cases []c12DashCase
	if replay != nil {
		cases = []c12DashCase{*replay}
	} else {
		cases = c12DashCorpus()
		nCorpus := len(cases)
		for i, n := 0, c.N(1500, 30000); i < n; i++ {
			cases = append(cases, c12DashRandom(c))
		}
		c.Note(fmt.Sprintf("stream dash: %d systematic cases (%d operand/ARGV shapes x 8 flag combinations x OpenFile present/absent x 9 getline-from-\"-\" placements), %d generated",
			nCorpus, len(c12DashShapes), len(cases)-nCorpus))
	}
	d := c12DashDir()
	before := c12List(d)
	obs := make([]c12DashObs, len(cases))
	vh.Parallel(len(cases), func(i int) { obs[i] = c12DashRun(&cases[i], d) })
	if after := c12List(d); len(c12MapDiff(before, after)) > 0 {
		c.Fail(vh.Failure{Kind: "oracle", What: "stream dash: programs that only read changed files in the scratch directory", Case: "whole stream",
			Got: strings.Join(c12MapDiff(before, after), ", ")})
	}
	os.RemoveAll(d)
	for i := range cases {
		cs := &cases[i]
		key := fmt.Sprintf("dash|%v%v%v%v%v|%q|%v|%d|%s|%s|%v|%d|%s", cs.NoExec, cs.NoWrites, cs.NoReads, cs.Hook, cs.StdinFile, cs.Args, cs.Edits, cs.Argc,
			cs.Getline, cs.Where, cs.Twice, cs.NameForm, cs.Entry)
		hasDash := false
		for _, a := range cs.effOperands() {
			if a == "-" {
				hasDash = true
			}
		}
		c.Eval(key, cs.NoReads && (hasDash || cs.Getline != "" || len(cs.effOperands()) == 0))
		c.OracleCase()
		flags := fmt.Sprintf("exec=%s,writes=%s,reads=%s", c12B(cs.NoExec), c12B(cs.NoWrites), c12B(cs.NoReads))
		gl := "none"
		if cs.Getline != "" {
			gl = cs.Getline + "@" + cs.Where
		}
		c.Hit("stream:dash")
		c.Hit("dash:entry:" + map[bool]string{true: "execprogram", false: cs.Entry}[cs.Entry == ""])
		c.Hit("dash:flags:" + flags + ",hook=" + c12B(cs.Hook))
		c.Hit("dash:shape:" + cs.Shape)
		c.Hit("dash:getline-from-dash:" + gl)
		c.Hit("dash:reads=" + c12B(cs.NoReads) + ",hook=" + c12B(cs.Hook) + ",shape=" + cs.Shape)
		c.Hit("dash:outcome:" + func() string {
			if e := c12ErrCode(obs[i].Res.Err); e != "" {
				return strings.SplitN(e, ":", 2)[0]
			}
			return "completed"
		}())
		for _, v := range c12DashOracle(cs, &obs[i]) {
			c.Fail(vh.Failure{Kind: "oracle", What: "stream dash: " + v.What, Finding: v.Finding, Case: cs,
				Got: v.Got + " | program:\n" + obs[i].Src, Want: v.Want})
		}
		if i == 700 {
			c.Sample(map[string]interface{}{"case": cs, "program": obs[i].Src, "err": obs[i].Res.Err})
		}
	}
}
