package main

// Histories: ONE interp.Interpreter (interp.New(prog)) performs a sequence of 2-5 executions — Execute and ExecuteContext
// mixed, each with its own operand list, stdin, Config.Vars — and EVERY execution is held against what the property says
// about that execution ALONE. C11 is quantified over histories: NR, FNR, FILENAME, the operand cursor, the pending
// var=value position, the stdin-fallback decision, the range flags, getline's position in the main input and in files, the
// exit status and END's $0 / NF all start afresh in each execution, whatever the previous one left behind (it may have ended
// normally, by exit in BEGIN / a rule / END / inside a function, by next / nextfile on its last record, by a run-time error,
// by a cancelled context, in the middle of a file, inside an open range, with a getline stream half read, with NR / FNR /
// FILENAME assigned by the program).
//
// Per execution k of a history, three independent expectations:
//   (a) the SAME execution performed alone by a fresh interpreter (interp.New + the same call) — output, exit status and
//       error must be identical;
//   (b) the implementation-side oracle of the fresh streams (oracle.go / special.go: flat specification of the operand walk,
//       positional range selection, getline frame conditions, next / nextfile / exit clauses, END's $0 / NF, exit status)
//       applied to the trace of execution k on the REUSED interpreter;
//   (c) the Lean machine started from its initial state on the world of execution k (`runv`), event by event.
//
// What the API documents (interp/newexecute.go): "I/O state is reset between each run, but variables and the random number
// generator seed are not; use ResetVars". So the oracle demands no more than this: an execution is either preceded by
// ResetVars(), or every variable the program can read before writing it (v0-v2, FS; for class special also RS, OFS, cnt) is
// pinned by Config.Vars of that execution — on the reused interpreter and in all three expectations alike. ARGV elements
// beyond the new operand list also persist (ARGV is a variable), so a program that can raise ARGC is always preceded by
// ResetVars. NR, FNR, FILENAME, NF, $0 are not "variables" in that sentence: resetCore clears them, and the property needs
// them to start at 0 / "" in every execution.

import (
	"bytes"
	"context"
	"fmt"
	"io"
	"strings"
	"time"

	"github.com/benhoyt/goawk/interp"
	"github.com/benhoyt/goawk/parser"

	"verifharness/vh"
)

// HExec: one execution of a history
type HExec struct {
	Args      []string `json:"args"`
	Stdin     []string `json:"stdin,omitempty"`
	SpStdin   string   `json:"sp_stdin,omitempty"` // class special: stdin as raw text
	Vars      []string `json:"vars,omitempty"`     // Config.Vars
	Call      string   `json:"call"`               // execute | context-background | context-live | context-cancelled
	ResetVars bool     `json:"reset_vars"`         // Interpreter.ResetVars() is called first
}

// at: execution k of the history as a case of the program's own class
func (h *Case) at(k int) *Case {
	e := h.Hist[k]
	cs := *h
	cs.Class, cs.Of, cs.Hist, cs.At = h.Of, "", nil, 0
	cs.Args, cs.Stdin, cs.Vars = e.Args, e.Stdin, e.Vars
	if h.Sp != nil {
		sp := *h.Sp
		sp.Stdin, sp.Vars = e.SpStdin, e.Vars
		cs.Sp, cs.Vars = &sp, nil
	}
	return &cs
}

// ---- running ---------------------------------------------------------------------------------------------------------

type histResult struct {
	parse  string
	reused []result // execution k on the shared interpreter
	alone  []result // execution k by itself on a fresh interpreter
}

func callOn(it *interp.Interpreter, e *HExec, cfg *interp.Config) (res vh.RunResult) {
	var out bytes.Buffer
	cfg.Output, cfg.Error, cfg.Environ = &out, io.Discard, []string{}
	defer func() {
		if r := recover(); r != nil {
			res.Panic = fmt.Sprint(r)
			res.Out = out.String()
		}
	}()
	var status int
	var err error
	switch e.Call {
	case "execute":
		status, err = it.Execute(cfg)
	case "context-background":
		status, err = it.ExecuteContext(context.Background(), cfg)
	case "context-live":
		ctx, cancel := context.WithCancel(context.Background())
		defer cancel()
		status, err = it.ExecuteContext(ctx, cfg)
	case "context-cancelled":
		ctx, cancel := context.WithCancel(context.Background())
		cancel()
		status, err = it.ExecuteContext(ctx, cfg)
	default:
		panic("bad call kind " + e.Call)
	}
	res.Out, res.Status = out.String(), status
	if err != nil {
		res.Err = err.Error()
	}
	return res
}

func runHistory1(h *Case) histResult {
	prog, err := parser.ParseProgram([]byte(h.Awk), nil)
	if err != nil {
		return histResult{parse: err.Error()}
	}
	var hr histResult
	shared, _ := interp.New(prog)
	for k, e := range h.Hist {
		cs := h.at(k)
		if e.ResetVars {
			shared.ResetVars()
		}
		r := mkResult(callOn(shared, e, cs.config()))
		hr.reused = append(hr.reused, r)
		fresh, _ := interp.New(prog)
		hr.alone = append(hr.alone, mkResult(callOn(fresh, e, cs.config())))
		if !r.ok {
			break // the interpreter panicked: what it is worth afterwards is nobody's business
		}
	}
	return hr
}

func runHistory(h *Case) histResult {
	done := make(chan histResult, 1)
	go func() { done <- runHistory1(h) }()
	limit := vh.RunTimeout * time.Duration(len(h.Hist))
	select {
	case r := <-done:
		return r
	case <-time.After(limit):
		if vh.OnTimeout != nil {
			vh.OnTimeout(map[string]interface{}{"history": h, "note": "a history of executions on one Interpreter did not return within " + limit.String()})
		}
		return histResult{reused: []result{{res: vh.RunResult{Panic: "timeout"}}}, alone: []result{{}}}
	}
}

func observation(r result) string {
	s := fmt.Sprintf("status=%d", r.res.Status)
	if r.res.Err != "" {
		s += " error=" + r.res.Err
	}
	return s + "\n" + r.res.Out
}

// ---- what an execution left behind (distribution only) ---------------------------------------------------------------------

func hasOpIn(ops []Op, kind string, underCall bool, needCall bool) bool {
	for _, o := range ops {
		if (o.K == kind || (kind == "x" && o.K == "x-")) && (underCall || !needCall) {
			return true
		}
		if hasOpIn(o.Body, kind, underCall || o.K == "c", needCall) {
			return true
		}
	}
	return false
}

// endingKind: how the execution ended, read off its trace
func endingKind(cs *Case, e *HExec, r result) string {
	if e.Call == "context-cancelled" && strings.Contains(r.res.Err, "context canceled") {
		return "context-cancelled"
	}
	if r.errd {
		return "run-time-error"
	}
	if cs.noModel() {
		if r.status != 0 {
			return "exit-nonzero"
		}
		return "normal"
	}
	sawMain, sawEnd := false, false
	lastMain := ""
	for _, ev := range r.evs {
		switch ev.Kind {
		case "E":
			switch zone(ev.Tag) {
			case 0:
				sawMain, lastMain = true, "E"
			case 2:
				sawEnd = true
			}
		case "P":
			sawMain, lastMain = true, "P"
		case "G":
			if sawMain && !sawEnd {
				lastMain = "G"
			}
		case "X":
			if ev.Tag == 3 {
				var where string
				var ops []Op
				switch {
				case sawEnd:
					where, ops = "exit-in-END", cs.End
				case !sawMain && hasOpIn(cs.Begin, "x", false, false):
					where, ops = "exit-in-BEGIN", cs.Begin
				default:
					where = "exit-in-rule"
					for _, rule := range cs.Rules {
						ops = append(ops, rule.Body...)
					}
				}
				if hasOpIn(ops, "x", false, true) {
					where += "(in-function)"
				}
				return where
			}
			sawMain = true
			lastMain = map[int]string{1: "next", 2: "nextfile"}[ev.Tag]
		}
	}
	switch lastMain {
	case "next":
		return "next-on-last-record"
	case "nextfile":
		return "nextfile-on-last-record"
	}
	return "normal"
}

// leftOpen: from the `o:r:g:m` prefix of the Lean machine's answer
func leftOpen(summary string) string {
	var r, g, m int
	if n, _ := fmt.Sscanf(summary, "o:%d:%d:%d", &r, &g, &m); n != 3 {
		return "unknown"
	}
	var parts []string
	if r > 0 {
		parts = append(parts, "range-open")
	}
	if g > 0 {
		parts = append(parts, "getline-file-half-read")
	}
	if m > 0 {
		parts = append(parts, "main-input-mid-file")
	}
	if len(parts) == 0 {
		return "nothing"
	}
	return strings.Join(parts, "+")
}

// ---- checking ----------------------------------------------------------------------------------------------------------

func histKey(h *Case) string {
	var b strings.Builder
	fmt.Fprintf(&b, "history|%s|%d|", h.Of, h.Variant)
	for k, e := range h.Hist {
		cs := h.at(k)
		switch {
		case cs.Sp != nil:
			b.WriteString(cs.specialKey())
		case cs.Class == "raw":
			b.WriteString(cs.Awk + strings.Join(cs.Args, "\x00"))
		default:
			b.WriteString(cs.leanReqV())
		}
		fmt.Fprintf(&b, "|%s|%v||", e.Call, e.ResetVars)
	}
	return b.String()
}

func runHistories(c *vh.Ctx, hists []*Case) {
	if len(hists) == 0 {
		return
	}
	results := make([]histResult, len(hists))
	vh.Parallel(len(hists), func(i int) { results[i] = runHistory(hists[i]) })

	failAt := func(h *Case, k int, f vh.Failure) {
		cp := *h
		cp.At = k + 1
		f.Case = &cp
		f.What = fmt.Sprintf("history, execution %d of %d on one Interpreter (%s, program class %s): %s", k+1, len(h.Hist), h.Hist[k].Call, h.Of, f.What)
		c.Fail(f)
	}

	type leanRef struct{ h, k int }
	var reqs []string
	var refs []leanRef
	for i, h := range hists {
		hr := results[i]
		if hr.parse != "" {
			c.HarnessError = "generated history program does not parse: " + hr.parse + "\n" + h.Awk
			return
		}
		c.Hit("class:history")
		c.Hit("hist:program:" + h.Of)
		c.Hit(fmt.Sprintf("hist:executions:%d", len(h.Hist)))
		nt := 0
		for k := range hr.reused {
			e, cs, r := h.Hist[k], h.at(k), hr.reused[k]
			c.OracleCase()
			c.Hit("hist:call:" + e.Call)
			if k > 0 {
				c.Hit(fmt.Sprintf("hist:reset-vars-before:%v", e.ResetVars))
			}
			if nontrivial(cs, r) {
				nt++
			}
			if !r.ok {
				failAt(h, k, vh.Failure{Kind: "oracle", What: "the interpreter panicked: " + r.res.Panic})
				continue
			}
			// (a) the same execution alone, on a fresh interpreter
			if a := hr.alone[k]; a.ok && observation(a) != observation(r) {
				failAt(h, k, vh.Failure{Kind: "oracle", What: "the execution does not start afresh: output / exit status / error differ from the same " +
					"execution performed alone by a fresh interpreter (NR, FNR, FILENAME, operand cursor, stdin fallback, range flags, getline positions, " +
					"exit status, END's $0 / NF must not depend on earlier executions)", Got: observation(r), Want: observation(a)})
			}
			if e.Call == "context-cancelled" {
				continue // where the cancellation strikes is not C11's business; (a) has compared the observation
			}
			// (b) the property's clauses on the trace of the reused interpreter
			for _, f := range oracle(cs, r) {
				f.Kind = "oracle"
				f.Finding = classify(cs, f.What)
				failAt(h, k, f)
			}
			// (c) the Lean machine from its initial state
			if !cs.noModel() {
				reqs = append(reqs, cs.leanReqV())
				refs = append(refs, leanRef{i, k})
			}
		}
		c.Eval(histKey(h), nt >= 2)
		if i == 0 || i == len(hists)/2 {
			c.Sample(map[string]interface{}{"class": "history", "of": h.Of, "awk": h.Awk, "executions": h.Hist})
		}
	}

	open := map[leanRef]string{}
	if c.HasLean() {
		ans := c.LeanBatch(reqs)
		for j, a := range ans {
			ref := refs[j]
			h, r := hists[ref.h], results[ref.h].reused[ref.k]
			c.Trace()
			summary, rest, _ := strings.Cut(a, " ")
			open[ref] = leftOpen(summary)
			okw := "ok"
			if r.errd {
				okw = "err"
			}
			got := strings.TrimRight(fmt.Sprintf("%s %d %s", okw, r.status, canonEvents(r.evs)), " ")
			if r.errd {
				got = strings.TrimRight("err "+canonEvents(r.evs), " ")
				rest = dropStatus(rest)
			}
			if rest != got {
				failAt(h, ref.k, vh.Failure{Kind: "correspondence", What: "Lean main-loop machine (started from its initial state) and the reused interpreter produce different traces",
					Got: got, Want: rest})
			}
		}
	}

	// distribution: how each execution that was FOLLOWED by another one ended × what it left open
	for i, h := range hists {
		hr := results[i]
		for k := 0; k+1 < len(hr.reused); k++ {
			cs := h.at(k)
			left := "not-modelled"
			if !cs.noModel() {
				left = "unknown"
				if s, ok := open[leanRef{i, k}]; ok {
					left = s
				}
			}
			kind := endingKind(cs, h.Hist[k], hr.reused[k])
			if h.Hist[k].Call == "context-cancelled" && left == "unknown" {
				left = "not-evaluated" // (a cancelled context that was never looked at, or only made a `cmd | getline` fail)
				if kind == "context-cancelled" {
					left = "wherever-the-cancellation-struck"
				}
			}
			c.Hit("hist:previous-execution-ended:" + kind + "|left-open:" + left)
		}
	}
}

// ---- generation --------------------------------------------------------------------------------------------------------

func (g *gen) callKind() string {
	switch k := g.n(24); {
	case k < 10:
		return "execute"
	case k < 15:
		return "context-background"
	case k < 22:
		return "context-live"
	}
	return "context-cancelled"
}

// canRaiseArgc: stale ARGV elements of earlier executions could become operands
func canRaiseArgc(cs *Case) bool {
	if cs.Sp != nil {
		for _, a := range cs.Args {
			if strings.HasPrefix(a, "ARGC=") {
				return true
			}
		}
		for i := 0; i+1 < len(cs.Sp.Vars); i += 2 {
			if cs.Sp.Vars[i] == "ARGC" {
				return true
			}
		}
		has := func(ss []SpStmt) bool {
			for _, s := range ss {
				if (s.K == "set" && s.Name == "ARGC") || (s.K == "argv" && strings.HasPrefix(s.Val, "ARGC=")) {
					return true
				}
			}
			return false
		}
		for _, r := range cs.Sp.Rules {
			if has(r.Body) {
				return true
			}
		}
		return has(cs.Sp.Begin) || has(cs.Sp.End)
	}
	return hasOp(cs, "sc")
}

// modelVars: Config.Vars of an execution of a rule-language program. pin = every variable the program may read before
// writing it gets a value (the execution is not preceded by ResetVars).
func (g *gen) modelVars(pin bool) []string {
	var vars []string
	val := func() string {
		if g.n(3) == 0 {
			return ""
		}
		return g.word()
	}
	for _, n := range varNames {
		if pin || g.n(4) == 0 {
			vars = append(vars, n, val())
		}
	}
	if pin || g.n(5) == 0 {
		fs := g.fsVal()
		if pin && g.n(2) == 0 {
			fs = " "
		}
		vars = append(vars, "FS", fs)
	}
	if g.n(8) == 0 {
		vars = append(vars, "FILENAME", []string{"zz", "k1", "-"}[g.n(3)])
	}
	// the order of Config.Vars is the order of application; shuffle pairs
	for i := len(vars)/2 - 1; i > 0; i-- {
		j := g.n(i + 1)
		vars[2*i], vars[2*i+1], vars[2*j], vars[2*j+1] = vars[2*j], vars[2*j+1], vars[2*i], vars[2*i+1]
	}
	return vars
}

// modelHistory: a rule-language program (classes trace / range / argv / mixed) and 2-5 executions with operand lists,
// stdin and Vars of their own
func (g *gen) modelHistory(base *Case) *Case {
	h := base
	h.Of, h.Class = base.Class, "history"
	n := 2 + g.n(4)
	anyStdin := false
	for k := 0; k < n; k++ {
		e := &HExec{Args: g.operands(), Stdin: g.stdin(), Call: g.callKind()}
		if k == 0 {
			e.Args, e.Stdin = base.Args, base.Stdin
		}
		switch {
		case h.Of == "range" && len(e.Args) == 0 && len(e.Stdin) < 3:
			e.Args = []string{"k2", g.file()}
		case g.n(10) == 0 && len(e.Args) > 0: // an operand names a missing file: the execution ends with a run-time error there
			e.Args[g.n(len(e.Args))] = "nofile"
		}
		e.ResetVars = g.n(2) == 0 || canRaiseArgc(base)
		e.Vars = g.modelVars(!e.ResetVars && k > 0)
		anyStdin = anyStdin || len(e.Stdin) > 0
		h.Hist = append(h.Hist, e)
	}
	// the program text is shared by all executions: rendered once (the pipe spelling of getline needs an empty stdin)
	h.Args, h.Vars = nil, nil
	h.Stdin = nil
	if anyStdin {
		h.Stdin = []string{"x"}
	}
	h.Awk = h.awk(false)
	h.Stdin = nil
	return h
}

// specialHistory: a program of class special and executions whose operand lists / Vars assign NR, FNR, FILENAME, FS, RS,
// INPUTMODE, … on their own
func (g *gen) specialHistory(raw map[string]string) *Case {
	h := g.specialCase(raw)
	h.Of, h.Class = "special", "history"
	n := 2 + g.n(3)
	for k := 0; k < n; k++ {
		for {
			d := g.specialCase(raw) // donor of an operand list, stdin and Vars
			e := &HExec{Args: d.Args, SpStdin: d.Sp.Stdin, Vars: d.Sp.Vars, Call: g.callKind()}
			if k == 0 {
				e.Args, e.SpStdin, e.Vars = h.Args, h.Sp.Stdin, h.Sp.Vars
			}
			h.Hist = append(h.Hist, e)
			cs := h.at(k)
			e.ResetVars = g.n(2) == 0 || canRaiseArgc(cs)
			if !e.ResetVars && k > 0 {
				e.Vars = append([]string{"FS", " ", "RS", "\n", "OFS", " ", "v0", "", "cnt", "0"}, e.Vars...)
				cs = h.at(k)
			}
			if _, _, undef := spExpected(cs); undef == "" {
				break
			}
			h.Hist = h.Hist[:k]
		}
	}
	h.Args = nil
	h.Sp.Stdin, h.Sp.Vars = "", nil
	return h
}

// rawHistory: a corpus program with a hand-derived expectation, executed 2-4 times on the same input
func (g *gen) rawHistory(base *Case) *Case {
	h := *base
	h.Of, h.Class = "raw", "history"
	for k := 2 + g.n(3); k > 0; k-- {
		h.Hist = append(h.Hist, &HExec{Args: base.Args, Stdin: base.Stdin, Call: g.callKind(), ResetVars: true})
		if h.Hist[len(h.Hist)-1].Call == "context-cancelled" {
			h.Hist[len(h.Hist)-1].Call = "context-live"
		}
	}
	return &h
}

// longHistory: thousands of records per execution, most abandoned by next / nextfile inside functions; about half of the
// executions that are followed by another one are cut short by a cancelled context (1000 VM instructions into the run)
func (g *gen) longHistory(lp map[string][]string) *Case {
	var h *Case
	getline := g.n(3) == 0
	if getline {
		h = g.longGetlineCase(lp)
	} else {
		h = g.longCtlCase(lp)
	}
	h.Of, h.Class = h.Class, "history"
	n := 2 + g.n(3)
	for k := 0; k < n; k++ {
		e := &HExec{Args: g.longArgs(lp), Call: g.callKind(), ResetVars: g.n(2) == 0}
		if getline {
			e.Args = e.Args[:2]
		}
		if k+1 < n && g.n(2) == 0 {
			e.Call = "context-cancelled"
		}
		e.Vars = g.modelVars(!e.ResetVars && k > 0)
		h.Hist = append(h.Hist, e)
	}
	h.Args = nil
	h.Awk = h.awk(false)
	return h
}

func (g *gen) histories(raw map[string]string, lp map[string][]string) []*Case {
	hs := histCorpus(g.pool)
	for _, rc := range rawCases(g.pool) {
		hs = append(hs, g.rawHistory(rc))
	}
	for i := 0; i < g.c.N(100, 1000); i++ {
		hs = append(hs, g.modelHistory(g.traceCase()))
	}
	for i := 0; i < g.c.N(250, 3000); i++ {
		hs = append(hs, g.modelHistory(g.rangeCase()))
	}
	for i := 0; i < g.c.N(100, 1000); i++ {
		hs = append(hs, g.modelHistory(g.argvCase()))
	}
	for i := 0; i < g.c.N(700, 8000); i++ {
		hs = append(hs, g.modelHistory(g.mixedCase()))
	}
	for i := 0; i < g.c.N(350, 4000); i++ {
		hs = append(hs, g.specialHistory(raw))
	}
	for i := 0; i < g.c.N(8, 40); i++ {
		hs = append(hs, g.longHistory(lp))
	}
	return hs
}

// histCorpus: directed histories — one per piece of bookkeeping that must start afresh (always run first)
func histCorpus(pool map[string][]string) []*Case {
	e := func(n int) Op { return Op{K: "e", N: n} }
	has := func(ch byte) *Cond { return &Cond{K: "h", N: int(ch)} }
	ex := func(call string, reset bool, args, stdin []string, vars ...string) *HExec {
		return &HExec{Args: args, Stdin: stdin, Vars: vars, Call: call, ResetVars: reset}
	}
	mk := func(begin []Op, rules []Rule, end []Op, execs ...*HExec) *Case {
		h := &Case{Class: "history", Of: "corpus", Files: pool, Begin: begin, Rules: rules, HasEnd: end != nil, End: end, Variant: 1, Hist: execs}
		h.Stdin = []string{"x"} // no pipe spelling: some executions have a stdin
		h.Awk = h.awk(false)
		h.Stdin = nil
		return h
	}
	rangeBQ := Rule{Pat: "r", B: has('b'), E: has('q'), Body: []Op{e(11)}}
	return []*Case{
		// the input ends inside an open range (k2 has a `b`, no `q`): the next execution must wait for its own `b`
		mk(nil, []Rule{tick, rangeBQ}, []Op{e(900)},
			ex("execute", true, []string{"k2"}, nil), ex("execute", true, nil, []string{"a x", "y", "q"}), ex("context-live", false, []string{"k1"}, nil, "v0", "", "v1", "", "v2", "", "FS", " ")),
		// exit inside an open range, from a function; then the same input without the opening record
		mk(nil, []Rule{tick, {Pat: "r", B: has('b'), E: has('q'), NoBody: true}, {Pat: "p", B: &Cond{K: "nr", N: 3}, Body: []Op{{K: "c", Body: []Op{{K: "x", N: 3}}}}}}, []Op{e(900)},
			ex("context-background", true, []string{"k2"}, nil), ex("execute", true, []string{"k1"}, nil), ex("execute", true, []string{"k1", "k1"}, nil)),
		// a run-time error at the second of three operands; then a single operand: the cursor restarts at ARGV[1]; then no
		// operand at all: stdin is the input again (the had-files decision is per execution)
		mk(nil, []Rule{tick}, []Op{e(900)},
			ex("execute", true, []string{"k1", "nofile", "k2"}, []string{"s0"}), ex("execute", true, []string{"k2"}, []string{"s1"}), ex("context-live", true, nil, []string{"s2", "s3"}),
			ex("execute", true, []string{"v0=1", ""}, []string{"s4"})),
		// a var=value operand between two files: pending when the first execution exits in the first file
		mk(nil, []Rule{tick, {Pat: "p", B: &Cond{K: "nr", N: 1}, Body: []Op{{K: "x", N: 2}}}}, []Op{e(900)},
			ex("execute", true, []string{"k1", "v0=7", "k2"}, nil), ex("execute", true, []string{"k2", "v1=8", "k1"}, nil), ex("execute", false, []string{"k2"}, nil, "v0", "", "v1", "p", "v2", "", "FS", " ")),
		// exit status and END's $0 / NF: exit 3 after two records of three fields, then an execution over an empty input
		mk(nil, []Rule{tick, {Pat: "p", B: &Cond{K: "nr", N: 3}, Body: []Op{{K: "x", N: 3}}}}, []Op{e(900)},
			ex("execute", true, []string{"k2"}, nil), ex("execute", true, []string{"k0"}, nil), ex("context-background", true, nil, nil)),
		// exit in BEGIN, exit in END (status kept), then a normal run
		mk([]Op{{K: "i", C: &Cond{K: "veq", N: 0, S: "b"}, Body: []Op{{K: "x", N: 4}}}}, []Rule{tick}, []Op{e(900), {K: "i", C: &Cond{K: "veq", N: 0, S: "e"}, Body: []Op{{K: "x", N: 5}}}, e(901)},
			ex("execute", true, []string{"k1"}, nil, "v0", "b"), ex("execute", true, []string{"k1"}, nil, "v0", "e"), ex("execute", true, []string{"k1"}, nil)),
		// getline var / getline < file in the middle of files when the execution exits; the next one reads both from the start
		mk(nil, []Rule{tick, {Pat: "p", B: &Cond{K: "nr", N: 1}, Body: []Op{{K: "gv", V: 0}, e(1), {K: "gf", F: "k2"}, e(2), {K: "gvf", V: 1, F: "k2"}, e(3)}},
			{Pat: "p", B: &Cond{K: "veq", N: 2, S: "stop"}, Body: []Op{{K: "x-"}}}}, []Op{e(900)},
			ex("execute", true, []string{"k2", "v2=stop", "k1"}, nil, "v2", "stop"), ex("context-live", true, []string{"k2"}, nil), ex("execute", true, []string{"k1"}, nil, "v2", "stop")),
		// next / nextfile on the last record, from a function called in the pattern; NR, FNR, FILENAME of the next execution
		mk(nil, []Rule{tick, {Pat: "p", B: &Cond{K: "t"}, Raise: "nf", RaiseAt: "b", W: &Cond{K: "fnr", N: 2}, Body: []Op{e(1)}}, {Pat: "p", B: has('q'), Body: []Op{{K: "c", Body: []Op{{K: "n"}}}}}}, []Op{e(900)},
			ex("execute", true, []string{"k1", "k1"}, nil), ex("execute", true, []string{"k2"}, nil), ex("execute", true, nil, []string{"a q"})),
		// FILENAME / FS assigned by the program and by operands in one execution, not visible in the next (FS: after ResetVars)
		mk([]Op{e(800)}, []Rule{tick, {Pat: "p", B: &Cond{K: "nr", N: 2}, Body: []Op{{K: "sf", S: "zz"}, {K: "sfs", S: "x"}, e(1)}}}, []Op{e(900)},
			ex("execute", true, []string{"k2", "FILENAME=q"}, nil), ex("execute", true, nil, []string{"a x b"}), ex("execute", false, []string{"k2"}, nil, "FS", "a", "v0", "", "v1", "", "v2", "")),
	}
}
