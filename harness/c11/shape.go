package main

// Two streams on top of the flat reference evaluator of special.go (spSim — written from the property text, no model in the loop).
//
// "shape": program SHAPES × operand lists × what END and BEGIN observe.
//   Every subset of {BEGIN, pattern-action rules, END} — no rule at all (END-only, BEGIN+END, BEGIN-only, functions only), rules
//   that do nothing (`{ }`, `1 { }`, a pattern that is never true, a range with an empty action, a bare pattern), the counting /
//   tracing rule — over operand lists of 0-3 inputs (raw files, "-", "") with var=value operands for FS / RS / INPUTMODE / OFS / NF /
//   FILENAME / NR / FNR / a user variable at EVERY position, also after the last file; END (and BEGIN, through getline / getline
//   var) traces FILENAME NR FNR NF $0 $1 $2 $NF and EVERY field. The property: a var=value operand is assigned at the moment it is
//   reached, so the last record is split by what was in force when it was read, whatever follows it on the command line and
//   whatever the program's shape; NR / FNR / FILENAME / $0 / NF in END do not depend on whether any rule looked at the records.
//
// "resume": the main input after each way the main loop can be left early.
//   exit in BEGIN after k getlines, exit in a rule at record k of file j, nextfile (also on the last file), next, a missing-file
//   operand, a normal end — over 2-4 inputs (files, stdin, empty and missing operands, assignments between them) — then END (or
//   BEGIN before) performs un-redirected `getline` / `getline var`: the record stream continues exactly where it stopped (NR, FNR,
//   FILENAME, $0, the operand cursor and the assignments crossed on the way), getline returns 0 only when every operand is
//   exhausted, and the exit status is the last exit value.

import (
	"strconv"
	"strings"
)

// shAssign: a var=value operand of the shape stream
func (g *gen) shAssign() (string, string) {
	switch name := []string{"FS", "FS", "FS", "INPUTMODE", "INPUTMODE", "RS", "OFS", "NF", "v0", "FILENAME", "NR", "FNR"}[g.n(12)]; name {
	case "FS":
		return name, []string{" ", ":", ",", ";", "\t", "[:;]", "[, ]", "  ", "a", "x"}[g.n(10)]
	case "INPUTMODE":
		return name, []string{"csv", "csv", "tsv", ""}[g.n(4)]
	case "RS":
		return name, []string{";", ":", ",", "\n"}[g.n(4)]
	case "OFS":
		return name, []string{"-", ":", " "}[g.n(3)]
	case "NF":
		return name, strconv.Itoa(g.n(5))
	case "FILENAME":
		return name, []string{"zz", "ra", "-"}[g.n(3)]
	case "NR":
		return name, strconv.Itoa(g.n(20))
	case "FNR":
		return name, strconv.Itoa(g.n(9))
	}
	return "v0", g.word()
}

func (g *gen) shAssigns(args []string, p int) []string {
	for g.n(100) < p {
		n, v := g.shAssign()
		args = append(args, spOperand(n, v))
		p /= 2
	}
	return args
}

// shArgs: 0-3 inputs with assignment operands before, between and after them
func (g *gen) shArgs() []string {
	var args []string
	files := 1 + g.n(3)
	if g.n(8) == 0 {
		files = 0
	}
	for i := 0; i < files; i++ {
		args = g.shAssigns(args, 35)
		switch r := g.n(20); {
		case r < 2:
			args = append(args, "-")
		case r < 3:
			args = append(args, "", g.spFile())
		case r < 4: // a file that does not exist: fatal when the main loop gets there — and only then
			args = append(args, "nofile")
		default:
			args = append(args, g.spFile())
		}
	}
	return g.shAssigns(args, 75) // after the last input
}

var spPreKinds = []string{"empty", "always-empty", "never", "never-bare", "range-empty", "range-never", "print"}

// observe: the statements by which END / BEGIN look at the current record
func observe(tag int) []SpStmt { return []SpStmt{{K: "t", N: tag}, {K: "tf", N: tag}} }

func (g *gen) shapeCase(raw map[string]string) *Case {
	for try := 0; ; try++ {
		cs := g.shapeCase1(raw)
		if _, _, undef := spExpected(cs); undef == "" {
			cs.Awk = cs.Sp.awk()
			return cs
		}
	}
}

func (g *gen) shapeCase1(raw map[string]string) *Case {
	p := &SpProg{Raw: raw, InFunc: g.n(5) == 0, Fam: "shape"}
	cs := &Case{Class: "shape", Files: map[string][]string{}, Sp: p, Variant: 1, Args: g.shArgs()}
	for k := g.n(4); k > 0; k-- {
		p.Stdin += g.rawLine() + "\n"
	}
	if g.n(6) == 0 {
		n, v := g.shAssign()
		if n != "NF" { // (-v NF=… before any record: C14's business)
			p.Vars = append(p.Vars, n, v)
		}
	}
	// BEGIN: absent, or k getlines (each observed), now and then an assignment first
	if g.n(5) < 2 {
		if g.n(3) == 0 {
			n, v := g.shAssign()
			p.Begin = append(p.Begin, SpStmt{K: "set", Name: n, Val: v})
		}
		p.Begin = append(p.Begin, SpStmt{K: "t", N: 1})
		for k := g.n(4); k > 0; k-- {
			p.Begin = append(p.Begin, SpStmt{K: []string{"g", "gv"}[g.n(2)]})
			p.Begin = append(p.Begin, observe(2)...)
		}
	}
	// the pattern-action rules
	switch r := g.n(10); {
	case r < 4: // none
		p.NoTick = true
	case r < 7: // rules that do nothing (or print)
		p.NoTick = true
		for k := 1 + g.n(2); k > 0; k-- {
			p.Pre = append(p.Pre, spPreKinds[g.n(len(spPreKinds))])
		}
	default: // the counting rule, behind do-nothing rules now and then
		if g.n(3) == 0 {
			p.Pre = append(p.Pre, spPreKinds[g.n(len(spPreKinds))])
		}
		if g.n(3) == 0 {
			p.Rules = append(p.Rules, SpRule{At: 1 + g.n(5), Body: g.spStmts(1)})
		}
	}
	// END: absent now and then; observes the record, sometimes goes on reading (nothing is left: 0) or rebuilds $0
	if g.n(6) == 0 {
		p.NoEnd = true
		// without END the pass over the input shows only in what the rules print — and in the fatal error at a missing file,
		// which is due exactly when the program has a pattern-action rule (whatever the rule does) and the walk gets there
		if g.n(2) == 0 {
			k := g.n(len(cs.Args) + 1)
			cs.Args = append(cs.Args[:k:k], append([]string{"nofile"}, cs.Args[k:]...)...)
		}
		return cs
	}
	p.End = observe(9)
	switch g.n(6) {
	case 0:
		p.End = append(p.End, SpStmt{K: []string{"g", "gv"}[g.n(2)]})
		p.End = append(p.End, observe(8)...)
	case 1:
		p.End = append(p.End, SpStmt{K: "rebuild"}, SpStmt{K: "t", N: 8})
	}
	return cs
}

// ---- resume ------------------------------------------------------------------------------------------------------------------------

func (g *gen) resumeArgs() []string {
	var args []string
	nonEmpty := []string{"ra", "rb", "rc", "rd", "rk", "rk"}
	for k := 2 + g.n(3); k > 0; k-- {
		switch r := g.n(100); {
		case r < 12:
			args = append(args, "-")
		case r < 17:
			args = append(args, "nofile")
		case r < 24:
			args = append(args, "")
		case r < 30:
			args = append(args, "r0")
		default:
			args = append(args, nonEmpty[g.n(len(nonEmpty))])
		}
		if g.n(3) == 0 {
			name := []string{"v0", "v0", "FS", "OFS", "FILENAME", "INPUTMODE", "NR", "FNR"}[g.n(8)]
			val := g.word()
			switch name {
			case "FS":
				val = []string{":", ",", " ", ";"}[g.n(4)]
			case "OFS":
				val = "-"
			case "FILENAME":
				val = "zz"
			case "INPUTMODE":
				val = []string{"csv", "tsv", ""}[g.n(3)]
			case "NR":
				val = strconv.Itoa(10 + g.n(10))
			case "FNR":
				val = strconv.Itoa(g.n(9))
			}
			args = append(args, spOperand(name, val))
		}
	}
	return args
}

// readOn: k un-redirected getlines, each observed
func (g *gen) readOn(k, tag int) []SpStmt {
	var ss []SpStmt
	for ; k > 0; k-- {
		ss = append(ss, SpStmt{K: []string{"g", "gv"}[g.n(2)]}, SpStmt{K: "t", N: tag})
		if g.n(3) == 0 {
			ss = append(ss, SpStmt{K: "tf", N: tag})
		}
	}
	return ss
}

func (g *gen) exitStmt() SpStmt {
	if g.n(4) == 0 {
		return SpStmt{K: "x", N: -1}
	}
	return SpStmt{K: "x", N: g.n(4)}
}

func (g *gen) resumeCase(raw map[string]string) *Case {
	for try := 0; ; try++ {
		cs := g.resumeCase1(raw)
		if _, _, undef := spExpected(cs); undef == "" {
			cs.Awk = cs.Sp.awk()
			return cs
		}
	}
}

func (g *gen) resumeCase1(raw map[string]string) *Case {
	p := &SpProg{Raw: raw, InFunc: g.n(3) == 0, Fam: "resume"}
	cs := &Case{Class: "resume", Files: map[string][]string{}, Sp: p, Variant: 1, Args: g.resumeArgs()}
	for k := g.n(4); k > 0; k-- {
		p.Stdin += g.rawLine() + "\n"
	}
	at := 1 + g.n(6)
	switch how := g.n(12); {
	case how < 3: // exit in BEGIN after k getlines; any program shape
		p.Begin = append(g.readOn(g.n(5), 2), g.exitStmt())
		switch g.n(3) {
		case 0:
			p.NoTick = true
		case 1:
			p.NoTick = true
			p.Pre = []string{spPreKinds[g.n(len(spPreKinds))]}
		}
	case how < 7: // exit in a rule at record `at` (after reading on a little, now and then)
		if g.n(4) == 0 {
			p.Begin = g.readOn(1+g.n(2), 2)
		}
		body := g.readOn(g.n(3)/2, 4)
		p.Rules = []SpRule{{At: at, Body: append(body, g.exitStmt())}}
	case how < 9: // nextfile at record `at` — possibly in the last file —, sometimes an exit later on
		p.Rules = []SpRule{{At: at, Body: []SpStmt{{K: "nf"}}}}
		if g.n(2) == 0 {
			p.Rules = append(p.Rules, SpRule{At: at + 1 + g.n(3), Body: []SpStmt{g.exitStmt()}})
		}
	case how < 10: // next at one record, exit at a later one
		p.Rules = []SpRule{{At: at, Body: []SpStmt{{K: "t", N: 4}, {K: "n"}}}, {At: at, Body: []SpStmt{{K: "t", N: 5}}},
			{At: at + g.n(3), Body: []SpStmt{g.exitStmt()}}}
	default: // the main loop runs to the end of the input (or into a missing file)
		if g.n(2) == 0 {
			p.Begin = g.readOn(1+g.n(3), 2)
		}
	}
	if !p.NoTick && g.n(4) == 0 {
		p.Pre = append(p.Pre, spPreKinds[g.n(len(spPreKinds))])
	}
	// END goes on reading
	p.End = append([]SpStmt{{K: "t", N: 9}}, g.readOn(1+g.n(5), 8)...)
	switch g.n(6) {
	case 0:
		p.End = append(p.End, g.exitStmt(), SpStmt{K: "t", N: 8})
	case 1:
		p.End = append(p.End, SpStmt{K: "x", N: 0})
	}
	return cs
}

// shCorpus: directed cases of both streams (always run)
func shCorpus(raw map[string]string) []*Case {
	mk := func(fam string, args []string, stdin string, p SpProg) *Case {
		p.Raw, p.Stdin, p.Fam = raw, stdin, fam
		cs := &Case{Class: fam, Args: args, Files: map[string][]string{}, Sp: &p, Variant: 1}
		cs.Awk = p.awk()
		return cs
	}
	g0, gv, t := SpStmt{K: "g"}, SpStmt{K: "gv"}, func(n int) SpStmt { return SpStmt{K: "t", N: n} }
	x := func(n int) SpStmt { return SpStmt{K: "x", N: n} }
	return []*Case{
		// END-only, `{ }` + END, never-true pattern + END, the counting rule + END: FS / INPUTMODE / NF / OFS after the last file
		mk("shape", []string{"rk", "FS=:"}, "", SpProg{NoTick: true, End: observe(9)}),
		mk("shape", []string{"rk", "FS=:"}, "", SpProg{NoTick: true, Pre: []string{"empty"}, End: observe(9)}),
		mk("shape", []string{"rk", "INPUTMODE=csv"}, "", SpProg{NoTick: true, End: observe(9)}),
		mk("shape", []string{"rk", "INPUTMODE=csv", "rk", "INPUTMODE=", "FS=[, ]"}, "", SpProg{NoTick: true, Pre: []string{"never"}, End: observe(9)}),
		mk("shape", []string{"FS=,", "rk", "OFS=-", "NF=2"}, "", SpProg{NoTick: true, End: observe(9)}),
		mk("shape", []string{"FS=,", "rk", "OFS=-", "NF=2"}, "", SpProg{End: observe(9)}),
		mk("shape", []string{"FS=;"}, "a;b c;d\n", SpProg{NoTick: true, Pre: []string{"range-empty"}, End: observe(9)}),
		// BEGIN-only and functions-only programs do not read the input (a missing file is not even looked at)
		mk("shape", []string{"nofile", "rk"}, "s\n", SpProg{NoTick: true, NoEnd: true, Begin: []SpStmt{t(1)}}),
		mk("shape", []string{"nofile"}, "s\n", SpProg{NoTick: true, NoEnd: true}),
		// BEGIN reads two records by getline, END-only: the main loop takes the rest unobserved
		mk("shape", []string{"FS=:", "rk", "FS=,", "rk", "FS=;"}, "", SpProg{NoTick: true, Begin: []SpStmt{g0, t(2), gv, t(2)}, End: observe(9)}),
		// exit in the first file, END reads on: the rest of that file, then the next operand
		mk("resume", []string{"rk", "v0=w", "rk"}, "", SpProg{Rules: []SpRule{{At: 1, Body: []SpStmt{x(3)}}}, End: []SpStmt{t(9), g0, t(8), gv, t(8), g0, t(8), g0, t(8)}}),
		mk("resume", []string{"rk", "rk"}, "", SpProg{Begin: []SpStmt{g0, t(2), x(2)}, End: []SpStmt{t(9), gv, t(8), g0, t(8)}}),
		mk("resume", nil, "s1\ns2 s3\ns4\n", SpProg{Rules: []SpRule{{At: 1, Body: []SpStmt{x(-1)}}}, End: []SpStmt{t(9), g0, t(8), gv, t(8), g0, t(8), x(0)}}),
		mk("resume", []string{"rk", "-", "rk"}, "s1\ns2\n", SpProg{NoTick: true, Begin: []SpStmt{g0, g0, g0, t(2), x(1)}, End: []SpStmt{t(9), g0, t(8), g0, t(8)}}),
		// nextfile on the last file, then END reads: nothing is left
		mk("resume", []string{"rk", "rk"}, "", SpProg{Rules: []SpRule{{At: 3, Body: []SpStmt{{K: "nf"}}}}, End: []SpStmt{t(9), g0, t(8)}}),
	}
}

// shFeatures: the distribution of the two streams
func shFeatures(cs *Case, f map[string]bool) {
	p := cs.Sp
	if p == nil || p.Fam == "" {
		return
	}
	shape := ""
	if len(p.Begin) > 0 {
		shape += "BEGIN+"
	}
	switch {
	case p.NoTick && len(p.Pre) == 0:
		shape += "no-rule"
	case p.NoTick:
		shape += "idle-rules"
	default:
		shape += "tracing-rule"
	}
	if !p.NoEnd {
		shape += "+END"
	}
	f["shape:"+shape] = true
	for _, k := range p.Pre {
		f["idle-rule:"+k] = true
	}
	// trailing assignment operands (after the last operand that names an input)
	last := -1
	for i, a := range cs.Args {
		if a != "" && !reAssign.MatchString(a) {
			last = i
		}
	}
	for i := last + 1; i < len(cs.Args); i++ {
		if m := reAssign.FindStringSubmatch(cs.Args[i]); m != nil {
			f["operand-after-last-input:"+m[1]] = true
		}
	}
	has := func(ss []SpStmt, k string) bool {
		for _, s := range ss {
			if s.K == k {
				return true
			}
		}
		return false
	}
	reads := func(ss []SpStmt) bool { return has(ss, "g") || has(ss, "gv") }
	left := "end-of-input"
	switch {
	case has(p.Begin, "x"):
		left = "exit-in-BEGIN"
		if reads(p.Begin) {
			left += "-after-getline"
		}
	default:
		for _, r := range p.Rules {
			switch {
			case has(r.Body, "x"):
				left = strings.TrimPrefix(left+"+exit-in-rule", "end-of-input+")
			case has(r.Body, "nf"):
				left = strings.TrimPrefix(left+"+nextfile", "end-of-input+")
			case has(r.Body, "n"):
				left = strings.TrimPrefix(left+"+next", "end-of-input+")
			}
		}
	}
	for _, a := range cs.Args {
		if a == "nofile" {
			left += "|missing-operand"
			break
		}
	}
	if p.Fam == "resume" {
		f["main-loop-left-by:"+left] = true
	}
	if reads(p.End) {
		f["END-reads-on"] = true
	}
	if reads(p.Begin) {
		f["BEGIN-reads"] = true
	}
}

// ---- the same two families in the rule language of the Lean machine (single-byte FS; classes shape-rl / resume-rl) ---------------
// Oracle: the flat specification when BEGIN / END only emit, else the dynamic clauses with the position clause; plus the
// event-by-event comparison with the Lean machine, whose theorems idle_rules_invisible, end_sees_last_record_as_read and
// reading_resumes_after_exit(_in_begin) speak about exactly these programs.

func (g *gen) rlAssign() string {
	switch g.n(6) {
	case 0, 1, 2:
		return "FS=" + g.fsVal()
	case 3:
		return "FILENAME=" + []string{"zz", "k1", "-"}[g.n(3)]
	}
	return "v" + strconv.Itoa(g.n(3)) + "=" + g.word()
}

func (g *gen) rlArgs(minInputs int, trailing int) []string {
	var args []string
	for k := minInputs + g.n(3); k > 0; k-- {
		for g.n(3) == 0 {
			args = append(args, g.rlAssign())
		}
		switch r := g.n(12); {
		case r < 1:
			args = append(args, "-")
		case r < 2:
			args = append(args, "")
		default:
			args = append(args, g.file())
		}
	}
	for g.n(100) < trailing {
		args = append(args, g.rlAssign())
		trailing /= 2
	}
	return args
}

func (g *gen) rlReadOn(k, base int) []Op {
	var ops []Op
	for ; k > 0; k-- {
		gl := Op{K: "g"}
		if g.n(2) == 0 {
			gl = Op{K: "gv", V: g.n(3)}
		}
		ops = append(ops, Op{K: "e", N: base}, gl, Op{K: "e", N: base + 1})
	}
	return ops
}

func (g *gen) idleRule() Rule {
	never := &Cond{K: "f"}
	switch g.n(5) {
	case 0, 1:
		return Rule{Pat: "a", Body: []Op{}} // `{ }`
	case 2:
		return Rule{Pat: "p", B: never, Body: []Op{{K: "e", N: 5}}}
	case 3:
		return Rule{Pat: "p", B: &Cond{K: "and", A: g.cond(1), B: never}, NoBody: true}
	}
	return Rule{Pat: "r", B: never, E: g.cond(1), Body: []Op{{K: "e", N: 6}}}
}

func (g *gen) shapeRLCase() *Case {
	cs := g.newCase("shape-rl")
	cs.Args = g.rlArgs(1, 80)
	if g.n(3) == 0 {
		if g.n(2) == 0 {
			cs.Begin = append(cs.Begin, g.spOp())
		}
		cs.Begin = append(cs.Begin, g.rlReadOn(g.n(3), 810)...)
		cs.Begin = append(cs.Begin, Op{K: "e", N: 800})
	}
	switch r := g.n(10); {
	case r < 4:
	case r < 8:
		for k := 1 + g.n(2); k > 0; k-- {
			cs.Rules = append(cs.Rules, g.idleRule())
		}
	default:
		cs.Rules = append(cs.Rules, tick)
		if g.n(2) == 0 {
			cs.Rules = append(cs.Rules, g.idleRule())
		}
	}
	cs.HasEnd = g.n(10) > 0 || (len(cs.Rules) == 0 && len(cs.Begin) == 0)
	if cs.HasEnd {
		cs.End = []Op{{K: "e", N: 900}}
		if g.n(5) == 0 {
			cs.End = append(cs.End, g.rlReadOn(1, 910)...)
		}
	}
	return cs
}

func (g *gen) resumeRLCase() *Case {
	cs := g.newCase("resume-rl")
	cs.Args = g.rlArgs(2, 30)
	exit := Op{K: "x", N: g.n(4)}
	if g.n(4) == 0 {
		exit = Op{K: "x-"}
	}
	if g.n(3) == 0 {
		exit = Op{K: "c", Body: []Op{exit}}
	}
	switch how := g.n(10); {
	case how < 3: // exit in BEGIN after k getlines; any shape of rules
		cs.Begin = append(g.rlReadOn(g.n(5), 810), exit)
		switch g.n(3) {
		case 0:
			cs.Rules = []Rule{tick}
		case 1:
			cs.Rules = []Rule{g.idleRule()}
		}
	case how < 8: // exit in a rule at record k
		if g.n(4) == 0 {
			cs.Begin = g.rlReadOn(1+g.n(2), 810)
		}
		at := &Cond{K: "nr", N: 1 + g.n(8)}
		if g.n(3) == 0 {
			at = &Cond{K: "fnr", N: 1 + g.n(3)}
		}
		cs.Rules = []Rule{tick, {Pat: "p", B: at, Body: append(g.rlReadOn(g.n(3)/2, 110), exit)}}
	case how < 9: // next on some records, exit later
		cs.Rules = []Rule{tick, {Pat: "p", B: g.cond(1), Body: []Op{{K: "n"}}}, {Pat: "p", B: &Cond{K: "nrge", N: 2 + g.n(5)}, Body: []Op{exit}}}
	default: // to the end of the input
		cs.Rules = []Rule{tick}
		if g.n(2) == 0 {
			cs.Begin = g.rlReadOn(1+g.n(3), 810)
		}
	}
	cs.HasEnd = true
	cs.End = append([]Op{{K: "e", N: 900}}, g.rlReadOn(1+g.n(4), 910)...)
	if g.n(6) == 0 {
		cs.End = append(cs.End, Op{K: "x-"})
	}
	return cs
}
