package main

// Class "special": the SPECIAL variables that the input bookkeeping reads or that decide how a record is read — FILENAME, NR,
// FNR, ARGC, ARGV elements, FS, RS, INPUTMODE, OFS — assigned
//   * by `var=value` operands before the first file, BETWEEN files and after the last one,
//   * by Config.Vars (`-v`),
//   * by the program: in BEGIN, in an action (directly or inside a function), in END,
// in operand lists with and without file operands, mixed with `getline` / `getline var` from the main input.
//
// Every record taken by the main loop is traced as `FILENAME NR FNR NF [$0] <$1|$2|$NF> {v0}`; END traces the same.
// The oracle is a flat reference evaluator (spSim) written from the property text:
//   - the operand walk and the stdin fallback depend on the operand list only (what ARGV/ARGC hold when the walk gets there);
//     no assignment to FILENAME / NR / FNR can make the walk skip or repeat an input;
//   - a var=value operand is applied when it is reached: the records of the files after it are read and split with the new
//     RS / FS / INPUTMODE, the records before it with the old ones;
//   - NR / FNR keep counting from an assigned value, FNR restarts at each file, FILENAME is the operand being read until the
//     program assigns it and again from the next file on;
//   - getline var changes the variable, NR and FNR only; END's $0, NF and fields are those of the last record.
// What the property does not decide is not generated: RS / INPUTMODE assigned while the current input still has unread
// records (spSim reports `undefined`, the generator retries), RS = "" and regex RS (C07), malformed CSV (C08).

import (
	"encoding/json"
	"fmt"
	"strconv"
	"strings"
)

type SpStmt struct {
	K    string `json:"k"` // set | argv | t | tf (every field) | gv | g | rebuild | x (exit N; N < 0: bare exit) | n (next) | nf (nextfile)
	Name string `json:"name,omitempty"`
	Val  string `json:"val,omitempty"`
	N    int    `json:"n,omitempty"` // t: tag; argv: index
}

type SpRule struct {
	At   int      `json:"at"` // the rule fires when the main loop's At-th record is current (cnt == At)
	Body []SpStmt `json:"body"`
}

type SpProg struct {
	Vars   []string          `json:"vars,omitempty"` // Config.Vars: name, value, name, value …
	Begin  []SpStmt          `json:"begin,omitempty"`
	Rules  []SpRule          `json:"rules,omitempty"`
	End    []SpStmt          `json:"end,omitempty"`
	Stdin  string            `json:"stdin"`
	Raw    map[string]string `json:"raw"` // file name -> content
	InFunc bool              `json:"in_func,omitempty"` // assignments are made by user functions
	// program SHAPE (shape.go): pattern-action rules rendered before the counting rule, each one of
	//   empty `{ }` | always-empty `1 { }` | never `cnt < 0 { tr(7) }` | never-bare `cnt < 0` | range-empty `1, 0 { }` |
	//   range-never `cnt < 0, 1 { tr(7) }` | print `1` (no action: prints $0)
	Pre    []string `json:"pre,omitempty"`
	NoTick bool     `json:"no_tick,omitempty"` // no counting / tracing rule (then Rules is empty)
	NoEnd  bool     `json:"no_end,omitempty"`  // no END block
	Fam    string   `json:"fam,omitempty"`     // "" | shape | resume — the stream the case belongs to (distribution only)
}

var spNumeric = map[string]bool{"NR": true, "FNR": true, "ARGC": true, "NF": true}

// ---- AWK rendering ---------------------------------------------------------------------------------------------------------

func spAwkVal(name, val string) string {
	if spNumeric[name] {
		return val
	}
	return strconv.Quote(val)
}

func (p *SpProg) stmts(ss []SpStmt, ind string, funcs *[]string) string {
	var b strings.Builder
	for _, s := range ss {
		switch s.K {
		case "set":
			if p.InFunc {
				name := fmt.Sprintf("set%d", len(*funcs)+1)
				*funcs = append(*funcs, fmt.Sprintf("function %s(x) {\n  %s = x\n  return 1\n}\n", name, s.Name))
				fmt.Fprintf(&b, "%szz = %s(%s) + 1\n", ind, name, spAwkVal(s.Name, s.Val))
			} else {
				fmt.Fprintf(&b, "%s%s = %s\n", ind, s.Name, spAwkVal(s.Name, s.Val))
			}
		case "argv":
			fmt.Fprintf(&b, "%sARGV[%d] = %s\n", ind, s.N, strconv.Quote(s.Val))
		case "t":
			fmt.Fprintf(&b, "%str(%d)\n", ind, s.N)
		case "gv":
			fmt.Fprintf(&b, "%sr = (getline v0)\n%sprintf \"G1 %%d\\n\", r\n", ind, ind)
		case "g": // NF is read at once: the new record is split as it was read
			fmt.Fprintf(&b, "%sr = (getline)\n%sprintf \"G0 %%d %%d\\n\", r, NF\n", ind, ind)
		case "rebuild":
			fmt.Fprintf(&b, "%s$1 = $1\n", ind)
		case "tf":
			fmt.Fprintf(&b, "%stf(%d)\n", ind, s.N)
		case "x", "n", "nf":
			text := map[string]string{"n": "print \"N\"; next", "nf": "print \"NF\"; nextfile"}[s.K]
			switch {
			case s.K == "x" && s.N < 0:
				text = "print \"X\"; exit"
			case s.K == "x":
				text = fmt.Sprintf("print \"X %d\"; exit %d", s.N, s.N)
			}
			if p.InFunc { // the statement is executed inside a user function, called in an expression
				name := fmt.Sprintf("ctl%d", len(*funcs)+1)
				*funcs = append(*funcs, fmt.Sprintf("function %s(a) {\n  if (a) { %s }\n  return a\n}\n", name, text))
				fmt.Fprintf(&b, "%szz = 1 + %s(1)\n", ind, name)
			} else {
				fmt.Fprintf(&b, "%s%s\n", ind, text)
			}
		default:
			panic("bad special stmt " + s.K)
		}
	}
	return b.String()
}

func (p *SpProg) awk() string {
	var funcs []string
	var b strings.Builder
	if len(p.Begin) > 0 {
		b.WriteString("BEGIN {\n" + p.stmts(p.Begin, "  ", &funcs) + "}\n")
	}
	for _, k := range p.Pre {
		b.WriteString(spPreRule[k] + "\n")
	}
	if !p.NoTick {
		b.WriteString("{\n  cnt++\n  tr(0)\n}\n")
	}
	for _, r := range p.Rules {
		fmt.Fprintf(&b, "cnt == %d {\n%s}\n", r.At, p.stmts(r.Body, "  ", &funcs))
	}
	if !p.NoEnd {
		b.WriteString("END {\n" + p.stmts(p.End, "  ", &funcs) + "}\n")
	}
	b.WriteString("function tr(t) {\n  printf \"T%d %s %d %d %d [%s] <%s|%s|%s> {%s}\\n\", t, FILENAME, NR, FNR, NF, $0, $1, $2, $NF, v0\n}\n")
	b.WriteString("function tf(t,  i) {\n  printf \"F%d %d\", t, NF\n  for (i = 1; i <= NF; i++) printf \" (%s)\", $i\n  printf \"\\n\"\n}\n")
	b.WriteString(strings.Join(funcs, ""))
	return b.String()
}

// ---- the flat reference ------------------------------------------------------------------------------------------------------

type spSim struct {
	p    *SpProg
	argv []string // ARGV[0..]
	argc int
	idx  int
	had  bool // an operand named an input (or the stdin fallback was taken): decided by the operand walk alone

	cur   []string // records of the input being read (split when it was opened), nil = none open
	pos   int
	stdin string
	used  bool // stdin has been handed out

	fs, rs, mode, ofs string
	nr, fnr           int
	filename          string
	v0                string
	line              string
	fields            []string
	cnt               int

	out       strings.Builder
	status    int
	undefined string // the case steps outside what the property decides
}

func spUnescape(s string) string {
	if !strings.Contains(s, "\\") {
		return s
	}
	r := strings.NewReplacer(`\t`, "\t", `\n`, "\n", `\\`, `\`)
	return r.Replace(s)
}

func spSplitRecords(content, rs, mode string) []string {
	sep := rs
	if mode != "" {
		sep = "\n"
	}
	parts := strings.Split(content, sep)
	if parts[len(parts)-1] == "" {
		parts = parts[:len(parts)-1]
	}
	if mode != "" { // CSV / TSV readers skip blank lines
		kept := parts[:0:0]
		for _, l := range parts {
			if l != "" {
				kept = append(kept, l)
			}
		}
		parts = kept
	}
	return parts
}

// spCSV: one line without embedded newlines; a field that starts with a quote runs to the closing quote ("" = a quote)
func spCSV(line string, sep byte) []string {
	var fields []string
	i := 0
	for {
		var f strings.Builder
		if i < len(line) && line[i] == '"' {
			i++
			for i < len(line) {
				if line[i] == '"' {
					if i+1 < len(line) && line[i+1] == '"' {
						f.WriteByte('"')
						i += 2
						continue
					}
					i++
					break
				}
				f.WriteByte(line[i])
				i++
			}
		}
		for i < len(line) && line[i] != sep {
			f.WriteByte(line[i])
			i++
		}
		fields = append(fields, f.String())
		if i >= len(line) {
			return fields
		}
		i++ // the separator
	}
}

func spSplitFields(line, fs, mode string) []string {
	switch {
	case mode == "csv":
		return spCSV(line, ',')
	case mode == "tsv":
		return spCSV(line, '\t')
	case fs == " ":
		return strings.FieldsFunc(line, func(r rune) bool { return r == ' ' || r == '\t' || r == '\n' })
	case line == "":
		return nil
	case len(fs) == 1:
		return strings.Split(line, fs)
	case strings.HasPrefix(fs, "[") && strings.HasSuffix(fs, "]"): // a character class: every such character separates
		set := fs[1 : len(fs)-1]
		var fields []string
		start := 0
		for i := 0; i < len(line); i++ {
			if strings.IndexByte(set, line[i]) >= 0 {
				fields = append(fields, line[start:i])
				start = i + 1
			}
		}
		return append(fields, line[start:])
	default: // a literal string
		return strings.Split(line, fs)
	}
}

func (s *spSim) remaining() bool { return s.cur != nil && s.pos < len(s.cur) }

func (s *spSim) assign(name, val string) {
	switch name {
	case "FS":
		s.fs = val
	case "RS":
		if s.remaining() && val != s.rs {
			s.undefined = "RS assigned while the current input has unread records"
		}
		s.rs = val
	case "INPUTMODE":
		if s.remaining() && val != s.mode {
			s.undefined = "INPUTMODE assigned while the current input has unread records"
		}
		s.mode = val
	case "OFS":
		s.ofs = val
	case "NF": // the current record is cut or padded to that many fields and $0 rebuilt with OFS
		n, _ := strconv.Atoi(val)
		for len(s.fields) < n {
			s.fields = append(s.fields, "")
		}
		s.fields = append([]string(nil), s.fields[:n]...)
		s.line = strings.Join(s.fields, s.ofs)
	case "NR":
		s.nr, _ = strconv.Atoi(val)
	case "FNR":
		s.fnr, _ = strconv.Atoi(val)
	case "ARGC":
		s.argc, _ = strconv.Atoi(val)
	case "FILENAME":
		s.filename = val
	case "v0":
		s.v0 = val
	}
}

func (s *spSim) open(name, content string) {
	s.filename, s.fnr, s.had = name, 0, true
	s.cur, s.pos = spSplitRecords(content, s.rs, s.mode), 0
}

// nextLine: 1 = a record, 0 = end of input, -1 = an operand names a file that does not exist
func (s *spSim) nextLine() (string, int) {
	for {
		if s.cur == nil {
			switch {
			case s.idx >= s.argc && !s.had:
				s.open("-", s.takeStdin())
			case s.idx >= s.argc:
				return "", 0
			default:
				arg := ""
				if s.idx < len(s.argv) {
					arg = s.argv[s.idx]
				}
				s.idx++
				if m := reAssign.FindStringSubmatch(arg); m != nil {
					s.assign(m[1], spUnescape(m[2]))
					continue
				}
				switch arg {
				case "":
					continue
				case "-":
					s.open("-", s.takeStdin())
				default:
					content, ok := s.p.Raw[arg]
					if !ok {
						return "", -1
					}
					s.open(arg, content)
				}
			}
		}
		if s.pos < len(s.cur) {
			r := s.cur[s.pos]
			s.pos++
			s.nr++
			s.fnr++
			return r, 1
		}
		s.cur = nil
	}
}

func (s *spSim) takeStdin() string {
	if s.used {
		return ""
	}
	s.used = true
	return s.stdin
}

func (s *spSim) setLine(l string) {
	s.line = l
	s.fields = spSplitFields(l, s.fs, s.mode)
}

func (s *spSim) field(i int) string {
	if i == 0 {
		return s.line
	}
	if i <= len(s.fields) {
		return s.fields[i-1]
	}
	return ""
}

// exec returns 0 (fell through), 1 (next), 2 (nextfile) or 3 (exit)
func (s *spSim) exec(ss []SpStmt) int {
	for _, st := range ss {
		switch st.K {
		case "set":
			s.assign(st.Name, st.Val)
		case "argv":
			for len(s.argv) <= st.N {
				s.argv = append(s.argv, "")
			}
			s.argv[st.N] = st.Val
		case "t":
			fmt.Fprintf(&s.out, "T%d %s %d %d %d [%s] <%s|%s|%s> {%s}\n", st.N, s.filename, s.nr, s.fnr, len(s.fields), s.line,
				s.field(1), s.field(2), s.field(len(s.fields)), s.v0)
		case "tf":
			fmt.Fprintf(&s.out, "F%d %d", st.N, len(s.fields))
			for _, f := range s.fields {
				fmt.Fprintf(&s.out, " (%s)", f)
			}
			s.out.WriteString("\n")
		case "gv":
			r, k := s.nextLine()
			if k == 1 {
				s.v0 = r
			}
			fmt.Fprintf(&s.out, "G1 %d\n", k)
		case "g":
			r, k := s.nextLine()
			if k == 1 {
				s.setLine(r)
			}
			fmt.Fprintf(&s.out, "G0 %d %d\n", k, len(s.fields))
		case "rebuild":
			if len(s.fields) == 0 {
				s.fields = []string{""}
			}
			s.line = strings.Join(s.fields, s.ofs)
		case "x":
			if st.N < 0 {
				s.out.WriteString("X\n")
			} else {
				fmt.Fprintf(&s.out, "X %d\n", st.N)
				s.status = st.N
			}
			return 3
		case "n":
			s.out.WriteString("N\n")
			return 1
		case "nf":
			s.out.WriteString("NF\n")
			return 2
		}
	}
	return 0
}

// spPreRule: the pattern-action rules of a program shape, as AWK text (none of them traces anything; `print` prints $0)
var spPreRule = map[string]string{
	"empty":        "{ }",
	"always-empty": "1 { }",
	"never":        "cnt < 0 { tr(7) }",
	"never-bare":   "cnt < 0",
	"range-empty":  "1, 0 { }",
	"range-never":  "cnt < 0, 1 { tr(7) }",
	"print":        "1",
}

// spExpected: the whole expected output; fatal = the main loop reached an operand naming a missing file
func spExpected(cs *Case) (out string, fatal bool, undefined string) {
	out, _, fatal, undefined = spExpected4(cs)
	return
}

// spExpected4: … and the exit status. The sequencing is the property's: BEGIN; unless BEGIN exited, one pass over the records
// of the main input from wherever BEGIN's getlines left it (no pass at all when the program has neither a pattern-action rule
// nor END); END (also after exit in BEGIN or in a rule), which finds $0 / NF / the fields of the last record and the main input
// exactly where it was left.
func spExpected4(cs *Case) (out string, status int, fatal bool, undefined string) {
	p := cs.Sp
	s := &spSim{p: p, argv: append([]string{"awk"}, cs.Args...), argc: len(cs.Args) + 1, idx: 1, stdin: p.Stdin,
		fs: " ", rs: "\n", ofs: " "}
	for i := 0; i+1 < len(p.Vars); i += 2 {
		s.assign(p.Vars[i], p.Vars[i+1])
	}
	sig := s.exec(p.Begin)
	if p.NoTick && len(p.Pre) == 0 && p.NoEnd {
		return s.out.String(), s.status, false, s.undefined // only BEGIN (or only functions): the input is not read
	}
	for sig != 3 {
		r, k := s.nextLine()
		if k < 0 {
			return s.out.String(), 0, true, s.undefined
		}
		if k == 0 {
			break
		}
		s.setLine(r)
		sig = 0
		for _, pre := range p.Pre {
			if pre == "print" {
				s.out.WriteString(s.line + "\n")
			}
		}
		if !p.NoTick {
			s.cnt++
			s.exec([]SpStmt{{K: "t", N: 0}})
		}
		for _, rule := range p.Rules {
			if rule.At == s.cnt {
				if sig = s.exec(rule.Body); sig != 0 {
					break
				}
			}
		}
		if sig == 2 { // nextfile: the rest of the current input is never delivered
			s.cur = nil
		}
	}
	if !p.NoEnd {
		s.exec(p.End)
	}
	return s.out.String(), s.status, false, s.undefined
}

func specialOracle(cs *Case, r result) []finding {
	var fs []finding
	want, status, fatal, undef := spExpected4(cs)
	if undef != "" {
		return nil
	}
	if !fatal && !r.errd && r.status != status {
		fs = append(fs, finding{What: "special: the exit status is not the last exit value", Got: fmt.Sprint(r.status), Want: fmt.Sprint(status)})
	}
	got := r.res.Out
	switch {
	case got == want:
	case cs.Sp.Fam == "shape":
		fs = append(fs, finding{What: "program shape x operand list: what BEGIN (through getline) / END observe — FILENAME, NR, FNR, NF, $0 and every field " +
			"— differs from the flat specification (a var=value operand is applied when it is reached, also after the last file; END's $0 / NF / fields are " +
			"those of the last record as it was read, whatever pattern-action rules the program has or lacks)", Got: got, Want: want})
	case cs.Sp.Fam == "resume":
		fs = append(fs, finding{What: "resumed reading: un-redirected getline / getline var in END or BEGIN after the main loop was left (exit in BEGIN / in a rule, " +
			"nextfile, next, end of input): the record stream does not continue exactly where it stopped (NR, FNR, FILENAME, $0, operand order, " +
			"assignments crossed) per the flat specification", Got: got, Want: want})
	default:
		fs = append(fs, finding{What: "special variables assigned by operands / -v / the program: NR, FNR, FILENAME, NF, $0, fields per record " +
			"(and in END) differ from the flat specification (operand walk and stdin fallback depend on the operand list only; a var=value " +
			"operand is applied when reached, also for FS / RS / INPUTMODE)", Got: got, Want: want})
	}
	if fatal != r.errd {
		fs = append(fs, finding{What: "special: error expected iff the main loop reaches an operand naming a missing file (" + r.res.Err + ")",
			Got: fmt.Sprint(r.errd), Want: fmt.Sprint(fatal)})
	}
	return fs
}

func (cs *Case) specialKey() string {
	b, _ := json.Marshal(struct {
		A []string
		P *SpProg
	}{cs.Args, cs.Sp})
	return string(b)
}

// ---- generator -----------------------------------------------------------------------------------------------------------------

// raw files: lines over several candidate separators; a quoted CSV field never starts a line and never follows a tab, so
// that every line is well-formed in csv AND in tsv mode; no empty quoted content issues, no embedded newlines in quotes
func (g *gen) rawLine() string {
	toks := []string{"a", "b", "cc", "x", "y", "p", "q1", "7"}
	seps := []string{" ", " ", ":", ",", ",", ";", "\t", "  "}
	var b strings.Builder
	n := 1 + g.n(5)
	lastSep := ""
	for i := 0; i < n; i++ {
		if i > 0 {
			lastSep = seps[g.n(len(seps))]
			b.WriteString(lastSep)
		}
		switch {
		case lastSep == "," && g.n(3) == 0:
			b.WriteString(`"` + toks[g.n(len(toks))] + []string{" ", ",", ":", `""`, ";"}[g.n(5)] + toks[g.n(len(toks))] + `"`)
			if i+1 < n { // a quoted field is followed by a comma (or ends the line)
				b.WriteString("," + toks[g.n(len(toks))])
			}
		case g.n(12) == 0: // an empty field
		default:
			b.WriteString(toks[g.n(len(toks))])
		}
	}
	return b.String()
}

func makeRawPool(g *gen) map[string]string {
	pool := map[string]string{
		"rk": "alpha beta:g,d\nk,\"p q\",r;s t\n",
		"r0": "",
	}
	for _, n := range []string{"ra", "rb", "rc", "rd"} {
		var b strings.Builder
		for k := g.n(5); k > 0; k-- {
			if g.n(10) == 0 {
				b.WriteString("\n") // an empty line
				continue
			}
			b.WriteString(g.rawLine() + "\n")
		}
		pool[n] = b.String()
	}
	return pool
}

var spRawNames = []string{"r0", "ra", "rb", "rc", "rd", "rk"}

// spAssign: a special (or user) variable and a value; reading = only those that decide how the next input is read
func (g *gen) spAssign(reading bool) (string, string) {
	names := []string{"FS", "FS", "RS", "INPUTMODE", "INPUTMODE", "NR", "FNR", "FILENAME", "FILENAME", "OFS", "ARGC", "v0"}
	if reading {
		names = []string{"FS", "RS", "INPUTMODE", "INPUTMODE"}
	}
	name := names[g.n(len(names))]
	switch name {
	case "FS":
		return name, []string{" ", ":", ",", ";", "\t", "[:;]", "[, ]", "  "}[g.n(8)]
	case "RS":
		return name, []string{";", ":", ",", "\n", "\n"}[g.n(5)]
	case "INPUTMODE":
		return name, []string{"csv", "csv", "tsv", ""}[g.n(4)]
	case "NR":
		return name, strconv.Itoa(g.n(20))
	case "FNR":
		return name, strconv.Itoa(g.n(9))
	case "ARGC":
		return name, strconv.Itoa(g.n(7))
	case "FILENAME":
		return name, []string{"zz", "ra", "-", "x y"}[g.n(4)]
	case "OFS":
		return name, []string{"-", ":", " "}[g.n(3)]
	}
	return "v0", g.word()
}

func spOperand(name, val string) string {
	val = strings.NewReplacer(`\`, `\\`, "\t", `\t`, "\n", `\n`).Replace(val)
	return name + "=" + val
}

func (g *gen) spStmts(where int) []SpStmt { // where: 0 BEGIN, 1 rule, 2 END
	var ss []SpStmt
	for k := 1 + g.n(3); k > 0; k-- {
		switch r := g.n(20); {
		case r < 9:
			n, v := g.spAssign(false)
			if n == "FILENAME" && v == "x y" {
				v = "zz" // (the trace line is compared as text, any value would do)
			}
			ss = append(ss, SpStmt{K: "set", Name: n, Val: v})
		case r < 10 && where == 0:
			ss = append(ss, SpStmt{K: "argv", N: 1 + g.n(5), Val: []string{"rk", "ra", "", "-", "FS=:", "FILENAME=q", "INPUTMODE=csv"}[g.n(7)]})
		case r < 13:
			ss = append(ss, SpStmt{K: "gv"})
		case r < 15:
			ss = append(ss, SpStmt{K: "g"})
		case r < 16 && where != 0:
			ss = append(ss, SpStmt{K: "rebuild"})
		default:
			ss = append(ss, SpStmt{K: "t", N: 1 + where*3 + g.n(3)})
		}
	}
	return ss
}

func (g *gen) spFile() string { return spRawNames[g.n(len(spRawNames))] }

func (g *gen) specialCase(raw map[string]string) *Case {
	for try := 0; ; try++ {
		cs := g.specialCase1(raw, try > 20)
		if _, _, undef := spExpected(cs); undef == "" {
			cs.Awk = cs.Sp.awk()
			return cs
		}
	}
}

func (g *gen) specialCase1(raw map[string]string, simple bool) *Case {
	p := &SpProg{Raw: raw, InFunc: g.n(4) == 0}
	cs := &Case{Class: "special", Files: map[string][]string{}, Sp: p, Variant: 1}
	noFiles := g.n(4) == 0
	switch shape := g.n(3); {
	case shape == 0 && !noFiles:
		// files with one or two reading-relevant assignments BETWEEN them
		cs.Args = append(cs.Args, g.spFile())
		for k := 1 + g.n(3); k > 0; k-- {
			for j := 1 + g.n(2); j > 0; j-- {
				n, v := g.spAssign(g.n(3) > 0)
				cs.Args = append(cs.Args, spOperand(n, v))
			}
			cs.Args = append(cs.Args, g.spFile())
		}
		if g.n(3) == 0 {
			n, v := g.spAssign(false)
			cs.Args = append(cs.Args, spOperand(n, v))
		}
	default:
		for k := g.n(6); k > 0; k-- {
			switch r := g.n(100); {
			case r < 45 && !noFiles:
				cs.Args = append(cs.Args, g.spFile())
			case r < 50 && !noFiles:
				cs.Args = append(cs.Args, "-")
			case r < 52 && !noFiles:
				cs.Args = append(cs.Args, "nofile")
			case r < 60:
				cs.Args = append(cs.Args, "")
			case r < 64:
				cs.Args = append(cs.Args, "qq=1")
			default:
				n, v := g.spAssign(false)
				cs.Args = append(cs.Args, spOperand(n, v))
			}
		}
	}
	for k := g.n(4); k > 0; k-- {
		p.Stdin += g.rawLine() + "\n"
	}
	if g.n(4) == 0 {
		for k := 1 + g.n(2); k > 0; k-- {
			n, v := g.spAssign(false)
			if n != "ARGC" {
				p.Vars = append(p.Vars, n, v)
			}
		}
	}
	if !simple {
		if g.n(3) == 0 {
			p.Begin = g.spStmts(0)
		}
		for k := g.n(3); k > 0; k-- {
			p.Rules = append(p.Rules, SpRule{At: 1 + g.n(6), Body: g.spStmts(1)})
		}
	}
	p.End = []SpStmt{{K: "t", N: 9}}
	if !simple && g.n(4) == 0 {
		p.End = append(p.End, g.spStmts(2)...)
	}
	return cs
}

// spCorpus: directed cases (the documented examples of the class)
func spCorpus(raw map[string]string) []*Case {
	mk := func(args []string, stdin string, vars []string, begin []SpStmt, rules []SpRule, end []SpStmt) *Case {
		p := &SpProg{Raw: raw, Stdin: stdin, Vars: vars, Begin: begin, Rules: rules, End: append([]SpStmt{{K: "t", N: 9}}, end...)}
		cs := &Case{Class: "special", Args: args, Files: map[string][]string{}, Sp: p, Variant: 1}
		cs.Awk = p.awk()
		return cs
	}
	set := func(n, v string) SpStmt { return SpStmt{K: "set", Name: n, Val: v} }
	return []*Case{
		// no file operand, FILENAME assigned before the first read: stdin is still the input
		mk([]string{"FILENAME=foo"}, "s1 s2\ns3\n", nil, nil, nil, nil),
		mk(nil, "s1 s2\ns3\n", nil, []SpStmt{set("FILENAME", "foo"), {K: "t", N: 1}}, nil, nil),
		mk(nil, "s1 s2\ns3\n", []string{"FILENAME", "pre"}, []SpStmt{{K: "gv"}, {K: "t", N: 1}}, nil, nil),
		mk([]string{"", "NR=5", "FNR=3"}, "s1\n", []string{"FILENAME", "pre", "NR", "2"}, nil, nil, nil),
		// the input mode / FS / RS switched by an operand between files; END sees the last record's fields
		mk([]string{"rk", "INPUTMODE=csv", "rk"}, "", nil, nil, nil, nil),
		mk([]string{"rk", "FS=:", "rk", "INPUTMODE=tsv", "rk", "INPUTMODE=", "rk", "RS=;", "rk", "FS=,"}, "", nil, nil, nil, nil),
		// … and by an action on the last record of a file
		mk([]string{"rk", "rk"}, "", nil, nil, []SpRule{{At: 2, Body: []SpStmt{set("INPUTMODE", "csv")}}}, nil),
		mk([]string{"rk", "rk", "FS=:"}, "", nil, nil, []SpRule{{At: 2, Body: []SpStmt{set("RS", ";"), set("NR", "10"), set("FILENAME", "zz"), {K: "t", N: 4}}}}, []SpStmt{{K: "g"}}),
		// ARGC assigned by an operand: the walk stops there
		mk([]string{"ARGC=2", "rk"}, "s1\n", nil, nil, nil, nil),
		mk([]string{"rk", "ARGC=1", "rk"}, "s1\n", nil, nil, nil, nil),
	}
}

// spFeatures: which special variable is assigned from where, and the shape of the operand list (input distribution)
func spFeatures(cs *Case) map[string]bool {
	f := map[string]bool{}
	if cs.Sp == nil {
		return f
	}
	files, seenFile := 0, false
	for _, a := range cs.Args {
		if m := reAssign.FindStringSubmatch(a); m != nil {
			where := "before-files"
			if seenFile {
				where = "after-a-file"
			}
			f["operand:"+m[1]+":"+where] = true
			continue
		}
		if a != "" {
			files++
			seenFile = true
		}
	}
	if files == 0 {
		f["no-input-operand"] = true
	}
	for i := 0; i+1 < len(cs.Sp.Vars); i += 2 {
		f["vars:"+cs.Sp.Vars[i]] = true
	}
	walk := func(where string, ss []SpStmt) {
		for _, s := range ss {
			switch s.K {
			case "set":
				f[where+":"+s.Name] = true
			case "argv", "gv", "g", "rebuild":
				f[where+":"+s.K] = true
			}
		}
	}
	walk("begin", cs.Sp.Begin)
	for _, r := range cs.Sp.Rules {
		walk("rule", r.Body)
	}
	walk("end", cs.Sp.End)
	if cs.Sp.InFunc {
		f["assign-in-function"] = true
	}
	shFeatures(cs, f)
	return f
}
