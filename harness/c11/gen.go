package main

import (
	"fmt"

	"verifharness/vh"
)

// fixed files (corpus cases and oracle programs rely on their content) + random ones per seed
func makePool(c *vh.Ctx) map[string][]string {
	pool := map[string][]string{
		"k1": {"p q", "r"},
		"k2": {"a x", "b", "a b", "y", "b x"},
		"k0": {},
	}
	g := &gen{c: c}
	for _, n := range []string{"fa", "fb", "fc", "fd", "fe"} {
		k := c.Rng.Intn(6)
		recs := make([]string, k)
		for i := range recs {
			recs[i] = g.rec()
		}
		pool[n] = recs
	}
	return pool
}

type gen struct {
	c     *vh.Ctx
	pool  map[string][]string
	names []string
}

func (g *gen) n(k int) int { return g.c.Rng.Intn(k) }

func (g *gen) word() string {
	const letters = "abxy"
	w := string(letters[g.n(4)])
	if g.n(3) == 0 {
		w += string(letters[g.n(4)])
	}
	return w
}

func (g *gen) rec() string {
	if g.n(12) == 0 {
		return ""
	}
	s := g.word()
	for k := g.n(3); k > 0; k-- {
		s += " " + g.word()
	}
	return s
}

func (g *gen) file() string { return g.names[g.n(len(g.names))] }

func (g *gen) operand() string {
	switch k := g.n(100); {
	case k < 50:
		return g.file()
	case k < 56: // special variables the bookkeeping / the splitting reads (modelled: FILENAME, single-byte FS)
		if g.n(2) == 0 {
			return "FILENAME=" + []string{"zz", "k1", "-"}[g.n(3)]
		}
		return "FS=" + g.fsVal()
	case k < 68:
		return fmt.Sprintf("v%d=%s", g.n(3), g.word())
	case k < 71:
		return fmt.Sprintf("v%d=", g.n(3))
	case k < 81:
		return ""
	case k < 91:
		return "-"
	case k < 94:
		return "nofile"
	case k < 97:
		return "qq=1" // a variable the program does not have: ignored
	case k < 98:
		if g.n(2) == 0 {
			return "40471" // a (missing) file whose name is a number: BEGIN may assign it to ARGV as a NUMBER (model.go, op "sa")
		}
		return "=x" // not an assignment: a (missing) file
	case k < 99:
		return "1a=2" // not an assignment either
	default:
		return "v1=a=b"
	}
}

// fsVal: a single-byte FS (letters of the record alphabet split the generated records), or the default
func (g *gen) fsVal() string { return []string{"x", "a", "b", ":", " ", "y"}[g.n(6)] }

// spOp: FILENAME = … / FS = … by the program
func (g *gen) spOp() Op {
	if g.n(2) == 0 {
		return Op{K: "sf", S: []string{"zz", "k2", "-"}[g.n(3)]}
	}
	return Op{K: "sfs", S: g.fsVal()}
}

// argvVal: what BEGIN assigns to an ARGV element — an operand, or (one time in eight) the name 40471, which model.go also
// writes as a number
func (g *gen) argvVal() string {
	if g.n(8) == 0 {
		return "40471"
	}
	return g.operand()
}

func (g *gen) operands() []string {
	k := g.n(6)
	if g.n(8) == 0 {
		k = 0
	}
	args := make([]string, k)
	for i := range args {
		args[i] = g.operand()
	}
	return args
}

func (g *gen) stdin() []string {
	k := g.n(5)
	recs := make([]string, k)
	for i := range recs {
		recs[i] = g.rec()
	}
	return recs
}

func (g *gen) cond(depth int) *Cond {
	switch k := g.n(20); {
	case k < 7:
		return &Cond{K: "h", N: int("abxy"[g.n(4)])}
	case k < 10:
		return &Cond{K: "nr", N: 1 + g.n(8)}
	case k < 13:
		return &Cond{K: "fnr", N: 1 + g.n(4)}
	case k < 14:
		return &Cond{K: "nrge", N: 1 + g.n(8)}
	case k < 15:
		return &Cond{K: "t"}
	case k < 16:
		return &Cond{K: "f"}
	case k < 17:
		return &Cond{K: "veq", N: g.n(3), S: g.word()}
	case k < 19 && depth < 2:
		return &Cond{K: "not", A: g.cond(depth + 1)}
	case depth < 2:
		return &Cond{K: "and", A: g.cond(depth + 1), B: g.cond(depth + 1)}
	}
	return &Cond{K: "h", N: int("abxy"[g.n(4)])}
}

func (g *gen) newCase(class string) *Case {
	return &Case{Class: class, Args: g.operands(), Stdin: g.stdin(), Files: g.pool, Variant: g.c.Rng.Int63()}
}

var tick = Rule{Pat: "a", Body: []Op{{K: "e", N: 0}}}

// trace: rules whose bodies only emit — NR/FNR/FILENAME/vars per record against the flat specification
func (g *gen) traceCase() *Case {
	cs := g.newCase("trace")
	cs.Rules = []Rule{tick}
	for k := g.n(3); k > 0; k-- {
		r := Rule{Pat: "p", B: g.cond(0), Body: []Op{{K: "e", N: 1 + g.n(5)}}}
		if g.n(4) == 0 {
			r = Rule{Pat: "a", Body: []Op{{K: "e", N: 1 + g.n(5)}, {K: "e", N: 7}}}
		} else if g.n(4) == 0 { // the pattern calls a function that executes next / nextfile
			r.Raise, r.RaiseAt, r.W = []string{"n", "nf"}[g.n(2)], "b", g.cond(0)
		}
		cs.Rules = append(cs.Rules, r)
	}
	if g.n(3) > 0 {
		cs.HasEnd = true
		cs.End = []Op{{K: "e", N: 900}}
	}
	if g.n(4) == 0 { // FILENAME / FS assigned in BEGIN, before any operand is looked at
		for k := 1 + g.n(2); k > 0; k-- {
			cs.Begin = append(cs.Begin, g.spOp())
		}
		cs.Begin = append(cs.Begin, Op{K: "e", N: 800})
		if g.n(2) == 0 { // … with no input operand at all: stdin must still be read
			var args []string
			for _, a := range cs.Args {
				if a == "" || reAssign.MatchString(a) {
					args = append(args, a)
				}
			}
			cs.Args = args
		}
	}
	return cs
}

// range: a tick rule and one or two range rules (bodies emit only, or no body)
func (g *gen) rangeCase() *Case {
	cs := g.newCase("range")
	if len(cs.Args) == 0 && len(cs.Stdin) < 3 {
		cs.Args = []string{"k2", g.file()}
	}
	cs.Rules = []Rule{tick}
	for k := 1 + g.n(2); k > 0; k-- {
		r := Rule{Pat: "r", B: g.cond(1), E: g.cond(1), Body: []Op{{K: "e", N: 10 + k}}}
		if g.n(5) == 0 {
			r.Body, r.NoBody = nil, true
		}
		cs.Rules = append(cs.Rules, r)
	}
	return cs
}

// argv: BEGIN edits ARGV / ARGC, then the operands are traced
func (g *gen) argvCase() *Case {
	cs := g.newCase("argv")
	n := len(cs.Args)
	for k := 1 + g.n(3); k > 0; k-- {
		if g.n(4) == 0 {
			cs.Begin = append(cs.Begin, Op{K: "sc", N: g.n(n + 3)})
		} else {
			cs.Begin = append(cs.Begin, Op{K: "sa", N: 1 + g.n(n+2), S: g.argvVal()})
		}
	}
	if g.n(4) == 0 {
		cs.Begin = append(cs.Begin, g.spOp())
	}
	if g.n(3) == 0 {
		cs.Begin = append(cs.Begin, Op{K: "e", N: 800})
	}
	cs.Rules = []Rule{tick}
	cs.HasEnd = true
	cs.End = []Op{{K: "e", N: 900}}
	return cs
}

func (g *gen) getlineOp() Op {
	f := g.file()
	if g.n(12) == 0 {
		f = "nofile"
	}
	switch g.n(4) {
	case 0:
		return Op{K: "g"}
	case 1:
		return Op{K: "gv", V: g.n(3)}
	case 2:
		return Op{K: "gf", F: f}
	}
	return Op{K: "gvf", V: g.n(3), F: f}
}

// ops generates an op list; where: 0 BEGIN, 1 main rule, 2 END (next / nextfile only in main rules)
func (g *gen) ops(where, depth int, base int) []Op {
	var ops []Op
	for k := 1 + g.n(4); k > 0; k-- {
		switch r := g.n(100); {
		case r < 22:
			ops = append(ops, Op{K: "e", N: base + g.n(9)})
		case r < 47: // a getline bracketed by emits, so that the oracle sees the state before and after
			ops = append(ops, Op{K: "e", N: base + 10}, g.getlineOp(), Op{K: "e", N: base + 11})
		case r < 52:
			ops = append(ops, g.getlineOp())
		case r < 58 && where == 1:
			ops = append(ops, Op{K: "i", C: g.cond(0), Body: []Op{{K: "n"}}})
		case r < 62 && where == 1:
			ops = append(ops, Op{K: "i", C: g.cond(0), Body: []Op{{K: "nf"}}})
		case r < 65:
			x := Op{K: "x", N: g.n(4)}
			if g.n(3) == 0 {
				x = Op{K: "x-"}
			}
			ops = append(ops, Op{K: "i", C: g.cond(0), Body: []Op{x}})
		case r < 67 && where == 1:
			ops = append(ops, Op{K: []string{"n", "nf"}[g.n(2)]})
		case r < 68:
			ops = append(ops, Op{K: "x", N: g.n(4)})
		case r < 78 && depth < 3:
			ops = append(ops, Op{K: "c", Body: g.ops(where, depth+1, base)})
		case r < 86 && depth < 3:
			ops = append(ops, Op{K: "l", N: g.n(4), Body: g.ops(where, depth+1, base)})
		case r < 94 && depth < 3:
			ops = append(ops, Op{K: "i", C: g.cond(0), Body: g.ops(where, depth+1, base)})
		case r < 95:
			ops = append(ops, Op{K: "cl", F: g.file()})
		case r < 96 && g.n(2) == 0:
			ops = append(ops, g.spOp())
		case r < 97:
			ops = append(ops, Op{K: "sa", N: 1 + g.n(len0(g)+2), S: g.argvVal()})
		case r < 98:
			ops = append(ops, Op{K: "sc", N: g.n(len0(g) + 3)})
		default:
			ops = append(ops, Op{K: "e", N: base + 9})
		}
	}
	return ops
}

var curArgs int

func len0(g *gen) int { return curArgs }

// mixed: everything
func (g *gen) mixedCase() *Case {
	cs := g.newCase("mixed")
	curArgs = len(cs.Args)
	if g.n(5) < 2 {
		cs.Begin = g.ops(0, 1, 800)
	}
	if g.n(8) > 0 {
		cs.Rules = append(cs.Rules, tick)
	}
	for k := g.n(4); k > 0; k-- {
		var r Rule
		switch g.n(5) {
		case 0, 1:
			r = Rule{Pat: "a"}
		case 2, 3:
			r = Rule{Pat: "p", B: g.cond(0)}
		default:
			r = Rule{Pat: "r", B: g.cond(1), E: g.cond(1)}
		}
		if r.Pat != "a" && g.n(7) == 0 { // a raising pattern expression (single, begin or end)
			r.Raise, r.W = []string{"n", "nf"}[g.n(2)], g.cond(0)
			r.RaiseAt = "b"
			if r.Pat == "r" && g.n(2) == 0 {
				r.RaiseAt = "e"
			}
		}
		if r.Pat != "a" && g.n(8) == 0 {
			r.NoBody = true
		} else {
			r.Body = g.ops(1, 0, 100*(len(cs.Rules)+1))
		}
		cs.Rules = append(cs.Rules, r)
	}
	if g.n(4) > 0 || len(cs.Rules) == 0 {
		cs.HasEnd = true
		cs.End = []Op{{K: "e", N: 900}}
		if g.n(3) == 0 {
			cs.End = append(cs.End, g.ops(2, 1, 910)...)
		}
		if g.n(6) == 0 { // a bare exit at the end of END must keep an earlier status
			cs.End = append(cs.End, Op{K: "x-"})
		} else if g.n(6) == 0 { // … and `exit 0` must reset it
			cs.End = append(cs.End, Op{K: "x", N: 0})
		}
	}
	return cs
}

// ---- long runs: thousands of records, early exits from inside functions on most of them --------------------------------------

// longPool: 4 files of 400-1400 records each
func longPool(c *vh.Ctx) map[string][]string {
	g := &gen{c: c}
	pool := map[string][]string{}
	for _, n := range []string{"L1", "L2", "L3", "L4"} {
		k := 400 + c.Rng.Intn(1000)
		recs := make([]string, k)
		for i := range recs {
			recs[i] = g.rec()
		}
		pool[n] = recs
	}
	return pool
}

// nest wraps ops in 1-3 levels of calls / loops / conditionals (each call level is rendered as some kind of user function)
func (g *gen) nest(ops []Op) []Op {
	for d := 1 + g.n(3); d > 0; d-- {
		switch g.n(4) {
		case 0, 1:
			ops = []Op{{K: "c", Body: ops}}
		case 2:
			ops = []Op{{K: "l", N: 1 + g.n(2), Body: []Op{{K: "c", Body: ops}}}}
		default:
			ops = []Op{{K: "c", Body: []Op{{K: "i", C: &Cond{K: "t"}, Body: ops}}}}
		}
	}
	return ops
}

func (g *gen) longArgs(lp map[string][]string) []string {
	names := sortedKeys(lp)
	var args []string
	for k := 3 + g.n(2); k > 0; k-- {
		args = append(args, names[g.n(len(names))])
		switch g.n(6) {
		case 0:
			args = append(args, fmt.Sprintf("v%d=%s", g.n(3), g.word()))
		case 1:
			args = append(args, "")
		}
	}
	return args
}

// keepCond: true on a minority of the records
func (g *gen) keepCond() *Cond {
	m := 5 + g.n(90)
	c := &Cond{K: "nrmod", N: m, M: g.n(m)}
	if g.n(3) == 0 {
		c = &Cond{K: "and", A: c, B: &Cond{K: "h", N: int("abxy"[g.n(4)])}}
	}
	return c
}

// longCtlCase: most records are abandoned by next (sometimes nextfile) executed inside user functions — directly, nested,
// in loops, recursively, or by a function called from the pattern; the few kept ones are traced. Pure bodies: the flat
// specification is the oracle.
func (g *gen) longCtlCase(lp map[string][]string) *Case {
	cs := &Case{Class: "long-ctl", Args: g.longArgs(lp), Files: lp, Variant: g.c.Rng.Int63()}
	keep := g.keepCond()
	drop := &Cond{K: "not", A: keep}
	if g.n(3) == 0 { // the pattern's function does the skipping
		cs.Rules = append(cs.Rules, Rule{Pat: "p", B: &Cond{K: "t"}, Raise: "n", RaiseAt: "b", W: drop, Body: []Op{{K: "e", N: 1}}})
	} else {
		body := []Op{{K: "i", C: drop, Body: g.nest([]Op{{K: "n"}})}, {K: "e", N: 1}}
		if g.n(2) == 0 { // a second early exit one rule pass deeper
			body = append([]Op{{K: "c", Body: []Op{{K: "i", C: &Cond{K: "nrmod", N: 2 + g.n(5), M: 0}, Body: g.nest([]Op{{K: "n"}})}}}}, body...)
		}
		cs.Rules = append(cs.Rules, Rule{Pat: "a", Body: body})
	}
	if g.n(2) == 0 { // nextfile from inside functions, far into a file
		nf := Rule{Pat: "p", B: &Cond{K: "fnr", N: 50 + g.n(600)}, Body: g.nest([]Op{{K: "nf"}})}
		cs.Rules = append([]Rule{nf}, cs.Rules...)
	}
	if g.n(2) == 0 { // a range rule behind the skipping rules sees only the kept records
		cs.Rules = append(cs.Rules, Rule{Pat: "r", B: &Cond{K: "h", N: int("abxy"[g.n(4)])}, E: &Cond{K: "h", N: int("abxy"[g.n(4)])}, Body: []Op{{K: "e", N: 2}}})
	}
	cs.HasEnd = true
	cs.End = []Op{{K: "e", N: 900}}
	return cs
}

// longGetlineCase: a tick rule, then on every record getline var < file (and the other forms now and then) with the file
// closed and reopened again and again, partly inside functions that are left early
func (g *gen) longGetlineCase(lp map[string][]string) *Case {
	files := map[string][]string{}
	for k, v := range lp {
		files[k] = v
	}
	for k, v := range g.pool {
		files[k] = v
	}
	cs := &Case{Class: "long-getline", Args: g.longArgs(lp)[:2], Files: files, Variant: g.c.Rng.Int63()}
	f := g.file()
	body := []Op{{K: "gvf", V: g.n(3), F: f}}
	if g.n(2) == 0 {
		body = append(body, Op{K: "e", N: 110}, Op{K: "gf", F: f}, Op{K: "e", N: 111})
	}
	closeEvery := &Cond{K: "nrmod", N: 1 + g.n(3), M: 0}
	body = append(body, Op{K: "i", C: closeEvery, Body: []Op{{K: "cl", F: f}}})
	if g.n(2) == 0 {
		body = append(body, Op{K: "i", C: &Cond{K: "nrmod", N: 2, M: 1}, Body: g.nest([]Op{{K: "gv", V: g.n(3)}, {K: "n"}})})
	}
	cs.Rules = []Rule{tick, {Pat: "a", Body: g.nest(body)}}
	cs.HasEnd = true
	cs.End = []Op{{K: "e", N: 900}}
	return cs
}

// corpus: witnesses of fixed and recorded findings, directed cases, minimized past failures — always run first
func corpusCases(pool map[string][]string) []*Case {
	mk := func(args []string, stdin []string, begin []Op, rules []Rule, end []Op) *Case {
		return &Case{Class: "corpus", Args: args, Stdin: stdin, Files: pool, Begin: begin, Rules: rules, HasEnd: end != nil, End: end, Variant: 1}
	}
	e := func(n int) Op { return Op{K: "e", N: n} }
	has := func(ch byte) *Cond { return &Cond{K: "h", N: int(ch)} }
	cases := []*Case{
		// operands: file, assignment between two files, empty, dash, file again
		mk([]string{"k1", "v0=7", "k2", "", "-", "v1=z", "k1"}, []string{"s1", "s2"}, nil, []Rule{tick}, []Op{e(900)}),
		// no operand at all: stdin once; only assignments: stdin once
		mk(nil, []string{"s1", "s2"}, nil, []Rule{tick}, []Op{e(900)}),
		mk([]string{"v0=1", ""}, []string{"s1"}, nil, []Rule{tick}, []Op{e(900)}),
		// a range that opens and closes on the same record, stays open across a file boundary, and is never closed
		mk([]string{"k2", "k2"}, nil, nil, []Rule{tick, {Pat: "r", B: has('a'), E: has('a'), Body: []Op{e(11)}}}, nil),
		mk([]string{"k2", "k1"}, nil, nil, []Rule{tick, {Pat: "r", B: has('y'), E: has('r'), Body: []Op{e(11)}}}, nil),
		mk([]string{"k2"}, nil, nil, []Rule{tick, {Pat: "r", B: has('b'), E: &Cond{K: "f"}, NoBody: true}}, nil),
		// Appendix C rehearsal: /a/,/a/
		mk([]string{"k2"}, nil, nil, []Rule{{Pat: "r", B: has('a'), E: has('a'), Body: []Op{e(11)}}}, nil),
		// getline var inside an open range; assignment operand between two files while the range is open
		mk([]string{"k2", "v2=w", "k1"}, nil, nil, []Rule{tick, {Pat: "r", B: has('b'), E: has('q'), Body: []Op{e(10), {K: "gv", V: 0}, e(11)}}}, []Op{e(900)}),
		// nextfile from a function inside a loop; next from a nested call
		mk([]string{"k2", "k1", "k2"}, nil, nil, []Rule{tick, {Pat: "p", B: &Cond{K: "fnr", N: 2}, Body: []Op{{K: "l", N: 2, Body: []Op{{K: "c", Body: []Op{e(5), {K: "nf"}}}}}}}, {Pat: "a", Body: []Op{e(6)}}}, []Op{e(900)}),
		mk([]string{"k2"}, nil, nil, []Rule{tick, {Pat: "p", B: has('b'), Body: []Op{{K: "c", Body: []Op{{K: "c", Body: []Op{{K: "n"}}}, e(5)}}, e(6)}}, {Pat: "a", Body: []Op{e(7)}}}, nil),
		// exit in BEGIN skips the input but runs END; exit in END keeps the earlier status
		mk([]string{"k2"}, nil, []Op{e(800), {K: "x", N: 3}, e(801)}, []Rule{tick}, []Op{e(900), {K: "x-"}, e(901)}),
		mk([]string{"k2"}, nil, nil, []Rule{tick, {Pat: "p", B: &Cond{K: "nr", N: 2}, Body: []Op{{K: "c", Body: []Op{{K: "x", N: 2}}}}}}, []Op{e(900), {K: "x", N: 5}}),
		// all four getline forms, in BEGIN, main and END; getline from a missing file; a missing operand reached by getline
		mk([]string{"k1", "nofile", "k2"}, nil, []Op{{K: "g"}, e(800), {K: "gvf", V: 1, F: "k1"}, e(801)},
			[]Rule{tick, {Pat: "a", Body: []Op{{K: "gv", V: 0}, e(1), {K: "gf", F: "k1"}, e(2), {K: "gf", F: "nofile"}, {K: "g"}, e(3)}}}, []Op{{K: "g"}, e(900)}),
		// a missing file operand is a fatal error in the main loop
		mk([]string{"k1", "nofile", "k2"}, nil, nil, []Rule{tick}, []Op{e(900)}),
		// ARGV / ARGC edited in BEGIN
		mk([]string{"k1", "k2"}, nil, []Op{{K: "sa", N: 1, S: ""}, {K: "sa", N: 3, S: "k1"}, {K: "sc", N: 4}}, []Rule{tick}, []Op{e(900)}),
		mk([]string{"k1", "k2"}, []string{"s"}, []Op{{K: "sc", N: 1}}, []Rule{tick}, []Op{e(900)}),
		// only BEGIN: the input is not read
		mk([]string{"k1"}, nil, []Op{{K: "g"}, e(800)}, nil, nil),
		// Gc11-1 (repaired): next / nextfile executed by a function called from a pattern — single, begin of a range, end of a range
		mk([]string{"k2"}, nil, nil, []Rule{{Pat: "p", B: &Cond{K: "t"}, Raise: "n", RaiseAt: "b", W: has('b'), Body: []Op{e(1)}}, {Pat: "a", Body: []Op{e(2)}}}, []Op{e(900)}),
		mk([]string{"k2", "k1"}, nil, nil, []Rule{tick, {Pat: "p", B: &Cond{K: "t"}, Raise: "nf", RaiseAt: "b", W: &Cond{K: "fnr", N: 2}, Body: []Op{e(1)}}}, []Op{e(900)}),
		mk([]string{"k2"}, nil, nil, []Rule{tick, {Pat: "r", B: has('b'), E: &Cond{K: "f"}, Raise: "n", RaiseAt: "e", W: has('y'), Body: []Op{e(1)}}, {Pat: "a", Body: []Op{e(2)}}}, []Op{e(900)}),
		mk([]string{"k2", "k2"}, nil, nil, []Rule{tick, {Pat: "r", B: has('y'), E: has('a'), Raise: "nf", RaiseAt: "b", W: has('b'), Body: []Op{e(1)}}, {Pat: "a", Body: []Op{e(2)}}}, []Op{e(900)}),
	}
	cases = append(cases,
		// exit 3 in a rule, then `exit 0` in END: the status is the LAST exit value, 0
		mk([]string{"k2"}, nil, nil, []Rule{tick, {Pat: "p", B: &Cond{K: "nr", N: 2}, Body: []Op{{K: "x", N: 3}}}}, []Op{e(900), {K: "x", N: 0}}),
		mk([]string{"k2"}, nil, []Op{{K: "x", N: 2}}, []Rule{tick}, []Op{e(900), {K: "c", Body: []Op{{K: "x", N: 0}}}}),
		// FILENAME assigned before the first read, no input operand: stdin is the input all the same (by an operand, in BEGIN, both)
		mk([]string{"FILENAME=zz"}, []string{"s1", "s2"}, nil, []Rule{tick}, []Op{e(900)}),
		mk(nil, []string{"s1", "s2"}, []Op{{K: "sf", S: "zz"}, e(800)}, []Rule{tick}, []Op{e(900)}),
		mk([]string{"", "FILENAME=k1", "v0=1"}, []string{"s1"}, []Op{{K: "sf", S: "q"}, {K: "gv", V: 1}, e(800)}, []Rule{tick}, []Op{e(900)}),
		// FILENAME assigned by an operand between files and by an action: the next file renames it, the walk is not disturbed
		mk([]string{"k1", "FILENAME=k2", "k2", "FILENAME=zz"}, nil, nil, []Rule{tick, {Pat: "p", B: &Cond{K: "fnr", N: 1}, Body: []Op{{K: "sf", S: "w"}, e(1)}}}, []Op{e(900)}),
		// FS assigned between files, after the last file (END keeps the last record's NF), and by an action (next record on)
		mk([]string{"k2", "FS=a", "k2", "FS=x"}, nil, nil, []Rule{tick}, []Op{e(900)}),
		mk([]string{"k2"}, nil, []Op{{K: "sfs", S: "b"}}, []Rule{tick, {Pat: "p", B: &Cond{K: "nr", N: 2}, Body: []Op{{K: "sfs", S: " "}, e(1), {K: "g"}, e(2)}}}, []Op{e(900)}),
	)
	cases = append(cases, rawCases(pool)...)
	return cases
}
