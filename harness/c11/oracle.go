package main

// Implementation-side oracle: the clauses of C11 evaluated on the trace of the real interpreter alone.
//
//   flat specification (classes trace / range / argv / corpus with emit-only rules): the list of main-input records with
//     their NR, FNR, FILENAME and the var=value assignments in force, computed directly from the operand list and the
//     file contents; range rules select by the positional definition "some record j <= i satisfies b and no record in
//     j..i-1 satisfies e".
//   dynamic clauses (every class): NR = ticks + successful plain/var getlines; what each getline form may change;
//     what may follow next / nextfile / exit; END still runs and sees the last record; exit status.

import (
	"fmt"
	"regexp"
	"strings"

	"verifharness/vh"
)

type srec struct {
	NR, FNR int
	File    string
	Line    string
	Vars    [3]string
	FS      string // the FS in force when the record was read ("" = the default)
	Input   string // the operand the record came from (FILENAME unless somebody assigned it since)
}

var reAssign = regexp.MustCompile(`^([_a-zA-Z][_a-zA-Z0-9]*)=(.*)`)

// specStream: the records of the main input in order. fatal = an operand names a file that does not exist (records
// before it are still delivered).
//
// initFile / initFS: FILENAME and FS as BEGIN (or -v) left them. FILENAME is whatever was assigned last — by `setFile` when an
// input is opened, or by a FILENAME=… operand; neither it nor any other variable decides WHICH inputs are read: `had` is set
// by operands that name an input, and by nothing else. A record carries the FS in force when it was read.
func specStream(args []string, stdin []string, files map[string][]string, initFile, initFS string, vars [3]string) (recs []srec, fatal bool, final srec) {
	nr := 0
	had := false
	fs := initFS
	final.File = initFile
	add := func(name string, rs []string) {
		final.File, final.FNR, final.Input = name, len(rs), name
		for i, r := range rs {
			nr++
			recs = append(recs, srec{nr, i + 1, name, r, vars, fs, name})
			final.Line, final.FS = r, fs
		}
	}
	defer func() { final.NR, final.Vars = nr, vars }()
	for _, a := range args {
		if m := reAssign.FindStringSubmatch(a); m != nil {
			for i, n := range varNames {
				if n == m[1] {
					vars[i] = m[2]
				}
			}
			switch m[1] {
			case "FILENAME":
				final.File = m[2]
			case "FS":
				fs = m[2]
			}
			continue
		}
		switch a {
		case "":
		case "-":
			add("-", stdin)
			stdin = nil
			had = true
		default:
			rs, ok := files[a]
			if !ok {
				return recs, true, final
			}
			add(a, rs)
			had = true
		}
	}
	if !had {
		add("-", stdin)
	}
	return recs, false, final
}

func evalCond(c *Cond, r srec) bool {
	switch c.K {
	case "t":
		return true
	case "f":
		return false
	case "h":
		return strings.IndexByte(r.Line, byte(c.N)) >= 0
	case "nr":
		return r.NR == c.N
	case "fnr":
		return r.FNR == c.N
	case "nrge":
		return r.NR >= c.N
	case "nrmod":
		return r.NR%c.N == c.M
	case "not":
		return !evalCond(c.A, r)
	case "and":
		return evalCond(c.A, r) && evalCond(c.B, r)
	case "veq":
		return r.Vars[c.N] == c.S
	}
	panic("bad cond")
}

func nfOf(s string) int { return len(strings.Fields(s)) }

// nfWith: the field count under a single-byte FS (" " or "" = the default splitting)
func nfWith(fs, s string) int {
	switch {
	case fs == "" || fs == " ":
		return nfOf(s)
	case s == "":
		return 0
	}
	return strings.Count(s, fs) + 1
}

// hasOp: the program contains an operation of that kind
func hasOp(cs *Case, kind string) bool {
	var walk func(ops []Op) bool
	walk = func(ops []Op) bool {
		for _, o := range ops {
			if o.K == kind || walk(o.Body) {
				return true
			}
		}
		return false
	}
	for _, r := range cs.Rules {
		if walk(r.Body) {
			return true
		}
	}
	return walk(cs.Begin) || walk(cs.End)
}

// touchesFS: FS is assigned somewhere (by an operand, an ARGV element written by the program, or the program)
func touchesFS(cs *Case) bool {
	for i := 0; i+1 < len(cs.Vars); i += 2 {
		if cs.Vars[i] == "FS" {
			return true
		}
	}
	for _, a := range cs.Args {
		if strings.HasPrefix(a, "FS=") {
			return true
		}
	}
	var walk func(ops []Op) bool
	walk = func(ops []Op) bool {
		for _, o := range ops {
			if o.K == "sfs" || (o.K == "sa" && strings.HasPrefix(o.S, "FS=")) || walk(o.Body) {
				return true
			}
		}
		return false
	}
	for _, r := range cs.Rules {
		if walk(r.Body) {
			return true
		}
	}
	return walk(cs.Begin) || walk(cs.End)
}

// pureBody: the body consists of emits, conditionals, calls, counted loops and next / nextfile only — its effect on one
// record is a function of the record (no getline, exit, ARGV edit, close)
func pureBody(ops []Op) bool {
	for _, o := range ops {
		switch o.K {
		case "e", "n", "nf":
		case "i", "c", "l":
			if !pureBody(o.Body) {
				return false
			}
		default:
			return false
		}
	}
	return true
}

// emitOnly: the flat specification applies — BEGIN only emits / edits ARGV, END only emits, every rule body is pure, and a
// range rule has no raising pattern expression (which of its two expressions is evaluated is the automaton's business)
func emitOnly(cs *Case) bool {
	only := func(ops []Op, allowArgv bool) bool {
		for _, o := range ops {
			if o.K == "e" || (allowArgv && (o.K == "sa" || o.K == "sc" || o.K == "sf" || o.K == "sfs")) {
				continue
			}
			return false
		}
		return true
	}
	if !only(cs.Begin, true) || !only(cs.End, false) {
		return false
	}
	for _, r := range cs.Rules {
		if !pureBody(r.Body) {
			return false
		}
		if r.Pat == "r" && r.Raise != "" {
			return false
		}
	}
	return len(cs.Rules) > 0 || cs.HasEnd
}

// evalBody: the events of a pure body on record r; returns 0 (fell through), 1 (next) or 2 (nextfile)
func evalBody(ops []Op, r srec, parts *[]string) int {
	for _, o := range ops {
		switch o.K {
		case "e":
			*parts = append(*parts, fmtE(o.N, r))
		case "n":
			*parts = append(*parts, "X:1")
			return 1
		case "nf":
			*parts = append(*parts, "X:2")
			return 2
		case "i":
			if evalCond(o.C, r) {
				if sg := evalBody(o.Body, r, parts); sg != 0 {
					return sg
				}
			}
		case "c":
			if sg := evalBody(o.Body, r, parts); sg != 0 {
				return sg
			}
		case "l":
			for k := 0; k < o.N; k++ {
				if sg := evalBody(o.Body, r, parts); sg != 0 {
					return sg
				}
			}
		}
	}
	return 0
}

// applyArgvEdits: ARGV/ARGC after BEGIN (array assignment semantics; missing elements read as "")
func applyArgvEdits(cs *Case) []string {
	argv := append([]string{"awk"}, cs.Args...)
	argc := len(argv)
	for _, o := range cs.Begin {
		switch o.K {
		case "sa":
			for len(argv) <= o.N {
				argv = append(argv, "")
			}
			argv[o.N] = o.S
		case "sc":
			argc = o.N
		}
	}
	for len(argv) < argc {
		argv = append(argv, "")
	}
	if argc < 1 {
		return nil
	}
	return argv[1:argc]
}

func fmtE(tag int, r srec) string {
	return fmt.Sprintf("E:%d:%d:%d:%s:%s:%d:%s,%s,%s", tag, r.NR, r.FNR, vh.HxS(r.File), vh.HxS(r.Line), nfWith(r.FS, r.Line),
		vh.HxS(r.Vars[0]), vh.HxS(r.Vars[1]), vh.HxS(r.Vars[2]))
}

// flatExpected: the whole expected trace of an emit-only case
func flatExpected(cs *Case) (want string, fatal bool) {
	var parts []string
	zero := srec{}
	// Config.Vars are applied, in order, before BEGIN
	for i := 0; i+1 < len(cs.Vars); i += 2 {
		switch name, val := cs.Vars[i], cs.Vars[i+1]; name {
		case "FILENAME":
			zero.File = val
		case "FS":
			zero.FS = val
		default:
			for k, n := range varNames {
				if n == name {
					zero.Vars[k] = val
				}
			}
		}
	}
	for _, o := range cs.Begin {
		switch o.K {
		case "e":
			parts = append(parts, fmtE(o.N, zero))
		case "sf":
			zero.File = o.S
		case "sfs":
			zero.FS = o.S
		}
	}
	recs, fatal, final := specStream(applyArgvEdits(cs), cs.Stdin, cs.Files, zero.File, zero.FS, zero.Vars)
	// per range rule: the pattern values of the records that reached the rule so far (a record abandoned by an earlier rule
	// does not reach it); selection is positional over that history: some j <= i satisfies b and nothing in j..i-1 satisfies e
	type be struct{ b, e bool }
	hist := make([][]be, len(cs.Rules))
	selected := func(h []be) bool {
		i := len(h) - 1
		for j := i; j >= 0; j-- {
			if j < i && h[j].e {
				return false
			}
			if h[j].b {
				return true
			}
		}
		return false
	}
	skipFile := false // nextfile was executed: the rest of this file is not delivered
	skipped := 0      // records not delivered so far (they do not count in NR)
	var lastDelivered *srec
	for i := range recs {
		if skipFile && recs[i].FNR > 1 {
			skipped++
			continue
		}
		skipFile = false
		r := recs[i]
		r.NR -= skipped
		lastDelivered = &r
		for k, rule := range cs.Rules {
			m := true
			if rule.Pat == "p" && rule.Raise != "" && evalCond(rule.W, r) {
				// next / nextfile from a function called in the pattern: the record is abandoned
				skipFile = rule.Raise == "nf"
				break
			}
			switch rule.Pat {
			case "p":
				m = evalCond(rule.B, r)
			case "r":
				hist[k] = append(hist[k], be{evalCond(rule.B, r), evalCond(rule.E, r)})
				m = selected(hist[k])
			}
			if !m {
				continue
			}
			if rule.NoBody {
				parts = append(parts, "P:"+vh.HxS(r.Line))
				continue
			}
			if sg := evalBody(rule.Body, r, &parts); sg != 0 {
				skipFile = sg == 2
				break
			}
		}
	}
	final.NR -= skipped
	if lastDelivered != nil {
		final.Line, final.FS = lastDelivered.Line, lastDelivered.FS
		if n := len(recs); skipFile && final.Input == recs[n-1].Input && final.FNR == recs[n-1].FNR {
			final.FNR = lastDelivered.FNR // the tail of the last input was skipped: FNR stopped there
		}
	}
	if fatal {
		return strings.Join(parts, " "), true
	}
	if cs.HasEnd {
		// END sees: NR = all records, FNR/FILENAME of the last input opened, $0 of the last record, every assignment operand applied
		for _, o := range cs.End {
			parts = append(parts, fmtE(o.N, final))
		}
	}
	return strings.Join(parts, " "), false
}

type finding = vh.Failure

// posStream: the records of the main input in the order of the operand list, whoever takes them (main loop, getline, getline
// var): a missing file delivers nothing and does not count as an input (the main loop dies there, getline returns -1 and the
// walk goes on); stdin is read once when no operand named an input.
func posStream(args []string, stdin []string, files map[string][]string) []srec {
	var recs []srec
	had := false
	add := func(name string, rs []string) {
		for i, r := range rs {
			recs = append(recs, srec{NR: len(recs) + 1, FNR: i + 1, File: name, Line: r})
		}
		had = true
	}
	for _, a := range args {
		switch {
		case a == "" || reAssign.MatchString(a):
		case a == "-":
			add("-", stdin)
			stdin = nil
		default:
			if rs, ok := files[a]; ok {
				add(a, rs)
			}
		}
	}
	if !had {
		add("-", stdin)
	}
	return recs
}

// walkFixed: the operand list is the one of the case for the whole run and every record of every input is delivered — no
// ARGV / ARGC edit, no nextfile (statement or raised by a pattern's function)
func walkFixed(cs *Case) bool {
	if hasOp(cs, "sa") || hasOp(cs, "sc") || hasOp(cs, "nf") {
		return false
	}
	for _, r := range cs.Rules {
		if r.Raise == "nf" {
			return false
		}
	}
	return true
}

func filenameAssigned(cs *Case) bool {
	for i := 0; i+1 < len(cs.Vars); i += 2 {
		if cs.Vars[i] == "FILENAME" {
			return true
		}
	}
	for _, a := range cs.Args {
		if strings.HasPrefix(a, "FILENAME=") {
			return true
		}
	}
	return hasOp(cs, "sf")
}

func oracle(cs *Case, r result) []finding {
	var fs []finding
	fail := func(what, got, want string) {
		fs = append(fs, finding{What: what, Got: got, Want: want})
	}
	if cs.Class == "raw" {
		got := r.res.Out
		if r.status != 0 {
			got += fmt.Sprintf("!status: %d", r.status)
		}
		if r.errd {
			got += "!error: " + r.res.Err
		}
		if got != cs.Expect {
			fail("raw program: "+cs.Note, got, cs.Expect)
		}
		return fs
	}
	if cs.Sp != nil {
		return specialOracle(cs, r)
	}
	evs := r.evs
	if emitOnly(cs) {
		want, fatal := flatExpected(cs)
		got := canonEvents(evs)
		if got != want {
			fail("NR/FNR/FILENAME/operand order/var=value timing/range selection differ from the flat specification", got, want)
		}
		if fatal != r.errd {
			fail("missing-file operand: error expected iff an operand names a file that does not exist", fmt.Sprint(r.errd), fmt.Sprint(fatal))
		}
		return fs
	}
	fsTouched := touchesFS(cs)
	fnTouched := hasOp(cs, "sf")
	hasTick := len(cs.Rules) > 0 && cs.Rules[0].Pat == "a" && len(cs.Rules[0].Body) == 1 && cs.Rules[0].Body[0].K == "e" && cs.Rules[0].Body[0].N == 0
	// ---- position clause: NR = n means the n-th record of the operand list's stream is the newest one taken, whoever took it
	// and in whatever block — after exit in BEGIN or in a rule, after next, inside END, the stream continues where it stopped
	var pos []srec
	if walkFixed(cs) {
		pos = posStream(cs.Args, cs.Stdin, cs.Files)
	}
	fnFree := !filenameAssigned(cs)
	// ---- dynamic clauses
	ticks, gl := 0, 0
	exits := 0
	lastExit := 0
	var lastE *Ev
	dirty := false // $0 may have changed since lastE
	seenEnd := false
	for i := range evs {
		e := &evs[i]
		switch e.Kind {
		case "E":
			if e.Tag == 0 {
				ticks++
				dirty = false
			}
			if hasTick || (len(cs.Rules) == 0 && zone(e.Tag) == 1) {
				if e.NR != ticks+gl {
					fail("nr_counts: NR is not (records taken by the main loop) + (successful getline and getline var)",
						fmt.Sprintf("event %d: NR=%d", i, e.NR), fmt.Sprintf("%d+%d", ticks, gl))
				}
			}
			if pos != nil {
				// fresh: the newest input action was a successful take (a record of the main loop traced by the tick rule, or
				// the getline / getline var right before this event); otherwise an unsuccessful look for more input may have
				// opened later, empty inputs: FNR = 0 under their name
				var took *Ev
				if i > 1 && evs[i-1].Kind == "G" && evs[i-1].Ret == 1 && evs[i-1].Tag <= 1 && evs[i-2].Kind == "E" &&
					zone(evs[i-2].Tag) == zone(e.Tag) && e.Tag != 0 && (hasTick || zone(e.Tag) != 0) {
					took = &evs[i-1] // an emit / getline / emit triple inside one block: the main loop took no record in between
				}
				fresh := (hasTick && e.Tag == 0) || took != nil
				switch {
				case e.NR > len(pos):
					fail("position: NR exceeds the number of records the operand list delivers", evString(*e), fmt.Sprint(len(pos)))
				case e.NR == 0:
					if e.FNR != 0 {
						fail("position: FNR without any record taken", evString(*e), "")
					}
				default:
					w := pos[e.NR-1]
					if e.FNR != w.FNR && (fresh || e.FNR != 0) {
						fail("position: FNR is not the position of record NR in its input (the record stream must continue exactly where it stopped, "+
							"also after exit / next and in END)", evString(*e), fmt.Sprintf("record %d of the stream is %s:%d", e.NR, w.File, w.FNR))
					}
					if fresh && fnFree && e.Filename != w.File {
						fail("position: FILENAME is not the input record NR came from", evString(*e), fmt.Sprintf("record %d of the stream is %s:%d", e.NR, w.File, w.FNR))
					}
					if ((hasTick && e.Tag == 0) || (took != nil && took.Tag == 0)) && e.Line != w.Line {
						fail("position: $0 is not record NR of the operand list's stream", evString(*e), fmt.Sprintf("%q", w.Line))
					}
					if took != nil && took.Tag == 1 && e.Vars[0] != w.Line && e.Vars[1] != w.Line && e.Vars[2] != w.Line {
						fail("position: getline var did not deliver record NR of the operand list's stream", evString(*e), fmt.Sprintf("%q", w.Line))
					}
				}
			}
			if !fsTouched && e.NF != nfOf(e.Line) {
				fail("NF does not belong to $0", fmt.Sprintf("event %d: NF=%d $0=%q", i, e.NF, e.Line), "")
			}
			if exits > 0 && e.Tag < 900 {
				fail("exit: an action ran after exit (only END may)", fmt.Sprintf("event %d tag %d", i, e.Tag), "")
			}
			if e.Tag >= 900 && !seenEnd {
				seenEnd = true
				if hasTick && lastE != nil && !dirty && e.Tag == 900 && (e.Line != lastE.Line || e.NF != lastE.NF) {
					fail("END: $0/NF are not those of the last record", fmt.Sprintf("%q/%d", e.Line, e.NF), fmt.Sprintf("%q/%d", lastE.Line, lastE.NF))
				}
			}
			lastE = e
		case "P":
			if exits > 0 {
				fail("exit: a rule printed after exit", fmt.Sprintf("event %d", i), "")
			}
		case "G":
			if e.Ret == 1 && (e.Tag == 0 || e.Tag == 1) {
				gl++
			}
			if e.Ret == 1 && (e.Tag == 0 || e.Tag == 2) {
				dirty = true
			}
			if e.Ret < -1 || e.Ret > 1 {
				fail("getline returned something other than 1, 0, -1", fmt.Sprint(e.Ret), "")
			}
			// frame conditions on an emit / getline / emit triple (nothing else can run in between when a tick rule leads)
			if hasTick && i > 0 && i+1 < len(evs) && evs[i-1].Kind == "E" && evs[i+1].Kind == "E" {
				a, b := evs[i-1], evs[i+1]
				if b.Tag != 0 && zone(a.Tag) == zone(b.Tag) { // otherwise the main loop read a record in between
					if msg := getlineFrame(e.Tag, e.Ret, a, b, fnTouched); msg != "" {
						fail("getline form "+fmt.Sprint(e.Tag)+": "+msg, evString(b), evString(a))
					}
				}
			}
		case "X":
			switch e.Tag {
			case 1, 2:
				if hasTick && i+1 < len(evs) {
					n := evs[i+1]
					okNext := (n.Kind == "E" && n.Tag == 0) || (n.Kind == "E" && n.Tag >= 900)
					if !okNext {
						fail("next/nextfile did not abandon the record: the following event is neither a new record nor END", evString(n), "")
					}
					if e.Tag == 2 && n.Kind == "E" && n.Tag == 0 && n.FNR != 1 {
						fail("nextfile: the next record is not the first of a file", evString(n), "")
					}
				}
			case 3:
				exits++
				if e.Ret >= 0 {
					lastExit = e.Ret
				}
				if exits == 1 && !seenEnd {
					if cs.HasEnd && len(cs.End) > 0 && cs.End[0].K == "e" {
						if i+1 >= len(evs) || evs[i+1].Kind != "E" || evs[i+1].Tag != cs.End[0].N {
							fail("exit outside END did not run END next", "", "")
						}
					} else if i+1 < len(evs) {
						fail("exit without END: something ran afterwards", evString(evs[i+1]), "")
					}
				} else if i+1 < len(evs) {
					fail("exit inside END: something ran afterwards", evString(evs[i+1]), "")
				}
			}
		}
	}
	if !r.errd && r.status != lastExit {
		fail("exit status is not the last exit value", fmt.Sprint(r.status), fmt.Sprint(lastExit))
	}
	return fs
}

// zone: 0 = a main rule, 1 = BEGIN (tags 800-899), 2 = END (tags >= 900)
func zone(tag int) int {
	switch {
	case tag >= 900:
		return 2
	case tag >= 800:
		return 1
	}
	return 0
}

func evString(e Ev) string { return canonEvents([]Ev{e}) }

// getlineFrame: what a getline of the given form may change between the emit before (a) and the emit after (b)
// (fnTouched: the program itself assigns FILENAME somewhere, possibly between the two emits — FILENAME is then not compared)
func getlineFrame(form, ret int, a, b Ev, fnTouched bool) string {
	if fnTouched {
		b.Filename = a.Filename
	}
	sameRec := a.Line == b.Line && a.NF == b.NF
	samePos := a.NR == b.NR && a.FNR == b.FNR && a.Filename == b.Filename
	changedVars := 0
	for i := range a.Vars {
		if a.Vars[i] != b.Vars[i] {
			changedVars++
		}
	}
	advanced := b.NR == a.NR+1 && ((b.FNR == a.FNR+1 && b.Filename == a.Filename) || b.FNR == 1)
	switch form {
	case 0:
		if ret == 1 && !advanced {
			return "a successful getline must advance NR by one and FNR by one (or restart it at 1)"
		}
		if ret != 1 && (!sameRec || a.NR != b.NR) {
			return "an unsuccessful getline must leave $0, NF and NR alone"
		}
	case 1:
		if ret == 1 && !advanced {
			return "a successful getline var must advance NR by one and FNR by one (or restart it at 1)"
		}
		if !sameRec {
			return "getline var must not touch $0 or NF"
		}
		if ret != 1 && a.NR != b.NR {
			return "an unsuccessful getline var must leave NR alone"
		}
	case 2:
		if !samePos {
			return "getline < file must leave NR, FNR and FILENAME alone"
		}
		if changedVars != 0 {
			return "getline < file must not touch variables"
		}
		if ret != 1 && !sameRec {
			return "an unsuccessful getline < file must leave $0 alone"
		}
	case 3:
		if !samePos {
			return "getline var < file must leave NR, FNR and FILENAME alone"
		}
		if !sameRec {
			return "getline var < file must not touch $0 or NF"
		}
		if changedVars > 1 || (ret != 1 && changedVars != 0) {
			return "getline var < file may change only its variable, and only on success"
		}
	}
	return ""
}

// ---- raw programs (outside the rule language) with hand-derived expectations ---------------------------------------------------

func rawCases(pool map[string][]string) []*Case {
	raw := func(note, awk string, args, stdin []string, expect string) *Case {
		return &Case{Class: "raw", Note: note, Awk: awk, Args: args, Stdin: stdin, Files: pool, Expect: expect}
	}
	return []*Case{
		// F02 (fixed): getline into a field sets that field only, NR untouched, the index is popped
		raw("F02 getline $2 < file", `{ getline $2 < "k1"; print; print NF, NR }`, nil, []string{"a b c"}, "a p q c\n3 1\n"),
		raw("F02 getline $2 < file inside a function, stack intact", `function f(a, b) { getline $2 < "k1"; return 5 } { print 1 + f(10, 20); print }`, nil, []string{"a b c"}, "6\na p q c\n"),
		raw("getline $3 from the main input counts in NR", `NR == 1 { getline $3; print; print NR, FNR, NF }`, []string{"k2"}, nil, "a x b\n2 2 3\n"),
		// next / nextfile executed by a function that is called from a PATTERN (Gc11-1, repaired): regression cases
		raw("next in a function called from a pattern", `function f() { if ($0 ~ /b/) next; return 1 } f() { print NR, $0 } END { print "end", NR }`, []string{"k2"}, nil,
			"1 a x\n4 y\nend 5\n"),
		raw("nextfile in a function called from a pattern", `function f() { if (FNR == 2) nextfile; return 1 } f() { print FILENAME, FNR, $0 } END { print "end", NR }`, []string{"k2", "k1"}, nil,
			"k2 1 a x\nk1 1 p q\nend 4\n"),
		raw("next in a function called from a range pattern", `function f() { if ($0 ~ /y/) next; return 0 } /b/, f() { print NR, $0 } END { print "end", NR }`, []string{"k2"}, nil,
			"2 b\n3 a b\n5 b x\nend 5\n"),
		raw("next in the end pattern on the very record that opened the range: the range stays open", `function f() { if ($0 ~ /y/) next; return 0 } /y/, f() { print NR, $0 } END { print "end", NR }`, []string{"k2"}, nil,
			"5 b x\nend 5\n"),
		raw("nextfile in the begin pattern: the range is not opened, the file is abandoned", `function f() { if (FNR == 2) nextfile; return $0 ~ /a/ } f(), /x/ { print FILENAME, FNR, $0 } END { print "end", NR }`, []string{"k2", "k1", "k2"}, nil,
			"k2 1 a x\nk2 1 a x\nend 6\n"),
		// exit from a function called from a pattern is handled
		raw("exit in a function called from a pattern", `function f() { if (NR == 3) exit 4; return 1 } f() { print NR } END { print "end", $0 }`, []string{"k2"}, nil, "1\n2\nend a b\n!status: 4"),
		// uninitialised FILENAME in BEGIN, getline in BEGIN sets it
		raw("FILENAME in BEGIN", `BEGIN { printf "[%s]", FILENAME; getline; print FILENAME, NR, FNR, $0 }`, []string{"v0=1", "k1"}, nil, "[]k1 1 1 p q\n"),
		// while-getline loops: from a file (NR untouched) and from the main input inside the main loop
		raw("while getline < file", `BEGIN { while ((getline line < "k2") > 0) n++; print n, NR }`, nil, nil, "5 0\n"),
		raw("while getline drains the main input", `NR == 1 { while ((getline x) > 0) last = x; print NR, FNR, FILENAME, $0, last }`, []string{"k1", "k2"}, nil, "7 5 k2 p q b x\n"),
		// getline < "-" reads stdin through a scanner of its own, NR untouched (in a history: every execution reads ITS stdin)
		raw("while getline < \"-\" reads stdin", `BEGIN { while ((getline l < "-") > 0) { n++; last = l }; print n + 0, NR, last }`, nil, []string{"s1", "s2 s3"}, "2 0 s2 s3\n"),
		raw("getline < \"-\" stops in the middle of stdin", `BEGIN { getline l < "-"; print l, NR; exit 2 }`, nil, []string{"s1", "s2"}, "s1 0\n!status: 2"),
	}
}
