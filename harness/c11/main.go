package main

// C11 — input bookkeeping: NR, FNR, FILENAME, operands, getline, ranges, next, exit.
//
// The real interpreter runs generated AWK programs through the public API on REAL temporary files (operands in
// Config.Args, Config.Stdin); every action traces `NR FNR FILENAME $0 NF v0 v1 v2` plus markers for getline return
// values and next / nextfile / exit.
//   oracle (no model in the loop): oracle.go — the clauses of the property evaluated on the trace alone
//   correspondence: the same world + rules executed by the Lean machine (drv_c11), traces compared event by event

import (
	"encoding/json"
	"fmt"
	"os"
	"regexp"
	"strings"

	"github.com/benhoyt/goawk/interp"
	"github.com/benhoyt/goawk/parser"

	"verifharness/vh"
)

func main() { vh.Main("C11", runC11) }

type result struct {
	ok     bool // the program parsed and the run did not panic
	parse  string
	res    vh.RunResult
	evs    []Ev
	errd   bool // the run returned an error
	status int
}

func runCase(cs *Case) result {
	src := cs.Awk
	prog, err := parser.ParseProgram([]byte(src), nil)
	if err != nil {
		return result{parse: err.Error()}
	}
	return mkResult(vh.ExecProg(prog, cs.config()))
}

// config: the interp.Config of one execution of the case (a new one each time: the readers are consumed)
func (cs *Case) config() *interp.Config {
	cfg := &interp.Config{
		Stdin: strings.NewReader(joinRecs(cs.Stdin)),
		Args:  append([]string(nil), cs.Args...),
		Vars:  append([]string(nil), cs.Vars...),
		Argv0: "awk",
	}
	if cs.Sp != nil {
		cfg.Stdin = strings.NewReader(cs.Sp.Stdin)
		cfg.Vars = append([]string(nil), cs.Sp.Vars...)
	}
	return cfg
}

func mkResult(res vh.RunResult) result {
	r := result{ok: res.Panic == "", res: res, errd: res.Err != "", status: res.Status}
	r.evs = parseTrace(res.Out)
	return r
}

func joinRecs(rs []string) string {
	if len(rs) == 0 {
		return ""
	}
	return strings.Join(rs, "\n") + "\n"
}

func runC11(c *vh.Ctx) {
	c.Rule("a case = (operand list over pool files / missing file / \"-\" / \"\" / var=value, stdin records, BEGIN ops, rules with " +
		"always|predicate|range patterns and op-list bodies, END ops) rendered as an AWK program with random syntactic embedding " +
		"(functions, loops, expression positions, getline target kinds, pipes); classes: trace (emit-only rules), range, argv (BEGIN edits " +
		"ARGV/ARGC), mixed (getline forms, close, next/nextfile/exit nested in calls and loops), long-ctl / long-getline (1500-5000 records over " +
		"3-4 files, early exits from inside user functions on most records, files closed and reopened thousands of times), corpus; non-trivial = at least two records " +
		"were traced and the case has two operands or a getline or a control statement or a range. " +
		"history = one program of any of these classes (also special, raw corpus, long) on ONE interp.Interpreter performing 2-5 executions " +
		"(Execute / ExecuteContext with background, live and already-cancelled contexts; own operand list, stdin and Config.Vars each; ResetVars " +
		"before an execution or every readable variable pinned by Vars); every execution is compared with the same execution alone on a fresh " +
		"interpreter, with the flat specification / trace clauses and with the Lean machine from its initial state; non-trivial = at least two " +
		"of its executions are non-trivial; distribution hist:previous-execution-ended:<how>|left-open:<what>. " +
		"shape = a program shape (each subset of BEGIN [with 0-3 getlines, each observed] / no rule | 1-2 idle rules `{ }`, `1 { }`, never-true pattern, " +
		"empty-action or never-opening range, bare pattern | the tracing rule / END [observing FILENAME NR FNR NF $0 and every field, sometimes reading on or " +
		"rebuilding $0] — also BEGIN-only and functions-only) over an operand list of 0-3 inputs (raw files, -, empty, missing) with var=value operands " +
		"for FS RS INPUTMODE OFS NF FILENAME NR FNR v0 before, between and AFTER the inputs, against the flat reference evaluator; non-trivial = a block " +
		"observed the bookkeeping after at least one record was taken; distribution sp:shape:<blocks>, sp:idle-rule:<kind>, sp:operand-after-last-input:<var>. " +
		"resume = 2-4 inputs (files, stdin, empty, missing, assignments between) x the way the main loop is left (exit in BEGIN after 0-4 getlines, exit in a " +
		"rule at record 1-6 possibly inside a function, nextfile possibly on the last file, next, missing operand, end of input) x END performing 1-5 " +
		"un-redirected getline / getline var, each observed (sometimes BEGIN too), against the flat reference evaluator incl. the exit status; distribution " +
		"sp:main-loop-left-by:<how>. shape-rl / resume-rl = the same two families in the rule language (single-byte FS): flat specification or dynamic + " +
		"position clauses, and the Lean machine event by event")

	// the shared pool of real files, in a scratch directory that becomes the working directory
	dir, err := os.MkdirTemp("", "c11-")
	if err != nil {
		panic(err)
	}
	defer os.RemoveAll(dir)
	if err := os.Chdir(dir); err != nil {
		panic(err)
	}
	pool := makePool(c)
	for name, recs := range pool {
		if err := os.WriteFile(name, []byte(joinRecs(recs)), 0o644); err != nil {
			panic(err)
		}
	}

	var cases []*Case
	if c.ReplayFile != "" {
		// replay one recorded case: {"failure": {"case": …}} as ./check writes it, or a bare case; its own files are written out
		cs, err := loadReplay(c.ReplayFile)
		if err != nil {
			c.HarnessError = "cannot load replay: " + err.Error()
			return
		}
		for name, recs := range cs.Files {
			os.WriteFile(name, []byte(joinRecs(recs)), 0o644)
		}
		if cs.Sp != nil {
			for name, content := range cs.Sp.Raw {
				os.WriteFile(name, []byte(content), 0o644)
			}
		}
		if cs.Hist != nil {
			runHistories(c, []*Case{cs})
			return
		}
		cases = append(cases, cs)
	} else {
		cases = append(cases, corpusCases(pool)...)
	}
	g := &gen{c: c, pool: pool, names: sortedKeys(pool)}
	if c.ReplayFile != "" {
		g = nil
	}
	var hists []*Case
	var histRaw map[string]string
	for i := 0; g != nil && i < c.N(500, 6000); i++ {
		cases = append(cases, g.traceCase())
	}
	for i := 0; g != nil && i < c.N(500, 6000); i++ {
		cases = append(cases, g.rangeCase())
	}
	for i := 0; g != nil && i < c.N(300, 4000); i++ {
		cases = append(cases, g.argvCase())
	}
	for i := 0; g != nil && i < c.N(1500, 25000); i++ {
		cases = append(cases, g.mixedCase())
	}
	if g != nil {
		// special variables assigned by operands / -v / the program (special.go); raw files of their own
		raw := makeRawPool(g)
		for name, content := range raw {
			if err := os.WriteFile(name, []byte(content), 0o644); err != nil {
				panic(err)
			}
		}
		histRaw = raw
		cases = append(cases, spCorpus(raw)...)
		for i := 0; i < c.N(1200, 15000); i++ {
			cases = append(cases, g.specialCase(raw))
		}
	}
	if g != nil {
		// long runs: inputs of 1500-5000 records over 3-4 files
		lp := longPool(c)
		for name, recs := range lp {
			if err := os.WriteFile(name, []byte(joinRecs(recs)), 0o644); err != nil {
				panic(err)
			}
		}
		for i := 0; i < c.N(8, 40); i++ {
			cases = append(cases, g.longCtlCase(lp))
		}
		for i := 0; i < c.N(4, 16); i++ {
			cases = append(cases, g.longGetlineCase(lp))
		}
		// histories: one interp.Interpreter, several executions (history.go); generated after every other stream so that the
		// cases above are the same as before for a given seed
		hists = g.histories(histRaw, lp)
		// program shapes and resumed reading (shape.go), over the raw files of class special; generated last
		cases = append(cases, shCorpus(histRaw)...)
		for i := 0; i < c.N(1500, 20000); i++ {
			cases = append(cases, g.shapeCase(histRaw))
		}
		for i := 0; i < c.N(1200, 15000); i++ {
			cases = append(cases, g.resumeCase(histRaw))
		}
		for i := 0; i < c.N(600, 8000); i++ {
			cases = append(cases, g.shapeRLCase())
		}
		for i := 0; i < c.N(600, 8000); i++ {
			cases = append(cases, g.resumeRLCase())
		}
	}
	for _, cs := range cases {
		if cs.Awk == "" {
			cs.Awk = cs.awk(false)
		}
	}

	results := make([]result, len(cases))
	vh.Parallel(len(cases), func(i int) { results[i] = runCase(cases[i]) })

	// implementation-side oracle
	for i, cs := range cases {
		r := results[i]
		c.OracleCase()
		c.Hit("class:" + cs.Class)
		hitCase(c, cs, r)
		key := ""
		if cs.Sp != nil {
			key = cs.specialKey()
		} else {
			key = cs.leanReq() + "|" + fmt.Sprint(cs.Variant)
		}
		c.Eval(key, nontrivial(cs, r))
		if i%997 == 0 && !strings.HasPrefix(cs.Class, "long") {
			c.Sample(map[string]interface{}{"class": cs.Class, "args": cs.Args, "awk": cs.Awk, "trace": canonEvents(r.evs)})
		}
		if r.parse != "" {
			c.HarnessError = "generated program does not parse: " + r.parse + "\n" + cs.Awk
			return
		}
		if !r.ok {
			c.Fail(vh.Failure{Kind: "oracle", What: "the interpreter panicked: " + r.res.Panic, Case: cs})
			continue
		}
		for _, f := range oracle(cs, r) {
			f.Case = cs
			f.Kind = "oracle"
			f.Finding = classify(cs, f.What)
			c.Fail(f)
		}
	}

	// correspondence with the Lean machine
	if c.HasLean() {
		var reqs []string
		var idx []int
		for i, cs := range cases {
			if results[i].ok && results[i].parse == "" && !cs.noModel() {
				reqs = append(reqs, cs.leanReq())
				idx = append(idx, i)
			}
		}
		ans := c.LeanBatch(reqs)
		for k, a := range ans {
			i := idx[k]
			r := results[i]
			c.Trace()
			okw := "ok"
			if r.errd {
				okw = "err"
			}
			got := strings.TrimRight(fmt.Sprintf("%s %d %s", okw, r.status, canonEvents(r.evs)), " ")
			if r.errd {
				// the Go API returns status 0 with an error; the model keeps the last exit value
				got = strings.TrimRight("err "+canonEvents(r.evs), " ")
				a = dropStatus(a)
			}
			if a != got {
				c.Fail(vh.Failure{Kind: "correspondence", What: "Lean main-loop machine and the real interpreter produce different traces",
					Finding: classify(cases[i], "corr"), Case: cases[i], Got: got, Want: a})
			}
		}
	}

	runHistories(c, hists)
}

func loadReplay(path string) (*Case, error) {
	b, err := os.ReadFile(path)
	if err != nil {
		return nil, err
	}
	var wrap struct {
		Failure struct {
			Case *Case `json:"case"`
		} `json:"failure"`
	}
	if err := json.Unmarshal(b, &wrap); err == nil && wrap.Failure.Case != nil {
		return wrap.Failure.Case, nil
	}
	cs := &Case{}
	if err := json.Unmarshal(b, cs); err != nil {
		return nil, err
	}
	if cs.Class == "" {
		return nil, fmt.Errorf("no case in %s", path)
	}
	return cs, nil
}

func dropStatus(a string) string {
	parts := strings.SplitN(a, " ", 3)
	if len(parts) >= 2 && parts[0] == "err" {
		if len(parts) == 3 {
			return "err " + parts[2]
		}
		return "err"
	}
	return a
}

// reSpTrace: a `T<tag> FILENAME NR FNR NF […` line of the special / shape / resume programs; group 1 = NR
var reSpTrace = regexp.MustCompile(`^T\d+ \S* (-?\d+) -?\d+ \d+ \[`)

func nontrivial(cs *Case, r result) bool {
	if cs.Sp != nil {
		if cs.Sp.Fam != "" { // a block observed the bookkeeping after at least one record was taken
			for _, l := range strings.Split(r.res.Out, "\n") {
				if m := reSpTrace.FindStringSubmatch(l); m != nil && m[1] != "0" {
					return true
				}
			}
			return false
		}
		return strings.Count(r.res.Out, "\nT") >= 1 && len(spFeatures(cs)) > 0
	}
	n := 0
	for _, e := range r.evs {
		if e.Kind == "E" || e.Kind == "P" {
			n++
		}
	}
	if n < 2 {
		return false
	}
	f := features(cs)
	return len(cs.Args) >= 2 || f["getline"] || f["ctl"] || f["range"]
}

func features(cs *Case) map[string]bool {
	f := map[string]bool{}
	var walk func(ops []Op, depth int)
	walk = func(ops []Op, depth int) {
		for _, o := range ops {
			switch o.K {
			case "g", "gv", "gf", "gvf":
				f["getline"] = true
				f["op:"+o.K] = true
				if depth > 0 {
					f["getline-nested"] = true
				}
			case "n", "nf", "x", "x-":
				f["ctl"] = true
				f["op:"+o.K] = true
				if depth > 0 {
					f["ctl-nested"] = true
				}
			case "sa", "sc":
				f["argv-edit"] = true
			case "cl":
				f["op:cl"] = true
			case "sf", "sfs":
				f["op:"+o.K] = true
			case "c", "l", "i":
				f["op:"+o.K] = true
				walk(o.Body, depth+1)
			}
		}
	}
	walk(cs.Begin, 0)
	if len(cs.Begin) > 0 {
		f["begin"] = true
	}
	for _, r := range cs.Rules {
		if r.Pat == "r" {
			f["range"] = true
		}
		if r.Raise != "" {
			f["pattern-raises:"+r.Raise+"@"+r.Pat+r.RaiseAt] = true
			f["ctl"] = true
		}
		if r.NoBody {
			f["nobody"] = true
		}
		walk(r.Body, 0)
	}
	if cs.HasEnd {
		f["end"] = true
		walk(cs.End, 0)
	}
	for _, a := range cs.Args {
		switch {
		case a == "":
			f["arg:empty"] = true
		case a == "-":
			f["arg:dash"] = true
		case strings.HasPrefix(a, "FILENAME=") || strings.HasPrefix(a, "FS="):
			f["arg:assign-special"] = true
		case strings.Contains(a, "="):
			f["arg:assign"] = true
		default:
			if _, ok := cs.Files[a]; ok {
				f["arg:file"] = true
			} else {
				f["arg:missing"] = true
			}
		}
	}
	if len(cs.Args) == 0 {
		f["arg:none"] = true
	}
	return f
}

func hitCase(c *vh.Ctx, cs *Case, r result) {
	for k := range spFeatures(cs) {
		c.Hit("sp:" + k)
	}
	for k := range features(cs) {
		c.Hit("has:" + k)
	}
	c.Hit(fmt.Sprintf("operands:%d", min(len(cs.Args), 6)))
	c.Hit(fmt.Sprintf("rules:%d", min(len(cs.Rules), 5)))
	n := len(r.evs)
	switch {
	case n == 0:
		c.Hit("events:0")
	case n < 5:
		c.Hit("events:1-4")
	case n < 20:
		c.Hit("events:5-19")
	default:
		c.Hit("events:20+")
	}
	if r.errd {
		c.Hit("run:error")
	} else if r.status != 0 {
		c.Hit("run:exit-nonzero")
	} else {
		c.Hit("run:ok")
	}
}

// classify names the known-finding class whose predicate accepts this failing case, or "". C11 has no recorded finding
// (Gc11-1 is repaired: its three witnesses are plain regression cases of the corpus), so nothing is ever accepted.
func classify(cs *Case, what string) string { return "" }
