package main

// The rule language shared with the Lean model (GoawkModel/C11.lean), its rendering as a line-protocol request and as
// an AWK program (with syntactic variety the model does not see: functions, loops, expression positions, getline
// target kinds), and the parser of the trace the AWK program prints.

import (
	"fmt"
	"math/rand"
	"regexp"
	"strconv"
	"strings"

	"verifharness/vh"
)

type Cond struct {
	K string `json:"k"` // t f h nr fnr nrge not and veq
	N int    `json:"n,omitempty"`
	M int    `json:"m,omitempty"`
	S string `json:"s,omitempty"`
	A *Cond  `json:"a,omitempty"`
	B *Cond  `json:"b,omitempty"`
}

type Op struct {
	K    string `json:"k"` // e n nf x x- g gv gf gvf c l i sa sc cl sf (FILENAME = S) sfs (FS = S)
	N    int    `json:"n,omitempty"`
	V    int    `json:"v,omitempty"`
	F    string `json:"f,omitempty"`
	S    string `json:"s,omitempty"`
	C    *Cond  `json:"c,omitempty"`
	Body []Op   `json:"body,omitempty"`
}

type Rule struct {
	Pat    string `json:"pat"` // a p r
	B      *Cond  `json:"b,omitempty"`
	E      *Cond  `json:"e,omitempty"`
	// a pattern expression that calls a function executing next ("n") / nextfile ("nf") when W holds, else returning the
	// condition: RaiseAt "b" = the single / begin pattern, "e" = the end pattern of a range
	Raise   string `json:"raise,omitempty"`
	RaiseAt string `json:"raise_at,omitempty"`
	W       *Cond  `json:"w,omitempty"`
	NoBody bool   `json:"nobody,omitempty"`
	Body   []Op   `json:"body,omitempty"`
}

type Case struct {
	Class   string              `json:"class"`
	Args    []string            `json:"args"`
	Stdin   []string            `json:"stdin"`
	Files   map[string][]string `json:"files"` // the files the case may touch (from the shared pool)
	Begin   []Op                `json:"begin,omitempty"`
	Rules   []Rule              `json:"rules"`
	HasEnd  bool                `json:"has_end"`
	End     []Op                `json:"end,omitempty"`
	Variant int64               `json:"variant"` // seed of the AWK rendering choices
	Awk     string              `json:"awk,omitempty"`
	Note    string              `json:"note,omitempty"`   // raw cases: what is being probed
	Expect  string              `json:"expect,omitempty"` // raw cases: expected output (+ "!status: n", "!error: …")
	Sp      *SpProg             `json:"sp,omitempty"`     // class "special" (special.go): its own program shape and raw files
	Vars    []string            `json:"vars,omitempty"`   // Config.Vars of the execution: name, value, … (v0-v2, FS, FILENAME)
	// class "history" (history.go): ONE interp.Interpreter performs the executions of Hist in order; Of is the class of the
	// shared program (the fields above describe it; Args / Stdin / Vars are then those of the execution being looked at)
	Of   string   `json:"of,omitempty"`
	Hist []*HExec `json:"hist,omitempty"`
	At   int      `json:"failing_execution,omitempty"` // 1-based, in a reported failure
}

// progClass: the class of the program (of a history: of the program its executions share)
func (cs *Case) progClass() string {
	if cs.Of != "" {
		return cs.Of
	}
	return cs.Class
}

// noModel: raw AWK programs are outside the rule language of the Lean machine
func (cs *Case) noModel() bool { return cs.Class == "raw" || cs.Sp != nil }

var varNames = []string{"v0", "v1", "v2"}

// ---- Lean request --------------------------------------------------------------------------------------------------

func condLean(c *Cond, b *strings.Builder) {
	switch c.K {
	case "t", "f":
		b.WriteString(c.K + " ")
	case "h", "nr", "fnr", "nrge":
		fmt.Fprintf(b, "%s %d ", c.K, c.N)
	case "nrmod":
		fmt.Fprintf(b, "nrmod %d %d ", c.N, c.M)
	case "not":
		b.WriteString("not ")
		condLean(c.A, b)
	case "and":
		b.WriteString("and ")
		condLean(c.A, b)
		condLean(c.B, b)
	case "veq":
		fmt.Fprintf(b, "veq %d %s ", c.N, vh.HxS(c.S))
	default:
		panic("bad cond " + c.K)
	}
}

func patCondLean(r Rule, at string, c *Cond, b *strings.Builder) {
	if r.Raise != "" && r.RaiseAt == at {
		b.WriteString("q " + r.Raise + " ")
		condLean(r.W, b)
	}
	condLean(c, b)
}

func opsLean(ops []Op, b *strings.Builder) {
	for _, o := range ops {
		switch o.K {
		case "e":
			fmt.Fprintf(b, "e %d ", o.N)
		case "n", "nf", "g":
			b.WriteString(o.K + " ")
		case "x":
			fmt.Fprintf(b, "x %d ", o.N)
		case "x-":
			b.WriteString("x - ")
		case "gv":
			fmt.Fprintf(b, "gv %d ", o.V)
		case "gf":
			fmt.Fprintf(b, "gf %s ", vh.HxS(o.F))
		case "gvf":
			fmt.Fprintf(b, "gvf %d %s ", o.V, vh.HxS(o.F))
		case "c":
			b.WriteString("c ")
			opsLean(o.Body, b)
		case "l":
			fmt.Fprintf(b, "l %d ", o.N)
			opsLean(o.Body, b)
		case "i":
			b.WriteString("i ")
			condLean(o.C, b)
			opsLean(o.Body, b)
		case "sa":
			fmt.Fprintf(b, "sa %d %s ", o.N, vh.HxS(o.S))
		case "sc":
			fmt.Fprintf(b, "sc %d ", o.N)
		case "cl":
			fmt.Fprintf(b, "cl %s ", vh.HxS(o.F))
		case "sf", "sfs":
			fmt.Fprintf(b, "%s %s ", o.K, vh.HxS(o.S))
		default:
			panic("bad op " + o.K)
		}
	}
	b.WriteString("; ")
}

func hexList(xs []string, b *strings.Builder) {
	fmt.Fprintf(b, "%d ", len(xs))
	for _, x := range xs {
		b.WriteString(vh.HxS(x) + " ")
	}
}

// leanReq: the request for the Lean machine. leanReqV = the `runv` form (Config.Vars applied before BEGIN; the answer is
// prefixed with what the run left open), used by the histories stream.
func (cs *Case) leanReq() string {
	if len(cs.Vars) > 0 {
		panic("a case with Config.Vars needs leanReqV")
	}
	return cs.leanReq1(false)
}

func (cs *Case) leanReqV() string { return cs.leanReq1(true) }

func (cs *Case) leanReq1(withVars bool) string {
	var b strings.Builder
	if withVars {
		fmt.Fprintf(&b, "runv 100000 I %d ", len(cs.Vars)/2)
		for _, x := range cs.Vars {
			b.WriteString(vh.HxS(x) + " ")
		}
		b.WriteString("A ")
	} else {
		b.WriteString("run 100000 A ")
	}
	hexList(cs.Args, &b)
	b.WriteString("S ")
	hexList(cs.Stdin, &b)
	names := sortedKeys(cs.Files)
	fmt.Fprintf(&b, "F %d ", len(names))
	for _, n := range names {
		b.WriteString(vh.HxS(n) + " ")
		hexList(cs.Files[n], &b)
	}
	b.WriteString("V ")
	hexList(varNames, &b)
	b.WriteString("B ")
	opsLean(cs.Begin, &b)
	fmt.Fprintf(&b, "R %d ", len(cs.Rules))
	for _, r := range cs.Rules {
		switch r.Pat {
		case "a":
			b.WriteString("a ")
		case "p":
			b.WriteString("p ")
			patCondLean(r, "b", r.B, &b)
		case "r":
			b.WriteString("r ")
			patCondLean(r, "b", r.B, &b)
			patCondLean(r, "e", r.E, &b)
		}
		if r.NoBody {
			b.WriteString("0 ")
		} else {
			b.WriteString("1 ")
			opsLean(r.Body, &b)
		}
	}
	if cs.HasEnd {
		b.WriteString("E 1 ")
		opsLean(cs.End, &b)
	} else {
		b.WriteString("E 0")
	}
	return strings.TrimRight(b.String(), " ")
}

// ---- AWK rendering ----------------------------------------------------------------------------------------------------

type awkGen struct {
	rng    *rand.Rand
	funcs  []string
	nfn    int
	nloop  int
	pipeOf map[string]bool // file name -> read it through `"cat f" | getline` instead of `getline < "f"`
	files  map[string][]string
	plain  bool // no variety (used by the oracle's fixed-shape programs)
}

func (g *awkGen) pick(n int) int {
	if g.plain {
		return 0
	}
	return g.rng.Intn(n)
}

func awkStr(s string) string { return strconv.Quote(s) } // operands and records are plain ASCII without backslashes

func (g *awkGen) cond(c *Cond) string {
	switch c.K {
	case "t":
		return "1"
	case "f":
		return "0"
	case "h":
		ch := string(rune(c.N))
		switch g.pick(3) {
		case 0:
			return fmt.Sprintf("index($0, %q) > 0", ch)
		case 1:
			return "/" + ch + "/"
		default:
			return fmt.Sprintf("$0 ~ %q", ch)
		}
	case "nr":
		return fmt.Sprintf("NR == %d", c.N)
	case "fnr":
		return fmt.Sprintf("FNR == %d", c.N)
	case "nrge":
		return fmt.Sprintf("NR >= %d", c.N)
	case "nrmod":
		return fmt.Sprintf("NR %% %d == %d", c.N, c.M)
	case "not":
		return "!(" + g.cond(c.A) + ")"
	case "and":
		return "(" + g.cond(c.A) + ") && (" + g.cond(c.B) + ")"
	case "veq":
		return fmt.Sprintf("(%s \"\") == %s", varNames[c.N], awkStr(c.S))
	}
	panic("bad cond")
}

// patCond renders a pattern expression; a raising one becomes a call of a function that executes next / nextfile
func (g *awkGen) patCond(r Rule, at string, c *Cond) string {
	if r.Raise == "" || r.RaiseAt != at {
		return g.cond(c)
	}
	g.nfn++
	name := fmt.Sprintf("pf%d", g.nfn)
	stmt := "next"
	if r.Raise == "nf" {
		stmt = "nextfile"
	}
	switch g.pick(3) {
	case 0:
		g.funcs = append(g.funcs, fmt.Sprintf("function %s() {\n  if (%s) %s\n  return (%s)\n}\n", name, g.cond(r.W), stmt, g.cond(c)))
	case 1: // the statement sits one call deeper and inside a loop
		g.funcs = append(g.funcs, fmt.Sprintf("function %s(  k) {\n  for (k = 0; k < 2; k++) if (%s) %s_in()\n  return (%s)\n}\nfunction %s_in() {\n  %s\n}\n",
			name, g.cond(r.W), name, g.cond(c), name, stmt))
	default:
		g.funcs = append(g.funcs, fmt.Sprintf("function %s(a) {\n  if (%s) { %s }\n  return (%s) ? a : 0\n}\n", name, g.cond(r.W), stmt, g.cond(c)))
		return "1 + " + name + "(1) > 1"
	}
	return name + "()"
}

func (g *awkGen) source(f string) (pre, post string) {
	if g.pipeOf[f] {
		return awkStr("cat "+f) + " | ", ""
	}
	return "", " < " + awkStr(f)
}

// getline renders one getline form; the statement leaves its return value in `r` and prints the `G` line.
func (g *awkGen) getline(o Op, ind string) string {
	pre, post := "", ""
	if o.K == "gf" || o.K == "gvf" {
		pre, post = g.source(o.F)
	}
	form := map[string]int{"g": 0, "gv": 1, "gf": 2, "gvf": 3}[o.K]
	report := fmt.Sprintf("%sprintf \"G %d %%d\\n\", r\n", ind, form)
	if o.K == "g" || o.K == "gf" {
		switch g.pick(3) {
		case 0:
			return ind + "r = (" + pre + "getline" + post + ")\n" + report
		case 1:
			return ind + "r = 0 + (" + pre + "getline" + post + ")\n" + report
		default:
			return ind + "if ((r = (" + pre + "getline" + post + ")) > 0) r = 1\n" + report
		}
	}
	v := varNames[o.V]
	switch g.pick(4) {
	case 0:
		return ind + "r = (" + pre + "getline " + v + post + ")\n" + report
	case 1: // local target inside a function (GetlineLocal)
		g.nfn++
		name := fmt.Sprintf("gl%d", g.nfn)
		g.funcs = append(g.funcs, fmt.Sprintf("function %s(  t, q) {\n  q = (%sgetline t%s)\n  if (q > 0) %s = t\n  return q\n}\n", name, pre, post, v))
		return ind + "r = " + name + "()\n" + report
	case 2: // array element target (GetlineArray)
		return ind + "r = (" + pre + "getline arr[\"k\"]" + post + ")\n" + ind + "if (r > 0) " + v + " = arr[\"k\"]\n" + report
	default: // inside an arithmetic expression
		return ind + "r = -1 + (1 + (" + pre + "getline " + v + post + "))\n" + report
	}
}

func (g *awkGen) ops(ops []Op, ind string) string {
	var b strings.Builder
	for _, o := range ops {
		switch o.K {
		case "e":
			if g.pick(4) == 0 {
				fmt.Fprintf(&b, "%sprintf \"E %%d %%d %%d %%s [%%s] %%d <%%s|%%s|%%s>\\n\", %d, NR, FNR, FILENAME, $0, NF, v0, v1, v2\n", ind, o.N)
			} else {
				fmt.Fprintf(&b, "%sem(%d)\n", ind, o.N)
			}
		case "n":
			b.WriteString(ind + "print \"X 1\"\n" + ind + "next\n")
		case "nf":
			b.WriteString(ind + "print \"X 2\"\n" + ind + "nextfile\n")
		case "x":
			fmt.Fprintf(&b, "%sprint \"X 3 %d\"\n%sexit %d\n", ind, o.N, ind, o.N)
		case "x-":
			b.WriteString(ind + "print \"X 3\"\n" + ind + "exit\n")
		case "g", "gv", "gf", "gvf":
			b.WriteString(g.getline(o, ind))
		case "c":
			g.nfn++
			name := fmt.Sprintf("fn%d", g.nfn)
			variant := g.pick(7)
			body := ""
			if variant != 3 && variant != 5 && variant != 6 {
				body = g.ops(o.Body, "  ")
			}
			switch variant {
			case 4: // recursive: the body runs at the bottom of 2-3 nested activations of the same function
				g.funcs = append(g.funcs, "function "+name+"(d) {\n  if (d > 0) {\n    "+name+"(d - 1)\n    return\n  }\n"+body+"}\n")
				fmt.Fprintf(&b, "%s%s(%d)\n", ind, name, 1+g.rng.Intn(2))
			case 5: // inside a for-in loop over a local array
				g.funcs = append(g.funcs, "function "+name+"(  k, la) {\n  la[\"x\"] = 1\n  for (k in la) {\n"+g.ops(o.Body, "    ")+"  }\n}\n")
				b.WriteString(ind + name + "()\n")
			case 6: // inside a while loop within the function, with a local scalar and a local array alive
				g.funcs = append(g.funcs, "function "+name+"(  k, la) {\n  la[1] = 1\n  k = 0\n  while (k++ < 1) {\n"+g.ops(o.Body, "    ")+"  }\n}\n")
				b.WriteString(ind + "zz = " + name + "() + 1\n")
			case 0:
				g.funcs = append(g.funcs, "function "+name+"() {\n"+body+"}\n")
				b.WriteString(ind + name + "()\n")
			case 1: // called inside an expression: unwinding leaves operands on the VM stack
				g.funcs = append(g.funcs, "function "+name+"(a, b) {\n"+body+"  return a + b\n}\n")
				b.WriteString(ind + "zz = 1 + " + name + "(10, 20) * 2\n")
			case 2: // called in a condition
				g.funcs = append(g.funcs, "function "+name+"(a,  loc) {\n  loc = a\n"+body+"  return loc\n}\n")
				b.WriteString(ind + "if (" + name + "(1) && 1) zz = 2\n")
			default: // a plain nested block
				b.WriteString(ind + "{\n" + g.ops(o.Body, ind+"  ") + ind + "}\n")
			}
		case "l":
			g.nloop++
			iv := fmt.Sprintf("i%d", g.nloop)
			body := g.ops(o.Body, ind+"  ")
			k := g.pick(3)
			if k == 2 && o.N == 0 {
				k = 0
			}
			switch k {
			case 0:
				fmt.Fprintf(&b, "%sfor (%s = 0; %s < %d; %s++) {\n%s%s}\n", ind, iv, iv, o.N, iv, body, ind)
			case 1:
				fmt.Fprintf(&b, "%s%s = 0\n%swhile (%s++ < %d) {\n%s%s}\n", ind, iv, ind, iv, o.N, body, ind)
			default:
				fmt.Fprintf(&b, "%s%s = 0\n%sdo {\n%s%s} while (++%s < %d)\n", ind, iv, ind, body, ind, iv, o.N)
			}
		case "i":
			fmt.Fprintf(&b, "%sif (%s) {\n%s%s}\n", ind, g.cond(o.C), g.ops(o.Body, ind+"  "), ind)
		case "sa":
			if o.S == "" && g.pick(2) == 0 {
				fmt.Fprintf(&b, "%sdelete ARGV[%d]\n", ind, o.N)
			} else if o.S == "40471" && g.pick(3) > 0 {
				// an ARGV element that holds a NUMBER names the file its string form names (seeded C11-r2: read through .s, a
				// numeric element looked empty and was skipped)
				fmt.Fprintf(&b, "%sARGV[%d] = %s\n", ind, o.N, []string{"40471", "40000 + 471", "40471.0"}[g.pick(3)])
			} else {
				fmt.Fprintf(&b, "%sARGV[%d] = %s\n", ind, o.N, awkStr(o.S))
			}
		case "sc":
			fmt.Fprintf(&b, "%sARGC = %d\n", ind, o.N)
		case "sf", "sfs":
			name := map[string]string{"sf": "FILENAME", "sfs": "FS"}[o.K]
			if g.pick(3) == 0 { // the assignment is made by a user function
				g.nfn++
				fn := fmt.Sprintf("sv%d", g.nfn)
				g.funcs = append(g.funcs, fmt.Sprintf("function %s(x) {\n  %s = x\n  return 1\n}\n", fn, name))
				fmt.Fprintf(&b, "%szz = %s(%s) + 1\n", ind, fn, awkStr(o.S))
			} else {
				fmt.Fprintf(&b, "%s%s = %s\n", ind, name, awkStr(o.S))
			}
		case "cl":
			if g.pipeOf[o.F] {
				fmt.Fprintf(&b, "%sclose(%s)\n", ind, awkStr("cat "+o.F))
			} else {
				fmt.Fprintf(&b, "%sclose(%s)\n", ind, awkStr(o.F))
			}
		}
	}
	return b.String()
}

func (cs *Case) awk(plain bool) string {
	g := &awkGen{rng: rand.New(rand.NewSource(cs.Variant)), pipeOf: map[string]bool{}, files: cs.Files, plain: plain}
	if !plain && len(cs.Stdin) == 0 && !strings.HasPrefix(cs.progClass(), "long") { // (a process per getline is too slow for the long runs)
		// `cmd | getline` hands the interpreter's stdin to the child process (os/exec copies it), so the pipe spelling is used
		// only when stdin is empty
		for _, f := range sortedKeys(cs.Files) {
			g.pipeOf[f] = g.rng.Intn(8) == 0
		}
	}
	var b strings.Builder
	if len(cs.Begin) > 0 {
		b.WriteString("BEGIN {\n" + g.ops(cs.Begin, "  ") + "}\n")
	}
	for _, r := range cs.Rules {
		switch r.Pat {
		case "p":
			b.WriteString(g.patCond(r, "b", r.B) + " ")
		case "r":
			b.WriteString(g.patCond(r, "b", r.B) + ", " + g.patCond(r, "e", r.E) + " ")
		}
		if r.NoBody {
			b.WriteString("\n")
		} else {
			b.WriteString("{\n" + g.ops(r.Body, "  ") + "}\n")
		}
	}
	if cs.HasEnd {
		b.WriteString("END {\n" + g.ops(cs.End, "  ") + "}\n")
	}
	b.WriteString("function em(t) {\n  printf \"E %d %d %d %s [%s] %d <%s|%s|%s>\\n\", t, NR, FNR, FILENAME, $0, NF, v0, v1, v2\n}\n")
	b.WriteString(strings.Join(g.funcs, ""))
	return b.String()
}

// ---- trace ----------------------------------------------------------------------------------------------------------------

type Ev struct {
	Kind               string // E G X P
	Tag, NR, FNR, NF   int
	Filename, Line     string
	Vars               [3]string
	Ret                int // G: return value (Tag = form); X: exit value or -1 (Tag = kind)
}

var reE = regexp.MustCompile(`^E (\d+) (\d+) (\d+) (\S*) \[(.*)\] (\d+) <([^|]*)\|([^|]*)\|([^|]*)>$`)

func parseTrace(out string) []Ev {
	var evs []Ev
	if out == "" {
		return evs
	}
	lines := strings.Split(strings.TrimSuffix(out, "\n"), "\n")
	for _, l := range lines {
		if m := reE.FindStringSubmatch(l); m != nil {
			e := Ev{Kind: "E", Filename: m[4], Line: m[5], Vars: [3]string{m[7], m[8], m[9]}}
			e.Tag, _ = strconv.Atoi(m[1])
			e.NR, _ = strconv.Atoi(m[2])
			e.FNR, _ = strconv.Atoi(m[3])
			e.NF, _ = strconv.Atoi(m[6])
			evs = append(evs, e)
		} else if strings.HasPrefix(l, "G ") {
			var f, n int
			fmt.Sscanf(l, "G %d %d", &f, &n)
			evs = append(evs, Ev{Kind: "G", Tag: f, Ret: n})
		} else if strings.HasPrefix(l, "X ") {
			k, n := 0, -1
			fmt.Sscanf(l, "X %d %d", &k, &n)
			evs = append(evs, Ev{Kind: "X", Tag: k, Ret: n})
		} else {
			evs = append(evs, Ev{Kind: "P", Line: l})
		}
	}
	return evs
}

func canonEvents(evs []Ev) string {
	parts := make([]string, 0, len(evs))
	for _, e := range evs {
		switch e.Kind {
		case "E":
			parts = append(parts, fmt.Sprintf("E:%d:%d:%d:%s:%s:%d:%s,%s,%s", e.Tag, e.NR, e.FNR, vh.HxS(e.Filename), vh.HxS(e.Line), e.NF,
				vh.HxS(e.Vars[0]), vh.HxS(e.Vars[1]), vh.HxS(e.Vars[2])))
		case "G":
			parts = append(parts, fmt.Sprintf("G:%d:%d", e.Tag, e.Ret))
		case "X":
			if e.Ret >= 0 {
				parts = append(parts, fmt.Sprintf("X:%d:%d", e.Tag, e.Ret))
			} else {
				parts = append(parts, fmt.Sprintf("X:%d", e.Tag))
			}
		case "P":
			parts = append(parts, "P:"+vh.HxS(e.Line))
		}
	}
	return strings.Join(parts, " ")
}

func sortedKeys(m map[string][]string) []string {
	ks := make([]string, 0, len(m))
	for k := range m {
		ks = append(ks, k)
	}
	for i := 1; i < len(ks); i++ {
		for j := i; j > 0 && ks[j] < ks[j-1]; j-- {
			ks[j], ks[j-1] = ks[j-1], ks[j]
		}
	}
	return ks
}
