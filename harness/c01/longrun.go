package main

// Three more oracle streams (implementation side only):
//  * sign of zero: literal 0, -0, +0 and implicit zeros (unset variables, the default target of 2-argument sub/gsub) must keep
//    their own sign whatever other zero constants the program mentions (the constant pool is keyed by value, and
//    -0 == 0); observed through printf %g/%f/%e and atan2. Pair: literal spelling vs the spelling that computes every
//    zero from variables.
//  * long runs: the same program over thousands of records with the early exit (`next`, `exit`) written inside a user
//    function vs inlined in the rule — per-record leaks (call depth, stack, arrays) only show after ~1000 records.
//  * reuse: one Program executed twice on one Interpreter vs on two fresh ones, with range patterns left open at the end
//    of the first run (C14's clause, checked here because the state lives in the VM's action loop).

import (
	"bytes"
	"fmt"
	"strings"

	"github.com/benhoyt/goawk/interp"

	"verifharness/vh"
)

func c01SignOfZero(c *vh.Ctx) []c01Pair {
	type form struct{ lit, viaVar string }
	neg := []form{{"-0", "-zero"}, {"-0.0", "-zero"}, {"(0 * -1)", "(zero * mone)"}, {"-(0)", "-(zero)"}, {"-u", "-u"}, {"-0e0", "-zero"}}
	pos := []form{{"0", "zero"}, {"+0", "+zero"}, {"0.0", "zero"}, {"(u + 0)", "(u + zero)"}, {"(1 - 1)", "(one - one)"}, {"+0.0", "+zero"}}
	obs := []string{
		`printf "%%g|%%f|%%e|%%.3g\n", %[1]s, %[1]s, %[1]s, atan2(%[1]s, -1)`,
		`y = %[1]s; printf "%%g %%g\n", y, atan2(y, -1)`,
		`printf "%%s %%d %%g\n", %[1]s, %[1]s, %[1]s + 0`,
		`a[1] = %[1]s; printf "%%g %%g\n", a[1], -a[1]`,
		`printf "%%g\n", f(%[1]s)`,
	}
	pre := "zero = 0 * 1; one = 1; mone = -1; "
	var ps []c01Pair
	mk := func(stmts []string, viaVar bool) string {
		body := strings.Join(stmts, "; ")
		p := "function f(x, l) { if (l != 0) return 9; return -x }\n"
		if viaVar {
			return p + "BEGIN { " + pre + body + " }"
		}
		return p + "BEGIN { " + pre + body + " }"
	}
	n := c.N(150, 1500)
	for i := 0; i < n; i++ {
		var a, b []string
		k := 2 + c.Rng.Intn(4)
		for j := 0; j < k; j++ {
			var f form
			if c.Rng.Intn(2) == 0 {
				f = neg[c.Rng.Intn(len(neg))]
			} else {
				f = pos[c.Rng.Intn(len(pos))]
			}
			o := obs[c.Rng.Intn(len(obs))]
			a = append(a, fmt.Sprintf(o, f.lit))
			b = append(b, fmt.Sprintf(o, f.viaVar))
		}
		if c.Rng.Intn(3) == 0 { // implicit zero constant: the default target of sub/gsub
			a = append([]string{`$0 = "aXa"; n = gsub(/a/, "b"); print n, $0`}, a...)
			b = append([]string{`$0 = "aXa"; n = gsub(/a/, "b", $0); print n, $0`}, b...)
		}
		ps = append(ps, c01Pair{Family: "sign-of-zero", Key: "zero:random", A: mk(b, true), B: mk(a, false), Input: ""})
	}
	// direct expectations
	for _, f := range [][2]string{
		{`BEGIN { printf "%g %g %g\n", -0, 0, +0 }`, `BEGIN { print "-0 0 0" }`},
		{`BEGIN { printf "%g %g %g\n", 0, -0, +0 }`, `BEGIN { print "0 -0 0" }`},
		{`BEGIN { x = 0; y = -0; printf "%g %g %.4f %.4f\n", x, y, atan2(x, -1), atan2(y, -1) }`, `BEGIN { print "0 -0 3.1416 -3.1416" }`},
		{`function f(l) { l = -0; return l } BEGIN { z = 0; printf "%g %g\n", f(), z }`, `BEGIN { print "-0 0" }`},
		{`BEGIN { printf "%g %g\n", -0.0, 0.0; printf "%g\n", -u }`, `BEGIN { print "-0 0"; print "-0" }`},
	} {
		ps = append(ps, c01Pair{Family: "sign-of-zero", Key: "zero:direct", A: f[1], B: f[0], Input: ""})
	}
	return ps
}

func c01LongRuns(c *vh.Ctx) []c01Pair {
	nrec := 2500 + c.Rng.Intn(2501)
	var in strings.Builder
	for i := 1; i <= nrec; i++ {
		fmt.Fprintf(&in, "%d w%d %d\n", i, i%7, (i*37)%101)
	}
	input := in.String()
	pairs := [][2]string{
		// next from inside a function called from the action
		{`{ if ($1 % 3 == 0) next; s += $1; c++ } END { print s, c, NR }`,
			`function skip(x) { if (x % 3 == 0) next; return x } { s += skip($1); c++ } END { print s, c, NR }`},
		// next from a nested call, with temporaries on the stack at the call site
		{`{ if ($3 > 50) next; t = t + (1 + (2 * $3)); c++ } END { print t, c, NR }`,
			`function inner(x, l) { l = x; if (l > 50) next; return l } function outer(x, a, b) { a = 1; b = 2; return a + (b * inner(x)) } { t = t + outer($3); c++ } END { print t, c, NR }`},
		// next from a function called in the pattern
		{`$1 % 2 == 0 { next } { s += $3 } END { print s, NR }`,
			`function odd(x) { if (x % 2 == 0) next; return 1 } odd($1) { s += $3 } END { print s, NR }`},
		// exit from a function after many ordinary calls and returns from inside loops
		{`{ for (i = 0; i < 3; i++) if (i == $1 % 3) { s += i; break }; if (NR == ` + fmt.Sprint(nrec-5) + `) exit 3 } END { print s, NR }`,
			`function pick(x, i) { for (i = 0; i < 3; i++) if (i == x % 3) return i; return -1 } function stop(n) { if (n == ` + fmt.Sprint(nrec-5) + `) exit 3 } { s += pick($1); stop(NR) } END { print s, NR }`},
		// a local array and a by-reference array on every record
		{`{ g[$2]++; if ($1 % 5 == 0) next; k += 2 } END { print k, length(g), g["w3"] }`,
			`function note(A, key, tmp) { tmp[key] = 1; A[key]++; if (length(tmp) != 1) bad++ } function maybe(x) { if (x % 5 == 0) next } { note(g, $2); maybe($1); k += 2 } END { print k, length(g), g["w3"], bad + 0 }`},
	}
	pairs[4][0] = `{ g[$2]++; if ($1 % 5 == 0) next; k += 2 } END { print k, length(g), g["w3"], 0 }`
	var ps []c01Pair
	for i, p := range pairs {
		ps = append(ps, c01Pair{Family: "long-run", Key: fmt.Sprintf("long-run:%d", i), A: p[0], B: p[1], Input: input})
	}
	return ps
}

// c01Reuse: one Program executed twice on one Interpreter vs on two fresh ones.
func c01Reuse(c *vh.Ctx) {
	progs := []string{
		`/a/,/b/ { print NR ": " $0 }`,
		`$1 == "s",$1 == "e" { n++; print n, $0 } END { print "end", n }`,
		`/a/,/b/ { print "r1", $0 } /x/,/y/ { print "r2", $0 } END { print NR }`,
		`function f(x) { if (x == "skip") next; return x } /a/,/b/ { print f($1) }`,
	}
	inputs := [][2]string{
		{"q\na\nm\n", "n\nb\nz\n"}, // first run ends inside the range
		{"s 1\nmid\n", "other\ne\nlast\n"},
		{"a\nx\n", "p\nq\n"},
		{"a\nskip\nc\n", "d\nb\ne\n"},
	}
	run := func(p *interp.Interpreter, in string) string {
		var out bytes.Buffer
		st, err := p.Execute(&interp.Config{Stdin: strings.NewReader(in), Output: &out, Error: &out, Environ: []string{}})
		return fmt.Sprintf("%q %d %v", out.String(), st, err)
	}
	for _, src := range progs {
		prog, err := c01Parse(src)
		if err != nil {
			c.Note("reuse program does not parse: " + src)
			continue
		}
		for _, in := range inputs {
			c.OracleCase()
			c.Eval("reuse\x00"+src+"\x00"+in[0]+in[1], true)
			c.Hit("oracle:reuse")
			func() {
				defer func() {
					if r := recover(); r != nil {
						c.Fail(vh.Failure{Kind: "oracle", What: "reused interpreter panicked", Case: map[string]string{"program": src, "input1": in[0], "input2": in[1]}, Got: fmt.Sprint(r)})
					}
				}()
				one, _ := interp.New(prog)
				got := run(one, in[0])
				one.ResetVars() // Execute keeps variables by design; the VM's own state must need no reset
				got += " / " + run(one, in[1])
				f1, _ := interp.New(prog)
				f2, _ := interp.New(prog)
				want := run(f1, in[0]) + " / " + run(f2, in[1])
				if got != want {
					c.Fail(vh.Failure{Kind: "oracle", What: "a Program run twice on one Interpreter behaves differently from two fresh Interpreters",
						Case: map[string]string{"program": src, "input1": in[0], "input2": in[1]}, Got: got, Want: want})
				}
			}()
		}
	}
}

// c01ShortcutHistories: the constant-operand shortcuts of the compiler (`@"name"`, `$1`, `a["k"]`) beside their general
// spellings, each executed over the same history of configurations on ONE reused Interpreter: run by run the two spellings
// must agree, and both must agree with fresh interpreters — whatever a shortcut remembers about a constant belongs to the
// record source it was computed for (seeded C01-s2: field numbers of `@"name"` cached per constant and not dropped between
// Execute calls, so a later headerless run answered from the previous run's header).
func c01ShortcutHistories(c *vh.Ctx) {
	type step struct {
		csv, header bool
		in          string
	}
	hists := [][]step{
		{{true, true, "name,age\ncarol,3\ndave,4\n"}, {true, false, "x,y\nz,w\n"}},
		{{true, true, "name,age\ncarol,3\n"}, {true, true, "age,name\n5,erin\n"}, {true, false, "p,q\n"}},
		{{false, false, "u v\n"}, {true, true, "age,name\n5,erin\n"}, {false, false, "name age\n"}, {true, true, "name\nzed\n"}},
		{{true, true, "id,name\n1,a\n"}, {true, true, "name\nb\n"}, {true, true, "k,j\n1,2\n"}},
	}
	pairs := [][2]string{
		{`{ print NR, @"name" }`, `{ n = "na" "me"; print NR, @n }`},
		{`{ print @"name" @"age" }`, `{ n = "name"; m = "age"; print @n @m }`},
		{`{ x = @"name"; $0 = "re set"; print x, @"name" }`, `{ n = "name"; x = @n; $0 = "re set"; print x, @n }`},
		{`{ print $1, $2 }`, `{ i = 1; j = 2; print $i, $j }`},
		{`{ a["k"] = $1; print a["k"], length(a) }`, `{ k = "k"; a[k] = $1; print a[k], length(a) }`},
	}
	run := func(p *interp.Interpreter, st step) string {
		var out bytes.Buffer
		cfg := &interp.Config{Stdin: strings.NewReader(st.in), Output: &out, Error: &out, Environ: []string{}}
		if st.csv {
			cfg.InputMode = interp.CSVMode
			cfg.CSVInput = interp.CSVInputConfig{Header: st.header}
		}
		status, err := p.Execute(cfg)
		return fmt.Sprintf("%q %d %v", out.String(), status, err)
	}
	for _, pr := range pairs {
		pa, ea := c01Parse(pr[0])
		pb, eb := c01Parse(pr[1])
		if ea != nil || eb != nil {
			c.Note("shortcut-history program does not parse: " + pr[0] + " | " + pr[1])
			continue
		}
		for hi, h := range hists {
			for _, reset := range []bool{false, true} {
				c.OracleCase()
				c.Eval(fmt.Sprint("shortcut-history\x00", pr[0], hi, reset), true)
				c.Hit("oracle:shortcut-history")
				func() {
					cs := map[string]interface{}{"constant_spelling": pr[0], "general_spelling": pr[1], "history": fmt.Sprintf("%+v", h), "reset_vars_between": reset}
					defer func() {
						if r := recover(); r != nil {
							c.Fail(vh.Failure{Kind: "oracle", What: "reused interpreter panicked", Case: cs, Got: fmt.Sprint(r)})
						}
					}()
					ia, _ := interp.New(pa)
					ib, _ := interp.New(pb)
					for k, st := range h {
						if k > 0 && reset {
							ia.ResetVars()
							ib.ResetVars()
						}
						ga, gb := run(ia, st), run(ib, st)
						fa, _ := interp.New(pa)
						wa := run(fa, st)
						if ga != gb {
							c.Fail(vh.Failure{Kind: "oracle", What: fmt.Sprintf("Execute #%d: the constant spelling and the general spelling of the same program behave differently on a reused Interpreter", k+1), Case: cs, Got: ga, Want: gb})
							return
						}
						if (reset || k == 0) && ga != wa {
							c.Fail(vh.Failure{Kind: "oracle", What: fmt.Sprintf("Execute #%d on a reused Interpreter differs from the same call on a fresh one", k+1), Case: cs, Got: ga, Want: wa})
							return
						}
					}
				}()
			}
		}
	}
}
