package main

// "Endings" stream of the C01 oracle: the COMPLETE externally visible result of a run — bytes on standard output, bytes in
// every file afterwards (written with `>`, `>>`, or by a command fed through `|`), exit status, error/no-error — for every way
// a program can end: falling off the end, `exit` in BEGIN / a rule / END / a function, and each kind of run-time error at each
// place (BEGIN, a later BEGIN, a rule on the first or a later record, a pattern, END, a later END; directly, inside a function,
// two calls deep, at the bottom of a recursion; plainly or inside for / while / do / for-in / getline loops and if branches; as a
// statement, a print argument, part of the destination expression, a condition, a call argument, an exit code, a return value, ...)
// after output to standard output / `>` / `>>` / `| cat > file` / `| cat >> file` / "/dev/stdout", with and without close(),
// fflush(name), fflush() before it.
//
// Oracle: the real interpreter (compiler + VM) against the reference evaluator (endsref.go, a tree walk in which destinations are
// logs), for two spellings of each program (statement-position vs expression-position forms, for/while/do, print/printf, fused vs
// stored conditions, variable vs computed destination) and two kinds of Config.Output. What the program wrote before it ended is
// part of what the program does: the reference has it in the files, so the real run must leave it there.
//
// Config.Output kinds: bytes.Buffer; a plain io.Writer (no Flush method); bufio.Writer of several sizes over a plain writer; a
// writer that hands bytes on only when Flush is called. The harness never calls Flush itself: the interpreter flushes a
// Config.Output that has a Flush method when execution ends (interp/io.go closeAll: "Close all streams and so on (after program
// execution)"), on every path on which Execute returns — that is what the cmd/goawk binary and the C13 harness rely on too.
//
// Commands only write to files of the scratch directory (never to the inherited standard output: recorded finding F25), input
// comes from a file operand (system() and `| cmd` hand Config.Stdin to the child), every run has its own directory under
// os.MkdirTemp, removed afterwards.

import (
	"bufio"
	"bytes"
	"context"
	"fmt"
	"io"
	"math/rand"
	"os"
	"path/filepath"
	"runtime/pprof"
	"sort"
	"strconv"
	"strings"
	"time"

	"github.com/benhoyt/goawk/interp"

	"verifharness/vh"
)

// ---- rendering a script as AWK source ---------------------------------------------------------------------------------------

type enRender struct {
	r    *rand.Rand // nil: the canonical spelling
	cont []string   // what `continue` must do first in the enclosing loops (loop variable increment of while/do spellings)
	fin  int        // for-in nesting depth (array names)
	fn   *enFunc    // the function being rendered (nil: a BEGIN / rule / END block)
}

// has: the function being rendered has this parameter (the return-value stream gives its functions private for-in arrays LT<d>, a
// never-assigned local lu and a temporary lr; see retval.go)
func (x *enRender) has(param string) bool {
	if x.fn == nil {
		return false
	}
	for _, p := range x.fn.Params {
		if p == param {
			return true
		}
	}
	return false
}

func (x *enRender) alt(n int) int {
	if x.r == nil {
		return 0
	}
	return x.r.Intn(n)
}

// strip removes one pair of parentheses enclosing the whole text.
func enStrip(s string) string {
	if len(s) < 2 || s[0] != '(' || s[len(s)-1] != ')' {
		return s
	}
	depth := 0
	inStr := false
	for i := 0; i < len(s); i++ {
		ch := s[i]
		if inStr {
			if ch == '\\' {
				i++
			} else if ch == '"' {
				inStr = false
			}
			continue
		}
		switch ch {
		case '"':
			inStr = true
		case '(':
			depth++
		case ')':
			depth--
			if depth == 0 && i != len(s)-1 {
				return s
			}
		}
	}
	return s[1 : len(s)-1]
}

// enStripArg: the same for an argument of print/printf, where a bare > would be a redirection (and bare getline / in / < / | are
// best left alone)
func enStripArg(s string) string {
	t := enStrip(s)
	if t == s {
		return s
	}
	depth, inStr := 0, false
	for i := 0; i < len(t); i++ {
		ch := t[i]
		if inStr {
			if ch == '\\' {
				i++
			} else if ch == '"' {
				inStr = false
			}
			continue
		}
		switch ch {
		case '"':
			inStr = true
		case '(':
			depth++
		case ')':
			depth--
		case '>', '<', '|', ',':
			if depth == 0 {
				return s
			}
		}
	}
	if strings.Contains(t, "getline") || strings.Contains(t, " in ") {
		return s
	}
	return t
}

var enCmpOp = map[string]string{"lt": "<", "le": "<=", "eq": "==", "ne": "!=", "gt": ">", "ge": ">="}

// run-time error expressions by kind; e.N picks the text (part of the script, not of the spelling: the message is compared)
var enErrTexts = map[string][]string{
	"div0":            {`(1 / zz)`, `(7 / (g0 - g0))`, `(gt /= zz)`, `($2 /= zz)`, `(XC[1] /= zz)`, `(2 ^ (1 / zz))`},
	"mod0":            {`(1 % zz)`, `(gt %= zz)`, `(XC["k"] %= zz)`, `($(NF + 1) %= zz)`},
	"regex-match":     {`("a" ~ "(")`, `("a" ~ ("a" "("))`, `("a" !~ "[")`},
	"regex-split":     {`split("a", XC, "((")`},
	"regex-sub":       {`sub("(", "", gt)`, `gsub("[", "", gt)`, `match("a", "*(")`},
	"regex-fs":        {`(FS = "((")`, `(RS = "((")`},
	"nf-negative":     {`(NF = -1)`, `(NF -= NF + 1)`},
	"nf-too-large":    {`(NF = 10000000)`},
	"field-too-large": {`($10000000 = 1)`},
	"format":          {`sprintf("%d %d", 1)`, `sprintf("%z", 1)`},
	"no-field-names":  {`@"nm"`},
	"argc-too-large":  {`(ARGC = 100000000)`},
	"output-mode":     {`(OUTPUTMODE = "bogus")`},
	"input-mode":      {`(INPUTMODE = "bogus")`},
}

var enErrKindNames = func() []string {
	var ks []string
	for k := range enErrTexts {
		ks = append(ks, k)
	}
	sort.Strings(ks)
	return ks
}()

func (x *enRender) dest(sink string) string {
	a := x.alt(2)
	switch sink {
	case "f1", "f2", "f3":
		if a == 0 {
			return strings.ToUpper(sink)
		}
		return `(D "/` + sink + `")`
	case "r":
		if a == 0 {
			return "R"
		}
		return `(D "/r")`
	case "c1":
		if a == 0 {
			return "C1"
		}
		return `("exec cat > " D "/c1")`
	case "c2":
		if a == 0 {
			return "C2"
		}
		return `("exec cat >> " D "/c2")`
	case "bad":
		if a == 0 {
			return "BAD"
		}
		return `(D "/nodir/x")`
	case "devout":
		return `"/dev/stdout"`
	}
	panic("dest of " + sink)
}

func (x *enRender) e(e *enE) string {
	switch e.K {
	case "const":
		if e.N < 0 {
			return fmt.Sprintf("(%d)", e.N)
		}
		return strconv.Itoa(e.N)
	case "var":
		return e.V
	case "nr":
		return "NR"
	case "nf":
		return "NF"
	case "add":
		return "(" + x.e(e.A) + " + " + x.e(e.B) + ")"
	case "sub":
		return "(" + x.e(e.A) + " - " + x.e(e.B) + ")"
	case "mulc":
		return "(" + x.e(e.A) + " * " + strconv.Itoa(e.N) + ")"
	case "lt", "le", "eq", "ne", "gt", "ge":
		return "(" + x.e(e.A) + " " + enCmpOp[e.K] + " " + x.e(e.B) + ")"
	case "and":
		a, b := x.e(e.A), x.e(e.B)
		switch x.alt(3) {
		case 1:
			return "(" + a + " ? (" + b + " ? 1 : 0) : 0)"
		case 2:
			return "(!(!" + a + " || !" + b + "))"
		}
		return "(" + a + " && " + b + ")"
	case "or":
		a, b := x.e(e.A), x.e(e.B)
		if x.alt(2) == 1 {
			return "(" + a + " ? 1 : (" + b + " ? 1 : 0))"
		}
		return "(" + a + " || " + b + ")"
	case "not":
		if x.alt(2) == 1 {
			return "(" + x.e(e.A) + " ? 0 : 1)"
		}
		return "(!" + x.e(e.A) + ")"
	case "cond":
		a, b, c := x.e(e.A), x.e(e.B), x.e(e.C)
		if x.alt(2) == 1 {
			return "(!" + a + " ? " + c + " : " + b + ")"
		}
		return "(" + a + " ? " + b + " : " + c + ")"
	case "postinc":
		return "(" + e.V + "++)"
	case "preinc":
		switch x.alt(3) {
		case 1:
			return "(" + e.V + " += 1)"
		case 2:
			return "(" + e.V + " = " + e.V + " + 1)"
		}
		return "(++" + e.V + ")"
	case "asg":
		return "(" + e.V + " = " + enStrip(x.e(e.A)) + ")"
	case "addasg":
		if x.alt(2) == 1 {
			return "(" + e.V + " = " + e.V + " + " + x.e(e.A) + ")"
		}
		return "(" + e.V + " += " + enStrip(x.e(e.A)) + ")"
	case "neg":
		return "(-" + x.e(e.A) + ")"
	case "len":
		return "length(" + enStrip(x.e(e.A)) + ")"
	case "pow1":
		return "(" + x.e(e.A) + " ^ 1)"
	case "idx":
		return "(XA[" + enStrip(x.e(e.A)) + "] + 0)"
	case "in":
		return "(" + x.e(e.A) + " in XB)"
	case "call":
		var as []string
		for _, a := range e.Args {
			as = append(as, enStrip(x.e(a)))
		}
		return e.V + "(" + strings.Join(as, ", ") + ")"
	case "isnull":
		if x.alt(2) == 1 {
			return "((gt = " + enStrip(x.e(e.A)) + ") == 0 && gt == \"\")"
		}
		return "isnull(" + enStrip(x.e(e.A)) + ")"
	case "key":
		return "XK[" + enStrip(x.e(e.A)) + "]"
	case "catlen":
		return "length(\"<\" " + x.e(e.A) + " \">\")"
	case "err":
		ts := enErrTexts[e.V]
		return ts[e.N%len(ts)]
	case "close":
		return "close(" + x.dest(e.V) + ")"
	case "fflush":
		if e.V == "" {
			if x.alt(2) == 1 {
				return `fflush("")`
			}
			return "fflush()"
		}
		return "fflush(" + x.dest(e.V) + ")"
	case "snap":
		return `system("exec cat " ` + x.dest(e.V) + ` " >> " LOG " 2>/dev/null")`
	case "getl":
		return "(getline)"
	case "getlv":
		return "(getline " + e.V + ")"
	case "getlf":
		return "(getline gl < " + x.dest(e.V) + ")"
	}
	panic("render expression " + e.K)
}

func enQuote(s string) string {
	var b strings.Builder
	b.WriteByte('"')
	for i := 0; i < len(s); i++ {
		switch ch := s[i]; ch {
		case '"', '\\':
			b.WriteByte('\\')
			b.WriteByte(ch)
		case '\n':
			b.WriteString(`\n`)
		default:
			b.WriteByte(ch)
		}
	}
	b.WriteByte('"')
	return b.String()
}

func (x *enRender) redirect(s *enS) string {
	if s.Sink == "out" || s.Sink == "" {
		return ""
	}
	d := x.dest(s.Sink)
	if s.DestE != nil {
		d = "(" + d + ` substr("x", 2 + 0 * ` + x.e(s.DestE) + "))"
	}
	switch {
	case s.Sink == "c1" || s.Sink == "c2":
		return " | " + d
	case s.Mode == ">>":
		return " >> " + d
	}
	return " > " + d
}

func (x *enRender) emit(s *enS) string {
	var parts []string
	for _, p := range s.Pieces {
		switch {
		case p.E != nil:
			parts = append(parts, x.e(p.E))
		case p.Field >= 0:
			parts = append(parts, "$"+strconv.Itoa(p.Field))
		case p.SV != "":
			parts = append(parts, p.SV)
		default:
			parts = append(parts, enQuote(p.Lit))
		}
	}
	red := x.redirect(s)
	a := x.alt(5)
	if s.NoNL && a < 2 {
		a = 2 + x.alt(3)
		if x.r == nil {
			a = 2
		}
	}
	nl := `\n`
	if s.NoNL {
		nl = ""
	}
	switch a {
	case 0, 1:
		if len(parts) == 0 {
			return `print ""` + red
		}
		if a == 1 && len(parts) > 1 {
			return "print (" + strings.Join(parts, " ") + ")" + red
		}
		if parts[0][0] == '(' {
			parts = append([]string{`""`}, parts...)
		}
		return "print " + strings.Join(parts, " ") + red
	case 2, 3:
		f := strings.Repeat("%s", len(parts)) + nl
		args := ""
		for _, p := range parts {
			args += ", " + enStripArg(p)
		}
		if a == 3 {
			return `printf("` + f + `"` + args + ")" + red
		}
		return `printf "` + f + `"` + args + red
	}
	// literals inlined in the format
	f, args := "", ""
	for i, p := range s.Pieces {
		if p.E == nil && p.Field < 0 && p.SV == "" {
			q := enQuote(strings.ReplaceAll(p.Lit, "%", "%%"))
			f += q[1 : len(q)-1]
		} else {
			f += "%s"
			args += ", " + enStripArg(parts[i])
		}
	}
	return `printf "` + f + nl + `"` + args + red
}

func (x *enRender) block(ss []*enS, ind string) string {
	var b strings.Builder
	b.WriteString("{\n")
	for _, s := range ss {
		b.WriteString(x.stmt(s, ind+"  "))
	}
	b.WriteString(ind + "}")
	return b.String()
}

func (x *enRender) stmt(s *enS, ind string) string {
	switch s.K {
	case "emit":
		return ind + x.emit(s) + "\n"
	case "errstmt":
		return ind + `printf "%d %d\n", 1` + x.redirect(s) + "\n"
	case "expr":
		t := x.e(s.E)
		switch x.alt(4) {
		case 0:
			return ind + enStrip(t) + "\n"
		case 1:
			return ind + t + "\n"
		case 2:
			return ind + "gt = " + t + "\n"
		}
		return ind + "if (" + t + ") { }\n"
	case "assign":
		if x.alt(3) == 1 {
			return ind + "(" + s.V + " = " + enStrip(x.e(s.E)) + ")\n"
		}
		return ind + s.V + " = " + enStrip(x.e(s.E)) + "\n"
	case "if":
		c := x.e(s.E)
		switch a := x.alt(4); {
		case a == 1:
			return ind + "if (!" + c + ") " + x.block(s.Else, ind) + " else " + x.block(s.Body, ind) + "\n"
		case a == 2:
			return ind + "gt = " + c + "\n" + ind + "if (gt) " + x.block(s.Body, ind) + x.elsePart(s, ind) + "\n"
		case a == 3:
			return ind + "if (" + c + ") " + x.block(s.Body, ind) + x.elsePart(s, ind) + "\n"
		}
		return ind + "if (" + enStrip(c) + ") " + x.block(s.Body, ind) + x.elsePart(s, ind) + "\n"
	case "loop":
		style := s.Style
		if style < 0 {
			style = x.alt(3)
		}
		v, n := s.V, strconv.Itoa(s.N)
		var out string
		switch style {
		case 0:
			x.cont = append(x.cont, "")
			inc := v + "++"
			if x.alt(2) == 1 {
				inc = v + " += 1"
			}
			out = ind + "for (" + v + " = 0; " + v + " < " + n + "; " + inc + ") " + x.block(s.Body, ind) + "\n"
		case 1:
			x.cont = append(x.cont, v+"++")
			body := x.block(append(append([]*enS{}, s.Body...), &enS{K: "raw", V: v + "++"}), ind)
			out = ind + v + " = 0\n" + ind + "while (" + v + " < " + n + ") " + body + "\n"
		default:
			x.cont = append(x.cont, v+"++")
			body := x.block(append(append([]*enS{}, s.Body...), &enS{K: "raw", V: v + "++"}), ind+"  ")
			out = ind + v + " = 0\n" + ind + "if (" + v + " < " + n + ") {\n" + ind + "  do " + body + " while (" + v + " < " + n + ")\n" + ind + "}\n"
		}
		x.cont = x.cont[:len(x.cont)-1]
		return out
	case "raw":
		return ind + s.V + "\n"
	case "forin":
		d := strconv.Itoa(x.fin)
		x.fin++
		x.cont = append(x.cont, "")
		tn, qn, kn := "T"+d, "q"+d, "kk"+d
		if x.has("LT" + d) { // the array and the two variables are locals: a callee (or a deeper activation) has its own
			tn, qn, kn = "LT"+d, "lq"+d, "lkk"+d
		}
		out := ind + "delete " + tn + "\n" + ind + "for (" + qn + " = 0; " + qn + " < " + strconv.Itoa(s.N) + "; " + qn + "++) " + tn + "[" + qn + "] = 1\n" +
			ind + "for (" + kn + " in " + tn + ") " + x.block(s.Body, ind) + "\n"
		x.cont = x.cont[:len(x.cont)-1]
		x.fin--
		return out
	case "whileget":
		x.cont = append(x.cont, "")
		out := ind + "while ((getline gl < " + x.dest(s.Sink) + ") > 0) " + x.block(s.Body, ind) + "\n"
		x.cont = x.cont[:len(x.cont)-1]
		return out
	case "exit":
		if s.E == nil {
			return ind + "exit\n"
		}
		if x.alt(2) == 1 {
			return ind + "exit " + x.e(s.E) + "\n"
		}
		return ind + "exit " + enStrip(x.e(s.E)) + "\n"
	case "next":
		return ind + "next\n"
	case "ret":
		if s.E == nil {
			if x.has("lu") && x.alt(3) == 1 { // lu is never assigned: `return lu` returns the uninitialised value, as `return` does
				return ind + "return lu\n"
			}
			return ind + "return\n"
		}
		if x.has("lr") && x.alt(4) == 1 {
			return ind + "{ lr = " + enStrip(x.e(s.E)) + "; return lr }\n"
		}
		return ind + "return " + enStrip(x.e(s.E)) + "\n"
	case "break":
		return ind + "break\n"
	case "continue":
		if pre := x.cont[len(x.cont)-1]; pre != "" {
			return ind + "{ " + pre + "; continue }\n"
		}
		return ind + "continue\n"
	}
	panic("render statement " + s.K)
}

func (x *enRender) elsePart(s *enS, ind string) string {
	if len(s.Else) == 0 {
		return ""
	}
	return " else " + x.block(s.Else, ind)
}

func enSource(p *enProg, r *rand.Rand) string {
	x := &enRender{r: r}
	var b strings.Builder
	for _, f := range p.Funcs {
		x.fn = f
		b.WriteString("function " + f.Name + "(" + strings.Join(f.Params, ", ") + ") " + x.block(f.Body, "") + "\n")
	}
	x.fn = nil
	for _, bl := range p.Begin {
		b.WriteString("BEGIN " + x.block(bl, "") + "\n")
	}
	for _, r := range p.Rules {
		switch {
		case r.Pat != nil && r.Pat2 != nil:
			b.WriteString(x.e(r.Pat) + ", " + x.e(r.Pat2) + " ")
		case r.Pat != nil:
			b.WriteString(x.e(r.Pat) + " ")
		}
		if r.NoBody {
			b.WriteString("\n")
		} else {
			b.WriteString(x.block(r.Body, "") + "\n")
		}
	}
	for _, bl := range p.End {
		b.WriteString("END " + x.block(bl, "") + "\n")
	}
	return b.String()
}

// ---- running the real interpreter and observing everything -------------------------------------------------------------------

type enPlainW struct{ b []byte }

func (w *enPlainW) Write(p []byte) (int, error) { w.b = append(w.b, p...); return len(p), nil }

// enHoldW hands bytes on only when Flush is called.
type enHoldW struct{ pending, b []byte }

func (w *enHoldW) Write(p []byte) (int, error) {
	w.pending = append(w.pending, p...)
	return len(p), nil
}
func (w *enHoldW) Flush() error {
	w.b = append(w.b, w.pending...)
	w.pending = w.pending[:0]
	return nil
}

var enWriterKinds = []string{"bytes.Buffer", "plain", "bufio:1", "bufio:16", "bufio:100", "bufio:4096", "bufio:65536", "bufio:200000", "hold-until-Flush"}

type enObs struct {
	Out    string            `json:"stdout"`
	Files  map[string]string `json:"files"`
	Status int               `json:"status"`
	Err    string            `json:"error"`
	Panic  string            `json:"panic,omitempty"`
	Stderr string            `json:"stderr,omitempty"`
}

type enCase struct {
	Family   string            `json:"family"`
	Key      string            `json:"key"`
	Coord    map[string]string `json:"coordinates,omitempty"`
	A        string            `json:"program_a"`
	B        string            `json:"program_b"`
	WriterA  string            `json:"config_output_a"`
	WriterB  string            `json:"config_output_b"`
	Input    string            `json:"input_file"`
	Init     map[string]string `json:"files_before"`
	Expected enResult          `json:"expected_by_reference_evaluator"`
	Replay   string            `json:"how_to_run"`
	Which    string            `json:"failing_spelling,omitempty"`
	marks    map[string]int
	prog     *enProg
}

const enReplayText = "scratch directory D holding files_before and input_file as D/in; Config{Args: [D/in], Stdin: empty, Environ: [], " +
	"Vars: D=D F1=D/f1 F2=D/f2 F3=D/f3 R=D/r C1='exec cat > D/c1' C2='exec cat >> D/c2' BAD=D/nodir/x LOG=D/log, Output: config_output (never flushed by " +
	"the caller)}; observe Output, every file of D except in, status, error"

func enRunReal(src string, cs *enCase, writer string, timeout time.Duration) (obs enObs, timedOut bool) {
	d, err := os.MkdirTemp(c01Dir, "e")
	if err != nil {
		panic(err)
	}
	defer os.RemoveAll(d)
	for name, content := range cs.Init {
		if err := os.WriteFile(filepath.Join(d, name), []byte(content), 0o644); err != nil {
			panic(err)
		}
	}
	if err := os.WriteFile(filepath.Join(d, "in"), []byte(cs.Input), 0o644); err != nil {
		panic(err)
	}
	prog, perr := c01Parse(src)
	if perr != nil {
		return enObs{Err: "PARSE: " + perr.Error()}, false
	}
	var errw bytes.Buffer
	cfg := &interp.Config{Stdin: strings.NewReader(""), Error: &errw, Environ: []string{}, Args: []string{d + "/in"},
		Vars: []string{"D", d, "F1", d + "/f1", "F2", d + "/f2", "F3", d + "/f3", "R", d + "/r", "C1", "exec cat > " + d + "/c1", "C2", "exec cat >> " + d + "/c2",
			"BAD", d + "/nodir/x", "LOG", d + "/log"}}
	var bb bytes.Buffer
	var plain enPlainW
	var hold enHoldW
	var got func() string
	switch {
	case writer == "bytes.Buffer":
		cfg.Output, got = &bb, func() string { return bb.String() }
	case writer == "plain":
		cfg.Output, got = &plain, func() string { return string(plain.b) }
	case writer == "hold-until-Flush":
		cfg.Output, got = &hold, func() string { return string(hold.b) }
	case strings.HasPrefix(writer, "bufio:"):
		n, _ := strconv.Atoi(writer[6:])
		cfg.Output, got = bufio.NewWriterSize(&plain, n), func() string { return string(plain.b) }
	default:
		panic("writer kind " + writer)
	}
	func() {
		defer func() {
			if r := recover(); r != nil {
				obs.Panic = fmt.Sprint(r)
			}
		}()
		p, err := interp.New(prog)
		if err != nil {
			obs.Err = "new: " + err.Error()
			return
		}
		ctx, cancel := context.WithTimeout(context.Background(), timeout)
		defer cancel()
		status, err := p.ExecuteContext(ctx, cfg)
		obs.Status = status
		if err != nil {
			obs.Err = strings.ReplaceAll(err.Error(), d, "D")
		}
		if ctx.Err() != nil { // also when the program went on after a killed child
			timedOut = true
		}
	}()
	obs.Out = got()
	obs.Stderr = strings.ReplaceAll(errw.String(), d, "D")
	obs.Files = map[string]string{}
	ents, _ := os.ReadDir(d)
	for _, e := range ents {
		if e.Name() == "in" {
			continue
		}
		if e.IsDir() {
			obs.Files[e.Name()+"/"] = ""
			continue
		}
		b, _ := os.ReadFile(filepath.Join(d, e.Name()))
		obs.Files[e.Name()] = string(b)
	}
	return obs, timedOut
}

func enShort(s string) string {
	if len(s) > 300 {
		return fmt.Sprintf("%q...(%d bytes)...%q", s[:120], len(s), s[len(s)-120:])
	}
	return fmt.Sprintf("%q", s)
}

// enDiff names the first component in which the observation differs from the reference result ("" = none).
func enDiff(o enObs, want enResult) string {
	if o.Panic != "" {
		return "the interpreter panicked: " + o.Panic
	}
	if (o.Err != "") != want.Err {
		if want.Err {
			return "error outcome: the run reported no error, direct evaluation ends with a run-time error (" + want.ErrKind + ")"
		}
		return "error outcome: the run ended with error " + strconv.Quote(o.Err) + ", direct evaluation ends without error"
	}
	if o.Out != want.Out {
		return "standard output: got " + enShort(o.Out) + " want " + enShort(want.Out)
	}
	var names []string
	for n := range want.Files {
		names = append(names, n)
	}
	for n := range o.Files {
		if _, ok := want.Files[n]; !ok {
			names = append(names, n)
		}
	}
	sort.Strings(names)
	for _, n := range names {
		g, okg := o.Files[n]
		w, okw := want.Files[n]
		switch {
		case !okg:
			return "file " + n + ": does not exist afterwards, want " + enShort(w)
		case !okw:
			return "file " + n + ": exists afterwards (" + enShort(g) + "), direct evaluation does not create it"
		case g != w:
			return "file " + n + ": got " + enShort(g) + " want " + enShort(w)
		}
	}
	if !want.Err && o.Status != want.Status {
		return fmt.Sprintf("exit status: got %d want %d", o.Status, want.Status)
	}
	return ""
}

func enCanonObs(o enObs) string {
	var names []string
	for n := range o.Files {
		names = append(names, n)
	}
	sort.Strings(names)
	var b strings.Builder
	fmt.Fprintf(&b, "stdout=%s status=%d err=%q panic=%q", enShort(o.Out), o.Status, o.Err, o.Panic)
	for _, n := range names {
		fmt.Fprintf(&b, " %s=%s", n, enShort(o.Files[n]))
	}
	return b.String()
}

func enCanonWant(w enResult) string {
	o := enObs{Out: w.Out, Files: w.Files, Status: w.Status}
	if w.Err {
		o.Err = "<run-time error: " + w.ErrKind + ">"
	}
	return enCanonObs(o)
}

// ---- generator ------------------------------------------------------------------------------------------------------------------

type enGen struct {
	r       *rand.Rand
	sinks   []enSinkUse // palette of the program under construction
	funcs   []*enFunc   // callable so far (a function calls only earlier ones)
	tag     int
	inFunc  bool
	noCalls bool
	place   string // begin rule end func
	loopD   int
	noCmd   bool // no commands in this program (process creation is the expensive part of a run)
}

type enSinkUse struct{ sink, mode string }

var enAllSinks = []enSinkUse{{"out", ""}, {"f1", ">"}, {"f2", ">>"}, {"f3", ">"}, {"f1", ">>"}, {"c1", "|"}, {"c2", "|"}, {"devout", ">"}, {"f2", ">"}, {"f3", ">>"}}

func (g *enGen) n(k int) int          { return g.r.Intn(k) }
func (g *enGen) coin(a, b int) bool   { return g.r.Intn(b) < a }
func enC(n int) *enE                  { return &enE{K: "const", N: n} }
func enV(v string) *enE               { return &enE{K: "var", V: v} }
func enLit(s string) enP              { return enP{Lit: s, Field: -1} }
func enPE(e *enE) enP                 { return enP{E: e, Field: -1} }
func enExprS(e *enE) *enS             { return &enS{K: "expr", E: e} }
func enCall(f string, a ...*enE) *enE { return &enE{K: "call", V: f, Args: a} }

func (g *enGen) scalars() []string {
	vs := []string{"g0", "g1", "g2", "g3"}
	if g.inFunc {
		vs = append(vs, "p1", "p1", "l1", "l1")
	}
	return vs
}

func (g *enGen) loopVar() string {
	if g.inFunc {
		return []string{"li", "lj", "lk"}[g.loopD]
	}
	return []string{"i", "j", "k"}[g.loopD]
}

func (g *enGen) readable() []string {
	vs := g.scalars()
	for d := 0; d < g.loopD; d++ {
		if g.inFunc {
			vs = append(vs, []string{"li", "lj", "lk"}[d])
		} else {
			vs = append(vs, []string{"i", "j", "k"}[d])
		}
	}
	return vs
}

// pure: an integer expression without side effects
func (g *enGen) pure(d int) *enE {
	if d <= 0 || g.coin(2, 5) {
		switch g.n(6) {
		case 0, 1:
			return enC(g.n(6))
		case 2:
			return &enE{K: "nr"}
		case 3:
			return &enE{K: "nf"}
		default:
			vs := g.readable()
			return enV(vs[g.n(len(vs))])
		}
	}
	switch g.n(14) {
	case 0, 1:
		return &enE{K: "add", A: g.pure(d - 1), B: g.pure(d - 1)}
	case 2:
		return &enE{K: "sub", A: g.pure(d - 1), B: g.pure(d - 1)}
	case 3:
		return &enE{K: "mulc", A: g.pure(d - 1), N: 2 + g.n(2)}
	case 4, 5, 6:
		return &enE{K: []string{"lt", "le", "eq", "ne", "gt", "ge"}[g.n(6)], A: g.pure(d - 1), B: g.pure(d - 1)}
	case 7:
		return &enE{K: "and", A: g.pure(d - 1), B: g.pure(d - 1)}
	case 8:
		return &enE{K: "or", A: g.pure(d - 1), B: g.pure(d - 1)}
	case 9:
		return &enE{K: "not", A: g.pure(d - 1)}
	case 10:
		return &enE{K: "cond", A: g.pure(d - 1), B: g.pure(d - 1), C: g.pure(d - 1)}
	case 11:
		return &enE{K: "neg", A: g.pure(d - 1)}
	case 12:
		return &enE{K: []string{"len", "pow1"}[g.n(2)], A: g.pure(d - 1)}
	}
	return &enE{K: []string{"idx", "in"}[g.n(2)], A: g.pure(d - 1)}
}

// effect: an expression with a side effect (the right operand of an arithmetic operator or comparison is always pure)
func (g *enGen) effect(d int) *enE {
	vs := g.scalars()
	v := vs[g.n(len(vs))]
	switch k := g.n(10); {
	case k < 2:
		return &enE{K: "postinc", V: v}
	case k < 4:
		return &enE{K: "preinc", V: v}
	case k < 5:
		return &enE{K: "asg", V: v, A: g.pure(d)}
	case k < 6:
		return &enE{K: "addasg", V: v, A: g.pure(d)}
	case k < 7 && d > 0:
		return &enE{K: "add", A: g.effect(d - 1), B: g.pure(d - 1)}
	case k < 8 && d > 0:
		return &enE{K: []string{"and", "or"}[g.n(2)], A: g.pure(d - 1), B: g.effect(d - 1)}
	case k < 9 && d > 0:
		return &enE{K: "cond", A: g.pure(d - 1), B: g.effect(d - 1), C: g.pure(d - 1)}
	}
	if len(g.funcs) > 0 && !g.noCalls {
		return g.call(d)
	}
	return &enE{K: "postinc", V: v}
}

func (g *enGen) call(d int) *enE {
	f := g.funcs[g.n(len(g.funcs))]
	if f.Name == "deep" { // only as a terminator
		if len(g.funcs) == 1 {
			return &enE{K: "postinc", V: "g1"}
		}
		for f.Name == "deep" {
			f = g.funcs[g.n(len(g.funcs))]
		}
	}
	var args []*enE
	for i := 0; i < 1+g.n(2); i++ { // p1 and sometimes p2; the rest are locals
		if g.coin(1, 4) && d > 0 {
			args = append(args, g.effect(d-1))
		} else {
			args = append(args, g.pure(d))
		}
	}
	if f.Name == "fr" {
		args[0] = enC(g.n(6))
	}
	return enCall(f.Name, args...)
}

func (g *enGen) emitTo(su enSinkUse, label string) *enS {
	g.tag++
	s := &enS{K: "emit", Sink: su.sink, Mode: su.mode, Pieces: []enP{enLit(fmt.Sprintf("%s%d:", label, g.tag))}}
	for k := g.n(3); k > 0; k-- {
		switch g.n(8) {
		case 0, 1, 2:
			s.Pieces = append(s.Pieces, enPE(g.pure(2)))
		case 3:
			s.Pieces = append(s.Pieces, enPE(g.effect(1)))
		case 4:
			s.Pieces = append(s.Pieces, enP{Field: g.n(4)})
		case 5:
			s.Pieces = append(s.Pieces, enP{SV: "gl", Field: -1})
		default:
			s.Pieces = append(s.Pieces, enLit([]string{" ", "-", "%", "x y", "\"q\"", "\\"}[g.n(6)]))
		}
	}
	if g.coin(1, 12) {
		s.NoNL = true
	}
	return s
}

func (g *enGen) anySink() enSinkUse { return g.sinks[g.n(len(g.sinks))] }

func (g *enGen) fileSink() string { return []string{"f1", "f2", "f3", "r"}[g.n(4)] }

// io: close / fflush / snapshot / getline forms as an expression
func (g *enGen) ioExpr() *enE {
	su := g.anySink()
	named := su.sink
	if named == "out" || named == "devout" {
		named = g.fileSink()
	}
	switch g.n(10) {
	case 0, 1, 2:
		return &enE{K: "close", V: named}
	case 3, 4:
		return &enE{K: "fflush", V: named}
	case 5:
		return &enE{K: "fflush"}
	case 6:
		if g.noCmd {
			return &enE{K: "fflush"}
		}
		return &enE{K: "snap", V: g.fileSink()}
	case 7:
		return &enE{K: "getl"}
	case 8:
		return &enE{K: "getlv", V: "gv"}
	}
	return &enE{K: "getlf", V: g.fileSink()}
}

func (g *enGen) errExpr() *enE {
	k := enErrKindNames[g.n(len(enErrKindNames))]
	return g.wrapErr(&enE{K: "err", V: k, N: g.n(8)})
}

// wrapErr puts an error expression into an operand position of another expression.
func (g *enGen) wrapErr(e *enE) *enE {
	switch g.n(12) {
	case 0:
		return &enE{K: "neg", A: e}
	case 1:
		return &enE{K: "len", A: e}
	case 2:
		return &enE{K: "idx", A: e}
	case 3:
		return &enE{K: "in", A: e}
	case 4:
		return &enE{K: "add", A: e, B: g.pure(1)}
	case 5:
		return &enE{K: "lt", A: g.pure(1), B: e}
	case 6:
		return &enE{K: "and", A: &enE{K: "lt", A: enC(1), B: enC(2)}, B: e}
	case 7:
		return &enE{K: "cond", A: &enE{K: "lt", A: enC(2), B: enC(1)}, B: enC(0), C: e}
	case 8:
		return &enE{K: "asg", V: "g3", A: e}
	}
	return e
}

// terminator: a statement that ends something. kinds: exit exit-code next return break continue err errstmt bad reader writer deep
func (g *enGen) terminator(inLoop bool) *enS {
	for {
		switch g.n(16) {
		case 0, 1:
			return &enS{K: "exit"}
		case 2, 3:
			return &enS{K: "exit", E: g.pure(1)}
		case 4:
			if g.place == "rule" || g.place == "func" {
				return &enS{K: "next"}
			}
		case 5:
			if g.inFunc {
				if g.coin(1, 2) {
					return &enS{K: "ret"}
				}
				return &enS{K: "ret", E: g.pure(2)}
			}
		case 6:
			if inLoop {
				return &enS{K: []string{"break", "continue"}[g.n(2)]}
			}
		case 7, 8, 9:
			return enExprS(g.errExpr())
		case 10:
			s := g.emitTo(g.anySink(), "pa")
			s.Pieces = append(s.Pieces, enPE(g.errExpr()))
			return s
		case 11:
			su := g.anySink()
			if su.sink != "out" {
				s := g.emitTo(su, "de")
				s.DestE = g.errExpr()
				return s
			}
		case 12:
			return &enS{K: "errstmt", V: "format", Sink: g.noCmdSink(enSinkUse{[]string{"out", "f1", "c1"}[g.n(3)], ">"}).sink, Mode: ">"}
		case 13:
			return g.emitTo(enSinkUse{"bad", []string{">", ">>"}[g.n(2)]}, "bad")
		case 14:
			if !g.noCalls && g.hasFunc("deep") {
				return enExprS(enCall("deep", enC(0)))
			}
		case 15:
			return &enS{K: "exit", E: g.errExpr()}
		}
	}
}

func (g *enGen) hasFunc(name string) bool {
	for _, f := range g.funcs {
		if f.Name == name {
			return true
		}
	}
	return false
}

func (g *enGen) stmts(d, n int, inLoop bool) []*enS {
	var ss []*enS
	for i := 0; i < n; i++ {
		ss = append(ss, g.stmt(d, inLoop))
	}
	return ss
}

func (g *enGen) stmt(d int, inLoop bool) *enS {
	k := g.n(100)
	switch {
	case k < 38:
		return g.emitTo(g.anySink(), "t")
	case k < 50:
		return enExprS(g.ioExpr())
	case k < 56:
		return enExprS(g.effect(2))
	case k < 60:
		vs := g.scalars()
		return &enS{K: "assign", V: vs[g.n(len(vs))], E: g.pure(2)}
	case k < 64:
		s := g.emitTo(g.anySink(), "io")
		s.Pieces = append(s.Pieces, enPE(g.ioExpr()))
		return s
	case k < 74 && d > 0:
		s := &enS{K: "if", E: g.pure(2), Body: g.stmts(d-1, 1+g.n(2), inLoop)}
		if g.coin(1, 2) {
			s.Else = g.stmts(d-1, 1+g.n(2), inLoop)
		}
		return s
	case k < 82 && d > 0 && g.loopD < 2:
		s := &enS{K: "loop", V: g.loopVar(), N: g.n(4), Style: -1}
		if g.coin(1, 3) {
			s.Style = g.n(3)
		}
		g.loopD++
		s.Body = g.stmts(d-1, 1+g.n(3), true)
		g.loopD--
		return s
	case k < 85 && d > 0:
		s := &enS{K: "forin", N: g.n(4)}
		old := g.noCalls
		g.noCalls = true
		s.Body = g.stmts(d-1, 1+g.n(2), true)
		g.noCalls = old
		return s
	case k < 87 && d > 0:
		s := &enS{K: "whileget", Sink: g.fileSink()}
		old := g.noCalls
		g.noCalls = true // a callee could write to the file being read
		s.Body = g.stmts(d-1, 1+g.n(2), true)
		g.noCalls = old
		return s
	case k < 92:
		if len(g.funcs) > 0 && !g.noCalls {
			return enExprS(g.call(1))
		}
		return g.emitTo(g.anySink(), "t")
	}
	t := g.terminator(inLoop)
	if g.coin(2, 3) {
		return &enS{K: "if", E: g.pure(2), Body: []*enS{t}}
	}
	return t
}

var enFuncParams = []string{"p1", "p2", "l1", "li", "lj", "lk"}

func (g *enGen) function(name string, d int) *enFunc {
	f := &enFunc{Name: name, Params: enFuncParams}
	oldF, oldP, oldL := g.inFunc, g.place, g.loopD
	g.inFunc, g.place, g.loopD = true, "func", 0
	f.Body = g.stmts(d, 1+g.n(4), false)
	if g.coin(1, 2) {
		f.Body = append(f.Body, &enS{K: "ret", E: g.pure(2)})
	}
	g.inFunc, g.place, g.loopD = oldF, oldP, oldL
	return f
}

var enRecords = []string{"a1 b1", "a2 b2 c2", "a3", "a4 b4 c4 d4", ""}

func (g *enGen) initFiles() map[string]string {
	init := map[string]string{"r": "r-one\nr-two\nr-three\n"}
	for _, f := range []string{"f1", "f2", "f3", "c1", "c2"} {
		if g.coin(1, 2) {
			init[f] = "old-" + f + "\n"
		}
	}
	return init
}

func (g *enGen) palette() {
	g.sinks = []enSinkUse{{"out", ""}}
	for k := 1 + g.n(3); k > 0; k-- {
		g.sinks = append(g.sinks, g.noCmdSink(enAllSinks[g.n(len(enAllSinks))]))
	}
}

func (g *enGen) noCmdSink(su enSinkUse) enSinkUse {
	if g.noCmd {
		switch su.sink {
		case "c1":
			return enSinkUse{"f3", ">"}
		case "c2":
			return enSinkUse{"f2", ">>"}
		}
	}
	return su
}

func enDeepFunc() *enFunc {
	// unbounded recursion: the 1000-frame limit ends it; it prints on the way down
	return &enFunc{Name: "deep", Params: []string{"p1"}, Body: []*enS{
		{K: "if", E: &enE{K: "eq", A: enV("p1"), B: enC(700)}, Body: []*enS{{K: "emit", Sink: "out", Pieces: []enP{enLit("deep700")}}}},
		{K: "ret", E: enCall("deep", &enE{K: "add", A: enV("p1"), B: enC(1)})}}}
}

// random: a whole random program
func (g *enGen) random() (*enProg, []string) {
	g.palette()
	g.funcs = nil
	p := &enProg{}
	if g.coin(1, 3) {
		g.funcs = append(g.funcs, enDeepFunc())
	}
	for i, nf := 0, g.n(3); i < nf; i++ {
		g.funcs = append(g.funcs, g.function(fmt.Sprintf("f%d", i+1), 2))
	}
	p.Funcs = g.funcs
	g.inFunc = false
	g.place = "begin"
	for i, nb := 0, g.n(3); i < nb; i++ {
		p.Begin = append(p.Begin, g.stmts(2, 1+g.n(4), false))
	}
	g.place = "rule"
	for i, nr := 0, g.n(3); i < nr; i++ {
		r := enRule{}
		switch g.n(5) {
		case 0:
			r.Pat = g.pure(2)
		case 1:
			r.Pat = &enE{K: []string{"eq", "ge", "lt"}[g.n(3)], A: &enE{K: "nr"}, B: enC(1 + g.n(3))}
		case 2:
			r.Pat = &enE{K: "eq", A: &enE{K: "nr"}, B: enC(1 + g.n(2))}
			r.Pat2 = &enE{K: "ge", A: &enE{K: "nr"}, B: enC(2 + g.n(2))}
		case 3:
			r.Pat = g.effect(1)
		}
		if r.Pat != nil && g.coin(1, 5) {
			r.NoBody = true
		} else {
			r.Body = g.stmts(2, 1+g.n(3), false)
		}
		p.Rules = append(p.Rules, r)
	}
	g.place = "end"
	for i, ne := 0, g.n(3); i < ne; i++ {
		p.End = append(p.End, g.stmts(2, 1+g.n(4), false))
	}
	if len(p.Begin)+len(p.Rules)+len(p.End) == 0 {
		p.Begin = append(p.Begin, g.stmts(2, 2, false))
	}
	var input []string
	for i, n := 0, g.n(5); i < n; i++ {
		input = append(input, enRecords[g.n(len(enRecords))])
	}
	return p, input
}

// ---- the directed matrix -----------------------------------------------------------------------------------------------------------

var enTerminations = func() []string {
	ts := []string{"normal", "exit", "exit-code", "next", "return", "err:redirect-open", "err:write-to-reader", "err:read-from-writer",
		"err:call-depth", "err:format-stmt", "err:next-outside-rule"}
	for _, k := range enErrKindNames {
		ts = append(ts, "err:"+k)
	}
	return ts
}()

var (
	enBlocks    = []string{"begin", "begin2", "rule1", "rule2", "pattern", "end", "end2"}
	enVias      = []string{"direct", "func", "func2", "rec", "func-in-print"}
	enNests     = []string{"plain", "for", "while", "do", "forin", "if-then", "if-else", "whileget", "for-for"}
	enPositions = []string{"stmt", "printarg", "dest", "cond", "callarg", "exitcode", "retval", "assign-rhs", "wrapped"}
	enPres      = [][]enSinkUse{{}, {{"out", ""}}, {{"f1", ">"}}, {{"f2", ">>"}}, {{"c1", "|"}}, {{"c2", "|"}}, {{"devout", ">"}},
		{{"out", ""}, {"f1", ">"}, {"c1", "|"}}, {{"f1", ">"}, {"f2", ">>"}, {"f3", ">"}}, {{"out", ""}, {"f3", ">>"}, {"c2", "|"}, {"c1", "|"}}}
	enSyncs = []string{"none", "close", "fflush-name", "fflush-all", "close-first", "snapshot"}
)

type enCoord struct {
	T, Block, Via, Nest, Pos, Sync string
	Pre                            int
	Big                            bool
	pre                            []enSinkUse // the effective output-before (commands replaced by files when the case may not run any)
}

func (k enCoord) fields() map[string]string {
	var pre []string
	for _, su := range k.pre {
		pre = append(pre, su.sink+su.mode)
	}
	m := map[string]string{"ending": k.T, "block": k.Block, "via": k.Via, "nest": k.Nest, "position": k.Pos, "sync": k.Sync, "output-before": strings.Join(pre, ",")}
	if k.Big {
		m["big"] = "more than the 64 KiB stream buffer"
	}
	return m
}

// scenario builds the program of one matrix point; ok=false when the point does not exist (e.g. `return` outside a function).
func (g *enGen) scenario(k enCoord) (p *enProg, input []string, eff enCoord, ok bool) {
	var pre []enSinkUse
	for _, su := range enPres[k.Pre] {
		pre = append(pre, g.noCmdSink(su))
	}
	defer func() { eff = k; eff.pre = pre }()
	if g.noCmd && k.Sync == "snapshot" {
		k.Sync = "fflush-all"
	}
	g.sinks = append([]enSinkUse{{"out", ""}}, pre...)
	g.funcs = nil
	g.tag = 0
	inFunc := k.Via != "direct"
	blockPlace := map[string]string{"begin": "begin", "begin2": "begin", "rule1": "rule", "rule2": "rule", "pattern": "rule", "end": "end", "end2": "end"}[k.Block]
	isErrExpr := strings.HasPrefix(k.T, "err:") && enErrTexts[k.T[4:]] != nil
	// which points exist
	switch {
	case k.T == "return" && !inFunc,
		k.T == "next" && blockPlace != "rule",
		k.T == "err:next-outside-rule" && (blockPlace == "rule" || !inFunc),
		k.Block == "pattern" && !(isErrExpr || k.T == "err:call-depth" || inFunc),
		k.Pos == "retval" && !inFunc,
		k.Nest == "forin" && (k.Pos == "callarg" || k.T == "err:call-depth"),
		k.Nest == "whileget" && (k.T == "err:write-to-reader" || k.T == "err:read-from-writer" || k.Pos == "callarg" || k.T == "err:call-depth"):
		return nil, nil, k, false
	}
	if !isErrExpr {
		k.Pos = "stmt"
	}
	p = &enProg{}
	helper := &enFunc{Name: "fz", Params: []string{"p1", "p2"}, Body: []*enS{g.emitTo(enSinkUse{"out", ""}, "in-fz"), {K: "ret", E: enV("p1")}}}
	p.Funcs = append(p.Funcs, helper)
	if k.T == "err:call-depth" {
		p.Funcs = append(p.Funcs, enDeepFunc())
	}
	g.funcs = []*enFunc{helper}
	g.inFunc, g.place, g.loopD, g.noCalls = inFunc, blockPlace, 0, false
	if inFunc {
		g.place = "func"
	}

	// the terminator
	var term []*enS
	target := enSinkUse{"out", ""}
	if len(pre) > 0 {
		target = pre[g.n(len(pre))]
	}
	var errE *enE
	if isErrExpr {
		errE = &enE{K: "err", V: k.T[4:], N: g.n(8)}
	}
	switch k.T {
	case "normal":
	case "exit":
		term = []*enS{{K: "exit"}}
	case "exit-code":
		term = []*enS{{K: "exit", E: &enE{K: "add", A: enC(1 + g.n(7)), B: &enE{K: "postinc", V: "g2"}}}}
	case "next":
		term = []*enS{{K: "next"}}
	case "err:next-outside-rule":
		term = []*enS{{K: "next"}}
	case "return":
		term = []*enS{{K: "ret", E: g.pure(1)}}
	case "err:redirect-open":
		term = []*enS{g.emitTo(enSinkUse{"bad", []string{">", ">>"}[g.n(2)]}, "bad")}
	case "err:write-to-reader":
		term = []*enS{enExprS(&enE{K: "getlf", V: "r"}), g.emitTo(enSinkUse{"out", ""}, "got"), g.emitTo(enSinkUse{"r", []string{">", ">>"}[g.n(2)]}, "wr")}
		term[1].Pieces = append(term[1].Pieces, enP{SV: "gl", Field: -1})
	case "err:read-from-writer":
		if g.coin(1, 2) {
			term = []*enS{g.emitTo(enSinkUse{"f3", ">"}, "w3"), enExprS(&enE{K: "getlf", V: "f3"})}
		} else {
			term = []*enS{g.emitTo(enSinkUse{"f3", ">>"}, "w3"), {K: "whileget", Sink: "f3", Body: []*enS{g.emitTo(enSinkUse{"out", ""}, "never")}}}
		}
	case "err:call-depth":
		term = []*enS{enExprS(enCall("deep", enC(0)))}
	case "err:format-stmt":
		term = []*enS{{K: "errstmt", V: "format", Sink: target.sink, Mode: target.mode}}
	default:
		e := errE
		switch k.Pos {
		case "stmt":
			term = []*enS{enExprS(e)}
		case "printarg":
			s := g.emitTo(target, "pa")
			s.Pieces = append(s.Pieces, enPE(e), enLit("tail"))
			term = []*enS{s}
		case "dest":
			t := target
			if t.sink == "out" {
				t = enSinkUse{"f3", ">"}
			}
			s := g.emitTo(t, "de")
			s.DestE = e
			term = []*enS{s}
		case "cond":
			term = []*enS{{K: "if", E: &enE{K: "lt", A: e, B: enC(1)}, Body: []*enS{g.emitTo(target, "then")}, Else: []*enS{g.emitTo(target, "else")}}}
		case "callarg":
			term = []*enS{enExprS(enCall("fz", e))}
		case "exitcode":
			term = []*enS{{K: "exit", E: e}}
		case "retval":
			term = []*enS{{K: "ret", E: e}}
		case "assign-rhs":
			if g.coin(1, 2) {
				term = []*enS{{K: "assign", V: "g1", E: e}}
			} else {
				term = []*enS{enExprS(&enE{K: "addasg", V: "g1", A: e})}
			}
		default:
			term = []*enS{enExprS(g.wrapErr(g.wrapErr(e)))}
		}
	}

	// nesting
	lv := func() string { return g.loopVar() }
	at := 1 + g.n(3)
	wrapLoop := func(style int, body []*enS) []*enS {
		v := lv()
		g.loopD++
		inner := []*enS{g.emitTo(target, "it")}
		inner[0].Pieces = append(inner[0].Pieces, enPE(enV(v)))
		inner = append(inner, &enS{K: "if", E: &enE{K: "eq", A: enV(v), B: enC(at)}, Body: body})
		inner = append(inner, g.emitTo(target, "it-end"))
		g.loopD--
		return []*enS{{K: "loop", V: v, N: at + 1 + g.n(3), Style: style, Body: inner}}
	}
	body := term
	switch k.Nest {
	case "for":
		body = wrapLoop(0, term)
	case "while":
		body = wrapLoop(1, term)
	case "do":
		body = wrapLoop(2, term)
	case "for-for": // the inner loop uses the second loop variable
		outerV := lv()
		g.loopD = 1
		in := wrapLoop(g.n(3), term)
		g.loopD = 0
		o := []*enS{g.emitTo(target, "out-it")}
		o[0].Pieces = append(o[0].Pieces, enPE(enV(outerV)))
		body = []*enS{{K: "loop", V: outerV, N: 2, Style: g.n(3), Body: append(o, in...)}}
	case "forin":
		body = []*enS{{K: "forin", N: 1 + g.n(3), Body: append([]*enS{g.emitTo(target, "fi")}, term...)}}
	case "if-then":
		body = []*enS{{K: "if", E: &enE{K: "eq", A: enV("g0"), B: enV("g0")}, Body: term, Else: []*enS{g.emitTo(target, "not-taken")}}}
	case "if-else":
		body = []*enS{{K: "if", E: &enE{K: "ne", A: enV("g0"), B: enV("g0")}, Body: []*enS{g.emitTo(target, "not-taken")}, Else: term}}
	case "whileget":
		w := g.emitTo(enSinkUse{"out", ""}, "line")
		w.Pieces = append(w.Pieces, enP{SV: "gl", Field: -1})
		body = []*enS{{K: "whileget", Sink: "r", Body: append([]*enS{w}, term...)}}
	}
	// output before, synchronisation
	var before []*enS
	for _, su := range pre {
		for n := 1 + g.n(2); n > 0; n-- {
			before = append(before, g.emitTo(su, "pre"))
		}
	}
	if k.Big && len(pre) > 0 {
		su := pre[0]
		v := lv()
		line := &enS{K: "emit", Sink: su.sink, Mode: su.mode, Pieces: []enP{enLit("big-line-of-thirty-two-bytes-"), enPE(enV(v))}}
		before = append(before, &enS{K: "loop", V: v, N: 2200 + g.n(200), Style: 0, Body: []*enS{line}})
	}
	g.r.Shuffle(len(before), func(i, j int) { before[i], before[j] = before[j], before[i] })
	var sync []*enS
	named := func(su enSinkUse) bool { return su.sink != "out" && su.sink != "devout" }
	switch k.Sync {
	case "close":
		for _, su := range pre {
			if named(su) {
				sync = append(sync, enExprS(&enE{K: "close", V: su.sink}))
			}
		}
	case "close-first":
		for _, su := range pre {
			if named(su) {
				s := g.emitTo(enSinkUse{"out", ""}, "closed")
				s.Pieces = append(s.Pieces, enPE(&enE{K: "close", V: su.sink}))
				sync = append(sync, s)
				break
			}
		}
	case "fflush-name":
		for _, su := range pre {
			if named(su) {
				sync = append(sync, enExprS(&enE{K: "fflush", V: su.sink}))
			}
		}
	case "fflush-all":
		sync = append(sync, enExprS(&enE{K: "fflush"}))
	case "snapshot":
		for _, su := range pre {
			if su.sink == "f1" || su.sink == "f2" || su.sink == "f3" {
				sync = append(sync, enExprS(&enE{K: "snap", V: su.sink}))
			}
		}
		if len(sync) == 0 {
			sync = append(sync, enExprS(&enE{K: "snap", V: "f2"}))
		}
	}
	var after []*enS
	after = append(after, g.emitTo(enSinkUse{"out", ""}, "after"))
	for _, su := range pre {
		after = append(after, g.emitTo(su, "after"))
	}

	// where the output-before goes: with the terminator, or (half of the time, when there is a function) in the calling block
	payload := append(append(append([]*enS{}, before...), sync...), body...)
	payload = append(payload, after...)
	var blockBody []*enS
	switch k.Via {
	case "direct":
		blockBody = payload
	default:
		outer := []*enS{}
		if g.coin(1, 2) {
			outer = append(append(outer, before...), sync...)
			payload = append(append([]*enS{}, body...), after...)
		}
		fa := &enFunc{Name: "fa", Params: enFuncParams, Body: append(payload, &enS{K: "ret", E: enC(7)})}
		p.Funcs = append(p.Funcs, fa)
		entry := "fa"
		var arg *enE = enC(2)
		switch k.Via {
		case "func2":
			g.inFunc = true
			fb := &enFunc{Name: "fb", Params: enFuncParams, Body: []*enS{g.emitTo(target, "fb-in"), enExprS(enCall("fa", &enE{K: "add", A: enV("p1"), B: enC(1)})), g.emitTo(target, "fb-out")}}
			p.Funcs = append(p.Funcs, fb)
			entry = "fb"
		case "rec":
			down := g.emitTo(target, "down")
			down.Pieces = append(down.Pieces, enPE(enV("p1")))
			up := g.emitTo(target, "up")
			up.Pieces = append(up.Pieces, enPE(enV("p1")))
			fa.Name = "fr"
			fa.Body = append([]*enS{{K: "if", E: &enE{K: "gt", A: enV("p1"), B: enC(0)}, Body: []*enS{down,
				enExprS(enCall("fr", &enE{K: "sub", A: enV("p1"), B: enC(1)})), up, {K: "ret", E: enV("p1")}}}}, fa.Body...)
			entry = "fr"
			arg = enC([]int{1, 2, 5, 30, 200, 900}[g.n(6)])
		}
		g.inFunc = false
		outer = append(outer, g.emitTo(enSinkUse{"out", ""}, "before-call"))
		if k.Via == "func-in-print" {
			s := g.emitTo(target, "call-in-print")
			s.Pieces = append(s.Pieces, enPE(enCall(entry, arg)), enLit("|"))
			outer = append(outer, s)
		} else {
			outer = append(outer, enExprS(enCall(entry, arg)))
		}
		outer = append(outer, g.emitTo(enSinkUse{"out", ""}, "after-call"))
		blockBody = outer
	}
	g.inFunc = false

	// the surrounding program
	filler := func(label string) []*enS {
		ss := []*enS{g.emitTo(enSinkUse{"out", ""}, label)}
		for _, su := range pre {
			if g.coin(1, 2) {
				ss = append(ss, g.emitTo(su, label))
			}
		}
		return ss
	}
	input = []string{"a1 b1", "a2 b2 c2", "a3"}
	recRule := enRule{Body: filler("rec")}
	recRule.Body[0].Pieces = append(recRule.Body[0].Pieces, enPE(&enE{K: "nr"}), enP{Field: 1})
	switch k.Block {
	case "begin":
		p.Begin = [][]*enS{blockBody}
		if g.coin(2, 3) {
			p.Rules = []enRule{recRule}
		}
		if g.coin(2, 3) || len(p.Rules) > 0 {
			p.End = [][]*enS{filler("end")}
		}
	case "begin2":
		p.Begin = [][]*enS{filler("b1"), blockBody, filler("b3")}
		p.End = [][]*enS{filler("end")}
	case "rule1", "rule2":
		n := 1
		if k.Block == "rule2" {
			n = 2
		}
		p.Begin = [][]*enS{filler("begin")}
		p.Rules = []enRule{{Body: filler("r0")}, {Pat: &enE{K: "eq", A: &enE{K: "nr"}, B: enC(n)}, Body: blockBody}, recRule}
		p.End = [][]*enS{filler("end")}
	case "pattern":
		// the terminator is the pattern (an error expression, or a call of the function holding the payload)
		p.Begin = [][]*enS{append(append(filler("begin"), before...), sync...)}
		var pat *enE
		if k.Via == "direct" {
			pat = errE
			if k.T == "err:call-depth" {
				pat = enCall("deep", enC(0))
			}
		} else {
			// the call statement is the last-but-one statement of blockBody; use the call as the pattern
			for _, s := range blockBody {
				if s.K == "expr" && s.E.K == "call" {
					pat = s.E
				}
				if s.K == "emit" {
					for _, pc := range s.Pieces {
						if pc.E != nil && pc.E.K == "call" && pc.E.V != "fz" {
							pat = pc.E
						}
					}
				}
			}
		}
		if pat == nil {
			return nil, nil, k, false
		}
		if g.coin(1, 2) {
			pat = &enE{K: "and", A: &enE{K: "ge", A: &enE{K: "nr"}, B: enC(2)}, B: pat}
		}
		rl := enRule{Pat: pat, Body: filler("matched")}
		if g.coin(1, 3) {
			rl = enRule{Pat: &enE{K: "eq", A: &enE{K: "nr"}, B: enC(1)}, Pat2: pat, Body: filler("in-range")}
		}
		p.Rules = []enRule{{Body: filler("r0")}, rl, recRule}
		p.End = [][]*enS{filler("end")}
	case "end":
		p.Begin = [][]*enS{filler("begin")}
		if g.coin(1, 2) {
			p.Rules = []enRule{recRule}
		}
		p.End = [][]*enS{blockBody, filler("end2")}
	case "end2":
		p.Rules = []enRule{recRule}
		p.End = [][]*enS{filler("e1"), blockBody}
	}
	return p, input, k, true
}

// ---- the stream ---------------------------------------------------------------------------------------------------------------------

func enBuild(cs *enCase, p *enProg, input []string, init map[string]string, r *rand.Rand) bool {
	res, marks, ok, _ := enEvaluate(p, input, init)
	if !ok {
		return false
	}
	cs.prog, cs.marks, cs.Expected, cs.Init = p, marks, res, init
	cs.Input = ""
	for _, l := range input {
		cs.Input += l + "\n"
	}
	cs.A = enSource(p, nil)
	cs.B = enSource(p, rand.New(rand.NewSource(r.Int63())))
	// While a `print | command` child is alive os/exec's copy goroutine shares Config.Output with the interpreter (recorded finding
	// F25, property C13: bytes.Buffer.ReadFrom / bufio.Writer.ReadFrom park inside the writer even when the child writes nothing).
	// Programs with an output pipe therefore run with the writers that are only touched when there are bytes to write.
	kinds := enWriterKinds
	if strings.Contains(cs.A, " | ") {
		kinds = []string{"plain", "hold-until-Flush"}
	}
	cs.WriterA = kinds[r.Intn(len(kinds))]
	cs.WriterB = kinds[r.Intn(len(kinds))]
	cs.Replay = enReplayText
	return true
}

func enSpawns(marks map[string]int) int {
	n := marks["snapshots"]
	for m, k := range marks {
		if strings.HasPrefix(m, "opened:c") {
			n += k
		}
	}
	return n
}

// fixed points always run: the shapes of the seeded change C01-p3 (output lost after a run-time error) and neighbours
func enCorpus(withCmd bool) []enCoord {
	var ks []enCoord
	if withCmd {
		for _, t := range []string{"err:div0", "err:call-depth", "exit-code", "normal"} {
			for _, pre := range []int{4, 5} {
				for _, blk := range []string{"begin", "end"} {
					ks = append(ks, enCoord{T: t, Block: blk, Via: "direct", Nest: "plain", Pos: "stmt", Sync: "none", Pre: pre})
				}
			}
		}
		ks = append(ks, enCoord{T: "err:nf-negative", Block: "rule2", Via: "func", Nest: "plain", Pos: "stmt", Sync: "snapshot", Pre: 8})
		for _, t := range []string{"normal", "err:div0", "exit"} { // what a child process sees in a file the program is writing
			for _, pre := range []int{2, 3} {
				ks = append(ks, enCoord{T: t, Block: "begin", Via: "direct", Nest: "plain", Pos: "stmt", Sync: "snapshot", Pre: pre})
			}
		}
		return ks
	}
	for _, t := range []string{"err:div0", "err:regex-match", "err:nf-negative", "err:format-stmt", "err:call-depth", "err:read-from-writer", "err:redirect-open", "exit-code", "normal"} {
		for _, pre := range []int{1, 2, 3, 6, 8} {
			for _, blk := range []string{"begin", "rule2", "end"} {
				ks = append(ks, enCoord{T: t, Block: blk, Via: "direct", Nest: "plain", Pos: "stmt", Sync: "none", Pre: pre})
			}
		}
		ks = append(ks, enCoord{T: t, Block: "begin", Via: "func", Nest: "for", Pos: "printarg", Sync: "fflush-name", Pre: 8, Big: true})
	}
	return ks
}

func c01Ends(c *vh.Ctx) {
	t0 := time.Now()
	if pf := os.Getenv("C01_PROF"); pf != "" {
		f, _ := os.Create(pf)
		pprof.StartCPUProfile(f)
		defer pprof.StopCPUProfile()
	}
	g := &enGen{r: c.Rng}
	var cases []*enCase
	skipped := 0
	// Creating a process costs tens of milliseconds on a loaded machine, a run without one about a millisecond: programs with
	// commands (`| cat > file`, system snapshots) are a budgeted share of the cases, the rest use files only.
	spawnBudget, spawnsUsed, cmdCases := c.N(170, 3000), 0, 0
	build := func(cs *enCase, mk func() (*enProg, []string, bool), forceCmd bool) {
		g.noCmd = !(forceCmd || (spawnsUsed < spawnBudget && c.Rng.Intn(100) < 7))
		for {
			p, input, ok := mk()
			if !ok {
				return
			}
			if !enBuild(cs, p, input, g.initFiles(), c.Rng) {
				skipped++
				return
			}
			n := enSpawns(cs.marks)
			if n > 6 && !g.noCmd {
				g.noCmd = true
				continue
			}
			if n > 0 {
				cmdCases++
			}
			spawnsUsed += 2 * n
			cases = append(cases, cs)
			return
		}
	}
	addCoord := func(k enCoord, fam string, forceCmd bool) {
		cs := &enCase{Family: fam, Key: "ends:" + k.T}
		build(cs, func() (*enProg, []string, bool) {
			p, input, eff, ok := g.scenario(k)
			cs.Coord = eff.fields()
			return p, input, ok
		}, forceCmd)
	}
	for _, k := range enCorpus(true) {
		addCoord(k, "ends-corpus", true)
	}
	for _, k := range enCorpus(false) {
		addCoord(k, "ends-corpus", false)
	}
	pick := func(xs []string) string { return xs[c.Rng.Intn(len(xs))] }
	rndCoord := func() enCoord {
		return enCoord{T: pick(enTerminations), Block: pick(enBlocks), Via: pick(enVias), Nest: pick(enNests), Pos: pick(enPositions), Sync: pick(enSyncs),
			Pre: c.Rng.Intn(len(enPres)), Big: c.Rng.Intn(25) == 0}
	}
	// stratified: every ending x block x via; every ending x output-before x sync; every ending x nest x position; the rest random
	reps := c.N(1, 4)
	for rep := 0; rep < reps; rep++ {
		for _, t := range enTerminations {
			for bi, b := range enBlocks {
				for vi, v := range enVias {
					if !c.Thorough() && (bi+vi+rep+int(c.Seed))%3 != 0 {
						continue
					}
					k := rndCoord()
					k.T, k.Block, k.Via = t, b, v
					addCoord(k, "ends-matrix", false)
				}
			}
			for pre := range enPres {
				for _, s := range enSyncs {
					if !c.Thorough() && (pre+len(s)+rep+int(c.Seed))%3 != 0 {
						continue
					}
					k := rndCoord()
					k.T, k.Pre, k.Sync = t, pre, s
					addCoord(k, "ends-matrix", false)
				}
			}
			for _, n := range enNests {
				for _, ps := range enPositions {
					if !c.Thorough() && (len(n)+len(ps)+rep+int(c.Seed))%3 != 0 {
						continue
					}
					k := rndCoord()
					k.T, k.Nest, k.Pos = t, n, ps
					addCoord(k, "ends-matrix", false)
				}
			}
		}
	}
	nDirected := len(cases)
	for i, n := 0, c.N(700, 12000); i < n; i++ {
		cs := &enCase{Family: "ends-random", Key: "ends:random"}
		build(cs, func() (*enProg, []string, bool) { p, input := g.random(); return p, input, true }, false)
	}
	c.Note(fmt.Sprintf("endings stream: %d directed cases, %d random programs, %d outside the reference evaluator (step budget / number range); %d cases run commands (%d processes in all)",
		nDirected, len(cases)-nDirected, skipped, cmdCases, spawnsUsed))

	c.Note(fmt.Sprintf("timing: endings stream generation %.1fs", time.Since(t0).Seconds()))
	enRunCases(c, cases, nil)
	c.Note(fmt.Sprintf("timing: endings stream %.1fs", time.Since(t0).Seconds()))
}

// enRunCases runs every case in its two spellings on the real interpreter and compares each with the reference result.
func enRunCases(c *vh.Ctx, cases []*enCase, extra func(cs *enCase)) {
	type outT struct {
		a, b   enObs
		ta, tb bool
	}
	outs := make([]outT, len(cases))
	vh.Parallel(len(cases), func(i int) {
		cs := cases[i]
		var o outT
		o.a, o.ta = enRunReal(cs.A, cs, cs.WriterA, 20*time.Second)
		o.b, o.tb = enRunReal(cs.B, cs, cs.WriterB, 20*time.Second)
		outs[i] = o
	})
	// a run that hit the deadline is repeated alone with a long deadline (the machine may be loaded); a second timeout is a result
	for i, cs := range cases {
		if outs[i].ta || outs[i].tb {
			c.Hit("ends:repeated-after-deadline")
		}
		if outs[i].ta {
			outs[i].a, outs[i].ta = enRunReal(cs.A, cs, cs.WriterA, 60*time.Second)
		}
		if outs[i].tb {
			outs[i].b, outs[i].tb = enRunReal(cs.B, cs, cs.WriterB, 60*time.Second)
		}
	}
	parseBad := 0
	for i, cs := range cases {
		o := outs[i]
		if strings.HasPrefix(o.a.Err, "PARSE: ") || strings.HasPrefix(o.b.Err, "PARSE: ") {
			parseBad++
			if parseBad <= 3 {
				c.Note("endings stream: generated program does not parse (generator bug, case skipped): " + o.a.Err + " / " + o.b.Err + " :: " + cs.A + " :: " + cs.B)
			}
			c.Hit("skipped:parse")
			continue
		}
		c.Eval("ends\x00"+cs.A+"\x00"+cs.B+"\x00"+cs.Input+"\x00"+cs.WriterA+"\x00"+cs.WriterB+"\x00"+fmt.Sprint(cs.Init), cs.A != cs.B)
		c.OracleCase()
		c.Hit("oracle:" + cs.Family)
		c.Hit("ends:outcome:" + cs.Expected.Ending)
		if cs.Expected.Err {
			c.Hit("ends:error-kind:" + cs.Expected.ErrKind)
		}
		c.Hit("ends:Config.Output:" + cs.WriterA)
		c.Hit("ends:Config.Output:" + cs.WriterB)
		if cs.Coord != nil && cs.Coord["ending"] != "" {
			for _, f := range []string{"ending", "block", "via", "nest", "position", "sync", "output-before"} {
				c.Hit("ends:at:" + f + ":" + cs.Coord[f])
			}
			if cs.Coord["big"] != "" {
				c.Hit("ends:big-output")
			}
		}
		open := cs.marks["streams-open-at-end"]
		if open > 0 {
			c.Hit("ends:" + cs.Expected.Ending + "-with-unclosed-streams")
		}
		for m := range cs.marks {
			if strings.HasPrefix(m, "opened:") {
				c.Hit("ends:stream-" + m)
			}
		}
		if cs.marks["snapshots"] > 0 {
			c.Hit("ends:system-snapshot-of-a-file")
		}
		if cs.marks["max-depth"] >= 100 {
			c.Hit("ends:call-depth>=100")
		}
		if extra != nil {
			extra(cs)
		}
		nf := 0
		for n, content := range cs.Expected.Files {
			if cs.Init[n] != content {
				nf++
			}
		}
		c.Hit(fmt.Sprintf("ends:files-changed:%d", nf))
		if i%499 == 0 {
			c.Sample(map[string]interface{}{"case": cs})
		}
		fail := func(which, what, got string) {
			cp := *cs
			cp.Which = which
			c01Fail(len(cs.A)+len(cs.B), vh.Failure{Kind: "oracle", What: "compiled execution does not leave what direct evaluation of the syntax tree leaves (" + cs.Family + "): " + what,
				Case: cp, Got: got, Want: enCanonWant(cs.Expected)})
		}
		da, db := enDiff(o.a, cs.Expected), enDiff(o.b, cs.Expected)
		if o.ta {
			da = "the run did not end within 60 s"
		}
		if o.tb {
			db = "the run did not end within 60 s"
		}
		switch {
		case da != "":
			fail("program_a with config_output_a", da, enCanonObs(o.a))
		case db != "":
			fail("program_b with config_output_b", db, enCanonObs(o.b))
		case o.a.Err != o.b.Err:
			fail("both", "the two spellings end with different errors", enCanonObs(o.b))
		}
	}
	if parseBad*20 > len(cases) {
		panic("endings stream: too many generated programs do not parse")
	}
}

var _ = io.Discard
