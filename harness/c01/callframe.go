package main

// Call-frame stream of the oracle (implementation side only; the Lean model has no user calls).
//
// "Scalar args on the stack, array args by reference, missing args as nulls": the locals and omitted arguments of a user
// function must be fresh (unset / empty array) on EVERY call, whatever is left in the value-stack slots the frame reuses
// and however deep the recursion is (the stack grows past its initial size and its doublings). Each generated program
// is compared (1) with the direct expectation — closed-form result, zero violations counted by the program itself, array
// sizes — and (2) with the spelling that passes explicit never-assigned globals instead of omitting the scalar arguments
// (compiled to Global pushes instead of Nulls).
//
// Program shape: f(n, v, PA, l1..lm, r, i, t, A1..Aq) with r(n) = n + ctx(f(n-1, ...)), r(0) = 0, where ctx is a value
// transparent expression context that keeps temporaries on the stack during the call (arithmetic, a five-operand
// concatenation, a condition, an argument of another function, sprintf). On entry every local is checked to be unset and
// every array local empty; then all are dirtied; "junk" statements with many operands leave values in the slots that
// deeper frames will reuse; after the recursive call the frame's own values are checked again. Variants: return from
// inside loops (for, while, for-in), mutual recursion through a function with a different frame size, the local array
// passed down by reference, v passed by value and modified by the callee.

import (
	"fmt"
	"strings"

	"verifharness/vh"
)

type cfConfig struct {
	Depth, Scalars, Arrays, Ctx   int
	Junk, RetLoop, Mutual, PassLA bool
}

func (k cfConfig) key() string {
	return fmt.Sprintf("d%d-s%d-a%d-c%d-j%v-r%v-m%v-p%v", k.Depth, k.Scalars, k.Arrays, k.Ctx, k.Junk, k.RetLoop, k.Mutual, k.PassLA)
}

var cfCtxNames = []string{"plain", "arith", "concat", "cond", "funarg", "sprintf", "nestedarg"}

// cfProgram builds the program; explicit = pass never-assigned globals for the omitted scalar arguments.
func cfProgram(k cfConfig, explicit bool) string {
	var b strings.Builder
	locals := []string{}
	for i := 1; i <= k.Scalars; i++ {
		locals = append(locals, fmt.Sprintf("l%d", i))
	}
	work := []string{"r", "i", "t"}
	arrays := []string{}
	for i := 1; i <= k.Arrays; i++ {
		arrays = append(arrays, fmt.Sprintf("A%d", i))
	}
	params := append([]string{"n", "v", "PA"}, locals...)
	params = append(params, work...)
	params = append(params, arrays...)
	// helper functions
	b.WriteString("function id3(a, b, c, d, x1, x2) {\nif (x1 != \"\" || x1 != 0 || x2 != \"\" || x2 != 0) bad++\nx1 = \"i\" c; x2 = c + 1\nreturn c\n}\n")
	extra := ""
	if explicit {
		for range append(append([]string{}, locals...), work...) {
			extra += ", unset"
		}
	}
	down := "PA"
	if k.PassLA && k.Arrays > 0 {
		down = "A1"
	}
	call := "f(n - 1, \"V\", " + down + extra + ")"
	if k.Mutual {
		gextra := ""
		if explicit {
			gextra = ", unset, unset"
		}
		b.WriteString("function g(n, v, PA, x1, x2) {\nif (x1 != \"\" || x1 != 0 || length(x1) != 0 || x2 != \"\" || x2 != 0) bad++\nx1 = \"g\" n; x2 = n * 2\n" +
			"x2 = f(n, v, PA" + extra + ")\nif (x1 != \"g\" n) bad++\nreturn x2\n}\n")
		call = "g(n - 1, \"V\", " + down + gextra + ")"
	}
	b.WriteString("function f(" + strings.Join(params, ", ") + ") {\n")
	for _, l := range append(append([]string{}, locals...), work...) {
		b.WriteString("if (" + l + " != \"\" || " + l + " != 0 || length(" + l + ") != 0) bad++\n")
	}
	for _, a := range arrays {
		b.WriteString("if (length(" + a + ") != 0) bad++\nfor (kk in " + a + ") bad++\nif ((n + 1) in " + a + ") bad++\n")
	}
	b.WriteString("if (v != \"V\") bad++\nv = v \"m\" n\n")
	for j, l := range locals {
		if j%2 == 0 {
			b.WriteString(l + " = \"X\" n\n")
		} else {
			b.WriteString(l + " = n + 0.5\n")
		}
	}
	for _, a := range arrays {
		b.WriteString(a + "[n] = n; " + a + "[\"s\"] = \"q\"\n")
	}
	b.WriteString("PA[n] = n\n")
	if k.Junk {
		b.WriteString("t = \"j\" n \"j\" (n * 7) \"j\" \"k\" n \"z\"\nt = sprintf(\"%s%s%s%s%s%s%s%s\", n, \"J\", n, \"J\", n, \"J\", n, \"J\")\ni = (1 + (2 + (3 + (4 + (5 + (6 + (7 + n)))))))\n")
	}
	b.WriteString("if (n <= 0) return 0\n")
	var body string
	switch cfCtxNames[k.Ctx] {
	case "plain":
		body = "r = n + " + call + "\n"
	case "arith":
		body = "r = n + (1 + (2 * (3 + " + call + ")) - 7) / 2\n"
	case "concat":
		body = "t = \"ab\" n \"-\" " + call + " \"cd\"\nr = n + substr(t, 4 + length(n), length(t) - 5 - length(n))\n"
	case "cond":
		body = "if ((7 + (i = " + call + ")) > 6 && n > 0) r = n + i; else r = -1\n"
	case "funarg":
		body = "r = n + id3(1, \"two\", " + call + ", 4)\n"
	case "sprintf":
		body = "r = n + sprintf(\"%s%d%s\", \"\", " + call + ", \"\")\n"
	case "nestedarg":
		body = "r = n + id3(id3(1, 2, 3), n \"x\" n, id3(0, 0, " + call + "), \"q\" n)\n"
	}
	retForm := "return r\n"
	if k.RetLoop {
		switch k.Depth % 3 {
		case 0:
			b.WriteString("for (i = 0; i < 3; i++) {\nif (i == 1) {\n" + body + "break\n}\n}\n")
			retForm = "for (i = 0; i < 5; i++) {\nif (i == 2) return r\n}\nreturn -1\n"
		case 1:
			b.WriteString(body)
			retForm = "i = 0\nwhile (1) {\nif (++i == 2) return r\n}\n"
		default:
			b.WriteString("PA[\"loop\"] = 1\nfor (kk in PA) {\n" + body + "break\n}\ndelete PA[\"loop\"]\n")
			retForm = "for (kk in PA) return r\nreturn -1\n"
		}
	} else {
		b.WriteString(body)
	}
	// the frame's own values must have survived the call
	for j, l := range locals {
		if j%2 == 0 {
			b.WriteString("if (" + l + " != \"X\" n) bad++\n")
		} else {
			b.WriteString("if (" + l + " != n + 0.5) bad++\n")
		}
	}
	for j, a := range arrays {
		want := 2
		if j == 0 && k.PassLA {
			want = 3
			b.WriteString("if (!((n - 1) in " + a + ")) bad++\n")
		}
		b.WriteString(fmt.Sprintf("if (%s[n] != n || %s[\"s\"] != \"q\" || length(%s) != %d) bad++\n", a, a, a, want))
	}
	b.WriteString("if (v != \"Vm\" n) bad++\n" + retForm + "}\n")
	b.WriteString(fmt.Sprintf("BEGIN {\norig = \"V\"\nres = f(%d, orig, G%s)\nprint res\nprint bad + 0\nprint length(G), orig, (unset == \"\" && unset == 0)\n}\n", k.Depth, extra))
	return b.String()
}

func cfExpected(k cfConfig) string {
	lenG := k.Depth + 1
	if k.PassLA && k.Arrays > 0 {
		lenG = 1
	}
	return fmt.Sprintf("BEGIN { print %d; print 0; print %d, \"V\", 1 }", k.Depth*(k.Depth+1)/2, lenG)
}

func c01CallFrames(c *vh.Ctx) []c01Pair {
	var ps []c01Pair
	add := func(k cfConfig) {
		if k.Arrays == 0 {
			k.PassLA = false
		}
		a := cfProgram(k, false)
		ps = append(ps, c01Pair{Family: "callframe", Key: "callframe:direct:" + cfCtxNames[k.Ctx], A: cfExpected(k), B: a, Input: ""})
		ps = append(ps, c01Pair{Family: "callframe", Key: "callframe:explicit-unset-args", A: cfProgram(k, true), B: a, Input: ""})
		c.Hit(fmt.Sprintf("callframe:depth<=%d", []int{10, 25, 50, 100, 200, 400}[func() int {
			for i, d := range []int{10, 25, 50, 100, 200, 400} {
				if k.Depth <= d {
					return i
				}
			}
			return 5
		}()]))
		c.Hit(fmt.Sprintf("callframe:scalars%d-arrays%d", k.Scalars, k.Arrays))
	}
	rnd := func(depth int) cfConfig {
		return cfConfig{Depth: depth, Scalars: 1 + c.Rng.Intn(6), Arrays: c.Rng.Intn(3), Ctx: c.Rng.Intn(len(cfCtxNames)),
			Junk: c.Rng.Intn(3) != 0, RetLoop: c.Rng.Intn(3) == 0, Mutual: c.Rng.Intn(3) == 0, PassLA: c.Rng.Intn(2) == 0}
	}
	// depths around and beyond the growth points of the value stack (initial size 100, then doublings)
	depths := []int{1, 2, 3, 5, 7, 9, 12, 16, 20, 22, 24, 25, 26, 28, 33, 40, 50, 64, 80, 100, 130, 200, 300, 400}
	per := c.N(4, 24)
	for _, d := range depths {
		for j := 0; j < per; j++ {
			add(rnd(d))
		}
	}
	// depth sweeps with fixed frame shapes: every depth crosses the growth points at a different frame boundary
	sweeps := c.N(3, 14)
	maxD := c.N(70, 160)
	for s := 0; s < sweeps; s++ {
		k := rnd(0)
		for d := 1; d <= maxD; d++ {
			k.Depth = d
			add(k)
		}
	}
	// every context and every frame size at one depth past the first growth point
	for ctx := range cfCtxNames {
		for sc := 1; sc <= 6; sc++ {
			add(cfConfig{Depth: 30 + sc, Scalars: sc, Arrays: sc % 3, Ctx: ctx, Junk: true, RetLoop: ctx%2 == 1, Mutual: sc%2 == 0, PassLA: sc%2 == 1})
		}
	}
	// fixed programs with direct expectations: omitted arguments in sequences of calls of one expression
	fixed := [][2]string{
		{`function g(a, b, c, d) { s = "[" a "|" b "|" c "|" d "]"; b = "B"; c = 3; d = "D" a; return s } BEGIN { print g(1) g(1,2) g() g(1,2,3) g(1,2,3,4) g(); print g(g(1), g()) }`,
			`BEGIN { print "[1|||][1|2||][|||][1|2|3|][1|2|3|4][|||]"; print "[[1|||]|[|||]||]" }`},
		{`function g(a, l, A) { if (l != "" || length(A)) bad++; l = "L" a; A[a] = a; return a } BEGIN { for (i = 0; i < 200; i++) s += g(i) + g(i, "") * 0; print s, bad + 0 }`,
			`BEGIN { print 19900, 0 }`},
		{`function h(n, l) { if (l != "") bad++; l = n; return n <= 0 ? 0 : 1 + h(n - 1) } BEGIN { x = "a" "b" "c" "d" "e" "f" 1 2 3 4 5 6; print h(150), bad + 0 }`,
			`BEGIN { print 150, 0 }`},
		{`function fill(n, a, b, c, d, e) { a = b = c = d = e = "stale" n; return n <= 0 ? 0 : fill(n - 1) } function chk(n, a, b, c, d, e) { if (a b c d e != "") bad++; return n <= 0 ? 0 : chk(n - 1) } BEGIN { fill(90); chk(90); fill(40); print bad + 0; chk(120); print bad + 0 }`,
			`BEGIN { print 0; print 0 }`},
	}
	for _, f := range fixed {
		ps = append(ps, c01Pair{Family: "callframe", Key: "callframe:fixed", A: f[1], B: f[0], Input: ""})
	}
	return ps
}
