package main

import (
	"fmt"
	"math"
	"os"
	"reflect"
	"strings"

	"github.com/benhoyt/goawk/parser"

	"verifharness/vh"
)

// ---- real resolved tree -> prefix term for the Lean driver (reflection over internal/ast types) ------------------------

type termCtx struct {
	prog        *parser.Program
	fn          string
	unsupported string
	kinds       map[string]int
}

func (t *termCtx) bad(what string) []string {
	if t.unsupported == "" {
		t.unsupported = what
	}
	return []string{"X"}
}

func deref(v reflect.Value) reflect.Value {
	for v.IsValid() && (v.Kind() == reflect.Interface || v.Kind() == reflect.Ptr) {
		if v.IsNil() {
			return reflect.Value{}
		}
		v = v.Elem()
	}
	return v
}

func scopeLetter(s int) string {
	switch s {
	case 1:
		return "l"
	case 2:
		return "s"
	default:
		return "g"
	}
}

func (t *termCtx) scalar(name string) []string {
	scope, info, ok := t.prog.LookupVar(t.fn, name)
	if !ok || fmt.Sprint(info.Type) != "scalar" {
		return t.bad("var-not-scalar")
	}
	return []string{"V", scopeLetter(int(scope)), fmt.Sprint(info.Index)}
}

func (t *termCtx) array(name string) (string, string, bool) {
	scope, info, ok := t.prog.LookupVar(t.fn, name)
	if !ok || fmt.Sprint(info.Type) != "array" {
		return "", "", false
	}
	return scopeLetter(int(scope)), fmt.Sprint(info.Index), true
}

var c01BinTok = map[string]string{"+": "+", "-": "-", "*": "*", "/": "/", "^": "^", "%": "%", "==": "==", "!=": "!=", "<": "<", "<=": "<=",
	">": ">", ">=": ">=", "&&": "&&", "||": "||", "<concat>": "cat"}

func tokStr(v reflect.Value) string { return fmt.Sprint(v.Interface()) }

func (t *termCtx) exprs(v reflect.Value) []string {
	var out []string
	for i := 0; i < v.Len(); i++ {
		out = append(out, t.expr(v.Index(i))...)
	}
	return out
}

func (t *termCtx) expr(v reflect.Value) []string {
	v = deref(v)
	if !v.IsValid() {
		return t.bad("nil-expr")
	}
	name := v.Type().Name()
	t.kinds[name]++
	switch name {
	case "NumExpr":
		f := v.FieldByName("Value").Float()
		if f == math.Trunc(f) && f >= 0 && f < 9.2e18 {
			return []string{"N", "i", fmt.Sprint(uint64(f))}
		}
		return []string{"N", "f", fmt.Sprint(math.Float64bits(f))}
	case "StrExpr":
		return []string{"S", vh.HxS(v.FieldByName("Value").String())}
	case "VarExpr":
		return t.scalar(v.FieldByName("Name").String())
	case "FieldExpr":
		return append([]string{"F"}, t.expr(v.FieldByName("Index"))...)
	case "IndexExpr", "InExpr":
		sc, idx, ok := t.array(v.FieldByName("Array").String())
		ix := v.FieldByName("Index")
		if !ok || ix.Len() < 1 || ix.Len() > 2 {
			return t.bad(name + "-shape")
		}
		head := "I"
		if name == "InExpr" {
			head = "IN"
		}
		return append([]string{head, sc, idx, fmt.Sprint(ix.Len())}, t.exprs(ix)...)
	case "BinaryExpr":
		op, ok := c01BinTok[tokStr(v.FieldByName("Op"))]
		if !ok {
			return t.bad("binary-" + tokStr(v.FieldByName("Op")))
		}
		out := []string{"B", op}
		out = append(out, t.expr(v.FieldByName("Left"))...)
		return append(out, t.expr(v.FieldByName("Right"))...)
	case "UnaryExpr":
		return append([]string{"U", tokStr(v.FieldByName("Op"))}, t.expr(v.FieldByName("Value"))...)
	case "CondExpr":
		out := []string{"C"}
		out = append(out, t.expr(v.FieldByName("Cond"))...)
		out = append(out, t.expr(v.FieldByName("True"))...)
		return append(out, t.expr(v.FieldByName("False"))...)
	case "AssignExpr":
		out := []string{"="}
		out = append(out, t.expr(v.FieldByName("Left"))...)
		return append(out, t.expr(v.FieldByName("Right"))...)
	case "AugAssignExpr":
		out := []string{"A", tokStr(v.FieldByName("Op"))}
		out = append(out, t.expr(v.FieldByName("Left"))...)
		return append(out, t.expr(v.FieldByName("Right"))...)
	case "IncrExpr":
		pre := "post"
		if v.FieldByName("Pre").Bool() {
			pre = "pre"
		}
		return append([]string{tokStr(v.FieldByName("Op")), pre}, t.expr(v.FieldByName("Expr"))...)
	case "GroupingExpr":
		return append([]string{"G"}, t.expr(v.FieldByName("Expr"))...)
	case "UserCallExpr":
		info, ok := t.prog.LookupFunc(v.FieldByName("Name").String())
		if !ok || info.Native || info.Index >= len(t.prog.Compiled.Functions) {
			return t.bad("native-call")
		}
		fn := t.prog.Compiled.Functions[info.Index]
		args := v.FieldByName("Args")
		var scalars, refs []string
		ns, nr := 0, 0
		for i := 0; i < args.Len(); i++ {
			if i < len(fn.Arrays) && fn.Arrays[i] {
				a := deref(args.Index(i))
				if !a.IsValid() || a.Type().Name() != "VarExpr" {
					return t.bad("array-arg-shape")
				}
				sc, idx, ok := t.array(a.FieldByName("Name").String())
				if !ok {
					return t.bad("array-arg-not-array")
				}
				refs = append(refs, sc, idx)
				nr++
			} else {
				scalars = append(scalars, t.expr(args.Index(i))...)
				ns++
			}
		}
		out := []string{"K", fmt.Sprint(info.Index), fmt.Sprint(fn.NumScalars), fmt.Sprint(ns)}
		out = append(out, scalars...)
		out = append(out, fmt.Sprint(nr))
		return append(out, refs...)
	}
	return t.bad(name)
}

func (t *termCtx) list(v reflect.Value) []string {
	out := []string{"L", fmt.Sprint(v.Len())}
	for i := 0; i < v.Len(); i++ {
		out = append(out, t.stmt(v.Index(i))...)
	}
	return out
}

func (t *termCtx) stmt(v reflect.Value) []string {
	v = deref(v)
	if !v.IsValid() {
		return t.bad("nil-stmt")
	}
	name := v.Type().Name()
	t.kinds[name]++
	optStmt := func(f reflect.Value) []string {
		if !deref(f).IsValid() {
			return []string{"_"}
		}
		return t.stmt(f)
	}
	optExpr := func(f reflect.Value) []string {
		if !deref(f).IsValid() {
			return []string{"_"}
		}
		return t.expr(f)
	}
	switch name {
	case "ExprStmt":
		return append([]string{"e"}, t.expr(v.FieldByName("Expr"))...)
	case "PrintStmt":
		if v.FieldByName("Redirect").Int() != 0 {
			return t.bad("print-redirect")
		}
		args := v.FieldByName("Args")
		return append([]string{"p", fmt.Sprint(args.Len())}, t.exprs(args)...)
	case "IfStmt":
		out := append([]string{"if"}, t.expr(v.FieldByName("Cond"))...)
		out = append(out, t.list(v.FieldByName("Body"))...)
		return append(out, t.list(v.FieldByName("Else"))...)
	case "WhileStmt":
		out := append([]string{"w"}, t.expr(v.FieldByName("Cond"))...)
		return append(out, t.list(v.FieldByName("Body"))...)
	case "DoWhileStmt":
		out := append([]string{"d"}, t.list(v.FieldByName("Body"))...)
		return append(out, t.expr(v.FieldByName("Cond"))...)
	case "ForStmt":
		out := append([]string{"f"}, optStmt(v.FieldByName("Pre"))...)
		out = append(out, optExpr(v.FieldByName("Cond"))...)
		out = append(out, optStmt(v.FieldByName("Post"))...)
		return append(out, t.list(v.FieldByName("Body"))...)
	case "BreakStmt":
		return []string{"b"}
	case "ContinueStmt":
		return []string{"c"}
	case "NextStmt":
		return []string{"n"}
	case "ExitStmt":
		return append([]string{"x"}, optExpr(v.FieldByName("Status"))...)
	case "BlockStmt":
		return append([]string{"k"}, t.list(v.FieldByName("Body"))...)
	case "ReturnStmt":
		return append([]string{"r"}, optExpr(v.FieldByName("Value"))...)
	}
	return t.bad(name)
}

func numToken(f float64) string {
	if f == math.Trunc(f) && f >= 0 && f < 9.2e18 {
		return fmt.Sprintf("i:%d", uint64(f))
	}
	return fmt.Sprintf("f:%d", math.Float64bits(f))
}

func opcodeWords(code interface{}) string {
	v := reflect.ValueOf(code)
	parts := make([]string, v.Len())
	for i := range parts {
		parts[i] = fmt.Sprint(v.Index(i).Int())
	}
	return strings.Join(parts, " ")
}

type c01Block struct {
	Src   string `json:"program"`
	Where string `json:"block"`
	Term  string `json:"term"`
	want  string
	req   string
}

// c01Blocks converts every block of the program that lies in the modelled subset into a compile request.
func c01Blocks(c *vh.Ctx, src string, prog *parser.Program) []c01Block {
	comp := prog.Compiled
	var nums, strs []string
	for _, f := range comp.Nums {
		nums = append(nums, numToken(f))
	}
	for _, s := range comp.Strs {
		strs = append(strs, vh.HxS(s))
	}
	head := strings.Join(nums, " ") + " ; " + strings.Join(strs, " ") + " ; "
	ast := deref(reflect.ValueOf(&prog.ResolvedProgram.Program))
	var out []c01Block
	emit := func(where, kind, fn string, mk func(t *termCtx) []string, code interface{}) {
		t := &termCtx{prog: prog, fn: fn, kinds: map[string]int{}}
		term := strings.Join(mk(t), " ")
		if t.unsupported != "" {
			c.Hit("code:outside-model:" + t.unsupported)
			return
		}
		for k, n := range t.kinds {
			c.HitN("code:node:"+k, n)
		}
		out = append(out, c01Block{Src: src, Where: where, Term: term, want: opcodeWords(code), req: "compile " + kind + " " + head + term})
	}
	// all BEGIN blocks are compiled into one code array
	begin := ast.FieldByName("Begin")
	if begin.Len() > 0 {
		emit("BEGIN", "s", "", func(t *termCtx) []string {
			n := 0
			var body []string
			for i := 0; i < begin.Len(); i++ {
				n += begin.Index(i).Len()
				for j := 0; j < begin.Index(i).Len(); j++ {
					body = append(body, t.stmt(begin.Index(i).Index(j))...)
				}
			}
			return append([]string{"L", fmt.Sprint(n)}, body...)
		}, comp.Begin)
	}
	acts := ast.FieldByName("Actions")
	for i := 0; i < acts.Len(); i++ {
		a := deref(acts.Index(i))
		pat := a.FieldByName("Pattern")
		for j := 0; j < pat.Len(); j++ {
			jj := j
			emit(fmt.Sprintf("pattern %d.%d", i, j), "e", "", func(t *termCtx) []string { return t.expr(pat.Index(jj)) }, comp.Actions[i].Pattern[j])
		}
		body := a.FieldByName("Stmts")
		if !body.IsNil() && body.Len() > 0 {
			emit(fmt.Sprintf("action %d", i), "a", "", func(t *termCtx) []string { return t.list(body) }, comp.Actions[i].Body)
		}
	}
	end := ast.FieldByName("End")
	if end.Len() > 0 {
		// END blocks are compiled one after the other into one code array; each gets a Nop when its statements compile to
		// nothing (G18-2)
		emit("END", "E", "", func(t *termCtx) []string {
			var out []string
			for i := 0; i < end.Len(); i++ {
				out = append(out, t.list(end.Index(i))...)
			}
			return out
		}, comp.End)
	}
	fns := ast.FieldByName("Functions")
	for i := 0; i < fns.Len(); i++ {
		f := deref(fns.Index(i))
		name := f.FieldByName("Name").String()
		body := f.FieldByName("Body")
		emit("function "+name, "s", name, func(t *termCtx) []string { return t.list(body) }, comp.Functions[i].Body)
	}
	return out
}

// c01CodeCorrespondence: Lean `compile` of the real resolved tree == the real compiled code, word for word.
func c01CodeCorrespondence(c *vh.Ctx, srcs []string) {
	var blocks []c01Block
	seen := map[string]bool{}
	for _, src := range srcs {
		prog, err := c01Parse(src)
		if err != nil {
			continue
		}
		for _, b := range c01Blocks(c, src, prog) {
			if seen[b.req] {
				continue
			}
			seen[b.req] = true
			blocks = append(blocks, b)
		}
	}
	reqs := make([]string, len(blocks))
	for i, b := range blocks {
		reqs[i] = b.req
	}
	ans := c.LeanBatch(reqs)
	for i, a := range ans {
		b := blocks[i]
		if a == "unsupported" {
			c.Hit("code:term-rejected-by-driver")
			continue
		}
		c.Trace()
		c.Eval("code\x00"+b.req, len(b.want) > 40)
		c.Hit("code:compared-block")
		if i%499 == 0 {
			c.Sample(map[string]interface{}{"block": b, "code": b.want})
		}
		if a != "ok "+b.want && !(b.want == "" && a == "ok ") {
			c.Fail(vh.Failure{Kind: "correspondence", What: "Lean compile of the resolved tree differs from the real compiled code", Case: b, Got: b.want, Want: a})
		}
	}
}

// c01BehaviourCorrespondence: Lean eval and Lean compile+vm under the concrete semantics vs the real interpreter.
func c01BehaviourCorrespondence(c *vh.Ctx) {
	g := &c01Gen{r: c.Rng, stats: map[string]int{}, exact: true, noFn: true}
	n := c.N(600, 12000)
	type job struct {
		src, input, req string
		res             vh.RunResult
	}
	var jobs []job
	inputs := []string{"10 9 abc\n3 4\n", "1 2 3 4 5\n", "a\n\n7 7\n", "", "-3 0 b c\n"}
	fixed := []string{
		`BEGIN { x = 5; x += 3; print x; print x++ + ++x, x-- }`,
		`{ $2 = "b c"; print NF, $0; NF = 2; print; $5 = 1; print; print NF }`,
		`{ a[1] = $1; a["1"]++; print a[1], (1 in a), ("2" in a); a[1, 2] += 4; print a[1, 2] }`,
		`{ if ($1 < $2) print "lt"; else print "ge"; while (i < 3) { i++; if (i == 2) continue; print i }; do { j += 2 } while (j < 5); print j }`,
		`{ for (k = 0; k < 4; k++) { if (k == 1) continue; if (k == 3) break; print k }; print k }`,
		`$1 > 2 { print "big"; next } { print "small" } END { print NR; exit 3 }`,
		`BEGIN { print 1 " " 2 " " 3, "a" "b", 10 < 9, "10" < "9", (1 && "a"), (0 || ""), !3, -"4a", +"" }`,
		`{ print $1 $2 $3 NF; print ($NF)++ ; print $0; $(NF+2) = "c"; print $0, NF }`,
		`{ NF = 1; print $0; NF += 2; print $0 "|" NF }`,
		`BEGIN { exit 2 } END { print "end" }`,
	}
	for i := 0; i < n+len(fixed); i++ {
		var src string
		if i < len(fixed) {
			src = fixed[i]
		} else {
			src = g.program(2 + g.n(3)).a
			if i%2 == 1 {
				src = g.program(2 + g.n(3)).b
			}
		}
		in := inputs[g.n(len(inputs))]
		prog, err := c01Parse(src)
		if err != nil {
			c.Hit("behaviour:skipped-parse")
			continue
		}
		t := &termCtx{prog: prog, kinds: map[string]int{}}
		ast := deref(reflect.ValueOf(&prog.ResolvedProgram.Program))
		var items []string
		begin, acts, end := ast.FieldByName("Begin"), ast.FieldByName("Actions"), ast.FieldByName("End")
		for k := 0; k < begin.Len(); k++ {
			items = append(items, "B")
			items = append(items, t.list(begin.Index(k))...)
		}
		for k := 0; k < acts.Len(); k++ {
			a := deref(acts.Index(k))
			items = append(items, "A")
			pat := a.FieldByName("Pattern")
			switch pat.Len() {
			case 0:
				items = append(items, "_")
			case 1:
				items = append(items, t.expr(pat.Index(0))...)
			default:
				t.bad("range-pattern")
			}
			if a.FieldByName("Stmts").IsNil() {
				items = append(items, "_")
			} else {
				items = append(items, t.list(a.FieldByName("Stmts"))...)
			}
		}
		for k := 0; k < end.Len(); k++ {
			items = append(items, "E")
			items = append(items, t.list(end.Index(k))...)
		}
		if t.unsupported != "" || ast.FieldByName("Functions").Len() > 0 {
			c.Hit("behaviour:outside-model:" + t.unsupported)
			continue
		}
		jobs = append(jobs, job{src: src, input: in, req: "run " + vh.HxS(in) + " " + strings.Join(items, " ")})
	}
	vh.Parallel(len(jobs), func(i int) {
		prog, _ := c01Parse(jobs[i].src)
		jobs[i].res = c01RunProg(prog, jobs[i].input)
	})
	reqs := make([]string, len(jobs))
	for i := range jobs {
		reqs[i] = jobs[i].req
	}
	if d := os.Getenv("C01_DUMP"); d != "" {
		os.WriteFile(d, []byte(strings.Join(reqs, "\n")+"\n"), 0o644)
	}
	ans := c.LeanBatch(reqs)
	for i, a := range ans {
		j := jobs[i]
		parts := strings.Split(a, " ")
		if len(parts) != 3 {
			c.Hit("behaviour:driver-" + a)
			continue
		}
		want := fmt.Sprintf("ok:%s:%d", vh.HxS(j.res.Out), j.res.Status)
		if j.res.Err != "" || j.res.Panic != "" {
			want = "error"
		}
		if parts[0] == "error" && parts[1] == "error" && want != "error" {
			// the Lean semantics gives up (as an error) when a number reaches 2^53; the real run went on: not comparable
			c.Hit("behaviour:skipped-possible-overflow")
			continue
		}
		c.Trace()
		c.Eval("run\x00"+j.req, len(j.res.Out) > 0)
		c.Hit("behaviour:compared:" + strings.SplitN(want, ":", 2)[0])
		cs := map[string]string{"program": j.src, "input": j.input, "real": j.res.String()}
		if i%199 == 0 {
			c.Sample(cs)
		}
		if parts[0] != want {
			c.Fail(vh.Failure{Kind: "correspondence", What: "Lean reference evaluator (eval, concrete semantics) differs from the real interpreter", Case: cs, Got: want, Want: parts[0]})
		}
		if parts[1] != want {
			c.Fail(vh.Failure{Kind: "correspondence", What: "Lean compile+vm (concrete semantics) differs from the real interpreter", Case: cs, Got: want, Want: parts[1]})
		}
	}
	for k, v := range g.stats {
		c.HitN("behaviour-gen:"+k, v)
	}
}
