package main

import (
	"fmt"
	"math/rand"
	"strings"

	"verifharness/vh"
)

// Random program generator. Every generator function returns a pair of texts: `a` is the base spelling, `b` an equivalent
// spelling in which rewrites were applied at random sites (and recursively inside the operands). The rewrites are exactly
// the equivalences the property names; each changes the compiler path, never the meaning:
//   R1  condition `A op B`            -> `(A op B)`               (no fused jump)
//   R2  `if (c) S [else T]`           -> `if (!(c)) T else S`     (Not + JumpFalse instead of a fused jump)
//   R3  statement `L op= R`, `L++`    -> `(L op= R)` / `zz = (L op= R)`   (expression position + Drop)
//   R4  `L op= R` (R, index pure)     -> `L = L op (R)`
//   R5  `L++` / `L--` statement       -> `++L` / `L += 1` / `L = L + 1`
//   R6  concatenation chain            -> any bracketing
//   R7  `$N`                           -> `$(N)` / `$(N+0)`
//   R8  `a[N]`                         -> `a["N"]` / `a[(N)]`
//   R9  `while (c) S`                 -> `for (;c;) S` / `while (1) { if (!(c)) break; S }`
//   R10 `do S while (c)`, `for(p;c;q) S` without continue -> while forms
//   R11 `x && y`, `x || y`            -> nested ?:
//   R12 `c ? x : y`                   -> `(c) ? x : y`
type pr struct{ a, b string }

type c01Gen struct {
	r     *rand.Rand
	fn    bool // inside the function body (locals available)
	exact bool // only constructs and values for which the concrete Lean semantics is exact
	noFn   bool // never define functions, no builtin calls at all (behaviour tie with the Lean model)
	haveFn bool // the program defines f and h
	next  bool // `next` is allowed here (pattern-action block, outside functions)
	loops int
	// long: the expression generated since the flag was last cleared may yield a string longer than any value stored so far
	// (a concatenation, a read of $0 or of a computed field, a call of f). Such values are stored only in the write-only sink
	// variables zs0/zs1, so no stored string can be amplified by a loop (g0 = g0 g0 forty times would need a terabyte).
	long  bool
	// wide > 0: the program starts with a BEGIN block that fills the constant pools and the global table with `wide` entries, the
	// input record has 320 fields, and operands are also drawn from constants / globals / fields numbered wide..wide+5 — so the
	// inline operand words of the code take values all over the opcode number range (see wide.go)
	wide  int
	stats map[string]int
}

func (g *c01Gen) hit(k string) { g.stats[k]++ }
func (g *c01Gen) n(k int) int  { return g.r.Intn(k) }
func (g *c01Gen) coin(num, den int) bool {
	return g.r.Intn(den) < num
}
func same(s string) pr { return pr{s, s} }

func (g *c01Gen) numConst() string {
	if g.wide > 0 && g.coin(1, 2) {
		g.hit("wide:num")
		return fmt.Sprint(41 + g.n(6))
	}
	if g.exact || g.coin(3, 4) {
		return []string{"0", "1", "2", "3", "5", "10", "7", "100"}[g.n(8)]
	}
	return []string{"1.5", "0.25", "1e3", "2.0", "1e300", "0.1234567", "4294967296"}[g.n(7)]
}

func (g *c01Gen) strConst() string {
	if g.wide > 0 && g.coin(1, 2) {
		g.hit("wide:str")
		return fmt.Sprintf(`"ws%d"`, g.n(6))
	}
	if g.exact {
		return []string{`""`, `"a"`, `"abc"`, `"10"`, `"9"`, `"c1"`, `"-3"`, `"b c"`, `"0"`}[g.n(9)]
	}
	return []string{`""`, `"a"`, `"abc"`, `"10"`, `"9"`, `"x1"`, `"-3"`, `"b c"`, `"0"`, `"1e2"`, `" 7 "`, `"0x10"`, `"+5"`, `".5"`, `"nan"`}[g.n(15)]
}

func (g *c01Gen) scalarVar() string {
	if g.fn && g.coin(1, 2) {
		return []string{"l0", "l1"}[g.n(2)]
	}
	if g.wide > 0 && g.coin(1, 2) {
		g.hit("wide:global")
		return fmt.Sprintf("gw%d", g.n(4))
	}
	k := g.n(10)
	switch {
	case k < 7:
		return []string{"g0", "g1", "g2"}[g.n(3)]
	case k < 9:
		return "NF"
	default:
		return "NR"
	}
}

func (g *c01Gen) arrayName() string {
	if g.fn && g.coin(1, 2) {
		return "la"
	}
	return []string{"a0", "a1"}[g.n(2)]
}

// index list of an array reference
func (g *c01Gen) index(d int, pure bool) pr {
	mk := func() pr {
		switch g.n(5) {
		case 0, 1:
			n := []string{"1", "2", "3"}[g.n(3)]
			g.hit("expr:index-const")
			switch g.n(4) { // R8
			case 0:
				return pr{n, `"` + n + `"`}
			case 1:
				return pr{n, "(" + n + ")"}
			}
			return same(n)
		case 2:
			return same(g.strConst())
		default:
			if pure {
				return g.pure(d - 1)
			}
			return g.atom(d - 1)
		}
	}
	if g.coin(1, 6) {
		x, y := mk(), mk()
		g.hit("expr:index-multi")
		return pr{x.a + ", " + y.a, x.b + ", " + y.b}
	}
	return mk()
}

func (g *c01Gen) fieldIndex(d int, pure bool) pr {
	switch g.n(6) {
	case 0, 1, 2:
		n := []string{"0", "1", "2", "3", "4"}[g.n(5)]
		if g.wide > 0 && g.coin(1, 2) {
			g.hit("wide:field")
			n = fmt.Sprint(g.wide + g.n(6))
		}
		if n == "0" {
			g.long = true
		}
		g.hit("expr:field-const")
		switch g.n(4) { // R7
		case 0:
			return pr{n, "(" + n + ")"}
		case 1:
			return pr{n, "(" + n + "+0)"}
		}
		return same(n)
	case 3:
		g.long = true
		return same("NF")
	default:
		g.long = true
		if g.exact {
			k := fmt.Sprint(g.n(3))
			return pr{"(NF-" + k + ")", "(NF-" + k + ")"}
		}
		var e pr
		if pure {
			e = g.pure(d - 1)
		} else {
			e = g.expr(d - 1)
		}
		return pr{"(" + e.a + ")", "(" + e.b + ")"}
	}
}

// lvalue; pure = index expressions are side-effect free
func (g *c01Gen) lvalue(d int, pure bool) pr {
	switch g.n(6) {
	case 0, 1, 2:
		g.hit("lvalue:var")
		v := g.scalarVar()
		if v == "NF" || v == "NR" {
			// random programs never compute NF (a loop doing `NF *= 3` builds a million fields and takes seconds, and the Lean
			// record model is list based); NF is set by `NF = <0..5>` statements, and the directed lvalue family covers every
			// assignment form on NF and NR
			v = []string{"g0", "g1", "g2"}[g.n(3)]
		}
		return same(v)
	case 3:
		g.hit("lvalue:field")
		i := g.fieldIndex(d, pure)
		return pr{"$" + i.a, "$" + i.b}
	default:
		g.hit("lvalue:array")
		a := g.arrayName()
		i := g.index(d, pure)
		return pr{a + "[" + i.a + "]", a + "[" + i.b + "]"}
	}
}

// side-effect-free expression (operand level: primary or parenthesized)
func (g *c01Gen) pure(d int) pr {
	if d <= 0 {
		switch g.n(4) {
		case 0:
			return same(g.numConst())
		case 1:
			return same(g.strConst())
		case 2:
			return same(g.scalarVar())
		default:
			k := g.n(4)
			if k == 0 {
				g.long = true
			}
			return same("$" + []string{"0", "1", "2", "3"}[k])
		}
	}
	switch g.n(5) {
	case 0:
		return g.pure(0)
	case 1:
		l, r := g.pure(d-1), g.pure(d-1)
		op := []string{"+", "-", "*"}[g.n(3)]
		return pr{"(" + l.a + " " + op + " " + r.a + ")", "(" + l.b + " " + op + " " + r.b + ")"}
	case 2:
		l, r := g.pure(d-1), g.pure(d-1)
		op := c01Ops[g.n(6)]
		return pr{"(" + l.a + " " + op + " " + r.a + ")", "(" + l.b + " " + op + " " + r.b + ")"}
	case 3:
		i := g.fieldIndex(d, true)
		return pr{"$" + i.a, "$" + i.b}
	default:
		l := g.pure(d - 1)
		return pr{"(-" + l.a + ")", "(-" + l.b + ")"}
	}
}

// operand-level expression: primary, or a parenthesized expression
func (g *c01Gen) atom(d int) pr {
	if d <= 0 || g.coin(1, 3) {
		switch g.n(6) {
		case 0, 1:
			g.hit("expr:num")
			return same(g.numConst())
		case 2:
			g.hit("expr:str")
			return same(g.strConst())
		case 3, 4:
			g.hit("expr:var")
			return same(g.scalarVar())
		default:
			i := g.fieldIndex(0, true)
			g.hit("expr:field")
			return pr{"$" + i.a, "$" + i.b}
		}
	}
	if g.coin(1, 5) {
		g.hit("expr:array")
		a := g.arrayName()
		i := g.index(d, false)
		return pr{a + "[" + i.a + "]", a + "[" + i.b + "]"}
	}
	e := g.expr(d)
	return pr{"(" + e.a + ")", "(" + e.b + ")"}
}

// condition-position expression (bare comparison when possible so that the compiler fuses it)
func (g *c01Gen) cond(d int) pr { return g.cond2(d, false) }

// strict: the result must bind tighter than ?: and = (a bare comparison of operands, or an operand)
func (g *c01Gen) cond2(d int, strict bool) pr {
	if g.coin(2, 3) {
		l, r := g.atom(d-1), g.atom(d-1)
		op := c01Ops[g.n(6)]
		g.hit("cond:fused:" + op)
		a := l.a + " " + op + " " + r.a
		b := l.b + " " + op + " " + r.b
		switch g.n(4) { // R1
		case 0:
			b = "(" + b + ")"
			g.hit("rewrite:R1")
		case 1:
			if op == "==" || op == "!=" {
				neg := map[string]string{"==": "!=", "!=": "=="}[op]
				b = "!(" + l.b + " " + neg + " " + r.b + ")"
				g.hit("rewrite:R1neg")
			}
		}
		return pr{a, b}
	}
	g.hit("cond:general")
	if strict {
		return g.atom(d)
	}
	return g.expr(d)
}

func (g *c01Gen) concatChain(d int) pr {
	n := 2 + g.n(4)
	g.long = true
	g.hit(fmt.Sprintf("expr:concat%d", n))
	xa, xb := make([]string, n), make([]string, n)
	for i := range xa {
		o := g.atom(d - 1)
		// operands starting with a sign would be parsed as subtraction; atoms never do (parenthesized)
		xa[i], xb[i] = o.a, o.b
	}
	a := strings.Join(xa, " ")
	br := c01Bracketings(xb) // R6
	b := br[g.n(len(br))]
	if b != strings.Join(xb, " ") {
		g.hit("rewrite:R6")
	}
	return pr{a, b}
}

// assignment-like expression text (no outer parentheses): used both in statement and in expression position
type asg struct {
	pr
	kind     string // assign | aug | incr
	l, r     pr     // for aug: lvalue and right side
	op       string
	pureBoth bool
	post     bool
}

func (g *c01Gen) assignLike(d int) asg {
	switch g.n(4) {
	case 0:
		outer := g.long
		g.long = false
		r := g.expr(d - 1)
		isLong := g.long
		l := g.lvalue(d, false)
		if isLong {
			l = same([]string{"zs0", "zs1"}[g.n(2)])
			g.hit("assign:to-sink")
		}
		g.long = outer || isLong
		g.hit("assign:=")
		return asg{pr: pr{l.a + " = " + r.a, l.b + " = " + r.b}, kind: "assign"}
	case 1:
		pureBoth := g.coin(1, 2)
		var l, r pr
		if pureBoth {
			l, r = g.lvalue(d, true), g.pure(d-1)
		} else {
			l, r = g.lvalue(d, false), g.atom(d-1)
		}
		ops := []string{"+", "-", "*", "/", "%", "^"}
		if g.exact {
			ops = ops[:3]
		}
		op := ops[g.n(len(ops))]
		g.hit("assign:" + op + "=")
		return asg{pr: pr{l.a + " " + op + "= " + r.a, l.b + " " + op + "= " + r.b}, kind: "aug", l: l, r: r, op: op, pureBoth: pureBoth}
	default:
		pure := g.coin(1, 2)
		l := g.lvalue(d, pure)
		op := []string{"++", "--"}[g.n(2)]
		if g.coin(1, 2) {
			g.hit("assign:post" + op)
			return asg{pr: pr{l.a + op, l.b + op}, kind: "incr", l: l, op: op, post: true, pureBoth: pure}
		}
		g.hit("assign:pre" + op)
		return asg{pr: pr{op + l.a, op + l.b}, kind: "incr", l: l, op: op, pureBoth: pure}
	}
}

// general expression (text without outer parentheses; callers parenthesize when nesting)
func (g *c01Gen) expr(d int) pr {
	if d <= 0 {
		return g.atom(0)
	}
	k := g.n(16)
	if !g.exact && g.coin(1, 8) {
		return g.unmodelled(d)
	}
	switch k {
	case 0, 1:
		l, r := g.atom(d-1), g.atom(d-1)
		ops := []string{"+", "-", "*", "/", "%", "^"}
		if g.exact {
			ops = ops[:3]
		}
		op := ops[g.n(len(ops))]
		g.hit("expr:arith" + op)
		return pr{l.a + " " + op + " " + r.a, l.b + " " + op + " " + r.b}
	case 2, 3:
		l, r := g.atom(d-1), g.atom(d-1)
		op := c01Ops[g.n(6)]
		g.hit("expr:cmp-value" + op)
		return pr{l.a + " " + op + " " + r.a, l.b + " " + op + " " + r.b}
	case 4:
		l, r := g.atom(d-1), g.atom(d-1)
		op := []string{"&&", "||"}[g.n(2)]
		g.hit("expr:" + op)
		a := l.a + " " + op + " " + r.a
		b := l.b + " " + op + " " + r.b
		if g.coin(1, 3) { // R11
			g.hit("rewrite:R11")
			if op == "&&" {
				b = l.b + " ? (" + r.b + " ? 1 : 0) : 0"
			} else {
				b = l.b + " ? 1 : (" + r.b + " ? 1 : 0)"
			}
		}
		return pr{a, b}
	case 5:
		x := g.atom(d - 1)
		op := []string{"!", "-", "+"}[g.n(3)]
		g.hit("expr:unary" + op)
		return pr{op + x.a, op + x.b}
	case 6, 7:
		c, x, y := g.cond2(d-1, true), g.atom(d-1), g.atom(d-1)
		g.hit("expr:?:")
		b := c.b
		if g.coin(1, 3) { // R12
			b = "(" + b + ")"
			g.hit("rewrite:R12")
		}
		return pr{c.a + " ? " + x.a + " : " + y.a, b + " ? " + x.b + " : " + y.b}
	case 8, 9:
		return g.concatChain(d)
	case 10, 11, 12:
		g.hit("expr:assign-in-expr")
		return g.assignLike(d).pr
	case 13:
		a := g.arrayName()
		i := g.index(d, false)
		g.hit("expr:in")
		return pr{"(" + i.a + ") in " + a, "(" + i.b + ") in " + a}
	default:
		return g.atom(d)
	}
}

// constructs outside the Lean model (oracle only): builtins, user calls, regex match, sprintf
func (g *c01Gen) unmodelled(d int) pr {
	arg := func() pr {
		outer := g.long
		g.long = false
		a := g.atom(d - 1)
		if g.long {
			a = same(g.numConst())
		}
		g.long = outer
		return a
	}
	x, y := arg(), arg()
	k := g.n(7)
	if k == 2 || k == 5 {
		g.long = true
	}
	if !g.haveFn && (k == 2 || k == 5) {
		k = 0
	}
	switch k {
	case 0:
		g.hit("expr:call-length")
		return pr{"length(" + x.a + ")", "length(" + x.b + ")"}
	case 1:
		g.hit("expr:call-substr")
		return pr{"substr(" + x.a + ", 1, 2)", "substr(" + x.b + ", 1, 2)"}
	case 2:
		g.hit("expr:call-user")
		if g.fn {
			return pr{"h(" + x.a + ")", "h(" + x.b + ")"}
		}
		return pr{"f(" + x.a + ", " + y.a + ", a1)", "f(" + x.b + ", " + y.b + ", a1)"}
	case 3:
		g.hit("expr:match")
		return pr{x.a + " ~ \"^[a-c1]\"", x.b + " ~ \"^[a-c1]\""}
	case 4:
		g.hit("expr:sprintf")
		return pr{"sprintf(\"%s-%d\", " + x.a + ", " + y.a + ")", "sprintf(\"%s-%d\", " + x.b + ", " + y.b + ")"}
	case 5:
		g.hit("expr:call-user-few-args")
		if g.fn {
			return pr{"h()", "h()"}
		}
		return pr{"f(" + x.a + ")", "f(" + x.b + ")"}
	default:
		g.hit("expr:index-builtin")
		return pr{"index(" + x.a + ", " + y.a + ")", "index(" + x.b + ", " + y.b + ")"}
	}
}

type st struct {
	pr
	cont bool // contains a `continue` that belongs to the enclosing loop
}

func (g *c01Gen) block(d int, inLoop bool) st {
	n := 1 + g.n(3)
	var a, b strings.Builder
	cont := false
	for i := 0; i < n; i++ {
		s := g.stmt(d, inLoop)
		a.WriteString(s.a)
		b.WriteString(s.b)
		cont = cont || s.cont
	}
	return st{pr{a.String(), b.String()}, cont}
}

// cont resolves the `continue` placeholders of a loop body: `with` is what a continue of this loop must execute
func cont(body, with string) string { return strings.ReplaceAll(body, "@CONT@", with) }

const c01Cap = "if (++cap > 40) break\n"

func (g *c01Gen) stmt(d int, inLoop bool) st {
	k := g.n(20)
	if d <= 0 && k >= 9 {
		k = g.n(9)
	}
	if g.loops >= 3 && k >= 13 && k <= 17 {
		k = g.n(9)
	}
	switch {
	case k < 6 && g.coin(1, 12):
		g.hit("stmt:NF=const")
		return st{same("NF = " + fmt.Sprint(g.n(6)) + "\n"), false}
	case k < 6: // assignment-like statement
		x := g.assignLike(d)
		b := x.b
		switch x.kind {
		case "assign":
			if g.coin(1, 3) {
				b = "(" + b + ")"
				g.hit("rewrite:R3")
			}
		case "aug":
			switch g.n(4) {
			case 0:
				b = "(" + b + ")"
				g.hit("rewrite:R3")
			case 1:
				b = "zz = (" + b + ")"
				g.hit("rewrite:R3")
			case 2:
				if x.pureBoth {
					b = x.l.b + " = " + x.l.b + " " + x.op + " (" + x.r.b + ")"
					g.hit("rewrite:R4")
				}
			}
		case "incr":
			sign := map[string]string{"++": "+", "--": "-"}[x.op]
			switch g.n(6) {
			case 0:
				b = "(" + b + ")"
				g.hit("rewrite:R3")
			case 1:
				b = "zz = (" + b + ")"
				g.hit("rewrite:R3")
			case 2:
				if x.post {
					b = x.op + x.l.b
				} else {
					b = x.l.b + x.op
				}
				g.hit("rewrite:R5")
			case 3:
				b = x.l.b + " " + sign + "= 1"
				g.hit("rewrite:R5")
			case 4:
				if x.pureBoth {
					b = x.l.b + " = " + x.l.b + " " + sign + " 1"
					g.hit("rewrite:R5")
				}
			}
		}
		g.hit("stmt:expr")
		return st{pr{x.a + "\n", b + "\n"}, false}
	case k < 9:
		n := 1 + g.n(3)
		var xa, xb []string
		for i := 0; i < n; i++ {
			e := g.atom(d - 1)
			xa, xb = append(xa, e.a), append(xb, e.b)
		}
		g.hit("stmt:print")
		return st{pr{"print " + strings.Join(xa, ", ") + "\n", "print " + strings.Join(xb, ", ") + "\n"}, false}
	case k < 13: // if
		c := g.cond(d - 1)
		body := g.block(d-1, inLoop)
		if g.coin(1, 2) {
			g.hit("stmt:if")
			a := "if (" + c.a + ") {\n" + body.a + "}\n"
			b := "if (" + c.b + ") {\n" + body.b + "}\n"
			if g.coin(1, 4) { // R2
				b = "if (!(" + c.b + ")) {\n} else {\n" + body.b + "}\n"
				g.hit("rewrite:R2")
			}
			return st{pr{a, b}, body.cont}
		}
		g.hit("stmt:if-else")
		els := g.block(d-1, inLoop)
		a := "if (" + c.a + ") {\n" + body.a + "} else {\n" + els.a + "}\n"
		b := "if (" + c.b + ") {\n" + body.b + "} else {\n" + els.b + "}\n"
		if g.coin(1, 4) { // R2
			b = "if (!(" + c.b + ")) {\n" + els.b + "} else {\n" + body.b + "}\n"
			g.hit("rewrite:R2")
		}
		return st{pr{a, b}, body.cont || els.cont}
	case k < 15: // while
		g.loops++
		c := g.cond(d - 1)
		body := g.block(d-1, true)
		g.loops--
		g.hit("stmt:while")
		body.a, body.b = cont(body.a, "continue"), cont(body.b, "continue")
		a := "while (" + c.a + ") {\n" + c01Cap + body.a + "}\n"
		b := "while (" + c.b + ") {\n" + c01Cap + body.b + "}\n"
		switch g.n(5) { // R9
		case 0:
			b = "for (; " + c.b + "; ) {\n" + c01Cap + body.b + "}\n"
			g.hit("rewrite:R9")
		case 1:
			b = "while (1) {\nif (!(" + c.b + ")) break\n" + c01Cap + body.b + "}\n"
			g.hit("rewrite:R9")
		}
		return st{pr{a, b}, false}
	case k < 16: // do-while
		g.loops++
		body := g.block(d-1, true)
		c := g.cond(d - 1)
		g.loops--
		g.hit("stmt:do")
		a := "do {\n" + c01Cap + cont(body.a, "continue") + "} while (" + c.a + ")\n"
		b := "do {\n" + c01Cap + cont(body.b, "continue") + "} while (" + c.b + ")\n"
		if g.coin(1, 3) { // R10: a continue of a do-loop goes to the condition
			b = "while (1) {\n" + c01Cap + cont(body.b, "{\nif (!("+c.b+")) break\ncontinue\n}") + "if (!(" + c.b + ")) break\n}\n"
			g.hit("rewrite:R10")
			if body.cont {
				g.hit("rewrite:R10-with-continue")
			}
		}
		return st{pr{a, b}, false}
	case k < 18: // for
		g.loops++
		pre, post := g.assignLike(d-1), g.assignLike(d-1)
		c := g.cond(d - 1)
		body := g.block(d-1, true)
		g.loops--
		g.hit("stmt:for")
		hasCond := g.coin(4, 5)
		ca, cb := c.a, c.b
		if !hasCond {
			ca, cb = "", ""
			g.hit("stmt:for-nocond")
		}
		a := "for (" + pre.a + "; " + ca + "; " + post.a + ") {\n" + c01Cap + cont(body.a, "continue") + "}\n"
		b := "for (" + pre.b + "; " + cb + "; " + post.b + ") {\n" + c01Cap + cont(body.b, "continue") + "}\n"
		if hasCond && g.coin(1, 3) { // R10: a continue of a for-loop runs the post statement first; the cap check uses break only
			b = pre.b + "\nwhile (" + cb + ") {\n" + "if (++cap > 40) break\n" + cont(body.b, "{\n"+post.b+"\ncontinue\n}") + post.b + "\n}\n"
			g.hit("rewrite:R10")
			if body.cont {
				g.hit("rewrite:R10-with-continue")
			}
		}
		return st{pr{a, b}, false}
	case k < 19:
		if inLoop {
			if g.coin(1, 2) {
				g.hit("stmt:break")
				return st{same("break\n"), false}
			}
			g.hit("stmt:continue")
			return st{same("@CONT@\n"), true} // resolved by the enclosing loop (see cont)
		}
		if !g.fn && g.coin(1, 6) {
			if g.next && g.coin(1, 2) {
				g.hit("stmt:next")
				return st{same("next\n"), false}
			}
			e := g.atom(0)
			g.hit("stmt:exit")
			return st{pr{"exit " + e.a + "\n", "exit " + e.b + "\n"}, false}
		}
		b := g.block(d-1, inLoop)
		g.hit("stmt:block")
		return st{pr{"{\n" + b.a + "}\n", "{\n" + b.b + "}\n"}, b.cont}
	default:
		if g.exact {
			return g.stmt(d, inLoop)
		}
		switch g.n(3) {
		case 0:
			a := g.arrayName()
			i := g.index(d, false)
			g.hit("stmt:delete")
			return st{pr{"delete " + a + "[" + i.a + "]\n", "delete " + a + "[" + i.b + "]\n"}, false}
		case 1:
			a := g.arrayName()
			body := g.stmt(d-1, false) // order-insensitive: only counts iterations
			_ = body
			g.hit("stmt:for-in")
			return st{same("cnt = 0\nfor (kk in " + a + ") {\ncnt++\nif (cnt > 2) break\n}\nprint cnt\n"), false}
		default:
			e := g.atom(d - 1)
			g.hit("stmt:printf")
			return st{pr{"printf \"%s|%d\\n\", " + e.a + ", " + e.a + "\n", "printf \"%s|%d\\n\", " + e.b + ", " + e.b + "\n"}, false}
		}
	}
}

// program builds a whole program pair.
func (g *c01Gen) program(d int) pr {
	var a, b strings.Builder
	add := func(pa, pb string) { a.WriteString(pa); b.WriteString(pb) }
	withFn := !g.noFn && (!g.exact || g.coin(1, 2))
	g.haveFn = withFn
	if g.wide > 0 {
		fill := "BEGIN {\nzw = " + wideFiller(g.wide, func(i int) string { return fmt.Sprint(5000 + i) }, " + ") + "\n" +
			"zws = " + wideFiller(g.wide, func(i int) string { return fmt.Sprintf(`"s%d"`, i) }, " ") + "\n" +
			wideFiller(g.wide, func(i int) string { return fmt.Sprintf("ga%03d = %d", i, i) }, "; ") + "\n" +
			"gw0 = 7; gw1 = \"w\"; gw3 = 0.5\n}\n"
		add(fill, fill)
	}
	if withFn {
		g.fn = true
		body := g.block(d, false)
		ret := g.atom(d - 1)
		g.fn = false
		add("function f(l0, l1, la) {\nla[\"z\"] = 1\n"+body.a+"return "+ret.a+"\n}\n", "function f(l0, l1, la) {\nla[\"z\"] = 1\n"+body.b+"return "+ret.b+"\n}\n")
		add("function h(l0, l1, la) {\nl0++\nreturn l0 l1\n}\n", "function h(l0, l1, la) {\nl0++\nreturn l0 l1\n}\n")
	}
	if g.coin(1, 2) {
		x := g.block(d, false)
		add("BEGIN {\n"+x.a+"}\n", "BEGIN {\n"+x.b+"}\n")
		g.hit("block:BEGIN")
	}
	if g.coin(1, 3) {
		c := g.cond(d - 1)
		g.next = true
		x := g.block(d, false)
		g.next = false
		add(c.a+" {\n"+x.a+"}\n", c.b+" {\n"+x.b+"}\n")
		g.hit("block:pattern-action")
	}
	g.next = true
	x := g.block(d, false)
	g.next = false
	call := ""
	if withFn {
		call = "zf = f(g0, 2, a1)\nprint zf\n"
	}
	add("{\n"+x.a+call+"print $0, NF, g0, g1, g2, zs0, zs1\n}\n", "{\n"+x.b+call+"print $0, NF, g0, g1, g2, zs0, zs1\n}\n")
	if g.coin(1, 2) {
		y := g.block(d, false)
		tail := "print g0, g1, g2, a0[1], a1[2], length(a0), length(a1)\n}\n"
		if g.noFn {
			tail = "print g0, g1, g2, a0[1], a1[2], (1 in a0), (2 in a1)\n}\n"
		}
		add("END {\n"+y.a+tail, "END {\n"+y.b+tail)
		g.hit("block:END")
	}
	return pr{a.String(), b.String()}
}

var c01Inputs = []string{"10 9 abc\n3 4\n", "1 2 3 4 5\n", "x\n\n7 7\n", ""}

func c01RandomPairs(c *vh.Ctx, n int) []c01Pair {
	g := &c01Gen{r: c.Rng, stats: map[string]int{}}
	var ps []c01Pair
	for i := 0; i < n; i++ {
		d := 2 + g.n(3)
		if c.Thorough() && g.coin(1, 4) {
			d += 2
		}
		g.exact = i%3 == 0
		g.wide = 0
		if i%6 == 1 {
			g.wide = 40 + g.n(31)
			if g.coin(1, 5) {
				g.wide = 1 + g.n(300)
			}
		}
		p := g.program(d)
		in := c01Inputs[g.n(len(c01Inputs))]
		if g.wide > 0 {
			in = wideRecord() + "3 4\n"
		}
		if p.a == p.b {
			c.Hit("random:no-rewrite-site")
		}
		key := fmt.Sprintf("random:depth%d", d)
		if g.wide > 0 {
			key = "random:wide"
		}
		ps = append(ps, c01Pair{Family: "random", Key: key, A: p.a, B: p.b, Input: in})
	}
	for k, v := range g.stats {
		c.HitN("gen:"+k, v)
	}
	return ps
}
