package main

import (
	"fmt"
	"path/filepath"
	"regexp"
	"strings"

	"verifharness/vh"
)

// ---- corpus: witnesses of fixed / recorded findings and minimized past failures; always run ------------------------

func c01Corpus() []c01Pair {
	f := filepath.Join(c01Dir, "f")
	q := func(s string) string { return strings.ReplaceAll(s, "FILE", `"`+f+`"`) }
	ps := []c01Pair{
		// F01 (fixed): NaN under an inverted fused jump
		{Family: "corpus", Key: "corpus:F01", A: `BEGIN{x=log(-1); v=(x<1); if (v) print "y"; else print "n"; print (x<1)}`,
			B: `BEGIN{x=log(-1); if (x<1) print "y"; else print "n"; print (x<1)}`},
		{Family: "corpus", Key: "corpus:F01", A: `BEGIN{x=log(-1); n=0; while ((x<1)) { if (++n>3) break }; print n}`,
			B: `BEGIN{x=log(-1); n=0; while (x<1) { if (++n>3) break }; print n}`},
		{Family: "corpus", Key: "corpus:F01", A: `BEGIN{x=log(-1); n=0; for (;(x>=1);) { if (++n>3) break }; print n, ((x>=1)?"t":"f")}`,
			B: `BEGIN{x=log(-1); n=0; for (;x>=1;) { if (++n>3) break }; print n, (x>=1?"t":"f")}`},
		// F02 (fixed): getline into a field
		{Family: "corpus", Key: "corpus:F02", A: q(`{ getline t < FILE; $2 = t; print; print NF }`), B: q(`{ getline $2 < FILE; print; print NF }`), Input: "a b c\n"},
		{Family: "corpus", Key: "corpus:F02", A: q(`function f(a,b){ getline t < FILE; $2 = t; return 5 } { print 1+f(10,20) }`),
			B: q(`function f(a,b){ getline $2 < FILE; return 5 } { print 1+f(10,20) }`), Input: "a b c\n"},
		{Family: "corpus", Key: "corpus:F02", A: q(`{ r = (getline t < FILE); $(NF+2) = t; print r; print; print NF }`), B: q(`{ r = (getline $(NF+2) < FILE); print r; print; print NF }`), Input: "a b c\n"},
		{Family: "corpus", Key: "corpus:F02", A: q(`{ r = (getline t < "/nonexistent/x"); print r; print; print NF }`), B: q(`{ r = (getline $2 < "/nonexistent/x"); print r; print; print NF }`), Input: "a b c\n"},
		// G01-1 (recorded): ConcatMulti converts numbers after every operand was evaluated
		{Family: "concat", Key: "corpus:G01-1", A: `BEGIN { x = 0.1234567; print (x "") (CONVFMT="%.2g") }`, B: `BEGIN { x = 0.1234567; print x "" (CONVFMT="%.2g") }`,
			Tags: []string{"operands>=3", "later-operand-assigns-CONVFMT", "earlier-operand-nonint-number"}},
	}
	for i := range ps {
		if ps[i].Input == "" {
			ps[i].Input = c01Input
		}
	}
	return ps
}

// ---- family B: fused compare-and-branch vs comparison value ----------------------------------------------------------

var c01Ops = []string{"<", "<=", "==", "!=", ">", ">="}

func c01Compare(c *vh.Ctx) []c01Pair {
	vals := []string{"1", "2", `"abc"`, `"10"`, "$1", "$2", "$3", "u", "log(-1)", "-log(0)", `""`, "1e300*1e300", "$5", `" 1"`, "-1", "w[1]", "NR", "0.5"}
	if !c.Thorough() {
		vals = vals[:14]
	}
	var ps []c01Pair
	for _, a := range vals {
		for _, b := range vals {
			for _, op := range c01Ops {
				e := a + " " + op + " " + b
				ref := "{ v = (" + e + "); print v }"
				variants := [][2]string{
					{"if", "{ if (" + e + ") print 1; else print 0 }"},
					{"ifgrp", "{ if ((" + e + ")) print 1; else print 0 }"},
					{"ifnoelse", "{ r = 0; if (" + e + ") r = 1; print r }"},
					{"ifnot", "{ if (!(" + e + ")) print 0; else print 1 }"},
					{"vthen", "{ v = (" + e + "); if (v) print 1; else print 0 }"},
					{"cond", "{ print ((" + e + ") ? 1 : 0) }"},
					{"condraw", "{ x = " + e + " ? 1 : 0; print x }"},
					{"while", "{ i = 0; while (" + e + ") { if (++i >= 3) break }; print (i > 0) }"},
					{"for", "{ i = 0; for (; " + e + "; ) { if (++i >= 3) break }; print (i > 0) }"},
					{"forpost", "{ i = 0; for (; " + e + "; i++) { if (i >= 3) break }; print (i > 0) }"},
					{"dowhile", "{ i = 0; do { if (++i >= 3) break } while (" + e + "); print (i > 1) }"},
					{"pattern", e + " { m = 1 } { print m + 0 }"},
					{"and", "{ if (1 && " + e + ") print 1; else print 0 }"},
					{"viavars", "{ p = " + a + "; q = " + b + "; if (p " + op + " q) print 1; else print 0 }"},
					{"infunc", "function f(p, q) { if (p " + op + " q) return 1; return 0 } { print f(" + a + ", " + b + ") }"},
				}
				nan := strings.Contains(e, "log(-1)") || strings.Contains(e, "1e300*1e300") || strings.Contains(e, "log(0)")
				for _, v := range variants {
					key := "cmp:" + v[0] + ":" + op
					if nan {
						key += ":naninf"
					}
					ps = append(ps, c01Pair{Family: "compare", Key: key, A: ref, B: v[1], Input: c01Input})
				}
			}
		}
	}
	// loops whose fused condition changes value while running (exercises both the entry jump and the back jump)
	for _, op := range c01Ops {
		for _, k := range []string{"3", "0", "-2", `"2"`, "$2", "log(-1)", "u"} {
			for _, step := range []string{"i++", "i--", "i += 2"} {
				e := "i " + op + " " + k
				mk := func(cond string) [3]string {
					return [3]string{
						"{ n = 0; for (i = 0; " + cond + "; " + step + ") { if (++n > 12) break }; print n, i }",
						"{ n = 0; i = 0; while (" + cond + ") { " + step + "; if (++n > 12) break }; print n, i }",
						"{ n = 0; i = 0; do { " + step + "; if (++n > 12) break } while (" + cond + "); print n, i }",
					}
				}
				f, g := mk(e), mk("("+e+")")
				for j := range f {
					ps = append(ps, c01Pair{Family: "compare", Key: "cmp:loop:" + op, A: g[j], B: f[j], Input: c01Input})
				}
			}
		}
	}
	return ps
}

// ---- family A: statement position vs expression position for every lvalue kind -----------------------------------------

type c01LV struct {
	kind, lhs string
	fn        bool // needs to be inside the function
}

var c01LVs = []c01LV{
	{"global", "g", false}, {"local", "loc", true},
	{"special", "NR", false}, {"special", "NF", false}, {"special", "OFS", false}, {"special", "FNR", false}, {"special", "RSTART", false}, {"special", "SUBSEP", false},
	{"field", "$2", false}, {"field", "$0", false}, {"field", "$(k)", false}, {"field", "$NF", false}, {"field", "$(NF+2)", false}, {"field", "$7", false}, {"field", "$(-1)", false},
	{"garray", "a[1]", false}, {"garray", `a["s"]`, false}, {"garray", "a[k]", false}, {"garray", "a[1,2]", false}, {"garray", `a[k,"x"]`, false},
	{"larray", "la[1]", true}, {"larray", "la[k,2]", true}, {"larray", "pa[1]", true},
}

var c01Inits = []string{"", "5", `"abc"`, `"3x"`, "$2", "2.5", "-1"}

// op forms: %s is the lvalue
var c01Forms = []struct{ name, form string }{
	{"assign-num", "%s = 7"}, {"assign-str", `%s = "s t"`}, {"assign-field", "%s = $1"}, {"assign-self", "%s = %[1]s"},
	{"postinc", "%s++"}, {"preinc", "++%s"}, {"postdec", "%s--"}, {"predec", "--%s"},
	{"add", "%s += 3"}, {"sub", "%s -= 3"}, {"mul", "%s *= 3"}, {"div", "%s /= 2"}, {"mod", "%s %%= 3"}, {"pow", "%s ^= 2"},
	{"div0", "%s /= 0"}, {"mod0", "%s %%= u"}, {"add-field", "%s += $1"}, {"add-sidefx", "%s += (k = 2)"},
}

func c01Body(fn bool, body string) string {
	if fn {
		return "function f(pa, loc, la, t, k2) { " + body + " } { f(a); print a[1], length(a) }"
	}
	return "{ " + body + " }"
}

func c01Lvalues(c *vh.Ctx) []c01Pair {
	var ps []c01Pair
	reads := `; print "v", %s; print $0; print NF, NR, k, length(a)`
	for li, l := range c01LVs {
		for ii, init := range c01Inits {
			for fi, f := range c01Forms {
				for _, fn := range []bool{false, true} {
					if l.fn && !fn {
						continue
					}
					if !c.Thorough() && fn && !l.fn && (init == `"3x"` || init == "-1" || init == "2.5") {
						continue // quick tier: globals inside a function get fewer initial values
					}
					if !c.Thorough() && ii >= 2 && (li+ii+fi+int(c.Seed))%3 != 0 {
						continue // quick tier: unset and 5 always, the other initial values on a seed-dependent third of the grid
					}
					setup := "k = 3; "
					if init != "" {
						setup += l.lhs + " = " + init + "; "
					}
					stmt := fmt.Sprintf(f.form, l.lhs)
					rd := fmt.Sprintf(reads, l.lhs)
					if fn {
						rd += `; print length(la)`
					}
					a := c01Body(fn, setup+stmt+rd)
					alts := [][2]string{
						{"group", "(" + stmt + ")"},
						{"value", "t = (" + stmt + ")"},
						{"cond", "if ((" + stmt + ") || 1) { }"},
					}
					for _, alt := range alts {
						b := c01Body(fn, setup+alt[1]+rd)
						where := "main"
						if fn {
							where = "func"
						}
						ps = append(ps, c01Pair{Family: "stmt-vs-expr", Key: "lv:" + l.kind + ":" + f.name + ":" + where, A: a, B: b, Input: "p q r s\n"})
					}
				}
			}
		}
	}
	return ps
}

// ---- family C: x op= e  vs  x = x op (e) -------------------------------------------------------------------------------

func c01AugExplicit(c *vh.Ctx) []c01Pair {
	var ps []c01Pair
	rhs := []string{"3", `"2x"`, "$1", "u", "0", "2.5", "-1", "g2 + 1", `a["z"]`}
	ops := []string{"+", "-", "*", "/", "%", "^"}
	for li, l := range c01LVs {
		for ii, init := range c01Inits {
			for oi, op := range ops {
				for ri, r := range rhs {
					if !c.Thorough() && (init == `"3x"` || init == "-1") && r != "3" {
						continue
					}
					if !c.Thorough() && (li+ii+oi+ri+int(c.Seed))%3 != 0 {
						continue // quick tier: a seed-dependent third of the grid
					}
					setup := "k = 3; g2 = 4; "
					if init != "" {
						setup += l.lhs + " = " + init + "; "
					}
					rd := fmt.Sprintf(`; print "v", %s; print $0; print NF, NR, length(a)`, l.lhs)
					a := c01Body(l.fn, setup+l.lhs+" = "+l.lhs+" "+op+" ("+r+")"+rd)
					b := c01Body(l.fn, setup+l.lhs+" "+op+"= "+r+rd)
					b2 := c01Body(l.fn, setup+"t = ("+l.lhs+" "+op+"= "+r+")"+rd)
					ps = append(ps, c01Pair{Family: "aug-vs-explicit", Key: "aug:" + l.kind + ":" + op + "=:stmt", A: a, B: b, Input: "7 q r s\n"})
					ps = append(ps, c01Pair{Family: "aug-vs-explicit", Key: "aug:" + l.kind + ":" + op + "=:expr", A: a, B: b2, Input: "7 q r s\n"})
				}
			}
		}
	}
	return ps
}

// ---- family D: regrouped concatenations ---------------------------------------------------------------------------------

// all full binary bracketings of operands xs (kept in order)
func c01Bracketings(xs []string) []string {
	if len(xs) == 1 {
		return []string{xs[0]}
	}
	var res []string
	for i := 1; i < len(xs); i++ {
		for _, l := range c01Bracketings(xs[:i]) {
			for _, r := range c01Bracketings(xs[i:]) {
				ll, rr := l, r
				if i > 1 {
					ll = "(" + l + ")"
				}
				if len(xs)-i > 1 {
					rr = "(" + r + ")"
				}
				res = append(res, ll+" "+rr)
			}
		}
	}
	return res
}

var c01ConvAssign = regexp.MustCompile(`CONVFMT\s*(=[^=]|\+\+|--|[-+*/%^]=)`)

func c01Concat(c *vh.Ctx) []c01Pair {
	pool := []struct{ e, class string }{
		{"g", "numfrac"}, {`"s"`, "str"}, {"$1", "field"}, {"$2", "field"}, {"7", "int"}, {"1.5", "numfrac"}, {"u", "unset"},
		{"(i++)", "sidefx"}, {`(h = h "q")`, "sidefx"}, {"NR", "special"}, {"a[1]", "array"}, {"(-1)", "int"}, {"(g*2)", "numfrac"},
		{`""`, "str"}, {"(1e6*10)", "int"}, {"(++$2)", "sidefx"}, {"(NF=2)", "sidefx"}, {"$0", "field"},
	}
	var ps []c01Pair
	setups := []string{"g = 0.1234567; ", `g = 0.1234567; CONVFMT = "%.2g"; `, `g = 3.0000001; OFMT = "%.3g"; `}
	draws := c.N(6, 40)
	for n := 2; n <= 6; n++ {
		for d := 0; d < draws; d++ {
			xs := make([]string, n)
			for i := range xs {
				xs[i] = pool[c.Rng.Intn(len(pool))].e
			}
			flat := strings.Join(xs, " ")
			br := c01Bracketings(xs)
			if n == 6 && !c.Thorough() {
				c.Rng.Shuffle(len(br), func(i, j int) { br[i], br[j] = br[j], br[i] })
				br = br[:10]
			}
			setup := setups[c.Rng.Intn(len(setups))]
			for _, contextFmt := range []string{`print %s; print i, h, $0`, `v = %s; print v; print i, h, $0`} {
				a := "{ " + setup + fmt.Sprintf(contextFmt, flat) + " }"
				for _, b := range br {
					if b == flat {
						continue
					}
					ps = append(ps, c01Pair{Family: "concat", Key: fmt.Sprintf("concat:%d", n), A: a, B: "{ " + setup + fmt.Sprintf(contextFmt, b) + " }", Input: c01Input})
				}
			}
		}
	}
	// the recorded class G01-1, enumerated: a later operand assigns CONVFMT
	for _, first := range []struct{ e, class string }{{"g", "numfrac"}, {"7", "int"}, {`"s"`, "str"}, {"$2", "field"}} {
		for _, conv := range []string{`(CONVFMT="%.2g")`, `(CONVFMT = "%.3g")`} {
			for n := 2; n <= 4; n++ {
				xs := []string{first.e}
				for len(xs) < n-1 {
					xs = append(xs, `""`)
				}
				xs = append(xs, conv)
				flat := strings.Join(xs, " ")
				for _, b := range c01Bracketings(xs) {
					if b == flat {
						continue
					}
					p := c01Pair{Family: "concat", Key: "concat:convfmt", A: "{ g = 0.1234567; print " + b + " }", B: "{ g = 0.1234567; print " + flat + " }", Input: c01Input}
					p.Tags = c01ConcatTags(xs, []string{first.class})
					ps = append(ps, p)
				}
			}
		}
	}
	return ps
}

// c01ConcatTags computes the classifier facts of a flat concatenation from its operand texts and classes.
func c01ConcatTags(xs []string, classes []string) []string {
	var tags []string
	if len(xs) >= 3 {
		tags = append(tags, "operands>=3")
	}
	for j := 1; j < len(xs); j++ {
		if c01ConvAssign.MatchString(xs[j]) {
			tags = append(tags, "later-operand-assigns-CONVFMT")
			for i := 0; i < j && i < len(classes); i++ {
				if classes[i] == "numfrac" {
					tags = append(tags, "earlier-operand-nonint-number")
				}
			}
			break
		}
	}
	return tags
}

// ---- family E: constant field / array index shortcuts, and F: getline into a field ----------------------------------------

func c01Shortcuts() []c01Pair {
	in := "p q r s\n"
	pairs := [][2]string{
		{`{ print $2 }`, `{ print $(1+1) }`},
		{`{ print $2 }`, `{ k = 2; print $k }`},
		{`{ print $2 }`, `{ print $(2) }`},
		{`{ print $0 }`, `{ print $(0) }`},
		{`{ print $0 }`, `{ k = 0; print $k }`},
		{`{ print $1.5 }`, `{ k = 1.5; print $k }`},
		{`{ print $2.0 }`, `{ print $2 }`},
		{`{ print $1e0 }`, `{ print $1 }`},
		{`{ print $9 }`, `{ print $(9) }`},
		{`{ print $2147483647 }`, `{ k = 2147483647; print $k }`},
		{`{ print $2147483648 }`, `{ k = 2147483648; print $k }`},
		{`{ print $4294967298 }`, `{ k = 4294967298; print $k }`},
		{`{ print $1e30 }`, `{ k = 1e30; print $k }`},
		{`{ print $-1 }`, `{ k = -1; print $k }`},
		{`{ $3 = "X"; print; print NF }`, `{ $(3) = "X"; print; print NF }`},
		{`{ $6 = "X"; print; print NF }`, `{ k = 6; $k = "X"; print; print NF }`},
		{`{ $2++; print }`, `{ $(2)++; print }`},
		{`{ $2 += 4; print }`, `{ $(1+1) += 4; print }`},
		{`{ n = 2; print $n++, n }`, `{ n = 2; print $(n)++, n }`},
		{`{ print $NF }`, `{ print $(NF) }`},
		{`{ a["1"] = "v"; print a["1"], ("1" in a), length(a) }`, `{ a[1] = "v"; print a[1], (1 in a), length(a) }`},
		{`{ a["1"] = "v"; print a["1"], ("1" in a), length(a) }`, `{ k = 1; a[k] = "v"; print a[k], (k in a), length(a) }`},
		{`{ a["1"] = "v"; print a["1"] }`, `{ a[1.0] = "v"; print a[1e0] }`},
		{`{ a["1"] = "v"; print a["1"] }`, `{ a[01] = "v"; print a[(1)] }`},
		{`{ a[1] = "v"; print a["1"], a["01"] == "", length(a) }`, `{ a["1"] = "v"; print a[1], a["01"] == "", length(a) }`},
		{`{ a["1", "2"] = "v"; print a[1,2], ((1,2) in a) }`, `{ i = 1; j = 2; a[i,j] = "v"; print a[1 SUBSEP 2], ((i,j) in a) }`},
		{`{ a[1,2] = "v"; for (k in a) { split(k, p, SUBSEP); print p[1], p[2] } }`, `{ a["1","2"] = "v"; for (k in a) { split(k, p, SUBSEP); print p[1], p[2] } }`},
		{`{ a[1.5] = "v"; for (k in a) print k }`, `{ k = 1.5; a[k] = "v"; for (k in a) print k }`},
		{`{ CONVFMT = "%.2g"; a[12] = "v"; for (k in a) print k }`, `{ CONVFMT = "%.2g"; k = 12; a[k] = "v"; for (k in a) print k }`},
		{`{ CONVFMT = "%.2g"; a[0.123456] = "v"; for (k in a) print k }`, `{ CONVFMT = "%.2g"; k = 0.123456; a[k] = "v"; for (k in a) print k }`},
		{`{ a[123456789012] = 1; for (k in a) print k }`, `{ k = 123456789012; a[k] = 1; for (k in a) print k }`},
		{`{ a[9007199254740993] = 1; for (k in a) print k }`, `{ k = 9007199254740993; a[k] = 1; for (k in a) print k }`},
		{`{ a[9223372036854775807] = 1; for (k in a) print k }`, `{ k = 9223372036854775807; a[k] = 1; for (k in a) print k }`},
		{`{ a[1e30] = 1; for (k in a) print k }`, `{ k = 1e30; a[k] = 1; for (k in a) print k }`},
		{`{ a[1e999] = 1; for (k in a) print k }`, `{ k = 1e999; a[k] = 1; for (k in a) print k }`},
		{`{ a[1]++; a[1] += 2; delete a[1]; print length(a), (1 in a) }`, `{ a["1"]++; a["1"] += 2; delete a["1"]; print length(a), ("1" in a) }`},
		{`function f(la) { la[1] = 5; la[1]++; print la["1"], (1 in la) } { f(b) ; print b[1] }`, `function f(la) { la["1"] = 5; la["1"]++; print la[1], ("1" in la) } { f(b) ; print b["1"] }`},
		{`{ x++; print x }`, `{ x += 1; print x }`},
		{`{ x = "3x"; x++; print x }`, `{ x = "3x"; x = x + 1; print x }`},
		{`{ x--; print x }`, `{ x -= 1; print x }`},
		{`{ print x++ + x++, x }`, `{ t1 = x; x = x + 1; t2 = x; x = x + 1; print (t1 + 0) + (t2 + 0), x }`},
		{`{ print ++x + ++x, x }`, `{ x = x + 1; t1 = x; x = x + 1; t2 = x; print t1 + t2, x }`},
		{`{ x = "ab"; y = x++; print y, x }`, `{ x = "ab"; y = x + 0; x = x + 1; print y, x }`},
		{`{ print length() }`, `{ print length($0) }`},
		{`{ if (1 in a) print "in"; else print "out"; print length(a) }`, `{ if ("1" in a) print "in"; else print "out"; print length(a) }`},
		{`{ print (1 && 2), (0 || "a"), ("" && x++), x }`, `{ print (1 ? (2 ? 1 : 0) : 0), (0 ? 1 : ("a" ? 1 : 0)), ("" ? (x++ ? 1 : 0) : 0), x }`},
	}
	var ps []c01Pair
	for _, p := range pairs {
		ps = append(ps, c01Pair{Family: "shortcut", Key: "shortcut", A: p[0], B: p[1], Input: in})
	}
	// break / continue targets of every loop kind against the explicit spelling
	for _, p := range [][2]string{
		{`{ for (i = 0; i < 5; i++) { if (i == 2) continue; print i }; print i }`, `{ i = 0; while (i < 5) { if (i == 2) { i++; continue }; print i; i++ }; print i }`},
		{`{ for (i = 0; i < 5; i++) { if (i == 2) continue; if (i == 4) break; print i }; print i }`, `{ i = 0; while (1) { if (!(i < 5)) break; if (i == 2) { i++; continue }; if (i == 4) break; print i; i++ }; print i }`},
		{`{ i = 0; do { i++; if (i == 2) continue; print i } while (i < 5); print i }`, `{ i = 0; while (1) { i++; if (i == 2) { if (!(i < 5)) break; continue }; print i; if (!(i < 5)) break }; print i }`},
		{`{ i = 0; while (i < 5) { i++; if (i == 2) continue; print i }; print i }`, `{ for (i = 0; i < 5; ) { i++; if (i == 2) continue; print i }; print i }`},
		{`{ for (i = 0; i < 3; i++) { for (j = 0; j < 3; j++) { if (j == 1) continue; if (i == 1) break; print i, j }; print "o", i, j } }`,
			`{ i = 0; while (i < 3) { j = 0; while (j < 3) { if (j == 1) { j++; continue }; if (i == 1) break; print i, j; j++ }; print "o", i, j; i++ } }`},
		{`{ for (;;) { if (++n > 3) break; if (n == 2) continue; print n }; print n }`, `{ while (1) { if (++n > 3) break; if (n == 2) continue; print n }; print n }`},
		{`{ for (i = 0; i < 4; i++) if (i % 2) continue; else print i }`, `{ for (i = 0; i < 4; i++) { if (!(i % 2)) print i } }`},
	} {
		ps = append(ps, c01Pair{Family: "shortcut", Key: "loop-targets", A: p[0], B: p[1], Input: "a\n"})
	}
	// G18-1 (fixed): an action body that compiles to no instruction is still an action (it gets a Nop)
	for _, p := range [][2]string{
		{`/a/ { }`, `/a/ { { } }`}, {`/a/ { }`, `/a/ { { { } } { } }`}, {`/a/ { print }`, `/a/`}, {`{ } END { print NR }`, `{ { } } END { print NR }`},
		{`/a/ { } { print "x" }`, `/a/ { { } } { print "x" }`},
		{`BEGIN { print "b" } END { }`, `BEGIN { print "b" } END { { } }`}, {`{ n++ } END { } END { print n }`, `{ n++ } END { { } { } } END { print n }`},
	} {
		ps = append(ps, c01Pair{Family: "shortcut", Key: "corpus:G18-1", A: p[0], B: p[1], Input: "a\nb\nca\n"})
	}
	return ps
}
