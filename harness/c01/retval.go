package main

// "Return-value" stream of the C01 oracle: the VALUE of a user-function call, for every way the callee can be left and every way
// the caller can look at the value.
//
// How an activation is left: `return expr` (a constant, a variable, a set or never-set local, a nested call, an expression around
// a nested call), a bare `return`, falling off the end; at the top level of the body or from inside if / else / for / while / do /
// for-in / getline-loop nests up to three deep at a chosen iteration; in a recursive function at the bottom or on the way up.
// What the activation did before it was left: nothing, calls whose value was dropped / stored / printed / tested and that
// themselves returned a value, returned nothing, fell off the end, recursed — before the nest or inside it, right before the
// ending. How the caller uses the value: as a string (print operand), a number (+ 0, unary minus), a truth value (if, ?:, !, &&,
// ||), a subscript, an argument (handed on and handed back, or tested in the callee), a concatenation operand, under
// length(), compared with a number, tested for the uninitialised value (`v == 0 && v == ""`, true for that value only), stored in
// a global or a local first, dropped in statement position before another use, two calls in one expression, as a return value
// of the caller (the value travels up several activations), as a pattern, as an exit code.
//
// Oracle: the real interpreter against the reference evaluator of endsref.go (direct evaluation of the syntax tree: a call's
// value is the value of the `return expr` that left it, and the uninitialised value otherwise), in two spellings — the canonical
// one and one in which a final bare `return` is dropped or added, `return` is spelled `return lu` (lu a local that is never
// assigned), `return e` is spelled `lr = e; return lr`, plus the expression / loop / print spellings of the endings stream.
// Functions keep their for-in arrays in locals, so nested activations do not disturb each other's loops.

import (
	"fmt"
	"math/rand"
	"sort"
	"strings"
	"time"

	"verifharness/vh"
)

var rvParams = []string{"p1", "p2", "l1", "li", "lj", "lk", "lc", "lu", "lr", "LT0", "lq0", "lkk0", "LT1", "lq1", "lkk1", "LT2", "lq2", "lkk2"}

// rvPrefix: what the programs of the stream rely on — the test for the uninitialised value and the table XK
func rvPrefix(src string) string {
	pre := ""
	if strings.Contains(src, "isnull(") {
		pre += "function isnull(x) { return x == 0 && x == \"\" }\n"
	}
	if strings.Contains(src, "XK[") {
		pre += "BEGIN { XK[\"\"] = -1; for (xq = -20; xq <= 60; xq++) XK[xq] = xq + 100 }\n"
	}
	return pre + src
}

var (
	rvInners = []string{"none", "value-dropped", "value-stored", "value-printed", "value-tested", "bare", "fall-off", "recursion", "value-in-loop", "value-then-bare"}
	rvEnds   = []string{"return-const", "return-expr", "return-call", "return-expr-around-call", "return-unset-local", "return-set-local", "bare-return", "fall-off"}
	rvNests  = []string{"plain", "if-then", "if-else", "for", "while", "do", "forin", "whileget", "for-forin", "forin-forin", "forin-if", "while-for-forin", "if-forin-if"}
	rvWheres = []string{"before-the-nest", "inside-the-nest"}
	rvUses   = []string{"string", "number", "minus", "if", "cond-expr", "not", "and", "or", "subscript", "argument-and-back", "argument-tested-in-callee",
		"concatenation", "length", "compare", "is-uninitialised", "stored-global", "stored-in-expression", "dropped-then-used", "two-calls", "returned-by-caller",
		"stored-local-in-caller"}
)

type rvSpec struct {
	Inner, Where, Nest, End, Use string
}

type rvGen struct {
	g   *enGen
	r   *rand.Rand
	tag int
	fns []*enFunc // callable so far
	rec bool      // the function under construction may call itself (it has a base case)
	me  string
	dep int // loop nesting depth inside the function under construction
	// directed programs: the calls an activation makes go to the leaf functions hv (returns a value), hb (bare return), ho (falls off
	// the end) as the point of the matrix says; random programs call any function defined so far
	direct bool
}

func (rv *rvGen) n(k int) int        { return rv.r.Intn(k) }
func (rv *rvGen) coin(a, b int) bool { return rv.r.Intn(b) < a }

func (rv *rvGen) emit(label string, pieces ...enP) *enS {
	rv.tag++
	return &enS{K: "emit", Sink: "out", Pieces: append([]enP{enLit(fmt.Sprintf("%s%d:", label, rv.tag))}, pieces...)}
}

func rvAdd(a, b *enE) *enE { return &enE{K: "add", A: a, B: b} }
func rvEq(a, b *enE) *enE  { return &enE{K: "eq", A: a, B: b} }

// helper functions every program of the stream has
func rvHelpers() []*enFunc {
	return []*enFunc{
		{Name: "fid", Params: []string{"p1"}, Body: []*enS{{K: "ret", E: enV("p1")}}},
		{Name: "fisn", Params: []string{"p1"}, Body: []*enS{{K: "ret", E: &enE{K: "isnull", A: enV("p1")}}}},
	}
}

// small argument of a call
func (rv *rvGen) arg(inFunc bool) *enE {
	switch k := rv.n(8); {
	case k < 4:
		return enC(rv.n(5))
	case k < 6 && inFunc:
		return enV("p1")
	case k < 7 && inFunc:
		return &enE{K: "sub", A: enV("p1"), B: enC(1)}
	case k < 7:
		return &enE{K: "nr"}
	}
	return rv.g.pure(1)
}

func (rv *rvGen) callTo(f *enFunc, inFunc bool) *enE {
	args := []*enE{rv.arg(inFunc)}
	if rv.coin(1, 4) {
		args = append(args, rv.arg(inFunc))
	}
	return enCall(f.Name, args...)
}

// a call that gives a value ("v"), nothing by a bare return ("b"), nothing by falling off the end ("o") — as far as the generator
// can tell: in random programs any function defined so far
func (rv *rvGen) classCall(class string, inFunc bool) *enE {
	if rv.direct {
		return enCall(map[string]string{"v": "hv", "b": "hb", "o": "ho"}[class], rv.arg(inFunc))
	}
	return rv.anyCall(inFunc)
}

// a call of some function defined so far
func (rv *rvGen) anyCall(inFunc bool) *enE {
	if rv.direct {
		return rv.classCall([]string{"v", "v", "v", "v", "b", "o"}[rv.n(6)], inFunc)
	}
	if len(rv.fns) == 0 {
		return enCall("fid", enC(3+rv.n(4)))
	}
	// later functions nest more: prefer them
	i := len(rv.fns) - 1 - rv.n(len(rv.fns))
	if rv.coin(1, 2) {
		i = len(rv.fns) - 1 - rv.n((len(rv.fns)+1)/2)
	}
	return rv.callTo(rv.fns[i], inFunc)
}

// ---- what the caller does with the value ------------------------------------------------------------------------------------------

func (rv *rvGen) use(kind string, call *enE, inFunc bool) []*enS {
	gv := []string{"g1", "g2", "g3"}[rv.n(3)]
	switch kind {
	case "string":
		return []*enS{rv.emit("s", enLit("<"), enPE(call), enLit(">"))}
	case "number":
		return []*enS{rv.emit("n", enPE(rvAdd(call, enC(0))))}
	case "minus":
		return []*enS{rv.emit("m", enPE(&enE{K: "neg", A: call}))}
	case "if":
		return []*enS{{K: "if", E: call, Body: []*enS{rv.emit("true")}, Else: []*enS{rv.emit("false")}}}
	case "cond-expr":
		return []*enS{rv.emit("c", enPE(&enE{K: "cond", A: call, B: enC(1), C: enC(2)}))}
	case "not":
		return []*enS{rv.emit("not", enPE(&enE{K: "not", A: call}))}
	case "and":
		return []*enS{rv.emit("and", enPE(&enE{K: "and", A: call, B: enC(1)}), enLit(","), enPE(&enE{K: "and", A: enC(1), B: call}))}
	case "or":
		return []*enS{rv.emit("or", enPE(&enE{K: "or", A: call, B: enC(0)}))}
	case "subscript":
		return []*enS{rv.emit("k", enPE(&enE{K: "key", A: call}))}
	case "argument-and-back":
		if rv.coin(1, 2) {
			return []*enS{rv.emit("ab", enPE(&enE{K: "isnull", A: enCall("fid", call)}))}
		}
		return []*enS{rv.emit("ab", enLit("<"), enPE(enCall("fid", call)), enLit(">"))}
	case "argument-tested-in-callee":
		return []*enS{rv.emit("at", enPE(enCall("fisn", call)))}
	case "concatenation":
		return []*enS{rv.emit("cat", enPE(&enE{K: "catlen", A: call}))}
	case "length":
		return []*enS{rv.emit("len", enPE(&enE{K: "len", A: call}))}
	case "compare":
		return []*enS{rv.emit("cmp", enPE(rvEq(call, enC(0))), enLit(","), enPE(&enE{K: "lt", A: enC(rv.n(3)), B: rvAdd(call, enC(0))}))}
	case "is-uninitialised":
		return []*enS{rv.emit("u", enPE(&enE{K: "isnull", A: call}))}
	case "stored-global":
		return []*enS{{K: "assign", V: gv, E: call},
			rv.emit("sg", enPE(&enE{K: "isnull", A: enV(gv)}), enLit("<"), enPE(enV(gv)), enLit(">"), enPE(rvAdd(enV(gv), enC(0))))}
	case "stored-in-expression":
		return []*enS{rv.emit("se", enPE(&enE{K: "isnull", A: &enE{K: "asg", V: gv, A: call}}), enLit("<"), enPE(enV(gv)), enLit(">"))}
	case "dropped-then-used":
		return []*enS{enExprS(call), rv.emit("d", enLit("<"), enPE(rv.anyCall(inFunc)), enLit(">"))}
	case "two-calls":
		other := rv.anyCall(inFunc)
		if rv.coin(1, 2) {
			return []*enS{rv.emit("2", enLit("<"), enPE(call), enLit("|"), enPE(other), enLit(">"))}
		}
		return []*enS{rv.emit("2", enPE(&enE{K: "isnull", A: call}), enLit(","), enPE(rvAdd(other, enC(0))), enLit(","), enPE(&enE{K: "isnull", A: other}))}
	}
	panic("use kind " + kind)
}

// ---- function bodies -------------------------------------------------------------------------------------------------------------------

func (rv *rvGen) ending(kind string) []*enS {
	switch kind {
	case "return-const":
		return []*enS{{K: "ret", E: enC(5 + rv.n(40))}}
	case "return-expr":
		return []*enS{{K: "ret", E: rv.g.pure(2)}}
	case "return-call":
		return []*enS{{K: "ret", E: rv.anyCall(true)}}
	case "return-expr-around-call":
		if rv.coin(1, 2) {
			return []*enS{{K: "ret", E: &enE{K: "cond", A: rv.g.pure(1), B: rv.anyCall(true), C: enC(rv.n(9))}}}
		}
		return []*enS{{K: "ret", E: rvAdd(rv.anyCall(true), enC(rv.n(3)))}}
	case "return-unset-local":
		return []*enS{{K: "ret", E: enV("lu")}} // lu is never assigned
	case "return-set-local":
		return []*enS{{K: "assign", V: "l1", E: rv.anyCall(true)}, {K: "ret", E: enV("l1")}}
	case "bare-return":
		return []*enS{{K: "ret"}}
	case "fall-off":
		return nil
	}
	panic("ending " + kind)
}

// something an activation does before it is left
func (rv *rvGen) step(kind string) []*enS {
	lv := []string{"l1", "g1", "g2"}[rv.n(3)]
	switch kind {
	case "none":
		return nil
	case "value-dropped":
		return []*enS{enExprS(rv.classCall("v", true))}
	case "bare":
		return []*enS{enExprS(rv.classCall("b", true))}
	case "fall-off":
		return []*enS{enExprS(rv.classCall("o", true))}
	case "value-stored":
		return []*enS{{K: "assign", V: lv, E: rv.classCall("v", true)}}
	case "value-printed":
		return []*enS{rv.emit("in", enLit("<"), enPE(rv.classCall("v", true)), enLit(">"))}
	case "value-tested":
		return []*enS{{K: "if", E: &enE{K: "isnull", A: rv.classCall("v", true)}, Body: []*enS{rv.emit("inner-gave-nothing")}, Else: []*enS{rv.emit("inner-gave-a-value")}}}
	case "value-in-loop":
		if rv.dep >= 2 {
			return []*enS{enExprS(rv.classCall("v", true))}
		}
		if rv.coin(1, 2) {
			return []*enS{{K: "forin", N: 1 + rv.n(2), Body: []*enS{enExprS(rv.classCall("v", true))}}}
		}
		v := []string{"li", "lj", "lk"}[2-rv.dep] // the levels of the nest count from li upwards
		return []*enS{{K: "loop", V: v, N: 1 + rv.n(2), Style: -1, Body: []*enS{enExprS(rv.classCall("v", true))}}}
	case "value-then-bare":
		return append(rv.step("value-stored"), rv.step("bare")...)
	case "recursion":
		if rv.rec {
			return []*enS{{K: "assign", V: lv, E: enCall(rv.me, &enE{K: "sub", A: enV("p1"), B: enC(1)})}}
		}
		return []*enS{enExprS(rv.anyCall(true))}
	case "count":
		return []*enS{enExprS(&enE{K: "postinc", V: "g0"})}
	}
	panic("step " + kind)
}

// nest wraps inner into the levels of the nest (outermost first). Loops reach inner at a chosen iteration; conditions are either fixed
// or (random programs) depend on the argument.
func (rv *rvGen) nest(levels []string, inner []*enS, randomGuards bool) []*enS {
	if len(levels) == 0 {
		return inner
	}
	lvl := levels[0]
	switch lvl {
	case "if-then", "if", "if-else":
		cond := rvEq(enV("g0"), enV("g0"))
		if randomGuards && rv.coin(2, 3) {
			cond = &enE{K: []string{"gt", "le", "ne"}[rv.n(3)], A: enV("p1"), B: enC(rv.n(4))}
		}
		in := rv.nest(levels[1:], inner, randomGuards)
		other := []*enS{rv.emit("other-branch")}
		if lvl == "if-else" {
			return []*enS{{K: "if", E: &enE{K: "not", A: cond}, Body: other, Else: in}}
		}
		if rv.coin(1, 2) {
			other = nil
		}
		return []*enS{{K: "if", E: cond, Body: in, Else: other}}
	case "for", "while", "do":
		if rv.dep >= 3 {
			return rv.nest(levels[1:], inner, randomGuards)
		}
		v := []string{"li", "lj", "lk"}[rv.dep]
		at := rv.n(3)
		rv.dep++
		in := rv.nest(levels[1:], inner, randomGuards)
		rv.dep--
		body := []*enS{}
		if rv.coin(1, 2) {
			body = append(body, rv.emit("it", enPE(enV(v))))
		}
		body = append(body, &enS{K: "if", E: rvEq(enV(v), enC(at)), Body: in})
		if rv.coin(1, 2) {
			body = append(body, rv.emit("it-end"))
		}
		return []*enS{{K: "loop", V: v, N: at + 1 + rv.n(2), Style: map[string]int{"for": 0, "while": 1, "do": 2}[lvl], Body: body}}
	case "forin":
		at := 1 + rv.n(2)
		rv.dep++
		in := rv.nest(levels[1:], inner, randomGuards)
		rv.dep--
		body := []*enS{{K: "if", E: rvEq(&enE{K: "preinc", V: "lc"}, enC(at)), Body: in}}
		if rv.coin(1, 3) {
			body = append(body, rv.emit("fi-end"))
		}
		return []*enS{{K: "assign", V: "lc", E: enC(0)}, {K: "forin", N: at + rv.n(2), Body: body}}
	case "whileget":
		rv.dep++
		in := rv.nest(levels[1:], inner, randomGuards)
		rv.dep--
		return []*enS{{K: "whileget", Sink: "r", Body: append([]*enS{rv.emit("line", enP{SV: "gl", Field: -1})}, in...)}}
	}
	panic("nest level " + lvl)
}

func rvLevels(nest string) []string {
	if nest == "plain" {
		return nil
	}
	var ls []string
	for _, l := range strings.Split(nest, "-") {
		switch l {
		case "then":
			ls[len(ls)-1] = "if-then"
		case "else":
			ls[len(ls)-1] = "if-else"
		default:
			ls = append(ls, l)
		}
	}
	return ls
}

// function builds f<name>: steps, a nest holding (a step and) an ending, steps, a final ending
func (rv *rvGen) function(name string, sp rvSpec, random bool) *enFunc {
	f := &enFunc{Name: name, Params: rvParams}
	g := rv.g
	oldF, oldP, oldL := g.inFunc, g.place, g.loopD
	g.inFunc, g.place, g.loopD = true, "func", 0
	defer func() { g.inFunc, g.place, g.loopD = oldF, oldP, oldL }()
	rv.me, rv.rec, rv.dep = name, false, 0
	var body []*enS
	if sp.Inner == "recursion" || (random && rv.coin(1, 5)) {
		rv.rec = true
		base := rv.ending([]string{"return-const", "bare-return", "return-expr", "bare-return"}[rv.n(4)])
		body = append(body, &enS{K: "if", E: &enE{K: "le", A: enV("p1"), B: enC(0)}, Body: append([]*enS{rv.emit("bottom")}, base...)})
	}
	if random || rv.coin(1, 2) {
		body = append(body, rv.emit("in-"+name, enPE(enV("p1"))))
	}
	if random {
		for k := rv.n(3); k > 0; k-- {
			body = append(body, rv.step(append(rvInners, "count", "count")[rv.n(len(rvInners)+2)])...)
		}
	}
	inner := rv.ending(sp.End)
	if sp.Where == "inside-the-nest" {
		inner = append(rv.step(sp.Inner), inner...)
	} else {
		body = append(body, rv.step(sp.Inner)...)
	}
	body = append(body, rv.nest(rvLevels(sp.Nest), inner, random)...)
	if random {
		for k := rv.n(3); k > 0; k-- {
			body = append(body, rv.step(append(rvInners, "count")[rv.n(len(rvInners)+1)])...)
		}
		body = append(body, rv.ending(rvEnds[rv.n(len(rvEnds))])...)
	} else if sp.End != "fall-off" {
		// not reached in the directed programs (the nest always reaches its ending); a wrong jump shows as 99
		body = append(body, rv.emit("NOT-REACHED"), &enS{K: "ret", E: enC(99)})
	}
	f.Body = body
	rvTrim(f)
	return f
}

// leaf functions of the three kinds, so that every program can make calls that give a value / nothing
func (rv *rvGen) leaves() {
	rv.fns = append(rv.fns,
		&enFunc{Name: "hv", Params: rvParams, Body: []*enS{rv.emit("in-hv", enPE(enV("p1"))), {K: "ret", E: rvAdd(enV("p1"), enC(7))}}},
		&enFunc{Name: "hb", Params: rvParams, Body: []*enS{rv.emit("in-hb", enPE(enV("p1"))), {K: "ret"}}},
		&enFunc{Name: "ho", Params: rvParams, Body: []*enS{rv.emit("in-ho", enPE(enV("p1")))}})
	for _, f := range rv.fns {
		rvTrim(f)
	}
}

// directed: one small program for a point of the matrix
func (rv *rvGen) directed(sp rvSpec) (*enProg, []string) {
	rv.tag = 0
	rv.g.sinks = []enSinkUse{{"out", ""}}
	p := &enProg{Funcs: rvHelpers()}
	rv.fns = nil
	rv.leaves()
	p.Funcs = append(p.Funcs, rv.fns...)
	rv.direct = true
	defer func() { rv.direct = false }()
	fa := rv.function("fa", sp, false)
	p.Funcs = append(p.Funcs, fa)
	call := enCall("fa", enC(1+rv.n(3)))
	var block []*enS
	switch sp.Use {
	case "returned-by-caller":
		// the value travels up through two more activations
		fb := &enFunc{Name: "fb", Params: rvParams, Body: []*enS{rv.emit("in-fb"), {K: "ret", E: enCall("fa", enV("p1"))}}}
		fc := &enFunc{Name: "fc", Params: rvParams, Body: []*enS{{K: "assign", V: "l1", E: enCall("fb", enV("p1"))}, rv.emit("in-fc"), {K: "ret", E: enV("l1")}}}
		rvTrim(fb)
		rvTrim(fc)
		p.Funcs = append(p.Funcs, fb, fc)
		c2 := enCall("fc", enC(1+rv.n(3)))
		block = rv.use([]string{"string", "is-uninitialised", "if"}[rv.n(3)], c2, false)
		block = append(block, rv.use("is-uninitialised", enCall("fb", enC(2)), false)...)
	case "stored-local-in-caller":
		fb := &enFunc{Name: "fb", Params: rvParams, Body: []*enS{{K: "assign", V: "l1", E: enCall("fa", enV("p1"))},
			rv.emit("fb", enPE(&enE{K: "isnull", A: enV("l1")}), enLit("<"), enPE(enV("l1")), enLit(">"), enPE(rvAdd(enV("l1"), enC(0))))}}
		rvTrim(fb)
		p.Funcs = append(p.Funcs, fb)
		block = []*enS{enExprS(enCall("fb", enC(1+rv.n(3))))}
	default:
		block = rv.use(sp.Use, call, false)
	}
	block = append([]*enS{rv.emit("start")}, append(block, rv.emit("end"))...)
	switch rv.n(4) {
	case 0:
		p.End = [][]*enS{block}
		return p, []string{"a1 b1"}
	case 1:
		p.Rules = []enRule{{Body: block}}
		return p, []string{"a1 b1", "a2"}
	}
	p.Begin = [][]*enS{block}
	return p, nil
}

// random: a whole program — leaves, up to four generated functions each calling the earlier ones, uses in BEGIN / rules / END
func (rv *rvGen) random() (*enProg, []string) {
	rv.tag = 0
	rv.g.sinks = []enSinkUse{{"out", ""}}
	p := &enProg{Funcs: rvHelpers()}
	rv.fns = nil
	rv.leaves()
	if rv.coin(1, 3) { // not every program has all three leaves
		rv.r.Shuffle(len(rv.fns), func(i, j int) { rv.fns[i], rv.fns[j] = rv.fns[j], rv.fns[i] })
		rv.fns = rv.fns[:1+rv.n(2)]
	}
	for i, nf := 0, 1+rv.n(4); i < nf; i++ {
		sp := rvSpec{Inner: rvInners[rv.n(len(rvInners))], Where: rvWheres[rv.n(2)], Nest: rvNests[rv.n(len(rvNests))], End: rvEnds[rv.n(len(rvEnds))]}
		f := rv.function(fmt.Sprintf("f%d", i+1), sp, true)
		rv.fns = append(rv.fns, f)
	}
	p.Funcs = append(p.Funcs, rv.fns...)
	uses := func(inRule bool) []*enS {
		var ss []*enS
		for k := 1 + rv.n(4); k > 0; k-- {
			kind := rvUses[rv.n(len(rvUses)-2)] // the last two kinds need functions of their own (directed programs only)
			call := rv.anyCall(false)
			if inRule && rv.coin(1, 2) {
				call.Args[0] = &enE{K: "nr"}
			}
			ss = append(ss, rv.use(kind, call, false)...)
		}
		return ss
	}
	rv.g.inFunc, rv.g.place, rv.g.loopD = false, "begin", 0
	var input []string
	if rv.coin(3, 4) {
		p.Begin = append(p.Begin, uses(false))
	}
	if rv.coin(1, 3) {
		rv.g.place = "rule"
		r := enRule{Body: uses(true)}
		if rv.coin(1, 2) { // the value as a pattern
			r.Pat = rv.anyCall(false)
			r.Pat.Args[0] = &enE{K: "nr"}
		}
		p.Rules = append(p.Rules, r)
		for i, n := 0, 1+rv.n(3); i < n; i++ {
			input = append(input, enRecords[rv.n(len(enRecords))])
		}
	}
	if rv.coin(1, 3) || len(p.Begin)+len(p.Rules) == 0 {
		rv.g.place = "end"
		e := uses(false)
		if rv.coin(1, 4) { // the value as an exit code
			e = append(e, &enS{K: "exit", E: rv.anyCall(false)})
		}
		p.End = append(p.End, e)
	}
	return p, input
}

// rvWalk visits every statement and expression of a statement list
func rvWalk(ss []*enS, fs func(*enS), fe func(*enE)) {
	var we func(e *enE)
	we = func(e *enE) {
		if e == nil {
			return
		}
		fe(e)
		we(e.A)
		we(e.B)
		we(e.C)
		for _, a := range e.Args {
			we(a)
		}
	}
	for _, s := range ss {
		fs(s)
		we(s.E)
		we(s.DestE)
		for _, pc := range s.Pieces {
			we(pc.E)
		}
		rvWalk(s.Body, fs, fe)
		rvWalk(s.Else, fs, fe)
	}
}

// rvTrim keeps the parameters the body needs: p1, p2 (arguments), the locals it names, the for-in locals of the nesting depths it
// reaches, and lu / lr of the second spelling
func rvTrim(f *enFunc) {
	used := map[string]bool{"p1": true, "p2": true, "lu": true, "lr": true}
	var depth func(ss []*enS) int
	depth = func(ss []*enS) int {
		d := 0
		for _, s := range ss {
			k := depth(s.Body)
			if e := depth(s.Else); e > k {
				k = e
			}
			if s.K == "forin" {
				k++
			}
			if k > d {
				d = k
			}
		}
		return d
	}
	for d := 0; d < depth(f.Body); d++ {
		used[fmt.Sprintf("LT%d", d)], used[fmt.Sprintf("lq%d", d)], used[fmt.Sprintf("lkk%d", d)] = true, true, true
	}
	rvWalk(f.Body, func(s *enS) { used[s.V] = true }, func(e *enE) { used[e.V] = true })
	var ps []string
	for _, p := range rvParams {
		if used[p] {
			ps = append(ps, p)
		}
	}
	f.Params = ps
}

// rvCalled: the names of the functions called (transitively) from the blocks of the program
func rvPrune(p *enProg) {
	byName := map[string]*enFunc{}
	for _, f := range p.Funcs {
		byName[f.Name] = f
	}
	need := map[string]bool{}
	var visit func(ss []*enS)
	visit = func(ss []*enS) {
		rvWalk(ss, func(*enS) {}, func(e *enE) {
			if e.K == "call" && !need[e.V] {
				need[e.V] = true
				if f := byName[e.V]; f != nil {
					visit(f.Body)
				}
			}
		})
	}
	for _, b := range p.Begin {
		visit(b)
	}
	for _, r := range p.Rules {
		if r.Pat != nil {
			visit([]*enS{enExprS(r.Pat)})
		}
		visit(r.Body)
	}
	for _, b := range p.End {
		visit(b)
	}
	var fs []*enFunc
	for _, f := range p.Funcs {
		if need[f.Name] {
			fs = append(fs, f)
		}
	}
	p.Funcs = fs
}

// ---- the second spelling ----------------------------------------------------------------------------------------------------------------

// rvVariant: the same program with a final bare `return` of a function body dropped, or one added to a body that does not end in a
// return statement (both spellings leave the activation with the uninitialised value)
func rvVariant(p *enProg, r *rand.Rand) *enProg {
	q := *p
	q.Funcs = nil
	for _, f := range p.Funcs {
		g := *f
		if n := len(f.Body); r.Intn(2) == 0 && rvHas(f, "lu") {
			switch {
			case n > 0 && f.Body[n-1].K == "ret" && f.Body[n-1].E == nil:
				g.Body = append([]*enS{}, f.Body[:n-1]...)
			case n == 0 || f.Body[n-1].K != "ret":
				g.Body = append(append([]*enS{}, f.Body...), &enS{K: "ret"})
			}
		}
		q.Funcs = append(q.Funcs, &g)
	}
	return &q
}

func rvHas(f *enFunc, param string) bool {
	for _, p := range f.Params {
		if p == param {
			return true
		}
	}
	return false
}

func rvBuild(cs *enCase, p *enProg, input []string, r *rand.Rand) bool {
	init := map[string]string{"r": "r-one\nr-two\nr-three\n"}
	rvPrune(p)
	res, marks, ok, _ := enEvaluate(p, input, init)
	if !ok {
		return false
	}
	cs.prog, cs.marks, cs.Expected, cs.Init = p, marks, res, init
	cs.Input = ""
	for _, l := range input {
		cs.Input += l + "\n"
	}
	cs.A = rvPrefix(enSource(p, nil))
	cs.B = rvPrefix(enSource(rvVariant(p, r), rand.New(rand.NewSource(r.Int63()))))
	cs.WriterA = enWriterKinds[r.Intn(len(enWriterKinds))]
	cs.WriterB = enWriterKinds[r.Intn(len(enWriterKinds))]
	cs.Replay = enReplayText
	return true
}

// fixed points that always run: a valued call, then a bare return / falling off the end, seen in each way (seeded change C01-q3 and
// its mirror image)
func rvCorpus() []rvSpec {
	var ks []rvSpec
	for _, end := range []string{"bare-return", "fall-off", "return-unset-local"} {
		for _, inner := range []string{"value-dropped", "value-stored", "value-then-bare", "recursion"} {
			for _, nest := range []string{"plain", "forin", "if-then", "while-for-forin"} {
				for _, use := range []string{"string", "is-uninitialised", "if", "returned-by-caller"} {
					ks = append(ks, rvSpec{Inner: inner, Where: "before-the-nest", Nest: nest, End: end, Use: use})
					if nest != "plain" {
						ks = append(ks, rvSpec{Inner: inner, Where: "inside-the-nest", Nest: nest, End: end, Use: use})
					}
				}
			}
		}
	}
	return ks
}

func c01RetVal(c *vh.Ctx) {
	t0 := time.Now()
	rv := &rvGen{g: &enGen{r: c.Rng, noCmd: true}, r: c.Rng}
	var cases []*enCase
	skipped := 0
	addSpec := func(sp rvSpec, fam string) {
		if sp.Nest == "plain" {
			sp.Where = "before-the-nest"
		}
		cs := &enCase{Family: fam, Key: "retval:left-by:" + sp.End, Coord: map[string]string{"callee-left-by": sp.End, "callee-did-before": sp.Inner,
			"where": sp.Where, "nest": sp.Nest, "value-used-as": sp.Use}}
		p, input := rv.directed(sp)
		if !rvBuild(cs, p, input, c.Rng) {
			skipped++
			return
		}
		cases = append(cases, cs)
	}
	for _, sp := range rvCorpus() {
		addSpec(sp, "retval-corpus")
	}
	pick := func(xs []string) string { return xs[c.Rng.Intn(len(xs))] }
	// stratified: every ending x what the callee did before x nest x where (a random use); every ending x before x use (a random nest);
	// every nest x use. Quick: a seed-dependent third of the points.
	reps := c.N(1, 3)
	for rep := 0; rep < reps; rep++ {
		for ei, end := range rvEnds {
			for ii, inner := range rvInners {
				for ni, nest := range rvNests {
					for wi, where := range rvWheres {
						if !c.Thorough() && (ei+ii+ni+wi+rep+int(c.Seed))%3 != 0 {
							continue
						}
						if (end == "fall-off" || nest == "plain") && (wi > 0 || (end == "fall-off" && ni > 0)) {
							continue
						}
						addSpec(rvSpec{Inner: inner, Where: where, Nest: nest, End: end, Use: pick(rvUses)}, "retval-matrix")
					}
				}
				for ui, use := range rvUses {
					if !c.Thorough() && (ei+ii+ui+rep+int(c.Seed))%3 != 0 {
						continue
					}
					addSpec(rvSpec{Inner: inner, Where: pick(rvWheres), Nest: pick(rvNests), End: end, Use: use}, "retval-matrix")
				}
			}
		}
		for _, nest := range rvNests {
			for _, use := range rvUses {
				addSpec(rvSpec{Inner: pick(rvInners), Where: pick(rvWheres), Nest: nest, End: pick(rvEnds), Use: use}, "retval-matrix")
			}
		}
	}
	nDirected := len(cases)
	for i, n := 0, c.N(900, 8000); i < n; i++ {
		cs := &enCase{Family: "retval-random", Key: "retval:random"}
		p, input := rv.random()
		if !rvBuild(cs, p, input, c.Rng) {
			skipped++
			continue
		}
		cases = append(cases, cs)
	}
	c.Note(fmt.Sprintf("return-value stream: %d directed programs, %d random programs, %d outside the reference evaluator (step budget / number range); generation %.1fs",
		nDirected, len(cases)-nDirected, skipped, time.Since(t0).Seconds()))
	enRunCases(c, cases, func(cs *enCase) {
		// the distribution: how activations were left and what they had done before (counted once per program in which it happened)
		var ms []string
		for m := range cs.marks {
			if strings.HasPrefix(m, "left:") {
				ms = append(ms, m)
			}
		}
		sort.Strings(ms)
		for _, m := range ms {
			c.Hit("retval:activation-" + m)
		}
		for _, f := range []string{"callee-left-by", "callee-did-before", "where", "nest", "value-used-as"} {
			if cs.Coord != nil {
				c.Hit("retval:at:" + f + ":" + cs.Coord[f])
			}
		}
	})
	c.Note(fmt.Sprintf("timing: return-value stream %.1fs", time.Since(t0).Seconds()))
}
