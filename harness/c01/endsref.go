package main

// Reference evaluator of the "endings" stream (ends.go): direct evaluation of a small syntax tree under AWK semantics.
//
// The script language is a slice of AWK chosen for what a run leaves behind, not for arithmetic: integer expressions with side
// effects (++, =, +=, user calls), && || ! ?:, print/printf to standard output, `> file`, `>> file`, `| command`, "/dev/stdout",
// close, fflush, system, the three getline forms used here, if / for / while / do / for-in, break, continue, next, exit [code],
// return, user functions (scalars by value, fresh locals, the 1000-frame limit), patterns and range patterns, BEGIN/rule/END
// processing, and the run-time errors of the interpreter. Destinations are LOGS: every byte a print produces is in the file at
// once — there is no buffer in the specification, so whatever the program wrote before it ended (normally, by exit, or by a
// run-time error at any place) is in the files and on standard output afterwards.
//
// The evaluator knows nothing of the compiler or the VM; it walks the tree. The return-value stream (retval.go) uses the same
// evaluator and adds three ways of looking at a value: isnull (`v == 0 && v == ""`), key (a subscript of a fixed table), catlen
// (length of a concatenation); the `left:` marks record how each activation was left and what the calls it made had returned.

import (
	"fmt"
	"strconv"
	"strings"
)

type enE struct {
	K    string `json:"k"`
	N    int    `json:"n,omitempty"`
	V    string `json:"v,omitempty"`
	A    *enE   `json:"a,omitempty"`
	B    *enE   `json:"b,omitempty"`
	C    *enE   `json:"c,omitempty"`
	Args []*enE `json:"args,omitempty"`
}

// one piece of the text of a print: a literal, an expression, a field, or a (string) variable
type enP struct {
	Lit   string
	E     *enE
	Field int // -1 = none
	SV    string
}

type enS struct {
	K      string // emit expr assign if loop forin whileget exit next ret break continue
	Sink   string // out devout f1 f2 f3 r c1 c2 bad
	Mode   string // ">" ">>" "|" ""
	Pieces []enP
	NoNL   bool // printf without a final newline
	DestE  *enE // evaluated as part of the destination expression (before the arguments; the stream is opened after both)
	E      *enE
	V      string
	N      int
	Style  int // loop: 0 for, 1 while, 2 do (guarded), -1 spelling's choice
	Body   []*enS
	Else   []*enS
}

type enFunc struct {
	Name   string
	Params []string
	Body   []*enS
}

type enRule struct {
	Pat, Pat2 *enE
	Body      []*enS
	NoBody    bool
}

type enProg struct {
	Funcs []*enFunc
	Begin [][]*enS
	Rules []enRule
	End   [][]*enS
}

type enVal struct {
	set, isStr bool
	n          int
	s          string
}

func enNum(n int) enVal {
	if n > 1e12 || n < -1e12 {
		panic(enUnsupported("number beyond the exactly printed range"))
	}
	return enVal{set: true, n: n}
}
func enBool(b bool) enVal {
	if b {
		return enNum(1)
	}
	return enNum(0)
}
func enStr(s string) enVal { return enVal{set: true, isStr: true, s: s} }

func (v enVal) str() string {
	if !v.set {
		return ""
	}
	if v.isStr {
		return v.s
	}
	return strconv.Itoa(v.n)
}

type enUnsupported string

func (v enVal) num() int {
	if !v.set {
		return 0
	}
	if v.isStr {
		panic(enUnsupported("string used as a number (generator bug): " + v.s))
	}
	return v.n
}

func (v enVal) truth() bool {
	if !v.set {
		return false
	}
	if v.isStr {
		panic(enUnsupported("string used as a condition (generator bug): " + v.s))
	}
	return v.n != 0
}

type enThrow struct {
	kind string // exit next return error
	val  enVal
	msg  string
}

type enReader struct {
	lines []string
	pos   int
}

type enResult struct {
	Out     string            `json:"stdout"`
	Files   map[string]string `json:"files"` // existing files only
	Status  int               `json:"status"`
	Err     bool              `json:"error"`
	ErrKind string            `json:"error_kind,omitempty"`
	Ending  string            `json:"ending"` // normal | exit | error
}

const enMaxCallDepth = 1000

// keys of the table XK of the return-value stream (retval.go)
const enKeyLo, enKeyHi = -20, 60

type enWorld struct {
	prog    *enProg
	funcs   map[string]*enFunc
	files   map[string][]byte // existing files; appends are amortised
	outS    map[string]string // stream id -> file it writes
	inS     map[string]*enReader
	stdout  strings.Builder
	globals map[string]enVal
	frames  []map[string]enVal
	input   []string
	pos     int
	fields  []string
	rec     string
	nr      int
	ctx     string
	status  int
	steps   int
	budget  int
	marks   map[string]int // what happened, for the distribution
	retVal  enVal
	retBare bool
	nested  []int // per activation: 1 = a call made by it came back with the uninitialised value, 2 = with a value
}

type enBudget struct{}

func (w *enWorld) tick() {
	w.steps++
	if w.steps > w.budget {
		panic(enBudget{})
	}
}

func (w *enWorld) fail(kind string) { panic(enThrow{kind: "error", msg: kind}) }

func (w *enWorld) get(name string) enVal {
	if n := len(w.frames); n > 0 {
		if v, ok := w.frames[n-1][name]; ok {
			return v
		}
	}
	return w.globals[name]
}

func (w *enWorld) set(name string, v enVal) {
	if n := len(w.frames); n > 0 {
		if _, ok := w.frames[n-1][name]; ok {
			w.frames[n-1][name] = v
			return
		}
	}
	w.globals[name] = v
}

func (w *enWorld) setRecord(s string) {
	w.rec = s
	w.fields = strings.Fields(s)
}

func (w *enWorld) field(k int) string {
	if k == 0 {
		return w.rec
	}
	if k <= len(w.fields) {
		return w.fields[k-1]
	}
	return ""
}

// file a stream id writes to / reads from
func enTarget(sink string) string { return sink } // f1 f2 f3 r c1 c2: stream id = file name in the scratch directory

func (w *enWorld) write(s *enS, text string) {
	switch s.Sink {
	case "out", "devout":
		w.stdout.WriteString(text)
		return
	case "bad":
		w.fail("redirect-open")
	}
	id := s.Sink
	if _, ok := w.inS[id]; ok {
		w.fail("write-to-reader")
	}
	if _, ok := w.outS[id]; !ok {
		f := enTarget(id)
		switch id {
		case "c1": // cat > file
			w.files[f] = []byte{}
		case "c2": // cat >> file
			if _, ok := w.files[f]; !ok {
				w.files[f] = []byte{}
			}
		default:
			if s.Mode == ">" {
				w.files[f] = []byte{}
			} else if _, ok := w.files[f]; !ok {
				w.files[f] = []byte{}
			}
		}
		w.outS[id] = f
		w.marks["opened:"+id+s.Mode]++
	}
	w.files[w.outS[id]] = append(w.files[w.outS[id]], text...)
}

func (w *enWorld) closeStream(id string) int {
	if _, ok := w.inS[id]; ok {
		delete(w.inS, id)
		return 0
	}
	if _, ok := w.outS[id]; ok {
		delete(w.outS, id)
		w.marks["closed-by-program"]++
		return 0
	}
	return -1
}

func (w *enWorld) getlineFile(id string) (int, string) {
	if _, ok := w.outS[id]; ok {
		w.fail("read-from-writer")
	}
	rd, ok := w.inS[id]
	if !ok {
		content, exists := w.files[enTarget(id)]
		if !exists {
			return -1, ""
		}
		lines := strings.Split(string(content), "\n")
		if lines[len(lines)-1] == "" {
			lines = lines[:len(lines)-1]
		}
		rd = &enReader{lines: lines}
		w.inS[id] = rd
	}
	if rd.pos >= len(rd.lines) {
		return 0, ""
	}
	rd.pos++
	return 1, rd.lines[rd.pos-1]
}

func (w *enWorld) nextRecord() (string, bool) {
	if w.pos >= len(w.input) {
		return "", false
	}
	w.pos++
	w.nr++
	return w.input[w.pos-1], true
}

func (w *enWorld) eval(e *enE) enVal {
	w.tick()
	switch e.K {
	case "const":
		return enNum(e.N)
	case "var":
		return w.get(e.V)
	case "nr":
		return enNum(w.nr)
	case "nf":
		return enNum(len(w.fields))
	case "add":
		a := w.eval(e.A).num()
		return enNum(a + w.eval(e.B).num())
	case "sub":
		a := w.eval(e.A).num()
		return enNum(a - w.eval(e.B).num())
	case "mulc":
		return enNum(w.eval(e.A).num() * e.N)
	case "lt", "le", "eq", "ne", "gt", "ge":
		a := w.eval(e.A).num()
		b := w.eval(e.B).num()
		switch e.K {
		case "lt":
			return enBool(a < b)
		case "le":
			return enBool(a <= b)
		case "eq":
			return enBool(a == b)
		case "ne":
			return enBool(a != b)
		case "gt":
			return enBool(a > b)
		}
		return enBool(a >= b)
	case "and":
		if !w.eval(e.A).truth() {
			return enNum(0)
		}
		return enBool(w.eval(e.B).truth())
	case "or":
		if w.eval(e.A).truth() {
			return enNum(1)
		}
		return enBool(w.eval(e.B).truth())
	case "not":
		return enBool(!w.eval(e.A).truth())
	case "cond":
		if w.eval(e.A).truth() {
			return w.eval(e.B)
		}
		return w.eval(e.C)
	case "postinc":
		old := w.get(e.V).num()
		w.set(e.V, enNum(old+1))
		return enNum(old)
	case "preinc":
		v := enNum(w.get(e.V).num() + 1)
		w.set(e.V, v)
		return v
	case "asg":
		v := w.eval(e.A)
		w.set(e.V, v)
		return v
	case "addasg":
		// the target is read after the right-hand side was evaluated
		r := w.eval(e.A).num()
		v := enNum(w.get(e.V).num() + r)
		w.set(e.V, v)
		return v
	case "neg":
		return enNum(-w.eval(e.A).num())
	case "len":
		return enNum(len(w.eval(e.A).str()))
	case "pow1":
		return enNum(w.eval(e.A).num())
	case "idx": // XA[e] + 0 with XA never assigned
		w.eval(e.A)
		return enNum(0)
	case "in": // (e) in XB with XB never assigned
		w.eval(e.A)
		return enNum(0)
	case "call":
		f := w.funcs[e.V]
		args := make([]enVal, len(e.Args))
		for i, a := range e.Args {
			args[i] = w.eval(a)
		}
		if len(w.frames) >= enMaxCallDepth {
			w.fail("call-depth")
		}
		fr := map[string]enVal{}
		for i, p := range f.Params {
			if i < len(args) {
				fr[p] = args[i]
			} else {
				fr[p] = enVal{}
			}
		}
		w.frames = append(w.frames, fr)
		w.marks["calls"]++
		if len(w.frames) > w.marks["max-depth"] {
			w.marks["max-depth"] = len(w.frames)
		}
		// exit / next / a run-time error leave through a panic caught at the top level, which drops all frames
		ret := enVal{}
		w.nested = append(w.nested, 0)
		left := "fall-off"
		if w.execList(f.Body, false) == enFlowReturn {
			ret = w.retVal
			left = "return-expr"
			if w.retBare {
				left = "bare-return"
			}
		}
		// the distribution of the return-value stream: how the activation was left and what the calls it made itself had done
		mask := w.nested[len(w.nested)-1]
		w.nested = w.nested[:len(w.nested)-1]
		after := []string{"no-call", "calls-that-gave-nothing", "a-call-that-returned-a-value", "a-call-that-returned-a-value"}[mask]
		w.marks["left:"+left+"-after-"+after]++
		if n := len(w.nested); n > 0 {
			if ret.set {
				w.nested[n-1] |= 2
			} else {
				w.nested[n-1] |= 1
			}
		}
		w.frames = w.frames[:len(w.frames)-1]
		return ret
	case "isnull": // (e == 0 && e == ""), e evaluated once: true for the uninitialised value only
		return enBool(!w.eval(e.A).set)
	case "key": // XK[e] with XK[""] = -1 and XK[n] = n + 100 for -20 <= n <= 60; another key reads as uninitialised
		s := w.eval(e.A).str()
		if s == "" {
			return enNum(-1)
		}
		if n, err := strconv.Atoi(s); err == nil && strconv.Itoa(n) == s && n >= enKeyLo && n <= enKeyHi {
			return enNum(n + 100)
		}
		return enVal{}
	case "catlen": // length("<" e ">")
		return enNum(len(w.eval(e.A).str()) + 2)
	case "err":
		w.fail(e.V)
	case "close":
		return enNum(w.closeStream(e.V))
	case "fflush":
		if e.V == "" {
			return enNum(0)
		}
		if _, ok := w.outS[e.V]; ok {
			return enNum(0)
		}
		return enNum(-1)
	case "snap": // system("cat <file> >> <log> 2>/dev/null"): what a child process sees in the file now
		w.marks["snapshots"]++
		content, ok := w.files[enTarget(e.V)]
		if _, has := w.files["log"]; !has {
			w.files["log"] = []byte{}
		}
		if !ok {
			return enNum(1)
		}
		w.files["log"] = append(w.files["log"], content...)
		return enNum(0)
	case "getl":
		rec, ok := w.nextRecord()
		if !ok {
			return enNum(0)
		}
		w.setRecord(rec)
		return enNum(1)
	case "getlv":
		rec, ok := w.nextRecord()
		if !ok {
			return enNum(0)
		}
		w.set(e.V, enStr(rec))
		return enNum(1)
	case "getlf":
		r, line := w.getlineFile(e.V)
		if r == 1 {
			w.set("gl", enStr(line))
		}
		return enNum(r)
	}
	panic(enUnsupported("expression kind " + e.K))
}

const (
	enFlowNone = iota
	enFlowBreak
	enFlowContinue
	enFlowReturn
)

func (w *enWorld) execList(ss []*enS, inLoop bool) int {
	for _, s := range ss {
		if f := w.exec(s, inLoop); f != enFlowNone {
			return f
		}
	}
	return enFlowNone
}

func (w *enWorld) text(s *enS) string {
	var b strings.Builder
	for _, p := range s.Pieces {
		switch {
		case p.E != nil:
			b.WriteString(w.eval(p.E).str())
		case p.Field >= 0:
			b.WriteString(w.field(p.Field))
		case p.SV != "":
			b.WriteString(w.get(p.SV).str())
		default:
			b.WriteString(p.Lit)
		}
	}
	if !s.NoNL {
		b.WriteString("\n")
	}
	return b.String()
}

func (w *enWorld) exec(s *enS, inLoop bool) int {
	w.tick()
	switch s.K {
	case "emit":
		// the destination expression is evaluated before the arguments (as the interpreter does; the order is not fixed by
		// POSIX), the stream is opened after both
		if s.DestE != nil {
			w.eval(s.DestE)
		}
		t := w.text(s)
		w.write(s, t)
	case "errstmt": // printf "%d %d\n", 1 [> dest]: the format error comes before the stream is opened
		w.fail(s.V)
	case "expr":
		w.eval(s.E)
	case "assign":
		w.set(s.V, w.eval(s.E))
	case "if":
		if w.eval(s.E).truth() {
			return w.execList(s.Body, inLoop)
		}
		return w.execList(s.Else, inLoop)
	case "loop": // V runs from 0 while V < N
		w.set(s.V, enNum(0))
		for w.get(s.V).num() < s.N {
			w.tick()
			if f := w.execList(s.Body, true); f == enFlowBreak {
				break
			} else if f == enFlowReturn {
				return f
			}
			w.set(s.V, enNum(w.get(s.V).num()+1))
		}
	case "forin": // over an array of N elements; the body does not look at the key
		for i := 0; i < s.N; i++ {
			w.tick()
			if f := w.execList(s.Body, true); f == enFlowBreak {
				break
			} else if f == enFlowReturn {
				return f
			}
		}
	case "whileget": // while ((getline gl < file) > 0) body
		for {
			w.tick()
			r, line := w.getlineFile(s.Sink)
			if r == 1 {
				w.set("gl", enStr(line))
			}
			if r <= 0 {
				break
			}
			if f := w.execList(s.Body, true); f == enFlowBreak {
				break
			} else if f == enFlowReturn {
				return f
			}
		}
	case "exit":
		if s.E != nil {
			w.status = w.eval(s.E).num()
		}
		panic(enThrow{kind: "exit"})
	case "next":
		if w.ctx != "rule" {
			w.fail("next-outside-rule")
		}
		panic(enThrow{kind: "next"})
	case "ret":
		v := enVal{}
		if s.E != nil {
			v = w.eval(s.E)
		}
		if len(w.frames) == 0 {
			panic(enUnsupported("return outside a function"))
		}
		w.retVal, w.retBare = v, s.E == nil
		return enFlowReturn
	case "break":
		return enFlowBreak
	case "continue":
		return enFlowContinue
	default:
		panic(enUnsupported("statement kind " + s.K))
	}
	return enFlowNone
}

// guarded runs f and reports how it ended: "" (fell off the end), "exit", "next", "error:<kind>".
func (w *enWorld) guarded(f func()) (how string) {
	defer func() {
		if r := recover(); r != nil {
			t, ok := r.(enThrow)
			if !ok {
				panic(r)
			}
			w.frames = w.frames[:0]
			switch t.kind {
			case "exit", "next":
				how = t.kind
			case "error":
				how = "error:" + t.msg
			default:
				panic(enUnsupported("return outside a function"))
			}
		}
	}()
	f()
	return ""
}

// enEvaluate runs the program. ok=false: the case is outside what the reference covers (step budget, generator slip) and is skipped.
func enEvaluate(p *enProg, input []string, init map[string]string) (res enResult, marks map[string]int, ok bool, why string) {
	w := &enWorld{prog: p, funcs: map[string]*enFunc{}, files: map[string][]byte{}, outS: map[string]string{}, inS: map[string]*enReader{},
		globals: map[string]enVal{}, input: input, budget: 400000, marks: map[string]int{}}
	for k, v := range init {
		w.files[k] = []byte(v)
	}
	for _, f := range p.Funcs {
		w.funcs[f.Name] = f
	}
	defer func() {
		if r := recover(); r != nil {
			switch x := r.(type) {
			case enBudget:
				ok, why = false, "budget"
			case enUnsupported:
				ok, why = false, string(x)
			default:
				panic(r)
			}
		}
	}()
	finish := func(how string) (enResult, map[string]int, bool, string) {
		res := enResult{Out: w.stdout.String(), Files: map[string]string{}, Status: w.status, Ending: "normal"}
		for k, v := range w.files {
			res.Files[k] = string(v)
		}
		if strings.HasPrefix(how, "error:") {
			res.Err, res.ErrKind, res.Status, res.Ending = true, how[6:], 0, "error"
		} else if how == "exit" {
			res.Ending = "exit"
		}
		w.marks["streams-open-at-end"] = len(w.outS)
		return res, w.marks, true, ""
	}
	exited := false
	w.ctx = "begin"
	for _, b := range p.Begin {
		b := b
		how := w.guarded(func() { w.execList(b, false) })
		if strings.HasPrefix(how, "error:") {
			return finish(how)
		}
		if how == "exit" {
			exited = true
			break
		}
	}
	if len(p.Rules) == 0 && len(p.End) == 0 {
		if exited {
			return finish("exit")
		}
		return finish("")
	}
	if !exited {
		w.ctx = "rule"
		inRange := make([]bool, len(p.Rules))
	records:
		for {
			rec, more := w.nextRecord()
			if !more {
				break
			}
			w.setRecord(rec)
			for i := range p.Rules {
				r := &p.Rules[i]
				matched := true
				how := w.guarded(func() {
					switch {
					case r.Pat == nil:
					case r.Pat2 == nil:
						matched = w.eval(r.Pat).truth()
					default:
						if !inRange[i] {
							inRange[i] = w.eval(r.Pat).truth()
						}
						matched = inRange[i]
						if inRange[i] {
							inRange[i] = !w.eval(r.Pat2).truth()
						}
					}
					if !matched {
						return
					}
					if r.NoBody {
						w.stdout.WriteString(w.rec + "\n")
						return
					}
					w.execList(r.Body, false)
				})
				if strings.HasPrefix(how, "error:") {
					return finish(how)
				}
				if how == "next" {
					continue records
				}
				if how == "exit" {
					exited = true
					break records
				}
			}
		}
	}
	w.ctx = "end"
	for _, b := range p.End {
		b := b
		how := w.guarded(func() { w.execList(b, false) })
		if strings.HasPrefix(how, "error:") {
			return finish(how)
		}
		if how == "exit" {
			exited = true
			break
		}
	}
	if exited {
		return finish("exit")
	}
	return finish("")
}

var _ = fmt.Sprint
