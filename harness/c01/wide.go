package main

// Family W ("wide"): normalised results used as VALUES in programs that are wide enough for the inline operand words of the code
// stream to take every value in the opcode number range.
//
// Opcodes and their inline operands (field numbers, constant-pool indexes, variable / array / function indexes, operand counts,
// jump offsets) share one []Opcode stream. Any compiler or VM decision that looks at "the previous word" — a peephole, a fused
// instruction, a jump-target computation — can mistake an OPERAND word for an opcode once a program has enough constants, fields,
// variables, arrays or functions for that word to fall inside the opcode range (0..~95). The ordinary families use $0..$9, a
// handful of constants and three globals, so their operand words stay below 10.
//
// Every case builds a program in which one operand kind reaches index k (k sweeps the whole opcode range and beyond), and uses it
// as operand X (and its neighbour k+1 as Y) of every expression form whose result AWK normalises to 0/1 — && || ! !! the six
// comparisons ~ !~ `in`, ?: with a comparison as its last branch, nestings of those — with the result used as a VALUE (printed,
// assigned, added, concatenated, negated, passed to a function, formatted). Spelling A is the direct form; spelling B the explicit
// `? 1 : 0` form (R11 of gen.go); spelling B2 goes through low-numbered variables (`aa = X; ab = Y; aa && ab`).

import (
	"fmt"
	"strings"

	"verifharness/vh"
)

type wideOperands struct {
	kind   string
	funcs  string // function definitions
	begin  string // statements for BEGIN
	pre    string // statements in front of the test, in the same body
	x, y   string
	inFunc bool // the test runs inside function wl (locals)
	params string
}

func wideFiller(n int, f func(i int) string, sep string) string {
	xs := make([]string, n)
	for i := range xs {
		xs[i] = f(i)
	}
	return strings.Join(xs, sep)
}

// wideKinds: kind -> operands whose LAST code word is k (resp. k+1)
var wideKinds = []string{"field", "num", "str", "global", "local", "arrelem", "concat", "sprintf", "calluser", "numneg"}

func wideBuild(kind string, k int) wideOperands {
	w := wideOperands{kind: kind}
	switch kind {
	case "field": // FieldInt k
		w.x, w.y = fmt.Sprintf("$%d", k), fmt.Sprintf("$%d", k+1)
	case "num", "numneg": // Num k: k filler constants first
		if k > 0 {
			w.pre = "zz = " + wideFiller(k, func(i int) string { return fmt.Sprint(5000 + i) }, " + ") + "\n"
		}
		w.x, w.y = fmt.Sprint(7000+k), fmt.Sprint(7001+k)
		if kind == "numneg" { // a fractional and a huge constant: the surviving raw value would not even be an integer
			w.x, w.y = fmt.Sprintf("%d.25", 7000+k), fmt.Sprintf("%de30", 7001+k)
		}
	case "str": // Str k
		if k > 0 {
			w.pre = "zs = " + wideFiller(k, func(i int) string { return fmt.Sprintf(`"s%d"`, i) }, " ") + "\n"
		}
		w.x, w.y = fmt.Sprintf(`"x%d"`, k), fmt.Sprintf(`"y%d"`, k)
	case "global": // Global k: globals are numbered in name order; aa/ab (spelling B2) sort in front, everything else behind
		w.begin = wideFiller(k+2, func(i int) string { return fmt.Sprintf("g%03d = %d", i, 100+i) }, "; ")
		w.x, w.y = fmt.Sprintf("g%03d", k), fmt.Sprintf("g%03d", k+1)
	case "local": // Local k: parameters are numbered in order
		w.inFunc = true
		w.params = wideFiller(k+2, func(i int) string { return fmt.Sprintf("p%03d", i) }, ", ") + ", aa, ab, v, q, fz"
		w.x, w.y = fmt.Sprintf("p%03d", k), fmt.Sprintf("p%03d", k+1)
		w.pre = fmt.Sprintf("%s = %d; %s = \"w%d\"\n", w.x, 100+k, w.y, k)
	case "arrelem": // ArrayGlobal k (arrays are numbered in name order, A000.. sort in front of ARGV / ENVIRON / IA)
		w.begin = wideFiller(k+2, func(i int) string { return fmt.Sprintf("A%03d[1] = %d", i, 100+i) }, "; ")
		w.x, w.y = fmt.Sprintf("A%03d[1]", k), fmt.Sprintf("A%03d[1]", k+1)
	case "concat": // ConcatMulti k (k >= 3 operands)
		n := k
		if n < 3 {
			n = 3
		}
		w.begin = `ca = 7; cb = ""; cc = "c"`
		w.x = "(ca " + wideFiller(n-1, func(i int) string { return "cb" }, " ") + ")"
		w.y = "(cc " + wideFiller(n, func(i int) string { return "cb" }, " ") + ")"
	case "sprintf": // CallSprintf k (format + k-1 arguments)
		n := k
		if n < 2 {
			n = 2
		}
		w.begin = `ca = 7; cb = ""; cc = "c"`
		w.x = `sprintf("%s", ca` + strings.Repeat(", cb", n-2) + ")"
		w.y = `sprintf("%s", cc` + strings.Repeat(", cb", n-1) + ")"
	case "calluser": // CallUser k numArrayArgs scope index: function k of k+2, one array argument
		w.funcs = wideFiller(k+2, func(i int) string { return fmt.Sprintf("function f%03d(x, a) { return x + a[1] + %d }\n", i, i%7) }, "")
		w.begin = `A000[1] = 3; A001[1] = 4`
		w.x, w.y = fmt.Sprintf("f%03d(100, A001)", k), fmt.Sprintf("f%03d(200, A000)", k+1)
	}
	return w
}

// forms: A spelling, B explicit spelling; X, Y are substituted. q is truthy, fz falsy, IA an array with some keys.
var wideForms = [][3]string{
	{"and", "(X && Y)", "(X ? (Y ? 1 : 0) : 0)"},
	{"or", "(X || Y)", "(X ? 1 : (Y ? 1 : 0))"},
	{"and-xx", "(X && X)", "(X ? (X ? 1 : 0) : 0)"},
	{"or-yy", "(Y || Y)", "(Y ? 1 : (Y ? 1 : 0))"},
	{"and-f", "(X && fz)", "(X ? (fz ? 1 : 0) : 0)"},
	{"or-f", "(fz || Y)", "(fz ? 1 : (Y ? 1 : 0))"},
	{"f-or-f", "(fz || fz)", "(fz ? 1 : (fz ? 1 : 0))"},
	{"and-grp", "((X) && (Y))", "((X) ? ((Y) ? 1 : 0) : 0)"},
	{"and3", "(X && Y && X)", "((X ? (Y ? 1 : 0) : 0) ? (X ? 1 : 0) : 0)"},
	{"or3", "(fz || X || Y)", "((fz ? 1 : (X ? 1 : 0)) ? 1 : (Y ? 1 : 0))"},
	{"and-or", "((X && Y) || X)", "((X ? (Y ? 1 : 0) : 0) ? 1 : (X ? 1 : 0))"},
	{"or-and", "((X || Y) && (Y || X))", "((X ? 1 : (Y ? 1 : 0)) ? ((Y ? 1 : (X ? 1 : 0)) ? 1 : 0) : 0)"},
	{"not", "(!X)", "(X ? 0 : 1)"},
	{"notnot", "(!!Y)", "(Y ? 1 : 0)"},
	{"not-and", "(!(X && Y))", "((X ? (Y ? 1 : 0) : 0) ? 0 : 1)"},
	{"lt", "(X < Y)", "((X < Y) ? 1 : 0)"},
	{"le", "(X <= Y)", "((X <= Y) ? 1 : 0)"},
	{"eq", "(X == Y)", "((X == Y) ? 1 : 0)"},
	{"ne", "(X != Y)", "((X != Y) ? 1 : 0)"},
	{"gt", "(X > Y)", "((X > Y) ? 1 : 0)"},
	{"ge", "(X >= Y)", "((X >= Y) ? 1 : 0)"},
	{"cmp-and", "((X < Y) && (Y > X))", "((X < Y) ? ((Y > X) ? 1 : 0) : 0)"},
	{"match", "(X ~ Y)", "((X ~ Y) ? 1 : 0)"},
	{"nomatch", "(X !~ Y)", "((X !~ Y) ? 1 : 0)"},
	{"match-lit", "(X ~ /7|x/)", "((X ~ /7|x/) ? 1 : 0)"},
	{"match-and", "((X ~ /./) && Y)", "((X ~ /./) ? (Y ? 1 : 0) : 0)"},
	{"in", "(X in IA)", "((X in IA) ? 1 : 0)"},
	{"in-and", "((X in IA) || Y)", "((X in IA) ? 1 : (Y ? 1 : 0))"},
	{"and-tern-cmp", "(X && (q ? Y : X < Y))", "(X ? ((q ? Y : X < Y) ? 1 : 0) : 0)"},
	{"tern-cmp-or", "((fz ? X < Y : fz) || (q ? Y : X < Y))", "((fz ? X < Y : fz) ? 1 : ((q ? Y : X < Y) ? 1 : 0))"},
	{"tern-both", "((q ? X : X < Y) && (q ? Y : (X < Y)))", "((q ? X : X < Y) ? ((q ? Y : (X < Y)) ? 1 : 0) : 0)"},
	{"tern-not", "((q ? X : !Y) && (q ? Y : !X))", "((q ? X : !Y) ? ((q ? Y : !X) ? 1 : 0) : 0)"},
	{"tern-match", "((q ? X : X ~ Y) || (q ? Y : X ~ Y))", "((q ? X : X ~ Y) ? 1 : ((q ? Y : X ~ Y) ? 1 : 0))"},
	{"and-assign", "((v = X) && (v = Y))", "((v = X) ? ((v = Y) ? 1 : 0) : 0)"},
}

// uses: how the value E is consumed
var wideUses = [][2]string{
	{"print", `print "L", E`},
	{"assign", `v = E; print "L", v`},
	{"add", `print "L", E + 10`},
	{"concat", `print "L", E "|"`},
	{"neg", `print "L", -E`},
	{"arg", `print "L", id(E)`},
	{"printf", `printf "%s %s %d\n", "L", E, E`},
	{"subscript", `delete R; R[E] = 1; print "L", (1 in R), (0 in R), length(R)`},
}

func wideRecord() string {
	return wideFiller(320, func(i int) string {
		switch {
		case (i+1)%13 == 0:
			return "0"
		case (i+1)%17 == 0:
			return fmt.Sprintf("w%d", i+1)
		}
		return fmt.Sprint(101 + i)
	}, " ") + "\n"
}

// wideProgram renders one spelling: sp = 0 direct (A), 1 explicit ?: (B), 2 through low-numbered variables (B2).
func wideProgram(w wideOperands, use [2]string, forms [][3]string, sp int) string {
	var body strings.Builder
	body.WriteString(w.pre)
	body.WriteString("q = 5; fz = 0\n")
	for _, f := range forms {
		e := f[1]
		if sp == 1 {
			e = f[2]
		}
		x, y := w.x, w.y
		if sp == 2 {
			body.WriteString("aa = " + w.x + "; ab = " + w.y + "\n")
			x, y = "aa", "ab"
		}
		// X and Y are single capitals that occur nowhere else in the form texts
		e = strings.ReplaceAll(strings.ReplaceAll(e, "X", "\x01"), "Y", "\x02")
		e = strings.ReplaceAll(strings.ReplaceAll(e, "\x01", x), "\x02", y)
		s := strings.ReplaceAll(strings.ReplaceAll(use[1], "E", "\x01"), "L", f[0])
		body.WriteString(strings.ReplaceAll(s, "\x01", e) + "\n")
	}
	var p strings.Builder
	p.WriteString("function id(x) { return x }\n")
	p.WriteString(w.funcs)
	begin := `IA[101]; IA[7000]; IA["x48"]; IA[148]; IA["w51"]; IA[7]`
	if w.begin != "" {
		begin += "; " + w.begin
	}
	p.WriteString("BEGIN { " + begin + " }\n")
	if w.inFunc {
		p.WriteString("function wl(" + w.params + ") {\n" + body.String() + "}\n{ wl() }\n")
	} else {
		p.WriteString("{\n" + body.String() + "}\n")
	}
	return p.String()
}

// wideMinimise re-runs a failing wide pair one expression form at a time and returns the first single-form pair that still
// differs (with its two results), or the pair itself when only the combination differs.
func wideMinimise(p c01Pair, a, b string) (c01Pair, string, string) {
	if len(p.Tags) != 5 || p.Tags[0] != "wide" {
		return p, a, b
	}
	var k, sp int
	fmt.Sscan(p.Tags[2], &k)
	fmt.Sscan(p.Tags[4], &sp)
	w := wideBuild(p.Tags[1], k)
	for _, use := range wideUses {
		if use[0] != p.Tags[3] {
			continue
		}
		for _, f := range wideForms {
			q := p
			q.A = wideProgram(w, use, [][3]string{f}, 0)
			q.B = wideProgram(w, use, [][3]string{f}, sp)
			q.Key = p.Key + ":" + f[0]
			ra, okA := c01Run(q.A, q.Input)
			rb, okB := c01Run(q.B, q.Input)
			if okA && okB && ra != rb {
				return q, ra, rb
			}
		}
	}
	return p, a, b
}

func c01Wide(c *vh.Ctx) []c01Pair {
	var ps []c01Pair
	in := wideRecord()
	// index values: quick = the densest part of the opcode range plus seeded others; thorough = everything up to 300
	var ks []int
	if c.Thorough() {
		for k := 0; k <= 300; k++ {
			ks = append(ks, k)
		}
	} else {
		for k := 40; k <= 70; k++ {
			ks = append(ks, k)
		}
		for i := 0; i < 12; i++ {
			ks = append(ks, c.Rng.Intn(40))
		}
		for i := 0; i < 12; i++ {
			ks = append(ks, 71+c.Rng.Intn(230))
		}
	}
	for ki, k := range ks {
		for di, kind := range wideKinds {
			if kind == "calluser" && k > 120 {
				continue
			}
			w := wideBuild(kind, k)
			nUses := len(wideUses)
			if !c.Thorough() {
				nUses = 2
			}
			for u := 0; u < nUses; u++ {
				use := wideUses[(ki+di+u*3)%len(wideUses)]
				if c.Thorough() {
					use = wideUses[u]
				}
				forms := wideForms
				a := wideProgram(w, use, forms, 0)
				key := fmt.Sprintf("wide:%s:%s", kind, use[0])
				tags := func(sp int) []string { return []string{"wide", kind, fmt.Sprint(k), use[0], fmt.Sprint(sp)} }
				ps = append(ps, c01Pair{Family: "wide", Key: key, A: a, B: wideProgram(w, use, forms, 1), Input: in, Tags: tags(1)})
				ps = append(ps, c01Pair{Family: "wide", Key: key + ":via-vars", A: a, B: wideProgram(w, use, forms, 2), Input: in, Tags: tags(2)})
			}
		}
	}
	return ps
}

// ---- family J: in CSV / TSV output mode, $0 rebuilt by a field store is the record `print $1, …, $NF` writes -------------------
//
// A field store (assignment, ++, op=, NF =, sub/gsub on a field, getline into a field) rebuilds $0 through joinFields; `print` with
// arguments goes through printArgs. In CSV/TSV output mode both must produce the encoding/csv record of the same fields — fields
// with leading white space (any Unicode space), the field `\.`, separators, quotes, CR/LF need quotes, a lone empty field is `""`.
// Spelling A prints the rebuilt record (`print`), spelling B prints the fields one by one (`print $1, …, $K`, K = NF after the
// store). The output mode is set by assigning OUTPUTMODE in BEGIN or through Config.Vars.

var csvJoinValues = []string{
	"x", "", " x", "  ", "\tx", "x y", " ", `\.`, `\.x`, `.\`, `\`, "a,b", "a\tb", `a"b`, `"`, `""`, "a\nb", "a\rb", "\nx", "\u00a0x", "\u2003x", "\u3000x", "\u0085x", "\vx", "\fx",
	"x ", "x\u00a0", "\xa0x", "\xffx", "7", "-1", "0.5", "a;b", "a|b", "#c", ",", "\t", `\.,`, ` \.`, "\u00e9x",
}

func c01CSVJoin(c *vh.Ctx) []c01Pair {
	var ps []c01Pair
	type store struct {
		name string
		text func(n int, v string) string // the store statement for field n and value literal v
		nf   func(nf, n int) int          // NF afterwards
	}
	max := func(a, b int) int {
		if a > b {
			return a
		}
		return b
	}
	stores := []store{
		{"assign", func(n int, v string) string { return fmt.Sprintf("$%d = %s", n, v) }, max},
		{"assign-expr-index", func(n int, v string) string { return fmt.Sprintf("k = %d; $k = %s", n, v) }, max},
		{"assign-then-incr", func(n int, v string) string { return fmt.Sprintf("$%d = %s; $%d++", n, v, max(1, n-1)) }, max},
		{"assign-then-aug", func(n int, v string) string { return fmt.Sprintf("$%d = %s; $%d += 2", n, v, n+1) }, func(nf, n int) int { return max(nf, n+1) }},
		{"assign-then-nf", func(n int, v string) string { return fmt.Sprintf("$%d = %s; NF = %d", n, v, n) }, func(nf, n int) int { return n }},
		{"assign-then-self", func(n int, v string) string { return fmt.Sprintf("t = %s; $%d = t; $1 = $1", v, n) }, max},
		{"sub", func(n int, v string) string { return fmt.Sprintf("$%d = \"zz\"; sub(/zz/, %s, $%d)", n, v, n) }, max},
		{"value-position", func(n int, v string) string { return fmt.Sprintf("t = ($%d = %s)", n, v) }, max},
	}
	modes := []struct{ name, sep string }{{"csv", ","}, {"tsv", "\t"}, {"csv separator=;", ";"}, {"csv separator=|", "|"}}
	inputs := []struct {
		text string
		nf   int
	}{{"a b c\n", 3}, {"a\n", 1}, {"p q r s t\n", 5}}
	lit := func(s string) string {
		var b strings.Builder
		b.WriteByte('"')
		for i := 0; i < len(s); i++ {
			ch := s[i]
			switch {
			case ch == '"' || ch == '\\':
				b.WriteByte('\\')
				b.WriteByte(ch)
			case ch == '\n':
				b.WriteString(`\n`)
			case ch == '\r':
				b.WriteString(`\r`)
			case ch == '\t':
				b.WriteString(`\t`)
			case ch < 32 || ch >= 127:
				fmt.Fprintf(&b, "\\x%02x", ch)
				if i+1 < len(s) && strings.IndexByte("0123456789abcdefABCDEF", s[i+1]) >= 0 {
					b.WriteString(`" "`) // \xhh followed by a hex digit: end the literal so that the escape takes two digits only
				}
			default:
				b.WriteByte(ch)
			}
		}
		b.WriteByte('"')
		return b.String()
	}
	fields := func(k int) string {
		xs := make([]string, k)
		for i := range xs {
			xs[i] = fmt.Sprintf("$%d", i+1)
		}
		return strings.Join(xs, ", ")
	}
	mk := func(mode string, viaVars bool, st store, n int, v string, in string, nf int, tag int) {
		k := st.nf(nf, n)
		begin := ""
		var vars []string
		if viaVars {
			vars = []string{"OUTPUTMODE", mode}
		} else {
			begin = "BEGIN { OUTPUTMODE = " + lit(mode) + " }\n"
		}
		stmt := st.text(n, lit(v))
		a := begin + "{ " + stmt + "; print; print NF }\n"
		b := begin + "{ " + stmt + "; print " + fields(k) + "; print NF }\n"
		p := c01Pair{Family: "csv-join", Key: "csvjoin:" + strings.Fields(mode)[0] + ":" + st.name, A: a, B: b, Input: in, Vars: vars}
		ps = append(ps, p)
		if tag%4 == 0 {
			// the rebuilt record observed through a copy / through printf instead of the bare print
			a2 := begin + "{ " + stmt + "; s = $0; printf \"%s\\n\", s; print NF }\n"
			ps = append(ps, c01Pair{Family: "csv-join", Key: p.Key + ":copy", A: a2, B: b, Input: in, Vars: vars})
		}
	}
	tag := 0
	for mi, m := range modes {
		for si, st := range stores {
			for vi, v := range csvJoinValues {
				for ii, in := range inputs {
					for _, n := range []int{1, 2, in.nf, in.nf + 2} {
						tag++
						if !c.Thorough() && (mi+si+vi+ii+n+int(c.Seed))%6 != 0 {
							continue // quick: a seed-dependent sixth of the grid
						}
						mk(m.name, (mi+si+vi+ii+n)%3 == 0, st, n, v, in.text, in.nf, tag)
					}
				}
			}
		}
	}
	// random records: every field drawn from the value pool, one store
	n := c.N(300, 6000)
	for i := 0; i < n; i++ {
		m := modes[c.Rng.Intn(len(modes))]
		k := 1 + c.Rng.Intn(5)
		var sets []string
		for f := 1; f <= k; f++ {
			if c.Rng.Intn(3) > 0 {
				sets = append(sets, fmt.Sprintf("$%d = %s", f, lit(csvJoinValues[c.Rng.Intn(len(csvJoinValues))])))
			}
		}
		last := 1 + c.Rng.Intn(k+1)
		sets = append(sets, fmt.Sprintf("$%d = %s", last, lit(csvJoinValues[c.Rng.Intn(len(csvJoinValues))])))
		nf := k
		if last > nf {
			nf = last
		}
		begin := "BEGIN { OUTPUTMODE = " + lit(m.name) + " }\n"
		stmt := strings.Join(sets, "; ")
		in := strings.Repeat("f ", k-1) + "f\n"
		ps = append(ps, c01Pair{Family: "csv-join", Key: "csvjoin:" + strings.Fields(m.name)[0] + ":random", A: begin + "{ " + stmt + "; print; print NF }\n",
			B: begin + "{ " + stmt + "; print " + fields(nf) + "; print NF }\n", Input: in})
	}
	return ps
}
