package main

// C01 — compiled execution preserves the meaning of the parsed program.
//
// Implementation-side oracle (no model in the loop): metamorphic rewrites run on the real interpreter. Two spellings of
// the same program that differ only in which compiler path they take (statement-position shortcut vs expression
// position + Drop, fused compare-and-branch vs comparison value + JumpTrue/JumpFalse, FieldInt vs Field, constant
// array index vs runtime index, ConcatMulti vs nested Concat, `x op= e` vs `x = x op (e)`) must give the same
// output, exit status and error.  Directed families are enumerated exhaustively (oracle.go), then random programs with
// randomly nested rewrites (gen.go).
//
// Correspondence with the Lean model (lean.go): (1) CODE — the real resolved tree of every block of generated programs
// is converted by reflection into a prefix term, Lean `compile` produces the opcode words, compared for exact equality
// with the real compiled code; (2) BEHAVIOUR — Lean `vm` and Lean `eval` under a concrete integer/string semantics
// against interp.ExecProgram output for programs in the exact subset.

import (
	"bufio"
	"bytes"
	"context"
	"fmt"
	"io"
	"os"
	"path/filepath"
	"runtime"
	"sort"
	"strconv"
	"strings"
	"time"

	"github.com/benhoyt/goawk/interp"
	"github.com/benhoyt/goawk/parser"

	"verifharness/vh"
)

func main() { vh.Main("C01", runC01) }

const c01Input = "10 9.0 abc\n"

var c01Dir string

type c01Pair struct {
	Family string   `json:"family"`
	Key    string   `json:"key"` // distribution key
	A      string   `json:"program_a"`
	B      string   `json:"program_b"`
	Input  string   `json:"input"`
	Vars   []string `json:"vars,omitempty"`            // Config.Vars (name, value, …)
	Tags   []string `json:"tags,omitempty"`            // facts about the case used by the finding classifier
	OutB   string   `json:"config_output_b,omitempty"` // kind of Config.Output program_b runs with (program_a: bytes.Buffer); see ends.go
	NonTri bool     `json:"-"`
}

func c01Parse(src string) (*parser.Program, error) {
	return parser.ParseProgram([]byte(src), nil)
}

// c01RunProg runs the real interpreter with a deadline: with a mutated compiler or VM a generated program may loop for ever;
// that must show up as a failing case ("timeout"), not as a hanging harness.
func c01RunProg(prog *parser.Program, input string, vars ...string) (res vh.RunResult) {
	return c01RunProgW(prog, input, "", vars...)
}

// c01RunProgW: the same with a chosen kind of Config.Output ("" = bytes.Buffer; "plain", "bufio:<size>", "hold-until-Flush" as in
// ends.go). The harness never flushes it: the interpreter flushes a Config.Output that has a Flush method when execution ends.
func c01RunProgW(prog *parser.Program, input, writer string, vars ...string) (res vh.RunResult) {
	var bb bytes.Buffer
	var plain enPlainW
	var hold enHoldW
	cfg := &interp.Config{Stdin: strings.NewReader(input), Output: &bb, Error: io.Discard, Environ: []string{}, Vars: vars}
	got := func() string { return bb.String() }
	switch {
	case writer == "plain":
		cfg.Output, got = &plain, func() string { return string(plain.b) }
	case writer == "hold-until-Flush":
		cfg.Output, got = &hold, func() string { return string(hold.b) }
	case strings.HasPrefix(writer, "bufio:"):
		n, _ := strconv.Atoi(writer[6:])
		cfg.Output, got = bufio.NewWriterSize(&plain, n), func() string { return string(plain.b) }
	}
	out := c01Getter(got)
	defer func() {
		if r := recover(); r != nil {
			res.Panic = fmt.Sprint(r)
			res.Out = out.String()
		}
	}()
	p, err := interp.New(prog)
	if err != nil {
		return vh.RunResult{Err: "new: " + err.Error()}
	}
	ctx, cancel := context.WithTimeout(context.Background(), 5*time.Second)
	defer cancel()
	status, err := p.ExecuteContext(ctx, cfg)
	res.Out, res.Status = out.String(), status
	if err != nil {
		res.Err = err.Error()
		if ctx.Err() != nil {
			res.Err = "TIMEOUT after 5s"
			res.Out = ""
		}
	}
	return res
}

type c01Getter func() string

func (g c01Getter) String() string { return g() }

func c01Canon(r vh.RunResult) string {
	return fmt.Sprintf("out=%q status=%d err=%q panic=%q", r.Out, r.Status, r.Err, r.Panic)
}

// c01Run parses and runs; a parse error is reported as such (and is a harness bug for generated programs).
func c01Run(src, input string) (string, bool) {
	prog, err := c01Parse(src)
	if err != nil {
		return "PARSE: " + err.Error(), false
	}
	return c01Canon(c01RunProg(prog, input)), true
}

// c01Classify names the known-finding class accepting a failing pair, or "".
//
// G01-1: a concatenation of three or more operands (compiled to ConcatMulti) in which an operand other than the first
// assigns CONVFMT and an earlier operand is a non-integer number: ConcatMulti converts every operand after all of them
// were evaluated, the nested two-operand form converts the left part before the later operand runs.
func c01Classify(p c01Pair) string {
	has := func(t string) bool {
		for _, x := range p.Tags {
			if x == t {
				return true
			}
		}
		return false
	}
	if p.Family == "concat" && has("operands>=3") && has("later-operand-assigns-CONVFMT") && has("earlier-operand-nonint-number") {
		return "G01-1"
	}
	return ""
}

// Oracle failures are handed to the context smallest program first (it keeps five per class; the first is the replay).
var c01Fails []struct {
	size int
	f    vh.Failure
}

func c01Fail(size int, f vh.Failure) {
	c01Fails = append(c01Fails, struct {
		size int
		f    vh.Failure
	}{size, f})
}

func c01FlushFails(c *vh.Ctx) {
	sort.SliceStable(c01Fails, func(i, j int) bool { return c01Fails[i].size < c01Fails[j].size })
	for _, x := range c01Fails {
		c.Fail(x.f)
	}
	c01Fails = nil
}

func runC01(c *vh.Ctx) {
	c.Rule("pairs of spellings of one program that take different compiler paths: directed families enumerated exhaustively " +
		"(6 comparisons x operand classes incl. NaN/inf/strings/numeric strings/unset x 14 condition contexts; lvalue kinds x initial " +
		"values x 17 assignment forms x statement/expression position x inside/outside a function; op= vs explicit; all bracketings of " +
		"2..6-operand concatenations; constant field/array index shortcuts; getline into a field; normalised results used as values in " +
		"programs whose inline operand words sweep the opcode number range; CSV/TSV output mode: rebuilt $0 vs print of the fields), then random programs (depth-bounded " +
		"grammar over the modelled statement/expression language plus calls, for-in, delete, printf) with randomly nested rewrites. " +
		"A case is one pair (or one block for the code correspondence); non-trivial = the two spellings compile to different code. " +
		"The second spelling of a pair runs with a random kind of Config.Output (bytes.Buffer / plain writer / bufio.Writer of six sizes / a writer that " +
		"hands bytes on only at Flush; never flushed by the harness). Endings stream: programs of a small output-centred AWK subset, built from a matrix " +
		"ending (normal, exit, exit code, next, return, 19 kinds of run-time error) x block (BEGIN, later BEGIN, rule on record 1 / 2, pattern, END, later END) " +
		"x via (direct, function, two calls deep, recursion, call in a print argument) x nesting (plain, for, while, do, for-for, for-in, getline loop, if, else) " +
		"x expression position (9) x output written before (10 destination sets over stdout, > file, >> file, | cat > file, | cat >> file, /dev/stdout; " +
		"sometimes beyond the 64 KiB stream buffer) x synchronisation before the ending (none, close, close with value, fflush(name), fflush(), system snapshot), " +
		"stratified so that every ending meets every block x via, every output set x synchronisation and every nesting x position (thorough: 4 draws each; " +
		"quick: a seed-dependent third), plus random programs of the same language; each run in two spellings and two kinds of Config.Output in a scratch " +
		"directory and compared — standard output, every file afterwards, exit status, error/no-error — with a tree-walking reference evaluator in which " +
		"destinations are logs; non-trivial = the two spellings differ. Return-value stream: programs of the same language in which the value of a " +
		"user-function call is looked at, built from a matrix callee left by (return constant / expression / never-set local / set local / nested call / " +
		"expression around a nested call, bare return, falling off the end) x what the activation did before (no call, a valued call dropped / stored / " +
		"printed / tested / made in a loop, a call left by a bare return / by falling off the end, a valued call then a bare one, recursion) x before or " +
		"inside the nest x nest (plain, if, else, for, while, do, for-in, getline loop and five combinations up to three deep, the ending at a chosen " +
		"iteration) x 21 uses of the value (string, number, minus, if, ?:, !, &&, ||, subscript, argument and back, argument tested in the callee, " +
		"concatenation, length, comparison, test for the uninitialised value, stored in a global / local / inside an expression, dropped then another " +
		"call used, two calls in one expression, returned by two more callers), stratified so that every ending meets every before x nest x where and " +
		"every before x use, every nest every use (quick: a seed-dependent third), plus random programs with up to four generated functions calling each " +
		"other, uses in BEGIN / rules / END, as a pattern and as an exit code; second spelling: a final bare return dropped or added, `return` as " +
		"`return <never-assigned local>`, `return e` as `t = e; return t`, and the spellings of the endings stream")
	d, err := os.MkdirTemp("", "c01")
	if err != nil {
		panic(err)
	}
	c01Dir = d
	defer os.RemoveAll(d)
	os.WriteFile(filepath.Join(d, "f"), []byte("L1 x\nL2 y\nL3 z\n"), 0o644)

	// watchdog: generated programs must never amplify strings (see c01Gen.long); if one does, stop instead of swapping
	go func() {
		for {
			time.Sleep(500 * time.Millisecond)
			var m runtime.MemStats
			runtime.ReadMemStats(&m)
			if m.HeapAlloc > 10<<30 {
				fmt.Fprintln(os.Stderr, "c01 harness: memory watchdog: a generated program grows without bound (generator bug); aborting")
				os.Exit(3)
			}
		}
	}()
	t0 := time.Now()
	var pairs []c01Pair
	pairs = append(pairs, c01Corpus()...)
	pairs = append(pairs, c01Compare(c)...)
	pairs = append(pairs, c01Lvalues(c)...)
	pairs = append(pairs, c01AugExplicit(c)...)
	pairs = append(pairs, c01Concat(c)...)
	pairs = append(pairs, c01Shortcuts()...)
	pairs = append(pairs, c01CallFrames(c)...)
	pairs = append(pairs, c01SignOfZero(c)...)
	pairs = append(pairs, c01LongRuns(c)...)
	pairs = append(pairs, c01Wide(c)...)
	pairs = append(pairs, c01CSVJoin(c)...)
	c01Reuse(c)
	c01ShortcutHistories(c)
	nDirected := len(pairs)
	rnd := c01RandomPairs(c, c.N(1200, 12000))
	pairs = append(pairs, rnd...)
	if only := os.Getenv("C01_ONLY"); only != "" { // debugging aid: run one family only
		var keep []c01Pair
		for _, p := range pairs {
			if p.Family == only {
				keep = append(keep, p)
			}
		}
		pairs, nDirected = keep, 0
	}
	c.Note(fmt.Sprintf("directed pairs %d, random pairs %d", nDirected, len(rnd)))
	// the second spelling of every pair runs with a randomly chosen kind of Config.Output (a third of them with the bytes.Buffer the
	// first spelling always has): what reaches the writer must not depend on its kind, however the program ends
	for i := range pairs {
		if k := c.Rng.Intn(len(enWriterKinds) + 4); k > 0 && k < len(enWriterKinds) {
			pairs[i].OutB = enWriterKinds[k]
		}
	}

	type outT struct {
		a, b       string
		okA, okB   bool
		codeDiffer bool
		da, db     time.Duration
	}
	outs := make([]outT, len(pairs))
	vh.Parallel(len(pairs), func(i int) {
		p := pairs[i]
		pa, ea := c01Parse(p.A)
		pb, eb := c01Parse(p.B)
		var o outT
		if ea != nil {
			o.a = "PARSE: " + ea.Error()
		} else {
			t := time.Now()
			o.a, o.okA = c01Canon(c01RunProg(pa, p.Input, p.Vars...)), true
			o.da = time.Since(t)
		}
		if eb != nil {
			o.b = "PARSE: " + eb.Error()
		} else {
			t := time.Now()
			o.b, o.okB = c01Canon(c01RunProgW(pb, p.Input, p.OutB, p.Vars...)), true
			o.db = time.Since(t)
		}
		if o.okA && o.okB {
			o.codeDiffer = vh.DumpCode(pa) != vh.DumpCode(pb)
		}
		outs[i] = o
	})
	parseBad := 0
	for i, p := range pairs {
		o := outs[i]
		if !o.okA || !o.okB {
			parseBad++
			if parseBad <= 3 {
				c.Note("generated program does not parse (harness generator bug, case skipped): " + o.a + " / " + o.b + " :: " + p.A + " :: " + p.B)
			}
			c.Hit("skipped:parse")
			continue
		}
		ta, tb := strings.Contains(o.a, "TIMEOUT after"), strings.Contains(o.b, "TIMEOUT after")
		if (ta || tb) && (ta == tb || o.da > time.Second && o.db > time.Second) {
			// a slow program (both spellings take seconds), not a spelling that loops for ever while the other finishes quickly
			c.Hit("skipped:slow-program")
			continue
		}
		c.Eval(p.A+"\x00"+p.B+"\x00"+p.Input+"\x00"+strings.Join(p.Vars, "\x00"), o.codeDiffer)
		c.OracleCase()
		c.Hit("oracle:" + p.Family)
		if p.Key != "" {
			c.Hit(p.Key)
		}
		if strings.Contains(o.a, "err=\"\"") {
			c.Hit("outcome:ok")
		} else {
			c.Hit("outcome:error")
		}
		if i%997 == 0 {
			c.Sample(map[string]interface{}{"pair": p, "result": o.a})
		}
		if o.a != o.b {
			if p.Family == "wide" {
				p, o.a, o.b = wideMinimise(p, o.a, o.b)
			}
			what := "two spellings of the same program behave differently (" + p.Family + ")"
			if p.OutB != "" {
				if pb, err := c01Parse(p.B); err == nil && c01Canon(c01RunProg(pb, p.Input, p.Vars...)) == o.a {
					what = "what reaches Config.Output depends on the kind of writer: program_b with config_output_b " + p.OutB +
						" (never flushed by the caller) differs from program_a with a bytes.Buffer; with a bytes.Buffer program_b agrees (" + p.Family + ")"
				}
			}
			c01Fail(len(p.A)+len(p.B), vh.Failure{Kind: "oracle", What: what, Finding: c01Classify(p), Case: p, Got: o.b, Want: o.a})
		}
	}
	if parseBad > 0 {
		c.Note(fmt.Sprintf("%d generated pairs did not parse", parseBad))
		if parseBad*20 > len(pairs) {
			panic("too many generated programs do not parse")
		}
	}

	// the complete result (standard output, files, status, error) for every way a program can end, against the reference evaluator
	if only := os.Getenv("C01_ONLY"); only == "" || only == "ends" {
		c01Ends(c)
	}
	// the value of a user-function call for every way the callee can be left, against the same reference evaluator
	if only := os.Getenv("C01_ONLY"); only == "" || only == "retval" {
		c01RetVal(c)
	}

	c01FlushFails(c)

	// correspondence with the Lean model
	if c.HasLean() {
		var srcs []string
		seen := map[string]bool{}
		add := func(s string) {
			if !seen[s] {
				seen[s] = true
				srcs = append(srcs, s)
			}
		}
		for i, p := range pairs {
			// quick tier: every random program, the corpus and a sample of the directed families
			// (the wide and csv-join families are large programs / outside the modelled language: a twelfth of them in both tiers)
			bulky := p.Family == "wide" || p.Family == "csv-join"
			if (c.Thorough() && !bulky) || i >= nDirected || i < 20 || i%12 == 0 {
				add(p.A)
				add(p.B)
			}
		}
		t1 := time.Now()
		c01CodeCorrespondence(c, srcs)
		t2 := time.Now()
		c01BehaviourCorrespondence(c)
		c.Note(fmt.Sprintf("timing: oracle %.1fs, code correspondence %.1fs (%d programs), behaviour correspondence %.1fs", t1.Sub(t0).Seconds(), t2.Sub(t1).Seconds(), len(srcs), time.Since(t2).Seconds()))
	}
}

var _ = bytes.MinRead
