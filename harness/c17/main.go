package main

// C17 — Go functions exposed to AWK convert arguments and results as documented.
//
// Signatures are built at run time (reflect.FuncOf + reflect.MakeFunc) with recording bodies: every documented kind, unnamed and
// as a declared named type, in every parameter position, variadic or not, 0/1/2 results. The AWK side passes argument
// expressions whose three projections (number, string form, truth value) are known from a hand-written table.
//
// Implementation-side oracle (no model): values received = documented conversion of the projections (truncation for integer
// kinds when the truncated value is in range, truth value, string form, float32 rounding, identity for float64), zero values
// for missing arguments, extra arguments spread over the variadic tail, result converted back (observed through a second native
// function that receives the result as float64, string and bool), non-nil error returned by ExecProgram *as is*, nothing after
// the call runs; every invalid shape / keyword name / non-function is rejected by ExecProgram before anything runs and never
// panics in ParseProgram or ExecProgram; too many arguments to a non-variadic function is a *parser.ParseError.
// Correspondence: the Lean model (GoawkModel.C17: checkNativeFunc, resolveCall, callNative with the amd64 float→int rule) on
// the same signature/arguments/body, including out-of-range conversions the oracle leaves open.

import (
	"bytes"
	"context"
	"errors"
	"fmt"
	"io"
	"math"
	"os"
	"reflect"
	"regexp"
	"sort"
	"strings"
	"time"
	"unsafe"

	"github.com/benhoyt/goawk/interp"
	"github.com/benhoyt/goawk/parser"

	"verifharness/vh"
)

// ---- declared named types of every documented kind ----------------------------------------------------------------------

type (
	NBool    bool
	NInt     int
	NInt8    int8
	NInt16   int16
	NInt32   int32
	NInt64   int64
	NUint    uint
	NUint8   uint8
	NUint16  uint16
	NUint32  uint32
	NUint64  uint64
	NFloat32 float32
	NFloat64 float64
	NString  string
	NBytes   []byte
	NByte    byte
	NBytesNB []NByte
	myErr    struct{}
	errPlus  interface {
		error
		Extra()
	}
)

func (*myErr) Error() string { return "myErr" }

var errorType = reflect.TypeOf((*error)(nil)).Elem()

var basicTypes = []reflect.Type{
	reflect.TypeOf(false), reflect.TypeOf(int(0)), reflect.TypeOf(int8(0)), reflect.TypeOf(int16(0)), reflect.TypeOf(int32(0)),
	reflect.TypeOf(int64(0)), reflect.TypeOf(uint(0)), reflect.TypeOf(uint8(0)), reflect.TypeOf(uint16(0)), reflect.TypeOf(uint32(0)),
	reflect.TypeOf(uint64(0)), reflect.TypeOf(float32(0)), reflect.TypeOf(float64(0)), reflect.TypeOf(""), reflect.TypeOf([]byte(nil)),
}

var namedTypes = []reflect.Type{
	reflect.TypeOf(NBool(false)), reflect.TypeOf(NInt(0)), reflect.TypeOf(NInt8(0)), reflect.TypeOf(NInt16(0)), reflect.TypeOf(NInt32(0)),
	reflect.TypeOf(NInt64(0)), reflect.TypeOf(NUint(0)), reflect.TypeOf(NUint8(0)), reflect.TypeOf(NUint16(0)), reflect.TypeOf(NUint32(0)),
	reflect.TypeOf(NUint64(0)), reflect.TypeOf(NFloat32(0)), reflect.TypeOf(NFloat64(0)), reflect.TypeOf(NString("")), reflect.TypeOf(NBytes(nil)),
	reflect.TypeOf([]NByte(nil)), reflect.TypeOf(NBytesNB(nil)), reflect.TypeOf(time.Duration(0)),
}

var invalidTypes = []reflect.Type{
	reflect.TypeOf(complex64(0)), reflect.TypeOf(complex128(0)), reflect.TypeOf(uintptr(0)), reflect.TypeOf([]int(nil)),
	reflect.TypeOf([]string(nil)), reflect.TypeOf([][]byte(nil)), reflect.TypeOf(map[string]int(nil)), reflect.TypeOf((*int)(nil)),
	reflect.TypeOf(struct{}{}), reflect.TypeOf((*any)(nil)).Elem(), errorType, reflect.TypeOf(func() {}), reflect.TypeOf((chan int)(nil)),
	reflect.TypeOf([3]byte{}), reflect.TypeOf(unsafe.Pointer(nil)), reflect.TypeOf([]uint16(nil)), reflect.TypeOf([]int8(nil)),
	reflect.TypeOf((*myErr)(nil)), reflect.TypeOf((*errPlus)(nil)).Elem(), reflect.TypeOf([]bool(nil)), reflect.TypeOf([]NBytes(nil)),
}

func kindConst(k reflect.Kind) string {
	switch k {
	case reflect.Ptr:
		return "Pointer"
	case reflect.UnsafePointer:
		return "UnsafePointer"
	}
	s := k.String()
	return strings.ToUpper(s[:1]) + s[1:]
}

// encTy renders a Go type in the model's encoding.
func encTy(t reflect.Type) string {
	if t == errorType {
		return "error"
	}
	named := t.Name() != "" && t.PkgPath() != ""
	if t.Kind() == reflect.Slice {
		if named {
			return "ns." + encTy(t.Elem())
		}
		return "s." + encTy(t.Elem())
	}
	if named {
		return "n." + kindConst(t.Kind())
	}
	return kindConst(t.Kind())
}

func encSig(ft reflect.Type) string {
	var b strings.Builder
	if ft.IsVariadic() {
		b.WriteString("1 P")
	} else {
		b.WriteString("0 P")
	}
	for i := 0; i < ft.NumIn(); i++ {
		b.WriteString(" " + encTy(ft.In(i)))
	}
	b.WriteString(" R")
	for i := 0; i < ft.NumOut(); i++ {
		b.WriteString(" " + encTy(ft.Out(i)))
	}
	return b.String()
}

// ---- canonical payloads ------------------------------------------------------------------------------------------------

func canon64(f float64) string {
	if f != f {
		return "d7ff8000000000001"
	}
	return fmt.Sprintf("d%016x", math.Float64bits(f))
}
func canon32(f float32) string {
	if f != f {
		return "f7fc00001"
	}
	return fmt.Sprintf("f%08x", math.Float32bits(f))
}

func isByteSlice(t reflect.Type) bool { return t.Kind() == reflect.Slice && t.Elem().Kind() == reflect.Uint8 }

// encVal renders a Go value (of a documented kind) as the model's NVal.
func encVal(v reflect.Value) string {
	switch v.Kind() {
	case reflect.Bool:
		if v.Bool() {
			return "b1"
		}
		return "b0"
	case reflect.Int, reflect.Int8, reflect.Int16, reflect.Int32, reflect.Int64:
		return fmt.Sprintf("i%d", v.Int())
	case reflect.Uint, reflect.Uint8, reflect.Uint16, reflect.Uint32, reflect.Uint64:
		return fmt.Sprintf("i%d", v.Uint())
	case reflect.Float32:
		return canon32(float32(v.Float()))
	case reflect.Float64:
		return canon64(v.Float())
	case reflect.String:
		return "s" + vh.HxS(v.String())
	case reflect.Slice:
		if v.IsNil() {
			return "nil"
		}
		return "s" + vh.Hx(v.Bytes())
	}
	return "?" + v.Kind().String()
}

// ---- AWK argument expressions with their projections (hand-written, independent of the code under test) -------------------

type awkArg struct {
	Expr  string
	Num   float64
	Str   string
	Truth bool
}

const c17Record = "3.0 abc 0 0x10 1e3 +5 -0 .5e1x"

var nan = math.NaN()

var awkArgs = []awkArg{
	{"0", 0, "0", false}, {"7", 7, "7", true}, {"-3", -3, "-3", true}, {"2.9", 2.9, "2.9", true}, {"-2.9", -2.9, "-2.9", true},
	{"300", 300, "300", true}, {"-129", -129, "-129", true}, {"128", 128, "128", true}, {"255.9", 255.9, "255.9", true},
	{"256", 256, "256", true}, {"65535.5", 65535.5, "65535.5", true}, {"-32769", -32769, "-32769", true}, {"40000", 40000, "40000", true},
	{"2147483647", 2147483647, "2147483647", true}, {"2147483648", 2147483648, "2147483648", true},
	{"-2147483649", -2147483649, "-2147483649", true}, {"4294967296.5", 4294967296.5, "4.29497e+09", true},
	{"3000000005", 3000000005, "3000000005", true}, {"1e10", 1e10, "10000000000", true},
	{"9007199254740993", 9007199254740992, "9007199254740992", true}, {"9223372036854775807", 9223372036854775808, "9.22337e+18", true},
	{"-9223372036854775808", -9223372036854775808, "-9223372036854775808", true}, {"1e19", 1e19, "1e+19", true},
	{"1.8e19", 1.8e19, "1.8e+19", true}, {"1e30", 1e30, "1e+30", true}, {"-1e30", -1e30, "-1e+30", true},
	{"1e-320", 1e-320, "9.99989e-321", true}, {"(0.1+0.2)", math.Float64frombits(0x3fd3333333333334), "0.3", true}, {"-0.5", -0.5, "-0.5", true},
	{"16777217", 16777217, "16777217", true}, {"3.4028235677973366e38", 3.4028235677973366e38, "3.40282e+38", true},
	{"1e-46", 1e-46, "1e-46", true}, {"1.401298464324817e-45", 1.401298464324817e-45, "1.4013e-45", true},
	{"log(-1)", nan, "nan", true}, {"-log(0)", math.Inf(1), "inf", true}, {"log(0)", math.Inf(-1), "-inf", true},
	{"-0", math.Copysign(0, -1), "0", false},
	{`"12abc"`, 12, "12abc", true}, {`"abc"`, 0, "abc", true}, {`""`, 0, "", false}, {`" 3.7 "`, 3.7, " 3.7 ", true},
	{`"0x1A"`, 26, "0x1A", true}, {`"+nan"`, nan, "+nan", true}, {`"inf"`, math.Inf(1), "inf", true}, {`"-2.5e2z"`, -250, "-2.5e2z", true},
	{`"0"`, 0, "0", true}, {`"\377\001"`, 0, "\xff\x01", true}, {`"-7.9"`, -7.9, "-7.9", true},
	{"u", 0, "", false},
	{"$1", 3, "3.0", true}, {"$2", 0, "abc", true}, {"$3", 0, "0", false}, {"$4", 16, "0x10", true}, {"$5", 1000, "1e3", true},
	{"$6", 5, "+5", true}, {"$7", math.Copysign(0, -1), "-0", false}, {"$8", 5, ".5e1x", true}, {"$9", 0, "", false},
	{"(1==1)", 1, "1", true}, {"length(\"héllo\")", 6, "6", true}, {"substr(\"x1y\", 2, 1)", 1, "1", true},
}

func (a awkArg) lean() string {
	t := "f"
	if a.Truth {
		t = "t"
	}
	return fmt.Sprintf("%016x:%s:%s", math.Float64bits(a.Num), t, vh.HxS(a.Str))
}

func intRange(k reflect.Kind) (lo, hi float64) { // [lo, hi) in which truncation is demanded by the oracle
	switch k {
	case reflect.Int8:
		return -128, 128
	case reflect.Int16:
		return -32768, 32768
	case reflect.Int32:
		return -2147483648, 2147483648
	case reflect.Int, reflect.Int64:
		return -9223372036854775808, 9223372036854775808
	case reflect.Uint8:
		return 0, 256
	case reflect.Uint16:
		return 0, 65536
	case reflect.Uint32:
		return 0, 4294967296
	case reflect.Uint, reflect.Uint64:
		return 0, 9223372036854775808 // the code goes through int64; [2^63, 2^64) is left open
	}
	panic("not an integer kind")
}

// expectArg is the documented conversion applied to the projections: the payload the Go function must receive, or "" when the
// property leaves the case open (number outside the target range: platform behaviour, checked against the model only).
func expectArg(t reflect.Type, a awkArg) string {
	switch t.Kind() {
	case reflect.Bool:
		if a.Truth {
			return "b1"
		}
		return "b0"
	case reflect.Int, reflect.Int8, reflect.Int16, reflect.Int32, reflect.Int64, reflect.Uint, reflect.Uint8, reflect.Uint16, reflect.Uint32, reflect.Uint64:
		if a.Num != a.Num || math.IsInf(a.Num, 0) {
			return ""
		}
		tr := math.Trunc(a.Num)
		lo, hi := intRange(t.Kind())
		if tr < lo || tr >= hi {
			return ""
		}
		return fmt.Sprintf("i%d", int64(tr))
	case reflect.Float32:
		return canon32(float32(a.Num))
	case reflect.Float64:
		return canon64(a.Num)
	case reflect.String, reflect.Slice:
		return "s" + vh.HxS(a.Str)
	}
	return "?"
}

func zeroPayload(t reflect.Type) string {
	switch t.Kind() {
	case reflect.Bool:
		return "b0"
	case reflect.Float32:
		return "f00000000"
	case reflect.Float64:
		return "d0000000000000000"
	case reflect.String:
		return "s-"
	case reflect.Slice:
		return "nil"
	}
	return "i0"
}

// ---- result values ------------------------------------------------------------------------------------------------------

func genResult(c *vh.Ctx, t reflect.Type) reflect.Value {
	v := reflect.New(t).Elem()
	r := c.Rng
	switch t.Kind() {
	case reflect.Bool:
		v.SetBool(r.Intn(2) == 0)
	case reflect.Int, reflect.Int8, reflect.Int16, reflect.Int32, reflect.Int64:
		bits := t.Bits()
		cands := []int64{0, 1, -1, 7, -42, 1<<(bits-1) - 1, -1 << (bits - 1), 9007199254740993, -9007199254740993, 9223372036854775295, r.Int63(), -r.Int63()}
		x := cands[r.Intn(len(cands))]
		x = x << (64 - bits) >> (64 - bits)
		v.SetInt(x)
	case reflect.Uint, reflect.Uint8, reflect.Uint16, reflect.Uint32, reflect.Uint64:
		bits := t.Bits()
		cands := []uint64{0, 1, 200, 1<<bits - 1, 1 << (bits - 1), 9007199254740993, 18446744073709550593, 18446744073709551615, r.Uint64()}
		x := cands[r.Intn(len(cands))]
		if bits < 64 {
			x &= 1<<bits - 1
		}
		v.SetUint(x)
	case reflect.Float32:
		cands := []uint32{0, 0x80000000, 1, 0x007fffff, 0x00800000, 0x7f7fffff, 0x7f800000, 0xff800000, 0x7fc00000, 0x3f800000, 0x40490fdb, r.Uint32(), r.Uint32()}
		v.SetFloat(float64(math.Float32frombits(cands[r.Intn(len(cands))])))
	case reflect.Float64:
		cands := []uint64{0, 0x8000000000000000, 1, 0x7fefffffffffffff, 0x7ff0000000000000, 0xfff0000000000000, 0x7ff8000000000000, 0x3ff0000000000000, 0x400921fb54442d18, 0xc0fe240c9fbe76c9, r.Uint64(), r.Uint64()}
		v.SetFloat(math.Float64frombits(cands[r.Intn(len(cands))]))
	case reflect.String:
		v.SetString(genBytes(c))
	case reflect.Slice:
		if r.Intn(6) == 0 {
			break // nil slice
		}
		b := reflect.MakeSlice(t, 0, 0)
		for _, x := range []byte(genBytes(c)) {
			e := reflect.New(t.Elem()).Elem()
			e.SetUint(uint64(x))
			b = reflect.Append(b, e)
		}
		v.Set(b)
	}
	return v
}

func genBytes(c *vh.Ctx) string {
	cands := []string{"", "0", "3.0", "abc", " 12 ", "\xff\xfe", "h\xc3\xa9llo", "1e3", "-0", "nan", "a\x00b", "0x10"}
	if c.Rng.Intn(3) == 0 {
		n := c.Rng.Intn(6)
		b := make([]byte, n)
		for i := range b {
			b[i] = byte(c.Rng.Intn(256))
		}
		return string(b)
	}
	return cands[c.Rng.Intn(len(cands))]
}

// expectResult: (numbits-or-"", str-or-nil, truth) the observer must see for a result value v, by the documented rule.
type obsT struct {
	Num   string // canon64
	Str   string
	Truth bool
	Calls int
}

func expectResult(v reflect.Value) (num string, str *string, truth bool) {
	switch v.Kind() {
	case reflect.Bool:
		if v.Bool() {
			return canon64(1), nil, true
		}
		return canon64(0), nil, false
	case reflect.Int, reflect.Int8, reflect.Int16, reflect.Int32, reflect.Int64:
		return canon64(float64(v.Int())), nil, v.Int() != 0
	case reflect.Uint, reflect.Uint8, reflect.Uint16, reflect.Uint32, reflect.Uint64:
		return canon64(float64(v.Uint())), nil, v.Uint() != 0
	case reflect.Float32, reflect.Float64:
		return canon64(v.Float()), nil, v.Float() != 0
	case reflect.String:
		s := v.String()
		return "", &s, s != ""
	case reflect.Slice:
		s := string(v.Bytes())
		return "", &s, s != ""
	}
	panic("unexpected result kind")
}

// ---- one call case --------------------------------------------------------------------------------------------------------

type callCase struct {
	Name    string   `json:"name"`
	Sig     string   `json:"sig"`
	GoType  string   `json:"go_type"`
	Args    []string `json:"awk_args"`
	Result  string   `json:"result,omitempty"`
	Err     bool     `json:"returns_error"`
	NilFunc bool     `json:"nil_func,omitempty"`
	Src     string   `json:"program"`
	ErrKind int      `json:"error_value,omitempty"` // which error value the Go function returns (c17ErrValues)
	Entry   int      `json:"entry,omitempty"`       // 0 ExecProgram, 1 New+Execute, 2 New+ExecuteContext(live, cancellable), 3 New+ExecuteContext(Background)

	ft     reflect.Type
	args   []awkArg
	resVal reflect.Value
}

var sentinel = errors.New("sentinel error from the Go function \xff")

// c17ErrValues: the error values a Go function may return; index 0 is the plain sentinel. Whatever the value is — also one that
// wraps a context error, io.EOF, or an error whose text imitates the interpreter's own — the run must end with exactly it
// (seeded C17-q3: an error wrapping context.DeadlineExceeded was swallowed under a live ExecuteContext).
var c17ErrValues = []error{
	sentinel,
	fmt.Errorf("native: %w", context.DeadlineExceeded),
	fmt.Errorf("native: %w", context.Canceled),
	context.Canceled,
	io.EOF,
	fmt.Errorf("wrapped eof: %w", io.ErrUnexpectedEOF),
	errors.New("exit"),
	os.ErrNotExist,
}

type callOut struct {
	parseErr   string
	parseIsPE  bool
	parsePanic string
	execPanic  string
	execErr    error
	out        string
	entered    int
	recv       []string
	obs        obsT
	wrongCalls []string
}

var fnNames = []string{"nf", "Z", "_f", "a1", "foo_bar", "zz", "m15", "Nf"}

func runCall(cs *callCase) (o callOut) {
	ft := cs.ft
	fn := reflect.MakeFunc(ft, func(a []reflect.Value) []reflect.Value {
		o.entered++
		o.recv = nil
		for i, v := range a {
			if ft.IsVariadic() && i == len(a)-1 {
				for k := 0; k < v.Len(); k++ {
					o.recv = append(o.recv, encVal(v.Index(k)))
				}
			} else {
				o.recv = append(o.recv, encVal(v))
			}
		}
		var res []reflect.Value
		if ft.NumOut() >= 1 {
			res = append(res, cs.resVal)
		}
		if ft.NumOut() == 2 {
			if cs.Err {
				res = append(res, reflect.ValueOf(&c17ErrValues[cs.ErrKind%len(c17ErrValues)]).Elem())
			} else {
				res = append(res, reflect.Zero(errorType))
			}
		}
		return res
	})
	var fv any = fn.Interface()
	if cs.NilFunc {
		fv = reflect.Zero(ft).Interface()
	}
	funcs := map[string]any{
		cs.Name: fv,
		"zobs": func(n float64, s string, b bool) {
			o.obs = obsT{canon64(n), s, b, o.obs.Calls + 1}
		},
		"m1": func(x int) int { o.wrongCalls = append(o.wrongCalls, "m1"); return x },
		"m2": func(s ...string) { o.wrongCalls = append(o.wrongCalls, "m2") },
		"B":  func() string { o.wrongCalls = append(o.wrongCalls, "B"); return "" },
	}
	var prog *parser.Program
	func() {
		defer func() {
			if r := recover(); r != nil {
				o.parsePanic = fmt.Sprint(r)
			}
		}()
		p, err := parser.ParseProgram([]byte(cs.Src), &parser.ParserConfig{Funcs: funcs})
		if err != nil {
			o.parseErr = err.Error()
			_, o.parseIsPE = err.(*parser.ParseError)
			return
		}
		prog = p
	}()
	if prog == nil {
		return
	}
	var out bytes.Buffer
	func() {
		defer func() {
			if r := recover(); r != nil {
				o.execPanic = fmt.Sprint(r)
			}
		}()
		cfg := &interp.Config{Funcs: funcs, Output: &out, Error: &out, Environ: []string{}, Stdin: strings.NewReader(c17Record + "\n")}
		switch cs.Entry % 4 {
		case 0:
			_, o.execErr = interp.ExecProgram(prog, cfg)
		default:
			it, err := interp.New(prog)
			if err != nil {
				o.execErr = err
				return
			}
			switch cs.Entry % 4 {
			case 1:
				_, o.execErr = it.Execute(cfg)
			case 2:
				ctx, cancel := context.WithTimeout(context.Background(), time.Hour)
				_, o.execErr = it.ExecuteContext(ctx, cfg)
				cancel()
			default:
				_, o.execErr = it.ExecuteContext(context.Background(), cfg)
			}
		}
	}()
	o.out = out.String()
	return
}

func genValidType(c *vh.Ctx) reflect.Type {
	if c.Rng.Intn(5) < 3 {
		return basicTypes[c.Rng.Intn(len(basicTypes))]
	}
	return namedTypes[c.Rng.Intn(len(namedTypes))]
}

func buildCase(c *vh.Ctx, in []reflect.Type, variadic bool, out []reflect.Type, nargs int, retErr bool, pick func() awkArg) *callCase {
	ft := reflect.FuncOf(in, out, variadic)
	cs := &callCase{ft: ft, Sig: encSig(ft), GoType: ft.String(), Err: retErr && len(out) == 2}
	cs.Name = fnNames[c.Rng.Intn(len(fnNames))]
	for i := 0; i < nargs; i++ {
		a := pick()
		cs.args = append(cs.args, a)
		cs.Args = append(cs.Args, a.Expr)
	}
	if len(out) >= 1 {
		cs.resVal = genResult(c, out[0])
		cs.Result = encVal(cs.resVal)
	}
	if cs.Err && c.Rng.Intn(2) == 0 {
		cs.ErrKind = c.Rng.Intn(len(c17ErrValues))
	}
	cs.Entry = c.Rng.Intn(4)
	c.Hit(fmt.Sprintf("entry:%d", cs.Entry))
	cs.Src = c17Place(c, fmt.Sprintf("print \"before\"; r = %s(%s); zobs(r, r, r); print \"after\"", cs.Name, strings.Join(cs.Args, ", ")))
	return cs
}

// c17Place puts the statements of a call case at one of the places a native function can be called from. In all of them the
// only input record is current ($1..$9 of the argument table keep their values) and the statements run exactly once: a rule,
// a user function called from a rule, END, END reached through exit in a rule or in BEGIN, BEGIN after a getline, a rule with
// a pattern. (Seeded C17-p3: an error returned by a native function in END after exit was dropped.)
func c17Place(c *vh.Ctx, body string) string {
	k := c.Rng.Intn(10)
	c.Hit(fmt.Sprintf("call-site:%d", k))
	switch k {
	case 0:
		return "function wrap() { " + body + " } { wrap() }"
	case 1:
		return "END { " + body + " }"
	case 2:
		return "{ exit } END { " + body + " }"
	case 3:
		return "BEGIN { getline; " + body + " }"
	case 4:
		return "BEGIN { getline; exit } END { " + body + " }"
	case 5:
		return "$1 { " + body + " }"
	case 6:
		return "function wrap() { " + body + " } BEGIN { getline; exit 3 } END { wrap() }"
	default:
		return "{ " + body + " }"
	}
}

func (cs *callCase) leanReq() string {
	var b strings.Builder
	nilf := "0"
	if cs.NilFunc {
		nilf = "1"
	}
	fmt.Fprintf(&b, "call %s %s A", nilf, cs.Sig)
	for _, a := range cs.args {
		b.WriteString(" " + a.lean())
	}
	res := "b0"
	if cs.resVal.IsValid() {
		res = encVal(cs.resVal)
	}
	e := "nil"
	if cs.Err {
		e = "e" + vh.HxS(c17ErrValues[cs.ErrKind%len(c17ErrValues)].Error())
	}
	fmt.Fprintf(&b, " B %s %s", res, e)
	return b.String()
}

// checkCall is the implementation-side oracle for one call case. It returns "" or what failed.
func checkCall(cs *callCase, o callOut) (what, got, want string) {
	ft := cs.ft
	nfixed := ft.NumIn()
	if ft.IsVariadic() {
		nfixed--
	}
	if o.parsePanic != "" {
		return "ParseProgram panicked", o.parsePanic, "no panic"
	}
	if !ft.IsVariadic() && len(cs.args) > ft.NumIn() {
		if o.parseErr == "" {
			return "too many arguments to a non-variadic native function was not a parse error", fmt.Sprintf("parsed; exec panic=%q err=%v", o.execPanic, o.execErr), "parse error"
		}
		if !o.parseIsPE || !strings.Contains(o.parseErr, "called with more arguments than declared") {
			return "too many arguments: not the documented parse error", o.parseErr, "*parser.ParseError … called with more arguments than declared"
		}
		return
	}
	if o.parseErr != "" {
		return "valid call was rejected by the parser", o.parseErr, "parses"
	}
	if o.execPanic != "" {
		return "call panicked", o.execPanic, "no panic"
	}
	if len(o.wrongCalls) > 0 {
		return "a different native function was called (index mismatch between resolver and interpreter)", strings.Join(o.wrongCalls, ","), cs.Name
	}
	if o.entered != 1 {
		return "the Go function was not entered exactly once", fmt.Sprint(o.entered), "1"
	}
	// arguments
	var wantRecv []string
	for i := 0; i < nfixed; i++ {
		if i < len(cs.args) {
			wantRecv = append(wantRecv, expectArg(ft.In(i), cs.args[i]))
		} else {
			wantRecv = append(wantRecv, zeroPayload(ft.In(i)))
		}
	}
	if ft.IsVariadic() {
		et := ft.In(ft.NumIn() - 1).Elem()
		for i := nfixed; i < len(cs.args); i++ {
			wantRecv = append(wantRecv, expectArg(et, cs.args[i]))
		}
	}
	if len(wantRecv) != len(o.recv) {
		return "number of values received", strings.Join(o.recv, " "), strings.Join(wantRecv, " ")
	}
	for i, w := range wantRecv {
		if w != "" && w != o.recv[i] {
			return fmt.Sprintf("argument %d not converted as documented", i), strings.Join(o.recv, " "), strings.Join(wantRecv, " ")
		}
	}
	// result / error
	if cs.Err {
		if o.execErr != c17ErrValues[cs.ErrKind%len(c17ErrValues)] {
			return "a non-nil error result did not abort the run with exactly that error", fmt.Sprintf("%v", o.execErr), "the sentinel error value itself"
		}
		if o.out != "before\n" || o.obs.Calls != 0 {
			return "statements after the failing call ran (or earlier output was lost)", fmt.Sprintf("%q obs=%d", o.out, o.obs.Calls), `"before\n"`
		}
		return
	}
	if o.execErr != nil {
		return "unexpected error", o.execErr.Error(), "nil"
	}
	if o.out != "before\nafter\n" || o.obs.Calls != 1 {
		return "program output", fmt.Sprintf("%q obs=%d", o.out, o.obs.Calls), `"before\nafter\n"`
	}
	if ft.NumOut() == 0 {
		if o.obs.Num != canon64(0) || o.obs.Str != "" || o.obs.Truth {
			return "a function without results did not yield the null value", fmt.Sprintf("%+v", o.obs), "0, \"\", false"
		}
		return
	}
	num, str, truth := expectResult(cs.resVal)
	if num != "" && num != o.obs.Num {
		return "numeric result not converted as documented", o.obs.Num, num
	}
	if str != nil && *str != o.obs.Str {
		return "string result not converted as documented", vh.HxS(o.obs.Str), vh.HxS(*str)
	}
	if truth != o.obs.Truth {
		return "truth value of the result", fmt.Sprint(o.obs.Truth), fmt.Sprint(truth)
	}
	return
}

// realAnswer renders the observed behaviour in the shape of the model's answer line; cmpLean compares field-wise.
func cmpLean(cs *callCase, o callOut, ans string) (ok bool, got string) {
	f := strings.Fields(ans)
	if len(f) < 2 {
		return false, "short answer"
	}
	tf := func(b bool) string {
		if b {
			return "t"
		}
		return "f"
	}
	var head []string
	var rest []string
	switch f[0] {
	case "panic":
		head, rest = f[:1], f[1:]
	case "err":
		head, rest = f[:2], f[2:]
	case "ok":
		if len(f) < 3 {
			return false, "short ok"
		}
		head, rest = f[:3], f[3:]
	default:
		return false, "unknown answer"
	}
	var real []string
	switch {
	case o.execPanic != "":
		real = []string{"panic"}
	case o.execErr != nil:
		if o.execErr == c17ErrValues[cs.ErrKind%len(c17ErrValues)] {
			real = []string{"err", vh.HxS(c17ErrValues[cs.ErrKind%len(c17ErrValues)].Error())}
		} else {
			real = []string{"err?", o.execErr.Error()}
		}
	default:
		if head[0] == "ok" {
			switch {
			case head[1] == "null":
				if o.obs.Num == canon64(0) && o.obs.Str == "" && !o.obs.Truth {
					real = head
				} else {
					real = []string{"ok", "non-null"}
				}
			case head[1][0] == 'n':
				real = []string{"ok", "n" + o.obs.Num[1:], tf(o.obs.Truth)}
			default:
				real = []string{"ok", "s" + vh.HxS(o.obs.Str), tf(o.obs.Truth)}
			}
		} else {
			real = []string{"ok"}
		}
	}
	realRecv := "norecv"
	if o.entered > 0 {
		realRecv = strings.TrimSpace("recv " + strings.Join(o.recv, " "))
	}
	g := strings.Join(real, " ") + " " + realRecv
	w := strings.Join(head, " ") + " " + strings.Join(rest, " ")
	return g == w, g
}

// ---- shapes: validation at set-up -----------------------------------------------------------------------------------------

type shapeCase struct {
	Name   string `json:"name"`
	Desc   string `json:"go_value"`
	FVal   string `json:"model_value"`
	Called bool   `json:"called_by_program"`

	val   any
	valid bool // documented shape and not a keyword
}

var checkMsgRe = []struct {
	re    *regexp.Regexp
	class string
}{
	{regexp.MustCompile(`^can't use keyword ".*" as native function name$`), "keyword"},
	{regexp.MustCompile(`^native function ".*" is not a function$`), "notfunc"},
	{regexp.MustCompile(`^native function ".*" is nil$`), "nilfunc"},
	{regexp.MustCompile(`^native function ".*" param (\d+) is not int or string$`), "param"},
	{regexp.MustCompile(`^native function ".*" return value is not int or string$`), "ret"},
	{regexp.MustCompile(`^native function ".*" first return value is not int or string$`), "ret1"},
	{regexp.MustCompile(`^native function ".*" second return value is not an error$`), "ret2"},
	{regexp.MustCompile(`^native function ".*" returns more than two values$`), "toomany"},
}

func classifyCheckErr(msg string) string {
	for _, m := range checkMsgRe {
		if sm := m.re.FindStringSubmatch(msg); sm != nil {
			if m.class == "param" {
				return "param" + sm[1]
			}
			return m.class
		}
	}
	return "unknown:" + msg
}

func validType(t reflect.Type) bool {
	switch t.Kind() {
	case reflect.Bool, reflect.Int, reflect.Int8, reflect.Int16, reflect.Int32, reflect.Int64, reflect.Uint, reflect.Uint8, reflect.Uint16,
		reflect.Uint32, reflect.Uint64, reflect.Float32, reflect.Float64, reflect.String:
		return true
	case reflect.Slice:
		return t.Elem().Kind() == reflect.Uint8
	}
	return false
}

// documentedShape is the property's statement of an acceptable function type, written independently of checkNativeFunc.
func documentedShape(ft reflect.Type) bool {
	for i := 0; i < ft.NumIn(); i++ {
		p := ft.In(i)
		if ft.IsVariadic() && i == ft.NumIn()-1 {
			p = p.Elem()
		}
		if !validType(p) {
			return false
		}
	}
	switch ft.NumOut() {
	case 0:
		return true
	case 1:
		return validType(ft.Out(0))
	case 2:
		return validType(ft.Out(0)) && ft.Out(1) == errorType
	}
	return false
}

var keywordNames = []string{"BEGIN", "END", "atan2", "break", "close", "continue", "cos", "delete", "do", "else", "exit", "exp", "fflush", "for",
	"function", "getline", "gsub", "if", "in", "index", "int", "length", "log", "match", "next", "nextfile", "print", "printf", "rand", "return",
	"sin", "split", "sprintf", "sqrt", "srand", "sub", "substr", "system", "tolower", "toupper", "while"}

type shapeOut struct {
	parsePanic, parseErr, execPanic, execErr, out string
}

func runShape(sc *shapeCase) (o shapeOut) {
	funcs := map[string]any{sc.Name: sc.val, "ok1": func(int) int { return 0 }}
	src := `BEGIN { print "ran" }`
	if sc.Called {
		src = `BEGIN { print "ran"; ` + sc.Name + `() }`
	}
	var prog *parser.Program
	func() {
		defer func() {
			if r := recover(); r != nil {
				o.parsePanic = fmt.Sprint(r)
			}
		}()
		p, err := parser.ParseProgram([]byte(src), &parser.ParserConfig{Funcs: funcs})
		if err != nil {
			o.parseErr = err.Error()
			return
		}
		prog = p
	}()
	if prog == nil {
		// set-up is still exercised with a program that does not mention the function
		p, err := parser.ParseProgram([]byte(`BEGIN { print "ran" }`), nil)
		if err != nil {
			panic(err)
		}
		prog = p
	}
	var out bytes.Buffer
	func() {
		defer func() {
			if r := recover(); r != nil {
				o.execPanic = fmt.Sprint(r)
			}
		}()
		_, err := interp.ExecProgram(prog, &interp.Config{Funcs: funcs, Output: &out, Error: &out, Environ: []string{}})
		if err != nil {
			o.execErr = err.Error()
		}
	}()
	o.out = out.String()
	return
}

// ---- dispatch ---------------------------------------------------------------------------------------------------------------
//
// Funcs maps with 2-5 entries of DIFFERENT signatures whose results name the Go function that produced them; the program defines
// AWK functions, some under the name of a map entry (the AWK definition must win) and some under other names that sort before /
// between / after the entries, and calls every name once with the argument 2.9 (plus "q" where a second one fits). Oracle: each
// printed result is the one the Go function OF THAT NAME gives for the documented conversion of 2.9 (int 2, uint8 2, string and
// []byte "2.9", float64 2.9, bool true), the overridden names give the AWK result, and exactly the non-overridden Go functions ran.
type dispCase struct {
	Funcs   []string `json:"funcs"` // name:template
	AwkDefs []string `json:"awk_functions"`
	Program string   `json:"program"`
	Want    string   `json:"expected_output"`

	names []string
	tmpl  map[string]int
}

var dispTemplates = []struct {
	desc string
	args string
	make func(name string, hit func(string)) any
	want func(name string) string
}{
	{"func(int) string", "2.9", func(n string, hit func(string)) any {
		return func(x int) string { hit(n); return fmt.Sprintf("%s/int:%d", n, x) }
	}, func(n string) string { return n + "/int:2" }},
	{"func(string) string", "2.9", func(n string, hit func(string)) any {
		return func(x string) string { hit(n); return n + "/str:" + x }
	}, func(n string) string { return n + "/str:2.9" }},
	{"func(float64, bool) string", `2.9, "q"`, func(n string, hit func(string)) any {
		return func(x float64, b bool) string { hit(n); return fmt.Sprintf("%s/fb:%v,%v", n, x, b) }
	}, func(n string) string { return n + "/fb:2.9,true" }},
	{"func(...string) string", `2.9, "q"`, func(n string, hit func(string)) any {
		return func(xs ...string) string { hit(n); return fmt.Sprintf("%s/var:%d:%s", n, len(xs), strings.Join(xs, ",")) }
	}, func(n string) string { return n + "/var:2:2.9,q" }},
	{"func(uint8) NString", "2.9", func(n string, hit func(string)) any {
		return func(x uint8) NString { hit(n); return NString(fmt.Sprintf("%s/u8:%d", n, x)) }
	}, func(n string) string { return n + "/u8:2" }},
	{"func([]byte) ([]byte, error)", "2.9", func(n string, hit func(string)) any {
		return func(x []byte) ([]byte, error) { hit(n); return []byte(n + "/bytes:" + string(x)), nil }
	}, func(n string) string { return n + "/bytes:2.9" }},
	{"func() string", "", func(n string, hit func(string)) any {
		return func() string { hit(n); return n + "/none" }
	}, func(n string) string { return n + "/none" }},
}

func runDispatch(c *vh.Ctx) {
	pool := []string{"aa", "ab", "b", "ba", "Zz", "_u", "m9", "zz", "a", "B1"}
	extraAwk := []string{"A0", "a0", "az", "mm", "zzz", "_a"} // AWK-only names: before / between / after the map's names
	n := c.N(400, 6000)
	cases := make([]*dispCase, n)
	type resT struct {
		out, err, pnc string
		hits         []string
	}
	res := make([]resT, n)
	for i := range cases {
		k := 2 + c.Rng.Intn(4)
		perm := c.Rng.Perm(len(pool))[:k]
		dc := &dispCase{tmpl: map[string]int{}}
		for _, pi := range perm {
			dc.names = append(dc.names, pool[pi])
		}
		sort.Strings(dc.names)
		tperm := c.Rng.Perm(len(dispTemplates))
		over := map[string]bool{}
		for j, name := range dc.names {
			dc.tmpl[name] = tperm[j%len(tperm)]
			dc.Funcs = append(dc.Funcs, name+": "+dispTemplates[dc.tmpl[name]].desc)
			if c.Rng.Intn(3) == 0 {
				over[name] = true
			}
		}
		if i%4 == 0 { // make sure the sorted-before case is frequent: override the smallest name, call the rest
			over[dc.names[0]] = true
			delete(over, dc.names[len(dc.names)-1])
		}
		var src, want strings.Builder
		for _, name := range dc.names {
			if over[name] {
				dc.AwkDefs = append(dc.AwkDefs, name)
			}
		}
		for _, e := range extraAwk {
			if c.Rng.Intn(3) == 0 {
				dc.AwkDefs = append(dc.AwkDefs, e)
			}
		}
		c.Rng.Shuffle(len(dc.AwkDefs), func(a, b int) { dc.AwkDefs[a], dc.AwkDefs[b] = dc.AwkDefs[b], dc.AwkDefs[a] })
		for _, a := range dc.AwkDefs {
			fmt.Fprintf(&src, "function %s(x, y) { return \"awk-%s:\" x }\n", a, a)
		}
		src.WriteString("BEGIN {\n")
		calls := append([]string{}, dc.names...)
		for _, a := range dc.AwkDefs {
			if !over[a] {
				calls = append(calls, a)
			}
		}
		c.Rng.Shuffle(len(calls), func(a, b int) { calls[a], calls[b] = calls[b], calls[a] })
		for _, name := range calls {
			t, isNative := dc.tmpl[name]
			if isNative && !over[name] {
				fmt.Fprintf(&src, "  print %s(%s)\n", name, dispTemplates[t].args)
				want.WriteString(dispTemplates[t].want(name) + "\n")
			} else {
				fmt.Fprintf(&src, "  print %s(2.9)\n", name)
				want.WriteString("awk-" + name + ":2.9\n")
			}
		}
		src.WriteString("}\n")
		dc.Program, dc.Want = src.String(), want.String()
		cases[i] = dc
	}
	vh.Parallel(n, func(i int) {
		dc := cases[i]
		r := &res[i]
		defer func() {
			if p := recover(); p != nil {
				r.pnc = fmt.Sprint(p)
			}
		}()
		funcs := map[string]any{}
		for _, name := range dc.names {
			funcs[name] = dispTemplates[dc.tmpl[name]].make(name, func(h string) { r.hits = append(r.hits, h) })
		}
		prog, err := parser.ParseProgram([]byte(dc.Program), &parser.ParserConfig{Funcs: funcs})
		if err != nil {
			r.err = "parse: " + err.Error()
			return
		}
		var out bytes.Buffer
		_, err = interp.ExecProgram(prog, &interp.Config{Funcs: funcs, Output: &out, Error: &out, Environ: []string{}})
		r.out = out.String()
		if err != nil {
			r.err = err.Error()
		}
	})
	var reqs []string
	var reqCase []int
	for i, dc := range cases {
		r := res[i]
		c.Eval("disp|"+dc.Program+strings.Join(dc.Funcs, ";"), len(dc.AwkDefs) > 0)
		c.OracleCase()
		c.Hit(fmt.Sprintf("dispatch:entries=%d", len(dc.names)))
		over := map[string]bool{}
		for _, a := range dc.AwkDefs {
			over[a] = true
		}
		nover := 0
		for j, name := range dc.names {
			if over[name] {
				nover++
				if j < len(dc.names)-1 {
					c.Hit("dispatch:overridden entry sorts before a called native")
				}
			}
		}
		c.Hit(fmt.Sprintf("dispatch:overridden=%d", nover))
		if i%499 == 0 {
			c.Sample(map[string]interface{}{"dispatch": dc, "output": r.out})
		}
		var wantHits []string
		for _, name := range dc.names {
			if !over[name] {
				wantHits = append(wantHits, name)
			}
		}
		gotHits := append([]string{}, r.hits...)
		sort.Strings(gotHits)
		switch {
		case r.pnc != "":
			c.Fail(vh.Failure{Kind: "oracle", What: "dispatch: panic", Case: dc, Got: r.pnc, Want: "no panic"})
		case r.err != "":
			c.Fail(vh.Failure{Kind: "oracle", What: "dispatch: a program that calls documented functions with accepted argument counts fails", Case: dc, Got: r.err, Want: "runs"})
		case r.out != dc.Want:
			c.Fail(vh.Failure{Kind: "oracle", What: "dispatch: a call did not reach the Go function of that name with the documented conversions (or an AWK definition did not win)", Case: dc, Got: r.out, Want: dc.Want})
		case strings.Join(gotHits, ",") != strings.Join(wantHits, ","):
			c.Fail(vh.Failure{Kind: "oracle", What: "dispatch: the set of Go functions that ran", Case: dc, Got: strings.Join(gotHits, ","), Want: strings.Join(wantHits, ",")})
		}
		// model: which callee each name reaches
		awk := "-"
		if len(dc.AwkDefs) > 0 {
			hs := make([]string, len(dc.AwkDefs))
			for j, a := range dc.AwkDefs {
				hs[j] = vh.HxS(a)
			}
			awk = strings.Join(hs, ",")
		}
		fs := make([]string, len(dc.names))
		for j, a := range dc.names {
			fs[len(dc.names)-1-j] = vh.HxS(a) // reversed: the model sorts
		}
		for _, name := range dc.names {
			reqs = append(reqs, fmt.Sprintf("disp %s %s %s", awk, strings.Join(fs, ","), vh.HxS(name)))
			reqCase = append(reqCase, i)
		}
	}
	if c.HasLean() {
		for k, a := range c.LeanBatch(reqs) {
			dc := cases[reqCase[k]]
			name := string(vh.Unhx(strings.Fields(reqs[k])[3]))
			over := false
			for _, x := range dc.AwkDefs {
				over = over || x == name
			}
			// what the run shows for this name: its line in the output
			t := dc.tmpl[name]
			real := "?"
			r := res[reqCase[k]]
			for _, ln := range strings.Split(r.out, "\n") {
				if ln == "awk-"+name+":2.9" {
					real = "awk " + vh.HxS(name)
				} else if !over && ln == dispTemplates[t].want(name) {
					real = "native " + vh.HxS(name)
				}
			}
			c.Trace()
			if real != a {
				c.Fail(vh.Failure{Kind: "correspondence", What: "dispatch: model (sorted key list on both sides) and code disagree for " + name, Case: dc, Got: real + " | output: " + r.out, Want: a})
			}
		}
	}
	c.Note(fmt.Sprintf("%d dispatch programs", n))
}

// ---- set-up histories --------------------------------------------------------------------------------------------------------
//
// One program (parsed with the good map G = {f: func(int) int, g: func(string) string}) is run 2-3 times on one Interpreter made
// by interp.New. Each call passes either G itself or G with one entry of an invalid shape (every invalid shape of section 2:
// undocumented parameter / result types in every position, three results, second result not error, keyword names, non-functions,
// untyped nil, nil functions). Oracle, each call judged on its own: while no call has been accepted yet, a call with an invalid
// map is rejected before anything runs with the same error a fresh interpreter gives, and a call with G behaves exactly as on a
// fresh interpreter; once a call has been accepted (the documentation then forbids changing Funcs) a further call with G still
// behaves the same, and a call with a changed map must at least not panic. Never a panic. Also: the parser sees a map with an
// extra entry of invalid shape that the program does not call, the interpreter sees G.
type histCall struct {
	Bad    string `json:"invalid_entry,omitempty"` // "" = the good map
	Method string `json:"method"`
	bad    *shapeCase
}

type histCase struct {
	ParseExtra string     `json:"parse_time_extra_invalid_entry,omitempty"`
	Calls      []histCall `json:"calls"`
	Program    string     `json:"program"`
	parseExtra *shapeCase
}

const histSrc = `BEGIN { print "ran"; print f(41), g("a") }`
const histOut = "ran\n42 a!\n"

type histRes struct{ out, err, pnc string }

func histMaps(bad *shapeCase) map[string]any {
	m := map[string]any{"f": func(x int) int { return x + 1 }, "g": func(s string) string { return s + "!" }}
	if bad != nil {
		m[bad.Name] = bad.val
	}
	return m
}

func histExec(it *interp.Interpreter, funcs map[string]any, method string) (r histRes) {
	var out bytes.Buffer
	defer func() {
		if p := recover(); p != nil {
			r.pnc = fmt.Sprint(p)
			r.out = out.String()
		}
	}()
	cfg := &interp.Config{Funcs: funcs, Output: &out, Error: &out, Environ: []string{}}
	var err error
	if method == "ExecuteContext" {
		_, err = it.ExecuteContext(context.Background(), cfg)
	} else {
		_, err = it.Execute(cfg)
	}
	r.out = out.String()
	if err != nil {
		r.err = err.Error()
	}
	return
}

func histLeanEntries(bad *shapeCase) string {
	var b strings.Builder
	b.WriteString(" C")
	if bad == nil || bad.Name != "f" {
		b.WriteString(" 66 func 0 0 P Int R Int E")
	}
	if bad == nil || bad.Name != "g" {
		b.WriteString(" 67 func 0 0 P String R String E")
	}
	if bad != nil {
		b.WriteString(" " + vh.HxS(bad.Name) + " " + bad.FVal + " E")
	}
	return b.String()
}

func runHistories(c *vh.Ctx, shapes []*shapeCase) {
	var invalid []*shapeCase
	seen := map[string]bool{}
	for _, sc := range shapes {
		if sc.valid || !isIdent(sc.Name) && sc.Name != "f" {
			continue
		}
		k := sc.Name + "|" + sc.FVal
		if seen[k] {
			continue
		}
		seen[k] = true
		invalid = append(invalid, sc)
	}
	patterns := [][]bool{{true, false}, {true, true, false}, {false, true, false}, {true, false, true}, {true, false, false}} // true = invalid map
	var cases []*histCase
	methods := []string{"Execute", "ExecuteContext"}
	for i, sc := range invalid {
		for pi, pat := range patterns {
			if !c.Thorough() && (i+pi)%2 == 1 {
				continue
			}
			hc := &histCase{Program: histSrc}
			for _, bad := range pat {
				call := histCall{Method: methods[c.Rng.Intn(2)]}
				if bad {
					b := sc
					if c.Rng.Intn(4) == 0 {
						b = invalid[c.Rng.Intn(len(invalid))] // a different invalid shape in each rejected call
					}
					call.bad, call.Bad = b, b.Name+" = "+b.Desc+" ["+b.FVal+"]"
				}
				hc.Calls = append(hc.Calls, call)
			}
			if c.Rng.Intn(5) == 0 && sc.Name != "f" && sc.Name != "g" && !strings.HasPrefix(sc.FVal, "other") && sc.FVal != "nil" {
				// the parser is given G plus an uncalled entry of invalid shape under a name that sorts after f and g
				pe := *sc
				pe.Name = "h"
				hc.parseExtra, hc.ParseExtra = &pe, "h = "+sc.Desc
			}
			cases = append(cases, hc)
		}
	}
	// reference behaviour of every map on a fresh interpreter
	freshErr := func(prog *parser.Program, bad *shapeCase) histRes {
		it, _ := interp.New(prog)
		return histExec(it, histMaps(bad), "Execute")
	}
	results := make([][]histRes, len(cases))
	fresh := make([][]histRes, len(cases))
	parseFail := make([]string, len(cases))
	vh.Parallel(len(cases), func(i int) {
		hc := cases[i]
		defer func() {
			if p := recover(); p != nil {
				parseFail[i] = fmt.Sprint("panic: ", p)
			}
		}()
		prog, err := parser.ParseProgram([]byte(histSrc), &parser.ParserConfig{Funcs: histMaps(hc.parseExtra)})
		if err != nil {
			parseFail[i] = err.Error()
			return
		}
		it, err := interp.New(prog)
		if err != nil {
			parseFail[i] = err.Error()
			return
		}
		for _, call := range hc.Calls {
			results[i] = append(results[i], histExec(it, histMaps(call.bad), call.Method))
			fresh[i] = append(fresh[i], freshErr(prog, call.bad))
		}
	})
	var reqs []string
	for i, hc := range cases {
		key := hc.ParseExtra
		accepted := false
		for _, call := range hc.Calls {
			key += "|" + call.Method + ":" + call.Bad
		}
		c.Eval("hist|"+key, true)
		c.OracleCase()
		c.Hit(fmt.Sprintf("history:calls=%d", len(hc.Calls)))
		if hc.parseExtra != nil {
			c.Hit("history:parse-time map has an extra invalid entry")
		}
		if i%499 == 0 {
			c.Sample(map[string]interface{}{"history": hc, "results": fmt.Sprintf("%+v", results[i])})
		}
		fail := func(what, got, want string) {
			c.Fail(vh.Failure{Kind: "oracle", What: "set-up history: " + what, Case: hc, Got: got, Want: want})
		}
		if parseFail[i] != "" {
			fail("ParseProgram / New failed for a program that only calls functions of documented shape", parseFail[i], "parses")
			continue
		}
		req := "hist"
		for j, call := range hc.Calls {
			r, fr := results[i][j], fresh[i][j]
			req += histLeanEntries(call.bad)
			pos := fmt.Sprintf("call %d (%s, %s)", j+1, call.Method, map[bool]string{true: "invalid map", false: "good map"}[call.bad != nil])
			if r.pnc != "" {
				fail(pos+" panicked", r.pnc+" | output so far: "+r.out, "no panic")
				break
			}
			if fr.pnc != "" {
				fail(pos+": the same map panics on a fresh interpreter", fr.pnc, "no panic")
				break
			}
			switch {
			case call.bad == nil:
				c.Hit("history:good call")
				if r.err != "" || r.out != histOut {
					fail(pos+" does not behave as on a fresh interpreter", fmt.Sprintf("err=%q out=%q", r.err, r.out), fmt.Sprintf("err=\"\" out=%q", histOut))
				}
				if fr.err != "" || fr.out != histOut {
					fail(pos+": fresh interpreter rejects the good map", fmt.Sprintf("err=%q out=%q", fr.err, fr.out), histOut)
				}
				accepted = true
			case !accepted:
				c.Hit("history:invalid call before any accepted call")
				if r.err == "" || r.out != "" {
					fail(pos+" was not rejected before anything ran", fmt.Sprintf("err=%q out=%q", r.err, r.out), "an error and no output")
				} else if r.err != fr.err {
					fail(pos+" is rejected with a different error than on a fresh interpreter", r.err, fr.err)
				}
				if fr.err == "" {
					fail(pos+": a fresh interpreter accepts the invalid map", "out="+fr.out, "an error")
				}
			default:
				c.Hit("history:changed map after an accepted call (only no-panic demanded)")
			}
		}
		reqs = append(reqs, req)
	}
	if c.HasLean() {
		for i, a := range c.LeanBatch(reqs) {
			if parseFail[i] != "" {
				continue
			}
			ans := strings.Fields(a)
			hc := cases[i]
			if len(ans) != len(hc.Calls) {
				c.Fail(vh.Failure{Kind: "correspondence", What: "set-up history: model answer unreadable", Case: hc, Got: a})
				continue
			}
			c.Trace()
			var real []string
			for j := range hc.Calls {
				r := results[i][j]
				switch {
				case r.pnc != "":
					real = append(real, "panic")
				case r.err != "":
					real = append(real, "err:"+classifyCheckErr(r.err))
				case r.out == histOut:
					real = append(real, "ran")
				default:
					real = append(real, "out:"+r.out)
				}
			}
			want := strings.ReplaceAll(strings.ReplaceAll(a, "cached", "ran"), "ok", "ran")
			if strings.Join(real, " ") != want {
				c.Fail(vh.Failure{Kind: "correspondence", What: "set-up history: model (cached table as state) and code disagree", Case: hc,
					Got: strings.Join(real, " "), Want: a})
			}
		}
	}
	c.Note(fmt.Sprintf("%d set-up histories over %d invalid shapes", len(cases), len(invalid)))
}

func isIdent(s string) bool { return regexp.MustCompile(`^[A-Za-z_][A-Za-z0-9_]*$`).MatchString(s) }

func main() { vh.Main("C17", runC17) }

func runC17(c *vh.Ctx) {
	c.Rule("call case = (signature over the documented kinds incl. declared named types, variadic or not, 0/1/2 results; argument count 0…params+3; " +
		"AWK argument expressions from a 61-entry table of numbers, strings, fields, unset; result value; error or not); non-trivial = at least one " +
		"argument is passed to a non-float64 parameter, or a result is converted, or the count differs from the parameter count. " +
		"shape case = (Funcs name, value of a valid/invalid function type or a non-function, called or not)")

	// ---------------- 0. the argument table itself, checked against the interpreter through (float64, string, bool) ----------
	for _, a := range awkArgs {
		ft := reflect.TypeOf(func(float64, string, bool) {})
		cs := &callCase{ft: ft, Sig: encSig(ft), GoType: ft.String(), Name: "nf", args: []awkArg{a, a, a}, Args: []string{a.Expr, a.Expr, a.Expr}}
		cs.Src = fmt.Sprintf("{ print \"before\"; r = nf(%s, %s, %s); zobs(r, r, r); print \"after\" }", a.Expr, a.Expr, a.Expr)
		o := runCall(cs)
		c.OracleCase()
		c.Eval("table|"+a.Expr, false)
		if what, got, want := checkCall(cs, o); what != "" {
			c.Fail(vh.Failure{Kind: "oracle", What: "projection table: " + what, Case: cs, Got: got, Want: want})
		}
	}

	// ---------------- 1. call cases ------------------------------------------------------------------------------------------
	var cases []*callCase
	anyArg := func() awkArg { return awkArgs[c.Rng.Intn(len(awkArgs))] }
	allValid := append(append([]reflect.Type{}, basicTypes...), namedTypes...)
	// 1a. every kind (unnamed and named) in every position of a 1..3-parameter function, with every table entry
	for _, t := range allValid {
		for pos := 0; pos < 3; pos++ {
			for _, variadic := range []bool{false, true} {
				in := make([]reflect.Type, pos+1)
				for i := range in {
					in[i] = genValidType(c)
				}
				in[pos] = t
				if variadic {
					in[pos] = reflect.SliceOf(t)
				}
				step := c.N(7, 1)
				for ai := c.Rng.Intn(step); ai < len(awkArgs); ai += step {
					a := awkArgs[ai]
					var out []reflect.Type
					switch c.Rng.Intn(3) {
					case 1:
						out = []reflect.Type{genValidType(c)}
					case 2:
						out = []reflect.Type{genValidType(c), errorType}
					}
					nargs := pos + 1
					if variadic {
						nargs += c.Rng.Intn(3)
					}
					k := 0
					cs := buildCase(c, in, variadic, out, nargs, c.Rng.Intn(4) == 0, func() awkArg {
						k++
						if k-1 >= pos {
							if k-1 == pos || c.Rng.Intn(2) == 0 {
								return a
							}
						}
						return anyArg()
					})
					cases = append(cases, cs)
				}
			}
		}
	}
	// 1b. every kind as a result, several values each
	for _, t := range allValid {
		for k := 0; k < c.N(6, 40); k++ {
			out := []reflect.Type{t}
			if k%2 == 1 {
				out = append(out, errorType)
			}
			var in []reflect.Type
			for i := c.Rng.Intn(3); i > 0; i-- {
				in = append(in, genValidType(c))
			}
			cases = append(cases, buildCase(c, in, false, out, c.Rng.Intn(len(in)+1), k%6 == 5, anyArg))
		}
	}
	// 1c. random signatures, every argument count 0 … params+3 (too many ⇒ parse error for non-variadic)
	for k := 0; k < c.N(300, 6000); k++ {
		np := c.Rng.Intn(5)
		variadic := c.Rng.Intn(3) == 0
		if variadic && np == 0 {
			np = 1
		}
		in := make([]reflect.Type, np)
		for i := range in {
			in[i] = genValidType(c)
		}
		if variadic {
			in[np-1] = reflect.SliceOf(in[np-1])
		}
		var out []reflect.Type
		switch c.Rng.Intn(3) {
		case 1:
			out = []reflect.Type{genValidType(c)}
		case 2:
			out = []reflect.Type{genValidType(c), errorType}
		}
		for nargs := 0; nargs <= np+3; nargs++ {
			if c.Rng.Intn(2) == 0 && nargs != np+1 && nargs != 0 {
				continue
			}
			cases = append(cases, buildCase(c, in, variadic, out, nargs, c.Rng.Intn(4) == 0, anyArg))
		}
	}
	// corpus: F20 witnesses (fixed) and the shapes of TestNative
	{
		dur := reflect.TypeOf(time.Duration(0))
		for _, a := range []string{"7", "2.9", `"12abc"`, "1e30"} {
			aa := awkArgs[0]
			for _, x := range awkArgs {
				if x.Expr == a {
					aa = x
				}
			}
			cases = append(cases, buildCase(c, []reflect.Type{dur}, false, []reflect.Type{reflect.TypeOf(0)}, 1, false, func() awkArg { return aa }))
			cases = append(cases, buildCase(c, []reflect.Type{reflect.SliceOf(dur)}, true, []reflect.Type{dur, errorType}, 2, false, func() awkArg { return aa }))
		}
	}

	outs := make([]callOut, len(cases))
	vh.Parallel(len(cases), func(i int) { outs[i] = runCall(cases[i]) })

	var reqs []string
	for i, cs := range cases {
		o := outs[i]
		ft := cs.ft
		nontrivial := ft.NumOut() > 0 || len(cs.args) != ft.NumIn()
		for j := 0; j < ft.NumIn() && j < len(cs.args); j++ {
			if ft.In(j).Kind() != reflect.Float64 {
				nontrivial = true
			}
		}
		c.Eval(cs.Sig+"|"+strings.Join(cs.Args, ",")+"|"+cs.Result+fmt.Sprint(cs.Err), nontrivial)
		c.OracleCase()
		c.Hit(fmt.Sprintf("call:params=%d", ft.NumIn()))
		c.Hit(fmt.Sprintf("call:results=%d", ft.NumOut()))
		if ft.IsVariadic() {
			c.Hit("call:variadic")
		}
		switch {
		case !ft.IsVariadic() && len(cs.args) > ft.NumIn():
			c.Hit("call:args>params(parse error)")
		case len(cs.args) < ft.NumIn():
			c.Hit("call:args<params(zero fill)")
		case len(cs.args) > ft.NumIn():
			c.Hit("call:variadic spread>1")
		default:
			c.Hit("call:args=params")
		}
		if cs.Err {
			c.Hit("call:returns error")
		}
		for j := 0; j < ft.NumIn(); j++ {
			p := ft.In(j)
			if ft.IsVariadic() && j == ft.NumIn()-1 {
				p = p.Elem()
			}
			c.Hit("param:" + encTy(p))
		}
		if ft.NumOut() > 0 {
			c.Hit("result:" + encTy(ft.Out(0)))
		}
		if i%997 == 0 {
			c.Sample(map[string]interface{}{"case": cs, "received": o.recv, "observed_result": o.obs})
		}
		if what, got, want := checkCall(cs, o); what != "" {
			c.Fail(vh.Failure{Kind: "oracle", What: what, Finding: "", Case: cs, Got: got, Want: want})
		}
		reqs = append(reqs, cs.leanReq())
	}
	if c.HasLean() {
		ans := c.LeanBatch(reqs)
		for i, a := range ans {
			cs, o := cases[i], outs[i]
			if !cs.ft.IsVariadic() && len(cs.args) > cs.ft.NumIn() {
				// the call never happens: the resolver rejects it; the model agrees iff resolveCall says so (checked below) and
				// callNative itself would panic
				c.Trace()
				if !strings.HasPrefix(a, "panic") {
					c.Fail(vh.Failure{Kind: "correspondence", What: "model: callNative with too many arguments should be a panic (index out of range)", Case: cs, Got: a})
				}
				continue
			}
			if o.parseErr != "" || o.parsePanic != "" {
				continue
			}
			c.Trace()
			if ok, got := cmpLean(cs, o, a); !ok {
				c.Fail(vh.Failure{Kind: "correspondence", What: "callNative: model and code disagree", Case: cs, Got: got, Want: a})
			}
		}
		// resolver rule
		var rreqs []string
		for _, cs := range cases {
			rreqs = append(rreqs, fmt.Sprintf("resolve %d func 0 %s", len(cs.args), cs.Sig))
		}
		for i, a := range c.LeanBatch(rreqs) {
			real := "ok"
			if outs[i].parseErr != "" {
				real = "toomany"
				if !strings.Contains(outs[i].parseErr, "more arguments than declared") {
					real = "other:" + outs[i].parseErr
				}
			}
			c.Trace()
			if real != a {
				c.Fail(vh.Failure{Kind: "correspondence", What: "resolver argument-count rule: model and code disagree", Case: cases[i], Got: real, Want: a})
			}
		}
	}

	// ---------------- 2. shapes at set-up -----------------------------------------------------------------------------------
	var shapes []*shapeCase
	addFunc := func(name string, ft reflect.Type, nilf bool, called bool) {
		v := reflect.MakeFunc(ft, func(a []reflect.Value) []reflect.Value {
			res := make([]reflect.Value, ft.NumOut())
			for i := range res {
				res[i] = reflect.Zero(ft.Out(i))
			}
			return res
		})
		nf := "0"
		var val any = v.Interface()
		if nilf {
			nf = "1"
			val = reflect.Zero(ft).Interface()
		}
		kw := false
		for _, k := range keywordNames {
			kw = kw || k == name
		}
		shapes = append(shapes, &shapeCase{Name: name, Desc: ft.String(), FVal: "func " + nf + " " + encSig(ft), Called: called, val: val,
			valid: documentedShape(ft) && !kw && !nilf})
	}
	intT := reflect.TypeOf(0)
	// invalid type in each position: parameter 0..2, variadic element, sole result, first of two results, second result, three results
	for _, bad := range invalidTypes {
		for pos := 0; pos < 3; pos++ {
			in := []reflect.Type{intT, reflect.TypeOf(""), reflect.TypeOf(NBool(false))}[:pos+1]
			in = append([]reflect.Type{}, in...)
			in[pos] = bad
			addFunc("f", reflect.FuncOf(in, nil, false), false, false)
		}
		addFunc("f", reflect.FuncOf([]reflect.Type{intT, reflect.SliceOf(bad)}, nil, true), false, false)
		addFunc("f", reflect.FuncOf([]reflect.Type{reflect.SliceOf(bad)}, []reflect.Type{intT}, true), false, true)
		addFunc("f", reflect.FuncOf(nil, []reflect.Type{bad}, false), false, false)
		addFunc("f", reflect.FuncOf(nil, []reflect.Type{bad, errorType}, false), false, true)
		addFunc("f", reflect.FuncOf([]reflect.Type{intT}, []reflect.Type{intT, bad}, false), false, false)
		addFunc("f", reflect.FuncOf(nil, []reflect.Type{intT, bad, errorType}, false), false, false)
	}
	for _, good := range allValid {
		addFunc("f", reflect.FuncOf([]reflect.Type{good}, []reflect.Type{good, good}, false), false, false) // second result not error
		addFunc("f", reflect.FuncOf([]reflect.Type{good}, []reflect.Type{good, errorType, errorType}, false), false, false)
		addFunc("g", reflect.FuncOf([]reflect.Type{good, reflect.SliceOf(good)}, []reflect.Type{good, errorType}, true), false, true) // valid
	}
	// [][]byte is fine as the variadic tail (element []byte) but not as a plain parameter
	addFunc("f", reflect.FuncOf([]reflect.Type{reflect.TypeOf([][]byte(nil))}, nil, true), false, true)
	addFunc("f", reflect.FuncOf([]reflect.Type{reflect.TypeOf([][]byte(nil))}, nil, false), false, false)
	// keyword names with a perfectly good function; near-keywords are fine
	for _, k := range keywordNames {
		addFunc(k, reflect.TypeOf(func(int) int { return 0 }), false, false)
	}
	for _, k := range []string{"Begin", "PRINT", "lengthx", "in_", "getlines", "func", "sub2"} {
		addFunc(k, reflect.TypeOf(func(int) int { return 0 }), false, true)
	}
	// random mixtures
	for k := 0; k < c.N(200, 3000); k++ {
		pickT := func() reflect.Type {
			if c.Rng.Intn(4) == 0 {
				return invalidTypes[c.Rng.Intn(len(invalidTypes))]
			}
			return genValidType(c)
		}
		np := c.Rng.Intn(4)
		in := make([]reflect.Type, np)
		for i := range in {
			in[i] = pickT()
		}
		variadic := np > 0 && c.Rng.Intn(3) == 0
		if variadic {
			in[np-1] = reflect.SliceOf(in[np-1])
		}
		var out []reflect.Type
		for i := c.Rng.Intn(4); i > 0; i-- {
			if c.Rng.Intn(2) == 0 {
				out = append(out, errorType)
			} else {
				out = append(out, pickT())
			}
		}
		name := "f"
		if c.Rng.Intn(10) == 0 {
			name = keywordNames[c.Rng.Intn(len(keywordNames))]
		}
		addFunc(name, reflect.FuncOf(in, out, variadic), false, c.Rng.Intn(2) == 0 && name == "f")
	}
	// non-functions
	for _, nv := range []struct {
		v    any
		kind string
	}{{42, "Int"}, {"str", "String"}, {3.5, "Float64"}, {struct{}{}, "Struct"}, {[]byte("x"), "Slice"}, {map[string]int{}, "Map"},
		{new(int), "Pointer"}, {errors.New("e"), "Pointer"}, {true, "Bool"}, {make(chan int), "Chan"}, {[2]int{}, "Array"}, {reflect.TypeOf(0), "Pointer"}} {
		for _, called := range []bool{false, true} {
			shapes = append(shapes, &shapeCase{Name: "f", Desc: fmt.Sprintf("%T", nv.v), FVal: "other " + nv.kind, Called: called, val: nv.v})
		}
	}
	// G17-1 / G17-2 witnesses (repaired: must be rejected with an error at set-up, called or not)
	for _, called := range []bool{false, true} {
		shapes = append(shapes, &shapeCase{Name: "f", Desc: "untyped nil", FVal: "nil", Called: called, val: nil})
	}
	addFunc("f", reflect.TypeOf(func(int) int { return 0 }), true, false)
	addFunc("f", reflect.TypeOf(func(int) int { return 0 }), true, true)

	souts := make([]shapeOut, len(shapes))
	vh.Parallel(len(shapes), func(i int) { souts[i] = runShape(shapes[i]) })
	var creqs, rreqs []string
	for i, sc := range shapes {
		o := souts[i]
		c.Eval("shape|"+sc.Name+"|"+sc.FVal+fmt.Sprint(sc.Called), !sc.valid)
		c.OracleCase()
		if sc.valid {
			c.Hit("shape:valid")
		} else {
			c.Hit("shape:invalid")
		}
		// G17-1 / G17-2 are repaired: a nil value (typed or not) is an invalid shape like any other and must be rejected at set-up
		fail := func(what, got, want string) {
			c.Fail(vh.Failure{Kind: "oracle", What: what, Case: sc, Got: got, Want: want})
		}
		switch {
		case o.parsePanic != "":
			fail("ParseProgram panicked", o.parsePanic, "no panic")
		case o.execPanic != "":
			fail("ExecProgram panicked", o.execPanic, "an error (or success) from ExecProgram")
		case sc.valid:
			if o.parseErr != "" || o.execErr != "" || o.out != "ran\n" {
				fail("a function of documented shape was rejected", o.parseErr+"|"+o.execErr+"|"+o.out, "accepted")
			}
		case !sc.valid:
			if o.execErr == "" {
				fail("a value that is not a function of documented shape (or is named like a keyword) was accepted at set-up", "out="+o.out, "an error")
			} else if o.out != "" {
				fail("the program started running before the invalid native function was rejected", o.out, "no output")
			}
		}
		creqs = append(creqs, "check "+vh.HxS(sc.Name)+" "+sc.FVal)
		rreqs = append(rreqs, "resolve 0 "+sc.FVal)
	}
	if c.HasLean() {
		for i, a := range c.LeanBatch(creqs) {
			o := souts[i]
			real := "ok"
			if o.execPanic != "" {
				real = "panic"
			} else if o.execErr != "" {
				real = "err " + classifyCheckErr(o.execErr)
			}
			c.Trace()
			if real != a {
				c.Fail(vh.Failure{Kind: "correspondence", What: "checkNativeFunc: model and code disagree", Case: shapes[i], Got: real, Want: a})
			}
		}
		for i, a := range c.LeanBatch(rreqs) {
			if !shapes[i].Called {
				continue
			}
			o := souts[i]
			real := "ok"
			switch {
			case o.parsePanic != "":
				real = "panic"
			case strings.Contains(o.parseErr, "is not a function"):
				real = "notfunc"
			case strings.Contains(o.parseErr, "more arguments than declared"):
				real = "toomany"
			case o.parseErr != "":
				real = "other:" + o.parseErr
			}
			c.Trace()
			if real != a {
				c.Fail(vh.Failure{Kind: "correspondence", What: "resolver check of a called Funcs value: model and code disagree", Case: shapes[i], Got: real, Want: a})
			}
		}
	}
	// a nil function can no longer reach callNative; the model keeps saying that it would panic there (nil_func_would_panic)
	if c.HasLean() {
		a := c.Lean("call 1 0 P Int R Int A 0000000000000000:f:- B i0 nil")
		c.Trace()
		if !strings.HasPrefix(a, "panic") {
			c.Fail(vh.Failure{Kind: "correspondence", What: "model: calling a nil function should be a panic", Got: a})
		}
	}
	// ---------------- 4. dispatch: maps with several entries, some overridden by AWK functions ----------------------------------
	runDispatch(c)

	// ---------------- 3. set-up histories: several Execute / ExecuteContext calls on ONE Interpreter -------------------------
	runHistories(c, shapes)

	keys := make([]string, 0)
	for _, k := range keywordNames {
		keys = append(keys, k)
	}
	sort.Strings(keys)
	c.Note(fmt.Sprintf("%d call cases, %d shape cases, %d table entries; keyword names tried: %d", len(cases), len(shapes), len(awkArgs), len(keys)))
}
