package main

// C05, reuse stream: "an integral number converts as an exact integer and any other number via CONVFMT (OFMT in print)"
// must hold on a REUSED interpreter (interp.New + several Execute calls) exactly as on a fresh one:
//   - after ResetVars the defaults apply again (CONVFMT = OFMT = "%.6g"), whatever earlier runs assigned;
//   - without ResetVars the value assigned by an earlier run still applies (Execute keeps variables);
//   - in every run a READ of CONVFMT / OFMT agrees with the conversions actually performed.
// A case is a sequence of 2–4 runs; each run may set CONVFMT and/or OFMT in BEGIN, in the action of the first record, or
// through Config.Vars, and may be preceded by ResetVars. The expected output is computed from the tracked pair
// (CONVFMT, OFMT) with the reference number → string conversion (math/big for integers, fmt for the rest).

import (
	"bytes"
	"fmt"
	"io"
	"strings"

	"github.com/benhoyt/goawk/interp"

	"verifharness/vh"
)

const awkReuse = `
BEGIN { if (cb != "") CONVFMT = cb; if (ob != "") OFMT = ob }
NR == 1 { if (ca != "") CONVFMT = ca; if (oa != "") OFMT = oa }
END {
  x = 3.14159265; z = 1234567.891; w = 0.1 + 0.2; h = 2^53; q = 1e300
  print CONVFMT "|" OFMT
  print (x "") "|" (z "") "|" (w "") "|" (17 "") "|" (h "") "|" (q "") "|" (-x "")
  print x, z, w, 17, h, q
  delete A; A[x]; A[17]; for (k in A) if (k != "17") print k
  s = x; s = s ""; print length(s)
}
`

type reuseRun struct {
	Reset bool   `json:"ResetVars_before"`
	How   string `json:"set_in"` // none | BEGIN | action | Vars
	Conv  string `json:"CONVFMT,omitempty"`
	Ofmt  string `json:"OFMT,omitempty"`
}

type reuseCase struct {
	Runs []reuseRun `json:"runs"`
	Run  int        `json:"failing_run,omitempty"`
}

func cFormat(f string) string { // what C printf does with the format (%g without precision = %.6g)
	switch f {
	case "%g":
		return "%.6g"
	case "%e":
		return "%.6e"
	case "%f":
		return "%.6f"
	}
	return f
}

func reuseExpected(conv, ofmt string) string {
	a, b2 := 0.1, 0.2 // float (not constant) arithmetic, as in the AWK program
	vals := []float64{3.14159265, 1234567.891, a + b2, 17, 1 << 53, 1e300}
	cs := func(v float64, f string) string { return refNumToStr(v, cFormat(f)) }
	var b strings.Builder
	fmt.Fprintf(&b, "%s|%s\n", conv, ofmt)
	var parts []string
	for _, v := range vals {
		parts = append(parts, cs(v, conv))
	}
	parts = append(parts, cs(-3.14159265, conv))
	b.WriteString(strings.Join(parts, "|") + "\n")
	parts = parts[:0]
	for _, v := range vals {
		parts = append(parts, cs(v, ofmt))
	}
	b.WriteString(strings.Join(parts, " ") + "\n")
	b.WriteString(cs(3.14159265, conv) + "\n")
	fmt.Fprintf(&b, "%d\n", len(cs(3.14159265, conv)))
	return b.String()
}

func checkReuse(c *vh.Ctx) {
	prog := vh.MustParse(awkReuse)
	formats := []string{"%.6g", "%.2f", "%.10g", "%.3e", "%g", "%.17g", "%5.1f", "%.0f", "%e"}
	hows := []string{"none", "BEGIN", "action", "Vars"}
	n := c.N(400, 6000)
	var cases []reuseCase
	// corpus: a cached copy of CONVFMT/OFMT that ResetVars forgets; assignment surviving without ResetVars
	cases = append(cases,
		reuseCase{Runs: []reuseRun{{false, "BEGIN", "%.2f", ""}, {true, "none", "", ""}}},
		reuseCase{Runs: []reuseRun{{false, "BEGIN", "", "%.2f"}, {true, "none", "", ""}}},
		reuseCase{Runs: []reuseRun{{false, "Vars", "%.3e", "%.2f"}, {true, "none", "", ""}, {false, "none", "", ""}}},
		reuseCase{Runs: []reuseRun{{false, "action", "%.2f", "%.3e"}, {false, "none", "", ""}, {true, "none", "", ""}}},
		reuseCase{Runs: []reuseRun{{false, "BEGIN", "%.2f", ""}, {false, "Vars", "", "%.10g"}, {true, "action", "%g", ""}, {false, "none", "", ""}}},
	)
	for len(cases) < n {
		k := 2 + c.Rng.Intn(3)
		var rc reuseCase
		for i := 0; i < k; i++ {
			r := reuseRun{Reset: i > 0 && c.Rng.Intn(2) == 0, How: hows[c.Rng.Intn(len(hows))]}
			if i == 0 && r.How == "none" {
				r.How = hows[1+c.Rng.Intn(3)]
			}
			if r.How != "none" {
				switch c.Rng.Intn(3) {
				case 0:
					r.Conv = formats[c.Rng.Intn(len(formats))]
				case 1:
					r.Ofmt = formats[c.Rng.Intn(len(formats))]
				default:
					r.Conv, r.Ofmt = formats[c.Rng.Intn(len(formats))], formats[c.Rng.Intn(len(formats))]
				}
			}
			rc.Runs = append(rc.Runs, r)
		}
		cases = append(cases, rc)
	}
	type res struct {
		outs []string
		errs []string
		pan  string
	}
	results := make([]res, len(cases))
	vh.Parallel(len(cases), func(i int) {
		defer func() {
			if r := recover(); r != nil {
				results[i].pan = fmt.Sprint(r)
			}
		}()
		p, err := interp.New(prog)
		if err != nil {
			results[i].pan = err.Error()
			return
		}
		for _, r := range cases[i].Runs {
			if r.Reset {
				p.ResetVars()
			}
			vars := []string{"cb", "", "ob", "", "ca", "", "oa", ""}
			switch r.How {
			case "BEGIN":
				vars[1], vars[3] = r.Conv, r.Ofmt
			case "action":
				vars[5], vars[7] = r.Conv, r.Ofmt
			case "Vars":
				if r.Conv != "" {
					vars = append(vars, "CONVFMT", r.Conv)
				}
				if r.Ofmt != "" {
					vars = append(vars, "OFMT", r.Ofmt)
				}
			}
			var out bytes.Buffer
			_, err := p.Execute(&interp.Config{Stdin: strings.NewReader("rec\n"), Output: &out, Error: io.Discard, Vars: vars, Environ: []string{}})
			results[i].outs = append(results[i].outs, out.String())
			e := ""
			if err != nil {
				e = err.Error()
			}
			results[i].errs = append(results[i].errs, e)
		}
	})
	for i, rc := range cases {
		c.OracleCase()
		key := fmt.Sprint(rc.Runs)
		hasReuse := false
		conv, ofmt := "%.6g", "%.6g"
		if results[i].pan != "" {
			c.Fail(vh.Failure{Kind: "oracle", What: "reused interpreter panicked: " + results[i].pan, Case: rc})
			continue
		}
		for k, r := range rc.Runs {
			if r.Reset {
				conv, ofmt = "%.6g", "%.6g"
				c.Hit("reuse:ResetVars")
			} else if k > 0 {
				c.Hit("reuse:no-reset")
			}
			if k > 0 && (conv != "%.6g" || ofmt != "%.6g" || r.Reset) {
				hasReuse = true
			}
			if r.Conv != "" {
				conv = r.Conv
			}
			if r.Ofmt != "" {
				ofmt = r.Ofmt
			}
			c.Hit("reuse:set-in:" + r.How)
			want := reuseExpected(conv, ofmt)
			if results[i].errs[k] != "" || results[i].outs[k] != want {
				fc := rc
				fc.Run = k + 1
				what := "on a reused interpreter number → string conversion does not follow the current CONVFMT (OFMT in print): "
				if r.Reset {
					what += "after ResetVars the defaults must apply"
				} else {
					what += "without ResetVars the last assigned value must apply"
				}
				what += "; lines: CONVFMT|OFMT read back; concatenations via CONVFMT; print via OFMT; array subscript via CONVFMT; length"
				c.Fail(vh.Failure{Kind: "oracle", What: what, Case: fc, Got: results[i].errs[k] + results[i].outs[k], Want: want})
				break
			}
		}
		c.Eval("reuse|"+key, hasReuse)
	}
}
